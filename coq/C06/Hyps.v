(** V.C06.Hyps — executable versions of the hypotheses of the theorems (evaluated by the
    harness on every dumped CFG) and the example CFGs.  Definitions only. *)
From Coq Require Import List Bool Arith.
From V.C09 Require Import Analysis.
From V.C06 Require Import Linearity Token TokenG.
Import ListNotations.

Definition kind_eqb (a b : kind) : bool :=
  match a, b with KCopy, KCopy | KAffine, KAffine | KLinear, KLinear => true | _, _ => false end.

(* the kind table read off the first occurrence of every leaf id *)
Definition K_of (ls : list leaf) (x : nat) : kind :=
  match find_leaf x ls with Some l => l_kind l | None => KCopy end.
Definition uniformb (c : lcfg) : bool :=
  forallb (fun l => kind_eqb (l_kind l) (K_of (all_leaves c) (l_id l))) (all_leaves c).

Definition wf_shapeb (c : lcfg) : bool :=
  match lb_events (nth_block c (c_exit c)) with [] => true | _ => false end &&
  match lb_succ (nth_block c (c_exit c)) with [] => true | _ => false end &&
  negb (Nat.eqb (c_entry c) (c_exit c)) &&
  forallb (fun b => negb (memb (c_entry c) (lb_succ b))) (c_blocks c).

(* every block reaches the exit: n rounds of backward marking *)
Fixpoint reach_round (c : lcfg) (n : nat) (marked : list nat) : list nat :=
  match n with
  | 0 => marked
  | S n' =>
      reach_round c n'
        (norm (marked ++ filter (fun b => existsb (fun s => memb s marked) (lb_succ (nth_block c b)))
                                (seq 0 (length (c_blocks c)))))
  end.
Definition h_exitb (c : lcfg) : bool :=
  let m := reach_round c (length (c_blocks c)) [c_exit c] in
  forallb (fun b => memb b m) (seq 0 (length (c_blocks c))).

(* every block is reachable from the entry: n rounds of forward marking *)
Fixpoint fwd_round (c : lcfg) (n : nat) (marked : list nat) : list nat :=
  match n with
  | 0 => marked
  | S n' => fwd_round c n' (norm (marked ++ flat_map (fun b => lb_succ (nth_block c b)) marked))
  end.
Definition all_reachedb (c : lcfg) : bool :=
  let m := fwd_round c (length (c_blocks c)) [c_entry c] in
  forallb (fun b => memb b m) (seq 0 (length (c_blocks c))).

(* structure of the event lists (ProofsComplete.shadow_wf / reassign_wf) *)
Fixpoint shadow_wfb (es : list event) : bool :=
  match es with
  | [] => true
  | e :: r =>
      match e with
      | EAssign p => existsb (fun e' => match e' with EShadow p' => Nat.eqb (p_id p') (p_id p) | _ => false end) r
      | _ => true
      end && shadow_wfb r
  end.
Fixpoint reassign_wfb (B : list nat) (es : list event) : bool :=
  match es with
  | [] => true
  | e :: r =>
      match e with
      | EUse p UBorrow => reassign_wfb (map l_id (leaves (p_tree p)) ++ B) r
      | EReassign p => forallb (fun l => memb (l_id l) B) (leaves (p_tree p)) && reassign_wfb B r
      | _ => reassign_wfb B r
      end
  end.
Definition events_wfb (c : lcfg) : bool :=
  forallb (fun blk => shadow_wfb (lb_events blk) && reassign_wfb [] (lb_events blk)) (c_blocks c).
Definition io_okb (c : lcfg) : bool :=
  forallb (fun l => negb (l_inout l) || input_is_borrowed (c_inputs c) (l_id l)) (all_leaves c).

Definition hyps_code (c : lcfg) : list nat :=
  map (fun b : bool => if b then 1 else 0)
      [uniformb c; wf_shapeb c; h_exitb c; all_reachedb c; events_wfb c; io_okb c; c_exit_reachable c;
       typedb c; edges_okb c; exit_row_okb c; wf_idxb c].

(** * examples *)
Definition lf (x : nat) (k : kind) : leaf := mkLeaf x k false.
Definition var (x : nat) (k : kind) : place := mkPlace x (PLeaf (lf x k)) false.

(* def f(p: qubit, c: bool) -> None:     ids: p = 0 (borrowed), c = 1, q = 2, s.a = 3, s.b = 4, s = 5
       q = qubit(); s = S(q, qubit())
       while c: h(s.a); cx(p, s.b)
       measure(s.a); discard(s.b)                                                             *)
Definition p_p : place := mkPlace 0 (PLeaf (mkLeaf 0 KLinear true)) true.
Definition p_c : place := var 1 KCopy.
Definition p_q : place := var 2 KLinear.
Definition t_s : ptree := PNode [PLeaf (lf 3 KLinear); PLeaf (lf 4 KLinear)].
Definition p_s : place := mkPlace 5 t_s false.
Definition p_sa : place := var 3 KLinear.
Definition p_sb : place := var 4 KLinear.
Definition row_pcs : list ptree := [p_tree p_p; p_tree p_c; t_s].

Definition ex_blocks : list ablock :=
  [ (* 0 entry *) mkAB [p_tree p_p; p_tree p_c]
      [SAssign [p_q] (XCall [] []); SAssign [p_s] (XCall [(false, false); (false, false)] [XPlace p_q; XCall [] []])] [2];
    (* 1 exit *) mkAB [p_tree p_p] [] [];
    (* 2 loop head *) mkAB row_pcs [SPred (XPlace p_c)] [4; 3];
    (* 3 body *) mkAB row_pcs
      [SExpr (XCall [(true, false)] [XPlace p_sa]) true;
       SExpr (XCall [(true, false); (true, false)] [XPlace p_p; XPlace p_sb]) true] [2];
    (* 4 after *) mkAB [p_tree p_p; t_s]
      [SExpr (XCall [(false, false)] [XPlace p_sa]) true; SExpr (XCall [(false, false)] [XPlace p_sb]) true;
       SReturn []] [1] ].
Definition ex_fin : finputs := [(0, true, p_tree p_p); (1, false, p_tree p_c)].
Definition ex_cfg : lcfg := mkLC (map flatten_block ex_blocks) 0 1 true ex_fin.

(* the same with the final `discard(s.b)` forgotten: leak on the path through block 4 *)
Definition ex_leak_blocks : list ablock :=
  firstn 4 ex_blocks ++
  [mkAB [p_tree p_p; t_s] [SExpr (XCall [(false, false)] [XPlace p_sa]) true; SReturn []] [1]].
Definition ex_leak : lcfg := mkLC (map flatten_block ex_leak_blocks) 0 1 true ex_fin.

(* def f1(q: qubit @owned, c: bool) -> int:   if c: pass;  measure(q); q = 1; return 2
   ids: q = 0, c = 1.  Blocks: 0 entry [if c] -> 3, 2; 1 exit; 2 (else: empty) -> 4; 3 (pass) -> 4;
   4: measure(q); q = 1; return 2 -> 1 *)
Definition q_lin : place := var 0 KLinear.
Definition q_int : place := var 0 KCopy.
Definition f1_blocks : list ablock :=
  [ mkAB [p_tree q_lin; p_tree p_c] [SPred (XPlace p_c)] [3; 2];
    mkAB [] [] [];
    mkAB [p_tree q_lin] [] [4];
    mkAB [p_tree q_lin] [] [4];
    mkAB [p_tree q_lin] [SExpr (XCall [(false, false)] [XPlace q_lin]) true; SAssign [q_int] (XNode []); SReturn [XNode []]] [1] ].
Definition f1_cfg : lcfg := mkLC (map flatten_block f1_blocks) 0 1 true [(0, false, p_tree q_lin); (1, false, p_tree p_c)].

(* def g1(c: bool) -> None:  n = 1; m = n + 1; if c: k = n + 1; n = qubit(); discard(n)
   ids: c = 0, n = 1, m = 2, k = 3.  0 entry -> 3 (else), 2 (then); 1 exit; 2: then; 3: empty; 4: return *)
Definition n_int : place := var 1 KCopy.
Definition n_lin : place := var 1 KLinear.
Definition g1_blocks : list ablock :=
  [ mkAB [p_tree (var 0 KCopy)]
      [SAssign [n_int] (XNode []); SAssign [var 2 KCopy] (XNode [XPlace n_int]); SPred (XPlace (var 0 KCopy))] [3; 2];
    mkAB [] [] [];
    mkAB [p_tree n_int]
      [SAssign [var 3 KCopy] (XNode [XPlace n_int]); SAssign [n_lin] (XCall [] []);
       SExpr (XCall [(false, false)] [XPlace n_lin]) true] [4];
    mkAB [] [] [4];
    mkAB [] [SReturn []] [1] ].
Definition g1_cfg : lcfg := mkLC (map flatten_block g1_blocks) 0 1 true [(0, false, p_tree (var 0 KCopy))].

(* `if c: pass; q = 1; return 2` with q: qubit @owned never consumed: the re-binding overwrites it *)
Definition f1bad_blocks : list ablock :=
  firstn 4 f1_blocks ++ [mkAB [p_tree q_lin] [SAssign [q_int] (XNode []); SReturn [XNode []]] [1]].
Definition f1bad_cfg : lcfg :=
  mkLC (map flatten_block f1bad_blocks) 0 1 true [(0, false, p_tree q_lin); (1, false, p_tree p_c)].
