(** V.C06.ProofsSound — soundness: an accepted CFG respects the token discipline on every path. *)
From Coq Require Import List Bool Arith Lia.
From V.C09 Require Import Analysis SetLemmas ProofsLive.
From V.C06 Require Import Linearity Token ProofsBlock ProofsFlow.
Import ListNotations.

Lemma accept_inv : forall fx c sched, check_cfg fx c sched = Accept ->
  exists ss0 ss, check_blocks (c_inputs c) (c_entry c) 0 (c_blocks c) = inl ss0 /\
    exit_used c ss0 = Some ss /\ wf_cfg (stats_cfg c ss) = true /\
    c_exit c < length (c_blocks c) /\ c_entry c < length (c_blocks c) /\
    check_dataflow fx c ss (live_of c ss sched) 0 (c_blocks c) = Accept.
Proof.
  intros fx c sched H. unfold check_cfg in H.
  destruct (check_blocks (c_inputs c) (c_entry c) 0 (c_blocks c)) as [ss0 | [b e]] eqn:E1; [|discriminate].
  destruct (exit_used c ss0) as [ss|] eqn:E2; [|discriminate].
  destruct (wf_cfg (stats_cfg c ss) && (c_exit c <? length (c_blocks c)) && (c_entry c <? length (c_blocks c))) eqn:E3; [|discriminate].
  apply andb_true_iff in E3. destruct E3 as [E3 E5]. apply andb_true_iff in E3. destruct E3 as [E3 E4].
  apply Nat.ltb_lt in E4. apply Nat.ltb_lt in E5.
  exists ss0, ss. repeat split; auto.
Qed.

Section Sound.
Variable K : nat -> kind.
Variable fx : bool.
Variable c : lcfg.
Variable sched : list nat.
Variables ss0 ss : list scope.
Hypothesis HK : uniform K c.
Hypothesis HW : wf_shape c.
Hypothesis H1 : check_blocks (c_inputs c) (c_entry c) 0 (c_blocks c) = inl ss0.
Hypothesis H2 : exit_used c ss0 = Some ss.
Hypothesis H3 : wf_cfg (stats_cfg c ss) = true.
Hypothesis H4 : c_exit c < length (c_blocks c).
Hypothesis H5 : c_entry c < length (c_blocks c).
Hypothesis H6 : check_dataflow fx c ss (live_of c ss sched) 0 (c_blocks c) = Accept.

Notation fin := (c_inputs c).
Notation N := (length (c_blocks c)).
Notation L := (live_of c ss sched).
Notation evs b := (lb_events (nth_block c b)).
Notation succs b := (lb_succ (nth_block c b)).

Lemma len0 : length ss0 = N.
Proof. apply (check_blocks_spec _ _ _ _ _ H1). Qed.

Lemma exit_sx : exists sx, use_all (nth_scope ss0 (c_exit c)) (borrowed_leaves fin) = Some sx /\
  ss = setv ss0 (c_exit c) sx.
Proof.
  unfold exit_used in H2. destruct (use_all (nth_scope ss0 (c_exit c)) (borrowed_leaves fin)) eqn:E; [|discriminate].
  inversion H2. eauto.
Qed.

Lemma len1 : length ss = N.
Proof. destruct exit_sx as [sx [_ E]]. rewrite E, setv_length. apply len0. Qed.

Lemma nth_ss : forall b, b <> c_exit c -> nth_scope ss b = nth_scope ss0 b.
Proof.
  intros b Hb. destruct exit_sx as [sx [_ E]]. unfold nth_scope. rewrite E, nth_setv by (rewrite len0; exact H4).
  apply Nat.eqb_neq in Hb. rewrite Hb. reflexivity.
Qed.

Lemma nth_blk : forall b, b < N -> nth_error (c_blocks c) b = Some (nth_block c b).
Proof. intros b Hb. unfold nth_block. apply nth_error_nth'. exact Hb. Qed.

Lemma block_run : forall b, b < N ->
  run_events fin (init_scope (Nat.eqb b (c_entry c)) (lb_in (nth_block c b))) (evs b) = Ok (nth_scope ss0 b).
Proof.
  intros b Hb. destruct (check_blocks_spec _ _ _ _ _ H1) as [_ B].
  specialize (B b _ (nth_blk b Hb)). simpl in B. exact B.
Qed.

Lemma dataflow : forall b, b < N ->
  check1 (nth_scope ss b) L (succs b) = Some [] /\
  check2 fx (nth_scope ss b) L b (succs b) = [] /\
  row_ok c (nth_scope ss b) L b = true.
Proof. intros b Hb. apply (check_dataflow_spec _ _ _ _ _ _ H6 b _ (nth_blk b Hb)). Qed.

Lemma succ_lt : forall b n, b < N -> In n (succs b) -> n < N.
Proof.
  intros b n Hb Hn. rewrite <- (stats_nblocks c ss len1).
  apply (wf_succ_lt false (stats_cfg c ss) b n H3).
  - rewrite (stats_nblocks c ss len1). exact Hb.
  - unfold flow_succ. rewrite (stats_blk c ss b len1 Hb). simpl. rewrite app_nil_r. exact Hn.
Qed.

Lemma live_eq' : forall b x, b < N ->
  (In x (getv L b) <->
   In x (s_up (nth_scope ss b)) \/
   (~ In x (map l_id (s_vars (nth_scope ss b))) /\ exists n, In n (succs b) /\ In x (getv L n))).
Proof.
  intros b x Hb. unfold live_of.
  rewrite (live_eq (stats_cfg c ss) (live_default c) sched b x H3) by (rewrite (stats_nblocks c ss len1); exact Hb).
  rewrite (stats_blk c ss b len1 Hb). simpl. reflexivity.
Qed.

(** uniformity of kinds, per block *)
Lemma blockK : forall b, b < N -> leavesK K (flat_map leaves (lb_in (nth_block c b))) /\ eventsK K (evs b).
Proof.
  intros b Hb. assert (Hin : In (nth_block c b) (c_blocks c)) by (apply nth_In; exact Hb).
  split.
  - intros l Hl. apply HK. unfold all_leaves. apply in_or_app. left. apply in_flat_map.
    exists (nth_block c b). split; auto. unfold block_leaves. apply in_or_app. auto.
  - intros e He l Hl. apply HK. unfold all_leaves. apply in_or_app. left. apply in_flat_map.
    exists (nth_block c b). split; auto. unfold block_leaves. apply in_or_app. right.
    apply in_flat_map. exists e. auto.
Qed.

(** the exit block *)
Lemma exit_scope0 : nth_scope ss0 (c_exit c) = init_scope false (lb_in (nth_block c (c_exit c))).
Proof.
  pose proof (block_run (c_exit c) H4) as B. destruct HW as [We [_ [Wn _]]]. rewrite We in B. simpl in B.
  assert (Nat.eqb (c_exit c) (c_entry c) = false) by (apply Nat.eqb_neq; auto).
  rewrite H in B. inversion B. reflexivity.
Qed.

Lemma exit_up : forall x, In x (s_up (nth_scope ss (c_exit c))) <-> In x (borrowed_ids c).
Proof.
  intros x. destruct exit_sx as [sx [U E]]. unfold nth_scope at 1. rewrite E, nth_setv by (rewrite len0; exact H4).
  rewrite Nat.eqb_refl. rewrite exit_scope0 in U.
  destruct (use_all_fields _ (init_scope false (lb_in (nth_block c (c_exit c)))) _ eq_refl U) as [_ B]. rewrite B. simpl. unfold borrowed_ids. tauto.
Qed.

Lemma exit_vars : s_vars (nth_scope ss (c_exit c)) = [].
Proof.
  destruct exit_sx as [sx [U E]]. unfold nth_scope at 1. rewrite E, nth_setv by (rewrite len0; exact H4).
  rewrite Nat.eqb_refl. rewrite exit_scope0 in U.
  destruct (use_all_fields _ (init_scope false (lb_in (nth_block c (c_exit c)))) _ eq_refl U) as [A _]. exact A.
Qed.

(** * the invariant at block boundaries *)
Definition J (b : nat) (t : tstate) : Prop :=
  forall x, K x <> KCopy ->
    (In x (getv L b) -> t x = true) /\ (t x = true -> K x = KLinear -> In x (getv L b)).
Definition Jb (b : nat) (t : tstate) : Prop :=
  if Nat.eqb b (c_entry c) then (forall x, t x = false) else J b t.

Lemma lookup_cases : forall s x l, lookup s x = Some l ->
  (has_leaf x (s_vars s) = true /\ In l (s_vars s) /\ l_id l = x /\ used s x = Some (memb x (s_ul s))) \/
  (has_leaf x (s_vars s) = false /\ s_entry s = false /\ In l (s_pvars s) /\ l_id l = x /\
   used s x = Some (memb x (s_pul s))).
Proof.
  intros s x l H. unfold lookup in H. unfold used, has_leaf.
  destruct (find_leaf x (s_vars s)) as [l0|] eqn:E.
  - inversion H; subst. apply find_leaf_some in E. left. tauto.
  - destruct (s_entry s); [discriminate|]. rewrite H. apply find_leaf_some in H. right. tauto.
Qed.

Lemma block_step : forall b t, b < N -> Jb b t ->
  exists t', sem_events fin (block_start c b t) (evs b) = Fine t' /\
    forall n, In n (succs b) -> n < N /\ Jb n t'.
Proof.
  intros b t Hb HJ.
  destruct (Nat.eq_dec b (c_exit c)) as [Hex | Hex].
  { (* the exit block: no events, no successors *)
    subst b. destruct HW as [We [Ws _]]. rewrite We, Ws. simpl. eexists. split; [reflexivity|]. intros n []. }
  pose proof (block_run b Hb) as Hrun. set (sf := nth_scope ss0 b) in *.
  assert (Hsf : nth_scope ss b = sf) by (apply nth_ss; exact Hex).
  destruct (blockK b Hb) as [KI KE].
  set (row := flat_map leaves (lb_in (nth_block c b))) in *.
  (* the starting point *)
  assert (Hstart : R K t (init_scope (Nat.eqb b (c_entry c)) (lb_in (nth_block c b))) (block_start c b t) /\
                   scopeK K (init_scope (Nat.eqb b (c_entry c)) (lb_in (nth_block c b))) /\
                   inv2 (init_scope (Nat.eqb b (c_entry c)) (lb_in (nth_block c b)))).
  { assert (R0 : R K t e0 t).
    { intros x _. split; [discriminate|]. intros _. simpl. rewrite andb_true_r. reflexivity. }
    assert (S0 : scopeK K e0) by (split; intros l []).
    destruct (assign_leaves_sim K row t e0 t KI R0 S0) as [A [B _]].
    unfold block_start. destruct (Nat.eqb b (c_entry c)) eqn:Ee.
    - rewrite init_scope_entry. fold row. split; [exact A|]. split; [exact B|].
      apply assign_leaves_inv2. split; reflexivity.
    - unfold init_scope. change (mkScope true [] [] [] [] []) with e0. fold row. split; [|split].
      + intros x _. split; [discriminate|]. intros _. simpl. rewrite andb_true_r. reflexivity.
      + split; [intros l []|]. simpl. apply B.
      + split; [reflexivity | discriminate]. }
  destruct Hstart as [HR0 [HS0 HI0]].
  pose proof (run_events_ext fin _ _ _ Hrun) as Hext.
  pose proof (run_events_inv2 fin _ _ _ Hrun HI0) as [Iup Ient].
  assert (Hentry_sf : s_entry sf = Nat.eqb b (c_entry c)).
  { destruct Hext as [_ [_ [_ [E _]]]]. rewrite E. unfold init_scope. destruct (Nat.eqb b (c_entry c)); reflexivity. }
  assert (HU : Hup K t sf).
  { intros x Hx Kx. unfold Jb in HJ. destruct (Nat.eqb b (c_entry c)) eqn:Ee.
    - rewrite (Ient Hentry_sf) in Hx. destruct Hx.
    - apply (proj1 (HJ x Kx)). apply (live_eq' b x Hb). left. rewrite Hsf, Iup. exact Hx. }
  assert (HD : Hdef K t sf).
  { intros x Kx Tx Hv. unfold Jb in HJ. destruct (Nat.eqb b (c_entry c)) eqn:Ee.
    - rewrite HJ in Tx. discriminate.
    - assert (Kc : K x <> KCopy) by congruence.
      pose proof (proj2 (HJ x Kc) Tx Kx) as Hl. apply (live_eq' b x Hb) in Hl. rewrite Hsf in Hl.
      destruct Hl as [Hl | [Hl _]]; [rewrite <- Iup; exact Hl|]. exfalso. apply Hl.
      apply has_leaf_true in Hv. destruct Hv as [l [A B]]. apply in_map_iff. exists l. auto. }
  destruct (run_events_sim K fin (evs b) t _ sf (block_start c b t) Hrun HU HD KE HR0 HS0) as [t' [Hsem [HR HS]]].
  exists t'. split; [exact Hsem|]. intros n Hn.
  assert (Hn' : n < N) by (eapply succ_lt; eauto). split; [exact Hn'|].
  assert (Nent : Nat.eqb n (c_entry c) = false).
  { apply Nat.eqb_neq. intros E. subst n. destruct HW as [_ [_ [_ W]]]. apply (W b). exact Hn. }
  unfold Jb. rewrite Nent.
  destruct (dataflow b Hb) as [C1 [C2 C3]]. rewrite Hsf in C1, C2, C3.
  unfold check1 in C1.
  destruct (forallb (fun x => match lookup sf x with Some _ => true | None => false end)
                    (flat_map (getv L) (succs b))) eqn:Hall; [|discriminate].
  inversion C1 as [C1']. clear C1. rewrite forallb_forall in Hall.
  assert (Hlive : forall x, In x (getv L n) -> In x (flat_map (getv L) (succs b))).
  { intros x Hx. apply in_flat_map. exists n. auto. }
  intros x Kx. split.
  - (* live in the successor => the token is there *)
    intros Hx. pose proof (Hall x (Hlive x Hx)) as Hlk.
    destruct (lookup sf x) as [l|] eqn:El; [|discriminate]. clear Hlk.
    pose proof (filter_nil_false _ _ _ x C1' (Hlive x Hx)) as Hp. simpl in Hp. rewrite El in Hp.
    destruct (lookup_cases sf x l El) as [[Hv [Hin [Hid Hu]]] | [Hv [He [Hin [Hid Hu]]]]]; rewrite Hu in Hp.
    + destruct HS as [SK _]. assert (Hk : l_kind l = K x) by (rewrite (SK l Hin), Hid; reflexivity).
      rewrite (proj1 (HR x Kx) Hv). destruct (memb x (s_ul sf)); auto.
      rewrite Hk in Hp. destruct (K x); simpl in Hp; congruence.
    + destruct HS as [_ SK]. assert (Hk : l_kind l = K x) by (rewrite (SK l Hin), Hid; reflexivity).
      rewrite (proj2 (HR x Kx) Hv).
      assert (Hm : memb x (s_pul sf) = false).
      { destruct (memb x (s_pul sf)); auto. rewrite Hk in Hp. destruct (K x); simpl in Hp; congruence. }
      rewrite Hm. simpl. rewrite andb_true_r.
      unfold Jb in HJ. rewrite <- Hentry_sf, He in HJ.
      apply (proj1 (HJ x Kx)). apply (live_eq' b x Hb). right. rewrite Hsf. split.
      * intros Hd. apply in_map_iff in Hd. destruct Hd as [l' [A B]].
        assert (has_leaf x (s_vars sf) = true) by (apply has_leaf_true; eauto). congruence.
      * exists n. auto.
  - (* a linear token is live in the successor *)
    intros Tx Kl. destruct (in_dec Nat.eq_dec x (getv L n)) as [Hin | Hnin]; [exact Hin|]. exfalso.
    assert (Hnf : negb (forallb (fun c0 => memb x (getv L c0)) (succs b)) = true).
    { rewrite (forallb_false_intro _ _ _ n Hn); auto. apply memb_false. exact Hnin. }
    destruct (has_leaf x (s_vars sf)) eqn:Hv.
    + rewrite (proj1 (HR x Kx) Hv) in Tx.
      destruct (has_leaf_find _ _ Hv) as [l Hf]. destruct (find_leaf_some _ _ _ Hf) as [Hl Hid].
      destruct HS as [SK _].
      assert (In (l_id l) (check2 fx sf L b (succs b))).
      { unfold check2. apply in_map. apply filter_In. split.
        - unfold scope_entries. apply in_or_app. left. exact Hl.
        - rewrite Hid. rewrite Hv. rewrite orb_true_r. simpl.
          rewrite (SK l Hl), Hid, Kl. simpl.
          unfold used. rewrite Hv. destruct (memb x (s_ul sf)); [discriminate|]. simpl. exact Hnf. }
      rewrite C2 in H. destruct H.
    + rewrite (proj2 (HR x Kx) Hv) in Tx. apply andb_true_iff in Tx. destruct Tx as [T0 Tm].
      unfold Jb in HJ. destruct (Nat.eqb b (c_entry c)) eqn:Ee; [rewrite HJ in T0; discriminate|].
      pose proof (proj2 (HJ x Kx) T0 Kl) as Hlb.
      unfold row_ok in C3. rewrite Ee in C3. assert (Nat.eqb b (c_exit c) = false) by (apply Nat.eqb_neq; auto).
      rewrite H in C3. simpl in C3. rewrite forallb_forall in C3. pose proof (C3 x Hlb) as Hp.
      destruct (has_leaf_find _ _ Hp) as [l Hf]. destruct (find_leaf_some _ _ _ Hf) as [Hl Hid].
      destruct HS as [_ SK].
      assert (In (l_id l) (check2 fx sf L b (succs b))).
      { unfold check2. apply in_map. apply filter_In. split.
        - unfold scope_entries. apply in_or_app. right. destruct fx; auto.
          apply filter_In. split; auto. rewrite Hid, Hv. reflexivity.
        - rewrite Hid. rewrite (proj2 (memb_In x (getv L b)) Hlb). simpl.
          rewrite (SK l Hl), Hid, Kl. simpl.
          unfold used. rewrite Hv, Hentry_sf, Hp. apply negb_true_iff in Tm. rewrite Tm. simpl. exact Hnf. }
      rewrite C2 in H0. destruct H0.
Qed.

Lemma Jb_entry : Jb (c_entry c) empty_tokens.
Proof. unfold Jb. rewrite Nat.eqb_refl. reflexivity. Qed.

Lemma path_safe : forall rest b t k, b < N -> Jb b t -> is_walk c b rest ->
  exists t', run_path c t b rest k = Fine t'.
Proof.
  induction rest as [|n r IH]; intros b t k Hb HJ Hw; simpl.
  - destruct (block_step b t Hb HJ) as [t' [A _]]. eapply sem_events_prefix; eauto.
  - destruct (block_step b t Hb HJ) as [t' [A B]]. rewrite A. destruct Hw as [Hn Hw].
    destruct (B n Hn) as [Hn' HJ']. apply IH; auto.
Qed.

Lemma last_cons_default : forall (r : list nat) n b, last (n :: r) b = last r n.
Proof.
  induction r as [|a r IH]; intros n b; [reflexivity|].
  change (last (n :: a :: r) b) with (last (a :: r) b). rewrite !IH. reflexivity.
Qed.

Lemma path_final : forall rest b t k t', b < N -> Jb b t -> is_walk c b rest ->
  last rest b = c_exit c -> run_path c t b rest k = Fine t' -> final_ok K c t'.
Proof.
  induction rest as [|n r IH]; intros b t k t' Hb HJ Hw Hlast Hrun.
  - simpl in *. subst b. destruct HW as [We [Ws [Wn _]]]. rewrite We in Hrun. rewrite firstn_nil in Hrun. simpl in Hrun.
    unfold block_start in Hrun. assert (Nat.eqb (c_exit c) (c_entry c) = false) by (apply Nat.eqb_neq; auto).
    rewrite H in Hrun. inversion Hrun; subst t'. unfold Jb in HJ. rewrite H in HJ.
    intros x Kx. destruct (HJ x Kx) as [A B]. split.
    + intros Hx. apply A. apply (live_eq' _ x H4). left. apply exit_up. exact Hx.
    + intros Tx Kl. pose proof (B Tx Kl) as Hl. apply (live_eq' _ x H4) in Hl.
      destruct Hl as [Hl | [_ [m [Hm _]]]]; [apply exit_up; exact Hl|]. rewrite Ws in Hm. destruct Hm.
  - rewrite last_cons_default in Hlast. simpl in Hrun, Hw.
    destruct (block_step b t Hb HJ) as [t1 [A B]]. rewrite A in Hrun. destruct Hw as [Hn Hw].
    destruct (B n Hn) as [Hn' HJ']. apply (IH n t1 k t'); auto.
Qed.

(** for every branching block the linear leaves live into the successors coincide *)
Lemma succ_rows_agree : forall b n m x, b < N -> In n (succs b) -> In m (succs b) ->
  K x = KLinear -> In x (getv L n) -> In x (getv L m).
Proof.
  intros b n m x Hb Hn Hm Kl Hx.
  destruct (Nat.eq_dec b (c_exit c)) as [Hex | Hex].
  { subst b. destruct HW as [_ [Ws _]]. rewrite Ws in Hn. destruct Hn. }
  destruct (dataflow b Hb) as [C1 [C2 C3]]. set (sf := nth_scope ss b) in *.
  pose proof (block_run b Hb) as Hrun. rewrite <- (nth_ss b Hex) in Hrun. fold sf in Hrun.
  destruct (blockK b Hb) as [KI KE].
  destruct (in_dec Nat.eq_dec x (getv L m)) as [Hin | Hnin]; [exact Hin|]. exfalso.
  assert (Hnf : negb (forallb (fun c0 => memb x (getv L c0)) (succs b)) = true).
  { rewrite (forallb_false_intro _ _ _ m Hm); auto. apply memb_false. exact Hnin. }
  unfold check1 in C1.
  destruct (forallb (fun x => match lookup sf x with Some _ => true | None => false end)
                    (flat_map (getv L) (succs b))) eqn:Hall; [|discriminate].
  inversion C1 as [C1']. clear C1. rewrite forallb_forall in Hall.
  assert (Hfl : In x (flat_map (getv L) (succs b))) by (apply in_flat_map; exists n; auto).
  pose proof (Hall x Hfl) as Hlk. destruct (lookup sf x) as [l|] eqn:El; [|discriminate]. clear Hlk.
  pose proof (filter_nil_false _ _ _ x C1' Hfl) as Hp. simpl in Hp. rewrite El in Hp.
  (* kinds of the stored leaves *)
  assert (HS : scopeK K sf).
  { assert (S0 : scopeK K e0) by (split; intros l0 []).
    assert (R0 : R K empty_tokens e0 empty_tokens).
    { intros y _. split; [discriminate|]. intros _. reflexivity. }
    destruct (assign_leaves_sim K _ empty_tokens e0 empty_tokens KI R0 S0) as [_ [B _]].
    assert (Si : scopeK K (init_scope (Nat.eqb b (c_entry c)) (lb_in (nth_block c b)))).
    { destruct (Nat.eqb b (c_entry c)).
      - rewrite init_scope_entry. exact B.
      - unfold init_scope. change (mkScope true [] [] [] [] []) with e0. split; [intros l0 []|]. simpl. apply B. }
    clear - Hrun Si KE. revert Hrun Si. generalize (init_scope (Nat.eqb b (c_entry c)) (lb_in (nth_block c b))).
    revert KE. generalize (lb_events (nth_block c b)). induction l as [|e r IH]; intros KE s0 Hrun Si; simpl in Hrun.
    - inversion Hrun; subst; auto.
    - destruct (step_event (c_inputs c) s0 e) as [s1|] eqn:E; [|discriminate].
      apply (IH (fun e' H => KE e' (or_intror H)) s1 Hrun).
      assert (Ke : leavesK K (event_place e)) by (apply KE; simpl; auto).
      clear - E Si Ke. destruct e as [p k | p | p | p | e]; simpl in E.
      + destruct (p_inout p && negb (is_borrow k)); [discriminate|].
        revert s0 E Si. simpl in Ke. revert Ke. generalize (leaves (p_tree p)).
        induction l as [|a r IH]; intros Ke s0 E Si; simpl in E.
        * inversion E; subst; auto.
        * destruct (used s0 (l_id a)); [|discriminate].
          destruct (b && negb (is_copy (l_kind a))); [discriminate|].
          destruct (use_leaf s0 (l_id a)) eqn:E2; [|discriminate].
          apply (IH (fun l' H => Ke l' (or_intror H)) s E). eapply use_leaf_K; eauto.
      + match type of E with (if ?b then _ else _) = _ => destruct b end; [discriminate|].
        revert s0 E Si. simpl in Ke. revert Ke. generalize (leaves (p_tree p)).
        induction l as [|a r IH]; intros Ke s0 E Si; simpl in E.
        * inversion E; subst; auto.
        * match type of E with (if ?b then _ else _) = _ => destruct b end; [discriminate|].
          apply (IH (fun l' H => Ke l' (or_intror H)) _ E). apply assign_leaf_K; auto. apply Ke. simpl. auto.
      + destruct (input_is_borrowed (c_inputs c) (p_id p)); [discriminate|]. inversion E; subst; auto.
      + inversion E; subst. simpl in Ke.
        assert (R1 : R K empty_tokens s0 (fun y => if has_leaf y (s_vars s0) then negb (memb y (s_ul s0)) else false)).
        { intros y _. split; intros Hy; rewrite Hy; reflexivity. }
        destruct (assign_leaves_sim K _ empty_tokens s0 _ Ke R1 Si) as [_ [B _]]. exact B.
      + discriminate. }
  destruct (lookup_cases sf x l El) as [[Hv [Hin [Hid Hu]]] | [Hv [He [Hin [Hid Hu]]]]]; rewrite Hu in Hp.
  - destruct HS as [SK _]. assert (Hk : l_kind l = K x) by (rewrite (SK l Hin), Hid; reflexivity).
    assert (Hm' : memb x (s_ul sf) = false).
    { destruct (memb x (s_ul sf)); auto. rewrite Hk, Kl in Hp. discriminate. }
    assert (In (l_id l) (check2 fx sf L b (succs b))).
    { unfold check2. apply in_map. apply filter_In. split.
      - unfold scope_entries. apply in_or_app. left. exact Hin.
      - rewrite Hid. rewrite Hv. rewrite orb_true_r. simpl. rewrite Hk, Kl. simpl.
        rewrite Hu, Hm'. simpl. exact Hnf. }
    rewrite C2 in H. destruct H.
  - destruct HS as [_ SK]. assert (Hk : l_kind l = K x) by (rewrite (SK l Hin), Hid; reflexivity).
    assert (Hm' : memb x (s_pul sf) = false).
    { destruct (memb x (s_pul sf)); auto. rewrite Hk, Kl in Hp. discriminate. }
    assert (Hlb : In x (getv L b)).
    { apply (live_eq' b x Hb). right. fold sf. split.
      - intros Hd. apply in_map_iff in Hd. destruct Hd as [l' [A B]].
        assert (has_leaf x (s_vars sf) = true) by (apply has_leaf_true; eauto). congruence.
      - exists n. auto. }
    assert (In (l_id l) (check2 fx sf L b (succs b))).
    { unfold check2. apply in_map. apply filter_In. split.
      - unfold scope_entries. apply in_or_app. right. destruct fx; auto.
        apply filter_In. split; auto. rewrite Hid, Hv. reflexivity.
      - rewrite Hid. rewrite (proj2 (memb_In x (getv L b)) Hlb). simpl. rewrite Hk, Kl. simpl.
        rewrite Hu, Hm'. simpl. exact Hnf. }
    rewrite C2 in H. destruct H.
Qed.

End Sound.
