(** V.C06.TokenG — the token discipline for CFGs in which a name may be re-bound at another
    linearity kind (`q: qubit ... q = 1`), the situation of both defects repaired by fix-1 / fix-2.
    Definitions only.

    The state records, per leaf id, the kind of the value the place currently holds:
    [KCopy] = no token (unassigned, consumed, lent, or a copyable value), [KAffine]/[KLinear] =
    full with a value of that kind.
    * use of a non-copyable leaf: the place must hold a token ([VUseEmpty]); it becomes empty;
    * assignment of a leaf at ANY kind: a linear token still held is overwritten ([VOverwrite]);
      afterwards the place holds the kind of the new binding (a copyable binding: no token, an
      affine token that was there is dropped);
    * hand-back: the place holds the kind of the handed-back leaf;
    * ownership rules and dropped unnamed values as in [Token].
    [gfinal_ok]: at the exit every non-copyable leaf of a borrowed parameter holds its token and no
    other place holds a linear token.

    Typing hypotheses (guaranteed by the type checker's rows, evaluated on every dumped CFG):
    [typed]: a used leaf is bound in the block scope or the input row, at the kind the use says;
    [edges_ok]: every leaf of a successor's input row is bound, at the same kind, when the
    predecessor ends; [exit_row_ok]: the borrowed leaves are in the exit's input row;
    [wf_idx]: successor / entry / exit indices are blocks. *)
From Coq Require Import List Bool Arith.
From V.C09 Require Import Analysis.
From V.C06 Require Import Linearity Token.
Import ListNotations.

Definition gstate := nat -> kind.
Definition g_empty : gstate := fun _ => KCopy.
Definition gupd (t : gstate) (x : nat) (k : kind) : gstate :=
  fun y => if Nat.eqb y x then k else t y.

Inductive goutcome := GFine (t : gstate) | GBad (v : viol).

Fixpoint gsem_use (t : gstate) (ls : list leaf) : goutcome :=
  match ls with
  | [] => GFine t
  | l :: r =>
      if is_copy (l_kind l) then gsem_use t r
      else if is_copy (t (l_id l)) then GBad (VUseEmpty (l_id l))
      else gsem_use (gupd t (l_id l) KCopy) r
  end.

Fixpoint gsem_assign (t : gstate) (ls : list leaf) : goutcome :=
  match ls with
  | [] => GFine t
  | l :: r =>
      if is_linear (t (l_id l)) then GBad (VOverwrite (l_id l))
      else gsem_assign (gupd t (l_id l) (l_kind l)) r
  end.

Fixpoint gsem_fill (t : gstate) (ls : list leaf) : gstate :=
  match ls with
  | [] => t
  | l :: r => gsem_fill (gupd t (l_id l) (l_kind l)) r
  end.

Definition gsem_event (fin : finputs) (t : gstate) (e : event) : goutcome :=
  match e with
  | EUse p k =>
      if p_inout p && negb (is_borrow k) then GBad (VNotOwned (p_id p))
      else gsem_use t (leaves (p_tree p))
  | EAssign p => gsem_assign t (leaves (p_tree p))
  | EShadow p => if input_is_borrowed fin (p_id p) then GBad (VAssignBorrowed (p_id p)) else GFine t
  | EReassign p => GFine (gsem_fill t (leaves (p_tree p)))
  | EFail _ => GBad VDropped
  end.

Fixpoint gsem_events (fin : finputs) (t : gstate) (es : list event) : goutcome :=
  match es with
  | [] => GFine t
  | e :: r => match gsem_event fin t e with
              | GFine t' => gsem_events fin t' r
              | GBad v => GBad v
              end
  end.

Definition gblock_start (c : lcfg) (b : nat) (t : gstate) : gstate :=
  if Nat.eqb b (c_entry c) then gsem_fill t (flat_map leaves (lb_in (nth_block c b))) else t.

Fixpoint grun_path (c : lcfg) (t : gstate) (b : nat) (rest : list nat) (k : nat) : goutcome :=
  match rest with
  | [] => gsem_events (c_inputs c) (gblock_start c b t) (firstn k (lb_events (nth_block c b)))
  | n :: r =>
      match gsem_events (c_inputs c) (gblock_start c b t) (lb_events (nth_block c b)) with
      | GFine t' => grun_path c t' n r k
      | GBad v => GBad v
      end
  end.

Definition gfinal_ok (c : lcfg) (t : gstate) : Prop :=
  (forall l, In l (borrowed_leaves (c_inputs c)) -> is_copy (l_kind l) = false -> t (l_id l) = l_kind l) /\
  (forall x, t x = KLinear -> In x (borrowed_ids c)).

(** * typing of the checked CFG *)
Definition typed_use (s : scope) (ls : list leaf) : Prop :=
  forall l, In l ls -> exists l0, lookup s (l_id l) = Some l0 /\ l_kind l0 = l_kind l.
Definition typed_event (s : scope) (e : event) : Prop :=
  match e with
  | EUse p _ => typed_use s (leaves (p_tree p))
  | EFail e => e <> ErrCrash      (* the traversal only emits UnnamedExpr / DropAfterCall *)
  | _ => True
  end.
Fixpoint typed_run (fin : finputs) (s : scope) (es : list event) : Prop :=
  match es with
  | [] => True
  | e :: r => typed_event s e /\
              match step_event fin s e with Ok s' => typed_run fin s' r | Err _ => True end
  end.
Definition block_init (c : lcfg) (b : nat) : scope :=
  init_scope (Nat.eqb b (c_entry c)) (lb_in (nth_block c b)).
Definition typed (c : lcfg) : Prop :=
  forall b, b < length (c_blocks c) -> typed_run (c_inputs c) (block_init c b) (lb_events (nth_block c b)).
Definition row_leaves (c : lcfg) (n : nat) : list leaf := s_pvars (init_scope false (lb_in (nth_block c n))).
Definition edges_ok (c : lcfg) : Prop :=
  forall b n s, b < length (c_blocks c) -> In n (lb_succ (nth_block c b)) ->
    run_events (c_inputs c) (block_init c b) (lb_events (nth_block c b)) = Ok s ->
    forall x l, find_leaf x (row_leaves c n) = Some l ->
      exists l0, lookup s x = Some l0 /\ l_kind l0 = l_kind l.
Definition exit_row_ok (c : lcfg) : Prop :=
  forall l, In l (borrowed_leaves (c_inputs c)) ->
    exists l', find_leaf (l_id l) (row_leaves c (c_exit c)) = Some l' /\ l_kind l' = l_kind l.
Definition wf_idx (c : lcfg) : Prop :=
  c_entry c < length (c_blocks c) /\ c_exit c < length (c_blocks c) /\
  forall blk n, In blk (c_blocks c) -> In n (lb_succ blk) -> n < length (c_blocks c).

(** executable versions *)
Definition keqb (a b : kind) : bool :=
  match a, b with KCopy, KCopy | KAffine, KAffine | KLinear, KLinear => true | _, _ => false end.
Definition bound_at (s : scope) (l : leaf) : bool :=
  match lookup s (l_id l) with Some l0 => keqb (l_kind l0) (l_kind l) | None => false end.
Definition typed_eventb (s : scope) (e : event) : bool :=
  match e with
  | EUse p _ => forallb (bound_at s) (leaves (p_tree p))
  | EFail ErrCrash => false
  | _ => true
  end.
Fixpoint typed_runb (fin : finputs) (s : scope) (es : list event) : bool :=
  match es with
  | [] => true
  | e :: r => typed_eventb s e &&
              match step_event fin s e with Ok s' => typed_runb fin s' r | Err _ => true end
  end.
Definition typedb (c : lcfg) : bool :=
  forallb (fun b => typed_runb (c_inputs c) (block_init c b) (lb_events (nth_block c b)))
          (seq 0 (length (c_blocks c))).
Definition edges_okb (c : lcfg) : bool :=
  forallb (fun b =>
    match run_events (c_inputs c) (block_init c b) (lb_events (nth_block c b)) with
    | Ok s => forallb (fun n => forallb (bound_at s) (row_leaves c n)) (lb_succ (nth_block c b))
    | Err _ => true
    end) (seq 0 (length (c_blocks c))).
Definition exit_row_okb (c : lcfg) : bool :=
  forallb (fun l => match find_leaf (l_id l) (row_leaves c (c_exit c)) with
                    | Some l' => keqb (l_kind l') (l_kind l) | None => false end)
          (borrowed_leaves (c_inputs c)).
Definition wf_idxb (c : lcfg) : bool :=
  (c_entry c <? length (c_blocks c)) && (c_exit c <? length (c_blocks c)) &&
  forallb (fun blk => forallb (fun n => n <? length (c_blocks c)) (lb_succ blk)) (c_blocks c).
