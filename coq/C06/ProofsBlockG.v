(** V.C06.ProofsBlockG — one block, general kinds: the checker's scope simulates [TokenG]. *)
From Coq Require Import List Bool Arith Lia.
From V.C09 Require Import Analysis SetLemmas.
From V.C06 Require Import Linearity Token TokenG ProofsBlock.
Import ListNotations.

Lemma find_leaf_cons : forall x l ls, find_leaf x (l :: ls) = if Nat.eqb (l_id l) x then Some l else find_leaf x ls.
Proof. reflexivity. Qed.

Lemma find_leaf_remove : forall y x ls, y <> x -> find_leaf y (remove_leaf x ls) = find_leaf y ls.
Proof.
  intros y x ls N. unfold find_leaf, remove_leaf. induction ls as [|a r IH]; auto. simpl.
  destruct (Nat.eqb (l_id a) x) eqn:E; simpl.
  - rewrite IH. apply Nat.eqb_eq in E.
    destruct (Nat.eqb (l_id a) y) eqn:E2; auto. apply Nat.eqb_eq in E2. congruence.
  - rewrite IH. reflexivity.
Qed.

Lemma has_leaf_find_iff : forall x ls, has_leaf x ls = match find_leaf x ls with Some _ => true | None => false end.
Proof. reflexivity. Qed.

Lemma copy_kind : forall k, is_copy k = true -> k = KCopy.
Proof. intros []; simpl; congruence. Qed.

Section BlockG.
Variable fin : finputs.

(* t0: state when the block was entered; exact description of the current state *)
Definition RG (t0 : gstate) (s : scope) (t : gstate) : Prop :=
  forall x,
    match find_leaf x (s_vars s) with
    | Some l0 => t x = if memb x (s_ul s) then KCopy else l_kind l0
    | None => t x = if memb x (s_pul s) then KCopy else t0 x
    end.

Lemma lookup_use_leaf : forall s x s', use_leaf s x = Some s' -> forall y, lookup s' y = lookup s y.
Proof.
  intros s x s' H y. unfold use_leaf in H. unfold lookup.
  destruct (has_leaf x (s_vars s)); [inversion H; reflexivity|].
  destruct (s_entry s); [discriminate|]. destruct (has_leaf x (s_pvars s)); [|discriminate].
  inversion H; reflexivity.
Qed.

Lemma assign_leaf_RG : forall t0 s t l, RG t0 s t -> RG t0 (assign_leaf s l) (gupd t (l_id l) (l_kind l)).
Proof.
  intros t0 s t l HR y. specialize (HR y). cbn [assign_leaf s_vars s_ul s_pul].
  rewrite find_leaf_cons. unfold gupd. destruct (Nat.eqb (l_id l) y) eqn:E.
  - apply Nat.eqb_eq in E. subst y. rewrite Nat.eqb_refl, memb_remove_id, Nat.eqb_refl, andb_false_r. reflexivity.
  - apply Nat.eqb_neq in E. assert (E' : Nat.eqb y (l_id l) = false) by (apply Nat.eqb_neq; auto).
    rewrite E', find_leaf_remove by auto. rewrite memb_remove_id, E'. simpl. rewrite andb_true_r. exact HR.
Qed.

Lemma assign_leaves_RG : forall ls t0 s t, RG t0 s t -> RG t0 (assign_leaves s ls) (gsem_fill t ls).
Proof.
  unfold assign_leaves. induction ls as [|l r IH]; intros t0 s t HR; simpl; auto.
  apply IH. apply assign_leaf_RG. exact HR.
Qed.

(* hypotheses about the state at block entry, stated for the final scope of the block *)
Definition GHup (t0 : gstate) (sf : scope) : Prop :=
  forall x l0, In x (s_pul sf) -> find_leaf x (s_pvars sf) = Some l0 -> is_copy (l_kind l0) = false ->
    t0 x = l_kind l0.
Definition GHdef (t0 : gstate) (sf : scope) : Prop :=
  forall x, t0 x = KLinear -> has_leaf x (s_vars sf) = true -> In x (s_pul sf).
Definition GHcopy (t0 : gstate) (sf : scope) : Prop :=
  forall x l0, find_leaf x (s_pvars sf) = Some l0 -> is_copy (l_kind l0) = true -> t0 x = KCopy.

Lemma use_leaves_simG : forall ls t0 s s' sf t, use_leaves s ls = Ok s' -> ext s' sf ->
  GHup t0 sf -> GHcopy t0 sf -> typed_use s ls -> RG t0 s t ->
  exists t', gsem_use t ls = GFine t' /\ RG t0 s' t' /\ ext s s'.
Proof.
  induction ls as [|l r IH]; intros t0 s s' sf t Hrun Hext HU HC HT HR; simpl in *.
  - inversion Hrun; subst. exists t. split; [reflexivity|]. split; [exact HR | apply ext_refl].
  - destruct (HT l (or_introl eq_refl)) as [l0 [Hlk Hk]].
    destruct (used s (l_id l)) as [u|] eqn:Hu; [|discriminate].
    destruct (u && negb (is_copy (l_kind l))) eqn:Hbad; [discriminate|].
    destruct (use_leaf s (l_id l)) as [s1|] eqn:Hs1; [|discriminate].
    assert (E1 : ext s s1) by (eapply use_leaf_ext; eauto).
    assert (E1f : ext s1 sf).
    { eapply ext_trans; [|exact Hext]. clear - Hrun. revert s1 s' Hrun.
      induction r as [|a r IHr]; intros s0 s' H; simpl in H.
      - inversion H. apply ext_refl.
      - destruct (used s0 (l_id a)); [|discriminate].
        destruct (b && negb (is_copy (l_kind a))); [discriminate|].
        destruct (use_leaf s0 (l_id a)) eqn:E; [|discriminate].
        eapply ext_trans; [eapply use_leaf_ext; eauto | eapply IHr; eauto]. }
    assert (HT1 : typed_use s1 r).
    { intros l' Hl'. destruct (HT l' (or_intror Hl')) as [l1 [A B]]. exists l1.
      rewrite (lookup_use_leaf _ _ _ Hs1). auto. }
    assert (Hstep : (is_copy (l_kind l) = false -> is_copy (t (l_id l)) = false) /\
                    RG t0 s1 (if is_copy (l_kind l) then t else gupd t (l_id l) KCopy)).
    { unfold used in Hu. unfold use_leaf in Hs1. unfold lookup in Hlk.
      pose proof (HR (l_id l)) as HRx. rewrite has_leaf_find_iff in Hu, Hs1.
      destruct (find_leaf (l_id l) (s_vars s)) as [lv|] eqn:Hv.
      - inversion Hlk; subst lv. inversion Hu; subst u. inversion Hs1; subst s1. clear Hu Hs1. split.
        + intros Hc. rewrite Hc in Hbad. simpl in Hbad. rewrite andb_true_r in Hbad.
          rewrite HRx, Hbad, Hk. exact Hc.
        + intros y. specialize (HR y). cbn [s_vars s_ul s_pul]. rewrite memb_cons.
          destruct (Nat.eqb y (l_id l)) eqn:E.
          * apply Nat.eqb_eq in E. subst y. rewrite Hv in *. simpl.
            destruct (is_copy (l_kind l)) eqn:Hc.
            -- rewrite HRx. rewrite Hk, (copy_kind _ Hc). destruct (memb (l_id l) (s_ul s)); reflexivity.
            -- unfold gupd. rewrite Nat.eqb_refl. reflexivity.
          * simpl. destruct (is_copy (l_kind l)); [exact HR|]. unfold gupd. rewrite E. exact HR.
      - destruct (s_entry s); [discriminate|]. rewrite has_leaf_find_iff in Hu, Hs1. rewrite Hlk in Hu, Hs1.
        inversion Hu; subst u. inversion Hs1; subst s1. clear Hu Hs1. split.
        + intros Hc. rewrite Hc in Hbad. simpl in Hbad. rewrite andb_true_r in Hbad.
          rewrite HRx, Hbad.
          assert (Hin : In (l_id l) (s_pul sf)).
          { destruct E1f as [_ [_ [I3 _]]]. apply I3. simpl. auto. }
          assert (Hpv : s_pvars sf = s_pvars s).
          { destruct E1f as [_ [_ [_ [_ I5]]]]. exact I5. }
          rewrite (HU (l_id l) l0 Hin); [rewrite Hk; exact Hc | rewrite Hpv; exact Hlk | rewrite Hk; exact Hc].
        + intros y. specialize (HR y). cbn [s_vars s_ul s_pul]. rewrite memb_cons.
          destruct (find_leaf y (s_vars s)) as [ly|] eqn:Hvy.
          * assert (E : Nat.eqb y (l_id l) = false) by (apply Nat.eqb_neq; intros E; subst; congruence).
            destruct (is_copy (l_kind l)); [exact HR|]. unfold gupd. rewrite E. exact HR.
          * destruct (Nat.eqb y (l_id l)) eqn:E.
            -- apply Nat.eqb_eq in E. subst y. simpl. destruct (is_copy (l_kind l)) eqn:Hc.
               ++ rewrite HRx.
                  assert (Hpv : s_pvars sf = s_pvars s).
                  { destruct E1f as [_ [_ [_ [_ I5]]]]. exact I5. }
                  rewrite (HC (l_id l) l0); [destruct (memb (l_id l) (s_pul s)); reflexivity | rewrite Hpv; exact Hlk | rewrite Hk; exact Hc].
               ++ unfold gupd. rewrite Nat.eqb_refl. reflexivity.
            -- simpl. destruct (is_copy (l_kind l)); [exact HR|]. unfold gupd. rewrite E. exact HR. }
    destruct Hstep as [Hfull HR1].
    destruct (IH t0 s1 s' sf (if is_copy (l_kind l) then t else gupd t (l_id l) KCopy)) as [t' [A [B C]]]; auto.
    exists t'. destruct (is_copy (l_kind l)) eqn:Hc.
    + split; [exact A|]. split; [exact B|]. eapply ext_trans; eauto.
    + rewrite (Hfull eq_refl). split; [exact A|]. split; [exact B|]. eapply ext_trans; eauto.
Qed.

Lemma assign_checked_simG : forall ls t0 s s' sf t, assign_leaves_checked s ls = Ok s' -> ext s' sf ->
  GHdef t0 sf -> RG t0 s t ->
  exists t', gsem_assign t ls = GFine t' /\ RG t0 s' t' /\ ext s s'.
Proof.
  induction ls as [|l r IH]; intros t0 s s' sf t Hrun Hext HD HR; simpl in *.
  - inversion Hrun; subst. exists t. split; [reflexivity|]. split; [exact HR | apply ext_refl].
  - match type of Hrun with (if ?b then _ else _) = _ => destruct b eqn:Hbad end; [discriminate|].
    assert (Hext1 : ext (assign_leaf s l) s') by (apply assign_checked_ext with (ls := r); auto).
    assert (Hno : is_linear (t (l_id l)) = false).
    { pose proof (HR (l_id l)) as HRx.
      destruct (find_leaf (l_id l) (s_vars s)) as [old|] eqn:Hf.
      - rewrite HRx. destruct (memb (l_id l) (s_ul s)); simpl in *; auto.
      - rewrite HRx. destruct (memb (l_id l) (s_pul s)) eqn:Hm; auto.
        destruct (is_linear (t0 (l_id l))) eqn:Hlin; auto. exfalso.
        assert (KL : t0 (l_id l) = KLinear) by (destruct (t0 (l_id l)); simpl in Hlin; congruence).
        assert (E : ext (assign_leaf s l) sf) by (eapply ext_trans; eauto).
        destruct E as [E1 [E2 _]].
        assert (Hin : In (l_id l) (s_pul sf)).
        { apply HD; auto. apply E1. simpl. rewrite has_leaf_cons, Nat.eqb_refl. reflexivity. }
        destruct (E2 _ Hin) as [H | H]; simpl in H.
        + apply memb_In in H. congruence.
        + rewrite has_leaf_cons, Nat.eqb_refl in H. discriminate. }
    rewrite Hno.
    destruct (IH t0 (assign_leaf s l) s' sf (gupd t (l_id l) (l_kind l))) as [t' [A [B C]]]; auto.
    + apply assign_leaf_RG; auto.
    + exists t'. split; [exact A|]. split; [exact B|]. eapply ext_trans; [apply assign_leaf_ext | eauto].
Qed.

Lemma step_event_simG : forall e t0 s s' sf t, step_event fin s e = Ok s' -> ext s' sf ->
  GHup t0 sf -> GHdef t0 sf -> GHcopy t0 sf -> typed_event s e -> RG t0 s t ->
  exists t', gsem_event fin t e = GFine t' /\ RG t0 s' t'.
Proof.
  intros e t0 s s' sf t Hrun Hext HU HD HC HT HR. destruct e as [p k | p | p | p | e]; simpl in *.
  - destruct (p_inout p && negb (is_borrow k)); [discriminate|].
    destruct (use_leaves_simG _ t0 s s' sf t Hrun Hext HU HC HT HR) as [t' [A [B _]]]. eauto.
  - match type of Hrun with (if ?b then _ else _) = _ => destruct b end; [discriminate|].
    destruct (assign_checked_simG _ t0 s s' sf t Hrun Hext HD HR) as [t' [A [B _]]]. eauto.
  - destruct (input_is_borrowed fin (p_id p)); [discriminate|]. inversion Hrun; subst. eauto.
  - inversion Hrun; subst. eexists. split; [reflexivity|]. apply assign_leaves_RG. exact HR.
  - discriminate.
Qed.

Lemma run_events_simG : forall es t0 s sf t, run_events fin s es = Ok sf ->
  GHup t0 sf -> GHdef t0 sf -> GHcopy t0 sf -> typed_run fin s es -> RG t0 s t ->
  exists t', gsem_events fin t es = GFine t' /\ RG t0 sf t'.
Proof.
  induction es as [|e r IH]; intros t0 s sf t Hrun HU HD HC HT HR; simpl in *.
  - inversion Hrun; subst. exists t. auto.
  - destruct (step_event fin s e) as [s1|] eqn:E; [|discriminate]. destruct HT as [HTe HTr].
    destruct (step_event_simG e t0 s s1 sf t E) as [t1 [A B]]; auto.
    + eapply run_events_ext; eauto.
    + rewrite A. eapply IH; eauto.
Qed.

Lemma gsem_events_app : forall a b t, gsem_events fin t (a ++ b) =
  match gsem_events fin t a with GFine t' => gsem_events fin t' b | GBad v => GBad v end.
Proof.
  induction a as [|e r IH]; intros b t; simpl; auto.
  destruct (gsem_event fin t e); auto.
Qed.

Lemma gsem_events_prefix : forall es k t t', gsem_events fin t es = GFine t' ->
  exists t'', gsem_events fin t (firstn k es) = GFine t''.
Proof.
  intros es k t t' H. rewrite <- (firstn_skipn k es) in H. rewrite gsem_events_app in H.
  destruct (gsem_events fin t (firstn k es)); [eauto | discriminate].
Qed.

End BlockG.
