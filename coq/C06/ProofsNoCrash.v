(** V.C06.ProofsNoCrash — a well-typed checked CFG never makes the checker crash, and the executable
    typing checks imply the typing hypotheses. *)
From Coq Require Import List Bool Arith Lia.
From V.C09 Require Import Analysis SetLemmas Spec ProofsLive ProofsTop.
From V.C06 Require Import Linearity Token TokenG ProofsBlock ProofsBlockG ProofsFlow ProofsSound ProofsComplete.
Import ListNotations.

(** * reflection of the executable checks *)
Lemma keqb_eq : forall a b, keqb a b = true -> a = b.
Proof. intros [] []; simpl; congruence. Qed.

Lemma bound_at_sound : forall s l, bound_at s l = true ->
  exists l0, lookup s (l_id l) = Some l0 /\ l_kind l0 = l_kind l.
Proof.
  intros s l H. unfold bound_at in H. destruct (lookup s (l_id l)) as [l0|]; [|discriminate].
  exists l0. split; auto. apply keqb_eq. exact H.
Qed.

Lemma typed_runb_sound : forall fin es s, typed_runb fin s es = true -> typed_run fin s es.
Proof.
  intros fin. induction es as [|e r IH]; intros s H; simpl in *; auto.
  apply andb_true_iff in H. destruct H as [A B]. split.
  - destruct e as [p k | p | p | p | e]; simpl in *; auto.
    + intros l Hl. rewrite forallb_forall in A. apply bound_at_sound. apply A. exact Hl.
    + destruct e; try discriminate; intros E; discriminate.
  - destruct (step_event fin s e); auto.
Qed.

Lemma typedb_sound : forall c, typedb c = true -> typed c.
Proof.
  intros c H b Hb. unfold typedb in H. rewrite forallb_forall in H.
  apply typed_runb_sound. apply H. apply in_seq. lia.
Qed.

Lemma edges_okb_sound : forall c, edges_okb c = true -> edges_ok c.
Proof.
  intros c H b n s Hb Hn Hrun x l Hf. unfold edges_okb in H. rewrite forallb_forall in H.
  assert (Hin : In b (seq 0 (length (c_blocks c)))) by (apply in_seq; lia).
  specialize (H b Hin). rewrite Hrun in H. rewrite forallb_forall in H. specialize (H n Hn).
  rewrite forallb_forall in H. destruct (find_leaf_some _ _ _ Hf) as [Hl Hid].
  destruct (bound_at_sound s l (H l Hl)) as [l0 [A B]]. exists l0. rewrite <- Hid. auto.
Qed.

Lemma exit_row_okb_sound : forall c, exit_row_okb c = true -> exit_row_ok c.
Proof.
  intros c H l Hl. unfold exit_row_okb in H. rewrite forallb_forall in H. specialize (H l Hl).
  destruct (find_leaf (l_id l) (row_leaves c (c_exit c))) as [l'|]; [|discriminate].
  exists l'. split; auto. apply keqb_eq. exact H.
Qed.

Lemma wf_idxb_sound : forall c, wf_idxb c = true -> wf_idx c.
Proof.
  intros c H. unfold wf_idxb in H. apply andb_true_iff in H. destruct H as [H C].
  apply andb_true_iff in H. destruct H as [A B]. apply Nat.ltb_lt in A. apply Nat.ltb_lt in B.
  split; auto. split; auto. intros blk n Hb Hn. rewrite forallb_forall in C. specialize (C blk Hb).
  rewrite forallb_forall in C. apply Nat.ltb_lt. apply C. exact Hn.
Qed.

(** * no crash while walking a block *)
Lemma lookup_usable : forall s x l0, lookup s x = Some l0 ->
  exists u s1, used s x = Some u /\ use_leaf s x = Some s1.
Proof.
  intros s x l0 H. unfold lookup in H. unfold used, use_leaf. rewrite !has_leaf_find_iff.
  destruct (find_leaf x (s_vars s)); [eauto|].
  destruct (s_entry s); [discriminate|]. rewrite H. eauto.
Qed.

Lemma use_leaves_no_crash : forall ls s, typed_use s ls -> use_leaves s ls <> Err ErrCrash.
Proof.
  induction ls as [|l r IH]; intros s HT; simpl; [discriminate|].
  destruct (HT l (or_introl eq_refl)) as [l0 [Hlk _]].
  destruct (lookup_usable s _ l0 Hlk) as [u [s1 [A B]]]. rewrite A, B.
  destruct (u && negb (is_copy (l_kind l))); [discriminate|]. apply IH.
  intros l' Hl'. destruct (HT l' (or_intror Hl')) as [l1 [C D]]. exists l1.
  rewrite (lookup_use_leaf _ _ _ B). auto.
Qed.

Lemma assign_checked_no_crash : forall ls s, assign_leaves_checked s ls <> Err ErrCrash.
Proof.
  induction ls as [|l r IH]; intros s; simpl; [discriminate|].
  match goal with |- (if ?b then _ else _) <> _ => destruct b end; [discriminate | apply IH].
Qed.

Lemma run_events_no_crash : forall fin es s, typed_run fin s es -> run_events fin s es <> Err ErrCrash.
Proof.
  intros fin. induction es as [|e r IH]; intros s HT; simpl in *; [discriminate|].
  destruct HT as [HTe HTr]. destruct (step_event fin s e) as [s1|e1] eqn:E; [apply IH; exact HTr|].
  intros Hc. inversion Hc; subst e1. clear Hc.
  destruct e as [p k | p | p | p | e]; simpl in *.
  - destruct (p_inout p && negb (is_borrow k)); [discriminate|]. eapply use_leaves_no_crash; eauto.
  - destruct (match find_leaf (p_id p) (s_vars s) with Some l0 => l_inout l0 | None => false end); [discriminate|].
    eapply assign_checked_no_crash; eauto.
  - destruct (input_is_borrowed fin (p_id p)); discriminate.
  - discriminate.
  - inversion E. congruence.
Qed.

(* places used through the input scope are in the input scope *)
Definition pul_in (s : scope) : Prop := forall x, In x (s_pul s) -> has_leaf x (s_pvars s) = true.

Lemma step_event_pul_in : forall fin e s s', step_event fin s e = Ok s' -> pul_in s -> pul_in s'.
Proof.
  intros fin e s s' H P. destruct e as [p k | p | p | p | e]; simpl in H.
  - destruct (p_inout p && negb (is_borrow k)); [discriminate|].
    revert s s' H P. generalize (leaves (p_tree p)). induction l as [|a r IH]; intros s s' H P; simpl in H.
    + inversion H; subst; auto.
    + destruct (used s (l_id a)); [|discriminate].
      destruct (b && negb (is_copy (l_kind a))); [discriminate|].
      destruct (use_leaf s (l_id a)) as [s1|] eqn:E; [|discriminate].
      eapply IH; [exact H|]. unfold use_leaf in E.
      destruct (has_leaf (l_id a) (s_vars s)); [inversion E; subst; exact P|].
      destruct (s_entry s); [discriminate|]. destruct (has_leaf (l_id a) (s_pvars s)) eqn:Hp; [|discriminate].
      inversion E; subst. intros x [Hx | Hx]; simpl; [subst; exact Hp | apply P; exact Hx].
  - match type of H with (if ?b then _ else _) = _ => destruct b end; [discriminate|].
    pose proof (assign_checked_ext _ _ _ H) as [_ [_ [_ [_ E5]]]].
    assert (Epul : s_pul s' = s_pul s).
    { clear P E5. revert s s' H. generalize (leaves (p_tree p)). induction l as [|a r IH]; intros s s' H; simpl in H.
      - inversion H; auto.
      - match type of H with (if ?b then _ else _) = _ => destruct b end; [discriminate|].
        rewrite (IH _ _ H). reflexivity. }
    intros x Hx. rewrite E5. apply P. rewrite <- Epul. exact Hx.
  - destruct (input_is_borrowed fin (p_id p)); [discriminate|]. inversion H; subst; auto.
  - inversion H; subst. destruct (assign_leaves_fields (leaves (p_tree p)) s) as [_ [_ [C [D _]]]].
    intros x Hx. rewrite C. apply P. rewrite <- D. exact Hx.
  - discriminate.
Qed.

Lemma run_events_pul_in : forall fin es s s', run_events fin s es = Ok s' -> pul_in s -> pul_in s'.
Proof.
  intros fin. induction es as [|e r IH]; intros s s' H P; simpl in H.
  - inversion H; subst; auto.
  - destruct (step_event fin s e) eqn:E; [|discriminate]. eapply IH; [exact H | eapply step_event_pul_in; eauto].
Qed.

Lemma use_all_ok : forall ls s, s_vars s = [] -> s_entry s = false ->
  (forall l, In l ls -> has_leaf (l_id l) (s_pvars s) = true) -> exists s', use_all s ls = Some s'.
Proof.
  induction ls as [|l r IH]; intros s Hv He Hin; simpl; [eauto|].
  unfold use_leaf. rewrite Hv. simpl. rewrite He, (Hin l (or_introl eq_refl)).
  apply IH; simpl; auto. intros l' Hl'. apply Hin. simpl. auto.
Qed.

Section NoCrash.
Variable fx : bool.
Variable c : lcfg.
Variable sched : list nat.
Hypothesis HW : wf_shape c.
Hypothesis HT : typed c.
Hypothesis HE : edges_ok c.
Hypothesis HX : exit_row_ok c.
Hypothesis HI : wf_idx c.
Hypothesis HER : c_exit_reachable c = true.

Notation fin := (c_inputs c).
Notation N := (length (c_blocks c)).

Lemma blocks_no_crash : forall b, check_blocks fin (c_entry c) 0 (c_blocks c) <> inr (b, ErrCrash).
Proof.
  intros b H. destruct (check_blocks_err c _ _ _ _ H) as [j [blk [A [B C]]]]. simpl in A. subst j.
  assert (Hb : b < N) by (apply nth_error_Some; congruence).
  unfold nth_block in *. pose proof (nth_error_nth' (c_blocks c) (mkLB [] [] []) Hb) as E.
  rewrite E in B. inversion B; subst blk. unfold check_block in C.
  apply (run_events_no_crash fin _ _ (HT b Hb)). exact C.
Qed.

Section WithScopes.
Variables ss0 ss : list scope.
Hypothesis H1 : check_blocks fin (c_entry c) 0 (c_blocks c) = inl ss0.

Lemma exit_used_ok : exists ss', exit_used c ss0 = Some ss'.
Proof.
  destruct HI as [H5 [H4 _]].
  unfold exit_used. rewrite (exit_scope0 c ss0 HW H1 H4).
  destruct (use_all_ok (borrowed_leaves fin) (init_scope false (lb_in (nth_block c (c_exit c)))) eq_refl eq_refl) as [s' E].
  - intros l Hl. destruct (HX l Hl) as [l' [Hf _]]. unfold row_leaves in Hf.
    rewrite has_leaf_find_iff, Hf. reflexivity.
  - rewrite E. eauto.
Qed.

Hypothesis H2 : exit_used c ss0 = Some ss.

Lemma nc_len : length ss = N.
Proof. destruct HI as [H5 [H4 _]]. eapply len1; eauto. Qed.

Lemma stats_wf : wf_cfg (stats_cfg c ss) = true.
Proof.
  unfold wf_cfg. apply forallb_forall. intros bl Hbl. apply forallb_forall. intros s Hs.
  apply Nat.ltb_lt. rewrite (stats_nblocks c ss nc_len).
  unfold stats_cfg in Hbl. apply in_map_iff in Hbl. destruct Hbl as [[blk sc] [E Hin]]. subst bl. simpl in Hs.
  rewrite app_nil_r in Hs. apply in_combine_l in Hin. destruct HI as [_ [_ W]]. eapply W; eauto.
Qed.

Notation L := (live_of c ss sched).

Lemma nc_block_run : forall b, b < N -> run_events fin (block_init c b) (lb_events (nth_block c b)) = Ok (nth_scope ss0 b).
Proof. intros. unfold block_init. eapply block_run; eauto. Qed.

Lemma nc_nth_ss : forall b, b <> c_exit c -> nth_scope ss b = nth_scope ss0 b.
Proof. intros. destruct HI as [H5 [H4 _]]. eapply nth_ss; eauto. Qed.

Lemma nc_pvars : forall b, b < N -> b <> c_entry c -> s_pvars (nth_scope ss0 b) = row_leaves c b.
Proof.
  intros b Hb Hne. pose proof (nc_block_run b Hb) as Hrun.
  destruct (run_events_ext fin _ _ _ Hrun) as [_ [_ [_ [_ E]]]]. rewrite E.
  unfold block_init, row_leaves. apply Nat.eqb_neq in Hne. rewrite Hne. reflexivity.
Qed.

Lemma nc_pul_in : forall b, b < N -> pul_in (nth_scope ss0 b).
Proof.
  intros b Hb. eapply run_events_pul_in; [apply nc_block_run; exact Hb|].
  unfold block_init, init_scope. destruct (Nat.eqb b (c_entry c)); intros x [].
Qed.

(* whatever is live at the start of a block is in its input row *)
Lemma live_in_row : forall n x, live_on_path false (stats_cfg c ss) x n -> n < N -> n <> c_entry c ->
  has_leaf x (row_leaves c n) = true.
Proof.
  intros n x Hl. destruct HI as [H5 [H4 _]].
  induction Hl as [n Hn Hu | n m Hn Hd Hm Hl IH]; intros Hb Hne.
  - rewrite (stats_blk c ss n nc_len Hb) in Hu. simpl in Hu.
    destruct (Nat.eq_dec n (c_exit c)) as [Hex | Hex].
    + subst n. apply (exit_up c ss0 ss HW H1 H2 H4) in Hu. unfold borrowed_ids in Hu.
      apply in_map_iff in Hu. destruct Hu as [l [A B]]. subst x. destruct (HX l B) as [l' [Hf _]].
      rewrite has_leaf_find_iff, Hf. reflexivity.
    + rewrite (nc_nth_ss n Hex) in Hu. rewrite <- (nc_pvars n Hb Hne). apply (nc_pul_in n Hb).
      assert (Iup : inv2 (nth_scope ss0 n)).
      { eapply run_events_inv2; [apply nc_block_run; exact Hb|].
        unfold block_init, init_scope. destruct (Nat.eqb n (c_entry c)); split; auto; discriminate. }
      destruct Iup as [Iup _]. rewrite <- Iup. exact Hu.
  - unfold flow_succ in Hm. rewrite (stats_blk c ss n nc_len Hb) in Hd, Hm. simpl in Hd, Hm. rewrite app_nil_r in Hm.
    assert (Hex : n <> c_exit c).
    { intros E. subst n. destruct HW as [_ [Ws _]]. rewrite Ws in Hm. destruct Hm. }
    rewrite (nc_nth_ss n Hex) in Hd.
    assert (Hm' : m < N) by (destruct HI as [_ [_ W]]; eapply W; [apply nth_In; exact Hb | exact Hm]).
    assert (Hme : m <> c_entry c).
    { intros E. subst m. destruct HW as [_ [_ [_ W]]]. apply (W n). exact Hm. }
    pose proof (IH Hm' Hme) as Hrow. destruct (has_leaf_find _ _ Hrow) as [l Hf].
    destruct (HE n m _ Hb Hm (nc_block_run n Hb) x l Hf) as [l0 [Hlk _]].
    destruct (lookup_cases _ _ _ Hlk) as [[Hv _] | [_ [_ [Hin [Hid _]]]]].
    + exfalso. apply Hd. apply has_leaf_true in Hv. destruct Hv as [l' [A B]]. apply in_map_iff. exists l'. auto.
    + rewrite <- (nc_pvars n Hb Hne). apply has_leaf_true. eauto.
Qed.

Lemma live_row : forall n x, n < N -> n <> c_entry c -> In x (getv L n) -> has_leaf x (row_leaves c n) = true.
Proof.
  intros n x Hb Hne Hx. apply live_in_row; auto.
  destruct HI as [H5 [H4 _]]. eapply (live_path c sched ss0 ss); eauto. apply stats_wf.
Qed.

Lemma dataflow_no_crash : forall bs k, (forall j blk, nth_error bs j = Some blk -> k + j < N /\ blk = nth_block c (k + j)) ->
  forall b, check_dataflow fx c ss L k bs <> Crash b.
Proof.
  induction bs as [|blk r IH]; intros k Hbs b; simpl; [discriminate|].
  destruct (Hbs 0 blk eq_refl) as [Hk Eb]. rewrite Nat.add_0_r in Hk, Eb. subst blk.
  assert (Hc1 : check1 (nth_scope ss k) L (lb_succ (nth_block c k)) <> None).
  { unfold check1.
    destruct (forallb (fun x => match lookup (nth_scope ss k) x with Some _ => true | None => false end)
                      (flat_map (getv L) (lb_succ (nth_block c k)))) eqn:E; [discriminate|].
    exfalso. assert (forallb (fun x => match lookup (nth_scope ss k) x with Some _ => true | None => false end)
                      (flat_map (getv L) (lb_succ (nth_block c k))) = true); [|congruence].
    apply forallb_forall. intros x Hx. apply in_flat_map in Hx. destruct Hx as [n [Hn Hx]].
    assert (Hex : k <> c_exit c).
    { intros E'. subst k. destruct HW as [_ [Ws _]]. rewrite Ws in Hn. destruct Hn. }
    assert (Hn' : n < N) by (destruct HI as [_ [_ W]]; eapply W; [apply nth_In; exact Hk | exact Hn]).
    assert (Hne : n <> c_entry c).
    { intros E'. subst n. destruct HW as [_ [_ [_ W]]]. apply (W k). exact Hn. }
    destruct (has_leaf_find _ _ (live_row n x Hn' Hne Hx)) as [l Hf].
    destruct (HE k n _ Hk Hn (nc_block_run k Hk) x l Hf) as [l0 [Hlk _]].
    rewrite (nc_nth_ss k Hex), Hlk. reflexivity. }
  destruct (check1 (nth_scope ss k) L (lb_succ (nth_block c k))) as [[|x xs]|]; [|discriminate|congruence].
  destruct (check2 fx (nth_scope ss k) L k (lb_succ (nth_block c k))); [|discriminate].
  assert (Hrow : row_ok c (nth_scope ss k) L k = true).
  { unfold row_ok. destruct (Nat.eqb k (c_entry c)) eqn:Ee; [reflexivity|].
    destruct (Nat.eqb k (c_exit c)) eqn:Ex; [reflexivity|]. simpl.
    apply Nat.eqb_neq in Ee. apply Nat.eqb_neq in Ex.
    apply forallb_forall. intros x Hx. rewrite (nc_nth_ss k Ex), (nc_pvars k Hk Ee). apply live_row; auto. }
  rewrite Hrow. apply IH. intros j blk Hj. destruct (Hbs (S j) blk Hj) as [A B].
  replace (S k + j) with (k + S j) by lia. auto.
Qed.

End WithScopes.

Theorem no_crash : ~ crashed (check_cfg fx c sched).
Proof.
  intros Hc. unfold check_cfg in Hc.
  destruct (check_blocks fin (c_entry c) 0 (c_blocks c)) as [ss0 | [b e]] eqn:E1.
  - destruct (exit_used_ok ss0 E1) as [ss E2]. rewrite E2 in Hc.
    pose proof (stats_wf ss0 ss E1 E2) as W. rewrite W in Hc.
    destruct HI as [H5 [H4 _]]. apply Nat.ltb_lt in H4. apply Nat.ltb_lt in H5. rewrite H4, H5 in Hc. simpl in Hc.
    destruct Hc as [[b Hc] | [b Hc]].
    + revert Hc. apply (dataflow_no_crash ss0 ss E1 E2). intros j blk Hj. simpl.
      assert (Hjn : j < N) by (apply nth_error_Some; congruence). split; auto.
      unfold nth_block. rewrite (nth_error_nth' _ (mkLB [] [] []) Hjn) in Hj. congruence.
    + eapply check_dataflow_no_block; eauto.
  - destruct Hc as [[b' Hc] | [b' Hc]]; [discriminate|]. inversion Hc; subst. eapply blocks_no_crash; eauto.
Qed.

End NoCrash.
