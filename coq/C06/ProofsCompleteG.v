(** V.C06.ProofsCompleteG — completeness for CFGs in which names are re-bound at other kinds:
    a rejection of the code with fix-1 is matched by a path violating the [TokenG] discipline. *)
From Coq Require Import List Bool Arith Lia.
From V.C09 Require Import Analysis SetLemmas Spec ProofsLive ProofsTop.
From V.C06 Require Import Linearity Token TokenG ProofsBlock ProofsBlockG ProofsFlow ProofsSound
  ProofsComplete ProofsNoCrash.
Import ListNotations.

Lemma noncopy_kind : forall k, is_copy k = false -> k <> KCopy.
Proof. intros [] H; simpl in H; congruence. Qed.
Lemma is_copy_KCopy : is_copy KCopy = true. Proof. reflexivity. Qed.

Section BlockCG.
Variable fin : finputs.

(* the token state agrees with the kinds of the input row: a place of the row holds nothing or a
   value of the row's kind *)
Definition row_agrees (t0 : gstate) (pv : list leaf) : Prop :=
  forall x l, find_leaf x pv = Some l -> t0 x = KCopy \/ t0 x = l_kind l.

Lemma row_agrees_copy : forall t0 s, row_agrees t0 (s_pvars s) -> GHcopy t0 s.
Proof. intros t0 s H x l0 Hf Hc. destruct (H x l0 Hf) as [A | A]; auto. rewrite A. apply copy_kind. exact Hc. Qed.

(* one use of a leaf, both sides succeeding *)
Lemma use_leaf_RG : forall t0 s t l l0 s1, lookup s (l_id l) = Some l0 -> l_kind l0 = l_kind l ->
  use_leaf s (l_id l) = Some s1 -> row_agrees t0 (s_pvars s) -> RG t0 s t ->
  RG t0 s1 (if is_copy (l_kind l) then t else gupd t (l_id l) KCopy).
Proof.
  intros t0 s t l l0 s1 Hlk Hk Hs1 HA HR. unfold use_leaf in Hs1. unfold lookup in Hlk.
  pose proof (HR (l_id l)) as HRx. rewrite has_leaf_find_iff in Hs1.
  destruct (find_leaf (l_id l) (s_vars s)) as [lv|] eqn:Hv.
  - inversion Hlk; subst lv. inversion Hs1; subst s1. clear Hs1.
    intros y. specialize (HR y). cbn [s_vars s_ul s_pul]. rewrite memb_cons.
    destruct (Nat.eqb y (l_id l)) eqn:E.
    + apply Nat.eqb_eq in E. subst y. rewrite Hv in *. simpl.
      destruct (is_copy (l_kind l)) eqn:Hc.
      * rewrite HRx. rewrite Hk, (copy_kind _ Hc). destruct (memb (l_id l) (s_ul s)); reflexivity.
      * unfold gupd. rewrite Nat.eqb_refl. reflexivity.
    + simpl. destruct (is_copy (l_kind l)); [exact HR|]. unfold gupd. rewrite E. exact HR.
  - destruct (s_entry s); [discriminate|]. rewrite has_leaf_find_iff, Hlk in Hs1.
    inversion Hs1; subst s1. clear Hs1.
    intros y. specialize (HR y). cbn [s_vars s_ul s_pul]. rewrite memb_cons.
    destruct (find_leaf y (s_vars s)) as [ly|] eqn:Hvy.
    + assert (E : Nat.eqb y (l_id l) = false) by (apply Nat.eqb_neq; intros E; subst; congruence).
      destruct (is_copy (l_kind l)); [exact HR|]. unfold gupd. rewrite E. exact HR.
    + destruct (Nat.eqb y (l_id l)) eqn:E.
      * apply Nat.eqb_eq in E. subst y. simpl. destruct (is_copy (l_kind l)) eqn:Hc.
        -- rewrite HRx. destruct (memb (l_id l) (s_pul s)); auto.
           destruct (HA _ _ Hlk) as [A | A]; auto. rewrite A, Hk. apply copy_kind. exact Hc.
        -- unfold gupd. rewrite Nat.eqb_refl. reflexivity.
      * simpl. destruct (is_copy (l_kind l)); [exact HR|]. unfold gupd. rewrite E. exact HR.
Qed.

Lemma use_leaf_pvars : forall s x s1, use_leaf s x = Some s1 -> s_pvars s1 = s_pvars s.
Proof.
  intros s x s1 H. unfold use_leaf in H. destruct (has_leaf x (s_vars s)); [inversion H; reflexivity|].
  destruct (s_entry s); [discriminate|]. destruct (has_leaf x (s_pvars s)); [|discriminate]. inversion H; reflexivity.
Qed.

(* a place marked used (at a non-copyable kind) holds nothing *)
Lemma used_true_emptyG : forall t0 s t x, RG t0 s t -> used s x = Some true -> t x = KCopy.
Proof.
  intros t0 s t x HR Hu. pose proof (HR x) as HRx. unfold used in Hu. rewrite has_leaf_find_iff in Hu.
  destruct (find_leaf x (s_vars s)).
  - inversion Hu as [E]. rewrite HRx, E. reflexivity.
  - destruct (s_entry s); [discriminate|]. destruct (has_leaf x (s_pvars s)); [|discriminate].
    inversion Hu as [E]. rewrite HRx, E. reflexivity.
Qed.

Lemma use_leaves_RG : forall ls t0 s s' t t', use_leaves s ls = Ok s' -> typed_use s ls ->
  row_agrees t0 (s_pvars s) -> RG t0 s t -> gsem_use t ls = GFine t' -> RG t0 s' t'.
Proof.
  induction ls as [|l r IH]; intros t0 s s' t t' Hrun HT HA HR Hsem; simpl in *.
  - inversion Hrun; inversion Hsem; subst; auto.
  - destruct (HT l (or_introl eq_refl)) as [l0 [Hlk Hk]].
    destruct (used s (l_id l)) as [u|]; [|discriminate].
    destruct (u && negb (is_copy (l_kind l))); [discriminate|].
    destruct (use_leaf s (l_id l)) as [s1|] eqn:Hs1; [|discriminate].
    pose proof (use_leaf_RG t0 s t l l0 s1 Hlk Hk Hs1 HA HR) as HR1.
    assert (HT1 : typed_use s1 r).
    { intros l' Hl'. destruct (HT l' (or_intror Hl')) as [l1 [A B]]. exists l1.
      rewrite (lookup_use_leaf _ _ _ Hs1). auto. }
    assert (HA1 : row_agrees t0 (s_pvars s1)) by (rewrite (use_leaf_pvars _ _ _ Hs1); exact HA).
    destruct (is_copy (l_kind l)).
    + eapply IH; eauto.
    + destruct (is_copy (t (l_id l))); [discriminate|]. eapply IH; eauto.
Qed.

Lemma use_leaves_errG : forall ls t0 s t e, use_leaves s ls = Err e -> e <> ErrCrash -> typed_use s ls ->
  row_agrees t0 (s_pvars s) -> RG t0 s t -> exists v, gsem_use t ls = GBad v.
Proof.
  induction ls as [|l r IH]; intros t0 s t e Hrun He HT HA HR; simpl in *; [discriminate|].
  destruct (HT l (or_introl eq_refl)) as [l0 [Hlk Hk]].
  destruct (used s (l_id l)) as [u|] eqn:Hu; [|inversion Hrun; congruence].
  destruct (u && negb (is_copy (l_kind l))) eqn:Hbad.
  - apply andb_true_iff in Hbad. destruct Hbad as [Hu' Hc]. subst u. apply negb_true_iff in Hc.
    rewrite Hc, (used_true_emptyG t0 s t _ HR Hu). simpl. eauto.
  - destruct (use_leaf s (l_id l)) as [s1|] eqn:Hs1; [|inversion Hrun; congruence].
    pose proof (use_leaf_RG t0 s t l l0 s1 Hlk Hk Hs1 HA HR) as HR1.
    assert (HT1 : typed_use s1 r).
    { intros l' Hl'. destruct (HT l' (or_intror Hl')) as [l1 [A B]]. exists l1.
      rewrite (lookup_use_leaf _ _ _ Hs1). auto. }
    assert (HA1 : row_agrees t0 (s_pvars s1)) by (rewrite (use_leaf_pvars _ _ _ Hs1); exact HA).
    destruct (is_copy (l_kind l)).
    + eapply IH; eauto.
    + destruct (is_copy (t (l_id l))); [eauto|]. eapply IH; eauto.
Qed.

Lemma assign_checked_RG : forall ls t0 s s' t t', assign_leaves_checked s ls = Ok s' ->
  RG t0 s t -> gsem_assign t ls = GFine t' -> RG t0 s' t'.
Proof.
  induction ls as [|l r IH]; intros t0 s s' t t' Hrun HR Hsem; simpl in *.
  - inversion Hrun; inversion Hsem; subst; auto.
  - match type of Hrun with (if ?b then _ else _) = _ => destruct b end; [discriminate|].
    destruct (is_linear (t (l_id l))); [discriminate|].
    eapply IH; eauto. apply assign_leaf_RG. exact HR.
Qed.

Lemma assign_checked_errG : forall ls t0 s t e, assign_leaves_checked s ls = Err e ->
  RG t0 s t -> exists v, gsem_assign t ls = GBad v.
Proof.
  induction ls as [|l r IH]; intros t0 s t e Hrun HR; simpl in *; [discriminate|].
  pose proof (HR (l_id l)) as HRx.
  destruct (find_leaf (l_id l) (s_vars s)) as [old|] eqn:Hf.
  - destruct (negb (memb (l_id l) (s_ul s)) && is_linear (l_kind old)) eqn:Hbad.
    + apply andb_true_iff in Hbad. destruct Hbad as [Hm Hlin]. apply negb_true_iff in Hm.
      rewrite HRx, Hm, Hlin. eauto.
    + destruct (is_linear (t (l_id l))); [eauto|]. eapply IH; eauto. apply assign_leaf_RG. exact HR.
  - destruct (is_linear (t (l_id l))); [eauto|]. eapply IH; eauto. apply assign_leaf_RG. exact HR.
Qed.

Lemma gshadow_bad : forall r p', In (EShadow p') r -> input_is_borrowed fin (p_id p') = true ->
  forall t, exists v, gsem_events fin t r = GBad v.
Proof.
  induction r as [|e r IH]; intros p' Hin Hb t; [destruct Hin|]. simpl.
  destruct Hin as [E | Hin].
  - subst e. simpl. rewrite Hb. eauto.
  - destruct (gsem_event fin t e); [eapply IH; eauto | eauto].
Qed.

Lemma step_event_pvars : forall e s s', step_event fin s e = Ok s' -> s_pvars s' = s_pvars s.
Proof. intros e s s' H. destruct (step_event_ext fin e s s' H) as [_ [_ [_ [_ E]]]]. exact E. Qed.

Lemma step_event_RG : forall e t0 s s' t t', step_event fin s e = Ok s' -> typed_event s e ->
  row_agrees t0 (s_pvars s) -> RG t0 s t -> gsem_event fin t e = GFine t' -> RG t0 s' t'.
Proof.
  intros e t0 s s' t t' Hrun HT HA HR Hsem. destruct e as [p k | p | p | p | e]; simpl in *.
  - destruct (p_inout p && negb (is_borrow k)); [discriminate|]. eapply use_leaves_RG; eauto.
  - match type of Hrun with (if ?b then _ else _) = _ => destruct b end; [discriminate|].
    eapply assign_checked_RG; eauto.
  - destruct (input_is_borrowed fin (p_id p)); [discriminate|]. inversion Hrun; inversion Hsem; subst; auto.
  - inversion Hrun; inversion Hsem; subst. apply assign_leaves_RG. exact HR.
  - discriminate.
Qed.

Lemma run_events_RG : forall es t0 s sf t t', run_events fin s es = Ok sf -> typed_run fin s es ->
  row_agrees t0 (s_pvars s) -> RG t0 s t -> gsem_events fin t es = GFine t' -> RG t0 sf t'.
Proof.
  induction es as [|e r IH]; intros t0 s sf t t' Hrun HT HA HR Hsem; simpl in *.
  - inversion Hrun; inversion Hsem; subst; auto.
  - destruct (step_event fin s e) as [s1|] eqn:E; [|discriminate].
    destruct (gsem_event fin t e) as [t1|] eqn:E2; [|discriminate]. destruct HT as [HTe HTr].
    eapply IH; eauto.
    + rewrite (step_event_pvars _ _ _ E). exact HA.
    + eapply step_event_RG; eauto.
Qed.

Lemma run_events_errG : forall es t0 s t e, run_events fin s es = Err e -> e <> ErrCrash ->
  typed_run fin s es -> eventsIO fin es -> shadow_wf es -> row_agrees t0 (s_pvars s) -> RG t0 s t ->
  scopeIO fin s -> exists v, gsem_events fin t es = GBad v.
Proof.
  induction es as [|e r IH]; intros t0 s t e0 Hrun He HT HIO HW HA HR HI; simpl in *; [discriminate|].
  assert (HIO' : eventsIO fin r) by (intros e' H; apply HIO; simpl; auto).
  destruct HW as [HWe HW']. destruct HT as [HTe HTr].
  destruct (step_event fin s e) as [s1|e1] eqn:E.
  - destruct (gsem_event fin t e) as [t1|] eqn:E2; [|eauto].
    eapply IH; eauto.
    + rewrite (step_event_pvars _ _ _ E). exact HA.
    + eapply step_event_RG; eauto.
    + eapply step_event_IO; eauto. apply HIO. simpl. auto.
  - inversion Hrun; subst e1. clear Hrun.
    destruct e as [p k | p | p | p | e]; simpl in *.
    + destruct (p_inout p && negb (is_borrow k)); [eauto|].
      destruct (use_leaves_errG _ t0 s t e0 E He HTe HA HR) as [v Hv]. rewrite Hv. eauto.
    + destruct (find_leaf (p_id p) (s_vars s)) as [l0|] eqn:Hf.
      * destruct (l_inout l0) eqn:Hio.
        -- destruct (find_leaf_some _ _ _ Hf) as [Hin Hid].
           assert (Hb : input_is_borrowed fin (p_id p) = true) by (rewrite <- Hid; apply HI; auto).
           destruct HWe as [p' [Hp' Hid']].
           destruct (gsem_assign t (leaves (p_tree p))) as [t1|]; [|eauto].
           apply (gshadow_bad r p' Hp'). rewrite Hid'. exact Hb.
        -- destruct (assign_checked_errG _ t0 s t e0 E HR) as [v Hv]. rewrite Hv. eauto.
      * destruct (assign_checked_errG _ t0 s t e0 E HR) as [v Hv]. rewrite Hv. eauto.
    + destruct (input_is_borrowed fin (p_id p)); [eauto | discriminate].
    + discriminate.
    + eauto.
Qed.

(* a place read through the input scope at a non-copyable kind needs its token *)
Lemma use_leaves_pulG : forall x ls t0 s s' t t', use_leaves s ls = Ok s' -> typed_use s ls ->
  row_agrees t0 (s_pvars s) -> RG t0 s t -> gsem_use t ls = GFine t' -> t0 x = KCopy ->
  (forall l, find_leaf x (s_pvars s) = Some l -> is_copy (l_kind l) = false) ->
  In x (s_pul s') -> In x (s_pul s).
Proof.
  intros x. induction ls as [|l r IH]; intros t0 s s' t t' Hrun HT HA HR Hsem T0 Hnc Hin; simpl in *.
  - inversion Hrun; subst; auto.
  - destruct (HT l (or_introl eq_refl)) as [l0 [Hlk Hk]].
    destruct (used s (l_id l)) as [u|]; [|discriminate].
    destruct (u && negb (is_copy (l_kind l))); [discriminate|].
    destruct (use_leaf s (l_id l)) as [s1|] eqn:Hs1; [|discriminate].
    pose proof (use_leaf_RG t0 s t l l0 s1 Hlk Hk Hs1 HA HR) as HR1.
    assert (HT1 : typed_use s1 r).
    { intros l' Hl'. destruct (HT l' (or_intror Hl')) as [l1 [A B]]. exists l1.
      rewrite (lookup_use_leaf _ _ _ Hs1). auto. }
    pose proof (use_leaf_pvars _ _ _ Hs1) as Epv.
    assert (Hin1 : In x (s_pul s1)).
    { destruct (is_copy (l_kind l)).
      - eapply IH; eauto; rewrite Epv; auto.
      - destruct (is_copy (t (l_id l))); [discriminate|]. eapply IH; eauto; rewrite Epv; auto. }
    unfold use_leaf in Hs1. unfold lookup in Hlk. rewrite has_leaf_find_iff in Hs1.
    pose proof (HR (l_id l)) as HRx.
    destruct (find_leaf (l_id l) (s_vars s)) eqn:Hv.
    + inversion Hs1; subst s1. exact Hin1.
    + destruct (s_entry s); [discriminate|]. rewrite has_leaf_find_iff, Hlk in Hs1.
      inversion Hs1; subst s1. simpl in Hin1. destruct Hin1 as [E | Hin1]; [|exact Hin1]. exfalso.
      subst x. pose proof (Hnc l0 Hlk) as Hc. rewrite Hk in Hc. rewrite Hc in Hsem.
      rewrite HRx in Hsem. destruct (memb (l_id l) (s_pul s)); [discriminate|]. rewrite T0 in Hsem. discriminate.
Qed.

Lemma step_event_pul_eqG : forall e s s', step_event fin s e = Ok s' ->
  (forall p k, e <> EUse p k) -> s_pul s' = s_pul s.
Proof.
  intros e s s' H Hne. destruct e as [p k | p | p | p | e]; simpl in H.
  - exfalso. apply (Hne p k). reflexivity.
  - match type of H with (if ?b then _ else _) = _ => destruct b end; [discriminate|].
    revert s s' H. generalize (leaves (p_tree p)). induction l as [|a r IH]; intros s s' H; simpl in H.
    + inversion H; auto.
    + match type of H with (if ?b then _ else _) = _ => destruct b end; [discriminate|].
      rewrite (IH _ _ H). reflexivity.
  - destruct (input_is_borrowed fin (p_id p)); [discriminate|]. inversion H; auto.
  - inversion H. destruct (assign_leaves_fields (leaves (p_tree p)) s) as [_ [_ [_ [D _]]]]. exact D.
  - discriminate.
Qed.

Lemma run_events_pulG : forall x es t0 s sf t t', run_events fin s es = Ok sf -> typed_run fin s es ->
  row_agrees t0 (s_pvars s) -> RG t0 s t -> gsem_events fin t es = GFine t' -> t0 x = KCopy ->
  (forall l, find_leaf x (s_pvars s) = Some l -> is_copy (l_kind l) = false) ->
  In x (s_pul sf) -> In x (s_pul s).
Proof.
  intros x. induction es as [|e r IH]; intros t0 s sf t t' Hrun HT HA HR Hsem T0 Hnc Hin; simpl in *.
  - inversion Hrun; subst; auto.
  - destruct (step_event fin s e) as [s1|] eqn:E; [|discriminate].
    destruct (gsem_event fin t e) as [t1|] eqn:E2; [|discriminate]. destruct HT as [HTe HTr].
    pose proof (step_event_RG e t0 s s1 t t1 E HTe HA HR E2) as HR1.
    pose proof (step_event_pvars _ _ _ E) as Epv.
    assert (Hin1 : In x (s_pul s1)) by (eapply IH; eauto; rewrite Epv; auto).
    destruct e as [p k | p | p | p | e0];
      try (rewrite (step_event_pul_eqG _ _ _ E) in Hin1; [exact Hin1 | intros; discriminate]).
    simpl in E, E2, HTe. destruct (p_inout p && negb (is_borrow k)); [discriminate|].
    eapply use_leaves_pulG; eauto.
Qed.

(* a linear token that is there when a place gets its first binding in the block is overwritten *)
Lemma assign_checked_freshG : forall x ls t0 s s1 t t1, assign_leaves_checked s ls = Ok s1 ->
  gsem_assign t ls = GFine t1 -> RG t0 s t -> t0 x = KLinear ->
  ~ In x (s_pul s) -> has_leaf x (s_vars s) = false -> has_leaf x (s_vars s1) = false.
Proof.
  intros x. induction ls as [|l r IH]; intros t0 s s1 t t1 Hrun Hsem HR T0 Hnp Hv; simpl in *.
  - inversion Hrun; subst; auto.
  - match type of Hrun with (if ?b then _ else _) = _ => destruct b end; [discriminate|].
    pose proof (assign_leaf_RG t0 s t l HR) as HR1.
    destruct (Nat.eq_dec (l_id l) x) as [E | E].
    + exfalso. subst x. pose proof (HR (l_id l)) as HRx. rewrite has_leaf_find_iff in Hv.
      destruct (find_leaf (l_id l) (s_vars s)); [discriminate|].
      apply memb_false in Hnp. rewrite HRx, Hnp, T0 in Hsem. discriminate.
    + assert (Hv1 : has_leaf x (s_vars (assign_leaf s l)) = false).
      { simpl. rewrite has_leaf_cons. apply Nat.eqb_neq in E. rewrite E. simpl. rewrite has_leaf_remove; auto.
        apply Nat.eqb_neq in E. auto. }
      destruct (is_linear (t (l_id l))); [discriminate|]. eapply IH; eauto.
Qed.

Lemma def_needs_emptyG : forall x es B t0 s sf t t', run_events fin s es = Ok sf -> typed_run fin s es ->
  row_agrees t0 (s_pvars s) -> RG t0 s t -> gsem_events fin t es = GFine t' -> reassign_wf B es ->
  (forall y, In y B -> has_leaf y (s_vars s) = true \/ In y (s_pul s)) ->
  t0 x = KLinear -> has_leaf x (s_vars s) = false -> ~ In x (s_pul sf) ->
  has_leaf x (s_vars sf) = false.
Proof.
  intros x. induction es as [|e r IH]; intros B t0 s sf t t' Hrun HT HA HR Hsem HB Hinv T0 Hv Hnp; simpl in *.
  - inversion Hrun; subst; auto.
  - destruct (step_event fin s e) as [s1|] eqn:E; [|discriminate].
    destruct (gsem_event fin t e) as [t1|] eqn:E2; [|discriminate]. destruct HT as [HTe HTr].
    pose proof (step_event_RG e t0 s s1 t t1 E HTe HA HR E2) as HR1.
    pose proof (step_event_pvars _ _ _ E) as Epv.
    assert (HA1 : row_agrees t0 (s_pvars s1)) by (rewrite Epv; exact HA).
    pose proof (step_event_ext fin e s s1 E) as X01.
    pose proof (run_events_ext fin r s1 sf Hrun) as X1f.
    assert (Hnp1 : ~ In x (s_pul s1)).
    { intros H. apply Hnp. destruct X1f as [_ [_ [I3 _]]]. apply I3. exact H. }
    assert (Hnp0 : ~ In x (s_pul s)).
    { intros H. apply Hnp1. destruct X01 as [_ [_ [I3 _]]]. apply I3. exact H. }
    assert (Hinv1 : forall y, In y B -> has_leaf y (s_vars s1) = true \/ In y (s_pul s1)).
    { intros y Hy. destruct X01 as [I1 [_ [I3 _]]]. destruct (Hinv y Hy); auto. }
    destruct e as [p k | p | p | p | e0]; simpl in E, E2, HTe.
    + destruct (p_inout p && negb (is_borrow k)); [discriminate|].
      assert (Hv1 : has_leaf x (s_vars s1) = false) by (rewrite (use_leaves_vars _ _ _ E); exact Hv).
      destruct k; try (eapply (IH B); eauto; fail).
      eapply (IH (map l_id (leaves (p_tree p)) ++ B)); eauto.
      intros y Hy. apply in_app_or in Hy. destruct Hy as [Hy | Hy]; auto.
      apply in_map_iff in Hy. destruct Hy as [l [A Hl]]. subst y. eapply use_leaves_marks; eauto.
    + match type of E with (if ?b then _ else _) = _ => destruct b end; [discriminate|].
      eapply (IH B); eauto. eapply assign_checked_freshG; eauto.
    + destruct (input_is_borrowed fin (p_id p)); [discriminate|]. inversion E; subst s1.
      eapply (IH B); eauto.
    + destruct HB as [HB1 HB2]. inversion E; subst s1.
      eapply (IH B); eauto.
      destruct (has_leaf x (s_vars (assign_leaves s (leaves (p_tree p))))) eqn:Hh; auto. exfalso.
      destruct (assign_leaves_has _ _ _ Hh) as [H | [l [A Bx]]]; [congruence|].
      subst x. destruct (Hinv _ (HB1 l A)) as [H | H]; [congruence | contradiction].
    + discriminate.
Qed.

End BlockCG.

(** * scopes bind every id once *)
Definition uniq (ls : list leaf) : Prop := NoDup (map l_id ls).

Lemma uniq_find : forall ls l, uniq ls -> In l ls -> find_leaf (l_id l) ls = Some l.
Proof.
  induction ls as [|a r IH]; intros l U Hin; [destruct Hin|]. unfold uniq in U. simpl in U. inversion U as [|? ? Hn Hr]; subst.
  rewrite find_leaf_cons. destruct Hin as [E | Hin].
  - subst a. rewrite Nat.eqb_refl. reflexivity.
  - destruct (Nat.eqb (l_id a) (l_id l)) eqn:E; [|apply IH; auto].
    apply Nat.eqb_eq in E. exfalso. apply Hn. rewrite E. apply in_map. exact Hin.
Qed.

Lemma uniq_remove : forall x ls, uniq ls -> uniq (remove_leaf x ls).
Proof.
  intros x ls. unfold uniq, remove_leaf. induction ls as [|a r IH]; intros U; simpl; auto.
  simpl in U. inversion U as [|? ? Hn Hr]; subst.
  destruct (negb (Nat.eqb (l_id a) x)); simpl; auto. constructor; auto.
  intros Hin. apply Hn. apply in_map_iff in Hin. destruct Hin as [l [A B]]. apply filter_In in B.
  apply in_map_iff. exists l. tauto.
Qed.

Lemma uniq_assign : forall s l, uniq (s_vars s) -> uniq (s_vars (assign_leaf s l)).
Proof.
  intros s l U. simpl. unfold uniq. simpl. constructor; [|apply uniq_remove; exact U].
  intros Hin. apply in_map_iff in Hin. destruct Hin as [l' [A B]]. unfold remove_leaf in B. apply filter_In in B.
  destruct B as [_ B]. apply negb_true_iff in B. apply Nat.eqb_neq in B. congruence.
Qed.

Lemma uniq_assign_leaves : forall ls s, uniq (s_vars s) -> uniq (s_vars (assign_leaves s ls)).
Proof.
  unfold assign_leaves. induction ls as [|l r IH]; intros s U; simpl; auto. apply IH. apply uniq_assign. exact U.
Qed.

Lemma uniq_step : forall fin e s s', step_event fin s e = Ok s' -> uniq (s_vars s) -> uniq (s_vars s').
Proof.
  intros fin e s s' H U. destruct e as [p k | p | p | p | e]; simpl in H.
  - destruct (p_inout p && negb (is_borrow k)); [discriminate|]. rewrite (use_leaves_vars _ _ _ H). exact U.
  - match type of H with (if ?b then _ else _) = _ => destruct b end; [discriminate|].
    revert s s' H U. generalize (leaves (p_tree p)). induction l as [|a r IH]; intros s s' H U; simpl in H.
    + inversion H; subst; auto.
    + match type of H with (if ?b then _ else _) = _ => destruct b end; [discriminate|].
      eapply IH; [exact H|]. apply uniq_assign. exact U.
  - destruct (input_is_borrowed fin (p_id p)); [discriminate|]. inversion H; subst; auto.
  - inversion H; subst. apply uniq_assign_leaves. exact U.
  - discriminate.
Qed.

Lemma uniq_run : forall fin es s s', run_events fin s es = Ok s' -> uniq (s_vars s) -> uniq (s_vars s').
Proof.
  intros fin. induction es as [|e r IH]; intros s s' H U; simpl in H.
  - inversion H; subst; auto.
  - destruct (step_event fin s e) eqn:E; [|discriminate]. eapply IH; [exact H | eapply uniq_step; eauto].
Qed.

Lemma uniq_init : forall b row, uniq (s_vars (init_scope b row)) /\ uniq (s_pvars (init_scope b row)).
Proof.
  intros b row. assert (U : uniq (s_vars (assign_leaves (mkScope true [] [] [] [] []) (flat_map leaves row)))).
  { apply uniq_assign_leaves. constructor. }
  unfold init_scope. destruct b; simpl; split; auto; constructor.
Qed.

(** * paths *)
Section GlobalG.
Variable c : lcfg.
Hypothesis HW : wf_shape c.
Hypothesis HT : typed c.
Hypothesis HE : edges_ok c.
Hypothesis HX : exit_row_ok c.
Hypothesis HI : wf_idx c.
Hypothesis HIO : io_ok c.
Hypothesis HEV : events_wf c.

Notation fin := (c_inputs c).
Notation N := (length (c_blocks c)).
Notation evs b := (lb_events (nth_block c b)).
Notation succs b := (lb_succ (nth_block c b)).

Definition gbad_walk : Prop :=
  exists rest k v, is_walk c (c_entry c) rest /\ grun_path c g_empty (c_entry c) rest k = GBad v.
Definition gbad_final : Prop :=
  exists rest k t, is_walk c (c_entry c) rest /\ last rest (c_entry c) = c_exit c /\
    grun_path c g_empty (c_entry c) rest k = GFine t /\ ~ gfinal_ok c t.
Definition gviolated : Prop := gbad_walk \/ gbad_final.

Inductive greachc : nat -> gstate -> Prop :=
| grc_entry : greachc (c_entry c) g_empty
| grc_step b t t' n : greachc b t ->
    gsem_events fin (gblock_start c b t) (evs b) = GFine t' -> In n (succs b) -> greachc n t'.

Lemma greachc_extend : forall b t, greachc b t -> forall suffix k o, is_walk c b suffix ->
  grun_path c t b suffix k = o ->
  exists rest, is_walk c (c_entry c) rest /\ grun_path c g_empty (c_entry c) rest k = o /\
               last rest (c_entry c) = last suffix b.
Proof.
  intros b t H. induction H as [|b t t' n Hr IH Hs Hn]; intros suffix k o Hw Hrun.
  - exists suffix. auto.
  - destruct (IH (n :: suffix) k o) as [rest [A [B C]]].
    + simpl. auto.
    + simpl. rewrite Hs. exact Hrun.
    + exists rest. split; auto. split; auto. rewrite C. apply last_cons_default.
Qed.

Lemma gblock_bad : forall b t v, greachc b t -> gsem_events fin (gblock_start c b t) (evs b) = GBad v -> gbad_walk.
Proof.
  intros b t v Hr Hs.
  destruct (greachc_extend b t Hr [] (length (evs b)) (GBad v) I) as [rest [A [B _]]].
  - simpl. rewrite firstn_all. exact Hs.
  - exists rest, (length (evs b)), v. auto.
Qed.

Lemma gwalk_reach : forall rest b t, greachc b t -> is_walk c b rest ->
  gbad_walk \/ exists t', greachc (last rest b) t'.
Proof.
  induction rest as [|n r IH]; intros b t Hr Hw.
  - right. exists t. exact Hr.
  - destruct Hw as [Hn Hw]. rewrite last_cons_default.
    destruct (gsem_events fin (gblock_start c b t) (evs b)) as [t'|v] eqn:E.
    + apply (IH n t'); auto. eapply grc_step; eauto.
    + left. eapply gblock_bad; eauto.
Qed.

Lemma greach_greachc : forall b, greach c b -> gbad_walk \/ exists t, greachc b t.
Proof.
  intros b [rest [Hw Hl]]. rewrite <- Hl. apply (gwalk_reach rest (c_entry c) g_empty); auto. constructor.
Qed.

Lemma succ_idx : forall b n, b < N -> In n (succs b) -> n < N /\ n <> c_entry c.
Proof.
  intros b n Hb Hn. split.
  - destruct HI as [_ [_ W]]. eapply W; [apply nth_In; exact Hb | exact Hn].
  - intros E. subst n. destruct HW as [_ [_ [_ W]]]. apply (W b). exact Hn.
Qed.

(* the start of a block *)
Lemma gstart : forall b t, b < N ->
  RG t (block_init c b) (gblock_start c b t) /\ scopeIO fin (block_init c b) /\
  s_pul (block_init c b) = [] /\ uniq (s_vars (block_init c b)) /\
  (Nat.eqb b (c_entry c) = false -> s_vars (block_init c b) = [] /\ s_pvars (block_init c b) = row_leaves c b) /\
  (Nat.eqb b (c_entry c) = true -> s_pvars (block_init c b) = []).
Proof.
  intros b t Hb. destruct (blockIO c HIO b Hb) as [II _].
  assert (R0 : RG t e0 t) by (intros x; reflexivity).
  unfold gblock_start, block_init. split; [|split; [|split; [|split; [|split]]]].
  - destruct (Nat.eqb b (c_entry c)).
    + rewrite init_scope_entry. apply assign_leaves_RG. exact R0.
    + unfold init_scope. intros x. reflexivity.
  - destruct (Nat.eqb b (c_entry c)).
    + rewrite init_scope_entry. apply (assign_leaves_IO c); auto. intros l [].
    + unfold init_scope. intros l [].
  - unfold init_scope. destruct (Nat.eqb b (c_entry c)); reflexivity.
  - apply uniq_init.
  - intros E. rewrite E. unfold init_scope, row_leaves. simpl. auto.
  - intros E. rewrite E. reflexivity.
Qed.

Definition Ag (b : nat) (t : gstate) : Prop :=
  if Nat.eqb b (c_entry c) then t = g_empty else row_agrees t (row_leaves c b).

Lemma Ag_init : forall b t, b < N -> Ag b t -> row_agrees t (s_pvars (block_init c b)).
Proof.
  intros b t Hb HA. destruct (gstart b t Hb) as [_ [_ [_ [_ [A B]]]]]. unfold Ag in HA.
  destruct (Nat.eqb b (c_entry c)).
  - rewrite (B eq_refl). intros x l H. discriminate.
  - destruct (A eq_refl) as [_ E]. rewrite E. exact HA.
Qed.

(* running the checker and the semantics over one block from a configuration *)
Lemma gblock_both : forall b t, b < N -> Ag b t ->
  (exists v, gsem_events fin (gblock_start c b t) (evs b) = GBad v) \/
  (exists sf t', run_events fin (block_init c b) (evs b) = Ok sf /\
     gsem_events fin (gblock_start c b t) (evs b) = GFine t' /\ RG t sf t').
Proof.
  intros b t Hb HA. destruct (gstart b t Hb) as [R0 [I0 _]].
  destruct (blockIO c HIO b Hb) as [_ IE].
  assert (Hin : In (nth_block c b) (c_blocks c)) by (apply nth_In; exact Hb).
  destruct (run_events fin (block_init c b) (evs b)) as [sf|e] eqn:E.
  - destruct (gsem_events fin (gblock_start c b t) (evs b)) as [t'|v] eqn:E2; [|left; eauto].
    right. exists sf, t'. split; auto. split; auto.
    eapply run_events_RG; eauto. apply Ag_init; auto.
  - left. eapply run_events_errG; eauto.
    + intros Ec. subst e. eapply run_events_no_crash; eauto.
    + apply (HEV _ Hin).
    + apply Ag_init; auto.
Qed.

Lemma Ag_step : forall b t sf t' n, b < N -> Ag b t -> run_events fin (block_init c b) (evs b) = Ok sf ->
  RG t sf t' -> In n (succs b) -> Ag n t'.
Proof.
  intros b t sf t' n Hb HA Hrun HR Hn. destruct (succ_idx b n Hb Hn) as [Hn' Hne].
  unfold Ag. apply Nat.eqb_neq in Hne. rewrite Hne. intros x l Hf.
  destruct (HE b n sf Hb Hn Hrun x l Hf) as [l0 [Hlk Hk]]. rewrite <- Hk.
  pose proof (HR x) as HRx. unfold lookup in Hlk.
  destruct (find_leaf x (s_vars sf)) as [lv|] eqn:Hv.
  - inversion Hlk; subst lv. rewrite HRx. destruct (memb x (s_ul sf)); auto.
  - destruct (s_entry sf) eqn:He; [discriminate|]. rewrite HRx. destruct (memb x (s_pul sf)); auto.
    destruct (run_events_ext fin _ _ _ Hrun) as [_ [_ [_ [Ee Ep]]]].
    pose proof (Ag_init b t Hb HA) as HA'. rewrite <- Ep in HA'. apply (HA' x l0 Hlk).
Qed.

Lemma greachc_Ag : forall b t, greachc b t -> b < N /\ Ag b t.
Proof.
  intros b t H. induction H as [|b t t' n Hr [Hb HA] Hs Hn].
  - split; [apply HI|]. unfold Ag. rewrite Nat.eqb_refl. reflexivity.
  - destruct (succ_idx b n Hb Hn) as [Hn' _]. split; auto.
    destruct (gblock_both b t Hb HA) as [[v Hv] | [sf [t2 [Hrun [Hs2 HR]]]]]; [congruence|].
    rewrite Hs in Hs2. inversion Hs2; subst t2. apply (Ag_step b t sf t' n Hb HA Hrun HR Hn).
Qed.

(** (a) a rejection while walking a reachable block *)
Theorem complete_blocksG : forall b e, check_blocks fin (c_entry c) 0 (c_blocks c) = inr (b, e) ->
  greach c b -> gbad_walk.
Proof.
  intros b e H Hg. destruct (check_blocks_err c _ _ _ _ H) as [j [blk [A [B C]]]]. simpl in A. subst j.
  destruct (nth_error_block c _ _ B) as [Hb Eb]. subst blk.
  destruct (greach_greachc b Hg) as [Hbad | [t Hr]]; [exact Hbad|].
  destruct (greachc_Ag b t Hr) as [_ HA].
  destruct (gblock_both b t Hb HA) as [[v Hv] | [sf [t' [Hrun _]]]].
  - eapply gblock_bad; eauto.
  - unfold check_block in C. unfold block_init in Hrun. congruence.
Qed.

(** * the dataflow phase *)
Variable sched : list nat.
Variables ss0 ss : list scope.
Hypothesis H1 : check_blocks fin (c_entry c) 0 (c_blocks c) = inl ss0.
Hypothesis H2 : exit_used c ss0 = Some ss.
Hypothesis HER : c_exit_reachable c = true.
Notation L := (live_of c ss sched).

Lemma g_H4 : c_exit c < N. Proof. apply HI. Qed.
Lemma g_H5 : c_entry c < N. Proof. apply HI. Qed.
Lemma g_H3 : wf_cfg (stats_cfg c ss) = true.
Proof. eapply stats_wf; eauto. Qed.

Lemma cg_run : forall b, b < N -> run_events fin (block_init c b) (evs b) = Ok (nth_scope ss0 b).
Proof. intros. unfold block_init. eapply block_run; eauto. Qed.
Lemma cg_ss : forall b, b <> c_exit c -> nth_scope ss b = nth_scope ss0 b.
Proof. intros. eapply nth_ss; eauto; apply g_H4. Qed.
Lemma cg_live_eq : forall b x, b < N ->
  (In x (getv L b) <->
   In x (s_up (nth_scope ss b)) \/
   (~ In x (map l_id (s_vars (nth_scope ss b))) /\ exists n, In n (succs b) /\ In x (getv L n))).
Proof. intros. eapply live_eq'; eauto; solve [apply g_H3 | apply g_H4]. Qed.
Lemma cg_live_path : forall b x, b < N -> In x (getv L b) -> live_on_path false (stats_cfg c ss) x b.
Proof. intros. eapply (live_path c sched ss0 ss); eauto; solve [apply g_H3 | apply g_H4]. Qed.
Lemma cg_live_row : forall n x, live_on_path false (stats_cfg c ss) x n -> n < N -> n <> c_entry c ->
  has_leaf x (row_leaves c n) = true.
Proof. intros. eapply (live_in_row c); eauto. Qed.
Lemma cg_exit_up : forall x, In x (s_up (nth_scope ss (c_exit c))) <-> In x (borrowed_ids c).
Proof. intros. eapply exit_up; eauto; apply g_H4. Qed.

Lemma cg_block : forall b t, b < N -> greachc b t ->
  gbad_walk \/ exists t', gsem_events fin (gblock_start c b t) (evs b) = GFine t' /\ RG t (nth_scope ss0 b) t'.
Proof.
  intros b t Hb Hr. destruct (greachc_Ag b t Hr) as [_ HA].
  destruct (gblock_both b t Hb HA) as [[v Hv] | [sf [t' [Hrun [Hs HR]]]]].
  - left. eapply gblock_bad; eauto.
  - right. exists t'. rewrite (cg_run b Hb) in Hrun. inversion Hrun; subst sf. auto.
Qed.

Lemma cg_pvars : forall b, b < N -> b <> c_entry c -> s_pvars (nth_scope ss0 b) = row_leaves c b.
Proof.
  intros b Hb Hne. destruct (run_events_ext fin _ _ _ (cg_run b Hb)) as [_ [_ [_ [_ E]]]]. rewrite E.
  destruct (gstart b g_empty Hb) as [_ [_ [_ [_ [A _]]]]]. apply Nat.eqb_neq in Hne. apply (A Hne).
Qed.

Lemma cg_inv2 : forall b, b < N -> s_up (nth_scope ss0 b) = s_pul (nth_scope ss0 b).
Proof.
  intros b Hb. assert (I : inv2 (nth_scope ss0 b)).
  { eapply run_events_inv2; [apply cg_run; exact Hb|].
    unfold block_init, init_scope. destruct (Nat.eqb b (c_entry c)); split; auto; discriminate. }
  apply I.
Qed.

(** (c) a place read later at a non-copyable kind, reached without its token *)
Lemma dead_token_badG : forall x n, live_on_path false (stats_cfg c ss) x n ->
  forall t, greachc n t -> n < N -> n <> c_entry c -> t x = KCopy ->
  (exists l, find_leaf x (row_leaves c n) = Some l /\ is_copy (l_kind l) = false) -> gviolated.
Proof.
  intros x n Hl. assert (Hlen : length ss = N) by (eapply nc_len; eauto).
  induction Hl as [n Hn Hu | n m Hn Hd Hm Hl IH]; intros t Hr Hb Hne Tx [l [Hf Hc]].
  - rewrite (stats_blk c ss n Hlen Hb) in Hu. simpl in Hu.
    destruct (Nat.eq_dec n (c_exit c)) as [Hex | Hex].
    + subst n. right.
      destruct (greachc_extend _ _ Hr [] 0 (GFine t) I) as [rest [A [B C]]].
      * simpl. unfold gblock_start. apply Nat.eqb_neq in Hne. rewrite Hne. reflexivity.
      * exists rest, 0, t. repeat split; auto. intros [F _].
        apply cg_exit_up in Hu. unfold borrowed_ids in Hu. apply in_map_iff in Hu. destruct Hu as [lb [Eid Hlb]].
        destruct (HX lb Hlb) as [l' [Hf' Hk']]. rewrite Eid, Hf in Hf'. inversion Hf'; subst l'.
        assert (Hcb : is_copy (l_kind lb) = false) by (rewrite <- Hk'; exact Hc).
        pose proof (F lb Hlb Hcb) as Ft. rewrite Eid, Tx in Ft. rewrite <- Ft in Hcb. discriminate.
    + rewrite (cg_ss n Hex) in Hu. left.
      destruct (cg_block n t Hb Hr) as [Hbad | [t' [Hs HR]]]; [exact Hbad|]. exfalso.
      destruct (greachc_Ag n t Hr) as [_ HA].
      destruct (gstart n t Hb) as [R0 [_ [P0 [_ [A0 _]]]]].
      apply Nat.eqb_neq in Hne. destruct (A0 Hne) as [_ Epv].
      rewrite (cg_inv2 n Hb) in Hu.
      assert (Hin : In x (s_pul (block_init c n))).
      { eapply (run_events_pulG fin x (evs n) t); eauto.
        - apply cg_run; exact Hb.
        - apply Ag_init; auto.
        - intros l' Hf'. rewrite Epv, Hf in Hf'. inversion Hf'; subst; exact Hc. }
      rewrite P0 in Hin. destruct Hin.
  - unfold flow_succ in Hm. rewrite (stats_blk c ss n Hlen Hb) in Hd, Hm. simpl in Hd, Hm. rewrite app_nil_r in Hm.
    assert (Hex : n <> c_exit c).
    { intros E. subst n. destruct HW as [_ [Ws _]]. rewrite Ws in Hm. destruct Hm. }
    rewrite (cg_ss n Hex) in Hd.
    destruct (cg_block n t Hb Hr) as [Hbad | [t' [Hs HR]]]; [left; exact Hbad|].
    destruct (succ_idx n m Hb Hm) as [Hm' Hme].
    assert (Hv : find_leaf x (s_vars (nth_scope ss0 n)) = None).
    { destruct (find_leaf x (s_vars (nth_scope ss0 n))) as [lv|] eqn:E; auto. exfalso. apply Hd.
      destruct (find_leaf_some _ _ _ E) as [A B]. apply in_map_iff. exists lv. auto. }
    destruct (has_leaf_find _ _ (cg_live_row m x Hl Hm' Hme)) as [l' Hf'].
    destruct (HE n m _ Hb Hm (cg_run n Hb) x l' Hf') as [l0 [Hlk Hk]].
    unfold lookup in Hlk. rewrite Hv in Hlk. destruct (s_entry (nth_scope ss0 n)); [discriminate|].
    rewrite (cg_pvars n Hb Hne), Hf in Hlk. inversion Hlk; subst l0.
    apply (IH t'); auto.
    + eapply grc_step; eauto.
    + pose proof (HR x) as HRx. rewrite Hv in HRx. rewrite HRx, Tx. destruct (memb x (s_pul (nth_scope ss0 n))); reflexivity.
    + exists l'. split; auto. rewrite <- Hk. exact Hc.
Qed.

Hypothesis HG : forall b, b < N -> greach c b.

Theorem complete_usedG : forall fx b xs, check_dataflow fx c ss L 0 (c_blocks c) = RejUsed b xs -> gviolated.
Proof.
  intros fx b xs H. pose proof (check_dataflow_rej c sched ss g_H4 g_H5 fx (c_blocks c) 0) as P. rewrite H in P.
  destruct P as [j [blk [A [B [C1 Hne]]]]]. simpl in A. subst j.
  destruct (nth_error_block c _ _ B) as [Hb Eb]. subst blk.
  destruct xs as [|x xs]; [congruence|]. clear Hne.
  unfold check1 in C1.
  destruct (forallb (fun x => match lookup (nth_scope ss b) x with Some _ => true | None => false end)
                    (flat_map (getv L) (succs b))); [|discriminate].
  inversion C1 as [C1']. clear C1.
  assert (Hx : In x (filter (fun x => match lookup (nth_scope ss b) x, used (nth_scope ss b) x with
                              | Some l, Some true => negb (is_copy (l_kind l))
                              | _, _ => false end) (flat_map (getv L) (succs b)))) by (rewrite C1'; simpl; auto).
  apply filter_In in Hx. destruct Hx as [Hfl Hp]. apply in_flat_map in Hfl. destruct Hfl as [n [Hn Hxn]].
  assert (Hex : b <> c_exit c).
  { intros E. subst b. destruct HW as [_ [Ws _]]. rewrite Ws in Hn. destruct Hn. }
  rewrite (cg_ss b Hex) in Hp.
  destruct (greach_greachc b (HG b Hb)) as [Hbad | [t Hr]]; [left; exact Hbad|].
  destruct (cg_block b t Hb Hr) as [Hbad | [t' [Hs HR]]]; [left; exact Hbad|].
  destruct (lookup (nth_scope ss0 b) x) as [l0|] eqn:El; [|discriminate].
  destruct (used (nth_scope ss0 b) x) as [[|]|] eqn:Eu; try discriminate.
  destruct (succ_idx b n Hb Hn) as [Hn' Hne].
  pose proof (cg_live_path n x Hn' Hxn) as Hlp.
  destruct (has_leaf_find _ _ (cg_live_row n x Hlp Hn' Hne)) as [l' Hf'].
  destruct (HE b n _ Hb Hn (cg_run b Hb) x l' Hf') as [l1 [Hlk Hk]]. rewrite El in Hlk. inversion Hlk; subst l1.
  apply (dead_token_badG x n Hlp t'); auto.
  - eapply grc_step; eauto.
  - eapply used_true_emptyG; eauto.
  - exists l'. split; auto. rewrite <- Hk. apply negb_true_iff. exact Hp.
Qed.

(** (d) a linear token that nobody will read *)
Lemma cg_not_live : forall b x, b < N -> ~ In x (getv L b) ->
  ~ In x (s_up (nth_scope ss b)) /\
  (has_leaf x (s_vars (nth_scope ss b)) = true \/ forall n, In n (succs b) -> ~ In x (getv L n)).
Proof.
  intros b x Hb Hn. split.
  - intros H. apply Hn. apply (cg_live_eq b x Hb). auto.
  - destruct (has_leaf x (s_vars (nth_scope ss b))) eqn:Hv; auto. right. intros n Hin Hx. apply Hn.
    apply (cg_live_eq b x Hb). right. split.
    + intros Hd. apply in_map_iff in Hd. destruct Hd as [l [A B]].
      assert (has_leaf x (s_vars (nth_scope ss b)) = true) by (apply has_leaf_true; eauto). congruence.
    + exists n. auto.
Qed.

Lemma leak_badG : forall x n, reaches_exit c n ->
  forall t, greachc n t -> n < N -> t x = KLinear -> ~ In x (getv L n) -> gviolated.
Proof.
  intros x n Hre. induction Hre as [|n m Hm Hre IH]; intros t Hr Hb Tx Hnl.
  - right.
    destruct (greachc_extend _ _ Hr [] 0 (GFine t) I) as [rest [A [B C]]].
    + simpl. unfold gblock_start. destruct HW as [_ [_ [Wn _]]].
      assert (Nat.eqb (c_exit c) (c_entry c) = false) by (apply Nat.eqb_neq; auto). rewrite H. reflexivity.
    + exists rest, 0, t. repeat split; auto. intros [_ F].
      apply Hnl. apply (cg_live_eq _ x g_H4). left. apply cg_exit_up. apply F. exact Tx.
  - assert (Hex : n <> c_exit c).
    { intros E. subst n. destruct HW as [_ [Ws _]]. rewrite Ws in Hm. destruct Hm. }
    destruct (cg_not_live n x Hb Hnl) as [Hnu Hcase]. rewrite (cg_ss n Hex) in Hnu, Hcase.
    destruct (cg_block n t Hb Hr) as [Hbad | [t' [Hs HR]]]; [left; exact Hbad|].
    rewrite (cg_inv2 n Hb) in Hnu.
    destruct (greachc_Ag n t Hr) as [_ HA].
    destruct (gstart n t Hb) as [R0 [_ [P0 [_ [A0 _]]]]].
    assert (Hne : Nat.eqb n (c_entry c) = false).
    { destruct (Nat.eqb n (c_entry c)) eqn:Ee; auto. unfold Ag in HA. rewrite Ee in HA. rewrite HA in Tx. discriminate. }
    destruct (A0 Hne) as [V0 _].
    assert (Hin : In (nth_block c n) (c_blocks c)) by (apply nth_In; exact Hb).
    assert (Hv : has_leaf x (s_vars (nth_scope ss0 n)) = false).
    { apply (def_needs_emptyG fin x (evs n) [] t (block_init c n) (nth_scope ss0 n) (gblock_start c n t) t'
               (cg_run n Hb) (HT n Hb) (Ag_init n t Hb HA) R0 Hs (proj2 (HEV _ Hin))); auto.
      rewrite V0. reflexivity. }
    destruct Hcase as [Hc | Hc]; [congruence|].
    destruct (succ_idx n m Hb Hm) as [Hm' _].
    apply (IH t').
    + eapply grc_step; eauto.
    + exact Hm'.
    + pose proof (HR x) as HRx. rewrite has_leaf_find_iff in Hv.
      destruct (find_leaf x (s_vars (nth_scope ss0 n))); [discriminate|].
      apply memb_false in Hnu. rewrite HRx, Hnu. exact Tx.
    + apply Hc. exact Hm.
Qed.

Hypothesis HEX : forall b, b < N -> reaches_exit c b.

Theorem complete_unusedG : forall b xs, check_dataflow true c ss L 0 (c_blocks c) = RejUnused b xs -> gviolated.
Proof.
  intros b xs H. pose proof (check_dataflow_rej c sched ss g_H4 g_H5 true (c_blocks c) 0) as P. rewrite H in P.
  destruct P as [j [blk [A [B [C1 [C2 Hne]]]]]]. simpl in A. subst j.
  destruct (nth_error_block c _ _ B) as [Hb Eb]. subst blk.
  destruct xs as [|x xs]; [congruence|]. clear Hne.
  assert (Hx : In x (check2 true (nth_scope ss b) L b (succs b))) by (rewrite C2; simpl; auto).
  unfold check2 in Hx. apply in_map_iff in Hx. destruct Hx as [l [Hid Hl]]. apply filter_In in Hl.
  destruct Hl as [Hent Hp]. rewrite Hid in Hp.
  apply andb_true_iff in Hp. destruct Hp as [Hp Hp4]. apply andb_true_iff in Hp. destruct Hp as [Hp Hp3].
  apply andb_true_iff in Hp. destruct Hp as [Hp1 Hp2].
  apply negb_true_iff in Hp4.
  assert (Hsucc : exists n, In n (succs b) /\ ~ In x (getv L n)).
  { clear - Hp4. induction (succs b) as [|a r IH]; simpl in Hp4; [discriminate|].
    apply andb_false_iff in Hp4. destruct Hp4 as [H | H].
    - exists a. split; simpl; auto. apply memb_false. exact H.
    - destruct (IH H) as [n [A B]]. exists n. simpl. auto. }
  destruct Hsucc as [n [Hn Hnl]].
  assert (Hex : b <> c_exit c).
  { intros E. subst b. destruct HW as [_ [Ws _]]. rewrite Ws in Hn. destruct Hn. }
  rewrite (cg_ss b Hex) in Hent, Hp1, Hp3.
  destruct (greach_greachc b (HG b Hb)) as [Hbad | [t Hr]]; [left; exact Hbad|].
  destruct (cg_block b t Hb Hr) as [Hbad | [t' [Hs HR]]]; [left; exact Hbad|].
  set (sf := nth_scope ss0 b) in *.
  destruct (succ_idx b n Hb Hn) as [Hn' _].
  assert (Kl : l_kind l = KLinear) by (destruct (l_kind l); simpl in Hp2; congruence).
  assert (Uv : uniq (s_vars sf)).
  { eapply uniq_run; [apply cg_run; exact Hb|]. apply (gstart b t Hb). }
  unfold scope_entries in Hent. apply in_app_or in Hent.
  assert (Hfull : t' x = KLinear \/ gviolated).
  { pose proof (HR x) as HRx. destruct Hent as [Hin | Hin].
    - rewrite <- Hid in HRx. rewrite (uniq_find _ _ Uv Hin) in HRx. rewrite Hid in HRx.
      unfold used in Hp3. rewrite has_leaf_find_iff in Hp3. rewrite <- Hid in Hp3.
      rewrite (uniq_find _ _ Uv Hin) in Hp3. rewrite Hid in Hp3.
      destruct (memb x (s_ul sf)); [discriminate|]. left. rewrite HRx. exact Kl.
    - apply filter_In in Hin. destruct Hin as [Hin Hsh]. rewrite Hid in Hsh. apply negb_true_iff in Hsh.
      rewrite Hsh, orb_false_r in Hp1. apply memb_In in Hp1.
      rewrite has_leaf_find_iff in Hsh. destruct (find_leaf x (s_vars sf)) eqn:Hv; [discriminate|].
      unfold used in Hp3. rewrite has_leaf_find_iff, Hv in Hp3.
      destruct (s_entry sf) eqn:He; [discriminate|]. destruct (has_leaf x (s_pvars sf)); [|discriminate].
      destruct (memb x (s_pul sf)) eqn:Hm; [discriminate|]. rewrite HRx.
      assert (Hbe : b <> c_entry c).
      { intros E. destruct (run_events_ext fin _ _ _ (cg_run b Hb)) as [_ [_ [_ [Ee _]]]]. fold sf in Ee.
        unfold block_init in Ee. rewrite E, Nat.eqb_refl in Ee. unfold init_scope in Ee. simpl in Ee. congruence. }
      assert (Up : uniq (row_leaves c b)) by (apply uniq_init).
      unfold sf in Hin. rewrite (cg_pvars b Hb Hbe) in Hin.
      pose proof (uniq_find _ _ Up Hin) as Hf. rewrite Hid in Hf.
      destruct (greachc_Ag b t Hr) as [_ HA]. unfold Ag in HA.
      apply Nat.eqb_neq in Hbe. rewrite Hbe in HA. apply Nat.eqb_neq in Hbe.
      destruct (HA x l Hf) as [T | T].
      + right. apply (dead_token_badG x b (cg_live_path b x Hb Hp1) t Hr Hb Hbe T).
        exists l. split; auto. rewrite Kl. reflexivity.
      + left. rewrite T. exact Kl. }
  destruct Hfull as [Tx | Hv]; [|exact Hv].
  apply (leak_badG x n (HEX n Hn') t'); auto. eapply grc_step; eauto.
Qed.

End GlobalG.

Lemma lin_complete_rebind_lemma : forall c sched, wf_shape c -> typed c -> edges_ok c -> exit_row_ok c ->
  wf_idx c -> io_ok c -> events_wf c -> c_exit_reachable c = true -> all_reach c -> ~ gviolated c ->
  check_cfg true c sched = Accept.
Proof.
  intros c sched HW HT HE HX HI HIO HEV HER HR HV.
  pose proof (no_crash true c sched HW HT HE HX HI HER) as NC.
  unfold check_cfg in *.
  destruct (check_blocks (c_inputs c) (c_entry c) 0 (c_blocks c)) as [ss0 | [b e]] eqn:E1.
  - destruct (exit_used c ss0) as [ss|] eqn:E2; [|exfalso; apply NC; left; eauto].
    destruct (wf_cfg (stats_cfg c ss) && (c_exit c <? length (c_blocks c)) && (c_entry c <? length (c_blocks c))) eqn:E3;
      [|exfalso; apply NC; left; eauto].
    destruct (check_dataflow true c ss (live_of c ss sched) 0 (c_blocks c)) as [ | b e | b xs | b xs | b] eqn:E6.
    + reflexivity.
    + exfalso. eapply check_dataflow_no_block; eauto.
    + exfalso. apply HV. eapply complete_usedG with (ss0 := ss0) (ss := ss) (sched := sched); eauto.
      intros b0 Hb0. apply HR. exact Hb0.
    + exfalso. apply HV. eapply complete_unusedG with (ss0 := ss0) (ss := ss) (sched := sched); eauto.
      * intros b0 Hb0. apply HR. exact Hb0.
      * intros b0 Hb0. apply HR. exact Hb0.
    + exfalso. apply NC. left. eauto.
  - exfalso. apply HV. left.
    destruct (check_blocks_err c _ _ _ _ E1) as [j [blk [A [B C]]]]. simpl in A. subst j.
    assert (Hb : b < length (c_blocks c)) by (apply nth_error_Some; congruence).
    eapply complete_blocksG; eauto. apply HR. exact Hb.
Qed.
