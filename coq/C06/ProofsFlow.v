(** V.C06.ProofsFlow — what the checker's verdict [Accept] gives: the per-block scopes, the
    liveness fixpoint equation (from the C09 characterisation), the three per-block checks. *)
From Coq Require Import List Bool Arith Lia.
From V.C09 Require Import Analysis SetLemmas Spec ProofsLive ProofsTop.
From V.C06 Require Import Linearity Token ProofsBlock.
Import ListNotations.

(** * the liveness equation at a terminal state, for ordinary and for initial-set variables *)
Lemma live_eq : forall g I sched b x, wf_cfg g = true -> b < nblocks g ->
  (In x (getv (liveness Repaired false g I sched) b) <->
   In x (b_use (blk g b)) \/
   (~ In x (b_def (blk g b)) /\
    exists c, In c (b_succ (blk g b)) /\ In x (getv (liveness Repaired false g I sched) c))).
Proof.
  intros g I sched b x W Hb. set (L := liveness Repaired false g I sched).
  assert (Hsucc : forall c, In c (b_succ (blk g b)) -> c < nblocks g).
  { intros c Hc. apply (wf_succ_lt false g b c W Hb). unfold flow_succ. rewrite app_nil_r. exact Hc. }
  assert (Hflow : flow_succ false g b = b_succ (blk g b)) by (unfold flow_succ; apply app_nil_r).
  destruct (in_dec Nat.eq_dec x I) as [Hi | Hi].
  - (* greatest fixpoint *)
    assert (Hd : forall c, c < nblocks g -> (~ In x (getv L c) <-> dead_on_all_paths false g x c)).
    { intros c Hc. destruct (liveness_correct_lemma false g I W sched c x Hc) as [_ B]. apply B. exact Hi. }
    split.
    + intros Hl. destruct (in_dec Nat.eq_dec x (b_use (blk g b))) as [Hu | Hu]; [left; exact Hu|]. right.
      destruct (in_dec Nat.eq_dec x (b_def (blk g b))) as [Hdf | Hdf].
      * exfalso. apply (proj2 (Hd b Hb)); [|exact Hl]. constructor; auto.
      * split; [exact Hdf|].
        destruct (existsb (fun c => memb x (getv L c)) (b_succ (blk g b))) eqn:Ex.
        -- apply existsb_exists in Ex. destruct Ex as [c [Hc Hm]]. exists c. split; auto. apply memb_In. exact Hm.
        -- exfalso. apply (proj2 (Hd b Hb)); [|exact Hl]. constructor; auto. right. intros c Hc.
           rewrite Hflow in Hc. apply (Hd c (Hsucc c Hc)). intros Hin.
           assert (existsb (fun c => memb x (getv L c)) (b_succ (blk g b)) = true).
           { apply existsb_exists. exists c. split; auto. apply memb_In. exact Hin. }
           congruence.
    + intros H. destruct (in_dec Nat.eq_dec x (getv L b)) as [Hl | Hl]; [exact Hl|]. exfalso.
      apply (Hd b Hb) in Hl. inversion Hl as [b' _ Hnu Hrest]; subst.
      destruct H as [Hu | [Hdf [c [Hc Hin]]]]; [contradiction|].
      destruct Hrest as [Hdf' | Hall]; [contradiction|].
      rewrite Hflow in Hall. specialize (Hall c Hc). apply (Hd c (Hsucc c Hc)) in Hall. contradiction.
  - (* least fixpoint *)
    assert (Hp : forall c, c < nblocks g -> (In x (getv L c) <-> live_on_path false g x c)).
    { intros c Hc. destruct (liveness_correct_lemma false g I W sched c x Hc) as [A _]. apply A. exact Hi. }
    rewrite (Hp b Hb). split.
    + intros H. inversion H as [b' _ Hu | b' c _ Hdf Hc Hl]; subst; [left; exact Hu|]. right.
      rewrite Hflow in Hc. split; [exact Hdf|]. exists c. split; auto. apply (Hp c (Hsucc c Hc)). exact Hl.
    + intros [Hu | [Hdf [c [Hc Hin]]]].
      * apply lp_use; auto.
      * apply lp_step with (c := c); auto. rewrite Hflow. exact Hc. apply (Hp c (Hsucc c Hc)). exact Hin.
Qed.

(** * simple invariants of scopes *)
Definition inv2 (s : scope) : Prop := s_up s = s_pul s /\ (s_entry s = true -> s_pul s = []).

Lemma use_leaf_inv2 : forall s x s', use_leaf s x = Some s' -> inv2 s -> inv2 s'.
Proof.
  intros s x s' H [A B]. unfold use_leaf in H.
  destruct (has_leaf x (s_vars s)); [inversion H; subst; split; auto|].
  destruct (s_entry s) eqn:He; [discriminate|]. destruct (has_leaf x (s_pvars s)); [|discriminate].
  inversion H; subst; split; simpl; [congruence | discriminate].
Qed.

Lemma assign_leaf_inv2 : forall s l, inv2 s -> inv2 (assign_leaf s l).
Proof. intros s l [A B]. split; simpl; auto. Qed.

Lemma assign_leaves_inv2 : forall ls s, inv2 s -> inv2 (assign_leaves s ls).
Proof.
  unfold assign_leaves. induction ls as [|l r IH]; intros s H; simpl; [exact H|].
  apply IH. apply assign_leaf_inv2. exact H.
Qed.

Lemma step_event_inv2 : forall fin e s s', step_event fin s e = Ok s' -> inv2 s -> inv2 s'.
Proof.
  intros fin e s s' H I. destruct e as [p k | p | p | p | e]; simpl in H.
  - destruct (p_inout p && negb (is_borrow k)); [discriminate|].
    revert s s' H I. generalize (leaves (p_tree p)). induction l as [|a r IH]; intros s s' H I; simpl in H.
    + inversion H; subst; auto.
    + destruct (used s (l_id a)); [|discriminate].
      destruct (b && negb (is_copy (l_kind a))); [discriminate|].
      destruct (use_leaf s (l_id a)) eqn:E; [|discriminate].
      eapply IH; [exact H | eapply use_leaf_inv2; eauto].
  - match type of H with (if ?b then _ else _) = _ => destruct b end; [discriminate|].
    revert s s' H I. generalize (leaves (p_tree p)). induction l as [|a r IH]; intros s s' H I; simpl in H.
    + inversion H; subst; auto.
    + match type of H with (if ?b then _ else _) = _ => destruct b end; [discriminate|].
      eapply IH; [exact H | apply assign_leaf_inv2; exact I].
  - destruct (input_is_borrowed fin (p_id p)); [discriminate|]. inversion H; subst; auto.
  - inversion H; subst. apply assign_leaves_inv2. exact I.
  - discriminate.
Qed.

Lemma run_events_inv2 : forall fin es s s', run_events fin s es = Ok s' -> inv2 s -> inv2 s'.
Proof.
  induction es as [|e r IH]; intros s s' H I; simpl in H.
  - inversion H; subst; auto.
  - destruct (step_event fin s e) eqn:E; [|discriminate]. eapply IH; [exact H | eapply step_event_inv2; eauto].
Qed.

(** * the initial scope of a block *)
Definition e0 : scope := mkScope true [] [] [] [] [].

Lemma assign_leaves_fields : forall ls s,
  s_entry (assign_leaves s ls) = s_entry s /\ s_up (assign_leaves s ls) = s_up s /\
  s_pvars (assign_leaves s ls) = s_pvars s /\ s_pul (assign_leaves s ls) = s_pul s /\
  (s_ul s = [] -> s_ul (assign_leaves s ls) = []).
Proof.
  unfold assign_leaves. induction ls as [|l r IH]; intros s; simpl; [tauto|].
  destruct (IH (assign_leaf s l)) as [A [B [C [D E]]]]. simpl in *.
  repeat split; auto. intros H. apply E. rewrite H. reflexivity.
Qed.

Lemma init_scope_entry : forall row, init_scope true row = assign_leaves e0 (flat_map leaves row).
Proof.
  intros row. unfold init_scope. change (mkScope true [] [] [] [] []) with e0.
  destruct (assign_leaves_fields (flat_map leaves row) e0) as [A [B [C [D E]]]].
  destruct (assign_leaves e0 (flat_map leaves row)) as [en va ul up pv pu]; simpl in *.
  rewrite A, B, C, D, (E eq_refl). reflexivity.
Qed.

Lemma use_all_fields : forall ls s s', s_vars s = [] -> use_all s ls = Some s' ->
  s_vars s' = [] /\ (forall x, In x (s_up s') <-> In x (map l_id ls) \/ In x (s_up s)).
Proof.
  induction ls as [|l r IH]; intros s s' Hv H; simpl in H.
  - inversion H; subst. split; auto. intros x. simpl. tauto.
  - destruct (use_leaf s (l_id l)) as [s1|] eqn:E; [|discriminate].
    unfold use_leaf in E. rewrite Hv in E. simpl in E.
    destruct (s_entry s); [discriminate|]. destruct (has_leaf (l_id l) (s_pvars s)); [|discriminate].
    inversion E; subst s1. clear E.
    apply IH in H; [|reflexivity]. destruct H as [A B]. split; auto. intros x. rewrite B. simpl. tauto.
Qed.

(** * reading the verdict *)
Lemma check_blocks_spec : forall fin entry bs k ss, check_blocks fin entry k bs = inl ss ->
  length ss = length bs /\
  forall j b, nth_error bs j = Some b ->
    check_block fin (Nat.eqb (k + j) entry) b = Ok (nth j ss dummy_scope).
Proof.
  induction bs as [|b r IH]; intros k ss H; simpl in H.
  - inversion H; subst. split; auto. intros [|j] b Hj; discriminate.
  - destruct (check_block fin (Nat.eqb k entry) b) as [s|] eqn:E; [|discriminate].
    destruct (check_blocks fin entry (S k) r) as [ss'|] eqn:E2; [|discriminate].
    inversion H; subst. destruct (IH _ _ E2) as [A B]. split; [simpl; congruence|].
    intros [|j] b' Hj; simpl in *.
    + inversion Hj; subst. rewrite Nat.add_0_r. exact E.
    + replace (k + S j) with (S k + j) by lia. apply B. exact Hj.
Qed.

Lemma check_dataflow_spec : forall fx c ss L bs k, check_dataflow fx c ss L k bs = Accept ->
  forall j b, nth_error bs j = Some b ->
    check1 (nth_scope ss (k + j)) L (lb_succ b) = Some [] /\
    check2 fx (nth_scope ss (k + j)) L (k + j) (lb_succ b) = [] /\
    row_ok c (nth_scope ss (k + j)) L (k + j) = true.
Proof.
  induction bs as [|b r IH]; intros k H j b' Hj; [destruct j; discriminate|].
  simpl in H.
  destruct (check1 (nth_scope ss k) L (lb_succ b)) as [[|x xs]|] eqn:E1; try discriminate.
  destruct (check2 fx (nth_scope ss k) L k (lb_succ b)) eqn:E2; try discriminate.
  destruct (row_ok c (nth_scope ss k) L k) eqn:E3; try discriminate.
  destruct j as [|j]; simpl in Hj.
  - inversion Hj; subst. rewrite Nat.add_0_r. auto.
  - replace (k + S j) with (S k + j) by lia. apply IH; auto.
Qed.

Lemma forallb_false_intro : forall (A : Type) (f : A -> bool) l a, In a l -> f a = false -> forallb f l = false.
Proof.
  intros A f l a Hin Hf. destruct (forallb f l) eqn:E; auto.
  rewrite forallb_forall in E. rewrite (E a Hin) in Hf. discriminate.
Qed.

Lemma filter_nil_false : forall (A : Type) (f : A -> bool) l a, filter f l = [] -> In a l -> f a = false.
Proof.
  intros A f l a H Hin. destruct (f a) eqn:E; auto.
  assert (In a (filter f l)) by (apply filter_In; auto). rewrite H in H0. destruct H0.
Qed.

Lemma stats_blk : forall c ss b, length ss = length (c_blocks c) -> b < length (c_blocks c) ->
  blk (stats_cfg c ss) b =
  mkBlock (lb_succ (nth_block c b)) [] (s_up (nth_scope ss b)) (map l_id (s_vars (nth_scope ss b))).
Proof.
  intros c ss b Hl Hb. unfold blk, stats_cfg, nth_block, nth_scope.
  set (f := fun bs : lblock * scope => mkBlock (lb_succ (fst bs)) [] (s_up (snd bs)) (map l_id (s_vars (snd bs)))).
  rewrite (nth_indep _ empty_block (f (mkLB [] [] [], dummy_scope))).
  - rewrite map_nth. rewrite combine_nth by auto. reflexivity.
  - rewrite map_length, combine_length. lia.
Qed.

Lemma stats_nblocks : forall c ss, length ss = length (c_blocks c) -> nblocks (stats_cfg c ss) = length (c_blocks c).
Proof. intros. unfold nblocks, stats_cfg. rewrite map_length, combine_length. lia. Qed.
