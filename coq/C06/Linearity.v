(** V.C06.Linearity — executable model of guppylang_internals/checker/linearity_checker.py
    restricted to the core fragment (assignments, owned/borrowed calls, if/while,
    break/continue/return, tuples and struct fields as leaf places).  Definitions only.

    WHAT IS MODELLED
    ----------------
    * [leaves]                = leaf_places (stack discipline: last field first)
    * [scope], [used], [use_leaf], [assign_leaf]  = Scope.used / .use / .assign / .stats
      (a block scope with at most one parent = the manufactured input scope; the entry block
      has no parent)
    * mini-AST [expr]/[stmt] and [ev_expr]/[ev_stmt]  = the traversal of BBLinearityChecker
      (visit_Assign, visit_Return, visit_Expr, _visit_call_args, _reassign_inout_args,
       generic_visit) producing the sequence of scope operations ("events")
    * [step_event]            = visit_PlaceNode (NotOwnedError, AlreadyUsedError),
                                _check_assign_targets (BorrowShadowedError, PlaceNotUsedError),
                                the func_inputs test of visit_Assign, _reassign_single_inout_arg,
                                UnnamedExprNotUsedError, DropAfterCallError
    * [check_cfg]             = check_cfg_linearity: per-block scopes, implicit RETURN use of the
                                borrowed arguments in the exit block, place-level
                                LivenessAnalysis (the C09 model, include_unreachable=False,
                                initial = borrowed leaves iff the exit is unreachable), then per
                                block: used-but-live (AlreadyUsedError / BorrowSubPlaceUsedError),
                                unused-not-live (PlaceNotUsedError), and the construction of the
                                place rows (a KeyError there is a crash).
    Leaf place ids are natural numbers assigned by the harness (one per PlaceId).  A leaf
    carries its kind (copyable / affine = not copyable but droppable / linear = neither) and
    whether it is itself a borrowed variable (is_inout_var).

    [fx : bool]: [true] = the code with props/C06/fix-1.patch (a parent place shadowed by a
    local assignment is not re-examined by the unused-place check); [false] = 0.21.6 as
    released. *)
From Coq Require Import List Bool Arith.
From V.C09 Require Import Analysis.
Import ListNotations.

Inductive kind := KCopy | KAffine | KLinear.
Definition is_copy (k : kind) : bool := match k with KCopy => true | _ => false end.
Definition is_linear (k : kind) : bool := match k with KLinear => true | _ => false end.

Record leaf := mkLeaf { l_id : nat; l_kind : kind; l_inout : bool }.
Inductive ptree := PLeaf (l : leaf) | PNode (cs : list ptree).

(* leaf_places: stack = [place]; pop; push fields / elements in order; yield non-aggregates *)
Fixpoint leaves (t : ptree) : list leaf :=
  match t with
  | PLeaf l => [l]
  | PNode cs => (fix go (cs : list ptree) : list leaf :=
                   match cs with [] => [] | c :: r => go r ++ leaves c end) cs
  end.

(* a (non-subscript) place as it occurs in a PlaceNode *)
Record place := mkPlace {
  p_id : nat;        (* id of the place itself (only compared with variable ids) *)
  p_tree : ptree;    (* its type, down to the leaves *)
  p_inout : bool     (* is_inout_var(place): a Variable carrying the Inout flag *)
}.

Inductive usekind := UCopy | UBorrow | UConsume | UReturn | UMove.
Definition is_borrow (k : usekind) : bool := match k with UBorrow => true | _ => false end.

Inductive err :=
| ErrAlreadyUsed (x : nat)      (* AlreadyUsedError / BorrowSubPlaceUsedError *)
| ErrNotUsed (x : nat)          (* PlaceNotUsedError *)
| ErrNotOwned (x : nat)         (* NotOwnedError *)
| ErrBorrowShadowed (x : nat)   (* BorrowShadowedError *)
| ErrUnnamedExpr                (* UnnamedExprNotUsedError *)
| ErrDropAfterCall              (* DropAfterCallError *)
| ErrUnnamedAccess              (* UnnamedFieldNotUsedError / UnnamedTupleNotUsedError *)
| ErrCrash.                     (* AssertionError / KeyError: not a user error *)

Inductive res (A : Type) := Ok (a : A) | Err (e : err).
Arguments Ok {A}. Arguments Err {A}.

(** * Scope *)
Record scope := mkScope {
  s_entry : bool;        (* the entry block: function inputs live in the block scope itself *)
  s_vars : list leaf;    (* Scope.vars *)
  s_ul : list nat;       (* used_local keys *)
  s_up : list nat;       (* used_parent keys *)
  s_pvars : list leaf;   (* parent_scope.vars (the manufactured input scope) *)
  s_pul : list nat       (* parent_scope.used_local keys *)
}.

Definition find_leaf (x : nat) (ls : list leaf) : option leaf :=
  find (fun l => Nat.eqb (l_id l) x) ls.
Definition has_leaf (x : nat) (ls : list leaf) : bool :=
  match find_leaf x ls with Some _ => true | None => false end.
Definition remove_leaf (x : nat) (ls : list leaf) : list leaf :=
  filter (fun l => negb (Nat.eqb (l_id l) x)) ls.
Definition remove_id (x : nat) (l : list nat) : list nat :=
  filter (fun y => negb (Nat.eqb y x)) l.

(* Scope.used: None = AssertionError (place in no scope) *)
Definition used (s : scope) (x : nat) : option bool :=
  if has_leaf x (s_vars s) then Some (memb x (s_ul s))
  else if s_entry s then None
  else if has_leaf x (s_pvars s) then Some (memb x (s_pul s)) else None.

(* Scope.use *)
Definition use_leaf (s : scope) (x : nat) : option scope :=
  if has_leaf x (s_vars s)
  then Some (mkScope (s_entry s) (s_vars s) (x :: s_ul s) (s_up s) (s_pvars s) (s_pul s))
  else if s_entry s then None
  else if has_leaf x (s_pvars s)
  then Some (mkScope (s_entry s) (s_vars s) (s_ul s) (x :: s_up s) (s_pvars s) (x :: s_pul s))
  else None.

(* Scope.assign *)
Definition assign_leaf (s : scope) (l : leaf) : scope :=
  mkScope (s_entry s) (l :: remove_leaf (l_id l) (s_vars s)) (remove_id (l_id l) (s_ul s))
          (s_up s) (s_pvars s) (s_pul s).

(* Locals.__getitem__ *)
Definition lookup (s : scope) (x : nat) : option leaf :=
  match find_leaf x (s_vars s) with
  | Some l => Some l
  | None => if s_entry s then None else find_leaf x (s_pvars s)
  end.

(** * Events: the scope operations a block performs, in order *)
Inductive event :=
| EUse (p : place) (k : usekind)   (* visit_PlaceNode(node, use_kind) *)
| EAssign (p : place)              (* _check_assign_targets, one target PlaceNode *)
| EShadow (p : place)              (* visit_Assign: target id in func_inputs and borrowed? *)
| EReassign (p : place)            (* _reassign_single_inout_arg *)
| EFail (e : err).                 (* UnnamedExprNotUsedError / DropAfterCallError *)

Fixpoint use_leaves (s : scope) (ls : list leaf) : res scope :=
  match ls with
  | [] => Ok s
  | l :: r =>
      match used s (l_id l) with
      | None => Err ErrCrash
      | Some u =>
          if u && negb (is_copy (l_kind l)) then Err (ErrAlreadyUsed (l_id l))
          else match use_leaf s (l_id l) with
               | None => Err ErrCrash
               | Some s' => use_leaves s' r
               end
      end
  end.

Fixpoint assign_leaves_checked (s : scope) (ls : list leaf) : res scope :=
  match ls with
  | [] => Ok s
  | l :: r =>
      let x := l_id l in
      let bad := match find_leaf x (s_vars s) with
                 | Some old => negb (memb x (s_ul s)) && is_linear (l_kind old)
                 | None => false
                 end in
      if bad then Err (ErrNotUsed x) else assign_leaves_checked (assign_leaf s l) r
  end.

Definition assign_leaves (s : scope) (ls : list leaf) : scope := fold_left assign_leaf ls s.

(* function inputs: variable id, Inout flag, type *)
Definition finputs := list (nat * bool * ptree).
Definition input_is_borrowed (fin : finputs) (x : nat) : bool :=
  match find (fun i => Nat.eqb (fst (fst i)) x) fin with
  | Some i => snd (fst i)
  | None => false
  end.

Definition step_event (fin : finputs) (s : scope) (e : event) : res scope :=
  match e with
  | EUse p k =>
      if p_inout p && negb (is_borrow k) then Err (ErrNotOwned (p_id p))
      else use_leaves s (leaves (p_tree p))
  | EAssign p =>
      let shadow := match find_leaf (p_id p) (s_vars s) with
                    | Some l0 => l_inout l0
                    | None => false
                    end in
      if shadow then Err (ErrBorrowShadowed (p_id p))
      else assign_leaves_checked s (leaves (p_tree p))
  | EShadow p =>
      if input_is_borrowed fin (p_id p) then Err (ErrBorrowShadowed (p_id p)) else Ok s
  | EReassign p => Ok (assign_leaves s (leaves (p_tree p)))
  | EFail e => Err e
  end.

Fixpoint run_events (fin : finputs) (s : scope) (es : list event) : res scope :=
  match es with
  | [] => Ok s
  | e :: r => match step_event fin s e with
              | Ok s' => run_events fin s' r
              | Err x => Err x
              end
  end.

(** * The checked AST of a block, and the order in which BBLinearityChecker walks it *)
Inductive expr :=
| XPlace (p : place)                                   (* PlaceNode *)
| XCall (flags : list (bool * bool)) (args : list expr) (* call; per input (Inout?, ty droppable?) *)
| XNode (cs : list expr)                               (* anything else: generic_visit *)
| XDrop (e : expr) (ok : bool).                        (* FieldAccessAndDrop / TupleAccessAndDrop: a projection of
                                                          a value that is not a place; ok = every other
                                                          field / element is droppable *)

Inductive stmt :=
| SAssign (tgts : list place) (v : expr)   (* ast.Assign: PlaceNodes of the target, value *)
| SExpr (e : expr) (droppable : bool)      (* ast.Expr; droppable = type of the value *)
| SReturn (es : list expr)                 (* ast.Return: value / tuple elements / nothing *)
| SPred (e : expr).                        (* the branch predicate, visited last *)

Definition arg_back (fl : bool * bool) (a : expr) : list event :=
  if fst fl then
    match a with
    | XPlace p => [EReassign p]
    | _ => if snd fl then [] else [EFail ErrDropAfterCall]
    end
  else [].
Fixpoint args_back (fs : list (bool * bool)) (az : list expr) : list event :=
  match fs, az with
  | f :: fr, a :: ar => arg_back f a ++ args_back fr ar
  | _, _ => []
  end.

Fixpoint ev_expr (e : expr) : list event :=
  match e with
  | XPlace p => [EUse p UMove]
  | XNode cs => (fix go (cs : list expr) : list event :=
                   match cs with [] => [] | c :: r => ev_expr c ++ go r end) cs
  | XCall flags args =>
      (fix go (az : list expr) (fs : list (bool * bool)) {struct az} : list event :=
         match az, fs with
         | a :: ar, f :: fr =>
             match a with
             | XPlace p => [EUse p (if fst f then UBorrow else UConsume)]
             | _ => ev_expr a
             end ++ go ar fr
         | _, _ => []
         end) args flags
      ++ args_back flags args
  | XDrop e0 ok => ev_expr e0 ++ (if ok then [] else [EFail ErrUnnamedAccess])
  end.

Definition ev_stmt (st : stmt) : list event :=
  match st with
  | SAssign tgts v => ev_expr v ++ map EAssign tgts ++ map EShadow tgts
  | SExpr e d => ev_expr e ++ (if d then [] else [EFail ErrUnnamedExpr])
  | SReturn es => flat_map (fun e => match e with XPlace p => [EUse p UReturn] | _ => ev_expr e end) es
  | SPred e => ev_expr e
  end.

(** * Whole CFG *)
Record lblock := mkLB {
  lb_in : list ptree;      (* bb.sig.input_row, one tree per variable *)
  lb_events : list event;  (* statements + branch predicate, flattened *)
  lb_succ : list nat       (* bb.successors (positions in cfg.bbs) *)
}.
Record lcfg := mkLC {
  c_blocks : list lblock;
  c_entry : nat;
  c_exit : nat;
  c_exit_reachable : bool;
  c_inputs : finputs
}.

Definition init_scope (is_entry : bool) (row : list ptree) : scope :=
  let vars := s_vars (assign_leaves (mkScope true [] [] [] [] []) (flat_map leaves row)) in
  if is_entry then mkScope true vars [] [] [] [] else mkScope false [] [] [] vars [].

Definition check_block (fin : finputs) (is_entry : bool) (b : lblock) : res scope :=
  run_events fin (init_scope is_entry (lb_in b)) (lb_events b).

(* all blocks in order; first error wins: result = scopes or (block index, error) *)
Fixpoint check_blocks (fin : finputs) (entry : nat) (i : nat) (bs : list lblock)
  : list scope + (nat * err) :=
  match bs with
  | [] => inl []
  | b :: r =>
      match check_block fin (Nat.eqb i entry) b with
      | Err e => inr (i, e)
      | Ok s => match check_blocks fin entry (S i) r with
                | inl ss => inl (s :: ss)
                | inr x => inr x
                end
      end
  end.

Definition borrowed_leaves (fin : finputs) : list leaf :=
  flat_map (fun i : nat * bool * ptree => if snd (fst i) then leaves (snd i) else []) fin.

(* exit_scope.use(leaf.id, InoutReturnSentinel, RETURN) for every borrowed leaf *)
Fixpoint use_all (s : scope) (ls : list leaf) : option scope :=
  match ls with
  | [] => Some s
  | l :: r => match use_leaf s (l_id l) with Some s' => use_all s' r | None => None end
  end.

Definition dummy_scope := mkScope false [] [] [] [] [].
Definition nth_scope (ss : list scope) (b : nat) : scope := nth b ss dummy_scope.

(* Scope.stats: assigned = vars, used = used_parent *)
Definition stats_cfg (c : lcfg) (ss : list scope) : cfg :=
  map (fun bs => mkBlock (lb_succ (fst bs)) [] (s_up (snd bs)) (map l_id (s_vars (snd bs))))
      (combine (c_blocks c) ss).

Definition live_default (c : lcfg) : list nat :=
  if c_exit_reachable c then [] else map l_id (borrowed_leaves (c_inputs c)).

(* first loop of check_cfg_linearity over a block: places that are live in a successor and
   used here.  None = a live place is in no scope of this block (AssertionError/KeyError) *)
Definition check1 (s : scope) (L : vals) (succs : list nat) : option (list nat) :=
  let live := flat_map (getv L) succs in
  if forallb (fun x => match lookup s x with Some _ => true | None => false end) live
  then Some (filter (fun x => match lookup s x, used s x with
                              | Some l, Some true => negb (is_copy (l_kind l))
                              | _, _ => false
                              end) live)
  else None.

(* second loop: places in scope that are not droppable, unused, and not live in every
   successor *)
Definition scope_entries (fx : bool) (s : scope) : list leaf :=
  s_vars s ++ (if fx then filter (fun l => negb (has_leaf (l_id l) (s_vars s))) (s_pvars s)
               else s_pvars s).
Definition check2 (fx : bool) (s : scope) (L : vals) (b : nat) (succs : list nat) : list nat :=
  map l_id
    (filter (fun l =>
       let x := l_id l in
       (memb x (getv L b) || has_leaf x (s_vars s)) &&
       is_linear (l_kind l) &&
       match used s x with Some u => negb u | None => false end &&
       negb (forallb (fun c => memb x (getv L c)) succs))
     (scope_entries fx s)).

(* live_places_row for the input row: [parent_scope[x] for x in live_before[bb]] *)
Definition row_ok (c : lcfg) (s : scope) (L : vals) (b : nat) : bool :=
  if Nat.eqb b (c_entry c) || Nat.eqb b (c_exit c) then true
  else forallb (fun x => has_leaf x (s_pvars s)) (getv L b).

Inductive verdict :=
| Accept
| RejBlock (b : nat) (e : err)              (* raised while walking block b *)
| RejUsed (b : nat) (xs : list nat)         (* AlreadyUsedError at block b: candidates *)
| RejUnused (b : nat) (xs : list nat)       (* PlaceNotUsedError at block b: candidates *)
| Crash (b : nat).

Fixpoint check_dataflow (fx : bool) (c : lcfg) (ss : list scope) (L : vals) (i : nat) (bs : list lblock)
  : verdict :=
  match bs with
  | [] => Accept
  | b :: r =>
      let s := nth_scope ss i in
      match check1 s L (lb_succ b) with
      | None => Crash i
      | Some [] =>
          match check2 fx s L i (lb_succ b) with
          | [] => if row_ok c s L i then check_dataflow fx c ss L (S i) r else Crash i
          | xs => RejUnused i xs
          end
      | Some xs => RejUsed i xs
      end
  end.

Definition exit_used (c : lcfg) (ss : list scope) : option (list scope) :=
  match use_all (nth_scope ss (c_exit c)) (borrowed_leaves (c_inputs c)) with
  | Some s' => Some (setv ss (c_exit c) s')
  | None => None
  end.

Definition live_of (c : lcfg) (ss : list scope) (sched : list nat) : vals :=
  liveness Repaired false (stats_cfg c ss) (live_default c) sched.

Definition check_cfg (fx : bool) (c : lcfg) (sched : list nat) : verdict :=
  match check_blocks (c_inputs c) (c_entry c) 0 (c_blocks c) with
  | inr (b, e) => RejBlock b e
  | inl ss0 =>
      match exit_used c ss0 with
      | None => Crash (c_exit c)
      | Some ss =>
          if wf_cfg (stats_cfg c ss) && (c_exit c <? length (c_blocks c)) && (c_entry c <? length (c_blocks c))
          then check_dataflow fx c ss (live_of c ss sched) 0 (c_blocks c)
          else Crash 0
      end
  end.

(* the same from the checked AST of each block *)
Record ablock := mkAB { ab_in : list ptree; ab_stmts : list stmt; ab_succ : list nat }.
Definition flatten_block (b : ablock) : lblock :=
  mkLB (ab_in b) (flat_map ev_stmt (ab_stmts b)) (ab_succ b).
Definition check_ast (fx : bool) (bs : list ablock) (entry exit_ : nat) (reach : bool) (fin : finputs)
  (sched : list nat) : verdict :=
  check_cfg fx (mkLC (map flatten_block bs) entry exit_ reach fin) sched.

(** flat encoding of a verdict for the correspondence harness *)
Definition enc_err (e : err) : list nat :=
  match e with
  | ErrAlreadyUsed x => [1; x] | ErrNotUsed x => [2; x] | ErrNotOwned x => [3; x]
  | ErrBorrowShadowed x => [4; x] | ErrUnnamedExpr => [5] | ErrDropAfterCall => [6]
  | ErrCrash => [7]
  | ErrUnnamedAccess => [8]
  end.
Definition enc_verdict (v : verdict) : list nat :=
  match v with
  | Accept => [0]
  | RejBlock b e => 1 :: b :: enc_err e
  | RejUsed b xs => 2 :: b :: xs
  | RejUnused b xs => 3 :: b :: xs
  | Crash b => [4; b]
  end.
