(** V.C06.ProofsBlock — one block: the checker's scope simulates the token semantics. *)
From Coq Require Import List Bool Arith Lia.
From V.C09 Require Import Analysis SetLemmas.
From V.C06 Require Import Linearity Token.
Import ListNotations.

Lemma memb_cons : forall y x l, memb y (x :: l) = Nat.eqb y x || memb y l.
Proof. reflexivity. Qed.

Lemma find_leaf_some : forall x ls l, find_leaf x ls = Some l -> In l ls /\ l_id l = x.
Proof.
  intros x ls l H. unfold find_leaf in H. apply find_some in H. destruct H as [H1 H2].
  apply Nat.eqb_eq in H2. auto.
Qed.

Lemma has_leaf_cons : forall x l ls, has_leaf x (l :: ls) = Nat.eqb (l_id l) x || has_leaf x ls.
Proof.
  intros. unfold has_leaf, find_leaf. simpl. destruct (Nat.eqb (l_id l) x); reflexivity.
Qed.

Lemma has_leaf_true : forall x ls, has_leaf x ls = true <-> exists l, In l ls /\ l_id l = x.
Proof.
  intros x ls. induction ls as [|a r IH].
  - split; [discriminate | intros [l [[] _]]].
  - rewrite has_leaf_cons. rewrite orb_true_iff, IH, Nat.eqb_eq. split.
    + intros [H | [l [H1 H2]]]; [exists a | exists l]; simpl; auto.
    + intros [l [[H1 | H1] H2]]; subst; auto. right. exists l. auto.
Qed.

Lemma has_leaf_find : forall x ls, has_leaf x ls = true -> exists l, find_leaf x ls = Some l.
Proof. intros x ls H. unfold has_leaf in H. destruct (find_leaf x ls); [eauto | discriminate]. Qed.

Lemma has_leaf_remove : forall y x ls, y <> x -> has_leaf y (remove_leaf x ls) = has_leaf y ls.
Proof.
  intros y x ls N. induction ls as [|a r IH]; auto. simpl.
  destruct (Nat.eqb (l_id a) x) eqn:E; simpl.
  - rewrite has_leaf_cons, IH. apply Nat.eqb_eq in E.
    destruct (Nat.eqb (l_id a) y) eqn:E2; auto. apply Nat.eqb_eq in E2. congruence.
  - rewrite !has_leaf_cons, IH. reflexivity.
Qed.

Lemma memb_remove_id : forall y x l, memb y (remove_id x l) = memb y l && negb (Nat.eqb y x).
Proof. intros. unfold remove_id. rewrite memb_filter. reflexivity. Qed.

Section Block.
Variable K : nat -> kind.
Variable fin : finputs.

Definition leavesK (ls : list leaf) : Prop := forall l, In l ls -> l_kind l = K (l_id l).
Definition scopeK (s : scope) : Prop := leavesK (s_vars s) /\ leavesK (s_pvars s).

(* t0: tokens when the block was entered; s: current scope; t: current tokens *)
Definition R (t0 : tstate) (s : scope) (t : tstate) : Prop :=
  forall x, K x <> KCopy ->
    (has_leaf x (s_vars s) = true -> t x = negb (memb x (s_ul s))) /\
    (has_leaf x (s_vars s) = false -> t x = t0 x && negb (memb x (s_pul s))).

Definition ext (s s' : scope) : Prop :=
  (forall x, has_leaf x (s_vars s) = true -> has_leaf x (s_vars s') = true) /\
  (forall x, In x (s_pul s') -> In x (s_pul s) \/ has_leaf x (s_vars s) = false) /\
  incl (s_pul s) (s_pul s') /\
  s_entry s' = s_entry s /\ s_pvars s' = s_pvars s.

Lemma ext_refl : forall s, ext s s.
Proof. intros s. repeat split; auto. apply incl_refl. Qed.

Lemma ext_trans : forall a b c, ext a b -> ext b c -> ext a c.
Proof.
  intros a b c [A1 [A2 [A3 [A4 A5]]]] [B1 [B2 [B3 [B4 B5]]]]. repeat split.
  - intros x H. auto.
  - intros x H. destruct (B2 x H) as [H1 | H1]; auto.
    destruct (has_leaf x (s_vars a)) eqn:E; auto. rewrite (A1 x E) in H1. discriminate.
  - eapply incl_tran; eauto.
  - congruence.
  - congruence.
Qed.

Lemma use_leaf_ext : forall s x s', use_leaf s x = Some s' -> ext s s'.
Proof.
  intros s x s' H. unfold use_leaf in H.
  destruct (has_leaf x (s_vars s)) eqn:Hv.
  - inversion H; subst. repeat split; simpl; auto. apply incl_refl.
  - destruct (s_entry s) eqn:He; [discriminate|]. destruct (has_leaf x (s_pvars s)); [|discriminate].
    inversion H; subst. repeat split; simpl; auto.
    + intros y [Hy | Hy]; subst; auto.
    + apply incl_tl, incl_refl.
Qed.

Lemma assign_leaf_ext : forall s l, ext s (assign_leaf s l).
Proof.
  intros s l. repeat split; simpl; auto; try apply incl_refl.
  intros x H. rewrite has_leaf_cons. destruct (Nat.eqb (l_id l) x) eqn:E; auto. simpl.
  rewrite has_leaf_remove; auto. apply Nat.eqb_neq in E. auto.
Qed.

Lemma assign_leaf_K : forall s l, scopeK s -> l_kind l = K (l_id l) -> scopeK (assign_leaf s l).
Proof.
  intros s l [A B] H. split; simpl; auto. intros l' [E | E]; [subst; auto|].
  unfold remove_leaf in E. apply filter_In in E. apply A. tauto.
Qed.

Lemma use_leaf_K : forall s x s', use_leaf s x = Some s' -> scopeK s -> scopeK s'.
Proof.
  intros s x s' H [A B]. unfold use_leaf in H.
  destruct (has_leaf x (s_vars s)); [inversion H; subst; split; auto|].
  destruct (s_entry s); [discriminate|]. destruct (has_leaf x (s_pvars s)); [|discriminate].
  inversion H; subst; split; auto.
Qed.

(* one assignment of a leaf keeps the relation; the token becomes present *)
Lemma assign_leaf_R : forall t0 s t l, l_kind l = K (l_id l) -> R t0 s t ->
  R t0 (assign_leaf s l) (if is_copy (l_kind l) then t else upd t (l_id l) true).
Proof.
  intros t0 s t l Hk HR y Hy. destruct (HR y Hy) as [R1 R2].
  assert (Hcase : is_copy (l_kind l) = true -> y <> l_id l).
  { intros Hc E. subst y. rewrite <- Hk in Hy. destruct (l_kind l); simpl in Hc; congruence. }
  simpl. rewrite has_leaf_cons, memb_remove_id.
  destruct (Nat.eqb (l_id l) y) eqn:E.
  - apply Nat.eqb_eq in E. subst y. simpl. split; [|discriminate]. intros _.
    destruct (is_copy (l_kind l)) eqn:Hc; [exfalso; apply (Hcase eq_refl); reflexivity|].
    unfold upd. rewrite Nat.eqb_refl. rewrite andb_false_r. reflexivity.
  - apply Nat.eqb_neq in E. simpl. rewrite has_leaf_remove by auto.
    assert (Ht : (if is_copy (l_kind l) then t else upd t (l_id l) true) y = t y).
    { destruct (is_copy (l_kind l)); auto. unfold upd.
      destruct (Nat.eqb y (l_id l)) eqn:E2; auto. apply Nat.eqb_eq in E2. congruence. }
    rewrite Ht. assert (Nat.eqb y (l_id l) = false) by (apply Nat.eqb_neq; auto).
    rewrite H. simpl. rewrite andb_true_r. split; auto.
Qed.

Lemma assign_leaves_sim : forall ls t0 s t, leavesK ls -> R t0 s t -> scopeK s ->
  R t0 (assign_leaves s ls) (sem_fill t ls) /\ scopeK (assign_leaves s ls) /\ ext s (assign_leaves s ls).
Proof.
  induction ls as [|l r IH]; intros t0 s t HK HR HS; simpl.
  - split; auto. split; auto. apply ext_refl.
  - assert (Hl : l_kind l = K (l_id l)) by (apply HK; simpl; auto).
    destruct (IH t0 (assign_leaf s l) (if is_copy (l_kind l) then t else upd t (l_id l) true)) as [A [B C]].
    + intros l' H. apply HK. simpl. auto.
    + apply assign_leaf_R; auto.
    + apply assign_leaf_K; auto.
    + split; [exact A|]. split; [exact B|]. eapply ext_trans; [apply assign_leaf_ext | exact C].
Qed.

Definition Hup (t0 : tstate) (sf : scope) : Prop :=
  forall x, In x (s_pul sf) -> K x <> KCopy -> t0 x = true.
Definition Hdef (t0 : tstate) (sf : scope) : Prop :=
  forall x, K x = KLinear -> t0 x = true -> has_leaf x (s_vars sf) = true -> In x (s_pul sf).

Lemma use_leaves_sim : forall ls t0 s s' sf t, use_leaves s ls = Ok s' -> ext s' sf -> Hup t0 sf ->
  leavesK ls -> R t0 s t -> scopeK s ->
  exists t', sem_use t ls = Fine t' /\ R t0 s' t' /\ scopeK s' /\ ext s s'.
Proof.
  induction ls as [|l r IH]; intros t0 s s' sf t Hrun Hext HU HK HR HS; simpl in *.
  - inversion Hrun; subst. exists t. split; [reflexivity|]. split; [exact HR|]. split; [exact HS|]. apply ext_refl.
  - assert (Hl : l_kind l = K (l_id l)) by (apply HK; simpl; auto).
    destruct (used s (l_id l)) as [u|] eqn:Hu; [|discriminate].
    destruct (u && negb (is_copy (l_kind l))) eqn:Hbad; [discriminate|].
    destruct (use_leaf s (l_id l)) as [s1|] eqn:Hs1; [|discriminate].
    assert (E1 : ext s s1) by (eapply use_leaf_ext; eauto).
    assert (Hstep : (is_copy (l_kind l) = false -> t (l_id l) = true) /\
                    R t0 s1 (if is_copy (l_kind l) then t else upd t (l_id l) false)).
    { assert (Hrest : exists sx, use_leaves s1 r = Ok sx /\ sx = s') by eauto.
      unfold used in Hu. unfold use_leaf in Hs1.
      destruct (has_leaf (l_id l) (s_vars s)) eqn:Hv.
      - inversion Hu; subst u. inversion Hs1; subst s1. clear Hu Hs1. split.
        + intros Hc. rewrite Hc in Hbad. simpl in Hbad. rewrite andb_true_r in Hbad.
          assert (Kx : K (l_id l) <> KCopy) by (rewrite <- Hl; destruct (l_kind l); simpl in Hc; congruence).
          destruct (HR _ Kx) as [A _]. rewrite (A Hv), Hbad. reflexivity.
        + intros y Hy. destruct (HR y Hy) as [A B]. cbn [s_vars s_ul s_pul s_up s_entry s_pvars]. rewrite ?memb_cons. split.
          * intros Hvy. destruct (Nat.eqb y (l_id l)) eqn:E.
            -- apply Nat.eqb_eq in E. subst y. simpl.
               destruct (is_copy (l_kind l)) eqn:Hc.
               ++ exfalso. apply Hy. rewrite <- Hl. destruct (l_kind l); simpl in Hc; congruence.
               ++ unfold upd. rewrite Nat.eqb_refl. reflexivity.
            -- simpl. rewrite <- (A Hvy). destruct (is_copy (l_kind l)); auto. unfold upd. rewrite E. auto.
          * intros Hvy. assert (y <> l_id l) by (intros E; subst; congruence).
            rewrite <- (B Hvy). destruct (is_copy (l_kind l)); auto. unfold upd.
            apply Nat.eqb_neq in H. rewrite H. auto.
      - destruct (s_entry s); [discriminate|].
        destruct (has_leaf (l_id l) (s_pvars s)) eqn:Hp; [|discriminate].
        inversion Hu; subst u. inversion Hs1; subst s1. clear Hu Hs1. split.
        + intros Hc. rewrite Hc in Hbad. simpl in Hbad. rewrite andb_true_r in Hbad.
          assert (Kx : K (l_id l) <> KCopy) by (rewrite <- Hl; destruct (l_kind l); simpl in Hc; congruence).
          destruct (HR _ Kx) as [_ B]. rewrite (B Hv), Hbad. simpl. rewrite andb_true_r.
          apply HU; auto.
          destruct Hrest as [sx [Hsx Esx]]. subst sx.
          destruct Hext as [_ [_ [I3 _]]]. apply I3.
          assert (E2 : ext {| s_entry := false; s_vars := s_vars s; s_ul := s_ul s; s_up := l_id l :: s_up s;
                             s_pvars := s_pvars s; s_pul := l_id l :: s_pul s |} s').
          { clear - Hsx IH. revert Hsx. generalize ({| s_entry := false; s_vars := s_vars s; s_ul := s_ul s;
                 s_up := l_id l :: s_up s; s_pvars := s_pvars s; s_pul := l_id l :: s_pul s |}).
            clear. revert s'. induction r as [|a r IHr]; intros s' s0 H; simpl in H.
            - inversion H. apply ext_refl.
            - destruct (used s0 (l_id a)); [|discriminate].
              destruct (b && negb (is_copy (l_kind a))); [discriminate|].
              destruct (use_leaf s0 (l_id a)) eqn:E; [|discriminate].
              eapply ext_trans; [eapply use_leaf_ext; eauto | eapply IHr; eauto]. }
          destruct E2 as [_ [_ [J3 _]]]. apply J3. simpl. auto.
        + intros y Hy. destruct (HR y Hy) as [A B]. cbn [s_vars s_ul s_pul s_up s_entry s_pvars]. rewrite ?memb_cons. split.
          * intros Hvy. assert (y <> l_id l) by (intros E; subst; congruence).
            rewrite <- (A Hvy). destruct (is_copy (l_kind l)); auto. unfold upd.
            apply Nat.eqb_neq in H. rewrite H. auto.
          * intros Hvy. destruct (Nat.eqb y (l_id l)) eqn:E.
            -- apply Nat.eqb_eq in E. subst y. simpl. rewrite andb_false_r.
               destruct (is_copy (l_kind l)) eqn:Hc.
               ++ exfalso. apply Hy. rewrite <- Hl. destruct (l_kind l); simpl in Hc; congruence.
               ++ unfold upd. rewrite Nat.eqb_refl. reflexivity.
            -- simpl. rewrite <- (B Hvy). destruct (is_copy (l_kind l)); auto. unfold upd. rewrite E. auto. }
    destruct Hstep as [Hfull HR1].
    destruct (IH t0 s1 s' sf (if is_copy (l_kind l) then t else upd t (l_id l) false)) as [t' [A [B [C D]]]]; auto.
    + intros l' H. apply HK. simpl. auto.
    + eapply use_leaf_K; eauto.
    + exists t'. destruct (is_copy (l_kind l)) eqn:Hc.
      * split; [exact A|]. split; [exact B|]. split; [exact C|]. eapply ext_trans; eauto.
      * rewrite (Hfull eq_refl). split; [exact A|]. split; [exact B|]. split; [exact C|]. eapply ext_trans; eauto.
Qed.

Lemma assign_checked_ext : forall ls s s', assign_leaves_checked s ls = Ok s' -> ext s s'.
Proof.
  induction ls as [|l r IH]; intros s s' H; simpl in H.
  - inversion H. apply ext_refl.
  - match type of H with (if ?b then _ else _) = _ => destruct b end; [discriminate|].
    eapply ext_trans; [apply (assign_leaf_ext s l) | apply IH; exact H].
Qed.

Lemma assign_checked_sim : forall ls t0 s s' sf t, assign_leaves_checked s ls = Ok s' -> ext s' sf ->
  Hdef t0 sf -> leavesK ls -> R t0 s t -> scopeK s ->
  exists t', sem_assign t ls = Fine t' /\ R t0 s' t' /\ scopeK s' /\ ext s s'.
Proof.
  induction ls as [|l r IH]; intros t0 s s' sf t Hrun Hext HD HK HR HS; simpl in *.
  - inversion Hrun; subst. exists t. split; [reflexivity|]. split; [exact HR|]. split; [exact HS|]. apply ext_refl.
  - assert (Hl : l_kind l = K (l_id l)) by (apply HK; simpl; auto).
    match type of Hrun with (if ?b then _ else _) = _ => destruct b eqn:Hbad end; [discriminate|].
    assert (Hext1 : ext (assign_leaf s l) s') by (apply assign_checked_ext with (ls := r); auto).
    assert (Hno : is_copy (l_kind l) = false -> t (l_id l) && is_linear (l_kind l) = false).
    { intros Hc.
      assert (Kx : K (l_id l) <> KCopy) by (rewrite <- Hl; destruct (l_kind l); simpl in Hc; congruence).
      destruct (HR _ Kx) as [A B].
      destruct (find_leaf (l_id l) (s_vars s)) as [old|] eqn:Hf.
      - assert (Hv : has_leaf (l_id l) (s_vars s) = true) by (unfold has_leaf; rewrite Hf; auto).
        rewrite (A Hv). apply find_leaf_some in Hf. destruct Hf as [Hin Hid].
        destruct HS as [SK _]. rewrite (SK _ Hin), Hid in Hbad. rewrite Hl.
        destruct (memb (l_id l) (s_ul s)); simpl in *; auto.
      - assert (Hv : has_leaf (l_id l) (s_vars s) = false) by (unfold has_leaf; rewrite Hf; auto).
        rewrite (B Hv).
        destruct (t0 (l_id l)) eqn:Ht0; auto. destruct (memb (l_id l) (s_pul s)) eqn:Hm; auto.
        destruct (is_linear (l_kind l)) eqn:Hlin; auto. exfalso.
        assert (KL : K (l_id l) = KLinear) by (rewrite <- Hl; destruct (l_kind l); simpl in Hlin; congruence).
        assert (E : ext (assign_leaf s l) sf) by (eapply ext_trans; eauto).
        destruct E as [E1 [E2 _]].
        assert (Hin : In (l_id l) (s_pul sf)).
        { apply HD; auto. apply E1. simpl. rewrite has_leaf_cons, Nat.eqb_refl. reflexivity. }
        destruct (E2 _ Hin) as [H | H]; simpl in H.
        + apply memb_In in H. congruence.
        + rewrite has_leaf_cons, Nat.eqb_refl in H. discriminate. }
    destruct (IH t0 (assign_leaf s l) s' sf (if is_copy (l_kind l) then t else upd t (l_id l) true)) as [t' [A [B [C D]]]]; auto.
    + intros l' H. apply HK. simpl. auto.
    + apply assign_leaf_R; auto.
    + apply assign_leaf_K; auto.
    + exists t'. destruct (is_copy (l_kind l)) eqn:Hc.
      * split; [exact A|]. split; [exact B|]. split; [exact C|]. eapply ext_trans; [apply assign_leaf_ext | eauto].
      * rewrite (Hno eq_refl). split; [exact A|]. split; [exact B|]. split; [exact C|]. eapply ext_trans; [apply assign_leaf_ext | eauto].
Qed.

Lemma step_event_sim : forall e t0 s s' sf t, step_event fin s e = Ok s' -> ext s' sf ->
  Hup t0 sf -> Hdef t0 sf -> leavesK (event_place e) -> R t0 s t -> scopeK s ->
  exists t', sem_event fin t e = Fine t' /\ R t0 s' t' /\ scopeK s' /\ ext s s'.
Proof.
  intros e t0 s s' sf t Hrun Hext HU HD HK HR HS. destruct e as [p k | p | p | p | e]; simpl in *.
  - destruct (p_inout p && negb (is_borrow k)); [discriminate|].
    eapply use_leaves_sim; eauto.
  - match type of Hrun with (if ?b then _ else _) = _ => destruct b end; [discriminate|].
    eapply assign_checked_sim; eauto.
  - destruct (input_is_borrowed fin (p_id p)); [discriminate|]. inversion Hrun; subst.
    exists t. split; [reflexivity|]. split; [exact HR|]. split; [exact HS|]. apply ext_refl.
  - inversion Hrun; subst. destruct (assign_leaves_sim (leaves (p_tree p)) t0 s t HK HR HS) as [A [B C]].
    eexists. split; [reflexivity|]. auto.
  - discriminate.
Qed.

Lemma step_event_ext : forall e s s', step_event fin s e = Ok s' -> ext s s'.
Proof.
  intros e s s' H. destruct e as [p k | p | p | p | e]; simpl in H.
  - destruct (p_inout p && negb (is_borrow k)); [discriminate|].
    revert H. generalize (leaves (p_tree p)). intros ls. revert s s'.
    induction ls as [|a r IHr]; intros s0 s' H; simpl in H.
    + inversion H. apply ext_refl.
    + destruct (used s0 (l_id a)); [|discriminate].
      destruct (b && negb (is_copy (l_kind a))); [discriminate|].
      destruct (use_leaf s0 (l_id a)) eqn:E; [|discriminate].
      eapply ext_trans; [eapply use_leaf_ext; eauto | eapply IHr; eauto].
  - match type of H with (if ?b then _ else _) = _ => destruct b end; [discriminate|].
    eapply assign_checked_ext; eauto.
  - destruct (input_is_borrowed fin (p_id p)); [discriminate|]. inversion H. apply ext_refl.
  - inversion H. unfold assign_leaves. generalize (leaves (p_tree p)). intros ls. clear. revert s.
    induction ls as [|a r IHr]; intros s; simpl; [apply ext_refl|].
    eapply ext_trans; [apply assign_leaf_ext | apply IHr].
  - discriminate.
Qed.

Lemma run_events_ext : forall es s s', run_events fin s es = Ok s' -> ext s s'.
Proof.
  induction es as [|e r IH]; intros s s' H; simpl in H.
  - inversion H. apply ext_refl.
  - destruct (step_event fin s e) as [s1|] eqn:E; [|discriminate].
    eapply ext_trans; [eapply step_event_ext; eauto | eapply IH; eauto].
Qed.

Definition eventsK (es : list event) : Prop := forall e, In e es -> leavesK (event_place e).

(** the block lemma *)
Lemma run_events_sim : forall es t0 s sf t, run_events fin s es = Ok sf ->
  Hup t0 sf -> Hdef t0 sf -> eventsK es -> R t0 s t -> scopeK s ->
  exists t', sem_events fin t es = Fine t' /\ R t0 sf t' /\ scopeK sf.
Proof.
  induction es as [|e r IH]; intros t0 s sf t Hrun HU HD HK HR HS; simpl in *.
  - inversion Hrun; subst. exists t. auto.
  - destruct (step_event fin s e) as [s1|] eqn:E; [|discriminate].
    destruct (step_event_sim e t0 s s1 sf t E) as [t1 [A [B [C D]]]]; auto.
    + eapply run_events_ext; eauto.
    + apply HK. simpl. auto.
    + rewrite A. eapply IH; eauto. intros e' H. apply HK. simpl. auto.
Qed.

(* a violation in a prefix is a violation of the whole *)
Lemma sem_events_app : forall a b t, sem_events fin t (a ++ b) =
  match sem_events fin t a with Fine t' => sem_events fin t' b | Bad v => Bad v end.
Proof.
  induction a as [|e r IH]; intros b t; simpl; auto.
  destruct (sem_event fin t e); auto.
Qed.

Lemma sem_events_prefix : forall es k t t', sem_events fin t es = Fine t' ->
  exists t'', sem_events fin t (firstn k es) = Fine t''.
Proof.
  intros es k t t' H. rewrite <- (firstn_skipn k es) in H. rewrite sem_events_app in H.
  destruct (sem_events fin t (firstn k es)); [eauto | discriminate].
Qed.

End Block.
