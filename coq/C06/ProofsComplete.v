(** V.C06.ProofsComplete — completeness: a rejection (other than a crash) is matched by a path
    from the entry that violates the token discipline. *)
From Coq Require Import List Bool Arith Lia.
From V.C09 Require Import Analysis SetLemmas Spec ProofsLive ProofsTop.
From V.C06 Require Import Linearity Token ProofsBlock ProofsFlow ProofsSound.
Import ListNotations.

(** * structural conditions on the events of a block (true of [flat_map ev_stmt]) *)
(* an assignment to a place is followed by the test of visit_Assign for that place *)
Fixpoint shadow_wf (es : list event) : Prop :=
  match es with
  | [] => True
  | e :: r =>
      match e with
      | EAssign p => exists p', In (EShadow p') r /\ p_id p' = p_id p
      | _ => True
      end /\ shadow_wf r
  end.
(* a place is handed back only after it was borrowed in the same block; [B] = ids borrowed so far *)
Fixpoint reassign_wf (B : list nat) (es : list event) : Prop :=
  match es with
  | [] => True
  | e :: r =>
      match e with
      | EUse p UBorrow => reassign_wf (map l_id (leaves (p_tree p)) ++ B) r
      | EReassign p => (forall l, In l (leaves (p_tree p)) -> In (l_id l) B) /\ reassign_wf B r
      | _ => reassign_wf B r
      end
  end.

Section BlockC.
Variable K : nat -> kind.
Variable fin : finputs.

Definition leavesIO (ls : list leaf) : Prop :=
  forall l, In l ls -> l_inout l = true -> input_is_borrowed fin (l_id l) = true.
Definition eventsIO (es : list event) : Prop := forall e, In e es -> leavesIO (event_place e).

Lemma use_leaf_R : forall t0 s t l s1, l_kind l = K (l_id l) -> use_leaf s (l_id l) = Some s1 ->
  R K t0 s t -> R K t0 s1 (if is_copy (l_kind l) then t else upd t (l_id l) false).
Proof.
  intros t0 s t l s1 Hl Hs1 HR. unfold use_leaf in Hs1.
  assert (Hcopy : forall y, K y <> KCopy -> is_copy (l_kind l) = true -> y <> l_id l).
  { intros y Hy Hc E. subst y. rewrite <- Hl in Hy. destruct (l_kind l); simpl in Hc; congruence. }
  destruct (has_leaf (l_id l) (s_vars s)) eqn:Hv.
  - inversion Hs1; subst s1. clear Hs1. intros y Hy. destruct (HR y Hy) as [A B].
    cbn [s_vars s_ul s_pul s_up s_entry s_pvars]. rewrite ?memb_cons. split.
    + intros Hvy. destruct (Nat.eqb y (l_id l)) eqn:E.
      * apply Nat.eqb_eq in E. subst y. simpl. destruct (is_copy (l_kind l)) eqn:Hc.
        -- exfalso. apply (Hcopy _ Hy eq_refl). reflexivity.
        -- unfold upd. rewrite Nat.eqb_refl. reflexivity.
      * simpl. rewrite <- (A Hvy). destruct (is_copy (l_kind l)); auto. unfold upd. rewrite E. auto.
    + intros Hvy. assert (y <> l_id l) by (intros E; subst; congruence).
      rewrite <- (B Hvy). destruct (is_copy (l_kind l)); auto. unfold upd.
      apply Nat.eqb_neq in H. rewrite H. auto.
  - destruct (s_entry s); [discriminate|].
    destruct (has_leaf (l_id l) (s_pvars s)) eqn:Hp; [|discriminate].
    inversion Hs1; subst s1. clear Hs1. intros y Hy. destruct (HR y Hy) as [A B].
    cbn [s_vars s_ul s_pul s_up s_entry s_pvars]. rewrite ?memb_cons. split.
    + intros Hvy. assert (y <> l_id l) by (intros E; subst; congruence).
      rewrite <- (A Hvy). destruct (is_copy (l_kind l)); auto. unfold upd.
      apply Nat.eqb_neq in H. rewrite H. auto.
    + intros Hvy. destruct (Nat.eqb y (l_id l)) eqn:E.
      * apply Nat.eqb_eq in E. subst y. simpl. rewrite andb_false_r.
        destruct (is_copy (l_kind l)) eqn:Hc.
        -- exfalso. apply (Hcopy _ Hy eq_refl). reflexivity.
        -- unfold upd. rewrite Nat.eqb_refl. reflexivity.
      * simpl. rewrite <- (B Hvy). destruct (is_copy (l_kind l)); auto. unfold upd. rewrite E. auto.
Qed.

(* a place marked used holds no token *)
Lemma used_true_empty : forall t0 s t x, R K t0 s t -> K x <> KCopy -> used s x = Some true -> t x = false.
Proof.
  intros t0 s t x HR Kx Hu. destruct (HR x Kx) as [A B]. unfold used in Hu.
  destruct (has_leaf x (s_vars s)) eqn:Hv.
  - inversion Hu as [E]. rewrite (A eq_refl), E. reflexivity.
  - destruct (s_entry s); [discriminate|]. destruct (has_leaf x (s_pvars s)); [|discriminate].
    inversion Hu as [E]. rewrite (B eq_refl), E. apply andb_false_r.
Qed.

Lemma noncopy : forall l, l_kind l = K (l_id l) -> is_copy (l_kind l) = false -> K (l_id l) <> KCopy.
Proof. intros l Hl Hc. rewrite <- Hl. destruct (l_kind l); simpl in Hc; congruence. Qed.

Lemma use_leaves_R : forall ls t0 s s' t t', use_leaves s ls = Ok s' -> leavesK K ls -> R K t0 s t ->
  sem_use t ls = Fine t' -> R K t0 s' t'.
Proof.
  induction ls as [|l r IH]; intros t0 s s' t t' Hrun HK HR Hsem; simpl in *.
  - inversion Hrun; inversion Hsem; subst; auto.
  - assert (Hl : l_kind l = K (l_id l)) by (apply HK; simpl; auto).
    destruct (used s (l_id l)) as [u|]; [|discriminate].
    destruct (u && negb (is_copy (l_kind l))); [discriminate|].
    destruct (use_leaf s (l_id l)) as [s1|] eqn:Hs1; [|discriminate].
    pose proof (use_leaf_R t0 s t l s1 Hl Hs1 HR) as HR1.
    assert (HK' : leavesK K r) by (intros l' H; apply HK; simpl; auto).
    destruct (is_copy (l_kind l)).
    + eapply IH; eauto.
    + destruct (t (l_id l)); [|discriminate]. eapply IH; eauto.
Qed.

Lemma use_leaves_err : forall ls t0 s t e, use_leaves s ls = Err e -> e <> ErrCrash -> leavesK K ls ->
  R K t0 s t -> exists v, sem_use t ls = Bad v.
Proof.
  induction ls as [|l r IH]; intros t0 s t e Hrun He HK HR; simpl in *; [discriminate|].
  assert (Hl : l_kind l = K (l_id l)) by (apply HK; simpl; auto).
  assert (HK' : leavesK K r) by (intros l' H; apply HK; simpl; auto).
  destruct (used s (l_id l)) as [u|] eqn:Hu; [|inversion Hrun; congruence].
  destruct (u && negb (is_copy (l_kind l))) eqn:Hbad.
  - apply andb_true_iff in Hbad. destruct Hbad as [Hu' Hc]. subst u. apply negb_true_iff in Hc.
    rewrite Hc. rewrite (used_true_empty t0 s t (l_id l) HR (noncopy l Hl Hc) Hu). eauto.
  - destruct (use_leaf s (l_id l)) as [s1|] eqn:Hs1; [|inversion Hrun; congruence].
    pose proof (use_leaf_R t0 s t l s1 Hl Hs1 HR) as HR1.
    destruct (is_copy (l_kind l)).
    + eapply IH; eauto.
    + destruct (t (l_id l)); [|eauto]. eapply IH; eauto.
Qed.

Lemma assign_checked_R : forall ls t0 s s' t t', assign_leaves_checked s ls = Ok s' -> leavesK K ls ->
  R K t0 s t -> sem_assign t ls = Fine t' -> R K t0 s' t'.
Proof.
  induction ls as [|l r IH]; intros t0 s s' t t' Hrun HK HR Hsem; simpl in *.
  - inversion Hrun; inversion Hsem; subst; auto.
  - assert (Hl : l_kind l = K (l_id l)) by (apply HK; simpl; auto).
    assert (HK' : leavesK K r) by (intros l' H; apply HK; simpl; auto).
    match type of Hrun with (if ?b then _ else _) = _ => destruct b end; [discriminate|].
    pose proof (assign_leaf_R K t0 s t l Hl HR) as HR1.
    destruct (is_copy (l_kind l)).
    + eapply IH; eauto.
    + destruct (t (l_id l) && is_linear (l_kind l)); [discriminate|]. eapply IH; eauto.
Qed.

Lemma assign_checked_K : forall ls s s', assign_leaves_checked s ls = Ok s' -> leavesK K ls ->
  scopeK K s -> scopeK K s'.
Proof.
  induction ls as [|l r IH]; intros s s' Hrun HK HS; simpl in *.
  - inversion Hrun; subst; auto.
  - match type of Hrun with (if ?b then _ else _) = _ => destruct b end; [discriminate|].
    eapply IH; eauto. intros l' H; apply HK; simpl; auto. apply assign_leaf_K; auto. apply HK. simpl. auto.
Qed.

Lemma use_leaves_K : forall ls s s', use_leaves s ls = Ok s' -> scopeK K s -> scopeK K s'.
Proof.
  induction ls as [|l r IH]; intros s s' Hrun HS; simpl in *.
  - inversion Hrun; subst; auto.
  - destruct (used s (l_id l)); [|discriminate].
    destruct (b && negb (is_copy (l_kind l))); [discriminate|].
    destruct (use_leaf s (l_id l)) eqn:E; [|discriminate].
    eapply IH; eauto. eapply use_leaf_K; eauto.
Qed.

Lemma assign_checked_err : forall ls t0 s t e, assign_leaves_checked s ls = Err e -> leavesK K ls ->
  R K t0 s t -> scopeK K s -> exists v, sem_assign t ls = Bad v.
Proof.
  induction ls as [|l r IH]; intros t0 s t e Hrun HK HR HS; simpl in *; [discriminate|].
  assert (Hl : l_kind l = K (l_id l)) by (apply HK; simpl; auto).
  assert (HK' : leavesK K r) by (intros l' H; apply HK; simpl; auto).
  destruct (find_leaf (l_id l) (s_vars s)) as [old|] eqn:Hf.
  - destruct (negb (memb (l_id l) (s_ul s)) && is_linear (l_kind old)) eqn:Hbad.
    + apply andb_true_iff in Hbad. destruct Hbad as [Hm Hlin]. apply negb_true_iff in Hm.
      destruct (find_leaf_some _ _ _ Hf) as [Hin Hid]. destruct HS as [SK _].
      assert (Hk : l_kind l = l_kind old) by (rewrite Hl, (SK _ Hin), Hid; reflexivity).
      rewrite Hk. destruct (l_kind old) eqn:Eo; simpl in Hlin; try discriminate. simpl.
      assert (Kx : K (l_id l) <> KCopy) by (rewrite <- Hl, Hk; discriminate).
      assert (Hv : has_leaf (l_id l) (s_vars s) = true) by (unfold has_leaf; rewrite Hf; auto).
      rewrite (proj1 (HR _ Kx) Hv), Hm. simpl. eauto.
    + pose proof (assign_leaf_R K t0 s t l Hl HR) as HR1.
      destruct (is_copy (l_kind l)).
      * eapply IH; eauto. apply assign_leaf_K; auto.
      * destruct (t (l_id l) && is_linear (l_kind l)); [eauto|]. eapply IH; eauto. apply assign_leaf_K; auto.
  - pose proof (assign_leaf_R K t0 s t l Hl HR) as HR1.
    destruct (is_copy (l_kind l)).
    + eapply IH; eauto. apply assign_leaf_K; auto.
    + destruct (t (l_id l) && is_linear (l_kind l)); [eauto|]. eapply IH; eauto. apply assign_leaf_K; auto.
Qed.

Definition scopeIO (s : scope) : Prop := leavesIO (s_vars s).

Lemma assign_leaf_IO : forall s l, scopeIO s -> (l_inout l = true -> input_is_borrowed fin (l_id l) = true) ->
  scopeIO (assign_leaf s l).
Proof.
  intros s l HS Hl l' [E | E]; [subst; auto|]. unfold remove_leaf in E. apply filter_In in E. apply HS. tauto.
Qed.

Lemma step_event_IO : forall e s s', step_event fin s e = Ok s' -> leavesIO (event_place e) ->
  scopeIO s -> scopeIO s'.
Proof.
  intros e s s' H HE HS. destruct e as [p k | p | p | p | e]; simpl in *.
  - destruct (p_inout p && negb (is_borrow k)); [discriminate|].
    revert s s' H HS. clear HE. generalize (leaves (p_tree p)). induction l as [|a r IH]; intros s s' H HS; simpl in H.
    + inversion H; subst; auto.
    + destruct (used s (l_id a)); [|discriminate].
      destruct (b && negb (is_copy (l_kind a))); [discriminate|].
      destruct (use_leaf s (l_id a)) as [s1|] eqn:E; [|discriminate].
      eapply IH; [exact H|]. unfold use_leaf in E.
      destruct (has_leaf (l_id a) (s_vars s)); [inversion E; subst; exact HS|].
      destruct (s_entry s); [discriminate|]. destruct (has_leaf (l_id a) (s_pvars s)); [|discriminate].
      inversion E; subst; exact HS.
  - match type of H with (if ?b then _ else _) = _ => destruct b end; [discriminate|].
    revert s s' H HS. revert HE. generalize (leaves (p_tree p)). induction l as [|a r IH]; intros HE s s' H HS; simpl in H.
    + inversion H; subst; auto.
    + match type of H with (if ?b then _ else _) = _ => destruct b end; [discriminate|].
      eapply IH; [|exact H|].
      * intros l' Hl'. apply HE. simpl. auto.
      * apply assign_leaf_IO; auto. apply HE. simpl. auto.
  - destruct (input_is_borrowed fin (p_id p)); [discriminate|]. inversion H; subst; auto.
  - inversion H; subst. clear H. revert s HS. revert HE. unfold assign_leaves.
    generalize (leaves (p_tree p)). induction l as [|a r IH]; intros HE s HS; simpl; auto.
    apply IH.
    + intros l' Hl'. apply HE. simpl. auto.
    + apply assign_leaf_IO; auto. apply HE. simpl. auto.
  - discriminate.
Qed.

Lemma shadow_bad : forall r p', In (EShadow p') r -> input_is_borrowed fin (p_id p') = true ->
  forall t, exists v, sem_events fin t r = Bad v.
Proof.
  induction r as [|e r IH]; intros p' Hin Hb t; [destruct Hin|]. simpl.
  destruct Hin as [E | Hin].
  - subst e. simpl. rewrite Hb. eauto.
  - destruct (sem_event fin t e); [eapply IH; eauto | eauto].
Qed.

Lemma step_event_R : forall e t0 s s' t t', step_event fin s e = Ok s' -> leavesK K (event_place e) ->
  R K t0 s t -> scopeK K s -> sem_event fin t e = Fine t' -> R K t0 s' t' /\ scopeK K s'.
Proof.
  intros e t0 s s' t t' Hrun HK HR HS Hsem. destruct e as [p k | p | p | p | e]; simpl in *.
  - destruct (p_inout p && negb (is_borrow k)); [discriminate|]. split.
    + eapply use_leaves_R; eauto.
    + eapply use_leaves_K; eauto.
  - match type of Hrun with (if ?b then _ else _) = _ => destruct b end; [discriminate|]. split.
    + eapply assign_checked_R; eauto.
    + eapply assign_checked_K; eauto.
  - destruct (input_is_borrowed fin (p_id p)); [discriminate|]. inversion Hrun; inversion Hsem; subst; auto.
  - inversion Hrun; inversion Hsem; subst.
    destruct (assign_leaves_sim K (leaves (p_tree p)) t0 s t HK HR HS) as [A [B _]]. auto.
  - discriminate.
Qed.

Lemma run_events_R : forall es t0 s sf t t', run_events fin s es = Ok sf -> eventsK K es ->
  R K t0 s t -> scopeK K s -> sem_events fin t es = Fine t' -> R K t0 sf t' /\ scopeK K sf.
Proof.
  induction es as [|e r IH]; intros t0 s sf t t' Hrun HK HR HS Hsem; simpl in *.
  - inversion Hrun; inversion Hsem; subst; auto.
  - destruct (step_event fin s e) as [s1|] eqn:E; [|discriminate].
    destruct (sem_event fin t e) as [t1|] eqn:E2; [|discriminate].
    destruct (step_event_R e t0 s s1 t t1 E (HK e (or_introl eq_refl)) HR HS E2) as [A B].
    eapply IH; eauto. intros e' H. apply HK. simpl. auto.
Qed.

(** a rejection while walking a block is a violation on every path that reaches the block *)
Lemma run_events_err : forall es t0 s t e, run_events fin s es = Err e -> e <> ErrCrash ->
  eventsK K es -> eventsIO es -> shadow_wf es -> R K t0 s t -> scopeK K s -> scopeIO s ->
  exists v, sem_events fin t es = Bad v.
Proof.
  induction es as [|e r IH]; intros t0 s t e0 Hrun He HK HIO HW HR HS HI; simpl in *; [discriminate|].
  assert (HKe : leavesK K (event_place e)) by (apply HK; simpl; auto).
  assert (HK' : eventsK K r) by (intros e' H; apply HK; simpl; auto).
  assert (HIO' : eventsIO r) by (intros e' H; apply HIO; simpl; auto).
  destruct HW as [HWe HW'].
  destruct (step_event fin s e) as [s1|e1] eqn:E.
  - destruct (sem_event fin t e) as [t1|] eqn:E2; [|eauto].
    destruct (step_event_R e t0 s s1 t t1 E HKe HR HS E2) as [A B].
    eapply IH; eauto. eapply step_event_IO; eauto. apply HIO. simpl. auto.
  - inversion Hrun; subst e1. clear Hrun.
    destruct e as [p k | p | p | p | e]; simpl in *.
    + destruct (p_inout p && negb (is_borrow k)); [eauto|].
      destruct (use_leaves_err _ t0 s t e0 E He HKe HR) as [v Hv]. rewrite Hv. eauto.
    + destruct (find_leaf (p_id p) (s_vars s)) as [l0|] eqn:Hf.
      * destruct (l_inout l0) eqn:Hio.
        -- (* the scope-based shadow test: the violation is the later [EShadow] *)
           destruct (find_leaf_some _ _ _ Hf) as [Hin Hid].
           assert (Hb : input_is_borrowed fin (p_id p) = true) by (rewrite <- Hid; apply HI; auto).
           destruct HWe as [p' [Hp' Hid']].
           destruct (sem_assign t (leaves (p_tree p))) as [t1|]; [|eauto].
           apply (shadow_bad r p' Hp'). rewrite Hid'. exact Hb.
        -- destruct (assign_checked_err _ t0 s t e0 E HKe HR HS) as [v Hv]. rewrite Hv. eauto.
      * destruct (assign_checked_err _ t0 s t e0 E HKe HR HS) as [v Hv]. rewrite Hv. eauto.
    + destruct (input_is_borrowed fin (p_id p)); [eauto | discriminate].
    + discriminate.
    + eauto.
Qed.

End BlockC.

(** * paths *)
Section Global.
Variable K : nat -> kind.
Variable c : lcfg.
Hypothesis HK : uniform K c.
Hypothesis HW : wf_shape c.

Notation fin := (c_inputs c).
Notation N := (length (c_blocks c)).
Notation evs b := (lb_events (nth_block c b)).
Notation succs b := (lb_succ (nth_block c b)).

Definition bad_walk : Prop :=
  exists rest k v, is_walk c (c_entry c) rest /\ run_path c empty_tokens (c_entry c) rest k = Bad v.
Definition bad_final : Prop :=
  exists rest k t, is_walk c (c_entry c) rest /\ last rest (c_entry c) = c_exit c /\
    run_path c empty_tokens (c_entry c) rest k = Fine t /\ ~ final_ok K c t.
Definition violated : Prop := bad_walk \/ bad_final.

(* [reachc b t]: some walk from the entry reaches the start of block b with tokens t, without
   any violation so far *)
Inductive reachc : nat -> tstate -> Prop :=
| rc_entry : reachc (c_entry c) empty_tokens
| rc_step b t t' n : reachc b t ->
    sem_events fin (block_start c b t) (evs b) = Fine t' -> In n (succs b) -> reachc n t'.

Lemma reachc_extend : forall b t, reachc b t -> forall suffix k o, is_walk c b suffix ->
  run_path c t b suffix k = o ->
  exists rest, is_walk c (c_entry c) rest /\ run_path c empty_tokens (c_entry c) rest k = o /\
               last rest (c_entry c) = last suffix b.
Proof.
  intros b t H. induction H as [|b t t' n Hr IH Hs Hn]; intros suffix k o Hw Hrun.
  - exists suffix. auto.
  - destruct (IH (n :: suffix) k o) as [rest [A [B C]]].
    + simpl. auto.
    + simpl. rewrite Hs. exact Hrun.
    + exists rest. split; auto. split; auto. rewrite C. apply last_cons_default.
Qed.

Lemma block_bad : forall b t v, reachc b t -> sem_events fin (block_start c b t) (evs b) = Bad v -> bad_walk.
Proof.
  intros b t v Hr Hs.
  destruct (reachc_extend b t Hr [] (length (evs b)) (Bad v) I) as [rest [A [B _]]].
  - simpl. rewrite firstn_all. exact Hs.
  - exists rest, (length (evs b)), v. auto.
Qed.

Lemma walk_reach : forall rest b t, reachc b t -> is_walk c b rest ->
  bad_walk \/ exists t', reachc (last rest b) t'.
Proof.
  induction rest as [|n r IH]; intros b t Hr Hw.
  - right. exists t. exact Hr.
  - destruct Hw as [Hn Hw]. rewrite last_cons_default.
    destruct (sem_events fin (block_start c b t) (evs b)) as [t'|v] eqn:E.
    + apply (IH n t'); auto. eapply rc_step; eauto.
    + left. eapply block_bad; eauto.
Qed.

Definition greach (b : nat) : Prop := exists rest, is_walk c (c_entry c) rest /\ last rest (c_entry c) = b.

Lemma greach_reachc : forall b, greach b -> bad_walk \/ exists t, reachc b t.
Proof.
  intros b [rest [Hw Hl]]. rewrite <- Hl. apply (walk_reach rest (c_entry c) empty_tokens); auto. constructor.
Qed.

Lemma reachc_entry_empty : forall b t, reachc b t -> b = c_entry c -> t = empty_tokens.
Proof.
  intros b t H E. destruct H as [|b t t' n Hr Hs Hn]; auto. subst n.
  destruct HW as [_ [_ [_ W]]]. exfalso. apply (W b). exact Hn.
Qed.

(** the start of a block *)
Definition io_ok : Prop :=
  forall l, In l (all_leaves c) -> l_inout l = true -> input_is_borrowed fin (l_id l) = true.
Hypothesis HIO : io_ok.

Lemma blockIO : forall b, b < N -> leavesIO fin (flat_map leaves (lb_in (nth_block c b))) /\ eventsIO fin (evs b).
Proof.
  intros b Hb. assert (Hin : In (nth_block c b) (c_blocks c)) by (apply nth_In; exact Hb).
  split.
  - intros l Hl. apply HIO. unfold all_leaves. apply in_or_app. left. apply in_flat_map.
    exists (nth_block c b). split; auto. unfold block_leaves. apply in_or_app. auto.
  - intros e He l Hl. apply HIO. unfold all_leaves. apply in_or_app. left. apply in_flat_map.
    exists (nth_block c b). split; auto. unfold block_leaves. apply in_or_app. right.
    apply in_flat_map. exists e. auto.
Qed.

Lemma blockK' : forall b, b < N -> leavesK K (flat_map leaves (lb_in (nth_block c b))) /\ eventsK K (evs b).
Proof.
  intros b Hb. assert (Hin : In (nth_block c b) (c_blocks c)) by (apply nth_In; exact Hb).
  split.
  - intros l Hl. apply HK. unfold all_leaves. apply in_or_app. left. apply in_flat_map.
    exists (nth_block c b). split; auto. unfold block_leaves. apply in_or_app. auto.
  - intros e He l Hl. apply HK. unfold all_leaves. apply in_or_app. left. apply in_flat_map.
    exists (nth_block c b). split; auto. unfold block_leaves. apply in_or_app. right.
    apply in_flat_map. exists e. auto.
Qed.

Lemma assign_leaves_IO : forall ls s, leavesIO fin ls -> scopeIO fin s -> scopeIO fin (assign_leaves s ls).
Proof.
  unfold assign_leaves. induction ls as [|l r IH]; intros s HL HS; simpl; auto.
  apply IH.
  - intros l' H. apply HL. simpl. auto.
  - apply assign_leaf_IO; auto. apply HL. simpl. auto.
Qed.

Lemma start_R : forall b t, b < N ->
  let s0 := init_scope (Nat.eqb b (c_entry c)) (lb_in (nth_block c b)) in
  R K t s0 (block_start c b t) /\ scopeK K s0 /\ inv2 s0 /\ scopeIO fin s0 /\
  (Nat.eqb b (c_entry c) = false -> s_vars s0 = [] /\ s_pul s0 = []).
Proof.
  intros b t Hb s0. destruct (blockK' b Hb) as [KI _]. destruct (blockIO b Hb) as [II _].
  set (row := flat_map leaves (lb_in (nth_block c b))) in *.
  assert (R0 : R K t e0 t).
  { intros x _. split; [discriminate|]. intros _. simpl. rewrite andb_true_r. reflexivity. }
  assert (S0 : scopeK K e0) by (split; intros l []).
  destruct (assign_leaves_sim K row t e0 t KI R0 S0) as [A [B _]].
  unfold block_start, s0. destruct (Nat.eqb b (c_entry c)) eqn:Ee.
  - rewrite init_scope_entry. fold row. split; [exact A|]. split; [exact B|]. split.
    + apply assign_leaves_inv2. split; reflexivity.
    + split; [|discriminate]. apply assign_leaves_IO; auto. intros l [].
  - unfold init_scope. change (mkScope true [] [] [] [] []) with e0. fold row. split; [|split; [|split; [|split]]].
    + intros x _. split; [discriminate|]. intros _. simpl. rewrite andb_true_r. reflexivity.
    + split; [intros l []|]. simpl. apply B.
    + split; [reflexivity | discriminate].
    + intros l [].
    + auto.
Qed.

(** (a) a rejection while walking a reachable block *)
Lemma check_blocks_err : forall bs k b e, check_blocks fin (c_entry c) k bs = inr (b, e) ->
  exists j blk, b = k + j /\ nth_error bs j = Some blk /\
    check_block fin (Nat.eqb b (c_entry c)) blk = Err e.
Proof.
  induction bs as [|blk r IH]; intros k b e H; simpl in H; [discriminate|].
  destruct (check_block fin (Nat.eqb k (c_entry c)) blk) as [s|e1] eqn:E.
  - destruct (check_blocks fin (c_entry c) (S k) r) as [ss|[b1 e1]] eqn:E2; [discriminate|].
    inversion H; subst. destruct (IH _ _ _ E2) as [j [blk' [A [B C]]]].
    exists (S j), blk'. split; [lia|]. auto.
  - inversion H; subst. exists 0, blk. rewrite Nat.add_0_r. auto.
Qed.

Hypothesis HSW : forall blk, In blk (c_blocks c) -> shadow_wf (lb_events blk).

Lemma nth_error_block : forall j blk, nth_error (c_blocks c) j = Some blk -> j < N /\ blk = nth_block c j.
Proof.
  intros j blk H. assert (j < N) by (apply nth_error_Some; congruence). split; auto.
  unfold nth_block. rewrite (nth_error_nth' _ (mkLB [] [] []) H0) in H. congruence.
Qed.

Theorem complete_blocks : forall b e, check_blocks fin (c_entry c) 0 (c_blocks c) = inr (b, e) ->
  e <> ErrCrash -> greach b -> bad_walk.
Proof.
  intros b e H He Hg. destruct (check_blocks_err _ _ _ _ H) as [j [blk [A [B C]]]]. simpl in A. subst j.
  destruct (nth_error_block _ _ B) as [Hb Eb]. subst blk.
  destruct (greach_reachc b Hg) as [Hbad | [t Hr]]; [exact Hbad|].
  destruct (start_R b t Hb) as [R0 [S0 [_ [I0 _]]]].
  destruct (blockK' b Hb) as [_ KE]. destruct (blockIO b Hb) as [_ IE].
  unfold check_block in C.
  destruct (run_events_err K fin (evs b) t _ (block_start c b t) e C He KE IE
              (HSW _ (nth_In _ _ Hb)) R0 S0 I0) as [v Hv].
  eapply block_bad; eauto.
Qed.


(** * the dataflow phase *)
Variable sched : list nat.
Variables ss0 ss : list scope.
Hypothesis H1 : check_blocks fin (c_entry c) 0 (c_blocks c) = inl ss0.
Hypothesis H2 : exit_used c ss0 = Some ss.
Hypothesis H3 : wf_cfg (stats_cfg c ss) = true.
Hypothesis H4 : c_exit c < N.
Hypothesis H5 : c_entry c < N.
Hypothesis HER : c_exit_reachable c = true.
Notation L := (live_of c ss sched).

Lemma live_path : forall b x, b < N -> In x (getv L b) -> live_on_path false (stats_cfg c ss) x b.
Proof.
  intros b x Hb Hx. unfold live_of in Hx.
  assert (Hl : length ss = N) by (eapply len1; eauto).
  destruct (liveness_correct_lemma false (stats_cfg c ss) (live_default c) H3 sched b x) as [A _].
  - rewrite (stats_nblocks c ss Hl). exact Hb.
  - apply A; auto. unfold live_default. rewrite HER. intros [].
Qed.

Lemma sf_eq : forall b, b <> c_exit c -> nth_scope ss b = nth_scope ss0 b.
Proof. intros b Hb. eapply nth_ss; eauto. Qed.

(* the block, run from a reachable configuration: a violation, or the relation at its end *)
Lemma run_block : forall b t, b < N -> reachc b t ->
  bad_walk \/ exists t', sem_events fin (block_start c b t) (evs b) = Fine t' /\
     R K t (nth_scope ss0 b) t' /\ scopeK K (nth_scope ss0 b).
Proof.
  intros b t Hb Hr. destruct (sem_events fin (block_start c b t) (evs b)) as [t'|v] eqn:E.
  - right. exists t'. split; auto.
    destruct (start_R b t Hb) as [R0 [S0 _]]. destruct (blockK' b Hb) as [_ KE].
    pose proof (block_run c ss0 H1 b Hb) as Hrun.
    eapply run_events_R; eauto.
  - left. eapply block_bad; eauto.
Qed.

Lemma block_ext : forall b, b < N ->
  ext (init_scope (Nat.eqb b (c_entry c)) (lb_in (nth_block c b))) (nth_scope ss0 b) /\ inv2 (nth_scope ss0 b).
Proof.
  intros b Hb. pose proof (block_run c ss0 H1 b Hb) as Hrun. split.
  - eapply run_events_ext; eauto.
  - destruct (start_R b empty_tokens Hb) as [_ [_ [I0 _]]]. eapply run_events_inv2; eauto.
Qed.

(* a token that is needed (read through the input scope) must be there *)
Lemma use_leaves_pul : forall x ls t0 s s' t t', use_leaves s ls = Ok s' -> leavesK K ls -> R K t0 s t ->
  sem_use t ls = Fine t' -> K x <> KCopy -> t0 x = false -> In x (s_pul s') -> In x (s_pul s).
Proof.
  intros x. induction ls as [|l r IH]; intros t0 s s' t t' Hrun HKl HR Hsem Kx T0 Hin; simpl in *.
  - inversion Hrun; subst; auto.
  - assert (Hl : l_kind l = K (l_id l)) by (apply HKl; simpl; auto).
    assert (HK' : leavesK K r) by (intros l' H; apply HKl; simpl; auto).
    destruct (used s (l_id l)) as [u|]; [|discriminate].
    destruct (u && negb (is_copy (l_kind l))); [discriminate|].
    destruct (use_leaf s (l_id l)) as [s1|] eqn:Hs1; [|discriminate].
    pose proof (use_leaf_R K t0 s t l s1 Hl Hs1 HR) as HR1.
    assert (Hin1 : In x (s_pul s1)).
    { destruct (is_copy (l_kind l)).
      - eapply IH; eauto.
      - destruct (t (l_id l)); [|discriminate]. eapply IH; eauto. }
    unfold use_leaf in Hs1. destruct (has_leaf (l_id l) (s_vars s)) eqn:Hv.
    + inversion Hs1; subst s1. exact Hin1.
    + destruct (s_entry s); [discriminate|]. destruct (has_leaf (l_id l) (s_pvars s)); [|discriminate].
      inversion Hs1; subst s1. simpl in Hin1. destruct Hin1 as [E | Hin1]; [|exact Hin1]. exfalso.
      subst x. assert (Hc : is_copy (l_kind l) = false).
      { rewrite Hl. destruct (K (l_id l)); simpl; congruence. }
      rewrite Hc in Hsem. rewrite (proj2 (HR _ Kx) Hv), T0 in Hsem. simpl in Hsem. discriminate.
Qed.

Lemma step_event_pul_eq : forall e s s', step_event fin s e = Ok s' ->
  (forall p k, e <> EUse p k) -> s_pul s' = s_pul s.
Proof.
  intros e s s' H Hne. destruct e as [p k | p | p | p | e]; simpl in H.
  - exfalso. apply (Hne p k). reflexivity.
  - match type of H with (if ?b then _ else _) = _ => destruct b end; [discriminate|].
    revert s s' H. generalize (leaves (p_tree p)). induction l as [|a r IH]; intros s s' H; simpl in H.
    + inversion H; auto.
    + match type of H with (if ?b then _ else _) = _ => destruct b end; [discriminate|].
      rewrite (IH _ _ H). reflexivity.
  - destruct (input_is_borrowed fin (p_id p)); [discriminate|]. inversion H; auto.
  - inversion H. destruct (assign_leaves_fields (leaves (p_tree p)) s) as [_ [_ [_ [D _]]]]. exact D.
  - discriminate.
Qed.

Lemma run_events_pul : forall x es t0 s sf t t', run_events fin s es = Ok sf -> eventsK K es -> R K t0 s t ->
  scopeK K s -> sem_events fin t es = Fine t' -> K x <> KCopy -> t0 x = false ->
  In x (s_pul sf) -> In x (s_pul s).
Proof.
  intros x. induction es as [|e r IH]; intros t0 s sf t t' Hrun HKe HR HS Hsem Kx T0 Hin; simpl in *.
  - inversion Hrun; subst; auto.
  - destruct (step_event fin s e) as [s1|] eqn:E; [|discriminate].
    destruct (sem_event fin t e) as [t1|] eqn:E2; [|discriminate].
    assert (HKe1 : leavesK K (event_place e)) by (apply HKe; simpl; auto).
    destruct (step_event_R K fin e t0 s s1 t t1 E HKe1 HR HS E2) as [A B].
    assert (Hin1 : In x (s_pul s1)).
    { eapply IH; eauto. intros e' H. apply HKe. simpl. auto. }
    destruct e as [p k | p | p | p | e0]; try (rewrite (step_event_pul_eq _ _ _ E) in Hin1; [exact Hin1 | intros; discriminate]).
    simpl in E, E2. destruct (p_inout p && negb (is_borrow k)); [discriminate|].
    eapply use_leaves_pul; eauto.
Qed.

(** (c) a place that is read later, reached without its token *)
Lemma dead_token_bad : forall x, K x <> KCopy -> forall n, live_on_path false (stats_cfg c ss) x n ->
  forall t, reachc n t -> n < N -> t x = false -> violated.
Proof.
  intros x Kx n Hl. assert (Hlen : length ss = N) by (eapply len1; eauto).
  induction Hl as [n Hn Hu | n m Hn Hd Hm Hl IH]; intros t Hr Hb Tx.
  - rewrite (stats_blk c ss n Hlen Hb) in Hu. simpl in Hu.
    destruct (Nat.eq_dec n (c_exit c)) as [Hex | Hex].
    + (* the borrowed leaf is not handed back *)
      subst n. right.
      destruct (reachc_extend _ _ Hr [] 0 (Fine t) I) as [rest [A [B C]]].
      * simpl. unfold block_start. destruct HW as [_ [_ [Wn _]]].
        assert (Nat.eqb (c_exit c) (c_entry c) = false) by (apply Nat.eqb_neq; auto). rewrite H. reflexivity.
      * exists rest, 0, t. repeat split; auto. intros Hf. destruct (Hf x Kx) as [F _].
        rewrite F in Tx; [discriminate|]. eapply exit_up; eauto.
    + rewrite (sf_eq n Hex) in Hu. left.
      destruct (run_block n t Hb Hr) as [Hbad | [t' [Hs [HR HS]]]]; [exact Hbad|]. exfalso.
      destruct (start_R n t Hb) as [R0 [S0 [_ [_ Hnil]]]]. destruct (blockK' n Hb) as [_ KE].
      destruct (block_ext n Hb) as [_ [Iup _]]. rewrite Iup in Hu.
      pose proof (run_events_pul x (evs n) t _ _ _ t' (block_run c ss0 H1 n Hb) KE R0 S0 Hs Kx Tx Hu) as Hin.
      unfold init_scope in Hin. destruct (Nat.eqb n (c_entry c)); simpl in Hin; exact Hin.
  - unfold flow_succ in Hm. rewrite (stats_blk c ss n Hlen Hb) in Hd, Hm. simpl in Hd, Hm.
    rewrite app_nil_r in Hm.
    assert (Hex : n <> c_exit c).
    { intros E. subst n. destruct HW as [_ [Ws _]]. rewrite Ws in Hm. destruct Hm. }
    rewrite (sf_eq n Hex) in Hd.
    destruct (run_block n t Hb Hr) as [Hbad | [t' [Hs [HR HS]]]]; [left; exact Hbad|].
    assert (Hv : has_leaf x (s_vars (nth_scope ss0 n)) = false).
    { destruct (has_leaf x (s_vars (nth_scope ss0 n))) eqn:E; auto. exfalso. apply Hd.
      apply has_leaf_true in E. destruct E as [l [A B]]. apply in_map_iff. exists l. auto. }
    apply (IH t').
    + eapply rc_step; eauto.
    + eapply succ_lt; eauto.
    + rewrite (proj2 (HR x Kx) Hv), Tx. reflexivity.
Qed.


Lemma check_dataflow_rej : forall fx bs k,
  match check_dataflow fx c ss L k bs with
  | RejUsed b xs => exists j blk, b = k + j /\ nth_error bs j = Some blk /\
      check1 (nth_scope ss b) L (lb_succ blk) = Some xs /\ xs <> []
  | RejUnused b xs => exists j blk, b = k + j /\ nth_error bs j = Some blk /\
      check1 (nth_scope ss b) L (lb_succ blk) = Some [] /\
      check2 fx (nth_scope ss b) L b (lb_succ blk) = xs /\ xs <> []
  | _ => True
  end.
Proof.
  intros fx. induction bs as [|blk r IH]; intros k; simpl; auto.
  destruct (check1 (nth_scope ss k) L (lb_succ blk)) as [[|x xs]|] eqn:E1; auto.
  - destruct (check2 fx (nth_scope ss k) L k (lb_succ blk)) as [|y ys] eqn:E2.
    + destruct (row_ok c (nth_scope ss k) L k); auto.
      specialize (IH (S k)). destruct (check_dataflow fx c ss L (S k) r); auto.
      * destruct IH as [j [b' [A B]]]. exists (S j), b'. split; [lia|]. exact B.
      * destruct IH as [j [b' [A B]]]. exists (S j), b'. split; [lia|]. exact B.
    + exists 0, blk. rewrite Nat.add_0_r. repeat split; auto. discriminate.
  - exists 0, blk. rewrite Nat.add_0_r. repeat split; auto. discriminate.
Qed.

Hypothesis HG : forall b, b < N -> greach b.

(** (c) used here, still needed later *)
Theorem complete_used : forall fx b xs, check_dataflow fx c ss L 0 (c_blocks c) = RejUsed b xs -> violated.
Proof.
  intros fx b xs H. pose proof (check_dataflow_rej fx (c_blocks c) 0) as P. rewrite H in P.
  destruct P as [j [blk [A [B [C1 Hne]]]]]. simpl in A. subst j.
  destruct (nth_error_block _ _ B) as [Hb Eb]. subst blk.
  destruct xs as [|x xs]; [congruence|]. clear Hne.
  unfold check1 in C1.
  destruct (forallb (fun x => match lookup (nth_scope ss b) x with Some _ => true | None => false end)
                    (flat_map (getv L) (succs b))); [|discriminate].
  inversion C1 as [C1']. clear C1.
  assert (Hx : In x (filter (fun x => match lookup (nth_scope ss b) x, used (nth_scope ss b) x with
                              | Some l, Some true => negb (is_copy (l_kind l))
                              | _, _ => false end) (flat_map (getv L) (succs b)))) by (rewrite C1'; simpl; auto).
  apply filter_In in Hx. destruct Hx as [Hfl Hp]. apply in_flat_map in Hfl. destruct Hfl as [n [Hn Hxn]].
  assert (Hex : b <> c_exit c).
  { intros E. subst b. destruct HW as [_ [Ws _]]. rewrite Ws in Hn. destruct Hn. }
  rewrite (sf_eq b Hex) in Hp.
  destruct (greach_reachc b (HG b Hb)) as [Hbad | [t Hr]]; [left; exact Hbad|].
  destruct (run_block b t Hb Hr) as [Hbad | [t' [Hs [HR HS]]]]; [left; exact Hbad|].
  destruct (lookup (nth_scope ss0 b) x) as [l|] eqn:El; [|discriminate].
  destruct (used (nth_scope ss0 b) x) as [[|]|] eqn:Eu; try discriminate.
  assert (Kx : K x <> KCopy).
  { destruct (lookup_cases _ _ _ El) as [[_ [Hin [Hid _]]] | [_ [_ [Hin [Hid _]]]]].
    - destruct HS as [SK _]. rewrite <- Hid, <- (SK l Hin). destruct (l_kind l); simpl in Hp; congruence.
    - destruct HS as [_ SK]. rewrite <- Hid, <- (SK l Hin). destruct (l_kind l); simpl in Hp; congruence. }
  assert (Hn' : n < N) by (eapply succ_lt; eauto).
  apply (dead_token_bad x Kx n (live_path n x Hn' Hxn) t').
  - eapply rc_step; eauto.
  - exact Hn'.
  - eapply used_true_empty; eauto.
Qed.

(** (d) a linear token that nobody will read *)
Lemma use_leaves_ext : forall ls s s', use_leaves s ls = Ok s' -> ext s s'.
Proof.
  induction ls as [|a r IHr]; intros s0 s' H; simpl in H.
  - inversion H. apply ext_refl.
  - destruct (used s0 (l_id a)); [|discriminate].
    destruct (b && negb (is_copy (l_kind a))); [discriminate|].
    destruct (use_leaf s0 (l_id a)) eqn:E; [|discriminate].
    eapply ext_trans; [eapply use_leaf_ext; eauto | eapply IHr; eauto].
Qed.

Lemma use_leaves_vars : forall ls s s', use_leaves s ls = Ok s' -> s_vars s' = s_vars s.
Proof.
  induction ls as [|a r IHr]; intros s0 s' H; simpl in H.
  - inversion H. reflexivity.
  - destruct (used s0 (l_id a)); [|discriminate].
    destruct (b && negb (is_copy (l_kind a))); [discriminate|].
    destruct (use_leaf s0 (l_id a)) as [s1|] eqn:E; [|discriminate].
    rewrite (IHr _ _ H). unfold use_leaf in E.
    destruct (has_leaf (l_id a) (s_vars s0)); [inversion E; reflexivity|].
    destruct (s_entry s0); [discriminate|]. destruct (has_leaf (l_id a) (s_pvars s0)); [|discriminate].
    inversion E; reflexivity.
Qed.

Lemma use_leaves_marks : forall ls s s', use_leaves s ls = Ok s' ->
  forall l, In l ls -> has_leaf (l_id l) (s_vars s') = true \/ In (l_id l) (s_pul s').
Proof.
  induction ls as [|a r IHr]; intros s0 s' H l Hl; [destruct Hl|]. simpl in H.
  destruct (used s0 (l_id a)); [|discriminate].
  destruct (b && negb (is_copy (l_kind a))); [discriminate|].
  destruct (use_leaf s0 (l_id a)) as [s1|] eqn:E; [|discriminate].
  destruct Hl as [Hl | Hl]; [subst a | eapply IHr; eauto].
  destruct (use_leaves_ext _ _ _ H) as [E1 [_ [E3 _]]].
  unfold use_leaf in E. destruct (has_leaf (l_id l) (s_vars s0)) eqn:Hv.
  - inversion E; subst s1. left. apply E1. exact Hv.
  - destruct (s_entry s0); [discriminate|]. destruct (has_leaf (l_id l) (s_pvars s0)); [|discriminate].
    inversion E; subst s1. right. apply E3. simpl. auto.
Qed.

Lemma assign_leaves_has : forall x ls s, has_leaf x (s_vars (assign_leaves s ls)) = true ->
  has_leaf x (s_vars s) = true \/ exists l, In l ls /\ l_id l = x.
Proof.
  intros x. unfold assign_leaves. induction ls as [|l r IH]; intros s H; simpl in H; auto.
  destruct (IH _ H) as [Hq | [l' [A B]]].
  - simpl in Hq. rewrite has_leaf_cons in Hq. destruct (Nat.eqb (l_id l) x) eqn:E.
    + apply Nat.eqb_eq in E. right. exists l. simpl. auto.
    + simpl in Hq. rewrite has_leaf_remove in Hq; auto. apply Nat.eqb_neq in E. auto.
  - right. exists l'. simpl. auto.
Qed.

Lemma assign_checked_fresh : forall x ls t0 s s1 t t1, assign_leaves_checked s ls = Ok s1 ->
  sem_assign t ls = Fine t1 -> leavesK K ls -> R K t0 s t -> K x = KLinear -> t0 x = true ->
  ~ In x (s_pul s) -> has_leaf x (s_vars s) = false -> has_leaf x (s_vars s1) = false.
Proof.
  intros x. induction ls as [|l r IH]; intros t0 s s1 t t1 Hrun Hsem HKl HR Kx T0 Hnp Hv; simpl in *.
  - inversion Hrun; subst; auto.
  - assert (Hl : l_kind l = K (l_id l)) by (apply HKl; simpl; auto).
    assert (HK' : leavesK K r) by (intros l' H; apply HKl; simpl; auto).
    match type of Hrun with (if ?b then _ else _) = _ => destruct b end; [discriminate|].
    pose proof (assign_leaf_R K t0 s t l Hl HR) as HR1.
    destruct (Nat.eq_dec (l_id l) x) as [E | E].
    + exfalso. subst x. rewrite Hl, Kx in Hsem. simpl in Hsem.
      assert (Kc : K (l_id l) <> KCopy) by congruence.
      rewrite (proj2 (HR _ Kc) Hv), T0 in Hsem. apply memb_false in Hnp. rewrite Hnp in Hsem. discriminate.
    + assert (Hv1 : has_leaf x (s_vars (assign_leaf s l)) = false).
      { simpl. rewrite has_leaf_cons. apply Nat.eqb_neq in E. rewrite E. simpl. rewrite has_leaf_remove; auto.
        apply Nat.eqb_neq in E. auto. }
      destruct (is_copy (l_kind l)).
      * eapply IH; eauto.
      * destruct (t (l_id l) && is_linear (l_kind l)); [discriminate|]. eapply IH; eauto.
Qed.

Lemma def_needs_empty : forall x es B t0 s sf t t', run_events fin s es = Ok sf -> eventsK K es ->
  R K t0 s t -> scopeK K s -> sem_events fin t es = Fine t' -> reassign_wf B es ->
  (forall y, In y B -> has_leaf y (s_vars s) = true \/ In y (s_pul s)) ->
  K x = KLinear -> t0 x = true -> has_leaf x (s_vars s) = false -> ~ In x (s_pul sf) ->
  has_leaf x (s_vars sf) = false.
Proof.
  intros x. induction es as [|e r IH]; intros B t0 s sf t t' Hrun HKe HR HS Hsem HB Hinv Kx T0 Hv Hnp; simpl in *.
  - inversion Hrun; subst; auto.
  - destruct (step_event fin s e) as [s1|] eqn:E; [|discriminate].
    destruct (sem_event fin t e) as [t1|] eqn:E2; [|discriminate].
    assert (HKe1 : leavesK K (event_place e)) by (apply HKe; simpl; auto).
    assert (HK' : eventsK K r) by (intros e' H; apply HKe; simpl; auto).
    destruct (step_event_R K fin e t0 s s1 t t1 E HKe1 HR HS E2) as [HR1 HS1].
    pose proof (step_event_ext fin e s s1 E) as X01.
    pose proof (run_events_ext fin r s1 sf Hrun) as X1f.
    assert (Hnp1 : ~ In x (s_pul s1)).
    { intros H. apply Hnp. destruct X1f as [_ [_ [I3 _]]]. apply I3. exact H. }
    assert (Hnp0 : ~ In x (s_pul s)).
    { intros H. apply Hnp1. destruct X01 as [_ [_ [I3 _]]]. apply I3. exact H. }
    assert (Hinv1 : forall y, In y B -> has_leaf y (s_vars s1) = true \/ In y (s_pul s1)).
    { intros y Hy. destruct X01 as [I1 [_ [I3 _]]]. destruct (Hinv y Hy); auto. }
    destruct e as [p k | p | p | p | e0]; simpl in E, E2, HKe1.
    + destruct (p_inout p && negb (is_borrow k)); [discriminate|].
      assert (Hv1 : has_leaf x (s_vars s1) = false) by (rewrite (use_leaves_vars _ _ _ E); exact Hv).
      destruct k; try (eapply (IH B); eauto; fail).
      eapply (IH (map l_id (leaves (p_tree p)) ++ B)); eauto.
      intros y Hy. apply in_app_or in Hy. destruct Hy as [Hy | Hy]; auto.
      apply in_map_iff in Hy. destruct Hy as [l [A Hl]]. subst y. eapply use_leaves_marks; eauto.
    + match type of E with (if ?b then _ else _) = _ => destruct b end; [discriminate|].
      eapply (IH B); eauto. eapply assign_checked_fresh; eauto.
    + destruct (input_is_borrowed fin (p_id p)); [discriminate|]. inversion E; subst s1.
      eapply (IH B); eauto.
    + destruct HB as [HB1 HB2]. inversion E; subst s1.
      eapply (IH B); eauto.
      destruct (has_leaf x (s_vars (assign_leaves s (leaves (p_tree p))))) eqn:Hh; auto. exfalso.
      destruct (assign_leaves_has _ _ _ Hh) as [H | [l [A Bx]]]; [congruence|].
      subst x. destruct (Hinv _ (HB1 l A)) as [H | H]; [congruence | contradiction].
    + discriminate.
Qed.

Hypothesis HRW : forall blk, In blk (c_blocks c) -> reassign_wf [] (lb_events blk).

Lemma not_live : forall b x, b < N -> ~ In x (getv L b) ->
  ~ In x (s_up (nth_scope ss b)) /\
  (has_leaf x (s_vars (nth_scope ss b)) = true \/ forall n, In n (succs b) -> ~ In x (getv L n)).
Proof.
  intros b x Hb Hn. split.
  - intros H. apply Hn. eapply (live_eq' c sched ss0 ss); eauto.
  - destruct (has_leaf x (s_vars (nth_scope ss b))) eqn:Hv; auto. right. intros n Hin Hx. apply Hn.
    eapply (live_eq' c sched ss0 ss); eauto. right. split.
    + intros Hd. apply in_map_iff in Hd. destruct Hd as [l [A B]].
      assert (has_leaf x (s_vars (nth_scope ss b)) = true) by (apply has_leaf_true; eauto). congruence.
    + exists n. auto.
Qed.

Lemma leak_bad : forall x, K x = KLinear -> forall n, reaches_exit c n ->
  forall t, reachc n t -> n < N -> t x = true -> ~ In x (getv L n) -> violated.
Proof.
  intros x Kx n Hre. assert (Kc : K x <> KCopy) by congruence.
  induction Hre as [|n m Hm Hre IH]; intros t Hr Hb Tx Hnl.
  - right.
    destruct (reachc_extend _ _ Hr [] 0 (Fine t) I) as [rest [A [B C]]].
    + simpl. unfold block_start. destruct HW as [_ [_ [Wn _]]].
      assert (Nat.eqb (c_exit c) (c_entry c) = false) by (apply Nat.eqb_neq; auto). rewrite H. reflexivity.
    + exists rest, 0, t. repeat split; auto. intros Hf. destruct (Hf x Kc) as [_ F].
      apply Hnl. eapply (live_eq' c sched ss0 ss); eauto. left. eapply exit_up; eauto.
  - assert (Hex : n <> c_exit c).
    { intros E. subst n. destruct HW as [_ [Ws _]]. rewrite Ws in Hm. destruct Hm. }
    destruct (not_live n x Hb Hnl) as [Hnu Hcase]. rewrite (sf_eq n Hex) in Hnu, Hcase.
    destruct (run_block n t Hb Hr) as [Hbad | [t' [Hs [HR HS]]]]; [left; exact Hbad|].
    destruct (block_ext n Hb) as [_ [Iup _]]. rewrite Iup in Hnu.
    destruct (start_R n t Hb) as [R0 [S0 [_ [_ Hnil]]]]. destruct (blockK' n Hb) as [_ KE].
    assert (Hne : Nat.eqb n (c_entry c) = false).
    { destruct (Nat.eqb n (c_entry c)) eqn:Ee; auto. apply Nat.eqb_eq in Ee.
      rewrite (reachc_entry_empty n t Hr Ee) in Tx. discriminate. }
    destruct (Hnil Hne) as [V0 P0].
    assert (Hv : has_leaf x (s_vars (nth_scope ss0 n)) = false).
    { apply (def_needs_empty x (evs n) [] t _ (nth_scope ss0 n) (block_start c n t) t'
               (block_run c ss0 H1 n Hb) KE R0 S0 Hs (HRW _ (nth_In _ _ Hb))); auto.
      rewrite V0. reflexivity. }
    destruct Hcase as [Hc | Hc]; [congruence|].
    assert (Hm' : m < N) by (eapply succ_lt; eauto).
    apply (IH t').
    + eapply rc_step; eauto.
    + exact Hm'.
    + rewrite (proj2 (HR x Kc) Hv), Tx. apply memb_false in Hnu. rewrite Hnu. reflexivity.
    + apply Hc. exact Hm.
Qed.

Hypothesis HEX : forall b, b < N -> reaches_exit c b.

Theorem complete_unused : forall b xs, check_dataflow true c ss L 0 (c_blocks c) = RejUnused b xs -> violated.
Proof.
  intros b xs H. pose proof (check_dataflow_rej true (c_blocks c) 0) as P. rewrite H in P.
  destruct P as [j [blk [A [B [C1 [C2 Hne]]]]]]. simpl in A. subst j.
  destruct (nth_error_block _ _ B) as [Hb Eb]. subst blk.
  destruct xs as [|x xs]; [congruence|]. clear Hne.
  assert (Hx : In x (check2 true (nth_scope ss b) L b (succs b))) by (rewrite C2; simpl; auto).
  unfold check2 in Hx. apply in_map_iff in Hx. destruct Hx as [l [Hid Hl]]. apply filter_In in Hl.
  destruct Hl as [Hent Hp]. rewrite Hid in Hp.
  apply andb_true_iff in Hp. destruct Hp as [Hp Hp4]. apply andb_true_iff in Hp. destruct Hp as [Hp Hp3].
  apply andb_true_iff in Hp. destruct Hp as [Hp1 Hp2].
  (* a successor in which x is not live *)
  apply negb_true_iff in Hp4.
  assert (Hsucc : exists n, In n (succs b) /\ ~ In x (getv L n)).
  { clear - Hp4. induction (succs b) as [|a r IH]; simpl in Hp4; [discriminate|].
    apply andb_false_iff in Hp4. destruct Hp4 as [H | H].
    - exists a. split; simpl; auto. apply memb_false. exact H.
    - destruct (IH H) as [n [A B]]. exists n. simpl. auto. }
  destruct Hsucc as [n [Hn Hnl]].
  assert (Hex : b <> c_exit c).
  { intros E. subst b. destruct HW as [_ [Ws _]]. rewrite Ws in Hn. destruct Hn. }
  rewrite (sf_eq b Hex) in Hent, Hp1, Hp3.
  destruct (greach_reachc b (HG b Hb)) as [Hbad | [t Hr]]; [left; exact Hbad|].
  destruct (run_block b t Hb Hr) as [Hbad | [t' [Hs [HR HS]]]]; [left; exact Hbad|].
  set (sf := nth_scope ss0 b) in *.
  assert (Hn' : n < N) by (eapply succ_lt; eauto).
  unfold scope_entries in Hent. apply in_app_or in Hent.
  assert (Hfull : K x = KLinear /\ (t' x = true \/ violated)).
  { destruct Hent as [Hin | Hin].
    - assert (Hv : has_leaf x (s_vars sf) = true) by (apply has_leaf_true; eauto).
      destruct HS as [SK _]. assert (Kx : K x = KLinear).
      { rewrite <- Hid, <- (SK l Hin). destruct (l_kind l); simpl in Hp2; congruence. }
      split; auto. left. assert (Kc : K x <> KCopy) by congruence.
      rewrite (proj1 (HR x Kc) Hv). unfold used in Hp3. rewrite Hv in Hp3. exact Hp3.
    - apply filter_In in Hin. destruct Hin as [Hin Hsh]. rewrite Hid in Hsh. apply negb_true_iff in Hsh.
      destruct HS as [_ SK]. assert (Kx : K x = KLinear).
      { rewrite <- Hid, <- (SK l Hin). destruct (l_kind l); simpl in Hp2; congruence. }
      split; auto. assert (Kc : K x <> KCopy) by congruence.
      rewrite Hsh, orb_false_r in Hp1. apply memb_In in Hp1.
      destruct (t x) eqn:Tx.
      + left. rewrite (proj2 (HR x Kc) Hsh), Tx. unfold used in Hp3. rewrite Hsh in Hp3.
        destruct (s_entry sf); [discriminate|]. destruct (has_leaf x (s_pvars sf)); [|discriminate].
        simpl. exact Hp3.
      + right. apply (dead_token_bad x Kc b (live_path b x Hb Hp1) t Hr Hb Tx). }
  destruct Hfull as [Kx [Tx | Hv]]; [|exact Hv].
  apply (leak_bad x Kx n (HEX n Hn') t'); auto. eapply rc_step; eauto.
Qed.

End Global.

Lemma err_eq_crash : forall e : err, e = ErrCrash \/ e <> ErrCrash.
Proof. intros []; auto; right; discriminate. Qed.

Lemma check_dataflow_no_block : forall fx c ss Lv bs k b e, check_dataflow fx c ss Lv k bs <> RejBlock b e.
Proof.
  intros fx c ss Lv. induction bs as [|blk r IH]; intros k b e; simpl; [discriminate|].
  destruct (check1 (nth_scope ss k) Lv (lb_succ blk)) as [[|x xs]|]; try discriminate.
  destruct (check2 fx (nth_scope ss k) Lv k (lb_succ blk)); try discriminate.
  destruct (row_ok c (nth_scope ss k) Lv k); [apply IH | discriminate].
Qed.

Definition crashed (v : verdict) : Prop := (exists b, v = Crash b) \/ (exists b, v = RejBlock b ErrCrash).

Definition events_wf (c : lcfg) : Prop :=
  forall blk, In blk (c_blocks c) -> shadow_wf (lb_events blk) /\ reassign_wf [] (lb_events blk).
Definition all_reach (c : lcfg) : Prop :=
  forall b, b < length (c_blocks c) -> greach c b /\ reaches_exit c b.

Lemma lin_complete_lemma : forall c sched K, uniform K c -> wf_shape c -> io_ok c -> events_wf c ->
  c_exit_reachable c = true -> all_reach c -> ~ violated K c ->
  check_cfg true c sched = Accept \/ crashed (check_cfg true c sched).
Proof.
  intros c sched K HK HW HIO HE HER HR HV. unfold check_cfg.
  destruct (check_blocks (c_inputs c) (c_entry c) 0 (c_blocks c)) as [ss0 | [b e]] eqn:E1.
  - destruct (exit_used c ss0) as [ss|] eqn:E2; [|right; left; eauto].
    destruct (wf_cfg (stats_cfg c ss) && (c_exit c <? length (c_blocks c)) && (c_entry c <? length (c_blocks c))) eqn:E3;
      [|right; left; eauto].
    apply andb_true_iff in E3. destruct E3 as [E3 E5]. apply andb_true_iff in E3. destruct E3 as [E3 E4].
    apply Nat.ltb_lt in E4. apply Nat.ltb_lt in E5.
    destruct (check_dataflow true c ss (live_of c ss sched) 0 (c_blocks c)) as [ | b e | b xs | b xs | b] eqn:E6.
    + left. reflexivity.
    + exfalso. eapply check_dataflow_no_block; eauto.
    + exfalso. apply HV. eapply (complete_used K c HK HW HIO) with (ss0 := ss0) (ss := ss) (sched := sched); eauto.
      intros b0 Hb0. apply HR. exact Hb0.
    + exfalso. apply HV. eapply (complete_unused K c HK HW HIO) with (ss0 := ss0) (ss := ss) (sched := sched); eauto.
      * intros b0 Hb0. apply HR. exact Hb0.
      * intros blk Hb. apply HE. exact Hb.
      * intros b0 Hb0. apply HR. exact Hb0.
    + right. left. eauto.
  - destruct (err_eq_crash e) as [Ec | Ec]; [subst e; right; right; eauto|].
    exfalso. apply HV. left.
    destruct (check_blocks_err c _ _ _ _ E1) as [j [blk [A [B C]]]]. simpl in A. subst j.
    assert (Hb : b < length (c_blocks c)) by (apply nth_error_Some; congruence).
    eapply complete_blocks with (K := K); eauto.
    + intros blk0 Hb0. apply HE. exact Hb0.
    + apply HR. exact Hb.
Qed.
