(** V.C06.ProofsHyps — the executable hypothesis checks imply the hypotheses. *)
From Coq Require Import List Bool Arith Lia.
From V.C09 Require Import Analysis SetLemmas.
From V.C06 Require Import Linearity Token Hyps.
Import ListNotations.

Lemma kind_eqb_eq : forall a b, kind_eqb a b = true -> a = b.
Proof. intros [] []; simpl; congruence. Qed.

Lemma uniformb_sound : forall c, uniformb c = true -> uniform (K_of (all_leaves c)) c.
Proof.
  intros c H l Hl. unfold uniformb in H. rewrite forallb_forall in H.
  apply kind_eqb_eq. apply H. exact Hl.
Qed.

Lemma wf_shapeb_sound : forall c, wf_shapeb c = true -> wf_shape c.
Proof.
  intros c H. unfold wf_shapeb in H.
  apply andb_true_iff in H. destruct H as [H D]. apply andb_true_iff in H. destruct H as [H C].
  apply andb_true_iff in H. destruct H as [A B].
  unfold wf_shape. repeat split.
  - destruct (lb_events (nth_block c (c_exit c))); [reflexivity | discriminate].
  - destruct (lb_succ (nth_block c (c_exit c))); [reflexivity | discriminate].
  - apply negb_true_iff in C. apply Nat.eqb_neq in C. exact C.
  - intros b Hb. rewrite forallb_forall in D.
    destruct (Nat.lt_ge_cases b (length (c_blocks c))) as [Hlt | Hge].
    + assert (Hin : In (nth_block c b) (c_blocks c)) by (apply nth_In; exact Hlt).
      specialize (D _ Hin). apply negb_true_iff in D. apply memb_false in D. contradiction.
    + unfold nth_block in Hb. rewrite nth_overflow in Hb by exact Hge. destruct Hb.
Qed.

From V.C06 Require Import ProofsComplete.

Lemma shadow_wfb_sound : forall es, shadow_wfb es = true -> shadow_wf es.
Proof.
  induction es as [|e r IH]; intros H; simpl in *; auto.
  apply andb_true_iff in H. destruct H as [A B]. split; [|apply IH; exact B].
  destruct e; auto. apply existsb_exists in A. destruct A as [e' [Hin He]].
  destruct e'; try discriminate. apply Nat.eqb_eq in He. eauto.
Qed.

Lemma reassign_wfb_sound : forall es B, reassign_wfb B es = true -> reassign_wf B es.
Proof.
  induction es as [|e r IH]; intros B H; simpl in *; auto.
  destruct e as [p k | p | p | p | e]; auto.
  - destruct k; auto.
  - apply andb_true_iff in H. destruct H as [A C]. split; [|apply IH; exact C].
    rewrite forallb_forall in A. intros l Hl. apply memb_In. apply A. exact Hl.
Qed.

Lemma events_wfb_sound : forall c, events_wfb c = true -> events_wf c.
Proof.
  intros c H blk Hb. unfold events_wfb in H. rewrite forallb_forall in H. specialize (H _ Hb).
  apply andb_true_iff in H. destruct H. split; [apply shadow_wfb_sound | apply reassign_wfb_sound]; auto.
Qed.

Lemma io_okb_sound : forall c, io_okb c = true -> io_ok c.
Proof.
  intros c H l Hl Hio. unfold io_okb in H. rewrite forallb_forall in H. specialize (H _ Hl).
  rewrite Hio in H. exact H.
Qed.
