From Coq Require Import List Bool Arith String.
From V.C05 Require Import ModelOrderEdges ModelRun ModelEffects GenEffects.
Import ListNotations.
Definition enc (r : option report) := match r with
 | None => (false, (@nil (nat*nat), @nil (nat * (list (nat*nat) * list (nat*nat))), (false, false, false)))
 | Some x => (true, (rp_edges x, rp_regions x, (rp_wf x, rp_disc x, rp_local x))) end.
Definition sg := [SPlain [mkIns 0 KFuncDefn false; mkIns 1 KInput false; mkIns 1 KOutput false]; SCtx [mkIns 1 KCond false; mkIns 4 KDf false; mkIns 5 KInput false; mkIns 5 KOutput false; mkIns 4 KOp false; mkIns 5 KOp true; mkIns 5 KOp false; mkIns 5 KOp false; mkIns 5 KOp false; mkIns 5 KOp false; mkIns 5 KOp true; mkIns 5 KOp false; mkIns 0 KFuncDefn false; mkIns 16 KInput false; mkIns 16 KOutput false; mkIns 5 KOp false; mkIns 5 KOp false; mkIns 5 KOp false; mkIns 5 KOp true; mkIns 5 KOp true; mkIns 5 KOp false; mkIns 0 KFuncDefn false; mkIns 25 KInput false; mkIns 25 KOutput false; mkIns 5 KOp true; mkIns 5 KOp false; mkIns 5 KOp false; mkIns 5 KOp true; mkIns 5 KOp false; mkIns 5 KOp false; mkIns 5 KOp false; mkIns 5 KOp false; mkIns 5 KOp false; mkIns 5 KOp false; mkIns 5 KOp true; mkIns 5 KOp false; mkIns 0 KFuncDefn false; mkIns 40 KInput false; mkIns 40 KOutput false; mkIns 5 KOp true; mkIns 5 KOp true; mkIns 5 KOp true; mkIns 5 KOp false; mkIns 5 KOp true; mkIns 5 KOp true; mkIns 5 KOp false; mkIns 5 KOp true; mkIns 5 KOp false]; SCtx [mkIns 40 KCond false; mkIns 52 KDf false; mkIns 53 KInput false; mkIns 53 KOutput false; mkIns 52 KOp false; mkIns 53 KOp false; mkIns 53 KOp false; mkIns 53 KOp false; mkIns 53 KOp false]; SCtx [mkIns 25 KCond false; mkIns 61 KDf false; mkIns 62 KInput false; mkIns 62 KOutput false; mkIns 61 KOp false; mkIns 62 KOp true; mkIns 62 KOp false; mkIns 62 KOp false; mkIns 62 KOp false]; SCtx [mkIns 16 KCond false; mkIns 70 KDf false; mkIns 71 KInput false; mkIns 71 KOutput false; mkIns 70 KOp false; mkIns 71 KOp true; mkIns 71 KOp false; mkIns 71 KOp false; mkIns 71 KOp false; mkIns 71 KOp false; mkIns 71 KOp false]].

Definition c1 := match sg with _ :: SCtx c :: _ => c | _ => [] end.
Definition p0 := match sg with SPlain c :: _ => c | _ => [] end.
Time Definition s0 := Eval vm_compute in (match add_plain_all p0 init with Some s => s | None => init end).
Time Definition a1 := Eval vm_compute in (add_all c1 s0).
Definition s1 := match a1 with Some s => s | None => init end.
Time Definition f1 := Eval vm_compute in (finish s1).
Definition s2 := match f1 with Some s => s | None => init end.
Time Eval vm_compute in (local_ok s0 s2).
Time Eval vm_compute in (wf (nodes s2)).
Time Eval vm_compute in (disciplined (nodes s2)).
Time Eval vm_compute in (map (fun p => expected_edges (nodes s2) p) (regions (nodes s2))).
Time Eval vm_compute in (map (fun p => region_edges s2 p) (regions (nodes s2))).
