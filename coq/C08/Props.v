(** V.C08.Props — the property theorems of C08 (statements only; proofs in Proofs*.v).
    For every finite event-level CFG [g] that is well formed ([wf_ecfg]: successor indices are
    blocks, the entry block has no predecessor — checked by the harness for every CFG of the
    real builder), every typing [E0] of the inputs, every set [glob] of global names and every
    pair of work-list schedules [s1 s2] of the two dataflow analyses. *)
From Coq Require Import List Bool Arith.
From V.C09 Require Import Analysis Spec.
From V.C08 Require Import CfgCheck Spec ProofsBase ProofsCheck.
Import ListNotations.

(** [undef_sound]: whatever undefined-variable error check_cfg raises, and whichever of the
    candidate (wording, variable, use) triples the user is shown, the variable is one the checker
    must find in scope, and that use of it is reached from the entry by a path (real or dummy
    edges, predicate values ignored) on which it is never assigned. *)
Theorem undef_sound_sites : forall g E0 glob s1 s2 e, wf_ecfg g ->
  check_cfg g E0 glob s1 s2 = Rej e ->
  match e with
  | EntryUndef x => needs_def (analyze g (keys E0) glob s1 s2) x = true /\ undef_use g E0 x 0
  | SuccUndef p s xs => xs <> [] /\ forall x, In x xs ->
      needs_def (analyze g (keys E0) glob s1 s2) x = true /\
      lookup x E0 = None /\ reach_nodef g x s /\ live_at g x s
  | RowMismatch p s xs => xs <> [] /\ forall x, In x xs -> ty_conflict g E0 x s
  | RowKeyError _ _ => False
  | OutOfFuel => True
  end.
Proof.
  intros g E0 glob s1 s2 e W H. pose proof (check_cfg_sound g E0 glob s1 s2 W e H) as K.
  destruct e; simpl in *; tauto.
Qed.
Print Assumptions undef_sound_sites.
