(** V.C08.Props — the property theorems of C08 (statements; proofs in Proofs*.v).

    Quantification: every finite CFG [g] of per-block ordered variable events (arbitrary real
    and dummy successor lists, loops, unreachable blocks) that is well formed ([wf_ecfg]: at
    least the entry block, successor indices are blocks, the entry block has no predecessor —
    checked by the harness on every CFG the real builder produces), every typing [E0] of the
    inputs (parameters and captured variables), every set [glob] of global names, and every
    pair of work-list schedules [s1 s2] of the two dataflow analyses (C09).
    [check_cfg] is the executable model of check_cfg / check_bb / check_rows_match
    (CfgCheck.v) of the code after fix-1.patch; the specification side (Spec.v: [undef_use],
    [ty_conflict], [reach_nodef], [reach_env], [live_at]) talks about paths only. *)
From Coq Require Import ZArith List Bool Arith Lia.
From V.C03 Require Import PyAst Builder.
From V.C09 Require Import Analysis Spec.
From V.C08 Require Import CfgCheck Spec ProofsBase ProofsCheck ProofsExact ProofsClosed ProofsTop
  Bridge ProofsBridgeA ProofsBridgeB ProofsBridgeC ProofsBridgeD ProofsBridgeE ProofsBridgeF ProofsBridgeG.
Import ListNotations.

Notation facts_of g E0 glob s1 s2 := (analyze g (keys E0) glob s1 s2).

(** compute_variable_stats: `used` = the names read before any assignment of the block,
    `assigned` = the names assigned in the block. *)
Theorem stats_exact : forall evs x,
  (In x (used_of evs) <-> reads_first x evs) /\ (In x (assigned_of evs) <-> assigns x evs).
Proof. intros. split; [apply used_char|apply assigned_char]. Qed.
Print Assumptions stats_exact.

(** [undef_exact], program level: the model raises a not-defined / maybe-not-defined error
    iff some path (real or dummy edges, predicate values ignored) from the entry reaches a
    read of a variable that must be in scope without assigning it.  Such an error is always
    raised by the tests of the ENTRY block, before any type comparison: a program with an
    undefined use is never reported as a type error instead. *)
Theorem undef_exact : forall g E0 glob s1 s2, wf_ecfg g ->
  ((exists x u, needs_def (facts_of g E0 glob s1 s2) x = true /\ undef_use g E0 x u) <->
   (exists e, check_cfg g E0 glob s1 s2 = Rej e /\ is_undef e)).
Proof. intros. apply undef_exact_lemma; auto. Qed.
Print Assumptions undef_exact.

(** [undef_exact], variable level: the set of ALL variables rejected by the entry block's
    tests (the error names one of them) is exactly the set of variables with such a path. *)
Theorem undef_vars_exact : forall g E0 glob s1 s2 x, wf_ecfg g ->
  (In x (undef_vars g (facts_of g E0 glob s1 s2) E0) <->
   needs_def (facts_of g E0 glob s1 s2) x = true /\ exists u, undef_use g E0 x u).
Proof. intros. apply undef_vars_char; auto. Qed.
Print Assumptions undef_vars_exact.

(** [undef_sound], per report: whichever candidate (wording, variable, block of the reported
    use) the user is shown, that use is reached without an assignment, and the wording is
    "might be undefined" (VarMaybeNotDefinedError) iff some path into the reported use
    assigns the variable (C09's [assigned_before]); otherwise "is not defined". *)
Theorem undef_sound : forall g E0 glob s1 s2 e k x u, wf_ecfg g ->
  check_cfg g E0 glob s1 s2 = Rej e ->
  In (k, x, u) (report_cands g (facts_of g E0 glob s1 s2) e) ->
  needs_def (facts_of g E0 glob s1 s2) x = true /\ undef_use g E0 x u /\
  (k = true <-> assigned_before (to_cfg g) (keys E0) x u).
Proof. intros g E0 glob s1 s2 e k x u W. apply report_cands_sound; auto. Qed.
Print Assumptions undef_sound.

(** [branch_type_exact]: when no use is undefined, check_rows_match fails iff some variable
    that is read after a join holds different types along two type-propagating paths into
    it; and every variable it may name is such a variable at that join. *)
Theorem branch_type_exact : forall g E0 glob s1 s2, wf_ecfg g ->
  ~ (exists x u, needs_def (facts_of g E0 glob s1 s2) x = true /\ undef_use g E0 x u) ->
  ((exists x s, ty_conflict g E0 x s) <->
   (exists p s xs, check_cfg g E0 glob s1 s2 = Rej (RowMismatch p s xs) /\ xs <> [])).
Proof. intros. apply branch_type_exact_lemma; auto. Qed.
Print Assumptions branch_type_exact.

Theorem branch_type_sound : forall g E0 glob s1 s2 p s xs, wf_ecfg g ->
  check_cfg g E0 glob s1 s2 = Rej (RowMismatch p s xs) ->
  xs <> [] /\ forall x, In x xs -> ty_conflict g E0 x s.
Proof. intros g E0 glob s1 s2 p s xs W H. apply (check_cfg_sound g E0 glob s1 s2 W _ H). Qed.
Print Assumptions branch_type_sound.

(** [no_spurious] (and its converse): the CFG is accepted by these tests iff it is free of
    both problems.  In particular the model never runs out of fuel and check_rows_match never
    raises KeyError. *)
Theorem no_spurious : forall g E0 glob s1 s2, wf_ecfg g ->
  ((exists c, check_cfg g E0 glob s1 s2 = Ok c) <->
   (~ (exists x u, needs_def (facts_of g E0 glob s1 s2) x = true /\ undef_use g E0 x u) /\
    ~ (exists x s, ty_conflict g E0 x s))).
Proof. intros. apply accept_iff_lemma; auto. Qed.
Print Assumptions no_spurious.

Theorem check_total : forall g E0 glob s1 s2 p s, wf_ecfg g ->
  check_cfg g E0 glob s1 s2 <> Rej OutOfFuel /\ check_cfg g E0 glob s1 s2 <> Rej (RowKeyError p s).
Proof.
  intros g E0 glob s1 s2 p s W. split; [apply check_cfg_not_fuel; auto|].
  intros H. apply (check_cfg_sound g E0 glob s1 s2 W _ H).
Qed.
Print Assumptions check_total.

(** * the link to Python's syntactic control-flow paths (C03's model of CFGBuilder)

    [p] is a function body in C03's PyAst, in the control-flow fragment [cf_stmts]
    (assignments, augmented assignments, expression statements, return, pass, break, continue,
    if / elif / else, while; conditions opaque: lift-free, not a literal True / False, possibly
    under [not]); [build p rn] is C03's executable model of CFGBuilder.build (tied to /repo by
    C03's own check); [spath_l p items o] says that [items] (simple statements and conditions
    in execution order, every condition allowed to go both ways, nothing after a jump) is a
    syntactic path of [p]; [ecfg_of g] reads C03's CFG as a CfgCheck event CFG. *)

(** every syntactic path is a walk along real edges of the built graph, item for item *)
Theorem syntactic_paths_are_cfg_walks : forall p rn g s items o,
  cf_stmts p = true -> build p rn = BOk g s -> spath_l p items o ->
  exists c', walk g (0, 0) items c'.
Proof. intros p rn g s items o F B X. exact (build_walk p rn g s F B items o X). Qed.
Print Assumptions syntactic_paths_are_cfg_walks.

(** [undef_exact], syntactic form, direction "violation => rejected": if some syntactic path
    reaches a read of x ([last]) and no item before it ([pre]) assigns x, and x is not an input
    but must be in scope, then check_cfg on the built graph raises a not-defined error. *)
Theorem built_graph_wf : forall p rn g s, cf_stmts p = true -> build p rn = BOk g s -> wf_ecfg (ecfg_of g).
Proof. exact build_wf. Qed.
Print Assumptions built_graph_wf.

Theorem syntactic_undef_rejected : forall p rn g s x pre last o E0 glob s1 s2,
  cf_stmts p = true -> build p rn = BOk g s ->
  spath_l p (pre ++ [last]) o -> nodef x pre -> reads_first x (ev_item last) ->
  lookup x E0 = None -> needs_def (facts_of (ecfg_of g) E0 glob s1 s2) x = true ->
  exists e, check_cfg (ecfg_of g) E0 glob s1 s2 = Rej e /\ is_undef e.
Proof.
  intros p rn g s x pre last o E0 glob s1 s2 F B X N R L Nd.
  pose proof (build_wf p rn g s F B) as W.
  destruct (syntactic_path_to_cfg_path p rn g s x pre last o F B X N R) as (u&Hu&Hr&Hf).
  apply (undef_complete (ecfg_of g) E0 glob s1 s2 W x u Nd). unfold undef_use. auto.
Qed.
Print Assumptions syntactic_undef_rejected.

(** conversely, every walk along real edges of the built graph, from the entry, spells a
    syntactic path (item for item) *)
Theorem cfg_walks_are_syntactic_paths : forall p rn g s items c',
  cf_stmts p = true -> build p rn = BOk g s -> walk g (0, 0) items c' ->
  exists o, spath_l p items o.
Proof. intros p rn g s items c' F B W. exact (build_back p rn g s items c' F B W). Qed.
Print Assumptions cfg_walks_are_syntactic_paths.

(** [syntactic_undef_exact]: for the built graph, "some syntactic path reaches a read of x
    and assigns x nowhere before" is EQUIVALENT to "some path along real edges of the event CFG
    reaches a block that reads x first without passing an assignment to x" ([rreach] =
    [reach_nodef] restricted to real successors).  Together with [undef_exact] this ties the
    model's verdict to Python's syntactic paths for all live code; the only CFG paths without
    a syntactic counterpart are those through dummy (never-taken) edges, i.e. dead code — the
    known finding interpretation:dead-code-after-jump. *)
Theorem syntactic_undef_exact : forall p rn g s x,
  cf_stmts p = true -> build p rn = BOk g s ->
  ((exists pre last o, spath_l p (pre ++ [last]) o /\ nodef x pre /\ reads_first x (ev_item last)) <->
   (exists u, u < nb (ecfg_of g) /\ rreach (ecfg_of g) x u /\ reads_first x (evs (ecfg_of g) u))).
Proof.
  intros p rn g s x F B. split.
  - intros (pre&last&o&X&N&R). exact (syntactic_path_to_real_cfg_path p rn g s x pre last o F B X N R).
  - intros (u&_&H&R). exact (cfg_path_to_syntactic_path p rn g s x u F B H R).
Qed.
Print Assumptions syntactic_undef_exact.

(** [undef_sound], syntactic form: when the reported use is reached along real edges, the
    error is explained by a syntactic path of the source. *)
Theorem syntactic_undef_sound : forall p rn g s E0 glob s1 s2 e k x u,
  cf_stmts p = true -> build p rn = BOk g s ->
  check_cfg (ecfg_of g) E0 glob s1 s2 = Rej e ->
  In (k, x, u) (report_cands (ecfg_of g) (facts_of (ecfg_of g) E0 glob s1 s2) e) ->
  rreach (ecfg_of g) x u ->
  exists pre last o, spath_l p (pre ++ [last]) o /\ nodef x pre /\ reads_first x (ev_item last).
Proof.
  intros p rn g s E0 glob s1 s2 e k x u F B H Hin Hr.
  pose proof (build_wf p rn g s F B) as W.
  destruct (undef_sound (ecfg_of g) E0 glob s1 s2 e k x u W H Hin) as (_&(_&_&_&Rf)&_).
  exact (cfg_path_to_syntactic_path p rn g s x u F B Hr Rf).
Qed.
Print Assumptions syntactic_undef_sound.

(** [undef_exact] at the level of the SOURCE, for programs without dead code (the built graph
    has no dummy edge): check_cfg raises a not-defined error iff some syntactic path reaches a
    read of a variable that must be in scope, is not an input, and is assigned nowhere before
    on that path. *)
Lemma no_dummy_rreach : forall g x u, (forall b, e_dsucc (eblk g b) = []) -> reach_nodef g x u -> rreach g x u.
Proof.
  intros g x u D H. induction H as [|p b H IH Lp Na Hb]; [constructor|].
  apply rr_step with p; auto. unfold flow in Hb. rewrite D, app_nil_r in Hb. exact Hb.
Qed.

Theorem syntactic_undef_exact_live : forall p rn g s E0 glob s1 s2,
  cf_stmts p = true -> build p rn = BOk g s ->
  (forall b, e_dsucc (eblk (ecfg_of g) b) = []) ->
  ((exists x pre last o, needs_def (facts_of (ecfg_of g) E0 glob s1 s2) x = true /\ lookup x E0 = None /\
      spath_l p (pre ++ [last]) o /\ nodef x pre /\ reads_first x (ev_item last)) <->
   (exists e, check_cfg (ecfg_of g) E0 glob s1 s2 = Rej e /\ is_undef e)).
Proof.
  intros p rn g s E0 glob s1 s2 F B D. split.
  - intros (x&pre&last&o&Nd&L&X&N&R).
    exact (syntactic_undef_rejected p rn g s x pre last o E0 glob s1 s2 F B X N R L Nd).
  - intros H. apply (undef_exact (ecfg_of g) E0 glob s1 s2 (build_wf p rn g s F B)) in H.
    destruct H as (x&u&Nd&(L&Hu&Hr&Hf)).
    destruct (cfg_path_to_syntactic_path p rn g s x u F B (no_dummy_rreach _ _ _ D Hr) Hf) as (pre&last&o&X&N&R).
    exists x, pre, last, o. auto.
Qed.
Print Assumptions syntactic_undef_exact_live.

(** * the hypotheses are satisfiable: three small programs (variables c=0 x=1 y=2; types bool=1 int=2 float=3) *)
Lemma wf_by_cases : forall g, 0 < length g ->
  forallb (fun b => forallb (fun s => (s <? length g) && negb (s =? 0)) (flow_s g b)) (seq 0 (length g)) = true ->
  wf_ecfg g.
Proof.
  intros g H0 H. rewrite forallb_forall in H. split; auto. split.
  - intros b s Hb Hs. assert (I : In b (seq 0 (length g))) by (apply in_seq; unfold nb in Hb; lia).
    specialize (H b I). rewrite forallb_forall in H. specialize (H s Hs).
    apply andb_true_iff in H. destruct H as [H _]. apply Nat.ltb_lt in H. exact H.
  - intros p Hp Hs. assert (I : In p (seq 0 (length g))) by (apply in_seq; unfold nb in Hp; lia).
    specialize (H p I). rewrite forallb_forall in H. specialize (H 0 Hs).
    apply andb_true_iff in H. destruct H as [_ H]. discriminate.
Qed.

(* if c: x = 1 ; <join> read x        -> "x might be undefined" *)
Definition ex_undef : ecfg :=
  [mkEB [3; 2] [] [EUse 0]; mkEB [] [] []; mkEB [4] [] [EAssign 1 (RLit 2)]; mkEB [4] [] [];
   mkEB [1] [] [EUse 1]].
(* if c: x = 1 else: x = 1.0 ; <join> y = x     -> "x may refer to different types" *)
Definition ex_types : ecfg :=
  [mkEB [3; 2] [] [EUse 0]; mkEB [] [] []; mkEB [4] [] [EAssign 1 (RLit 2)];
   mkEB [4] [] [EAssign 1 (RLit 3)]; mkEB [1] [] [EAssign 2 (RCopy 1)]].
(* x = 1 ; while c: x = x + 1 ; read x ; plus dead code after the return reading x (dummy edge)  -> accepted *)
Definition ex_loop : ecfg :=
  [mkEB [2] [] [EAssign 1 (RLit 2)]; mkEB [] [] []; mkEB [4; 3] [] [EUse 0];
   mkEB [2] [] [EAssign 1 (RCopy 1)]; mkEB [1] [5] [EUse 1]; mkEB [] [] [EUse 1]].

Example ex_undef_rejected :
  wf_ecfg ex_undef /\
  check_cfg ex_undef [(0, 1)] [] [] [] = Rej (SuccUndef 0 3 [1]) /\
  report_cands ex_undef (facts_of ex_undef [(0, 1)] [] [] []) (SuccUndef 0 3 [1]) = [(true, 1, 4)] /\
  undef_use ex_undef [(0, 1)] 1 4.
Proof.
  assert (W : wf_ecfg ex_undef) by (apply wf_by_cases; [simpl; lia|vm_compute; reflexivity]).
  assert (H : check_cfg ex_undef [(0, 1)] [] [] [] = Rej (SuccUndef 0 3 [1])) by (vm_compute; reflexivity).
  split; auto. split; auto. split; [vm_compute; reflexivity|].
  apply (undef_sound ex_undef [(0, 1)] [] [] [] _ true 1 4 W H). vm_compute. auto.
Qed.

Example ex_types_rejected :
  wf_ecfg ex_types /\ check_cfg ex_types [(0, 1)] [] [] [] = Rej (RowMismatch 3 4 [1; 1]) /\
  ty_conflict ex_types [(0, 1)] 1 4.
Proof.
  assert (W : wf_ecfg ex_types) by (apply wf_by_cases; [simpl; lia|vm_compute; reflexivity]).
  assert (H : check_cfg ex_types [(0, 1)] [] [] [] = Rej (RowMismatch 3 4 [1; 1])) by (vm_compute; reflexivity).
  split; auto. split; auto.
  apply (branch_type_sound ex_types [(0, 1)] [] [] [] 3 4 [1; 1] W H). simpl. auto.
Qed.

Example ex_loop_accepted :
  wf_ecfg ex_loop /\ (exists c, check_cfg ex_loop [(0, 1)] [] [] [] = Ok c) /\
  ~ (exists x s, ty_conflict ex_loop [(0, 1)] x s).
Proof.
  assert (W : wf_ecfg ex_loop) by (apply wf_by_cases; [simpl; lia|vm_compute; reflexivity]).
  assert (H : exists c, check_cfg ex_loop [(0, 1)] [] [] [] = Ok c) by (eexists; vm_compute; reflexivity).
  split; auto. split; auto. apply (no_spurious ex_loop [(0, 1)] [] [] [] W). exact H.
Qed.

(** the bridge's hypotheses are satisfiable:  `if v0: v1 = 2` / `v1`  (v0 an input) *)
Definition ex_src : stmts :=
  SCons (SIf (EName (VU 0)) (SCons (SAssign (TName (VU 1)) (EConst (CInt 2%Z))) SNil) SNil)
        (SCons (SExpr (EName (VU 1))) SNil).

Example ex_bridge : exists g s,
  cf_stmts ex_src = true /\ build ex_src true = BOk g s /\ wf_ecfg (ecfg_of g) /\
  spath_l ex_src ([ICond (EName (VU 0))] ++ [IStmt (SExpr (EName (VU 1)))]) ONorm /\
  (exists e, check_cfg (ecfg_of g) [(0, 1)] [] [] [] = Rej e /\ is_undef e).
Proof.
  destruct (build ex_src true) as [g s|] eqn:B; [|vm_compute in B; discriminate].
  exists g, s.
  assert (F : cf_stmts ex_src = true) by reflexivity.
  assert (W : wf_ecfg (ecfg_of g)).
  { vm_compute in B. inversion B; subst. apply wf_by_cases; [simpl; lia|vm_compute; reflexivity]. }
  assert (X : spath_l ex_src ([ICond (EName (VU 0))] ++ [IStmt (SExpr (EName (VU 1)))]) ONorm).
  { simpl. left. exists [ICond (EName (VU 0))], [IStmt (SExpr (EName (VU 1)))]. split; auto. split.
    - right. exists []. split; auto.
    - left. exists [IStmt (SExpr (EName (VU 1)))], []. split; auto. split; [left; auto|auto]. }
  split; auto. split; auto. split; auto. split; auto.
  apply (syntactic_undef_rejected ex_src true g s 2 [ICond (EName (VU 0))] (IStmt (SExpr (EName (VU 1)))) ONorm
           [(0, 1)] [] [] [] F B X).
  - intros it [<-|[]]. simpl. apply uses_no_assign.
  - simpl. auto.
  - reflexivity.
  - vm_compute in B. inversion B; subst. vm_compute. reflexivity.
Qed.
