(** V.C08.ProofsClosed — the BFS terminates within its fuel, visits every type-propagating
    edge, and an accepted CFG has one type per live variable on all paths. *)
From Coq Require Import List Bool Arith Lia.
From V.C09 Require Import Analysis SetLemmas Spec.
From V.C08 Require Import CfgCheck Spec ProofsBase ProofsCheck.
Import ListNotations.

(** * counting *)
Lemma flat_map_len_le : forall (A : Type) (f1 f2 : A -> list nat) l,
  (forall x, In x l -> length (f2 x) <= length (f1 x)) ->
  length (flat_map f2 l) <= length (flat_map f1 l).
Proof.
  intros A f1 f2 l. induction l as [|a l IH]; intros H; simpl; auto.
  rewrite !app_length. pose proof (H a (or_introl eq_refl)).
  assert (length (flat_map f2 l) <= length (flat_map f1 l)) by (apply IH; intros; apply H; simpl; auto). lia.
Qed.

Lemma flat_map_ext_in : forall (f1 f2 : nat -> list nat) l,
  (forall x, In x l -> f2 x = f1 x) -> flat_map f2 l = flat_map f1 l.
Proof.
  intros f1 f2 l. induction l as [|a l IH]; intros H; simpl; auto.
  rewrite (H a (or_introl eq_refl)), IH; auto. intros; apply H; simpl; auto.
Qed.

Lemma flat_map_remove_one : forall (f1 f2 : nat -> list nat) b l,
  NoDup l -> In b l -> f2 b = [] -> (forall x, x <> b -> f2 x = f1 x) ->
  length (flat_map f2 l) + length (f1 b) = length (flat_map f1 l).
Proof.
  intros f1 f2 b l. induction l as [|a l IH]; intros N I E X; simpl; [destruct I|].
  inversion N as [|? ? Na Nl]. subst. rewrite !app_length.
  destruct (Nat.eq_dec a b) as [->|Ne].
  - rewrite E. simpl. rewrite (flat_map_ext_in f1 f2 l); [lia|].
    intros x Hx. apply X. intros ->. auto.
  - destruct I as [I|I]; [congruence|]. rewrite (X a Ne). specialize (IH Nl I E X). lia.
Qed.

Section Closed.
Variable g : ecfg.
Variable E0 : env.
Variable glob s1 s2 : list nat.
Hypothesis W : wf_ecfg g.
Let F := analyze g (keys E0) glob s1 s2.
Notation live b := (getv (f_live F) b).
Notation Inv := (Inv g E0 glob s1 s2).
Notation entered := (entered g E0 glob s1 s2).

Lemma Inv_tail : forall p b q c, Inv ((p, b) :: q) c -> Inv q c.
Proof. intros p b q c [Ic Iq]. split; auto. intros p' b' H. apply Iq. simpl. auto. Qed.

Lemma Inv_head : forall p b q c, Inv ((p, b) :: q) c ->
  exists rowp afterp, find p c = Some (rowp, afterp) /\ entered p rowp /\
    check_bb g F p rowp = Ok afterp /\ In b (chk g p) /\ b <> 0 /\ b < nb g /\
    entered b (restrict afterp (live b)).
Proof.
  intros p b q c [Ic Iq]. destruct (Iq p b (or_introl eq_refl)) as [[[rowp afterp] Fp] Hb].
  destruct (Ic p rowp afterp Fp) as [Entp Okp]. exists rowp, afterp.
  pose proof (entered_child g E0 glob s1 s2 W p rowp afterp b Entp Okp Hb) as Entb.
  assert (Hb0 : b <> 0).
  { intros ->. destruct Entp as [Hp _]. apply (no_pred0 g W p Hp). apply chk_flow. exact Hb. }
  assert (Hbn : b < nb g) by (destruct Entb as [H _]; exact H).
  split; [exact Fp|]. split; [exact Entp|]. split; [exact Okp|]. split; [exact Hb|].
  split; [exact Hb0|]. split; [exact Hbn|exact Entb].
Qed.

Lemma Inv_compile : forall p b q c rowp afterp after,
  Inv ((p, b) :: q) c -> find p c = Some (rowp, afterp) -> find b c = None ->
  check_bb g F b (restrict afterp (live b)) = Ok after ->
  Inv (q ++ out_edges b (e_succ (eblk g b))) ((b, (restrict afterp (live b), after)) :: c).
Proof.
  intros p b q c rowp afterp after I Fp Fb Cb.
  destruct (Inv_head _ _ _ _ I) as [rowp' [afterp' [Fp' [Entp [Okp [Hb [Hb0 [Hbn Entb]]]]]]]].
  rewrite Fp in Fp'. inversion Fp'. subst rowp' afterp'. clear Fp'.
  destruct I as [Ic Iq]. split.
  - intros b' row' after' Hf. rewrite find_cons in Hf. destruct (Nat.eqb b' b) eqn:Q.
    + apply Nat.eqb_eq in Q. subst b'. inversion Hf. subst. auto.
    + apply Ic. exact Hf.
  - intros p' b' Hin. apply in_app_or in Hin. destruct Hin as [Hin|Hin].
    + destruct (Iq p' b' (or_intror Hin)) as [[v Fv] Hc]. split; auto.
      rewrite find_cons. destruct (Nat.eqb p' b); eauto.
    + apply out_edges_In in Hin. destruct Hin as [-> Hs]. split.
      * rewrite find_cons, Nat.eqb_refl. eauto.
      * unfold chk. apply Nat.eqb_neq in Hb0. rewrite Hb0. exact Hs.
Qed.

(** * fuel *)
Definition pending (c : compiled) : nat :=
  length (flat_map (fun b => match find b c with Some _ => [] | None => e_succ (eblk g b) end)
                   (seq 0 (nb g))).

Lemma pending_cons : forall b v c, find b c = None -> b < nb g ->
  pending ((b, v) :: c) + length (e_succ (eblk g b)) = pending c.
Proof.
  intros b v c Fb Hb. unfold pending.
  rewrite <- (flat_map_remove_one
    (fun b0 => match find b0 c with Some _ => [] | None => e_succ (eblk g b0) end)
    (fun b0 => match find b0 ((b, v) :: c) with Some _ => [] | None => e_succ (eblk g b0) end) b).
  - rewrite Fb. reflexivity.
  - apply seq_NoDup.
  - apply in_seq. lia.
  - rewrite find_cons, Nat.eqb_refl. reflexivity.
  - intros x Hx. rewrite find_cons. apply Nat.eqb_neq in Hx. rewrite Hx. reflexivity.
Qed.

Lemma bfs_fuel : forall fuel q c, Inv q c -> length q + pending c < fuel ->
  bfs g F fuel q c <> Rej OutOfFuel.
Proof.
  induction fuel as [|f IH]; intros q c I M; [lia|]. cbn [bfs].
  destruct q as [|[p b] q']; [discriminate|].
  destruct (Inv_head _ _ _ _ I) as [rowp [afterp [Fp [Entp [Okp [Hb [Hb0 [Hbn Entb]]]]]]]].
  rewrite Fp. cbv beta iota zeta.
  destruct (find b c) as [[rowb afterb]|] eqn:Fb.
  - destruct (rows_keys_ok (restrict afterp (live b)) rowb); [|discriminate].
    destruct (rows_mismatch (restrict afterp (live b)) rowb); [|discriminate].
    apply IH; [apply (Inv_tail p b); auto|]. simpl in M. lia.
  - destruct (check_bb g F b (restrict afterp (live b))) as [after|e] eqn:Cb.
    + apply IH; [apply (Inv_compile p b q' c rowp afterp after); auto|].
      rewrite app_length. unfold out_edges. rewrite rev_length, map_length.
      pose proof (pending_cons b (restrict afterp (live b), after) c Fb Hbn). simpl in M. lia.
    + pose proof (check_bb_rej g E0 glob s1 s2 W b _ e (fun _ => Entb) Cb) as K.
      intros Q. inversion Q. subst e. clear Q.
      (* check_bb never reports OutOfFuel *)
      unfold check_bb in Cb.
      destruct (if Nat.eqb b 0 then entry_undef g F else []); [|discriminate].
      destruct (first_succ_undef F (exec (e_evs (eblk g b)) (restrict afterp (live b))) b (flow_s g b)) eqn:R; [|discriminate].
      destruct (first_succ_some _ _ _ _ _ _ _ _ _ R) as [s [x [xs [-> _]]]]. discriminate.
Qed.

Lemma init_measure : forall v, length (out_edges 0 (flow_s g 0)) + pending [(0, v)] < S (n_edges g).
Proof.
  intros v. unfold out_edges. rewrite rev_length, map_length. unfold n_edges. fold (nb g).
  rewrite <- (flat_map_remove_one (flow_s g) (fun b => if Nat.eqb b 0 then [] else flow_s g b) 0 (seq 0 (nb g))).
  - assert (pending [(0, v)] <= length (flat_map (fun b => if Nat.eqb b 0 then [] else flow_s g b) (seq 0 (nb g)))); [|lia].
    unfold pending. apply flat_map_len_le. intros x _. rewrite find_cons. destruct (Nat.eqb x 0); simpl; auto.
    unfold flow_s. rewrite app_length. lia.
  - apply seq_NoDup.
  - apply in_seq. pose proof (nb_pos g W). lia.
  - reflexivity.
  - intros x Hx. apply Nat.eqb_neq in Hx. rewrite Hx. reflexivity.
Qed.

(** * closure *)
Definition Closed (q : list (nat * nat)) (c : compiled) : Prop :=
  forall p rowp afterp b, find p c = Some (rowp, afterp) -> In b (chk g p) ->
    In (p, b) q \/ exists rowb afterb, find b c = Some (rowb, afterb) /\ sub rowb (restrict afterp (live b)).

Lemma agree_sub : forall r1 r2, rows_keys_ok r1 r2 = true -> rows_mismatch r1 r2 = [] -> sub r2 r1.
Proof.
  intros r1 r2 K M x t Hx.
  assert (Hk : In x (keys r1 ++ keys r2)).
  { apply in_or_app. right. apply lookup_keys. congruence. }
  unfold rows_keys_ok in K. rewrite forallb_forall in K. specialize (K x Hk).
  pose proof (filter_nil_inv _ _ _ M x Hk) as Q. simpl in Q.
  rewrite Hx in *. destruct (lookup x r1) as [t1|]; [|discriminate].
  apply negb_false_iff in Q. apply Nat.eqb_eq in Q. subst. reflexivity.
Qed.

Lemma bfs_ok : forall fuel q c c', Inv q c -> Closed q c -> bfs g F fuel q c = Ok c' ->
  Inv [] c' /\ Closed [] c' /\ (forall b v, find b c = Some v -> find b c' = Some v).
Proof.
  induction fuel as [|f IH]; intros q c c' I C H; cbn [bfs] in H; [discriminate|].
  destruct q as [|[p b] q'].
  - inversion H. subst. auto.
  - destruct (Inv_head _ _ _ _ I) as [rowp [afterp [Fp [Entp [Okp [Hb [Hb0 [Hbn Entb]]]]]]]].
    rewrite Fp in H. cbv beta iota zeta in H.
    destruct (find b c) as [[rowb afterb]|] eqn:Fb.
    + destruct (rows_keys_ok (restrict afterp (live b)) rowb) eqn:K; [|discriminate].
      destruct (rows_mismatch (restrict afterp (live b)) rowb) eqn:M; [|discriminate].
      apply (IH q' c c'); auto; [apply (Inv_tail p b); auto|].
      intros p0 rowp0 afterp0 b0 Fp0 Hb'. destruct (C p0 rowp0 afterp0 b0 Fp0 Hb') as [[Eq|Hin]|R]; auto.
      inversion Eq. subst p0 b0. right. rewrite Fp in Fp0. inversion Fp0. subst.
      exists rowb, afterb. split; auto. apply agree_sub; auto.
    + destruct (check_bb g F b (restrict afterp (live b))) as [after|e] eqn:Cb; [|discriminate].
      destruct (IH _ _ c' (Inv_compile p b q' c rowp afterp after I Fp Fb Cb)) as [A [B D]]; auto.
      * intros p0 rowp0 afterp0 b0 Fp0 Hb'. rewrite find_cons in Fp0.
        destruct (Nat.eqb p0 b) eqn:Q.
        -- apply Nat.eqb_eq in Q. subst p0. inversion Fp0. subst. left. apply in_or_app. right.
           apply out_edges_In. split; auto. unfold chk in Hb'. apply Nat.eqb_neq in Hb0. rewrite Hb0 in Hb'. exact Hb'.
        -- destruct (C p0 rowp0 afterp0 b0 Fp0 Hb') as [[Eq|Hin]|[rowb0 [afterb0 [Fb0 S0]]]].
           ++ inversion Eq. subst p0 b0. right. rewrite Fp in Fp0. inversion Fp0. subst.
              exists (restrict afterp0 (live b)), after. rewrite find_cons, Nat.eqb_refl. split; auto.
              intros x t; auto.
           ++ left. apply in_or_app. auto.
           ++ right. exists rowb0, afterb0. split; auto. rewrite find_cons.
              destruct (Nat.eqb b0 b) eqn:Q2; auto. apply Nat.eqb_eq in Q2. subst. congruence.
      * split; auto. split; auto. intros b0 v Hf. apply D. rewrite find_cons.
        destruct (Nat.eqb b0 b) eqn:Q2; auto. apply Nat.eqb_eq in Q2. subst. congruence.
Qed.

Lemma Closed_init : forall after, Closed (out_edges 0 (flow_s g 0)) [(0, (E0, after))].
Proof.
  intros after p rowp afterp b Fp Hb. rewrite find_cons in Fp. destruct (Nat.eqb p 0) eqn:Q; [|discriminate].
  apply Nat.eqb_eq in Q. subst. left. apply out_edges_In. split; auto.
Qed.

(** an accepted CFG: every typing that reaches a block extends the row the block was checked with *)
Lemma accepted_rows : forall c', check_cfg g E0 glob s1 s2 = Ok c' ->
  forall b E, reach_env g E0 b E ->
  exists rowb afterb, find b c' = Some (rowb, afterb) /\ sub rowb E /\ entered b rowb.
Proof.
  intros c' H. unfold check_cfg, check_cfg_with in H. fold F in H.
  destruct (check_bb g F 0 E0) as [after|e] eqn:C0; [|discriminate].
  destruct (bfs_ok _ _ _ c' (Inv_init g E0 glob s1 s2 W after C0) (Closed_init after) H) as [[Ic _] [Cl Mono]].
  intros b E R. induction R as [|p E b R IH Hp Hb].
  - exists E0, after. split; [apply Mono; simpl; reflexivity|]. split; [intros x t; auto|].
    destruct (check_bb_ok _ _ _ _ _ _ _ _ C0) as [_ [Hu _]]. apply entered_entry; auto.
  - destruct IH as [rowp [afterp [Fp [Sp Entp]]]].
    destruct (Cl p rowp afterp b Fp Hb) as [[]|[rowb [afterb [Fb Sb]]]].
    exists rowb, afterb. split; auto. split; [|apply (Ic b rowb afterb Fb)].
    destruct (Ic p rowp afterp Fp) as [_ Okp].
    destruct (check_bb_ok _ _ _ _ _ _ _ _ Okp) as [-> _].
    intros x t Hx. apply Sb in Hx. rewrite lookup_restrict in Hx. destruct (memb x (live b)); [|discriminate].
    revert x t Hx. apply exec_mono; auto.
    destruct Entp as [_ [_ [Pc _]]].
    intros y Hr Hn. destruct (In_nat_dec' y (f_as F)) as [I|I].
    + exfalso. apply (Pc y I Hr). exact Hn.
    + destruct (opt_dec (lookup y E)) as [N|N]; auto. exfalso. apply I.
      apply (reach_env_dom g E0 glob s1 s2 p E R). exact N.
Qed.

Lemma reach_env_entry : forall E, reach_env g E0 0 E -> E = E0.
Proof.
  intros E H. remember 0 as z. destruct H as [|p E b R Hp Hb]; auto.
  subst b. exfalso. apply (no_pred0 g W p Hp). apply chk_flow. exact Hb.
Qed.

Lemma accepted_no_conflict : forall c' x s, check_cfg g E0 glob s1 s2 = Ok c' -> ~ ty_conflict g E0 x s.
Proof.
  intros c' x s H [Hl [E1 [E2 [t1 [t2 [R1 [R2 [L1 [L2 Ne]]]]]]]]].
  destruct (Nat.eq_dec s 0) as [->|Hs].
  - apply reach_env_entry in R1. apply reach_env_entry in R2. subst. congruence.
  - destruct (accepted_rows c' H s E1 R1) as [row [aft [Fs [S1 Ent]]]].
    destruct (accepted_rows c' H s E2 R2) as [row' [aft' [Fs' [S2 _]]]].
    rewrite Fs in Fs'. inversion Fs'. subst row' aft'.
    destruct Ent as [Hsn [_ [_ [_ [_ Pk]]]]].
    assert (Hx : lookup x row <> None).
    { apply (Pk Hs x). split.
      - apply (live_iff' g E0 glob s1 s2 W); auto.
      - apply (reach_env_dom g E0 glob s1 s2 s E1 R1). congruence. }
    destruct (lookup x row) as [t|] eqn:Lx; [|congruence].
    pose proof (S1 x t Lx). pose proof (S2 x t Lx). congruence.
Qed.

Lemma check_cfg_not_fuel : check_cfg g E0 glob s1 s2 <> Rej OutOfFuel.
Proof.
  unfold check_cfg, check_cfg_with. fold F.
  destruct (check_bb g F 0 E0) as [after|e] eqn:C0.
  - apply bfs_fuel; [apply Inv_init; auto|apply init_measure].
  - intros Q. inversion Q. subst e.
    unfold check_bb in C0. simpl in C0.
    destruct (entry_undef g F); [|discriminate].
    destruct (first_succ_undef F (exec (e_evs (eblk g 0)) E0) 0 (flow_s g 0)) eqn:R; [|discriminate].
    destruct (first_succ_some _ _ _ _ _ _ _ _ _ R) as [s [x [xs [-> _]]]]. discriminate.
Qed.
End Closed.
