(** V.C08.ProofsCheck — check_bb / bfs invariants; every reported error is genuine. *)
From Coq Require Import List Bool Arith Lia.
From V.C09 Require Import Analysis SetLemmas Spec.
From V.C08 Require Import CfgCheck Spec ProofsBase.
Import ListNotations.

Lemma filter_nil_inv : forall (A : Type) (f : A -> bool) l, filter f l = [] -> forall x, In x l -> f x = false.
Proof.
  intros A f l. induction l as [|a l IH]; simpl; intros H x Hx; [tauto|].
  destruct (f a) eqn:Fa; [discriminate|]. destruct Hx as [->|Hx]; auto.
Qed.

Lemma opt_dec : forall (o : option nat), o = None \/ o <> None.
Proof. intros [t|]; [right; discriminate|left; reflexivity]. Qed.

Lemma assigns_dec : forall x evs, assigns x evs \/ ~ assigns x evs.
Proof. intros. rewrite <- assigned_char. apply In_nat_dec'. Qed.

Lemma lookup_exec_some : forall evs E x, lookup x (exec evs E) <> None -> lookup x E <> None \/ assigns x evs.
Proof.
  intros evs E x H. destruct (opt_dec (lookup x E)) as [N|N]; auto.
  destruct (assigns_dec x evs) as [A|A]; auto.
  exfalso. apply H. apply lookup_exec_none. auto.
Qed.

Lemma chk_flow : forall g p b, In b (chk g p) -> In b (flow g p).
Proof. intros g p b. unfold chk, flow. destruct (Nat.eqb p 0); auto. intros; apply in_or_app; auto. Qed.

Section Check.
Variable g : ecfg.
Variable E0 : env.
Variable glob s1 s2 : list nat.
Hypothesis W : wf_ecfg g.
Let F := analyze g (keys E0) glob s1 s2.
Let cg := to_cfg g.
Notation live b := (getv (f_live F) b).

Lemma flow_lt : forall b s, b < nb g -> In s (flow g b) -> s < nb g.
Proof. destruct W as [_ [H _]]. exact H. Qed.
Lemma no_pred0 : forall p, p < nb g -> ~ In 0 (flow g p).
Proof. destruct W as [_ [_ H]]. exact H. Qed.
Lemma nb_pos : 0 < nb g.
Proof. destruct W as [H _]. exact H. Qed.

Lemma live_iff' : forall b x, b < nb g -> (In x (live b) <-> live_at g x b).
Proof. intros. apply (live_iff g E0 glob s1 s2 W); auto. Qed.

Lemma needs_as : forall x, In x (f_as F) -> needs_def F x = true.
Proof. intros x H. unfold needs_def. apply memb_In in H. rewrite H. reflexivity. Qed.

Lemma reach_env_dom : forall b E, reach_env g E0 b E -> forall x, lookup x E <> None -> In x (f_as F).
Proof.
  intros b E H. induction H as [|p E b H IH Hp Hb]; intros x Hx.
  - apply (as_iff g E0 glob s1 s2). auto.
  - apply lookup_exec_some in Hx. destruct Hx as [Hx|Hx]; auto.
    apply (as_iff g E0 glob s1 s2). right. exists p. auto.
Qed.

(** what holds of a block and the row it is checked with *)
Definition P_nodef (b : nat) (row : env) : Prop :=
  forall x, In x (live b) -> lookup x row = None -> lookup x E0 = None /\ reach_nodef g x b.
Definition P_cover (b : nat) (row : env) : Prop :=
  forall y, In y (f_as F) -> reads_first y (evs g b) -> lookup y row <> None.
Definition P_env (b : nat) (row : env) : Prop := exists E, reach_env g E0 b E /\ sub row E.
Definition P_dom (row : env) : Prop := forall x, lookup x row <> None -> In x (f_as F).
Definition P_keys (b : nat) (row : env) : Prop :=
  b <> 0 -> forall x, lookup x row <> None <-> (In x (live b) /\ In x (f_as F)).
Definition entered (b : nat) (row : env) : Prop :=
  b < nb g /\ P_nodef b row /\ P_cover b row /\ P_env b row /\ P_dom row /\ P_keys b row.

Lemma first_succ_none : forall after p ss, first_succ_undef F after p ss = None ->
  forall s, In s ss -> succ_undef F after s = [].
Proof.
  intros after p ss. induction ss as [|s t IH]; simpl; intros H s' Hs; [tauto|].
  destruct (succ_undef F after s) eqn:Q; [|discriminate]. destruct Hs as [<-|Hs]; auto.
Qed.

Lemma first_succ_some : forall after p ss e, first_succ_undef F after p ss = Some e ->
  exists s x xs, e = SuccUndef p s (x :: xs) /\ In s ss /\ succ_undef F after s = x :: xs.
Proof.
  intros after p ss e. induction ss as [|s t IH]; simpl; intros H; [discriminate|].
  destruct (succ_undef F after s) as [|x xs] eqn:Q.
  - destruct (IH H) as [s' [x' [xs' [A [B C]]]]]. exists s', x', xs'. auto.
  - inversion H. exists s, x, xs. auto.
Qed.

Lemma check_bb_ok : forall b row after, check_bb g F b row = Ok after ->
  after = exec (evs g b) row /\ (b = 0 -> entry_undef g F = []) /\
  forall s, In s (flow g b) -> succ_undef F after s = [].
Proof.
  intros b row after H. unfold check_bb in H.
  destruct (if Nat.eqb b 0 then entry_undef g F else []) as [|x l] eqn:Q; [|discriminate].
  fold (evs g b) in H. fold (flow g b) in H. unfold flow_s in H.
  destruct (first_succ_undef F (exec (evs g b) row) b (e_succ (eblk g b) ++ e_dsucc (eblk g b))) eqn:R; [discriminate|].
  inversion H. subst after. split; auto. split.
  - intros ->. simpl in Q. exact Q.
  - intros s Hs. apply (first_succ_none _ _ _ R). exact Hs.
Qed.

Lemma succ_ok_lookup : forall after s x, succ_undef F after s = [] -> In x (live s) ->
  needs_def F x = true -> lookup x after <> None.
Proof.
  intros after s x H Hx Hn. pose proof (filter_nil_inv _ _ _ H x Hx) as Q. simpl in Q.
  destruct (lookup x after); [discriminate|congruence].
Qed.

Lemma succ_undef_In : forall after s x, In x (succ_undef F after s) <->
  In x (live s) /\ lookup x after = None /\ needs_def F x = true.
Proof.
  intros. unfold succ_undef. rewrite filter_In. destruct (lookup x after); split; intros [A B]; try tauto; try discriminate.
  destruct B; discriminate.
Qed.

Lemma entered_entry : entry_undef g F = [] -> entered 0 E0.
Proof.
  intros H. split; [apply nb_pos|]. split; [|split; [|split; [|split]]].
  - intros x _ Hx. split; auto. apply rn_entry.
  - intros y Hy Hr. apply (def0_iff g E0 glob s1 s2 W).
    apply used_char in Hr. pose proof (filter_nil_inv _ _ _ H y Hr) as Q. simpl in Q.
    fold F in Q. rewrite (needs_as y Hy), andb_true_r in Q. apply negb_false_iff in Q. apply memb_In. exact Q.
  - exists E0. split; [apply re_entry|]. intros x t; auto.
  - intros x Hx. apply (as_iff g E0 glob s1 s2). auto.
  - intros N. congruence.
Qed.

(** the failing test of check_bb for successor s: x is not assigned on the path to s *)
Lemma nodef_to_succ : forall p rowp s x, entered p rowp -> In s (flow g p) ->
  In x (live s) -> lookup x (exec (evs g p) rowp) = None ->
  lookup x E0 = None /\ reach_nodef g x s.
Proof.
  intros p rowp s x [Hp [Pn _]] Hs Hx Hl.
  apply lookup_exec_none in Hl. destruct Hl as [Hr Ha].
  assert (Hlp : In x (live p)).
  { apply live_iff'; auto. apply la_step with s; auto. apply live_iff'; auto. apply (flow_lt p); auto. }
  destruct (Pn x Hlp Hr) as [A B]. split; auto. apply rn_step with p; auto.
Qed.

Lemma entered_child : forall p rowp afterp b, entered p rowp -> check_bb g F p rowp = Ok afterp ->
  In b (chk g p) -> entered b (restrict afterp (live b)).
Proof.
  intros p rowp afterp b Hent Hok Hb.
  pose proof (chk_flow g p b Hb) as Hf.
  destruct (check_bb_ok _ _ _ Hok) as [-> [_ Hs]].
  pose proof Hent as [Hp [Pn [Pc [[Ep [Re Se]] [Pd _]]]]].
  assert (Hbn : b < nb g) by (apply (flow_lt p); auto).
  assert (Dom : forall x, lookup x (exec (evs g p) rowp) <> None -> In x (f_as F)).
  { intros x Hx. apply lookup_exec_some in Hx. destruct Hx as [Hx|Hx]; auto.
    apply (as_iff g E0 glob s1 s2). right. exists p. auto. }
  split; auto. split; [|split; [|split; [|split]]].
  - intros x Hx Hl. rewrite lookup_restrict in Hl. apply memb_In in Hx. rewrite Hx in Hl. apply memb_In in Hx.
    apply (nodef_to_succ p rowp b x); auto.
  - intros y Hy Hr. rewrite lookup_restrict.
    assert (Hl : In y (live b)) by (apply live_iff'; auto; apply la_use; auto).
    pose proof Hl as Hm. apply memb_In in Hm. rewrite Hm.
    apply (succ_ok_lookup _ b); auto. apply needs_as; auto.
  - exists (exec (evs g p) Ep). split; [apply re_step; auto|].
    intros x t Hx. rewrite lookup_restrict in Hx. destruct (memb x (live b)); [|discriminate].
    revert x t Hx. apply exec_mono; auto.
    intros y Hr Hn. destruct (In_nat_dec' y (f_as F)) as [I|I].
    + exfalso. apply (Pc y I Hr). exact Hn.
    + destruct (opt_dec (lookup y Ep)) as [N|N]; auto. exfalso. apply I. apply (reach_env_dom p Ep Re). exact N.
  - intros x Hx. rewrite lookup_restrict in Hx. destruct (memb x (live b)); [|congruence]. apply Dom. exact Hx.
  - intros _ x. rewrite lookup_restrict. split.
    + intros Hx. destruct (memb x (live b)) eqn:M; [|congruence]. apply memb_In in M. split; auto.
    + intros [Hl Ha]. pose proof Hl as M. apply memb_In in M. rewrite M.
      apply (succ_ok_lookup _ b); auto. apply needs_as; auto.
Qed.

(** * every error is genuine *)
Definition err_ok (e : error) : Prop :=
  match e with
  | EntryUndef x => needs_def F x = true /\ undef_use g E0 x 0
  | SuccUndef p s xs => xs <> [] /\ s < nb g /\ forall x, In x xs ->
      needs_def F x = true /\ lookup x E0 = None /\ reach_nodef g x s /\ live_at g x s
  | RowMismatch p s xs => xs <> [] /\ forall x, In x xs -> ty_conflict g E0 x s
  | RowKeyError _ _ => False
  | OutOfFuel => True
  end.

Lemma check_bb_rej : forall b row e,
  ((if Nat.eqb b 0 then entry_undef g F else []) = [] -> entered b row) ->
  check_bb g F b row = Rej e -> err_ok e.
Proof.
  intros b row e Hent H. unfold check_bb in H.
  destruct (if Nat.eqb b 0 then entry_undef g F else []) as [|x l] eqn:Q.
  - specialize (Hent eq_refl). fold (evs g b) in H. unfold flow_s in H.
    destruct (first_succ_undef F (exec (evs g b) row) b (e_succ (eblk g b) ++ e_dsucc (eblk g b))) eqn:R; [|discriminate].
    inversion H. subst e0. clear H.
    destruct (first_succ_some _ _ _ _ R) as [s [x [xs [-> [Hs Hq]]]]]. unfold err_ok.
    assert (Hsn : s < nb g) by (destruct Hent as [Hb _]; apply (flow_lt b); auto).
    split; [discriminate|]. split; auto. intros y Hy. rewrite <- Hq in Hy. apply succ_undef_In in Hy.
    destruct Hy as [A [B C]]. split; auto.
    destruct (nodef_to_succ b row s y Hent Hs A B) as [D E]. split; auto. split; auto.
    apply live_iff'; auto.
  - inversion H. subst e. clear H. simpl.
    destruct (Nat.eqb b 0) eqn:B0; [|discriminate].
    assert (Hx : In x (entry_undef g F)) by (rewrite Q; simpl; auto).
    unfold entry_undef in Hx. apply filter_In in Hx. destruct Hx as [Hu Hc].
    apply andb_true_iff in Hc. destruct Hc as [Hd Hn]. split; auto.
    apply negb_true_iff in Hd. apply memb_false in Hd.
    split; [|split; [apply nb_pos|split; [apply rn_entry|apply used_char; exact Hu]]].
    destruct (opt_dec (lookup x E0)) as [N|N]; auto. exfalso. apply Hd. apply (def0_iff g E0 glob s1 s2 W). exact N.
Qed.

(** the BFS invariant *)
Definition Inv (q : list (nat * nat)) (c : compiled) : Prop :=
  (forall b row after, find b c = Some (row, after) ->
     entered b row /\ check_bb g F b row = Ok after) /\
  (forall p b, In (p, b) q -> (exists v, find p c = Some v) /\ In b (chk g p)).

Lemma rows_keys_ok_true : forall r1 r2, (forall x, lookup x r1 <> None <-> lookup x r2 <> None) ->
  rows_keys_ok r1 r2 = true.
Proof.
  intros r1 r2 H. unfold rows_keys_ok. apply forallb_forall. intros x Hx.
  assert (A : lookup x r1 <> None).
  { apply in_app_or in Hx. destruct Hx as [Hx|Hx]; [apply lookup_keys; auto|apply H; apply lookup_keys; auto]. }
  pose proof A as B. apply H in B.
  destruct (lookup x r1); [|congruence]. destruct (lookup x r2); [reflexivity|congruence].
Qed.

Lemma rows_mismatch_In : forall r1 r2 x, In x (rows_mismatch r1 r2) ->
  exists t1 t2, lookup x r1 = Some t1 /\ lookup x r2 = Some t2 /\ t1 <> t2.
Proof.
  intros r1 r2 x H. unfold rows_mismatch in H. apply filter_In in H. destruct H as [_ H].
  destruct (lookup x r1) as [t1|]; [|discriminate]. destruct (lookup x r2) as [t2|]; [|discriminate].
  exists t1, t2. split; auto. split; auto. apply negb_true_iff in H. apply Nat.eqb_neq in H. exact H.
Qed.

Lemma find_cons : forall b b' v c, find b ((b', v) :: c) = if Nat.eqb b b' then Some v else find b c.
Proof. reflexivity. Qed.

Lemma out_edges_In : forall p ss a b, In (a, b) (out_edges p ss) <-> a = p /\ In b ss.
Proof.
  intros. unfold out_edges. rewrite <- in_rev, in_map_iff. split.
  - intros [s [E H]]. inversion E. subst. auto.
  - intros [-> H]. exists b. auto.
Qed.

Lemma bfs_sound : forall fuel q c e, Inv q c -> bfs g F fuel q c = Rej e -> err_ok e.
Proof.
  induction fuel as [|f IH]; intros q c e I H; cbn [bfs] in H.
  - inversion H. simpl. exact Logic.I.
  - destruct q as [|[p b] q']; [discriminate|].
    destruct I as [Ic Iq].
    destruct (Iq p b (or_introl eq_refl)) as [[[rowp afterp] Fp] Hb].
    rewrite Fp in H. cbv beta iota zeta in H.
    destruct (Ic p rowp afterp Fp) as [Entp Okp].
    pose proof (entered_child p rowp afterp b Entp Okp Hb) as Entb.
    set (row := restrict afterp (live b)) in *.
    assert (Hb0 : b <> 0).
    { intros ->. destruct Entp as [Hp _]. apply (no_pred0 p Hp). apply chk_flow. exact Hb. }
    destruct (find b c) as [[rowb afterb]|] eqn:Fb.
    + destruct (Ic b rowb afterb Fb) as [Entb' _].
      assert (K : rows_keys_ok row rowb = true).
      { apply rows_keys_ok_true. intros x.
        destruct Entb as [_ [_ [_ [_ [_ K1]]]]]. destruct Entb' as [_ [_ [_ [_ [_ K2]]]]].
        rewrite (K1 Hb0 x), (K2 Hb0 x). tauto. }
      rewrite K in H.
      destruct (rows_mismatch row rowb) as [|x xs] eqn:M.
      * apply (IH q' c e); auto. split; auto. intros p' b' Hin. apply Iq. simpl. auto.
      * inversion H. subst e. unfold err_ok. split; [discriminate|]. intros y Hy. rewrite <- M in Hy.
        destruct (rows_mismatch_In _ _ _ Hy) as [t1 [t2 [L1 [L2 Ne]]]].
        destruct Entb as [Hbn [_ [_ [[E1 [R1 S1]] _]]]]. destruct Entb' as [_ [_ [_ [[E2 [R2 S2]] _]]]].
        split.
        { apply live_iff'; auto. unfold row in L1. rewrite lookup_restrict in L1.
          destruct (memb y (live b)) eqn:My; [apply memb_In; auto|discriminate]. }
        exists E1, E2, t1, t2. repeat split; auto.
    + destruct (check_bb g F b row) as [after|e'] eqn:Cb.
      * apply (IH _ _ e) in H; auto. split.
        -- intros b' row' after' Hf. rewrite find_cons in Hf. destruct (Nat.eqb b' b) eqn:Q.
           ++ apply Nat.eqb_eq in Q. subst b'. inversion Hf. subst. auto.
           ++ apply Ic. exact Hf.
        -- intros p' b' Hin. apply in_app_or in Hin. destruct Hin as [Hin|Hin].
           ++ destruct (Iq p' b' (or_intror Hin)) as [[v Fv] Hc]. split; auto.
              rewrite find_cons. destruct (Nat.eqb p' b); eauto.
           ++ apply out_edges_In in Hin. destruct Hin as [-> Hs]. split.
              ** rewrite find_cons, Nat.eqb_refl. eauto.
              ** unfold chk. apply Nat.eqb_neq in Hb0. rewrite Hb0. exact Hs.
      * inversion H. subst e'. apply (check_bb_rej b row); auto.
Qed.

Lemma Inv_init : forall after, check_bb g F 0 E0 = Ok after ->
  Inv (out_edges 0 (flow_s g 0)) [(0, (E0, after))].
Proof.
  intros after H. destruct (check_bb_ok _ _ _ H) as [_ [Hu _]]. split.
  - intros b row after' Hf. rewrite find_cons in Hf. destruct (Nat.eqb b 0) eqn:Q; [|discriminate].
    apply Nat.eqb_eq in Q. subst. inversion Hf. subst. split; auto. apply entered_entry. auto.
  - intros p b Hin. apply out_edges_In in Hin. destruct Hin as [-> Hs]. split.
    + simpl. eauto.
    + unfold chk. simpl. exact Hs.
Qed.

Lemma check_cfg_sound : forall e, check_cfg g E0 glob s1 s2 = Rej e -> err_ok e.
Proof.
  intros e H. unfold check_cfg, check_cfg_with in H. fold F in H.
  destruct (check_bb g F 0 E0) as [after|e'] eqn:C0.
  - apply (bfs_sound _ _ _ e (Inv_init after C0) H).
  - inversion H. subst e'. apply (check_bb_rej 0 E0); auto. simpl. apply entered_entry.
Qed.
End Check.
