(** V.C08.ProofsBridgeC — from the builder's raw graph to the final (flagged, pruned) CFG, from
    item-labelled walks to the event CFG's path predicates, and the corollary that joins C03's
    builder model, this bridge and C08's [undef_exact]. *)
From Coq Require Import ZArith List Bool Lia.
From V.C08 Require Import CfgCheck Spec ProofsBase Bridge ProofsBridgeA ProofsBridgeB.
From V.C03 Require Import PyAst Cfg Builder ProofsBase ProofsExpr ProofsBranch ProofsStmtA ProofsStmtB ProofsStmtC ProofsReach.
Import ListNotations.

(** * the body of a function: raw graph *)
Lemma raw_walk : forall p final g' n',
  cf_stmts p = true ->
  visit_stmts p Cfg.entry_idx (Some Cfg.entry_idx) (mkJ Cfg.exit_idx None None) init_state = BOk final (mkB g' n') ->
  (grows (bs_blocks init_state) Cfg.entry_idx g' /\ rok (bs_blocks init_state) Cfg.entry_idx g' final) /\
  forall G, ext g' G -> forall items o, spath_l p items o -> exists c', walk G (0, 0) items c'.
Proof.
  intros p final g' n' F V.
  destruct wspec_all as (_&SS).
  assert (O0: opn (bs_blocks init_state) Cfg.entry_idx) by (unfold opn; simpl; auto).
  destruct (SS p Cfg.entry_idx (Some Cfg.entry_idx) (mkJ Cfg.exit_idx None None) (bs_blocks init_state) 0 final (mkB g' n') F V)
    as (g''&Eq&Gr&R&Sem).
  { simpl. unfold Cfg.exit_idx. lia. }
  { simpl. split; [exact O0|]. split; [unfold Cfg.entry_idx, Cfg.exit_idx; lia|].
    unfold jok. simpl. unfold Cfg.entry_idx, Cfg.exit_idx. repeat split; try lia; intros; discriminate. }
  inversion Eq; subst g''; clear Eq. simpl in Gr, R.
  split; [split; auto|].
  intros G E items o X.
  pose proof (Sem Cfg.entry_idx eq_refl G E items o X) as OS.
  change (slen (bs_blocks init_state) Cfg.entry_idx) with 0 in OS. unfold Cfg.entry_idx in OS.
  destruct o; simpl in OS.
  - destruct OS as (b'&_&T). eauto.
  - destruct OS as (b&_&T). eauto.
  - destruct OS as (b&_&T). eauto.
  - eauto.
  - exact OS.
Qed.

(** * flags and pruning keep every walk that starts in a reachable block *)
Lemma blk_overflow : forall (g : list block) i, length g <= i -> blk g i = empty_block.
Proof. intros. unfold blk. apply nth_overflow. auto. Qed.

Lemma walk_prune : forall (A g3 : list block) (fl : nat -> bool),
  length g3 = length A ->
  (forall i, blk g3 i = put_reach (fl i) (blk A i)) ->
  (forall i, i < length A -> fl i = true ->
     forall s, In s (b_succs (blk A i)) -> s < length A -> fl s = true) ->
  forall c items c', walk A c items c' -> (fl (fst c) = true \/ length A <= fst c) ->
  walk (prune g3) c items c'.
Proof.
  intros A g3 fl L B C c items c' W. induction W as [c|c i1 c1 i2 c2 S1 W IH]; intros Hc; [constructor|].
  assert (K : wstep (prune g3) c i1 c1 /\ (fl (fst c1) = true \/ length A <= fst c1)).
  { destruct Hc as [Hc|Hc].
    - assert (Same : b_stmts (blk (prune g3) (fst c)) = b_stmts (blk A (fst c)) /\
                     b_pred (blk (prune g3) (fst c)) = b_pred (blk A (fst c)) /\
                     b_succs (blk (prune g3) (fst c)) = b_succs (blk A (fst c))).
      { rewrite blk_prune, B. unfold pruneF. simpl. rewrite Hc. auto. }
      destruct Same as (S1'&S2'&S3').
      assert (Nxt : forall t, In t (b_succs (blk A (fst c))) -> fl t = true \/ length A <= t).
      { intros t Ht. destruct (Nat.lt_ge_cases t (length A)); auto. left.
        destruct (Nat.lt_ge_cases (fst c) (length A)) as [Lc|Lc].
        - apply (C (fst c) Lc Hc t Ht); auto.
        - rewrite blk_overflow in Ht by auto. destruct Ht. }
      inversion S1; subst; simpl in *.
      + split; [apply ws_stmt; rewrite S1'; auto|auto].
      + split; [|apply Nxt; auto]. rewrite <- S1'. apply ws_jump; [rewrite S2'; auto|rewrite S3'; auto].
      + split; [|apply Nxt; auto]. rewrite <- S1'. apply ws_branch; [rewrite S2'; auto|rewrite S3'; auto].
    - exfalso. inversion S1; subst; simpl in *; rewrite blk_overflow in * by auto; simpl in *.
      + destruct k; discriminate.
      + auto.
      + discriminate. }
  destruct K as (K1&K2). econstructor; eauto.
Qed.

(** * the final graph of [build] *)
Theorem build_walk : forall p rn g s,
  cf_stmts p = true -> build p rn = BOk g s ->
  forall items o, spath_l p items o -> exists c', walk g (0, 0) items c'.
Proof.
  intros p rn g s F B. unfold build in B.
  destruct (visit_stmts p Cfg.entry_idx (Some Cfg.entry_idx) (mkJ Cfg.exit_idx None None) init_state) as [final s1|] eqn:V; [|discriminate].
  destruct s1 as [g' n'].
  cbn [bs_blocks] in B.
  destruct (raw_walk p final g' n' F V) as ((Gr&R)&Run).
  pose proof (grows_length _ _ _ Gr) as Lg. simpl in Lg.
  assert (XS : b_succs (blk g' Cfg.exit_idx) = []).
  { destruct Gr as (L&Fo&_). destruct (Fo Cfg.exit_idx) as (_&_&S0); [simpl; unfold Cfg.exit_idx; lia | unfold Cfg.exit_idx, Cfg.entry_idx; lia |].
    rewrite S0. reflexivity. }
  destruct (mark_reachable g') as [g1|] eqn:M; [|discriminate].
  destruct (mark_spec g' g1) as (res&Lres&L1&B1&Cl&Ent); [unfold Cfg.exit_idx; lia | auto |].
  assert (Cl': forall i, i < length g' -> nth_reach res i = true ->
             forall s0, In s0 (b_succs (blk g' i)) -> s0 < length g' -> nth_reach res s0 = true).
  { intros i Hi Ri s0 Hs Ls. destruct (Cl i Hi Ri s0 Hs Ls) as [X|[]]; auto. }
  intros items o X.
  destruct final as [fb|].
  - simpl in R. destruct R as (Ob&Nfb&_). pose proof Ob as (Lfb&Sfb&_).
    set (A := upd_nth fb (add_succ Cfg.exit_idx) g') in *.
    assert (EA : ext g' A) by (eapply grows_ext; apply grows_link; exact Ob).
    destruct (Run A EA items o X) as (c'&RR). exists c'.
    set (g2 := upd_nth fb (add_succ Cfg.exit_idx) g1) in *.
    assert (LA: length A = length g') by (unfold A; apply upd_nth_length).
    assert (L2: length g2 = length g') by (unfold g2; rewrite upd_nth_length; auto).
    assert (B2: forall i, blk g2 i = put_reach (nth_reach res i) (blk A i)).
    { intros i. unfold g2, A. destruct (Nat.eq_dec fb i).
      - subst i. rewrite !blk_upd_same by lia. rewrite B1. reflexivity.
      - rewrite !blk_upd_other by auto. apply B1. }
    assert (SA: forall i, b_succs (blk A i) = if Nat.eqb i fb then [Cfg.exit_idx] else b_succs (blk g' i)).
    { intros i. unfold A. destruct (Nat.eqb_spec i fb).
      - subst. rewrite blk_upd_same by auto. simpl. rewrite Sfb. auto.
      - rewrite blk_upd_other by auto. auto. }
    assert (BR : blk_reach g2 fb = nth_reach res fb).
    { unfold blk_reach. rewrite nth_error_blk by lia. rewrite B2. reflexivity. }
    rewrite BR in B.
    destruct (nth_reach res fb) eqn:Rfb.
    + destruct rn; [|discriminate]. inversion B; subst; clear B.
      set (fl := fun i => if Nat.eqb i Cfg.exit_idx then true else nth_reach res i).
      assert (H1 : length (upd_nth Cfg.exit_idx (put_reach true) g2) = length A) by (rewrite upd_nth_length; lia).
      assert (H2 : forall i, blk (upd_nth Cfg.exit_idx (put_reach true) g2) i = put_reach (fl i) (blk A i)).
      { intros i. unfold fl. destruct (Nat.eqb_spec i Cfg.exit_idx).
        - subst. rewrite blk_upd_same by (unfold Cfg.exit_idx; lia). rewrite B2. reflexivity.
        - rewrite blk_upd_other by auto. apply B2. }
      assert (H3 : forall i, i < length A -> fl i = true ->
                forall s0, In s0 (b_succs (blk A i)) -> s0 < length A -> fl s0 = true).
      { intros i Hi Fi s0 Hs Ls. unfold fl in *. rewrite SA in Hs. rewrite LA in *.
        destruct (Nat.eqb_spec s0 Cfg.exit_idx); auto.
        destruct (Nat.eqb_spec i fb).
        - destruct Hs as [Hs|[]]. congruence.
        - destruct (Nat.eqb_spec i Cfg.exit_idx).
          + subst. rewrite XS in Hs. destruct Hs.
          + exact (Cl' i Hi Fi s0 Hs Ls). }
      apply (walk_prune A _ fl H1 H2 H3 _ _ _ RR). left. unfold fl. simpl. exact Ent.
    + inversion B; subst; clear B.
      assert (H1 : length g2 = length A) by lia.
      assert (H3 : forall i, i < length A -> nth_reach res i = true ->
                forall s0, In s0 (b_succs (blk A i)) -> s0 < length A -> nth_reach res s0 = true).
      { intros i Hi Fi s0 Hs Ls. rewrite SA in Hs. rewrite LA in *.
        destruct (Nat.eqb_spec i fb); [subst; congruence|]. exact (Cl' i Hi Fi s0 Hs Ls). }
      apply (walk_prune A _ (nth_reach res) H1 B2 H3 _ _ _ RR). left. exact Ent.
  - inversion B; subst; clear B.
    destruct (Run g' (ext_refl g') items o X) as (c'&RR). exists c'.
    apply (walk_prune g' _ (nth_reach res) L1 B1 Cl' _ _ _ RR). left. exact Ent.
Qed.

(** * from walks to the path predicates of the event CFG *)
Lemma eblk_ecfg_of : forall G b,
  eblk (ecfg_of G) b = mkEB (b_succs (blk G b)) (b_dummy (blk G b)) (ev_block (blk G b)).
Proof.
  intros. unfold eblk, ecfg_of, blk.
  change empty_eb with ((fun b0 => mkEB (b_succs b0) (b_dummy b0) (ev_block b0)) empty_block).
  apply map_nth.
Qed.
Lemma nb_ecfg_of : forall G, nb (ecfg_of G) = length G.
Proof. intros. unfold nb, ecfg_of. apply map_length. Qed.
Lemma evs_ecfg_of : forall G b, evs (ecfg_of G) b = ev_block (blk G b).
Proof. intros. unfold evs. rewrite eblk_ecfg_of. reflexivity. Qed.
Lemma flow_ecfg_of : forall G b, flow (ecfg_of G) b = b_succs (blk G b) ++ b_dummy (blk G b).
Proof. intros. unfold flow. rewrite eblk_ecfg_of. reflexivity. Qed.

Lemma assigns_app : forall x l1 l2, assigns x (l1 ++ l2) <-> assigns x l1 \/ assigns x l2.
Proof.
  intros. unfold assigns. split.
  - intros (e&H&D). apply in_app_or in H. destruct H; [left|right]; eauto.
  - intros [(e&H&D)|(e&H&D)]; exists e; split; auto; apply in_or_app; auto.
Qed.
Lemma uses_no_assign : forall x e, ~ assigns x (uses e).
Proof.
  intros x e (ev&H&D). unfold uses in H. apply in_map_iff in H. destruct H as (y&<-&_). exact D.
Qed.
Lemma reads_first_app : forall x l1 l2, ~ assigns x l1 -> reads_first x l2 -> reads_first x (l1 ++ l2).
Proof.
  intros x l1. induction l1 as [|e t IH]; intros l2 N R; simpl; auto.
  right. split.
  - intros D. apply N. exists e. simpl. auto.
  - apply IH; auto. intros (e'&H&D). apply N. exists e'. simpl. auto.
Qed.
Lemma reads_first_prefix : forall x l1 l2, reads_first x l1 -> reads_first x (l1 ++ l2).
Proof.
  intros x l1. induction l1 as [|e t IH]; intros l2 R; simpl in *; [destruct R|].
  destruct R as [R|[N R]]; auto.
Qed.

Section ToEvents.
Variable G : list block.
Variable x : nat.

Definition nodef (items : list item) : Prop := forall it, In it items -> ~ assigns x (ev_item it).

(* the position is reached without assigning x *)
Definition clean (c : pos) : Prop :=
  reach_nodef (ecfg_of G) x (fst c) /\
  exists l1 l2, b_stmts (blk G (fst c)) = l1 ++ l2 /\ length l1 = snd c /\
                ~ assigns x (flat_map ev_stmt l1).

Lemma clean_block_end : forall b, clean (b, length (b_stmts (blk G b))) -> ~ assigns x (ev_block (blk G b)).
Proof.
  intros b (_&l1&l2&E&L&N). simpl in *.
  assert (l2 = []).
  { rewrite E in L. rewrite app_length in L. destruct l2; auto. simpl in L. lia. }
  subst. rewrite app_nil_r in E. unfold ev_block. rewrite E. intros H. apply assigns_app in H.
  destruct H as [H|H]; auto. destruct (b_pred (blk G b)); [exact (uses_no_assign x e H)|exact (assigns_nil x H)].
Qed.

Lemma in_range : forall b t, In t (b_succs (blk G b)) -> b < length G.
Proof.
  intros b t H. destruct (Nat.lt_ge_cases b (length G)); auto.
  rewrite blk_overflow in H by auto. destruct H.
Qed.

Lemma clean_step : forall c i1 c1, wstep G c i1 c1 -> clean c -> nodef i1 -> clean c1.
Proof.
  intros c i1 c1 S C N. inversion S as [b k s Hn|b t Hp Hs|b p t Hp Hs]; subst.
  - destruct C as (R&l1&l2&E&L&Nd). simpl in *. split; auto.
    rewrite E in Hn. rewrite nth_error_app2 in Hn by lia. rewrite L, Nat.sub_diag in Hn.
    destruct l2 as [|s' l2']; [discriminate|]. simpl in Hn. inversion Hn; subst s'.
    exists (l1 ++ [s]), l2'. split; [rewrite <- app_assoc; auto|]. split; [rewrite app_length; simpl; lia|].
    rewrite flat_map_app. simpl. rewrite app_nil_r. intros A. apply assigns_app in A. destruct A as [A|A]; auto.
    apply (N (IStmt s)); simpl; auto.
  - pose proof (clean_block_end b C) as Nb. destruct C as (R&_). simpl in *. split.
    + apply rn_step with b; auto.
      * rewrite nb_ecfg_of. eapply in_range; eauto.
      * rewrite evs_ecfg_of. exact Nb.
      * rewrite flow_ecfg_of. apply in_or_app. auto.
    + exists [], (b_stmts (blk G t)). simpl. split; auto. split; auto. apply assigns_nil.
  - pose proof (clean_block_end b C) as Nb. destruct C as (R&_). simpl in *. split.
    + apply rn_step with b; auto.
      * rewrite nb_ecfg_of. eapply in_range; eauto.
      * rewrite evs_ecfg_of. exact Nb.
      * rewrite flow_ecfg_of. apply in_or_app. auto.
    + exists [], (b_stmts (blk G t)). simpl. split; auto. split; auto. apply assigns_nil.
Qed.

Lemma step_reads : forall c last c1, wstep G c [last] c1 -> clean c -> reads_first x (ev_item last) ->
  fst c < length G /\ reach_nodef (ecfg_of G) x (fst c) /\ reads_first x (evs (ecfg_of G) (fst c)).
Proof.
  intros c last c1 S C R. inversion S as [b k s Hn|b t Hp Hs|b p t Hp Hs]; subst; simpl in *.
  - destruct C as (Rn&l1&l2&E&L&Nd). simpl in *.
    assert (Lb : b < length G).
    { destruct (Nat.lt_ge_cases b (length G)); auto. rewrite blk_overflow in Hn by auto. destruct k; discriminate. }
    split; auto. split; auto. rewrite evs_ecfg_of. unfold ev_block.
    rewrite E in Hn. rewrite nth_error_app2 in Hn by lia. rewrite L, Nat.sub_diag in Hn.
    destruct l2 as [|s' l2']; [discriminate|]. simpl in Hn. inversion Hn; subst s'.
    rewrite E, flat_map_app. simpl. rewrite <- !app_assoc. apply reads_first_app; auto.
    apply reads_first_prefix. exact R.
  - destruct C as (Rn&l1&l2&E&L&Nd). simpl in *.
    split; [eapply in_range; eauto|]. split; auto. rewrite evs_ecfg_of. unfold ev_block. rewrite Hp.
    assert (l2 = []).
    { rewrite E in L. rewrite app_length in L. destruct l2; auto. simpl in L. lia. }
    subst. rewrite app_nil_r in E. rewrite E. apply reads_first_app; auto.
Qed.

Lemma walk_to_use : forall c items c', walk G c items c' ->
  forall pre last, items = pre ++ [last] -> nodef pre -> reads_first x (ev_item last) -> clean c ->
  exists u, u < length G /\ reach_nodef (ecfg_of G) x u /\ reads_first x (evs (ecfg_of G) u).
Proof.
  intros c items c' W. induction W as [c|c i1 c1 i2 c2 S1 W IH]; intros pre last E N R C.
  - destruct pre; discriminate.
  - assert (Hi : i1 = [] \/ exists it, i1 = [it]) by (inversion S1; eauto).
    destruct Hi as [->|(it&->)].
    + simpl in E. apply (IH pre last E N R). apply (clean_step c [] c1 S1 C). intros it [].
    + destruct pre as [|p0 pre'].
      * simpl in E. inversion E; subst it. exists (fst c). apply (step_reads c last c1 S1 C R).
      * simpl in E. inversion E; subst it. apply (IH pre' last H1).
        -- intros it Hit. apply N. simpl. auto.
        -- exact R.
        -- apply (clean_step c [p0] c1 S1 C). intros it [<-|[]]. apply N. simpl. auto.
Qed.
End ToEvents.

(** * the bridge: a syntactic path to a read of x that assigns x nowhere before gives an
    assignment-free path of the event CFG of the built graph to a block reading x first *)
Theorem syntactic_path_to_cfg_path : forall p rn g s x pre last o,
  cf_stmts p = true -> build p rn = BOk g s ->
  spath_l p (pre ++ [last]) o -> nodef x pre -> reads_first x (ev_item last) ->
  exists u, u < nb (ecfg_of g) /\ reach_nodef (ecfg_of g) x u /\ reads_first x (evs (ecfg_of g) u).
Proof.
  intros p rn g s x pre last o F B X N R.
  destruct (build_walk p rn g s F B _ _ X) as (c'&W).
  rewrite nb_ecfg_of.
  apply (walk_to_use g x (0, 0) _ c' W pre last eq_refl N R).
  split; [apply rn_entry|]. exists [], (b_stmts (blk g 0)). simpl. split; auto. split; auto. apply assigns_nil.
Qed.
