(** V.C08.Spec — the path-based specification of C08, written from the property's wording on
    event-level CFGs and independently of the checker (no analysis result, no BFS, no
    VariableStats).  Definitions only. *)
From Coq Require Import List Bool Arith.
From V.C08 Require Import CfgCheck.
Import ListNotations.

(** what one event does to variable x *)
Definition ev_uses (e : event) (x : nat) : Prop :=
  match e with EUse y => y = x | EAssign _ (RCopy y) => y = x | EAssign _ (RLit _) => False end.
Definition ev_defs (e : event) (x : nat) : Prop :=
  match e with EAssign z _ => z = x | EUse _ => False end.

(** x is read in the event list before any assignment to it (Python: the read would see the
    value x had when the block was entered) *)
Fixpoint reads_first (x : nat) (evs : list event) : Prop :=
  match evs with
  | [] => False
  | e :: t => ev_uses e x \/ (~ ev_defs e x /\ reads_first x t)
  end.
(** x is assigned somewhere in the event list *)
Definition assigns (x : nat) (evs : list event) : Prop := exists e, In e evs /\ ev_defs e x.

Section Spec.
Variable g : ecfg.
Variable E0 : env.          (* the inputs: parameters (and captured variables) with their types *)

Definition nb : nat := length g.
Definition evs (b : nat) : list event := e_evs (eblk g b).
(** control-flow edges: real and dummy (never-taken) ones; predicate values are ignored *)
Definition flow (b : nat) : list nat := e_succ (eblk g b) ++ e_dsucc (eblk g b).
(** the edges along which check_cfg propagates types: every real edge, and the dummy edges
    that leave the entry block *)
Definition chk (b : nat) : list nat := if Nat.eqb b 0 then flow b else e_succ (eblk g b).

(** the START of block b is reached from the entry by a path on which x is never assigned *)
Inductive reach_nodef (x : nat) : nat -> Prop :=
| rn_entry : reach_nodef x 0
| rn_step p b : reach_nodef x p -> p < nb -> ~ assigns x (evs p) -> In b (flow p) -> reach_nodef x b.

(** a read of x in block u (before any assignment of that block) is reached by a path from the
    entry without an assignment to x; x is not an input *)
Definition undef_use (x u : nat) : Prop :=
  lookup x E0 = None /\ u < nb /\ reach_nodef x u /\ reads_first x (evs u).

(** from the start of block b some path reads x before reassigning it *)
Inductive live_at (x : nat) : nat -> Prop :=
| la_use b : b < nb -> reads_first x (evs b) -> live_at x b
| la_step b c : b < nb -> ~ assigns x (evs b) -> In c (flow b) -> live_at x c -> live_at x b.

(** block b can be entered with the typing E: E is produced by executing the assignments
    along some path of type-propagating edges from the entry *)
Inductive reach_env : nat -> env -> Prop :=
| re_entry : reach_env 0 E0
| re_step p E b : reach_env p E -> p < nb -> In b (chk p) -> reach_env b (exec (evs p) E).

(** x holds different types on two paths into s and is read after the join *)
Definition ty_conflict (x s : nat) : Prop :=
  live_at x s /\
  exists E1 E2 t1 t2, reach_env s E1 /\ reach_env s E2 /\
                      lookup x E1 = Some t1 /\ lookup x E2 = Some t2 /\ t1 <> t2.

(** well-formedness of the CFG (checked by the harness for every CFG of the real builder) *)
Definition wf_ecfg : Prop :=
  0 < nb /\ (forall b s, b < nb -> In s (flow b) -> s < nb) /\
  (forall p, p < nb -> ~ In 0 (flow p)).        (* the entry block has no predecessors *)
End Spec.
