(** V.C08.ProofsBridgeE — converse direction for if / while, and [bspec_all]. *)
From Coq Require Import ZArith List Bool Lia.
From V.C03 Require Import PyAst Cfg Builder ProofsBase ProofsExpr ProofsBranch ProofsStmtA ProofsStmtB ProofsStmtC.
From V.C08 Require Import CfgCheck Bridge ProofsBridgeA ProofsBridgeB ProofsBridgeD.
Import ListNotations.

Lemma bspec_if : forall c body orelse, stmts_bspec body -> stmts_bspec orelse ->
  stmt_bspec (SIf c body orelse).
Proof.
  intros c body orelse Hb Ho bb j g n r g' F V O Nb Ne J.
  simpl in F. apply andb_prop in F. destruct F as [F F3]. apply andb_prop in F. destruct F as [F1 F2].
  simpl in V.
  apply bind_inv in V. destruct V as (tb&s1&B1&V). unfold new_bb in B1; simpl in B1; inversion B1; subst; clear B1.
  apply bind_inv in V. destruct V as (eb&s1&B1&V). unfold new_bb in B1; simpl in B1; inversion B1; subst; clear B1.
  apply bind_inv in V. destruct V as ([]&s3&B3&V).
  apply bind_inv in V. destruct V as (te&s4&B4&V).
  apply bind_inv in V. destruct V as (ee&s5&B5&V).
  set (g1 := g ++ [empty_block]) in *. set (gg := g1 ++ [empty_block]) in *.
  assert (L1: length g1 = S (length g)) by (unfold g1; rewrite app_length; simpl; lia).
  assert (LG: length gg = S (S (length g))) by (unfold gg; rewrite app_length; simpl; lia).
  rewrite L1 in B3, B5.
  destruct (opn_app g bb empty_block O) as (O1&SL1). fold g1 in O1, SL1.
  destruct (opn_app g1 bb empty_block O1) as (O2&SL2). fold gg in O2, SL2.
  destruct (opn_new g) as (OT&SLT). fold g1 in OT, SLT.
  destruct (opn_app g1 (length g) empty_block OT) as (OT2&SLT2). fold gg in OT2, SLT2.
  destruct (opn_new g1) as (OE&SLE). fold gg in OE, SLE. rewrite L1 in OE, SLE.
  pose proof O as (Lb&_&_). unfold exit_idx in *.
  destruct (cf_branch c F1 bb (length g) (S (length g)) gg n s3 B3 O2) as (g3&->&Gr3&_).
  pose proof (cf_branch_inv c F1 bb (length g) (S (length g)) gg n g3 B3 O2) as Inv3.
  pose proof (grows_length _ _ _ Gr3) as L3.
  destruct (opn_after _ _ _ (length g) Gr3 OT2) as (OT3&SLT3); [lia|].
  destruct (opn_after _ _ _ (S (length g)) Gr3 OE) as (OE3&SLE3); [lia|].
  assert (J3: jok g3 (length g) j) by (eapply jok_mono; [exact J | lia | right; lia]).
  assert (CO3: cur_ok g3 (Some (length g)) j) by (simpl; split; [exact OT3 | split; [unfold exit_idx; lia | exact J3]]).
  destruct (proj2 wspec_all body (length g) (Some (length g)) j g3 n te s4 F2 B4) as (g4&->&Gr4&R4&_);
    [unfold exit_idx; lia | exact CO3 |].
  pose proof (Hb (length g) (length g) j g3 n te g4 F2 B4 ltac:(unfold exit_idx; lia) CO3) as Bk4.
  simpl in Gr4, R4.
  pose proof (grows_length _ _ _ Gr4) as L4.
  destruct (opn_after _ _ _ (S (length g)) Gr4 OE3) as (OE4&SLE4); [lia|].
  assert (J4: jok g4 (S (length g)) j) by (eapply jok_mono; [exact J | lia | right; lia]).
  assert (CO4: cur_ok g4 (Some (S (length g))) j) by (simpl; split; [exact OE4 | split; [unfold exit_idx; lia | exact J4]]).
  destruct (proj2 wspec_all orelse (S (length g)) (Some (S (length g))) j g4 n ee s5 F3 B5) as (g5&->&Gr5&R5&_);
    [unfold exit_idx; lia | exact CO4 |].
  pose proof (Ho (S (length g)) (S (length g)) j g4 n ee g5 F3 B5 ltac:(unfold exit_idx; lia) CO4) as Bk5.
  simpl in Gr5, R5.
  pose proof (grows_length _ _ _ Gr5) as L5.
  (* the part of the walk common to all merge shapes *)
  assert (Run: forall G, ext g5 G -> forall m items c', walkn G m (bb, slen g bb) items c' ->
            (items = []) \/
            exists i1 i2 o (t : bool) m', items = (ICond (core c) :: i1) ++ i2 /\ m = S m' /\
              (spath_l body i1 o \/ spath_l orelse i1 o) /\
              if t then bout G j g4 te o m' i2 c' else bout G j g5 ee o m' i2 c').
  { intros G E m items c' W.
    assert (E4: ext g4 G) by (eapply ext_trans; [eapply grows_ext; eauto | auto]).
    assert (E3: ext g3 G) by (eapply ext_trans; [eapply grows_ext; eauto | auto]).
    destruct (walkn_inv _ _ _ _ _ W) as [(_&->&_)|(m'&i0&c1&i3&->&->&Sx&T)]; auto. right.
    rewrite <- SL1, <- SL2  in Sx. destruct (Inv3 G E3 i0 c1 Sx) as (->&[->| ->]).
    - rewrite <- SLT, <- SLT2, <- SLT3 in T.
      destruct (Bk4 G E4 m' i3 c' T) as (i1&i2&o&->&P&BO).
      exists i1, i2, o, true, m'. simpl. repeat split; auto.
    - rewrite <- SLE, <- SLE3, <- SLE4 in T.
      destruct (Bk5 G E m' i3 c' T) as (i1&i2&o&->&P&BO).
      exists i1, i2, o, false, m'. simpl. repeat split; auto. }
  destruct te as [a|]; [destruct ee as [b|]|].
  - (* both branches fall through: merge block *)
    apply bind_inv in V. destruct V as (m&s6&B6&V). unfold new_bb in B6; simpl in B6; inversion B6; subst; clear B6.
    simpl in V. inversion V; subst; clear V.
    simpl in R4, R5. destruct R4 as (Oa4&Na&Da). destruct R5 as (Ob5&Nb5&Db).
    pose proof Oa4 as (La4&_&_).
    assert (Nae: a <> S (length g)) by (destruct Da; lia).
    assert (Nab: a <> b) by (destruct Db; lia).
    destruct (opn_after _ _ _ a Gr5 Oa4 Nae) as (Oa5&SLa5).
    set (g6 := g5 ++ [empty_block]).
    assert (L6: length g6 = S (length g5)) by (unfold g6; rewrite app_length; simpl; lia).
    destruct (opn_app g5 a empty_block Oa5) as (Oa6&SLa6). fold g6 in Oa6, SLa6.
    destruct (opn_app g5 b empty_block Ob5) as (Ob6&SLb6). fold g6 in Ob6, SLb6.
    destruct (opn_new g5) as (Om6&SLm6). fold g6 in Om6, SLm6.
    set (g7 := upd_nth a (add_succ (length g5)) g6).
    destruct (opn_link_other g6 a (length g5) b Ob6 (not_eq_sym Nab)) as (Ob7&SLb7). fold g7 in Ob7, SLb7.
    pose proof Oa5 as (La5&_&_). pose proof Ob5 as (Lb5&_&_).
    destruct (opn_link_other g6 a (length g5) (length g5) Om6) as (Om7&SLm7); [lia|]. fold g7 in Om7, SLm7.
    set (g8 := upd_nth b (add_succ (length g5)) g7).
    destruct (opn_link_other g7 b (length g5) (length g5) Om7) as (Om8&SLm8); [lia|]. fold g8 in Om8, SLm8.
    assert (G67: grows g6 a g7) by (apply grows_link; auto).
    assert (G78: grows g7 b g8) by (apply grows_link; auto).
    intros G E.
    assert (E7: ext g7 G) by (eapply ext_trans; [eapply grows_ext; eauto | auto]).
    assert (E6: ext g6 G) by (eapply ext_trans; [eapply grows_ext; eauto | auto]).
    assert (E5: ext g5 G) by (eapply ext_trans; [eapply grows_ext; apply grows_new with (bb := 0) | exact E6]).
    intros k items c' W.
    destruct (Run G E5 k items c' W) as [->|(i1&i2&o&t&m'&->&->&P&BO)].
    { exists [], [], OStop. split; auto. split; [simpl; auto|left; auto]. }
    exists (ICond (core c) :: i1), i2, o. split; auto. split; [simpl; right; exists i1; auto|].
    apply bout_mono with (n := m'); [|lia].
    destruct t.
    + eapply bout_then; [exact BO|]. intros i0 c1 Sx.
      rewrite SLm8, SLm7, SLm6. rewrite <- SLa5, <- SLa6  in Sx.
      exact (inv_link g6 a (length g5) G i0 c1 Oa6 E7 Sx).
    + eapply bout_then; [exact BO|]. intros i0 c1 Sx.
      rewrite SLm8, SLm7, SLm6. rewrite <- SLb6, <- SLb7  in Sx.
      exact (inv_link g7 b (length g5) G i0 c1 Ob7 E Sx).
  - (* else branch jumps: continue in the then branch's block *)
    simpl in V. inversion V; subst; clear V.
    simpl in R4. destruct R4 as (Oa4&Na&Da). pose proof Oa4 as (La4&_&_).
    assert (Nae: a <> S (length g)) by (destruct Da; lia).
    destruct (opn_after _ _ _ a Gr5 Oa4 Nae) as (Oa5&SLa5).
    intros G E k items c' W.
    destruct (Run G E k items c' W) as [->|(i1&i2&o&t&m'&->&->&P&BO)].
    { exists [], [], OStop. split; auto. split; [simpl; auto|left; auto]. }
    exists (ICond (core c) :: i1), i2, o. split; auto. split; [simpl; right; exists i1; auto|].
    apply bout_mono with (n := m'); [|lia].
    destruct t.
    + eapply bout_conv; [|exact BO]. intros b' Eb. inversion Eb; subst. auto.
    + eapply bout_conv; [|exact BO]. intros b' Eb. discriminate.
  - (* then branch jumps: continue in the else branch's block (or nowhere) *)
    simpl in V. inversion V; subst; clear V.
    intros G E k items c' W.
    destruct (Run G E k items c' W) as [->|(i1&i2&o&t&m'&->&->&P&BO)].
    { exists [], [], OStop. split; auto. split; [simpl; auto|left; auto]. }
    exists (ICond (core c) :: i1), i2, o. split; auto. split; [simpl; right; exists i1; auto|].
    apply bout_mono with (n := m'); [|lia].
    destruct t.
    + eapply bout_conv; [|exact BO]. intros b' Eb. discriminate.
    + exact BO.
Qed.

Lemma bspec_while : forall c body orelse, stmts_bspec body -> stmt_bspec (SWhile c body orelse).
Proof.
  intros c body orelse Hb bb j g n r g' F V O Nb Ne J.
  simpl in F. apply andb_prop in F. destruct F as [F F3]. apply andb_prop in F. destruct F as [F1 F2].
  destruct orelse; [|discriminate]. clear F3.
  simpl in V.
  apply bind_inv in V. destruct V as (head&s1&B1&V). unfold new_bb in B1; simpl in B1; inversion B1; subst; clear B1.
  apply bind_inv in V. destruct V as ([]&s1&B1&V). unfold link, modify in B1; simpl in B1; inversion B1; subst; clear B1.
  apply bind_inv in V. destruct V as (bodyb&s1&B1&V). unfold new_bb in B1; simpl in B1; inversion B1; subst; clear B1.
  apply bind_inv in V. destruct V as (tail&s1&B1&V). unfold new_bb in B1; simpl in B1; inversion B1; subst; clear B1.
  apply bind_inv in V. destruct V as ([]&s5&B5&V).
  apply bind_inv in V. destruct V as (rb&s6&B6&V).
  apply bind_inv in V. destruct V as ([]&s7&B7&V). simpl in V. inversion V; subst; clear V.
  set (g1 := g ++ [empty_block]) in *.
  set (g2 := upd_nth bb (add_succ (length g)) g1) in *.
  set (g3 := g2 ++ [empty_block]) in *. set (g4 := g3 ++ [empty_block]) in *.
  pose proof O as (Lb&_&_). unfold exit_idx in *.
  assert (L1: length g1 = S (length g)) by (unfold g1; rewrite app_length; simpl; lia).
  assert (L2: length g2 = S (length g)) by (unfold g2; rewrite upd_nth_length; auto).
  assert (L3: length g3 = S (S (length g))) by (unfold g3; rewrite app_length; simpl; lia).
  assert (L4: length g4 = S (S (S (length g)))) by (unfold g4; rewrite app_length; simpl; lia).
  rewrite L2 in B5, B6. rewrite L3 in B5, B6.
  destruct (opn_app g bb empty_block O) as (O1&SL1). fold g1 in O1, SL1.
  destruct (opn_new g) as (OH1&SLH1). fold g1 in OH1, SLH1.
  destruct (opn_link_other g1 bb (length g) (length g) OH1) as (OH2&SLH2); [lia|]. fold g2 in OH2, SLH2.
  destruct (opn_app g2 (length g) empty_block OH2) as (OH3&SLH3). fold g3 in OH3, SLH3.
  destruct (opn_app g3 (length g) empty_block OH3) as (OH4&SLH4). fold g4 in OH4, SLH4.
  destruct (opn_new g2) as (OB3&SLB3). fold g3 in OB3, SLB3. rewrite L2 in OB3, SLB3.
  destruct (opn_app g3 (S (length g)) empty_block OB3) as (OB4&SLB4). fold g4 in OB4, SLB4.
  destruct (opn_new g3) as (OT4&SLT4). fold g4 in OT4, SLT4. rewrite L3 in OT4, SLT4.
  destruct (cf_branch c F1 (length g) (S (length g)) (S (S (length g))) g4 n s5 B5 OH4)
    as (g5&->&Gr5&_).
  pose proof (cf_branch_inv c F1 (length g) (S (length g)) (S (S (length g))) g4 n g5 B5 OH4) as Inv5.
  pose proof (grows_length _ _ _ Gr5) as L5.
  destruct (opn_after _ _ _ (S (length g)) Gr5 OB4) as (OB5&SLB5); [lia|].
  destruct (opn_after _ _ _ (S (S (length g))) Gr5 OT4) as (OT5&SLT5); [lia|].
  set (j' := mkJ (j_ret j) (Some (length g)) (Some (S (S (length g))))) in *.
  assert (J5: jok g5 (S (length g)) j').
  { destruct J as (A&B&_&_). unfold jok, j'. simpl. split; [lia|]. split; [lia|]. split.
    - intros c0 E. inversion E; subst. lia.
    - intros c0 E. inversion E; subst. lia. }
  assert (CO5: cur_ok g5 (Some (S (length g))) j') by (simpl; split; [exact OB5 | split; [unfold exit_idx; lia | exact J5]]).
  destruct (proj2 wspec_all body (S (length g)) (Some (S (length g))) j' g5 n rb s6 F2 B6) as (g6&->&Gr6&R6&_);
    [unfold exit_idx; lia | exact CO5 |].
  pose proof (Hb (S (length g)) (S (length g)) j' g5 n rb g6 F2 B6 ltac:(unfold exit_idx; lia) CO5) as Bk6.
  simpl in Gr6, R6.
  pose proof (grows_length _ _ _ Gr6) as L6.
  destruct (opn_after _ _ _ (S (S (length g))) Gr6 OT5) as (OT6&SLT6); [lia|].
  assert (E2of: forall G, ext g5 G -> ext g2 G).
  { intros G E. eapply ext_trans; [| exact E]. eapply ext_trans; [| eapply grows_ext; exact Gr5].
    eapply ext_trans; [eapply grows_ext; apply grows_new with (bb := 0) |].
    eapply grows_ext. apply grows_new with (bb := 0). }
  assert (grows g6 (match rb with Some e => e | None => 0 end) g' /\
            slen g' (S (S (length g))) = 0 /\
            (forall G, ext g' G -> forall e, rb = Some e -> forall i0 c1,
               wstep G (e, slen g6 e) i0 c1 -> i0 = [] /\ c1 = (length g, 0)))
    as (Gr7&SLT7&Back).
  { destruct rb as [e|].
    - unfold link, modify in B7. simpl in B7. inversion B7; subst; clear B7.
      simpl in R6. destruct R6 as (Oe&Ne6&De). pose proof Oe as (Le&_&_).
      destruct (opn_link_other g6 e (length g) (S (S (length g))) OT6) as (OT7&SLT7); [destruct De; lia|].
      split; [apply grows_link; exact Oe|].
      split; [rewrite SLT7, SLT6, SLT5; exact SLT4|].
      intros G E e0 Eq i0 c1 Sx. inversion Eq; subst e0. exact (inv_link g6 e (length g) G i0 c1 Oe E Sx).
    - simpl in B7. inversion B7; subst; clear B7.
      split; [apply grows_refl|]. split; [rewrite SLT6, SLT5; exact SLT4|].
      intros G E e Eq. discriminate. }
  intros G E.
  assert (E6: ext g6 G) by (eapply ext_trans; [eapply grows_ext; exact Gr7 | exact E]).
  assert (E5: ext g5 G) by (eapply ext_trans; [eapply grows_ext; exact Gr6 | exact E6]).
  pose proof (E2of G E5) as E2.
  (* the loop, from the head block: strong induction on the number of steps *)
  assert (Loop: forall k items c', walkn G k (length g, 0) items c' ->
            exists i1 i2 o, items = i1 ++ i2 /\ sloop (spath_l body) (ICond (core c)) i1 o /\
                            bout G j g' (Some (S (S (length g)))) o k i2 c').
  { intros k. induction k as [k IH] using lt_wf_ind. intros items c' W.
    destruct (walkn_inv _ _ _ _ _ W) as [(_&->&_)|(m'&i0&c1&i3&->&->&Sx&T)].
    { exists [], [], OStop. split; auto. split; [constructor|left; auto]. }
    rewrite <- SLH1, <- SLH2, <- SLH3, <- SLH4  in Sx.
    destruct (Inv5 G E5 i0 c1 Sx) as (->&[->| ->]).
    - (* into the body *)
      rewrite <- SLB3, <- SLB4, <- SLB5 in T.
      destruct (Bk6 G E6 m' i3 c' T) as (i1&i2&o1&->&P1&BO).
      assert (Short : i2 = [] -> exists i1' i2' o, (ICond (core c) :: i1) ++ i2 = i1' ++ i2' /\
                 sloop (spath_l body) (ICond (core c)) i1' o /\ bout G j g' (Some (S (S (length g)))) o (S m') i2' c').
      { intros ->. destruct o1.
        - exists (ICond (core c) :: i1 ++ []), [], OStop. split; [rewrite !app_nil_r; auto|].
          split; [eapply sl_next; eauto; constructor|left; auto].
        - exists (ICond (core c) :: i1), [], ONorm. split; auto. split; [apply sl_brk; auto|left; auto].
        - exists (ICond (core c) :: i1 ++ []), [], OStop. split; [rewrite !app_nil_r; auto|].
          split; [eapply sl_next; eauto; constructor|left; auto].
        - exists (ICond (core c) :: i1), [], ORet. split; auto. split; [apply sl_out; auto|left; auto].
        - exists (ICond (core c) :: i1), [], OStop. split; auto. split; [apply sl_out; auto|left; auto]. }
      destruct BO as [Z|BO]; [exact (Short Z)|].
      destruct o1.
      + destruct BO as (e&m1&->&Lm&T1).
        destruct (walkn_inv _ _ _ _ _ T1) as [(_&Z&_)|(m2&i4&c4&i5&->&->&S4&T4)]; [exact (Short Z)|].
        destruct (Back G E e eq_refl i4 c4 S4) as (->&->).
        destruct (IH m2 ltac:(lia) i5 c' T4) as (i6&i7&o&->&L6'&BO6).
        exists (ICond (core c) :: i1 ++ i6), i7, o. split; [simpl; rewrite <- app_assoc; auto|].
        split; [eapply sl_next; eauto|]. eapply bout_mono; eauto; lia.
      + destruct BO as (b&m1&Eq&Lm&T1). unfold j' in Eq. simpl in Eq. inversion Eq; subst b.
        exists (ICond (core c) :: i1), i2, ONorm. split; auto. split; [apply sl_brk; auto|].
        right. exists (S (S (length g))), m1. rewrite SLT7. repeat split; auto; lia.
      + destruct BO as (b&m1&Eq&Lm&T1). unfold j' in Eq. simpl in Eq. inversion Eq; subst b.
        destruct (IH m1 ltac:(lia) i2 c' T1) as (i6&i7&o&->&L6'&BO6).
        exists (ICond (core c) :: i1 ++ i6), i7, o. split; [simpl; rewrite <- app_assoc; auto|].
        split; [eapply sl_next; eauto|]. eapply bout_mono; eauto; lia.
      + destruct BO as (m1&Lm&T1). unfold j' in T1. simpl in T1.
        exists (ICond (core c) :: i1), i2, ORet. split; auto. split; [apply sl_out; auto|].
        right. exists m1. split; auto; lia.
      + destruct BO.
    - (* out of the loop *)
      exists [ICond (core c)], i3, ONorm. split; auto. split; [constructor|].
      right. exists (S (S (length g))), m'. rewrite SLT7. repeat split; auto. }
  intros k items c' W.
  destruct (walkn_inv _ _ _ _ _ W) as [(_&->&_)|(m'&i0&c1&i3&->&->&Sx&T)].
  { exists [], [], OStop. split; auto. split; [simpl; constructor|left; auto]. }
  rewrite <- SL1  in Sx. destruct (inv_link g1 bb (length g) G i0 c1 O1 E2 Sx) as (->&->).
  destruct (Loop m' i3 c' T) as (i1&i2&o&->&L&BO).
  exists i1, i2, o. split; auto. split; [exact L|]. rewrite L3. eapply bout_mono; eauto.
Qed.

Theorem bspec_all : (forall s, stmt_bspec s) /\ (forall ss, stmts_bspec ss).
Proof.
  apply stmt_mutind; intros.
  - apply bspec_assign.
  - apply bspec_aug.
  - apply bspec_expr.
  - apply bspec_if; auto.
  - apply bspec_while; auto.
  - apply bspec_break.
  - apply bspec_continue.
  - apply bspec_pass.
  - apply bspec_return.
  - apply bspec_nil.
  - apply bspec_cons; auto.
Qed.
