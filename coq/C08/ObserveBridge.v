(** V.C08.ObserveBridge — what the harness prints to compare [ecfg_of (build p)] (C03's builder
    model read as an event CFG) with the event CFG extracted from the real builder's CFG. *)
From Coq Require Import ZArith List Bool.
From V.C03 Require Import PyAst Cfg Builder.
From V.C08 Require Import CfgCheck Bridge.
Import ListNotations.

Definition enc_event (e : event) : nat * nat * nat :=
  match e with
  | EUse x => (0, x, 0)
  | EAssign x (RLit _) => (1, x, 0)
  | EAssign x (RCopy y) => (2, x, y)
  end.
(* the boolean form of [wf_ecfg] (Props.wf_by_cases proves that it implies [wf_ecfg]) *)
Definition wf_ecfgb (g : ecfg) : bool :=
  (0 <? length g) &&
  forallb (fun b => forallb (fun s => (s <? length g) && negb (s =? 0)) (flow_s g b)) (seq 0 (length g)).
Definition bridge_t : Type := (bool * (bool * bool) * list (list nat * list nat * list (nat * nat * nat)))%type.
Definition obs_bridge (p : stmts) : bridge_t :=
  match build p false with
  | BOk g _ => (true, (cf_stmts p, wf_ecfgb (ecfg_of g)),
                map (fun b => (e_succ b, e_dsucc b, map enc_event (e_evs b))) (ecfg_of g))
  | BErr _ => (false, (cf_stmts p, false), [])
  end.
