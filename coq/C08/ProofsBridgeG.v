(** V.C08.ProofsBridgeG — the graph built by C03's model of CFGBuilder is well formed in the
    sense of C08's [wf_ecfg]: successor / dummy-successor indices are existing blocks and
    nothing jumps to the entry block. *)
From Coq Require Import ZArith List Bool Lia.
From V.C08 Require Import CfgCheck Spec Bridge ProofsBridgeA ProofsBridgeC ProofsBridgeF.
From V.C03 Require Import PyAst Cfg Builder ProofsBase ProofsExpr ProofsBranch ProofsStmtA ProofsReach.
Import ListNotations.

Definition edges (b : block) : list nat := b_succs b ++ b_dummy b.
Definition okid (g : list block) (t : nat) : Prop := 0 < t < length g.
Definition Jinv (g : list block) : Prop :=
  2 <= length g /\ forall b t, In t (edges (blk g b)) -> okid g t.
Definition jvalid (g : list block) (j : jumps) : Prop :=
  okid g (j_ret j) /\ (forall c, j_cont j = Some c -> okid g c) /\ (forall c, j_brk j = Some c -> okid g c).

Lemma okid_mono : forall g g' t, okid g t -> length g <= length g' -> okid g' t.
Proof. unfold okid. intros. lia. Qed.
Lemma jvalid_mono : forall g g' j, jvalid g j -> length g <= length g' -> jvalid g' j.
Proof. intros g g' j (A&B&C) L. split; [|split]; intros; eapply okid_mono; eauto. Qed.

Lemma J_new : forall g, Jinv g -> Jinv (g ++ [empty_block]).
Proof.
  intros g (L&H). split; [rewrite app_length; simpl; lia|]. intros b t Ht.
  destruct (Nat.lt_ge_cases b (length g)) as [Lb|Lb].
  - rewrite blk_app_old in Ht by auto. eapply okid_mono; [eapply H; eauto|rewrite app_length; simpl; lia].
  - exfalso. destruct (Nat.eq_dec b (length g)) as [->|N].
    + rewrite blk_app_new in Ht. destruct Ht.
    + rewrite blk_overflow in Ht by (rewrite app_length; simpl; lia). destruct Ht.
Qed.

Lemma J_upd : forall g i F (T : list nat), Jinv g ->
  (forall b t, In t (edges (F b)) -> In t (edges b) \/ In t T) -> (forall t, In t T -> okid g t) ->
  Jinv (upd_nth i F g).
Proof.
  intros g i F T (L&H) HF HT. split; [rewrite upd_nth_length; auto|]. intros b t Ht.
  assert (K : okid g t).
  { destruct (Nat.eq_dec i b) as [->|N].
    - destruct (Nat.lt_ge_cases b (length g)) as [Lb|Lb].
      + rewrite blk_upd_same in Ht by auto. destruct (HF _ _ Ht); eauto.
      + rewrite blk_overflow in Ht by (rewrite upd_nth_length; auto). destruct Ht.
    - rewrite blk_upd_other in Ht by auto. eauto. }
  unfold okid in *. rewrite upd_nth_length. exact K.
Qed.

Lemma J_link : forall g a t, Jinv g -> okid g t -> Jinv (upd_nth a (add_succ t) g).
Proof.
  intros g a t J O. apply J_upd with (T := [t]); auto.
  - intros b t0 Ht. unfold edges in *. simpl in Ht. rewrite <- app_assoc in Ht. apply in_app_or in Ht.
    destruct Ht as [Ht|Ht]; [left; apply in_or_app; auto|].
    simpl in Ht. destruct Ht as [<-|Ht]; [right; simpl; auto|left; apply in_or_app; auto].
  - intros t0 [<-|[]]. auto.
Qed.
Lemma J_dummy : forall g a t, Jinv g -> okid g t -> Jinv (upd_nth a (add_dummy t) g).
Proof.
  intros g a t J O. apply J_upd with (T := [t]); auto.
  - intros b t0 Ht. unfold edges in *. simpl in Ht. rewrite app_assoc in Ht. apply in_app_or in Ht.
    destruct Ht as [Ht|[<-|[]]]; [left; auto|right; simpl; auto].
  - intros t0 [<-|[]]. auto.
Qed.
Lemma J_push : forall g a s, Jinv g -> Jinv (upd_nth a (push_stmt s) g).
Proof. intros g a s J. apply J_upd with (T := []); auto. intros t []. Qed.
Lemma J_close : forall g bb p f t, Jinv g -> okid g f -> okid g t -> Jinv (upd_nth bb (closeF p f t) g).
Proof.
  intros g bb p f t J Of Ot. apply J_upd with (T := [f; t]); auto.
  - intros b t0 Ht. unfold edges in *. simpl in Ht. rewrite <- !app_assoc in Ht. apply in_app_or in Ht.
    destruct Ht as [Ht|Ht]; [left; apply in_or_app; auto|].
    simpl in Ht. destruct Ht as [<-|[<-|Ht]]; [right; simpl; auto|right; simpl; auto|left; apply in_or_app; auto].
  - intros t0 [<-|[<-|[]]]; auto.
Qed.

Lemma okid_new : forall g, Jinv g -> okid (g ++ [empty_block]) (length g).
Proof. intros g (L&_). unfold okid. rewrite app_length. simpl. lia. Qed.

Lemma J_branch : forall c, cf_cond c = true ->
  forall bb t f g n s', build_branch c bb t f (mkB g n) = BOk tt s' -> Jinv g -> okid g t -> okid g f ->
  Jinv (bs_blocks s') /\ length (bs_blocks s') = length g.
Proof.
  induction c; intros H bb tt0 ff0 g0 n0 s' B J Ot Of;
    (destruct (cf_cases _ H) as [(a&Eq&Ha)|(H1&H2)];
     [try discriminate |
      rewrite build_branch_generic in B by auto; unfold gen_branch, bind in B;
      rewrite build_lift_free in B by auto; simpl in B; rewrite close_branch_eq in B; inversion B; subst; simpl;
      split; [apply J_close; auto|apply upd_nth_length]]).
  inversion Eq; subst. simpl in B. apply (IHc Ha bb ff0 tt0 g0 n0 s' B); auto.
Qed.

Definition stmt_jspec (s : stmt) : Prop :=
  forall bb j g n r s', cf_stmt s = true -> visit_stmt s bb j (mkB g n) = BOk r s' ->
  Jinv g -> jvalid g j -> Jinv (bs_blocks s') /\ length g <= length (bs_blocks s').
Definition stmts_jspec (ss : stmts) : Prop :=
  forall prev cur j g n r s', cf_stmts ss = true -> visit_stmts ss prev cur j (mkB g n) = BOk r s' ->
  Jinv g -> jvalid g j -> Jinv (bs_blocks s') /\ length g <= length (bs_blocks s').

Ltac push_case V F :=
  simpl in V; unfold bind in V; rewrite build_lift_free in V by auto; simpl in V.

Lemma jspec_all : (forall s, stmt_jspec s) /\ (forall ss, stmts_jspec ss).
Proof.
  apply stmt_mutind.
  - intros t e bb j g n r s' F V J JV. simpl in F. push_case V F. inversion V; subst. simpl.
    split; [apply J_push; auto|rewrite upd_nth_length; auto].
  - intros x op e bb j g n r s' F V J JV. simpl in F. push_case V F. inversion V; subst. simpl.
    split; [apply J_push; auto|rewrite upd_nth_length; auto].
  - intros e bb j g n r s' F V J JV. simpl in F. apply andb_prop in F. destruct F as [F _]. push_case V F.
    destruct (is_tmp_name (fold_neg e)); simpl in V; inversion V; subst; simpl.
    + split; auto.
    + split; [apply J_push; auto|rewrite upd_nth_length; auto].
  - (* if *)
    intros c body Hb orelse Ho bb j g n r s' F V J JV.
    simpl in F. apply andb_prop in F. destruct F as [F F3]. apply andb_prop in F. destruct F as [F1 F2].
    simpl in V.
    apply bind_inv in V. destruct V as (tb&s1&B1&V). unfold new_bb in B1; simpl in B1; inversion B1; subst; clear B1.
    apply bind_inv in V. destruct V as (eb&s1&B1&V). unfold new_bb in B1; simpl in B1; inversion B1; subst; clear B1.
    apply bind_inv in V. destruct V as ([]&s3&B3&V).
    apply bind_inv in V. destruct V as (te&s4&B4&V).
    apply bind_inv in V. destruct V as (ee&s5&B5&V).
    set (g1 := g ++ [empty_block]) in *. set (gg := g1 ++ [empty_block]) in *.
    assert (L1: length g1 = S (length g)) by (unfold g1; rewrite app_length; simpl; lia).
    assert (LG: length gg = S (S (length g))) by (unfold gg; rewrite app_length; simpl; lia).
    rewrite L1 in B3, B5.
    assert (J1 : Jinv g1) by (apply J_new; auto).
    assert (JG : Jinv gg) by (apply J_new; auto).
    pose proof J as (L0&_).
    destruct (J_branch c F1 bb (length g) (S (length g)) gg n s3 B3 JG) as (J3&L3);
      [unfold okid; lia|unfold okid; lia|].
    destruct s3 as [g3 n3]. simpl in J3, L3.
    assert (JV3 : jvalid g3 j) by (eapply jvalid_mono; eauto; lia).
    destruct (Hb (length g) (Some (length g)) j g3 n3 te s4 F2 B4 J3 JV3) as (J4&L4).
    destruct s4 as [g4 n4]. simpl in J4, L4.
    assert (JV4 : jvalid g4 j) by (eapply jvalid_mono; eauto).
    destruct (Ho (S (length g)) (Some (S (length g))) j g4 n4 ee s5 F3 B5 J4 JV4) as (J5&L5).
    destruct s5 as [g5 n5]. simpl in J5, L5.
    destruct te as [a|]; [destruct ee as [b|]|].
    + apply bind_inv in V. destruct V as (m&s6&B6&V). unfold new_bb in B6; simpl in B6; inversion B6; subst; clear B6.
      simpl in V. inversion V; subst; clear V. simpl.
      assert (J6 : Jinv (g5 ++ [empty_block])) by (apply J_new; auto).
      assert (O6 : okid (g5 ++ [empty_block]) (length g5)) by (apply okid_new; auto).
      split.
      * apply J_link; [apply J_link; auto|]. unfold okid in *. rewrite upd_nth_length. exact O6.
      * rewrite !upd_nth_length, app_length. simpl. lia.
    + simpl in V. inversion V; subst; clear V. simpl. split; auto. lia.
    + simpl in V. inversion V; subst; clear V. simpl. split; auto. lia.
  - (* while *)
    intros c body Hb orelse Ho bb j g n r s' F V J JV.
    simpl in F. apply andb_prop in F. destruct F as [F F3]. apply andb_prop in F. destruct F as [F1 F2].
    destruct orelse; [|discriminate]. clear F3.
    simpl in V.
    apply bind_inv in V. destruct V as (head&s1&B1&V). unfold new_bb in B1; simpl in B1; inversion B1; subst; clear B1.
    apply bind_inv in V. destruct V as ([]&s1&B1&V). unfold link, modify in B1; simpl in B1; inversion B1; subst; clear B1.
    apply bind_inv in V. destruct V as (bodyb&s1&B1&V). unfold new_bb in B1; simpl in B1; inversion B1; subst; clear B1.
    apply bind_inv in V. destruct V as (tail&s1&B1&V). unfold new_bb in B1; simpl in B1; inversion B1; subst; clear B1.
    apply bind_inv in V. destruct V as ([]&s5&B5&V).
    apply bind_inv in V. destruct V as (rb&s6&B6&V).
    apply bind_inv in V. destruct V as ([]&s7&B7&V). simpl in V. inversion V; subst; clear V.
    set (g1 := g ++ [empty_block]) in *.
    set (g2 := upd_nth bb (add_succ (length g)) g1) in *.
    set (g3 := g2 ++ [empty_block]) in *. set (g4 := g3 ++ [empty_block]) in *.
    assert (L1: length g1 = S (length g)) by (unfold g1; rewrite app_length; simpl; lia).
    assert (L2: length g2 = S (length g)) by (unfold g2; rewrite upd_nth_length; auto).
    assert (L3: length g3 = S (S (length g))) by (unfold g3; rewrite app_length; simpl; lia).
    assert (L4: length g4 = S (S (S (length g)))) by (unfold g4; rewrite app_length; simpl; lia).
    rewrite L2 in B5, B6. rewrite L3 in B5, B6.
    pose proof J as (L0&_).
    assert (J1 : Jinv g1) by (apply J_new; auto).
    assert (J2 : Jinv g2) by (apply J_link; auto; unfold okid; lia).
    assert (J3 : Jinv g3) by (apply J_new; auto).
    assert (J4 : Jinv g4) by (apply J_new; auto).
    destruct (J_branch c F1 (length g) (S (length g)) (S (S (length g))) g4 n s5 B5 J4) as (J5&L5);
      [unfold okid; lia|unfold okid; lia|].
    destruct s5 as [g5 n5]. simpl in J5, L5.
    set (j' := mkJ (j_ret j) (Some (length g)) (Some (S (S (length g))))) in *.
    assert (JV5 : jvalid g5 j').
    { destruct JV as (A&_&_). split; [eapply okid_mono; eauto; lia|]. split; intros c0 E; inversion E; subst; unfold okid; lia. }
    destruct (Hb (S (length g)) (Some (S (length g))) j' g5 n5 rb s6 F2 B6 J5 JV5) as (J6&L6).
    destruct s6 as [g6 n6]. simpl in J6, L6.
    destruct rb as [e|].
    + unfold link, modify in B7. simpl in B7. inversion B7; subst; clear B7. simpl. split.
      * apply J_link; auto. unfold okid. lia.
      * rewrite upd_nth_length. lia.
    + simpl in B7. inversion B7; subst; clear B7. simpl. split; auto. lia.
  - (* break *)
    intros bb j g n r s' F V J JV. simpl in V.
    destruct (j_brk j) as [b|] eqn:JB; [|discriminate]. simpl in V. inversion V; subst; clear V. simpl.
    destruct JV as (_&_&C). split; [apply J_link; auto|rewrite upd_nth_length; auto].
  - (* continue *)
    intros bb j g n r s' F V J JV. simpl in V.
    destruct (j_cont j) as [b|] eqn:JB; [|discriminate]. simpl in V. inversion V; subst; clear V. simpl.
    destruct JV as (_&C&_). split; [apply J_link; auto|rewrite upd_nth_length; auto].
  - (* pass *)
    intros bb j g n r s' F V J JV. simpl in V. inversion V; subst. simpl. split; auto.
  - (* return *)
    intros e bb j g n r s' F V J JV. destruct JV as (A&_&_). destruct e as [e|]; simpl in F.
    + push_case V F. inversion V; subst; clear V. simpl. split.
      * apply J_link; [apply J_push; auto|]. unfold okid in *. rewrite upd_nth_length. exact A.
      * rewrite !upd_nth_length. auto.
    + simpl in V. inversion V; subst; clear V. simpl. split.
      * apply J_link; [apply J_push; auto|]. unfold okid in *. rewrite upd_nth_length. exact A.
      * rewrite !upd_nth_length. auto.
  - (* nil *)
    intros prev cur j g n r s' F V J JV. simpl in V. inversion V; subst. simpl. split; auto.
  - (* cons *)
    intros s Hs r Hr prev cur j g n rr s' F V J JV.
    simpl in F. apply andb_prop in F. destruct F as [F1 F2].
    destruct cur as [bb|].
    + assert (V' : (LET r1 <- visit_stmt s bb j IN visit_stmts r bb r1 j) (mkB g n) = BOk rr s') by exact V.
      apply bind_inv in V'. destruct V' as (r1&s1&V1&V2).
      destruct (Hs bb j g n r1 s1 F1 V1 J JV) as (J1&L1). destruct s1 as [g1 n1]. simpl in J1, L1.
      destruct (Hr bb r1 j g1 n1 rr s' F2 V2 J1 (jvalid_mono _ _ _ JV L1)) as (J2&L2). split; auto. lia.
    + simpl in V.
      set (b := length g) in *. set (g0 := upd_nth prev (add_dummy b) (g ++ [empty_block])).
      assert (V' : (LET r1 <- visit_stmt s b j IN visit_stmts r b r1 j) (mkB g0 n) = BOk rr s') by exact V.
      assert (J0 : Jinv g0).
      { unfold g0. apply J_dummy; [apply J_new; auto|]. apply okid_new; auto. }
      assert (L0 : length g0 = S (length g)) by (unfold g0; rewrite upd_nth_length, app_length; simpl; lia).
      apply bind_inv in V'. destruct V' as (r1&s1&V1&V2).
      assert (JV0 : jvalid g0 j) by (eapply jvalid_mono; eauto; lia).
      destruct (Hs b j g0 n r1 s1 F1 V1 J0 JV0) as (J1&L1). destruct s1 as [g1 n1]. simpl in J1, L1.
      destruct (Hr b r1 j g1 n1 rr s' F2 V2 J1 (jvalid_mono _ _ _ JV0 L1)) as (J2&L2). split; auto. lia.
Qed.

(** * the final graph *)
Lemma sub_graph_J : forall g A, length g = length A ->
  (forall i t, In t (edges (blk g i)) -> In t (edges (blk A i))) -> Jinv A -> Jinv g.
Proof.
  intros g A L S (LA&H). split; [lia|]. intros b t Ht. unfold okid. rewrite L. apply (H b t). apply S. exact Ht.
Qed.

Lemma prune_edges : forall A X (fl : nat -> bool),
  (forall i, blk X i = put_reach (fl i) (blk A i)) ->
  forall i t, In t (edges (blk (prune X) i)) -> In t (edges (blk A i)).
Proof.
  intros A X fl B i t Ht. rewrite blk_prune, B in Ht. unfold pruneF, edges in *. simpl in Ht.
  apply in_app_or in Ht. apply in_or_app. destruct Ht as [Ht|Ht].
  - left. destruct (fl i); auto. apply filter_In in Ht. tauto.
  - right. apply filter_In in Ht. tauto.
Qed.

Lemma prune_length : forall g, length (prune g) = length g.
Proof. intros. unfold prune. apply map_length. Qed.

Theorem build_wf : forall p rn g s, cf_stmts p = true -> build p rn = BOk g s -> wf_ecfg (ecfg_of g).
Proof.
  intros p rn g s F B.
  assert (JG : Jinv g).
  { unfold build in B.
    destruct (visit_stmts p Cfg.entry_idx (Some Cfg.entry_idx) (mkJ Cfg.exit_idx None None) init_state) as [final s1|] eqn:V; [|discriminate].
    assert (J0 : Jinv (bs_blocks init_state)).
    { split; [simpl; lia|]. intros b t Ht. exfalso. destruct b as [|[|b]]; simpl in Ht; try (destruct Ht; fail).
      unfold blk in Ht. simpl in Ht. destruct b; destruct Ht. }
    assert (JV0 : jvalid (bs_blocks init_state) (mkJ Cfg.exit_idx None None)).
    { split; [simpl; unfold okid, Cfg.exit_idx; simpl; lia|]. split; intros; discriminate. }
    destruct (proj2 jspec_all p Cfg.entry_idx (Some Cfg.entry_idx) (mkJ Cfg.exit_idx None None) (bs_blocks init_state) 0 final s1 F V J0 JV0) as (J1&L1).
    destruct s1 as [g' n']. simpl in J1, L1. cbn [bs_blocks] in B.
    destruct (mark_reachable g') as [g1|] eqn:M; [|discriminate].
    destruct (mark_spec g' g1) as (res&Lres&Lg1&B1&_&_); [simpl in L1; unfold Cfg.exit_idx; lia | auto |].
    destruct final as [fb|].
    - set (A := upd_nth fb (add_succ Cfg.exit_idx) g').
      assert (JA : Jinv A).
      { unfold A. apply J_link; auto. simpl in L1. unfold okid, Cfg.exit_idx. lia. }
      set (g2 := upd_nth fb (add_succ Cfg.exit_idx) g1) in *.
      assert (LA: length A = length g') by (unfold A; apply upd_nth_length).
      assert (L2: length g2 = length g') by (unfold g2; rewrite upd_nth_length; auto).
      assert (B2: forall i, blk g2 i = put_reach (nth_reach res i) (blk A i)).
      { intros i. unfold g2, A. destruct (Nat.eq_dec fb i).
        - subst i. destruct (Nat.lt_ge_cases fb (length g')) as [Lf|Lf].
          + rewrite !blk_upd_same by lia. rewrite B1. reflexivity.
          + rewrite !blk_overflow by (rewrite upd_nth_length; lia). rewrite <- (blk_overflow g' fb Lf) at 2. rewrite <- B1.
            rewrite blk_overflow by lia. reflexivity.
        - rewrite !blk_upd_other by auto. apply B1. }
      destruct (blk_reach g2 fb).
      + destruct rn; [|discriminate].
        remember (upd_nth Cfg.exit_idx (put_reach true) g2) as X eqn:EX.
        inversion B as [[HB Hs]]. clear B.
        assert (LX : length X = length g2) by (rewrite EX; apply upd_nth_length).
        assert (BX : forall i, blk X i = put_reach ((fun i => if Nat.eqb i Cfg.exit_idx then true else nth_reach res i) i) (blk A i)).
        { intros i. rewrite EX. destruct (Nat.eqb_spec i Cfg.exit_idx).
          - subst i. simpl in L1. rewrite blk_upd_same by (unfold Cfg.exit_idx; lia). rewrite B2. reflexivity.
          - rewrite blk_upd_other by auto. apply B2. }
        apply sub_graph_J with (A := A); auto.
        * rewrite prune_length. lia.
        * apply prune_edges with (fl := fun i => if Nat.eqb i Cfg.exit_idx then true else nth_reach res i). exact BX.
      + inversion B; subst; clear B. apply sub_graph_J with (A := A); auto.
        * rewrite prune_length. lia.
        * apply prune_edges with (fl := nth_reach res). exact B2.
    - inversion B; subst; clear B. apply sub_graph_J with (A := g'); auto.
      + rewrite prune_length. auto.
      + apply prune_edges with (fl := nth_reach res). exact B1. }
  destruct JG as (L&H). split; [rewrite nb_ecfg_of; lia|]. split.
  - intros b t Hb Ht. rewrite nb_ecfg_of in *. rewrite flow_ecfg_of in Ht. apply (H b t Ht).
  - intros b Hb Ht. rewrite flow_ecfg_of in Ht. destruct (H b 0 Ht). lia.
Qed.
