(** V.C08.ProofsBase — VariableStats, exec / restrict, and the bridge to C09's theorems. *)
From Coq Require Import List Bool Arith Lia.
From V.C09 Require Import Analysis SetLemmas Spec ProofsTop.
From V.C08 Require Import CfgCheck Spec.
Import ListNotations.

Lemma In_nat_dec' : forall (x : nat) l, In x l \/ ~ In x l.
Proof. intros. destruct (in_dec Nat.eq_dec x l); auto. Qed.

(** * compute_variable_stats *)
Lemma add_use_In : forall x y U A, In x (add_use y U A) <-> In x U \/ (y = x /\ ~ In x A).
Proof.
  intros. unfold add_use. destruct (memb y A) eqn:HA; simpl.
  - apply memb_In in HA. split; [auto|]. intros [H|[E H]]; auto. subst. tauto.
  - apply memb_false in HA. destruct (memb y U) eqn:HU.
    + apply memb_In in HU. split; auto. intros [H|[E _]]; auto. subst; auto.
    + rewrite in_app_iff. simpl. split.
      * intros [H|[H|[]]]; auto. subst. auto.
      * intros [H|[E _]]; auto.
Qed.

Lemma add_def_In : forall x z A, In x (add_def z A) <-> In x A \/ z = x.
Proof.
  intros. unfold add_def. destruct (memb z A) eqn:HA.
  - apply memb_In in HA. split; auto. intros [H|E]; auto. subst; auto.
  - rewrite in_app_iff. simpl. tauto.
Qed.

Lemma assigns_nil : forall x, ~ assigns x [].
Proof. intros x [e [[] _]]. Qed.
Lemma assigns_cons : forall x e t, assigns x (e :: t) <-> ev_defs e x \/ assigns x t.
Proof.
  intros. unfold assigns. split.
  - intros [e' [[E|H] D]]; [subst; auto|right; eauto].
  - intros [D|[e' [H D]]]; [exists e; simpl; auto|exists e'; simpl; auto].
Qed.

Lemma stats_acc_char : forall evs U A x,
  (In x (snd (stats_acc evs U A)) <-> In x A \/ assigns x evs) /\
  (In x (fst (stats_acc evs U A)) <-> In x U \/ (~ In x A /\ reads_first x evs)).
Proof.
  induction evs as [|e t IH]; intros U A x; simpl.
  - split; [|tauto]. pose proof (assigns_nil x). tauto.
  - destruct e as [y|z [ty|y]]; simpl.
    + destruct (IH (add_use y U A) A x) as [Ia Iu]. rewrite Ia, Iu, add_use_In, assigns_cons. simpl. tauto.
    + destruct (IH U (add_def z A) x) as [Ia Iu]. rewrite Ia, Iu, add_def_In, assigns_cons. simpl. tauto.
    + destruct (IH (add_use y U A) (add_def z A) x) as [Ia Iu].
      rewrite Ia, Iu, add_use_In, add_def_In, assigns_cons. simpl. tauto.
Qed.

Lemma used_char : forall evs x, In x (used_of evs) <-> reads_first x evs.
Proof. intros. unfold used_of. destruct (stats_acc_char evs [] [] x) as [_ H]. rewrite H. simpl. tauto. Qed.
Lemma assigned_char : forall evs x, In x (assigned_of evs) <-> assigns x evs.
Proof. intros. unfold assigned_of. destruct (stats_acc_char evs [] [] x) as [H _]. rewrite H. simpl. tauto. Qed.

(** * environments *)
Lemma lookup_cons : forall x z t E, lookup x ((z, t) :: E) = if Nat.eqb x z then Some t else lookup x E.
Proof. reflexivity. Qed.

Lemma lookup_keys : forall x E, In x (keys E) <-> lookup x E <> None.
Proof.
  intros x E. induction E as [|[z t] E IH]; simpl.
  - split; [tauto|congruence].
  - destruct (Nat.eqb x z) eqn:Q.
    + apply Nat.eqb_eq in Q. subst. split; [discriminate|auto].
    + apply Nat.eqb_neq in Q. rewrite <- IH. split; [intros [H|H]; [congruence|auto]|auto].
Qed.

Lemma lookup_exec_none : forall evs E x,
  lookup x (exec evs E) = None <-> lookup x E = None /\ ~ assigns x evs.
Proof.
  induction evs as [|e t IH]; intros E x; simpl.
  - pose proof (assigns_nil x). tauto.
  - destruct e as [y|z r]; rewrite IH, assigns_cons; simpl.
    + tauto.
    + destruct (Nat.eqb x z) eqn:Q.
      * apply Nat.eqb_eq in Q. subst. split; [intros [H _]; discriminate|intros [_ H]; exfalso; auto].
      * apply Nat.eqb_neq in Q. split; [intros [H N]; split; auto; intros [D|D]; auto|intros [H N]; split; auto].
Qed.

Definition sub (E1 E2 : env) : Prop := forall x t, lookup x E1 = Some t -> lookup x E2 = Some t.

Lemma exec_mono : forall evs E1 E2, sub E1 E2 ->
  (forall y, reads_first y evs -> lookup y E1 = None -> lookup y E2 = None) ->
  sub (exec evs E1) (exec evs E2).
Proof.
  induction evs as [|e t IH]; intros E1 E2 S R; simpl; auto.
  destruct e as [y|z r].
  - apply IH; auto. intros y' H. apply R. simpl. right. split; auto.
  - assert (T : rhs_ty r E1 = rhs_ty r E2).
    { destruct r as [ty|y]; simpl; auto.
      destruct (lookup y E1) eqn:L1.
      - rewrite (S _ _ L1). reflexivity.
      - rewrite (R y); auto. simpl. left. reflexivity. }
    rewrite T. apply IH.
    + intros x ty. rewrite !lookup_cons. destruct (Nat.eqb x z); auto.
    + intros y' H. rewrite !lookup_cons. destruct (Nat.eqb y' z) eqn:Q; [discriminate|].
      apply Nat.eqb_neq in Q. apply R. simpl. right. split; auto.
Qed.

Lemma lookup_app_single : forall x a (o : option nat) E,
  lookup x ((match o with Some t => [(a, t)] | None => [] end) ++ E) =
  if Nat.eqb x a then (match o with Some t => Some t | None => lookup x E end) else lookup x E.
Proof. intros. destruct o; simpl; destruct (Nat.eqb x a); reflexivity. Qed.

Lemma lookup_restrict : forall E l x,
  lookup x (restrict E l) = if memb x l then lookup x E else None.
Proof.
  intros E l x. unfold restrict. induction l as [|a l IH]; simpl; auto.
  fold (restrict E l) in *. rewrite lookup_app_single, IH.
  destruct (Nat.eqb x a) eqn:Q; simpl; auto.
  apply Nat.eqb_eq in Q. subst. destruct (lookup a E) eqn:L; auto.
  destruct (memb a l); auto.
Qed.

(** * bridge to C09 *)
Lemma blk_to_cfg : forall g b, blk (to_cfg g) b = to_block (eblk g b).
Proof.
  intros. unfold blk, to_cfg, eblk. change empty_block with (to_block empty_eb). apply map_nth.
Qed.
Lemma nblocks_to_cfg : forall g, nblocks (to_cfg g) = nb g.
Proof. intros. unfold nblocks, to_cfg, nb. apply map_length. Qed.
Lemma flow_to_cfg : forall g b, flow_succ true (to_cfg g) b = flow g b.
Proof. intros. unfold flow_succ, flow. rewrite blk_to_cfg. reflexivity. Qed.
Lemma use_to_cfg : forall g b x, In x (b_use (blk (to_cfg g) b)) <-> reads_first x (evs g b).
Proof. intros. rewrite blk_to_cfg. simpl. apply used_char. Qed.
Lemma def_to_cfg : forall g b x, In x (b_def (blk (to_cfg g) b)) <-> assigns x (evs g b).
Proof. intros. rewrite blk_to_cfg. simpl. apply assigned_char. Qed.

Lemma live_path_iff : forall g x b, live_on_path true (to_cfg g) x b <-> live_at g x b.
Proof.
  intros g x b. split; intro H.
  - induction H as [b Hb Hu|b c Hb Hd Hc _ IH].
    + apply la_use. { rewrite <- nblocks_to_cfg; auto. } apply use_to_cfg; auto.
    + apply la_step with c; auto.
      * rewrite <- nblocks_to_cfg; auto.
      * rewrite <- def_to_cfg; auto.
      * rewrite <- flow_to_cfg; auto.
  - induction H as [b Hb Hu|b c Hb Hd Hc _ IH].
    + apply lp_use. { rewrite nblocks_to_cfg; auto. } apply use_to_cfg; auto.
    + apply lp_step with c; auto.
      * rewrite nblocks_to_cfg; auto.
      * rewrite def_to_cfg; auto.
      * rewrite flow_to_cfg; auto.
Qed.

Lemma wf_to_cfg : forall g, wf_ecfg g -> wf_cfg (to_cfg g) = true.
Proof.
  intros g [_ [W _]]. unfold wf_cfg. apply forallb_forall. intros bl Hbl.
  apply In_nth with (d := empty_block) in Hbl. destruct Hbl as [b [Hb E]].
  fold (blk (to_cfg g) b) in E. subst bl. apply forallb_forall. intros s Hs.
  apply Nat.ltb_lt. rewrite nblocks_to_cfg. fold (nblocks (to_cfg g)) in Hb. rewrite nblocks_to_cfg in Hb.
  apply (W b s Hb). change (In s (flow_succ true (to_cfg g) b)) in Hs. rewrite flow_to_cfg in Hs. exact Hs.
Qed.

Lemma filter_nil : forall (A : Type) (f : A -> bool) l, (forall x, In x l -> f x = false) -> filter f l = [].
Proof.
  intros A f l. induction l as [|a l IH]; intros H; simpl; auto.
  rewrite (H a (or_introl eq_refl)). apply IH. intros; apply H; simpl; auto.
Qed.

Lemma entry_no_flow_pred : forall g, wf_ecfg g -> flow_pred true (to_cfg g) 0 = [].
Proof.
  intros g [_ [_ W]]. unfold flow_pred, inv_edges. apply filter_nil. intros p Hp.
  apply in_seq in Hp. rewrite nblocks_to_cfg in Hp. apply memb_false. rewrite flow_to_cfg. apply W. lia.
Qed.

(** * the analysis results, as the checker sees them *)
Section Facts.
Variable g : ecfg.
Variable E0 : env.
Variable glob s1 s2 : list nat.
Hypothesis W : wf_ecfg g.
Let F := analyze g (keys E0) glob s1 s2.
Let cg := to_cfg g.

Lemma analyze_fields :
  f_live F = liveness Repaired true cg [] s1 /\
  f_def F = fst (assignment Repaired cg (keys E0) (keys E0) s2) /\
  f_maybe F = snd (assignment Repaired cg (keys E0) (keys E0) s2) /\
  f_as F = keys E0 ++ flat_map b_def cg /\ f_glob F = glob.
Proof.
  unfold F, analyze. fold cg. destruct (assignment Repaired cg (keys E0) (keys E0) s2). simpl. auto.
Qed.

Lemma live_iff : forall b x, b < nb g -> (In x (getv (f_live F) b) <-> live_at g x b).
Proof.
  intros b x Hb. destruct analyze_fields as [-> _].
  rewrite <- live_path_iff.
  destruct (liveness_correct_lemma true cg [] (wf_to_cfg g W) s1 b x) as [H _].
  { unfold cg. rewrite nblocks_to_cfg. exact Hb. }
  apply H. simpl. tauto.
Qed.

Lemma def0_iff : forall x, In x (getv (f_def F) 0) <-> lookup x E0 <> None.
Proof.
  intros x. destruct analyze_fields as [_ [-> _]].
  destruct W as [W0 _].
  destruct (assignment_correct_lemma cg (keys E0) (keys E0) (wf_to_cfg g W) s2 0 x) as [H _].
  { unfold cg. rewrite nblocks_to_cfg. exact W0. }
  rewrite H. rewrite <- lookup_keys. unfold unassigned_before. unfold cg. rewrite (entry_no_flow_pred g W).
  unfold all_vars. rewrite in_app_iff. simpl.
  destruct (In_nat_dec' x (keys E0)) as [I|I].
  - split; auto. intros _. split; auto. intros [[_ N]|[p [[] _]]]. auto.
  - split; [|tauto]. intros [_ N]. exfalso. apply N. left. auto.
Qed.

Lemma maybe_iff : forall b x, b < nb g -> lookup x E0 = None ->
  (In x (getv (f_maybe F) b) <-> assigned_before cg (keys E0) x b).
Proof.
  intros b x Hb Hx. destruct analyze_fields as [_ [_ [-> _]]].
  destruct (assignment_correct_lemma cg (keys E0) (keys E0) (wf_to_cfg g W) s2 b x) as [_ [H _]].
  { unfold cg. rewrite nblocks_to_cfg. exact Hb. }
  apply H. rewrite lookup_keys. intros N. apply N. exact Hx.
Qed.

Lemma as_iff : forall x, In x (f_as F) <-> lookup x E0 <> None \/ exists b, b < nb g /\ assigns x (evs g b).
Proof.
  intros x. destruct analyze_fields as [_ [_ [_ [-> _]]]]. rewrite in_app_iff, lookup_keys, in_flat_map.
  split; intros [H|H]; auto; right.
  - destruct H as [bl [Hbl Hx]]. apply In_nth with (d := empty_block) in Hbl. destruct Hbl as [b [Hb E]].
    fold (blk cg b) in E. subst bl. exists b. split.
    + fold (nblocks cg) in Hb. unfold cg in Hb. rewrite nblocks_to_cfg in Hb. exact Hb.
    + apply def_to_cfg. exact Hx.
  - destruct H as [b [Hb Hx]]. exists (blk cg b). split.
    + unfold blk. apply nth_In. fold (nblocks cg). unfold cg. rewrite nblocks_to_cfg. exact Hb.
    + apply def_to_cfg. exact Hx.
Qed.

Lemma glob_eq : f_glob F = glob.
Proof. destruct analyze_fields as [_ [_ [_ [_ H]]]]. exact H. Qed.
End Facts.
