(** V.C08.ProofsBridgeD — converse direction: every walk along real edges of the graph
    CFGBuilder builds, started where a statement starts, spells a syntactic path of the statement
    followed by a walk from the corresponding exit.  Walk lemmas, simple statements, lists, if. *)
From Coq Require Import ZArith List Bool Lia.
From V.C03 Require Import PyAst Cfg Builder ProofsBase ProofsExpr ProofsBranch ProofsStmtA ProofsStmtB ProofsStmtC.
From V.C08 Require Import CfgCheck Bridge ProofsBridgeA ProofsBridgeB.
Import ListNotations.

(** * walks with a step count *)
Inductive walkn (G : list block) : nat -> pos -> list item -> pos -> Prop :=
| wn_refl c : walkn G 0 c [] c
| wn_cons n c i1 c1 i2 c2 : wstep G c i1 c1 -> walkn G n c1 i2 c2 -> walkn G (S n) c (i1 ++ i2) c2.

Lemma walk_walkn : forall G c items c', walk G c items c' -> exists n, walkn G n c items c'.
Proof.
  intros G c items c' W. induction W as [c|c i1 c1 i2 c2 St W (n&IH)].
  - exists 0. constructor.
  - exists (S n). econstructor; eauto.
Qed.
Lemma walkn_walk : forall G n c items c', walkn G n c items c' -> walk G c items c'.
Proof. intros G n c items c' W. induction W; econstructor; eauto. Qed.

Lemma walkn_inv : forall G n c items c', walkn G n c items c' ->
  (n = 0 /\ items = [] /\ c' = c) \/
  exists m i1 c1 i2, n = S m /\ items = i1 ++ i2 /\ wstep G c i1 c1 /\ walkn G m c1 i2 c'.
Proof. intros G n c items c' W. inversion W; subst; [left; auto|right]. eauto 10. Qed.

(** * the only step possible at a position the builder has just filled *)
Lemma inv_push : forall g bb s G i c1, opn g bb -> ext (upd_nth bb (push_stmt s) g) G ->
  wstep G (bb, slen g bb) i c1 -> i = [IStmt s] /\ c1 = (bb, S (slen g bb)).
Proof.
  intros g bb s G i c1 (L&S&P) (LG&E) W.
  assert (Lb : bb < length (upd_nth bb (push_stmt s) g)) by (rewrite upd_nth_length; auto).
  destruct (E bb Lb) as ((rest&R)&_). rewrite blk_upd_same in R by auto. simpl in R.
  assert (N : nth_error (b_stmts (blk G bb)) (slen g bb) = Some s).
  { rewrite R. unfold slen. rewrite <- app_assoc. rewrite nth_error_app2 by lia. rewrite Nat.sub_diag. reflexivity. }
  assert (Len : slen g bb < length (b_stmts (blk G bb))).
  { rewrite R. unfold slen. rewrite !app_length. simpl. lia. }
  inversion W as [b k s0 Hn|b t Hp Hs|b p t Hp Hs]; subst.
  - rewrite N in Hn. inversion Hn. auto.
  - exfalso. unfold slen in *. lia.
  - exfalso. unfold slen in *. lia.
Qed.

Lemma closed_block : forall g G bb F, opn g bb -> ext (upd_nth bb F g) G ->
  b_succs (F (blk g bb)) <> [] ->
  b_stmts (blk G bb) = b_stmts (F (blk g bb)) /\ b_pred (blk G bb) = b_pred (F (blk g bb)) /\
  b_succs (blk G bb) = b_succs (F (blk g bb)).
Proof.
  intros g G bb F (L&S&P) E N.
  destruct (ext_closed _ _ bb E) as (LG&A1&A2&A3).
  - rewrite upd_nth_length; auto.
  - rewrite blk_upd_same by auto. exact N.
  - rewrite blk_upd_same in A1, A2, A3 by auto. auto.
Qed.

Lemma inv_link : forall g bb t G i c1, opn g bb -> ext (upd_nth bb (add_succ t) g) G ->
  wstep G (bb, slen g bb) i c1 -> i = [] /\ c1 = (t, 0).
Proof.
  intros g bb t G i c1 O E W. pose proof O as (L&S&P).
  destruct (closed_block g G bb (add_succ t) O E) as (A1&A2&A3).
  { simpl. rewrite S. simpl. congruence. }
  simpl in A1, A2, A3. rewrite S in A3. simpl in A3.
  inversion W as [b k s0 Hn|b t0 Hp Hs|b p t0 Hp Hs]; subst.
  - exfalso. rewrite A1 in Hn. unfold slen in Hn.
    assert (nth_error (b_stmts (blk g bb)) (length (b_stmts (blk g bb))) = None) by (apply nth_error_None; auto).
    congruence.
  - rewrite A3 in Hs. destruct Hs as [<-|[]]. auto.
  - congruence.
Qed.

Lemma inv_branch : forall g bb p f t G i c1, opn g bb -> ext (upd_nth bb (closeF p f t) g) G ->
  wstep G (bb, slen g bb) i c1 -> i = [ICond p] /\ (c1 = (t, 0) \/ c1 = (f, 0)).
Proof.
  intros g bb p f t G i c1 O E W. pose proof O as (L&S&P).
  destruct (closed_block g G bb (closeF p f t) O E) as (A1&A2&A3).
  { simpl. rewrite S. simpl. congruence. }
  simpl in A1, A2, A3. rewrite S in A3. simpl in A3.
  inversion W as [b k s0 Hn|b t0 Hp Hs|b p0 t0 Hp Hs]; subst.
  - exfalso. rewrite A1 in Hn. unfold slen in Hn.
    assert (nth_error (b_stmts (blk g bb)) (length (b_stmts (blk g bb))) = None) by (apply nth_error_None; auto).
    congruence.
  - congruence.
  - rewrite A2 in Hp. inversion Hp; subst. rewrite A3 in Hs. destruct Hs as [<-|[<-|[]]]; auto.
Qed.

Lemma cf_generic_inv : forall c, lift_free c = true -> is_generic c = true ->
  forall bb t f g n g', build_branch c bb t f (mkB g n) = BOk tt (mkB g' n) -> opn g bb ->
  forall G, ext g' G -> forall i c1, wstep G (bb, slen g bb) i c1 ->
    i = [ICond (fold_neg c)] /\ (c1 = (t, 0) \/ c1 = (f, 0)).
Proof.
  intros c LF GE bb t f g n g' B O G E i c1 W.
  rewrite build_branch_generic in B by auto. unfold gen_branch, bind in B.
  rewrite build_lift_free in B by auto. simpl in B. rewrite close_branch_eq in B. inversion B; subst; clear B.
  eapply inv_branch; eauto.
Qed.

Lemma cf_branch_inv : forall c, cf_cond c = true ->
  forall bb t f g n g', build_branch c bb t f (mkB g n) = BOk tt (mkB g' n) -> opn g bb ->
  forall G, ext g' G -> forall i c1, wstep G (bb, slen g bb) i c1 ->
    i = [ICond (core c)] /\ (c1 = (t, 0) \/ c1 = (f, 0)).
Proof.
  induction c; intros H bb tt0 ff0 g0 n0 g' B O G E i0 cc1 W;
    (destruct (cf_cases _ H) as [(a&Eq&Ha)|(H1&H2)];
     [try discriminate | rewrite (core_generic _ H2); exact (cf_generic_inv _ H1 H2 bb tt0 ff0 g0 n0 g' B O G E i0 cc1 W)]).
  inversion Eq; subst. simpl in B. destruct (IHc Ha bb ff0 tt0 g0 n0 g' B O G E i0 cc1 W) as (A&[D|D]); simpl; auto.
Qed.

(** * what a walk does after the syntactic path of a statement (list) *)
Definition bout (G : list block) (j : jumps) (g' : list block) (r : option nat)
           (o : out) (n : nat) (i2 : list item) (c' : pos) : Prop :=
  i2 = [] \/
  match o with
  | ONorm => exists b' m, r = Some b' /\ m <= n /\ walkn G m (b', slen g' b') i2 c'
  | OBrk => exists b m, j_brk j = Some b /\ m <= n /\ walkn G m (b, 0) i2 c'
  | OCont => exists b m, j_cont j = Some b /\ m <= n /\ walkn G m (b, 0) i2 c'
  | ORet => exists m, m <= n /\ walkn G m (j_ret j, 0) i2 c'
  | OStop => False
  end.

Definition bwd (G : list block) (c : pos) (j : jumps) (g' : list block) (r : option nat)
           (P : list item -> out -> Prop) : Prop :=
  forall n items c', walkn G n c items c' ->
  exists i1 i2 o, items = i1 ++ i2 /\ P i1 o /\ bout G j g' r o n i2 c'.

Lemma bout_mono : forall G j g' r o n n' i2 c', bout G j g' r o n i2 c' -> n <= n' -> bout G j g' r o n' i2 c'.
Proof.
  intros G j g' r o n n' i2 c' [H|H] L; [left; auto|right]. destruct o; auto.
  - destruct H as (b&m&A&B&C). exists b, m. repeat split; auto; lia.
  - destruct H as (b&m&A&B&C). exists b, m. repeat split; auto; lia.
  - destruct H as (b&m&A&B&C). exists b, m. repeat split; auto; lia.
  - destruct H as (m&B&C). exists m. split; auto; lia.
Qed.

Lemma bout_conv : forall G j g' r g'' r' o n i2 c',
  (forall b', r = Some b' -> r' = Some b' /\ slen g'' b' = slen g' b') ->
  bout G j g' r o n i2 c' -> bout G j g'' r' o n i2 c'.
Proof.
  intros G j g' r g'' r' o n i2 c' H [B|B]; [left; auto|right]. destruct o; auto.
  destruct B as (b'&m&E&L&T). destruct (H b' E) as (E'&SL). exists b', m. rewrite SL. auto.
Qed.

Lemma bout_then : forall G j g' a g'' mg o n i2 c',
  bout G j g' (Some a) o n i2 c' ->
  (forall i c1, wstep G (a, slen g' a) i c1 -> i = [] /\ c1 = (mg, slen g'' mg)) ->
  bout G j g'' (Some mg) o n i2 c'.
Proof.
  intros G j g' a g'' mg o n i2 c' [B|B] H; [left; auto|]. destruct o; try (right; exact B).
  destruct B as (b'&m&E&L&T). inversion E; subst b'.
  destruct (walkn_inv _ _ _ _ _ T) as [(_&->&_)|(m'&i1&c1&i3&->&->&S&T')]; [left; auto|].
  destruct (H i1 c1 S) as (->&->). right. exists mg, m'. simpl. repeat split; auto. lia.
Qed.

Lemma stop_both : (forall s, spath_s s [] OStop) /\ (forall ss, spath_l ss [] OStop).
Proof.
  apply stmt_mutind; intros; simpl; auto; try (right; auto; fail).
  - constructor.
  - destruct e; right; auto.
  - right. split; auto. discriminate.
Qed.

(** * the specification *)
Definition stmt_bspec (s : stmt) : Prop :=
  forall bb j g n r g', cf_stmt s = true ->
  visit_stmt s bb j (mkB g n) = BOk r (mkB g' n) ->
  opn g bb -> bb <> exit_idx -> exit_idx < length g -> jok g bb j ->
  forall G, ext g' G -> bwd G (bb, slen g bb) j g' r (spath_s s).

Definition stmts_bspec (ss : stmts) : Prop :=
  forall prev bb j g n r g', cf_stmts ss = true ->
  visit_stmts ss prev (Some bb) j (mkB g n) = BOk r (mkB g' n) ->
  exit_idx < length g -> cur_ok g (Some bb) j ->
  forall G, ext g' G -> bwd G (bb, slen g bb) j g' r (spath_l ss).

(** * simple statements *)
Lemma push_bnormal : forall s bb j g G, opn g bb -> bb <> exit_idx ->
  ext (upd_nth bb (push_stmt s) g) G ->
  bwd G (bb, slen g bb) j (upd_nth bb (push_stmt s) g) (Some bb) (simple_path s ONorm).
Proof.
  intros s bb j g G O Nb E n items c' W. destruct (opn_push g bb s O) as (O1&SL1).
  destruct (walkn_inv _ _ _ _ _ W) as [(_&->&_)|(m&i1&c1&i2&->&->&S&T)].
  - exists [], [], OStop. split; auto. split; [right; auto|left; auto].
  - destruct (inv_push g bb s G i1 c1 O E S) as (->&->).
    exists [IStmt s], i2, ONorm. split; auto. split; [left; auto|].
    right. exists bb, m. rewrite SL1. repeat split; auto.
Qed.

Lemma push_breturn : forall s bb j g G, opn g bb -> bb <> exit_idx ->
  let g1 := upd_nth bb (push_stmt s) g in
  let g2 := upd_nth bb (add_succ (j_ret j)) g1 in
  ext g2 G -> bwd G (bb, slen g bb) j g2 None (simple_path s ORet).
Proof.
  intros s bb j g G O Nb g1 g2 E n items c' W.
  destruct (opn_push g bb s O) as (O1&SL1). fold g1 in O1, SL1.
  assert (E1: ext g1 G) by (eapply ext_trans; [eapply grows_ext; apply grows_link; exact O1 | exact E]).
  destruct (walkn_inv _ _ _ _ _ W) as [(_&->&_)|(m&i1&c1&i2&->&->&S&T)].
  - exists [], [], OStop. split; auto. split; [right; auto|left; auto].
  - destruct (inv_push g bb s G i1 c1 O E1 S) as (->&->).
    exists [IStmt s], i2, ORet. split; auto. split; [left; auto|].
    destruct (walkn_inv _ _ _ _ _ T) as [(_&->&_)|(m'&i3&c3&i4&->&->&S'&T')]; [left; auto|].
    rewrite <- SL1 in S'. destruct (inv_link g1 bb (j_ret j) G i3 c3 O1 E S') as (->&->).
    right. exists m'. simpl. split; auto.
Qed.

Lemma bspec_assign : forall t e, stmt_bspec (SAssign t e).
Proof.
  intros t e bb j g n r g' F V O Nb Ne J G E. simpl in F.
  simpl in V. unfold bind in V. rewrite build_lift_free in V by auto. simpl in V.
  inversion V; subst; clear V. simpl. apply push_bnormal; auto.
Qed.
Lemma bspec_aug : forall x op e, stmt_bspec (SAug x op e).
Proof.
  intros x op e bb j g n r g' F V O Nb Ne J G E. simpl in F.
  simpl in V. unfold bind in V. rewrite build_lift_free in V by auto. simpl in V.
  inversion V; subst; clear V. simpl. apply push_bnormal; auto.
Qed.
Lemma bspec_expr : forall e, stmt_bspec (SExpr e).
Proof.
  intros e bb j g n r g' F V O Nb Ne J G E. simpl in F. apply andb_prop in F. destruct F as [F1 F2].
  apply negb_true_iff in F2.
  simpl in V. unfold bind in V. rewrite build_lift_free in V by auto. simpl in V.
  rewrite (is_tmp_fold_false e F2) in V. simpl in V. inversion V; subst; clear V.
  simpl. apply push_bnormal; auto.
Qed.
Lemma bspec_return : forall e, stmt_bspec (SReturn e).
Proof.
  intros e bb j g n r g' F V O Nb Ne J G E. simpl in F.
  destruct e as [e|].
  - simpl in V. unfold bind in V. rewrite build_lift_free in V by auto. simpl in V.
    inversion V; subst; clear V. simpl. apply push_breturn; auto.
  - simpl in V. inversion V; subst; clear V. simpl. apply push_breturn; auto.
Qed.

Lemma bspec_pass : stmt_bspec SPass.
Proof.
  intros bb j g n r g' F V O Nb Ne J G E m items c' W. simpl in V. inversion V; subst; clear V.
  exists [], items, ONorm. split; auto. split; [simpl; auto|].
  right. exists bb, m. auto.
Qed.

Lemma bspec_jump : forall bb (j : jumps) g G b o,
  opn g bb -> ext (upd_nth bb (add_succ b) g) G -> (o = OBrk \/ o = OCont) ->
  (o = OBrk -> j_brk j = Some b) -> (o = OCont -> j_cont j = Some b) ->
  bwd G (bb, slen g bb) j (upd_nth bb (add_succ b) g) None (fun items o' => items = [] /\ (o' = o \/ o' = OStop)).
Proof.
  intros bb j g G b o O E Ho Hb Hc n items c' W.
  destruct (walkn_inv _ _ _ _ _ W) as [(_&->&_)|(m&i1&c1&i2&->&->&S&T)].
  - exists [], [], OStop. split; auto. split; [auto|left; auto].
  - destruct (inv_link g bb b G i1 c1 O E S) as (->&->).
    exists [], i2, o. split; auto. split; [auto|]. right.
    destruct Ho as [-> | ->]; exists b, m; auto.
Qed.

Lemma bspec_break : stmt_bspec SBreak.
Proof.
  intros bb j g n r g' F V O Nb Ne J G E. simpl in V.
  destruct (j_brk j) as [b|] eqn:JB; [|discriminate]. simpl in V. inversion V; subst; clear V.
  simpl. eapply bspec_jump; eauto; intros; try discriminate; auto.
Qed.
Lemma bspec_continue : stmt_bspec SContinue.
Proof.
  intros bb j g n r g' F V O Nb Ne J G E. simpl in V.
  destruct (j_cont j) as [b|] eqn:JB; [|discriminate]. simpl in V. inversion V; subst; clear V.
  simpl. eapply bspec_jump; eauto; intros; try discriminate; auto.
Qed.

(** * statement lists *)
Lemma bspec_nil : stmts_bspec SNil.
Proof.
  intros prev bb j g n r g' F V Ne CO G E m items c' W. simpl in V. inversion V; subst; clear V.
  exists [], items, ONorm. split; auto. split; [simpl; auto|]. right. exists bb, m. auto.
Qed.

Lemma bspec_cons : forall s r, stmt_bspec s -> stmts_bspec r -> stmts_bspec (SCons s r).
Proof.
  intros s r Hs Hr prev bb j g n rr g2 F V Ne CO G E.
  simpl in CO. destruct CO as (O&Nb&J).
  simpl in F. apply andb_prop in F. destruct F as [F1 F2].
  assert (V' : (LET r1 <- visit_stmt s bb j IN visit_stmts r bb r1 j) (mkB g n) = BOk rr (mkB g2 n)) by exact V.
  apply bind_inv in V'. destruct V' as (r1&s1&V1&V2).
  destruct (proj1 wspec_all s bb j g n r1 s1 F1 V1 O Nb Ne J) as (g1&->&Gr1&R1&_).
  pose proof (grows_length _ _ _ Gr1) as L1.
  assert (CO1: cur_ok g1 r1 j).
  { destruct r1 as [b1|]; simpl in *.
    - destruct R1 as (A&B&C). split; [exact A|]. split; [exact B|]. eapply jok_mono; eauto.
    - eapply jok_mono; eauto. }
  destruct (proj2 wspec_all r bb r1 j g1 n rr (mkB g2 n) F2 V2) as (g2'&Eq&Gr2&R2&_); [lia | auto |].
  inversion Eq; subst g2'; clear Eq.
  assert (E1: ext g1 G) by (eapply ext_trans; [eapply grows_ext; eauto | auto]).
  pose proof (Hs bb j g n r1 g1 F1 V1 O Nb Ne J G E1) as B1.
  intros m items c' W.
  destruct (B1 m items c' W) as (i1&i2&o&->&P1&[->|BO]).
  - (* the walk ends inside s *)
    destruct o.
    + exists i1, [], OStop. split; auto. split; [|left; auto].
      simpl. left. exists i1, []. split; [rewrite app_nil_r; auto|]. split; auto. apply (proj2 stop_both).
    + exists i1, [], OBrk. split; auto. split; [simpl; right; split; auto; discriminate|left; auto].
    + exists i1, [], OCont. split; auto. split; [simpl; right; split; auto; discriminate|left; auto].
    + exists i1, [], ORet. split; auto. split; [simpl; right; split; auto; discriminate|left; auto].
    + exists i1, [], OStop. split; auto. split; [simpl; right; split; auto; discriminate|left; auto].
  - destruct o.
    + destruct BO as (b1&m1&->&Lm&T1).
      pose proof (Hr bb b1 j g1 n rr g2 F2 V2) as B2.
      destruct (B2 ltac:(lia) CO1 G E m1 i2 c' T1) as (i21&i22&o2&->&P2&BO2).
      exists (i1 ++ i21), i22, o2. split; [rewrite app_assoc; auto|]. split.
      * simpl. left. exists i1, i21. auto.
      * eapply bout_mono; eauto.
    + exists i1, i2, OBrk. split; auto. split; [simpl; right; split; auto; discriminate|right; exact BO].
    + exists i1, i2, OCont. split; auto. split; [simpl; right; split; auto; discriminate|right; exact BO].
    + exists i1, i2, ORet. split; auto. split; [simpl; right; split; auto; discriminate|right; exact BO].
    + destruct BO.
Qed.
