(** V.C08.CfgCheck — executable model of the definedness / branch-type part of
    guppylang_internals/checker/cfg_checker.py (check_cfg, check_bb, check_rows_match) and of
    BB.compute_variable_stats (cfg/bb.py), on top of C09's model of the dataflow analyses.
    Definitions only; lemmas are in Proofs*.v, the property theorems in Props.v.

    A CFG is a list of blocks (block i = the i-th element = Python's bb.idx; entry = 0).
    A block carries its real successors, its dummy successors and the ORDERED list of variable
    events of its statements followed by its branch predicate:
       EUse x            a Name read (ast.Name in Load position, evaluation order)
       EAssign x r       an assignment to the name x whose right-hand side has already been
                         read; r = RLit t  (the type of the value is t whatever the context:
                         literals, calls with a fixed result type, iterator templates ...)
                         or  RCopy y (the type is the current type of variable y: `x = y`,
                         `x = y + 1`, `x += 1`; reading y is part of the event).
    A nested function definition `def g(..)` is, for the enclosing CFG, the events
    EUse c1 .. EUse ck (the outer variables live at the entry of g's CFG — what
    VariableVisitor.visit_NestedFunctionDef records) followed by EAssign g (RLit funty);
    its body is a CFG of its own, checked by a separate call of check_cfg whose inputs are the
    captured variables and the parameters.

    Variables and types are naturals.  Model of the code AFTER props/C08/fix-1.patch. *)
From Coq Require Import List Bool Arith.
From V.C09 Require Import Analysis.
Import ListNotations.

Inductive rhs := RLit (t : nat) | RCopy (y : nat).
Inductive event := EUse (x : nat) | EAssign (x : nat) (r : rhs).

Record eblock := mkEB {
  e_succ : list nat;     (* BB.successors *)
  e_dsucc : list nat;    (* BB.dummy_successors *)
  e_evs : list event     (* statements ++ branch_pred, as variable events *)
}.
Definition ecfg := list eblock.
Definition empty_eb := mkEB [] [] [].
Definition eblk (g : ecfg) (b : nat) : eblock := nth b g empty_eb.

(** * BB.compute_variable_stats  (VariableVisitor)
    used: first-use order, only names not yet assigned or used in the block;
    assigned: every assigned name. *)
Definition add_use (x : nat) (used assigned : list nat) : list nat :=
  if memb x assigned || memb x used then used else used ++ [x].
Definition add_def (x : nat) (assigned : list nat) : list nat :=
  if memb x assigned then assigned else assigned ++ [x].
Fixpoint stats_acc (evs : list event) (used assigned : list nat) : list nat * list nat :=
  match evs with
  | [] => (used, assigned)
  | EUse x :: t => stats_acc t (add_use x used assigned) assigned
  | EAssign x (RLit _) :: t => stats_acc t used (add_def x assigned)
  | EAssign x (RCopy y) :: t => stats_acc t (add_use y used assigned) (add_def x assigned)
  end.
Definition used_of (evs : list event) : list nat := fst (stats_acc evs [] []).
Definition assigned_of (evs : list event) : list nat := snd (stats_acc evs [] []).

(** the CFG as the analyses of C09 see it *)
Definition to_block (b : eblock) : block :=
  mkBlock (e_succ b) (e_dsucc b) (used_of (e_evs b)) (assigned_of (e_evs b)).
Definition to_cfg (g : ecfg) : cfg := map to_block g.

(** * ctx.locals : name -> type *)
Definition env := list (nat * nat).
Fixpoint lookup (x : nat) (E : env) : option nat :=
  match E with
  | [] => None
  | (y, t) :: r => if Nat.eqb x y then Some t else lookup x r
  end.
Definition keys (E : env) : list nat := map fst E.
(* type of a name that is not in ctx.locals (a global): never relevant in an accepted CFG *)
Definition global_ty : nat := 0.
Definition rhs_ty (r : rhs) (E : env) : nat :=
  match r with
  | RLit t => t
  | RCopy y => match lookup y E with Some t => t | None => global_ty end
  end.
(** StmtChecker on the events of a block: assignments (re)bind the name *)
Fixpoint exec (evs : list event) (E : env) : env :=
  match evs with
  | [] => E
  | EUse _ :: t => exec t E
  | EAssign x r :: t => exec t ((x, rhs_ty r E) :: E)
  end.

(** [ctx.locals[x] for x in cfg.live_before[succ] if x in ctx.locals] *)
Definition restrict (E : env) (live : list nat) : env :=
  flat_map (fun x => match lookup x E with Some t => [(x, t)] | None => [] end) live.

(** * the analysis results used by the checker (CFG.analyze with no borrowed variables) *)
Record facts := mkFacts {
  f_live : vals;      (* cfg.live_before, keys *)
  f_def : vals;       (* cfg.ass_before *)
  f_maybe : vals;     (* cfg.maybe_ass_before *)
  f_as : list nat;    (* cfg.assigned_somewhere *)
  f_glob : list nat   (* names found in globals / generic params *)
}.
(* check_cfg: ass_before = {v.name for v in inputs}; cfg.analyze(ass_before, ass_before, []) *)
Definition analyze (g : ecfg) (D0 glob : list nat) (s1 s2 : list nat) : facts :=
  let cg := to_cfg g in
  let '(d, m) := assignment Repaired cg D0 D0 s2 in
  mkFacts (liveness Repaired true cg [] s1) d m (D0 ++ flat_map b_def cg) glob.

(** a name the checker insists on finding in ctx.locals or reports as undefined: a local
    (assigned somewhere), or a name that is not a global either *)
Definition needs_def (F : facts) (x : nat) : bool :=
  memb x (f_as F) || negb (memb x (f_glob F)).

(** * errors *)
Inductive error :=
| EntryUndef (x : nat)                    (* VarNotDefinedError from the entry-block test; the
                                             location is the first use of x in block 0 *)
| SuccUndef (p s : nat) (xs : list nat)   (* check_bb p: the variables xs requested by successor
                                             s (real or dummy) are not in ctx.locals; the code
                                             reports ONE of them, in dict order (C10) *)
| RowMismatch (p s : nat) (xs : list nat) (* check_rows_match for the edge p -> s: xs have
                                             different types; ONE is reported (set order, C10) *)
| RowKeyError (p s : nat)                 (* map1[x] / map2[x] would raise KeyError *)
| OutOfFuel.

Inductive result (A : Type) := Ok (a : A) | Rej (e : error).
Arguments Ok {A}. Arguments Rej {A}.

(** * check_bb : definedness tests + locals after the block *)
Definition flow_s (g : ecfg) (b : nat) : list nat := e_succ (eblk g b) ++ e_dsucc (eblk g b).

(* for x, use in bb.vars.used.items(): if x not in cfg.ass_before[bb] and ... : raise *)
Definition entry_undef (g : ecfg) (F : facts) : list nat :=
  filter (fun x => negb (memb x (getv (f_def F) 0)) && needs_def F x) (used_of (e_evs (eblk g 0))).

(* the x in live_before[s] for which the test of check_bb fails *)
Definition succ_undef (F : facts) (after : env) (s : nat) : list nat :=
  filter (fun x => match lookup x after with Some _ => false | None => needs_def F x end)
         (getv (f_live F) s).

Fixpoint first_succ_undef (F : facts) (after : env) (p : nat) (ss : list nat) : option error :=
  match ss with
  | [] => None
  | s :: t => match succ_undef F after s with
              | [] => first_succ_undef F after p t
              | xs => Some (SuccUndef p s xs)
              end
  end.

Definition check_bb (g : ecfg) (F : facts) (b : nat) (inputs : env) : result env :=
  match (if Nat.eqb b 0 then entry_undef g F else []) with
  | x :: _ => Rej (EntryUndef x)
  | [] =>
      let after := exec (e_evs (eblk g b)) inputs in
      match first_succ_undef F after b (flow_s g b) with
      | Some e => Rej e
      | None => Ok after
      end
  end.

(** * check_rows_match *)
Definition rows_keys_ok (r1 r2 : env) : bool :=
  forallb (fun x => match lookup x r1, lookup x r2 with Some _, Some _ => true | _, _ => false end)
          (keys r1 ++ keys r2).
Definition rows_mismatch (r1 r2 : env) : list nat :=
  filter (fun x => match lookup x r1, lookup x r2 with
                   | Some t1, Some t2 => negb (Nat.eqb t1 t2)
                   | _, _ => false end)
         (keys r1 ++ keys r2).

(** * check_cfg : BFS over the control-flow edges *)
(* compiled: bb -> (sig.input_row, ctx.locals after the block) *)
Definition compiled := list (nat * (env * env)).
Fixpoint find (b : nat) (c : compiled) : option (env * env) :=
  match c with
  | [] => None
  | (b', v) :: r => if Nat.eqb b b' then Some v else find b r
  end.

(* the edges enqueued when bb has been checked: successors from the back *)
Definition out_edges (p : nat) (ss : list nat) : list (nat * nat) := rev (map (fun s => (p, s)) ss).

Fixpoint bfs (g : ecfg) (F : facts) (fuel : nat) (q : list (nat * nat)) (c : compiled)
  : result compiled :=
  match fuel with
  | 0 => Rej OutOfFuel
  | S f =>
      match q with
      | [] => Ok c
      | (p, b) :: q' =>
          let after_p := match find p c with Some (_, a) => a | None => [] end in
          (* pred.sig.output_rows[num_output] *)
          let input_row := restrict after_p (getv (f_live F) b) in
          match find b c with
          | Some (row, _) =>
              if rows_keys_ok input_row row then
                match rows_mismatch input_row row with
                | [] => bfs g F f q' c
                | xs => Rej (RowMismatch p b xs)
                end
              else Rej (RowKeyError p b)
          | None =>
              match check_bb g F b input_row with
              | Rej e => Rej e
              | Ok after =>
                  (* only the REAL successors of a non-entry block are enqueued *)
                  bfs g F f (q' ++ out_edges b (e_succ (eblk g b))) ((b, (input_row, after)) :: c)
              end
          end
      end
  end.

Definition n_edges (g : ecfg) : nat := length (flat_map (flow_s g) (seq 0 (length g))).

Definition check_cfg_with (g : ecfg) (F : facts) (inputs : env) : result compiled :=
  match check_bb g F 0 inputs with
  | Rej e => Rej e
  | Ok after =>
      (* the entry block's real AND dummy successors are enqueued *)
      bfs g F (S (n_edges g)) (out_edges 0 (flow_s g 0)) [(0, (inputs, after))]
  end.

(** check_cfg(cfg, inputs, ...) up to (not including) the linearity check *)
Definition check_cfg (g : ecfg) (inputs : env) (glob : list nat) (s1 s2 : list nat) : result compiled :=
  check_cfg_with g (analyze g (keys inputs) glob s1 s2) inputs.

(** * what the user may see for an error: (maybe?, variable, block holding the reported use)
    The reported use is `use_bb.vars.used[x]` where use_bb is the liveness witness stored for
    x at the successor: some block that reads x and is reached from the successor without an
    assignment to x.  [reach_nodef] enumerates those blocks. *)
Definition step_nodef (g : ecfg) (x : nat) (W : list nat) : list nat :=
  W ++ flat_map (fun b => if memb x (assigned_of (e_evs (eblk g b))) then [] else flow_s g b) W.
Fixpoint iter_nodef (g : ecfg) (x : nat) (n : nat) (W : list nat) : list nat :=
  match n with 0 => W | S n' => iter_nodef g x n' (norm (step_nodef g x W)) end.
Definition witness_blocks (g : ecfg) (x s : nat) : list nat :=
  filter (fun u => memb x (used_of (e_evs (eblk g u)))) (iter_nodef g x (length g) [s]).

(* True = VarMaybeNotDefinedError, False = VarNotDefinedError *)
Definition report_cands (g : ecfg) (F : facts) (e : error) : list (bool * nat * nat) :=
  match e with
  | EntryUndef x => [(false, x, 0)]
  | SuccUndef p s xs =>
      flat_map (fun x => map (fun u => (memb x (f_as F) && memb x (getv (f_maybe F) u), x, u))
                             (witness_blocks g x s)) xs
  | _ => []
  end.
(* BranchTypeError: (variable, block holding the reported use) *)
Definition report_type_cands (g : ecfg) (e : error) : list (nat * nat) :=
  match e with
  | RowMismatch p s xs => flat_map (fun x => map (fun u => (x, u)) (witness_blocks g x s)) xs
  | _ => []
  end.

(** every variable the entry block's tests would reject (not only the first one) *)
Definition undef_vars (g : ecfg) (F : facts) (inputs : env) : list nat :=
  entry_undef g F ++
  flat_map (succ_undef F (exec (e_evs (eblk g 0)) inputs)) (flow_s g 0).

(** canonical output for the correspondence harness *)
Definition sig_of (c : compiled) : list (nat * list (nat * nat)) :=
  map (fun '(b, (row, _)) => (b, row)) c.
