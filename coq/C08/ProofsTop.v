(** V.C08.ProofsTop — exactness statements assembled from ProofsCheck / ProofsExact / ProofsClosed. *)
From Coq Require Import List Bool Arith Lia.
From V.C09 Require Import Analysis SetLemmas Spec.
From V.C08 Require Import CfgCheck Spec ProofsBase ProofsCheck ProofsExact ProofsClosed.
Import ListNotations.

Section Top.
Variable g : ecfg.
Variable E0 : env.
Variable glob s1 s2 : list nat.
Hypothesis W : wf_ecfg g.
Let F := analyze g (keys E0) glob s1 s2.

Definition some_undef : Prop := exists x u, needs_def F x = true /\ undef_use g E0 x u.
Definition some_conflict : Prop := exists x s, ty_conflict g E0 x s.

Lemma undef_exact_lemma :
  some_undef <-> exists e, check_cfg g E0 glob s1 s2 = Rej e /\ is_undef e.
Proof.
  split.
  - intros [x [u [Hn Hu]]]. apply (undef_complete g E0 glob s1 s2 W x u); auto.
  - intros [e [H Iu]]. pose proof (check_cfg_sound g E0 glob s1 s2 W e H) as K.
    destruct e as [y|p s xs|p s xs|p s|]; simpl in Iu; try tauto.
    + destruct K as [Kn Ku]. exists y, 0. auto.
    + destruct K as [Hne [Hs K]]. destruct xs as [|x xs]; [congruence|].
      destruct (K x (or_introl eq_refl)) as [Kn [Kl [Kr Klv]]].
      destruct (live_to_use g x s Klv Kr) as [u [A [B C]]].
      exists x, u. split; auto. unfold undef_use. auto.
Qed.

Lemma result_cases : forall r, check_cfg g E0 glob s1 s2 = r ->
  (exists c, r = Ok c) \/ (exists e, r = Rej e /\ is_undef e) \/
  (exists p s xs, r = Rej (RowMismatch p s xs) /\ xs <> [] /\ forall x, In x xs -> ty_conflict g E0 x s).
Proof.
  intros r H. destruct r as [c|e]; [left; eauto|].
  pose proof (check_cfg_sound g E0 glob s1 s2 W e H) as K.
  destruct e as [y|p s xs|p s xs|p s|].
  - right. left. exists (EntryUndef y). simpl. auto.
  - right. left.
    (* an undefined-variable error is always raised by the entry block's tests *)
    destruct K as [Hne [Hs K]]. destruct xs as [|x xs]; [congruence|].
    destruct (K x (or_introl eq_refl)) as [Kn [Kl [Kr Klv]]].
    destruct (live_to_use g x s Klv Kr) as [u [A [B C]]].
    destruct (undef_complete g E0 glob s1 s2 W x u Kn) as [e' [He Iu]]; [unfold undef_use; auto|].
    exists e'. split; auto. rewrite <- H. exact He.
  - right. right. exists p, s, xs. destruct K. auto.
  - destruct K.
  - exfalso. apply (check_cfg_not_fuel g E0 glob s1 s2 W). exact H.
Qed.

Lemma branch_type_exact_lemma : ~ some_undef ->
  (some_conflict <-> exists p s xs, check_cfg g E0 glob s1 s2 = Rej (RowMismatch p s xs) /\ xs <> []).
Proof.
  intros NU. split.
  - intros [x [s C]].
    destruct (result_cases _ eq_refl) as [[c H]|[[e [H Iu]]|[p [s' [xs [H [Hne _]]]]]]].
    + exfalso. apply (accepted_no_conflict g E0 glob s1 s2 W c x s H C).
    + exfalso. apply NU. apply undef_exact_lemma. eauto.
    + eauto.
  - intros [p [s [xs [H Hne]]]]. pose proof (check_cfg_sound g E0 glob s1 s2 W _ H) as [_ K].
    destruct xs as [|x xs]; [congruence|]. exists x, s. apply K. simpl. auto.
Qed.

Lemma accept_iff_lemma :
  (exists c, check_cfg g E0 glob s1 s2 = Ok c) <-> (~ some_undef /\ ~ some_conflict).
Proof.
  split.
  - intros [c H]. split.
    + intros U. apply undef_exact_lemma in U. destruct U as [e [He _]]. congruence.
    + intros [x [s C]]. apply (accepted_no_conflict g E0 glob s1 s2 W c x s H C).
  - intros [NU NC].
    destruct (result_cases _ eq_refl) as [[c H]|[[e [H Iu]]|[p [s' [xs [H [Hne K]]]]]]]; eauto.
    + exfalso. apply NU. apply undef_exact_lemma. eauto.
    + exfalso. apply NC. destruct xs as [|x xs]; [congruence|]. exists x, s'. apply K. simpl. auto.
Qed.

Lemma undef_first_lemma : some_undef ->
  exists e, check_cfg g E0 glob s1 s2 = Rej e /\ is_undef e.
Proof. intros U. apply undef_exact_lemma. exact U. Qed.
End Top.
