(** V.C08.ProofsBridgeB — if / while, and the statement-level theorem [wspec_all]. *)
From Coq Require Import ZArith List Bool Lia.
From V.C03 Require Import PyAst Cfg Builder ProofsBase ProofsExpr ProofsBranch ProofsStmtA ProofsStmtB ProofsStmtC.
From V.C08 Require Import CfgCheck Bridge ProofsBridgeA.
Import ListNotations.

Lemma wspec_if : forall c body orelse, stmts_wspec body -> stmts_wspec orelse ->
  stmt_wspec (SIf c body orelse).
Proof.
  intros c body orelse Hb Ho bb j g n r s' F V O Nb Ne J.
  simpl in F. apply andb_prop in F. destruct F as [F F3]. apply andb_prop in F. destruct F as [F1 F2].
  simpl in V.
  apply bind_inv in V. destruct V as (tb&s1&B1&V). unfold new_bb in B1; simpl in B1; inversion B1; subst; clear B1.
  apply bind_inv in V. destruct V as (eb&s1&B1&V). unfold new_bb in B1; simpl in B1; inversion B1; subst; clear B1.
  apply bind_inv in V. destruct V as ([]&s3&B3&V).
  apply bind_inv in V. destruct V as (te&s4&B4&V).
  apply bind_inv in V. destruct V as (ee&s5&B5&V).
  set (g1 := g ++ [empty_block]) in *. set (gg := g1 ++ [empty_block]) in *.
  assert (L1: length g1 = S (length g)) by (unfold g1; rewrite app_length; simpl; lia).
  assert (LG: length gg = S (S (length g))) by (unfold gg; rewrite app_length; simpl; lia).
  rewrite L1 in B3, B5.
  destruct (opn_app g bb empty_block O) as (O1&SL1). fold g1 in O1, SL1.
  destruct (opn_app g1 bb empty_block O1) as (O2&SL2). fold gg in O2, SL2.
  destruct (opn_new g) as (OT&SLT). fold g1 in OT, SLT.
  destruct (opn_app g1 (length g) empty_block OT) as (OT2&SLT2). fold gg in OT2, SLT2.
  destruct (opn_new g1) as (OE&SLE). fold gg in OE, SLE. rewrite L1 in OE, SLE.
  pose proof O as (Lb&_&_). unfold exit_idx in *.
  destruct (cf_branch c F1 bb (length g) (S (length g)) gg n s3 B3 O2) as (g3&->&Gr3&Sem3).
  pose proof (grows_length _ _ _ Gr3) as L3.
  destruct (opn_after _ _ _ (length g) Gr3 OT2) as (OT3&SLT3); [lia|].
  destruct (opn_after _ _ _ (S (length g)) Gr3 OE) as (OE3&SLE3); [lia|].
  assert (J3: jok g3 (length g) j) by (eapply jok_mono; [exact J | lia | right; lia]).
  destruct (Hb (length g) (Some (length g)) j g3 n te s4 F2 B4) as (g4&->&Gr4&R4&Sem4);
    [unfold exit_idx; lia | simpl; split; [exact OT3 | split; [unfold exit_idx; lia | exact J3]] |].
  simpl in Gr4, R4.
  pose proof (grows_length _ _ _ Gr4) as L4.
  destruct (opn_after _ _ _ (S (length g)) Gr4 OE3) as (OE4&SLE4); [lia|].
  assert (J4: jok g4 (S (length g)) j) by (eapply jok_mono; [exact J | lia | right; lia]).
  destruct (Ho (S (length g)) (Some (S (length g))) j g4 n ee s5 F3 B5) as (g5&->&Gr5&R5&Sem5);
    [unfold exit_idx; lia | simpl; split; [exact OE4 | split; [unfold exit_idx; lia | exact J4]] |].
  simpl in Gr5, R5.
  pose proof (grows_length _ _ _ Gr5) as L5.
  assert (G05: grows g bb g5).
  { eapply grows_trans_gen; [| exact Gr5 | right; lia].
    eapply grows_trans_gen; [| exact Gr4 | right; lia].
    eapply grows_trans_gen; [| exact Gr3 | left; reflexivity].
    eapply grows_trans_gen; [apply grows_new | apply grows_new | left; reflexivity]. }
  (* the part of the walk common to all merge shapes *)
  assert (Run: forall G, ext g5 G -> forall items o, spath_s (SIf c body orelse) items o ->
            (items = [] /\ o = OStop) \/
            exists i1 (t : bool), items = [ICond (core c)] ++ i1 /\
              walk G (bb, slen g bb) [ICond (core c)] ((if t then length g else S (length g)), 0) /\
              if t then wout G (length g, 0) j g4 te i1 o
              else wout G (S (length g), 0) j g5 ee i1 o).
  { intros G E items o X.
    assert (E4: ext g4 G) by (eapply ext_trans; [eapply grows_ext; eauto | auto]).
    assert (E3: ext g3 G) by (eapply ext_trans; [eapply grows_ext; eauto | auto]).
    simpl in X. destruct X as [X|(i1&->&[X|X])]; auto; right.
    - exists i1, true. split; auto. destruct (Sem3 G E3) as (T&_). rewrite SL2, SL1 in T. split; auto.
      pose proof (Sem4 (length g) eq_refl G E4 i1 o X) as T2. rewrite SLT3, SLT2, SLT in T2. exact T2.
    - exists i1, false. split; auto. destruct (Sem3 G E3) as (_&T). rewrite SL2, SL1 in T. split; auto.
      pose proof (Sem5 (S (length g)) eq_refl G E i1 o X) as T2. rewrite SLE4, SLE3, SLE in T2. exact T2. }
  destruct te as [a|]; [destruct ee as [b|]|].
  - (* both branches fall through: merge block *)
    apply bind_inv in V. destruct V as (m&s6&B6&V). unfold new_bb in B6; simpl in B6; inversion B6; subst; clear B6.
    simpl in V. inversion V; subst; clear V.
    simpl in R4, R5. destruct R4 as (Oa4&Na&Da). destruct R5 as (Ob5&Nb5&Db).
    pose proof Oa4 as (La4&_&_).
    assert (Nae: a <> S (length g)) by (destruct Da; lia).
    assert (Nab: a <> b) by (destruct Db; lia).
    destruct (opn_after _ _ _ a Gr5 Oa4 Nae) as (Oa5&SLa5).
    set (g6 := g5 ++ [empty_block]).
    assert (L6: length g6 = S (length g5)) by (unfold g6; rewrite app_length; simpl; lia).
    destruct (opn_app g5 a empty_block Oa5) as (Oa6&SLa6). fold g6 in Oa6, SLa6.
    destruct (opn_app g5 b empty_block Ob5) as (Ob6&SLb6). fold g6 in Ob6, SLb6.
    destruct (opn_new g5) as (Om6&SLm6). fold g6 in Om6, SLm6.
    set (g7 := upd_nth a (add_succ (length g5)) g6).
    destruct (opn_link_other g6 a (length g5) b Ob6 (not_eq_sym Nab)) as (Ob7&SLb7). fold g7 in Ob7, SLb7.
    pose proof Oa5 as (La5&_&_). pose proof Ob5 as (Lb5&_&_).
    destruct (opn_link_other g6 a (length g5) (length g5) Om6) as (Om7&SLm7); [lia|]. fold g7 in Om7, SLm7.
    set (g8 := upd_nth b (add_succ (length g5)) g7).
    destruct (opn_link_other g7 b (length g5) (length g5) Om7) as (Om8&SLm8); [lia|]. fold g8 in Om8, SLm8.
    assert (G67: grows g6 a g7) by (apply grows_link; auto).
    assert (G78: grows g7 b g8) by (apply grows_link; auto).
    exists g8. split; auto. split.
    { eapply grows_trans_gen; [| exact G78 | right; destruct Db; lia].
      eapply grows_trans_gen; [| exact G67 | right; destruct Da; lia].
      eapply grows_trans_gen; [exact G05 | apply grows_new | left; reflexivity]. }
    split. { simpl. split; [exact Om8|]. split; [unfold exit_idx; lia | right; lia]. }
    intros G E items o X.
    assert (E7: ext g7 G) by (eapply ext_trans; [eapply grows_ext; eauto | auto]).
    assert (E6: ext g6 G) by (eapply ext_trans; [eapply grows_ext; eauto | auto]).
    assert (E5: ext g5 G) by (eapply ext_trans; [eapply grows_ext; apply grows_new with (bb := 0) | exact E6]).
    destruct (Run G E5 items o X) as [[-> ->]|(i1&t&->&T&OS)]; [apply wout_stop_nil|].
    eapply wout_prefix; [exact T|].
    destruct t.
    + eapply wout_then; [exact OS|].
      rewrite SLm8, SLm7, SLm6. rewrite <- SLa5, <- SLa6.
      eapply w_link; eauto.
    + eapply wout_then; [exact OS|].
      rewrite SLm8, SLm7, SLm6. rewrite <- SLb6, <- SLb7.
      eapply w_link; eauto.
  - (* else branch jumps: continue in the then branch's block *)
    simpl in V. inversion V; subst; clear V.
    simpl in R4. destruct R4 as (Oa4&Na&Da). pose proof Oa4 as (La4&_&_).
    assert (Nae: a <> S (length g)) by (destruct Da; lia).
    destruct (opn_after _ _ _ a Gr5 Oa4 Nae) as (Oa5&SLa5).
    exists g5. split; auto. split; [exact G05|]. split.
    { simpl. split; [exact Oa5|]. split; [exact Na | right; destruct Da; lia]. }
    intros G E items o X.
    destruct (Run G E items o X) as [[-> ->]|(i1&t&->&T&OS)]; [apply wout_stop_nil|].
    eapply wout_prefix; [exact T|].
    destruct t.
    + eapply wout_conv; [|exact OS]. intros b' Eb. inversion Eb; subst. auto.
    + eapply wout_conv; [|exact OS]. intros b' Eb. discriminate.
  - (* then branch jumps: continue in the else branch's block (or nowhere) *)
    simpl in V. inversion V; subst; clear V.
    exists g5. split; auto. split; [exact G05|]. split.
    { destruct r as [b|]; simpl in *; auto. destruct R5 as (A&B&C). split; [exact A|]. split; [exact B | right; destruct C; lia]. }
    intros G E items o X.
    destruct (Run G E items o X) as [[-> ->]|(i1&t&->&T&OS)]; [apply wout_stop_nil|].
    eapply wout_prefix; [exact T|].
    destruct t.
    + eapply wout_conv; [|exact OS]. intros b' Eb. discriminate.
    + exact OS.
Qed.

Lemma wspec_while : forall c body orelse, stmts_wspec body -> stmt_wspec (SWhile c body orelse).
Proof.
  intros c body orelse Hb bb j g n r s' F V O Nb Ne J.
  simpl in F. apply andb_prop in F. destruct F as [F F3]. apply andb_prop in F. destruct F as [F1 F2].
  destruct orelse; [|discriminate]. clear F3.
  simpl in V.
  apply bind_inv in V. destruct V as (head&s1&B1&V). unfold new_bb in B1; simpl in B1; inversion B1; subst; clear B1.
  apply bind_inv in V. destruct V as ([]&s1&B1&V). unfold link, modify in B1; simpl in B1; inversion B1; subst; clear B1.
  apply bind_inv in V. destruct V as (bodyb&s1&B1&V). unfold new_bb in B1; simpl in B1; inversion B1; subst; clear B1.
  apply bind_inv in V. destruct V as (tail&s1&B1&V). unfold new_bb in B1; simpl in B1; inversion B1; subst; clear B1.
  apply bind_inv in V. destruct V as ([]&s5&B5&V).
  apply bind_inv in V. destruct V as (rb&s6&B6&V).
  apply bind_inv in V. destruct V as ([]&s7&B7&V). simpl in V. inversion V; subst; clear V.
  set (g1 := g ++ [empty_block]) in *.
  set (g2 := upd_nth bb (add_succ (length g)) g1) in *.
  set (g3 := g2 ++ [empty_block]) in *. set (g4 := g3 ++ [empty_block]) in *.
  pose proof O as (Lb&_&_). unfold exit_idx in *.
  assert (L1: length g1 = S (length g)) by (unfold g1; rewrite app_length; simpl; lia).
  assert (L2: length g2 = S (length g)) by (unfold g2; rewrite upd_nth_length; auto).
  assert (L3: length g3 = S (S (length g))) by (unfold g3; rewrite app_length; simpl; lia).
  assert (L4: length g4 = S (S (S (length g)))) by (unfold g4; rewrite app_length; simpl; lia).
  rewrite L2 in B5, B6. rewrite L3 in B5, B6.
  destruct (opn_app g bb empty_block O) as (O1&SL1). fold g1 in O1, SL1.
  destruct (opn_new g) as (OH1&SLH1). fold g1 in OH1, SLH1.
  destruct (opn_link_other g1 bb (length g) (length g) OH1) as (OH2&SLH2); [lia|]. fold g2 in OH2, SLH2.
  destruct (opn_app g2 (length g) empty_block OH2) as (OH3&SLH3). fold g3 in OH3, SLH3.
  destruct (opn_app g3 (length g) empty_block OH3) as (OH4&SLH4). fold g4 in OH4, SLH4.
  destruct (opn_new g2) as (OB3&SLB3). fold g3 in OB3, SLB3. rewrite L2 in OB3, SLB3.
  destruct (opn_app g3 (S (length g)) empty_block OB3) as (OB4&SLB4). fold g4 in OB4, SLB4.
  destruct (opn_new g3) as (OT4&SLT4). fold g4 in OT4, SLT4. rewrite L3 in OT4, SLT4.
  destruct (cf_branch c F1 (length g) (S (length g)) (S (S (length g))) g4 n s5 B5 OH4)
    as (g5&->&Gr5&Sem5).
  pose proof (grows_length _ _ _ Gr5) as L5.
  destruct (opn_after _ _ _ (S (length g)) Gr5 OB4) as (OB5&SLB5); [lia|].
  destruct (opn_after _ _ _ (S (S (length g))) Gr5 OT4) as (OT5&SLT5); [lia|].
  set (j' := mkJ (j_ret j) (Some (length g)) (Some (S (S (length g))))) in *.
  assert (J5: jok g5 (S (length g)) j').
  { destruct J as (A&B&_&_). unfold jok, j'. simpl. split; [lia|]. split; [lia|]. split.
    - intros c0 E. inversion E; subst. lia.
    - intros c0 E. inversion E; subst. lia. }
  destruct (Hb (S (length g)) (Some (S (length g))) j' g5 n rb s6 F2 B6) as (g6&->&Gr6&R6&Sem6);
    [unfold exit_idx; lia | simpl; split; [exact OB5 | split; [unfold exit_idx; lia | exact J5]] |].
  simpl in Gr6, R6.
  pose proof (grows_length _ _ _ Gr6) as L6.
  destruct (opn_after _ _ _ (S (S (length g))) Gr6 OT5) as (OT6&SLT6); [lia|].
  assert (G06: grows g bb g6).
  { eapply grows_trans_gen; [| exact Gr6 | right; lia].
    eapply grows_trans_gen; [| exact Gr5 | right; lia].
    eapply grows_trans_gen; [| apply grows_new | left; reflexivity].
    eapply grows_trans_gen; [| apply grows_new | left; reflexivity].
    eapply grows_trans_gen; [apply grows_new | apply grows_link; exact O1 | left; reflexivity]. }
  assert (E2of: forall G, ext g5 G -> ext g2 G).
  { intros G E. eapply ext_trans; [| exact E]. eapply ext_trans; [| eapply grows_ext; exact Gr5].
    eapply ext_trans; [eapply grows_ext; apply grows_new with (bb := 0) |].
    eapply grows_ext. apply grows_new with (bb := 0). }
  assert (exists g7, s' = mkB g7 n /\ grows g6 (match rb with Some e => e | None => 0 end) g7 /\
            opn g7 (S (S (length g))) /\ slen g7 (S (S (length g))) = 0 /\
            (forall G, ext g7 G -> forall e, rb = Some e ->
               walk G (e, slen g6 e) [] (length g, 0)))
    as (g7&->&Gr7&OT7&SLT7&Back).
  { destruct rb as [e|].
    - unfold link, modify in B7. simpl in B7. inversion B7; subst; clear B7.
      simpl in R6. destruct R6 as (Oe&Ne6&De). pose proof Oe as (Le&_&_).
      destruct (opn_link_other g6 e (length g) (S (S (length g))) OT6) as (OT7&SLT7); [destruct De; lia|].
      eexists. split; [reflexivity|]. split; [apply grows_link; exact Oe|]. split; [exact OT7|].
      split; [rewrite SLT7, SLT6, SLT5; exact SLT4|].
      intros G E e0 Eq. inversion Eq; subst. eapply w_link; eauto.
    - simpl in B7. inversion B7; subst; clear B7. exists g6. split; [reflexivity|].
      split; [apply grows_refl|]. split; [exact OT6|]. split; [rewrite SLT6, SLT5; exact SLT4|].
      intros G E e Eq. discriminate. }
  assert (D7: match rb with Some e => e | None => 0 end = bb \/ length g <= match rb with Some e => e | None => 0 end \/ rb = None).
  { destruct rb as [e|]; auto. simpl in R6. destruct R6 as (_&_&De). right. left. destruct De; lia. }
  rewrite L3. exists g7. split; auto. split.
  { destruct rb as [e|].
    - eapply grows_trans_gen; [exact G06 | exact Gr7 |]. destruct D7 as [D|[D|D]]; auto. discriminate.
    - destruct Gr7 as (LL&FF&_). destruct G06 as (L06&F06&B06). split; [lia|]. split.
      + intros i Hi Ni. eapply sem_same_trans; [apply F06; auto|].
        destruct (Nat.eq_dec i 0).
        * subst. assert (g7 = g6) by (simpl in B7; inversion B7; auto). subst. apply sem_same_refl.
        * apply FF; lia.
      + assert (g7 = g6) by (simpl in B7; inversion B7; auto). subst. exact B06. }
  split. { simpl. split; [exact OT7|]. split; [unfold exit_idx; lia | right; lia]. }
  intros G E items o X.
  assert (E6: ext g6 G) by (eapply ext_trans; [eapply grows_ext; exact Gr7 | exact E]).
  assert (E5: ext g5 G) by (eapply ext_trans; [eapply grows_ext; exact Gr6 | exact E6]).
  pose proof (E2of G E5) as E2.
  destruct (Sem5 G E5) as (ToBody&ToTail). rewrite SLH4, SLH3, SLH2, SLH1 in ToBody, ToTail.
  (* the loop, from the head block *)
  assert (Loop: forall items o, sloop (spath_l body) (ICond (core c)) items o ->
            match o with
            | ONorm => walk G (length g, 0) items (S (S (length g)), 0)
            | ORet => walk G (length g, 0) items (j_ret j, 0)
            | OStop => exists c', walk G (length g, 0) items c'
            | _ => False
            end).
  { intros items0 o0 L. induction L as [| |i1 o1 i2 o2 P1 Ho1 LL2 IH|i1 P1|i1 o1 P1 Ho1].
    - exact ToTail.
    - exists (length g, 0). constructor.
    - pose proof (Sem6 (S (length g)) eq_refl G E6 i1 o1 P1) as OS.
      rewrite SLB5, SLB4, SLB3 in OS.
      assert (T4: walk G (length g, 0) ([ICond (core c)] ++ i1) (length g, 0)).
      { eapply walk_trans; [exact ToBody|].
        destruct Ho1 as [-> | ->]; simpl in OS.
        - destruct OS as (e&Eq&T2). rewrite <- (app_nil_r i1). eapply walk_trans; [exact T2|].
          exact (Back G E e Eq).
        - destruct OS as (b&Eq&T2). unfold j' in Eq. simpl in Eq. inversion Eq; subst. exact T2. }
      change (ICond (core c) :: i1 ++ i2) with (([ICond (core c)] ++ i1) ++ i2).
      destruct o2; auto.
      + eapply walk_trans; eauto.
      + eapply walk_trans; eauto.
      + destruct IH as (c'&T5). exists c'. eapply walk_trans; eauto.
    - pose proof (Sem6 (S (length g)) eq_refl G E6 i1 OBrk P1) as OS.
      rewrite SLB5, SLB4, SLB3 in OS. simpl in OS.
      destruct OS as (b&Eq&T2). unfold j' in Eq. simpl in Eq. inversion Eq; subst b.
      exact (walk_trans G _ [ICond (core c)] _ i1 _ ToBody T2).
    - pose proof (Sem6 (S (length g)) eq_refl G E6 i1 o1 P1) as OS.
      rewrite SLB5, SLB4, SLB3 in OS.
      destruct Ho1 as [-> | ->]; simpl in OS.
      + unfold j' in OS. simpl in OS. exact (walk_trans G _ [ICond (core c)] _ i1 _ ToBody OS).
      + destruct OS as (c'&T2). exists c'. exact (walk_trans G _ [ICond (core c)] _ i1 _ ToBody T2). }
  simpl in X. pose proof (Loop items o X) as LP.
  assert (Entry: walk G (bb, slen g bb) [] (length g, 0)).
  { rewrite <- SL1. eapply w_link; eauto. }
  destruct o; simpl; try contradiction.
  - exists (S (S (length g))). split; auto. rewrite SLT7. change items with ([] ++ items). eapply walk_trans; eauto.
  - change items with ([] ++ items). eapply walk_trans; eauto.
  - destruct LP as (c'&T). exists c'. change items with ([] ++ items). eapply walk_trans; eauto.
Qed.

Theorem wspec_all : (forall s, stmt_wspec s) /\ (forall ss, stmts_wspec ss).
Proof.
  apply stmt_mutind; intros.
  - apply wspec_assign.
  - apply wspec_aug.
  - apply wspec_expr.
  - apply wspec_if; auto.
  - apply wspec_while; auto.
  - apply wspec_break.
  - apply wspec_continue.
  - apply wspec_pass.
  - apply wspec_return.
  - apply wspec_nil.
  - apply wspec_cons; auto.
Qed.
