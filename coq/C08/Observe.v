(** V.C08.Observe — what the correspondence harness prints for one check_cfg instance.
    Definitions only. *)
From Coq Require Import List Bool Arith.
From V.C09 Require Import Analysis.
From V.C08 Require Import CfgCheck.
Import ListNotations.

Definition obs_t : Type :=
  (nat * (nat * nat) * list nat * list (bool * nat * nat) * list (nat * nat) *
   list (nat * list (nat * nat)) * (list (list nat) * list (list nat)) *
   (vals * vals * vals) * (list nat * list nat))%type.

Definition observe (g : ecfg) (inputs : env) (glob : list nat) : obs_t :=
  let F := analyze g (keys inputs) glob [] [] in
  let r := check_cfg_with g F inputs in
  let '(code, site, vars) :=
    match r with
    | Ok _ => (0, (0, 0), [])
    | Rej (EntryUndef x) => (1, (0, 0), [x])
    | Rej (SuccUndef p s xs) => (2, (p, s), xs)
    | Rej (RowMismatch p s xs) => (3, (p, s), xs)
    | Rej (RowKeyError p s) => (4, (p, s), [])
    | Rej OutOfFuel => (5, (0, 0), [])
    end in
  (code, site, norm vars,
   match r with Rej e => report_cands g F e | _ => [] end,
   match r with Rej e => report_type_cands g e | _ => [] end,
   match r with Ok c => sig_of c | _ => [] end,
   (map (fun b => used_of (e_evs b)) g, map (fun b => assigned_of (e_evs b)) g),
   (norm_vals (f_live F), norm_vals (f_def F), norm_vals (f_maybe F)),
   (entry_undef g F, norm (undef_vars g F inputs))).
