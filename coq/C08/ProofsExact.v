(** V.C08.ProofsExact — completeness of the definedness test, reported candidates, wording. *)
From Coq Require Import List Bool Arith Lia.
From V.C09 Require Import Analysis SetLemmas Spec.
From V.C08 Require Import CfgCheck Spec ProofsBase ProofsCheck.
Import ListNotations.

Section Exact.
Variable g : ecfg.
Variable E0 : env.
Variable glob s1 s2 : list nat.
Hypothesis W : wf_ecfg g.
Let F := analyze g (keys E0) glob s1 s2.
Let cg := to_cfg g.
Notation live b := (getv (f_live F) b).

Lemma def0' : forall x, In x (getv (f_def F) 0) <-> lookup x E0 <> None.
Proof. exact (def0_iff g E0 glob s1 s2 W). Qed.
Lemma maybe' : forall b x, b < nb g -> lookup x E0 = None ->
  (In x (getv (f_maybe F) b) <-> assigned_before cg (keys E0) x b).
Proof. exact (maybe_iff g E0 glob s1 s2 W). Qed.

(** * the liveness witnesses enumerated by the model are genuine *)
Lemma iter_nodef_sound : forall x n Wl,
  (forall w, In w Wl -> w < nb g /\ reach_nodef g x w) ->
  forall w, In w (iter_nodef g x n Wl) -> w < nb g /\ reach_nodef g x w.
Proof.
  intros x n. induction n as [|n IH]; intros Wl H w Hw; simpl in Hw; auto.
  apply (IH (norm (step_nodef g x Wl))); auto.
  intros w' Hw'. unfold norm in Hw'. apply q_add_In in Hw'. destruct Hw' as [Hw'|[]].
  unfold step_nodef in Hw'. apply in_app_or in Hw'. destruct Hw' as [Hw'|Hw']; auto.
  apply in_flat_map in Hw'. destruct Hw' as [b [Hb Hw']].
  destruct (H b Hb) as [Hbn Hr].
  destruct (memb x (assigned_of (e_evs (eblk g b)))) eqn:M; [destruct Hw'|].
  apply memb_false in M. fold (evs g b) in M. rewrite assigned_char in M.
  fold (flow g b) in Hw'. unfold flow_s in Hw'. fold (flow g b) in Hw'.
  split; [apply (flow_lt g W b); auto|apply rn_step with b; auto].
Qed.

Lemma witness_sound : forall x s u, s < nb g -> reach_nodef g x s -> In u (witness_blocks g x s) ->
  u < nb g /\ reach_nodef g x u /\ reads_first x (evs g u).
Proof.
  intros x s u Hs Hr Hu. unfold witness_blocks in Hu. apply filter_In in Hu. destruct Hu as [Hu Hm].
  destruct (iter_nodef_sound x (length g) [s]) with (w := u) as [A B]; auto.
  - intros w [<-|[]]. auto.
  - split; auto. split; auto. apply used_char. apply memb_In. exact Hm.
Qed.

(** * wording: "might be undefined" iff some path into the reported use assigns the variable *)
Lemma maybe_wording : forall x u, u < nb g -> lookup x E0 = None ->
  (memb x (f_as F) && memb x (getv (f_maybe F) u) = true <->
   assigned_before cg (keys E0) x u).
Proof.
  intros x u Hu Hx. rewrite andb_true_iff, !memb_In.
  rewrite (maybe' u x Hu Hx). split; [tauto|]. intros H. split; auto.
  (* a variable assigned on some path is assigned somewhere *)
  apply (as_iff g E0 glob s1 s2). right.
  assert (K : forall b, assigned_after cg (keys E0) x b -> exists b', b' < nb g /\ assigns x (evs g b')).
  { intros b Hb. induction Hb as [b Hb Hd|b Hb Hp Hd|b p Hb Hp _ IH]; auto.
    - exists b. split; [unfold cg in Hb; rewrite nblocks_to_cfg in Hb; auto|apply def_to_cfg; auto].
    - exfalso. apply lookup_keys in Hd. auto. }
  destruct H as [[_ Hd]|[p [_ Hp]]]; [exfalso; apply lookup_keys in Hd; auto|apply (K p Hp)].
Qed.

(** every candidate report of an undefined-variable error is a genuine violation, with the
    wording determined by the paths into the reported use *)
Lemma report_cands_sound : forall e k x u, check_cfg g E0 glob s1 s2 = Rej e ->
  In (k, x, u) (report_cands g F e) ->
  needs_def F x = true /\ undef_use g E0 x u /\
  (k = true <-> assigned_before cg (keys E0) x u).
Proof.
  intros e k x u H Hin. pose proof (check_cfg_sound g E0 glob s1 s2 W e H) as K.
  destruct e as [y|p s xs|p s xs|p s|]; unfold report_cands in Hin; try (destruct Hin; fail).
  - destruct Hin as [Hin|[]]. inversion Hin. subst. destruct K as [Kn Ku]. split; auto. split; auto.
    split; [discriminate|]. intros [[_ Hd]|[p [Hp _]]].
    + destruct Ku as [Hl _]. apply lookup_keys in Hd. congruence.
    + unfold cg in Hp. rewrite (entry_no_flow_pred g W) in Hp. destruct Hp.
  - destruct K as [_ [Hs K]]. apply in_flat_map in Hin. destruct Hin as [y [Hy Hin]].
    apply in_map_iff in Hin. destruct Hin as [u' [Eq Hu]]. inversion Eq. subst y u'. clear Eq.
    destruct (K x Hy) as [Kn [Kl [Kr _]]].
    destruct (witness_sound x s u Hs Kr Hu) as [A [B C]].
    split; auto. split; [unfold undef_use; auto|].
    apply (maybe_wording x u A Kl).
Qed.

Lemma report_type_cands_sound : forall e x u, check_cfg g E0 glob s1 s2 = Rej e ->
  In (x, u) (report_type_cands g e) ->
  exists s, ty_conflict g E0 x s.
Proof.
  intros e x u H Hin. pose proof (check_cfg_sound g E0 glob s1 s2 W e H) as K.
  destruct e as [y|p s xs|p s xs|p s|]; unfold report_type_cands in Hin; try (destruct Hin; fail).
  destruct K as [_ K]. apply in_flat_map in Hin. destruct Hin as [y [Hy Hin]].
  apply in_map_iff in Hin. destruct Hin as [u' [Eq Hu]]. inversion Eq. subst. exists s. auto.
Qed.

(** * completeness: an assignment-free path to a use makes the ENTRY block's tests fail *)
Lemma reach_to_first_edge : forall x u, reach_nodef g x u -> live_at g x u ->
  u = 0 \/ exists b1, In b1 (flow g 0) /\ ~ assigns x (evs g 0) /\ live_at g x b1.
Proof.
  intros x u H. induction H as [|p b Hr IH Hp Ha Hb]; intros Hl; auto.
  destruct IH as [->|IH]; auto.
  - apply la_step with b; auto.
  - right. exists b. auto.
Qed.

Definition is_undef (e : error) : Prop :=
  match e with EntryUndef _ => True | SuccUndef p _ _ => p = 0 | _ => False end.

Lemma first_succ_some_ex : forall after p ss s x, In s ss -> In x (succ_undef F after s) ->
  exists e, first_succ_undef F after p ss = Some e.
Proof.
  intros after p ss s x. induction ss as [|s' t IH]; simpl; intros Hs Hx; [tauto|].
  destruct (succ_undef F after s') eqn:Q; eauto.
  destruct Hs as [->|Hs]; [rewrite Q in Hx; destruct Hx|auto].
Qed.

Lemma undef_complete : forall x u, needs_def F x = true -> undef_use g E0 x u ->
  exists e, check_cfg g E0 glob s1 s2 = Rej e /\ is_undef e.
Proof.
  intros x u Hn [Hl [Hu [Hr Hf]]].
  unfold check_cfg, check_cfg_with. fold F. unfold check_bb. simpl.
  destruct (entry_undef g F) as [|y l] eqn:Q; [|exists (EntryUndef y); simpl; auto].
  destruct (reach_to_first_edge x u Hr (la_use g x u Hu Hf)) as [->|[b1 [Hb [Ha Hlv]]]].
  - exfalso. assert (In x (entry_undef g F)); [|rewrite Q in H; destruct H].
    unfold entry_undef. apply filter_In. split; [apply used_char; exact Hf|].
    fold F. rewrite Hn, andb_true_r. apply negb_true_iff. apply memb_false.
    rewrite def0'. intros N. congruence.
  - assert (Hx : In x (succ_undef F (exec (e_evs (eblk g 0)) E0) b1)).
    { apply succ_undef_In. split; [|split; auto].
      - apply (live_iff' g E0 glob s1 s2 W); auto. apply (flow_lt g W 0); auto. apply (nb_pos g W).
      - apply lookup_exec_none. auto. }
    destruct (first_succ_some_ex _ 0 (flow_s g 0) b1 x Hb Hx) as [e He].
    fold F in He. rewrite He. exists e. split; auto.
    destruct (first_succ_some _ _ _ _ _ _ _ _ _ He) as [s [y [ys [-> _]]]]. simpl. reflexivity.
Qed.

(** * the set of ALL variables the entry block's tests reject *)
Lemma live_to_use : forall x s, live_at g x s -> reach_nodef g x s ->
  exists u, u < nb g /\ reach_nodef g x u /\ reads_first x (evs g u).
Proof.
  intros x s H. induction H as [b Hb Hf|b c Hb Ha Hc _ IH]; intros Hr; eauto.
  apply IH. apply rn_step with b; auto.
Qed.

Lemma undef_vars_char : forall x, In x (undef_vars g F E0) <->
  needs_def F x = true /\ exists u, undef_use g E0 x u.
Proof.
  intros x. unfold undef_vars. rewrite in_app_iff. split.
  - intros [H|H].
    + unfold entry_undef in H. apply filter_In in H. destruct H as [Hu Hc]. fold F in Hc.
      apply andb_true_iff in Hc. destruct Hc as [Hd Hn]. split; auto. exists 0.
      apply negb_true_iff in Hd. apply memb_false in Hd. rewrite def0' in Hd.
      split; [destruct (opt_dec (lookup x E0)); tauto|].
      split; [apply (nb_pos g W)|split; [apply rn_entry|apply used_char; auto]].
    + apply in_flat_map in H. destruct H as [s [Hs Hx]]. apply succ_undef_In in Hx.
      destruct Hx as [Hl [Hn Hd]]. split; auto. apply lookup_exec_none in Hn. destruct Hn as [Hn Ha].
      assert (Hsn : s < nb g) by (apply (flow_lt g W 0); auto; apply (nb_pos g W)).
      apply (live_iff' g E0 glob s1 s2 W) in Hl; auto.
      destruct (live_to_use x s Hl) as [u [A [B C]]].
      { apply rn_step with 0; auto. apply rn_entry. apply (nb_pos g W). }
      exists u. unfold undef_use. auto.
  - intros [Hn [u [Hl [Hu [Hr Hf]]]]].
    destruct (reach_to_first_edge x u Hr (la_use g x u Hu Hf)) as [->|[b1 [Hb [Ha Hlv]]]].
    + left. unfold entry_undef. apply filter_In. split; [apply used_char; exact Hf|].
      fold F. rewrite Hn, andb_true_r. apply negb_true_iff. apply memb_false.
      rewrite def0'. intros N. congruence.
    + right. apply in_flat_map. exists b1. split; auto. apply succ_undef_In. split; [|split; auto].
      * apply (live_iff' g E0 glob s1 s2 W); auto. apply (flow_lt g W 0); auto. apply (nb_pos g W).
      * apply lookup_exec_none. auto.
Qed.
End Exact.
