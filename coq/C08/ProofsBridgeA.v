(** V.C08.ProofsBridgeA — every syntactic path is a walk through the graph CFGBuilder builds:
    walk lemmas, conditions, simple statements, statement lists, if.
    Same induction skeleton (and structural vocabulary: ext / grows / opn / jok / rok) as C03's
    simulation proof; the semantic clause is replaced by item-labelled walks. *)
From Coq Require Import ZArith List Bool Lia.
From V.C03 Require Import PyAst Cfg Builder ProofsBase ProofsExpr ProofsBranch ProofsStmtA ProofsStmtB ProofsStmtC.
From V.C08 Require Import CfgCheck Bridge.
Import ListNotations.

(** * walks *)
Lemma walk_trans : forall G a i1 b i2 c, walk G a i1 b -> walk G b i2 c -> walk G a (i1 ++ i2) c.
Proof.
  intros G a i1 b i2 c H. induction H; intros K; simpl; auto.
  rewrite <- app_assoc. econstructor; eauto.
Qed.
Lemma walk_one : forall G a i b, wstep G a i b -> walk G a i b.
Proof. intros. rewrite <- (app_nil_r i). econstructor; eauto. constructor. Qed.

Lemma w_push : forall g bb s G, opn g bb -> ext (upd_nth bb (push_stmt s) g) G ->
  walk G (bb, slen g bb) [IStmt s] (bb, S (slen g bb)).
Proof.
  intros g bb s G (L&S&P) (LG&E).
  assert (Lb : bb < length (upd_nth bb (push_stmt s) g)) by (rewrite upd_nth_length; auto).
  destruct (E bb Lb) as ((rest&R)&_). rewrite blk_upd_same in R by auto. simpl in R.
  apply walk_one, ws_stmt. rewrite R. unfold slen. rewrite <- app_assoc.
  rewrite nth_error_app2 by lia. rewrite Nat.sub_diag. reflexivity.
Qed.

Lemma w_link : forall g bb t G, opn g bb -> ext (upd_nth bb (add_succ t) g) G ->
  walk G (bb, slen g bb) [] (t, 0).
Proof.
  intros g bb t G (L&S&P) E.
  destruct (ext_closed _ _ bb E) as (LG&A1&A2&A3).
  - rewrite upd_nth_length; auto.
  - rewrite blk_upd_same by auto. simpl. rewrite S. simpl. congruence.
  - rewrite blk_upd_same in A1, A2, A3 by auto. simpl in A1, A2, A3. rewrite S in A3. simpl in A3.
    unfold slen. rewrite <- A1. apply walk_one, ws_jump; [congruence|]. rewrite A3. simpl. auto.
Qed.

Lemma w_branch : forall g bb p f t G, opn g bb -> ext (upd_nth bb (closeF p f t) g) G ->
  forall x, x = f \/ x = t -> walk G (bb, slen g bb) [ICond p] (x, 0).
Proof.
  intros g bb p f t G (L&S&P) E x Hx.
  destruct (ext_closed _ _ bb E) as (LG&A1&A2&A3).
  - rewrite upd_nth_length; auto.
  - rewrite blk_upd_same by auto. simpl. rewrite S. simpl. congruence.
  - rewrite blk_upd_same in A1, A2, A3 by auto. simpl in A1, A2, A3. rewrite S in A3. simpl in A3.
    unfold slen. rewrite <- A1. apply walk_one, ws_branch; [exact A2|]. rewrite A3. simpl.
    destruct Hx; subst; auto.
Qed.

(** where a syntactic path of a statement (list) leaves the walk *)
Definition wout (G : list block) (c : pos) (j : jumps) (g' : list block) (r : option nat)
           (items : list item) (o : out) : Prop :=
  match o with
  | ONorm => exists b', r = Some b' /\ walk G c items (b', slen g' b')
  | OBrk => exists b, j_brk j = Some b /\ walk G c items (b, 0)
  | OCont => exists b, j_cont j = Some b /\ walk G c items (b, 0)
  | ORet => walk G c items (j_ret j, 0)
  | OStop => exists c', walk G c items c'
  end.

Lemma wout_prefix : forall G c0 i0 c j g' r items o,
  walk G c0 i0 c -> wout G c j g' r items o -> wout G c0 j g' r (i0 ++ items) o.
Proof.
  intros G c0 i0 c j g' r items o W O. destruct o; simpl in *.
  - destruct O as (b'&E&T). exists b'. split; auto. eapply walk_trans; eauto.
  - destruct O as (b&E&T). exists b. split; auto. eapply walk_trans; eauto.
  - destruct O as (b&E&T). exists b. split; auto. eapply walk_trans; eauto.
  - eapply walk_trans; eauto.
  - destruct O as (c'&T). exists c'. eapply walk_trans; eauto.
Qed.

Lemma wout_conv : forall G c j g' r g'' r' items o,
  (forall b', r = Some b' -> r' = Some b' /\ slen g'' b' = slen g' b') ->
  wout G c j g' r items o -> wout G c j g'' r' items o.
Proof.
  intros G c j g' r g'' r' items o H O. destruct o; simpl in *; auto.
  destruct O as (b'&E&T). destruct (H b' E) as (E'&SL). exists b'. split; auto. rewrite SL. auto.
Qed.

Lemma wout_then : forall G c j g' a g'' m items o,
  wout G c j g' (Some a) items o ->
  walk G (a, slen g' a) [] (m, slen g'' m) ->
  wout G c j g'' (Some m) items o.
Proof.
  intros G c j g' a g'' m items o O H. destruct o; simpl in *; auto.
  destruct O as (b'&E&T). inversion E; subst. exists m. split; auto.
  rewrite <- (app_nil_r items). eapply walk_trans; eauto.
Qed.

Lemma wout_stop_nil : forall G c j g' r, wout G c j g' r [] OStop.
Proof. intros. simpl. exists c. constructor. Qed.

(** * conditions *)
Lemma cf_generic : forall c, lift_free c = true -> is_generic c = true ->
  forall bb t f g n s', build_branch c bb t f (mkB g n) = BOk tt s' -> opn g bb ->
  exists g', s' = mkB g' n /\ grows g bb g' /\
    forall G, ext g' G -> walk G (bb, slen g bb) [ICond (fold_neg c)] (t, 0) /\
                          walk G (bb, slen g bb) [ICond (fold_neg c)] (f, 0).
Proof.
  intros c LF GE bb t f g n s' B O.
  rewrite build_branch_generic in B by auto. unfold gen_branch, bind in B.
  rewrite build_lift_free in B by auto. simpl in B. rewrite close_branch_eq in B. inversion B; subst; clear B.
  eexists; split; [reflexivity|]. split.
  - apply grows_upd; auto. intros b _. exists []. simpl. rewrite app_nil_r. auto.
  - intros G E. split; eapply w_branch; eauto.
Qed.

Lemma cf_cases : forall c, cf_cond c = true ->
  (exists a, c = EUnary UNot a /\ cf_cond a = true) \/ (lift_free c = true /\ is_generic c = true).
Proof.
  intros c H. destruct c; try (right; apply andb_prop; exact H).
  destruct op; try (right; apply andb_prop; exact H). left. exists c. auto.
Qed.
Lemma core_generic : forall c, is_generic c = true -> core c = fold_neg c.
Proof. intros c H. destruct c; auto. destruct op; auto. discriminate. Qed.

Lemma cf_branch : forall c, cf_cond c = true ->
  forall bb t f g n s', build_branch c bb t f (mkB g n) = BOk tt s' -> opn g bb ->
  exists g', s' = mkB g' n /\ grows g bb g' /\
    forall G, ext g' G -> walk G (bb, slen g bb) [ICond (core c)] (t, 0) /\
                          walk G (bb, slen g bb) [ICond (core c)] (f, 0).
Proof.
  induction c; intros H bb tt0 ff0 g0 n0 s' B O;
    (destruct (cf_cases _ H) as [(a&E&Ha)|(H1&H2)];
     [try discriminate | rewrite (core_generic _ H2); exact (cf_generic _ H1 H2 bb tt0 ff0 g0 n0 s' B O)]).
  inversion E; subst. simpl in B. destruct (IHc Ha bb ff0 tt0 g0 n0 s' B O) as (g'&A&Gr&W).
  exists g'. split; auto. split; auto. intros G E'. destruct (W G E'). simpl. split; auto.
Qed.

(** * the specification proved by structural induction *)
Definition stmt_wspec (s : stmt) : Prop :=
  forall bb j g n r s', cf_stmt s = true ->
  visit_stmt s bb j (mkB g n) = BOk r s' ->
  opn g bb -> bb <> exit_idx -> exit_idx < length g -> jok g bb j ->
  exists g', s' = mkB g' n /\ grows g bb g' /\ rok g bb g' r /\
    forall G, ext g' G -> forall items o, spath_s s items o ->
      wout G (bb, slen g bb) j g' r items o.

Definition stmts_wspec (ss : stmts) : Prop :=
  forall prev cur j g n r s', cf_stmts ss = true ->
  visit_stmts ss prev cur j (mkB g n) = BOk r s' ->
  exit_idx < length g -> cur_ok g cur j ->
  exists g', s' = mkB g' n /\ grows g (cb g cur) g' /\ rok g (cb g cur) g' r /\
    forall bb, cur = Some bb ->
    forall G, ext g' G -> forall items o, spath_l ss items o ->
      wout G (bb, slen g bb) j g' r items o.

(** * simple statements *)
Lemma push_wnormal : forall s bb j g, opn g bb -> bb <> exit_idx ->
  grows g bb (upd_nth bb (push_stmt s) g) /\ rok g bb (upd_nth bb (push_stmt s) g) (Some bb) /\
  forall G, ext (upd_nth bb (push_stmt s) g) G -> forall items o, simple_path s ONorm items o ->
    wout G (bb, slen g bb) j (upd_nth bb (push_stmt s) g) (Some bb) items o.
Proof.
  intros s bb j g O Nb. destruct (opn_push g bb s O) as (O1&SL1).
  split; [apply grows_push; auto|]. split; [simpl; auto|].
  intros G E items o [[-> ->]|[-> ->]].
  - simpl. exists bb. split; auto. rewrite SL1. eapply w_push; eauto.
  - apply wout_stop_nil.
Qed.

Lemma push_wreturn : forall s bb j g, opn g bb -> bb <> exit_idx ->
  let g1 := upd_nth bb (push_stmt s) g in
  let g2 := upd_nth bb (add_succ (j_ret j)) g1 in
  grows g bb g2 /\
  forall G, ext g2 G -> forall items o, simple_path s ORet items o ->
    wout G (bb, slen g bb) j g2 None items o.
Proof.
  intros s bb j g O Nb g1 g2.
  destruct (opn_push g bb s O) as (O1&SL1). fold g1 in O1, SL1.
  assert (G12: grows g1 bb g2) by (apply grows_link; auto).
  split. { eapply grows_trans_gen; [apply grows_push; auto | exact G12 | auto]. }
  intros G E items o [[-> ->]|[-> ->]].
  - assert (E1: ext g1 G) by (eapply ext_trans; [eapply grows_ext; eauto | auto]).
    simpl. change [IStmt s] with ([IStmt s] ++ []). eapply walk_trans.
    + eapply w_push; eauto.
    + rewrite <- SL1. eapply w_link; eauto.
  - apply wout_stop_nil.
Qed.

Lemma wspec_assign : forall t e, stmt_wspec (SAssign t e).
Proof.
  intros t e bb j g n r s' F V O Nb Ne J. simpl in F.
  simpl in V. unfold bind in V. rewrite build_lift_free in V by auto. simpl in V.
  inversion V; subst; clear V.
  destruct (push_wnormal (SAssign t (fold_neg e)) bb j g O Nb) as (A&B&C).
  eexists. split; [reflexivity|]. split; [exact A|]. split; [exact B|]. exact C.
Qed.

Lemma wspec_aug : forall x op e, stmt_wspec (SAug x op e).
Proof.
  intros x op e bb j g n r s' F V O Nb Ne J. simpl in F.
  simpl in V. unfold bind in V. rewrite build_lift_free in V by auto. simpl in V.
  inversion V; subst; clear V.
  destruct (push_wnormal (SAug x op (fold_neg e)) bb j g O Nb) as (A&B&C).
  eexists. split; [reflexivity|]. split; [exact A|]. split; [exact B|]. exact C.
Qed.

Lemma is_tmp_fold_false : forall e, is_tmp_name e = false -> is_tmp_name (fold_neg e) = false.
Proof.
  intros e H. destruct (is_tmp_name (fold_neg e)) eqn:T; auto.
  destruct (is_tmp_fold e T) as (m&->). simpl in H. discriminate.
Qed.

Lemma wspec_expr : forall e, stmt_wspec (SExpr e).
Proof.
  intros e bb j g n r s' F V O Nb Ne J. simpl in F. apply andb_prop in F. destruct F as [F1 F2].
  apply negb_true_iff in F2.
  simpl in V. unfold bind in V. rewrite build_lift_free in V by auto. simpl in V.
  rewrite (is_tmp_fold_false e F2) in V. simpl in V. inversion V; subst; clear V.
  destruct (push_wnormal (SExpr (fold_neg e)) bb j g O Nb) as (A&B&C).
  eexists. split; [reflexivity|]. split; [exact A|]. split; [exact B|]. exact C.
Qed.

Lemma wspec_pass : stmt_wspec SPass.
Proof.
  intros bb j g n r s' F V O Nb Ne J. simpl in V. inversion V; subst; clear V.
  exists g. split; auto. split; [apply grows_refl|]. split; [simpl; auto|].
  intros G E items o [-> [->| ->]].
  - simpl. exists bb. split; auto. constructor.
  - apply wout_stop_nil.
Qed.

Lemma wspec_return : forall e, stmt_wspec (SReturn e).
Proof.
  intros e bb j g n r s' F V O Nb Ne J. simpl in F.
  destruct e as [e|].
  - simpl in V. unfold bind in V. rewrite build_lift_free in V by auto. simpl in V.
    inversion V; subst; clear V.
    destruct (push_wreturn (SReturn (Some (fold_neg e))) bb j g O Nb) as (A&C).
    eexists. split; [reflexivity|]. split; [exact A|]. split; [simpl; auto|]. exact C.
  - simpl in V. inversion V; subst; clear V.
    destruct (push_wreturn (SReturn None) bb j g O Nb) as (A&C).
    eexists. split; [reflexivity|]. split; [exact A|]. split; [simpl; auto|]. exact C.
Qed.

Lemma wspec_break : stmt_wspec SBreak.
Proof.
  intros bb j g n r s' F V O Nb Ne J. simpl in V.
  destruct (j_brk j) as [b|] eqn:JB; [|discriminate]. simpl in V. inversion V; subst; clear V.
  eexists. split; [reflexivity|]. split; [apply grows_link; auto|]. split; [simpl; auto|].
  intros G E items o [-> [->| ->]].
  - simpl. exists b. split; auto. eapply w_link; eauto.
  - apply wout_stop_nil.
Qed.

Lemma wspec_continue : stmt_wspec SContinue.
Proof.
  intros bb j g n r s' F V O Nb Ne J. simpl in V.
  destruct (j_cont j) as [b|] eqn:JB; [|discriminate]. simpl in V. inversion V; subst; clear V.
  eexists. split; [reflexivity|]. split; [apply grows_link; auto|]. split; [simpl; auto|].
  intros G E items o [-> [->| ->]].
  - simpl. exists b. split; auto. eapply w_link; eauto.
  - apply wout_stop_nil.
Qed.

(** * statement lists *)
Lemma wspec_nil : stmts_wspec SNil.
Proof.
  intros prev cur j g n r s' F V Ne CO. simpl in V. inversion V; subst; clear V.
  exists g. split; auto. split; [apply grows_refl|]. split.
  - destruct r; simpl in *; auto. destruct CO as (A&B&C). auto.
  - intros bb -> G E items o [-> [->| ->]].
    + simpl. exists bb. split; auto. constructor.
    + apply wout_stop_nil.
Qed.

Lemma wcons_some : forall s r, stmt_wspec s -> stmts_wspec r ->
  forall bb j g n rr s', cf_stmts (SCons s r) = true ->
  (LET r1 <- visit_stmt s bb j IN visit_stmts r bb r1 j) (mkB g n) = BOk rr s' ->
  exit_idx < length g -> opn g bb -> bb <> exit_idx -> jok g bb j ->
  exists g', s' = mkB g' n /\ grows g bb g' /\ rok g bb g' rr /\
    forall G, ext g' G -> forall items o, spath_l (SCons s r) items o ->
      wout G (bb, slen g bb) j g' rr items o.
Proof.
  intros s r Hs Hr bb j g n rr s' F V Ne O Nb J.
  simpl in F. apply andb_prop in F. destruct F as [F1 F2].
  apply bind_inv in V. destruct V as (r1&s1&V1&V2).
  destruct (Hs bb j g n r1 s1 F1 V1 O Nb Ne J) as (g1&->&Gr1&R1&Sem1).
  pose proof (grows_length _ _ _ Gr1) as L1.
  assert (CO1: cur_ok g1 r1 j).
  { destruct r1 as [b1|]; simpl in *.
    - destruct R1 as (A&B&C). split; [exact A|]. split; [exact B|]. eapply jok_mono; eauto.
    - eapply jok_mono; eauto. }
  assert (D1: cb g1 r1 = bb \/ length g <= cb g1 r1).
  { destruct r1 as [b1|]; simpl in *; [destruct R1 as (_&_&C); auto | right; lia]. }
  destruct (Hr bb r1 j g1 n rr s' F2 V2) as (g2&->&Gr2&R2&Sem2); [lia | auto |].
  exists g2. split; auto. split; [eapply grows_trans_gen; eauto|]. split.
  - destruct rr as [b'|]; simpl in *; auto. destruct R2 as (A&B&C). split; [exact A|]. split; [exact B|].
    destruct C as [C|C]; [rewrite C; exact D1 | right; lia].
  - intros G E items o X.
    assert (E1: ext g1 G) by (eapply ext_trans; [eapply grows_ext; eauto | auto]).
    simpl in X. destruct X as [(i1&i2&->&X1&X2)|(X1&No)].
    + pose proof (Sem1 G E1 i1 ONorm X1) as T1. simpl in T1. destruct T1 as (b1&->&T1).
      eapply wout_prefix; [exact T1|]. eapply Sem2; eauto.
    + pose proof (Sem1 G E1 items o X1) as T1.
      destruct o; try congruence; exact T1.
Qed.

Lemma wspec_cons : forall s r, stmt_wspec s -> stmts_wspec r -> stmts_wspec (SCons s r).
Proof.
  intros s r Hs Hr prev cur j g n rr s' F V Ne CO.
  destruct cur as [bb|].
  - simpl in CO. destruct CO as (O&Nb&J).
    assert (V' : (LET r1 <- visit_stmt s bb j IN visit_stmts r bb r1 j) (mkB g n) = BOk rr s') by exact V.
    destruct (wcons_some s r Hs Hr bb j g n rr s' F V' Ne O Nb J) as (g'&->&A&B&C).
    exists g'. split; auto. split; auto. split; auto.
    intros bb0 Eq. inversion Eq; subst. exact C.
  - simpl in CO. simpl in V.
    set (b := length g) in *. set (g1 := upd_nth prev (add_dummy b) (g ++ [empty_block])).
    assert (V' : (LET r1 <- visit_stmt s b j IN visit_stmts r b r1 j) (mkB g1 n) = BOk rr s') by exact V.
    destruct (opn_new g) as (O0&_). fold b in O0.
    destruct (opn_dummy (g ++ [empty_block]) prev b b O0) as (O1&_). fold g1 in O1.
    assert (LA: length g1 = S (length g)) by (unfold g1; rewrite upd_nth_length, app_length; simpl; lia).
    assert (G01: grows g b g1).
    { eapply grows_trans_gen; [apply grows_new | apply grows_dummy | left; reflexivity]. }
    assert (J1: jok g1 b j) by (eapply jok_mono; [exact CO | lia | left; reflexivity]).
    destruct (wcons_some s r Hs Hr b j g1 n rr s' F V') as (g'&->&A&B&C); auto; try (unfold b, exit_idx in *; lia).
    exists g'. split; auto. split; [eapply grows_trans_gen; [exact G01 | exact A | left; reflexivity]|].
    split.
    + simpl. destruct rr as [b'|]; simpl in *; auto. destruct B as (B1&B2&B3). split; [exact B1|]. split; [exact B2|].
      destruct B3; [left; auto | right; lia].
    + intros bb Eq. discriminate.
Qed.
