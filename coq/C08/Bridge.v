(** V.C08.Bridge — syntactic control-flow paths of a Python function body (C03's PyAst) and
    item-labelled walks through the CFG that C03's model of CFGBuilder builds for it; the
    translation of such a CFG into C08's event CFG.  Definitions only.

    Fragment [cf_stmts]: assignments, augmented assignments, expression statements, return
    with lift-free expressions; pass / break / continue; if / elif / else and while (no loop
    else) whose conditions are OPAQUE: a lift-free expression that is not a literal True /
    False, possibly under [not] (every such condition may go both ways). *)
From Coq Require Import ZArith List Bool.
From V.C03 Require Import PyAst Cfg Builder ProofsBase ProofsBranch.
From V.C08 Require Import CfgCheck.
Import ListNotations.

(** * the fragment *)
Fixpoint cf_cond (c : expr) : bool :=
  match c with
  | EUnary UNot a => cf_cond a
  | _ => lift_free c && is_generic c
  end.
(* the predicate stored in the branching block *)
Fixpoint core (c : expr) : expr :=
  match c with
  | EUnary UNot a => core a
  | _ => fold_neg c
  end.

Fixpoint cf_stmt (s : stmt) : bool :=
  match s with
  | SAssign _ e | SAug _ _ e => lift_free e
  | SExpr e => lift_free e && negb (is_tmp_name e)
  | SIf c b o => cf_cond c && cf_stmts b && cf_stmts o
  | SWhile c b o => cf_cond c && cf_stmts b && match o with SNil => true | _ => false end
  | SBreak | SContinue | SPass => true
  | SReturn None => true
  | SReturn (Some e) => lift_free e
  end
with cf_stmts (ss : stmts) : bool :=
  match ss with SNil => true | SCons s r => cf_stmt s && cf_stmts r end.

(** * syntactic paths
    A path is the sequence of simple statements executed and conditions tested (as the builder
    stores them: [-c] folded, [not] stripped), with the way it ends.  Every condition may be
    true or false; nothing follows a jump; [OStop] = the path stops here (a path prefix). *)
Inductive item := IStmt (s : stmt) | ICond (e : expr).
Inductive out := ONorm | OBrk | OCont | ORet | OStop.

(* zero or more iterations of a loop whose body has the paths P *)
Inductive sloop (P : list item -> out -> Prop) (ci : item) : list item -> out -> Prop :=
| sl_exit : sloop P ci [ci] ONorm
| sl_stop : sloop P ci [] OStop
| sl_next i1 o1 i2 o : P i1 o1 -> (o1 = ONorm \/ o1 = OCont) -> sloop P ci i2 o ->
                       sloop P ci (ci :: i1 ++ i2) o
| sl_brk i1 : P i1 OBrk -> sloop P ci (ci :: i1) ONorm
| sl_out i1 o : P i1 o -> (o = ORet \/ o = OStop) -> sloop P ci (ci :: i1) o.

Definition simple_path (s' : stmt) (o' : out) (items : list item) (o : out) : Prop :=
  (items = [IStmt s'] /\ o = o') \/ (items = [] /\ o = OStop).

Fixpoint spath_s (s : stmt) (items : list item) (o : out) {struct s} : Prop :=
  match s with
  | SAssign t e => simple_path (SAssign t (fold_neg e)) ONorm items o
  | SAug x op e => simple_path (SAug x op (fold_neg e)) ONorm items o
  | SExpr e => simple_path (SExpr (fold_neg e)) ONorm items o
  | SReturn None => simple_path (SReturn None) ORet items o
  | SReturn (Some e) => simple_path (SReturn (Some (fold_neg e))) ORet items o
  | SPass => items = [] /\ (o = ONorm \/ o = OStop)
  | SBreak => items = [] /\ (o = OBrk \/ o = OStop)
  | SContinue => items = [] /\ (o = OCont \/ o = OStop)
  | SIf c b e =>
      (items = [] /\ o = OStop) \/
      exists i1, items = ICond (core c) :: i1 /\ (spath_l b i1 o \/ spath_l e i1 o)
  | SWhile c b _ => sloop (spath_l b) (ICond (core c)) items o
  end
with spath_l (ss : stmts) (items : list item) (o : out) {struct ss} : Prop :=
  match ss with
  | SNil => items = [] /\ (o = ONorm \/ o = OStop)
  | SCons s r =>
      (exists i1 i2, items = i1 ++ i2 /\ spath_s s i1 ONorm /\ spath_l r i2 o) \/
      (spath_s s items o /\ o <> ONorm)
  end.

(** * walks through a CFG of C03: positions (block, index of the next statement) *)
Definition pos := (nat * nat)%type.
Inductive wstep (G : list block) : pos -> list item -> pos -> Prop :=
| ws_stmt b k s : nth_error (b_stmts (blk G b)) k = Some s -> wstep G (b, k) [IStmt s] (b, S k)
| ws_jump b t : b_pred (blk G b) = None -> In t (b_succs (blk G b)) ->
                wstep G (b, length (b_stmts (blk G b))) [] (t, 0)
| ws_branch b p t : b_pred (blk G b) = Some p -> In t (b_succs (blk G b)) ->
                wstep G (b, length (b_stmts (blk G b))) [ICond p] (t, 0).
(* only REAL successors are followed *)
Inductive walk (G : list block) : pos -> list item -> pos -> Prop :=
| w_refl c : walk G c [] c
| w_cons c i1 c1 i2 c2 : wstep G c i1 c1 -> walk G c1 i2 c2 -> walk G c (i1 ++ i2) c2.

(** * variable events of statements / conditions, and the event CFG of a C03 CFG *)
Definition vn (x : var) : nat := match x with VU n => 2 * n | VT n => 2 * n + 1 end.
Fixpoint names (e : expr) : list nat :=
  match e with
  | EConst _ => []
  | EName x => [vn x]
  | EUnary _ a => names a
  | EBin _ a b => names a ++ names b
  | ECmp l rest => names l ++ names_ctail rest
  | EBool _ a b => names a ++ names b
  | EIf c a b => names c ++ names a ++ names b
  | EWalrus x a => names a
  | ECall _ args => names_list args
  | ETuple es => names_list es
  end
with names_list (es : exprs) : list nat :=
  match es with ENil => [] | ECons e r => names e ++ names_list r end
with names_ctail (t : ctail) : list nat :=
  match t with CLast _ e => names e | CMore _ e r => names e ++ names_ctail r end.

Definition rhs_of (e : expr) : rhs :=
  match e with
  | EName y => RCopy (vn y)
  | EBin _ (EName y) (EConst _) => RCopy (vn y)   (* `y + 1`: the type of y (harness convention) *)
  | EConst (CInt z) => RLit (Z.to_nat z)     (* the model's type code of a literal *)
  | _ => RLit 0
  end.
Definition uses (e : expr) : list event := map EUse (names e).
Definition ev_stmt (s : stmt) : list event :=
  match s with
  | SAssign (TName x) e => uses e ++ [EAssign (vn x) (rhs_of e)]
  | SAssign (TTuple xs) e => uses e ++ map (fun x => EAssign (vn (VU x)) (RLit 0)) xs
  | SAug x _ e => uses e ++ [EUse (vn (VU x)); EAssign (vn (VU x)) (RCopy (vn (VU x)))]
  | SExpr e => uses e
  | SReturn (Some e) => uses e
  | _ => []
  end.
Definition ev_item (i : item) : list event :=
  match i with IStmt s => ev_stmt s | ICond e => uses e end.
Definition ev_block (b : block) : list event :=
  flat_map ev_stmt (b_stmts b) ++ match b_pred b with Some p => uses p | None => [] end.
Definition ecfg_of (g : list block) : ecfg :=
  map (fun b => mkEB (b_succs b) (b_dummy b) (ev_block b)) g.
