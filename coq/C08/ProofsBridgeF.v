(** V.C08.ProofsBridgeF — converse direction at the level of [build] and of the event CFG:
    an assignment-free path along REAL edges of the event CFG of the built graph to a block that
    reads x first is the image of a syntactic path to a read of x that assigns x nowhere before. *)
From Coq Require Import ZArith List Bool Lia.
From V.C08 Require Import CfgCheck Spec ProofsBase Bridge ProofsBridgeA ProofsBridgeB ProofsBridgeC ProofsBridgeD ProofsBridgeE.
From V.C03 Require Import PyAst Cfg Builder ProofsBase ProofsExpr ProofsBranch ProofsStmtA ProofsStmtB ProofsStmtC ProofsReach.
Import ListNotations.

(** * a branching block always has a successor (builder invariant) *)
Definition Isucc (g : list block) : Prop := forall b q, b_pred (blk g b) = Some q -> b_succs (blk g b) <> [].
Definition pres {A} (m : M A) : Prop :=
  forall s a s', m s = BOk a s' -> Isucc (bs_blocks s) -> Isucc (bs_blocks s').

Lemma pres_ret : forall A (a : A), pres (ret a).
Proof. intros A a s b s' H I. inversion H; subst; auto. Qed.
Lemma pres_fail : forall A e, pres (@fail A e).
Proof. intros A e s b s' H. discriminate. Qed.
Lemma pres_bind : forall A B (m : M A) (f : A -> M B), pres m -> (forall a, pres (f a)) -> pres (bind m f).
Proof.
  intros A B m f Pm Pf s b s' H I. apply bind_inv in H. destruct H as (a&s1&H1&H2).
  eapply Pf; eauto.
Qed.
Lemma pres_new_bb : pres new_bb.
Proof.
  intros s a s' H I. unfold new_bb in H. inversion H; subst; clear H. simpl.
  intros b q Hp. destruct (Nat.lt_ge_cases b (length (bs_blocks s))) as [L|L].
  - rewrite blk_app_old in * by auto. eauto.
  - exfalso. destruct (Nat.eq_dec b (length (bs_blocks s))) as [->|N].
    + rewrite blk_app_new in Hp. discriminate.
    + rewrite blk_overflow in Hp by (rewrite app_length; simpl; lia). discriminate.
Qed.
Lemma pres_fresh_tmp : pres fresh_tmp.
Proof. intros s a s' H I. unfold fresh_tmp in H. inversion H; subst; auto. Qed.

Lemma Isucc_upd : forall g i F, Isucc g ->
  (forall b q, b_pred (F b) = Some q -> (forall q', b_pred b = Some q' -> b_succs b <> []) -> b_succs (F b) <> []) ->
  Isucc (upd_nth i F g).
Proof.
  intros g i F I HF b q Hp. destruct (Nat.eq_dec i b) as [->|N].
  - destruct (Nat.lt_ge_cases b (length g)) as [L|L].
    + rewrite blk_upd_same in * by auto. eapply HF; eauto.
    + rewrite blk_overflow in Hp by (rewrite upd_nth_length; auto). discriminate.
  - rewrite blk_upd_other in * by auto. eauto.
Qed.
Lemma pres_modify : forall i F,
  (forall b q, b_pred (F b) = Some q -> (forall q', b_pred b = Some q' -> b_succs b <> []) -> b_succs (F b) <> []) ->
  pres (modify i F).
Proof. intros i F HF s a s' H I. unfold modify in H. inversion H; subst. simpl. apply Isucc_upd; auto. Qed.

Lemma app_single_nonnil : forall (l : list nat) n, l ++ [n] <> [].
Proof. intros l n H. destruct l; discriminate. Qed.

Lemma pres_link : forall a b, pres (link a b).
Proof. intros. apply pres_modify. intros bl q _ _. simpl. apply app_single_nonnil. Qed.
Lemma pres_dummy_link : forall a b, pres (dummy_link a b).
Proof. intros. apply pres_modify. intros bl q Hp H. simpl in *. eauto. Qed.
Lemma pres_add_stmt : forall a s, pres (add_stmt a s).
Proof. intros. apply pres_modify. intros bl q Hp H. simpl in *. eauto. Qed.
Lemma pres_close_branch : forall bb p f t, pres (close_branch bb p f t).
Proof.
  intros bb p f t s a s' H I. destruct s as [g n]. rewrite close_branch_eq in H. inversion H; subst. simpl.
  apply Isucc_upd; auto. intros bl q _ _. simpl. apply app_single_nonnil.
Qed.

Lemma pres_expr_lf : forall e bb, lift_free e = true -> pres (build_expr e bb).
Proof. intros e bb L s a s' H I. rewrite build_lift_free in H by auto. inversion H; subst; auto. Qed.

Lemma pres_branch : forall c, cf_cond c = true -> forall bb t f, pres (build_branch c bb t f).
Proof.
  induction c; intros H bb tt0 ff0;
    (destruct (cf_cases _ H) as [(a&Eq&Ha)|(H1&H2)];
     [try discriminate |
      rewrite build_branch_generic by auto; unfold gen_branch;
      apply pres_bind; [apply pres_expr_lf; auto|intros; apply pres_close_branch]]).
  inversion Eq; subst. simpl. apply IHc; auto.
Qed.

Lemma pres_visit :
  (forall s, cf_stmt s = true -> forall bb j, pres (visit_stmt s bb j)) /\
  (forall ss, cf_stmts ss = true -> forall prev cur j, pres (visit_stmts ss prev cur j)).
Proof.
  apply stmt_mutind.
  - intros t e F bb j. simpl in *. apply pres_bind; [apply pres_expr_lf; auto|intros].
    apply pres_bind; [apply pres_add_stmt|intros; apply pres_ret].
  - intros x op e F bb j. simpl in *. apply pres_bind; [apply pres_expr_lf; auto|intros].
    apply pres_bind; [apply pres_add_stmt|intros; apply pres_ret].
  - intros e F bb j. simpl in *. apply andb_prop in F. destruct F as [F _].
    apply pres_bind; [apply pres_expr_lf; auto|intros].
    apply pres_bind; [|intros; apply pres_ret].
    destruct (is_tmp_name (fst a)); [apply pres_ret|apply pres_add_stmt].
  - intros c body Hb orelse Ho F bb j. simpl in *.
    apply andb_prop in F. destruct F as [F F3]. apply andb_prop in F. destruct F as [F1 F2].
    apply pres_bind; [apply pres_new_bb|intros tb].
    apply pres_bind; [apply pres_new_bb|intros eb].
    apply pres_bind; [apply pres_branch; auto|intros].
    apply pres_bind; [apply Hb; auto|intros te].
    apply pres_bind; [apply Ho; auto|intros ee].
    destruct te as [x|]; [destruct ee as [y|]|]; try apply pres_ret.
    apply pres_bind; [apply pres_new_bb|intros m].
    apply pres_bind; [apply pres_link|intros].
    apply pres_bind; [apply pres_link|intros]. apply pres_ret.
  - intros c body Hb orelse Ho F bb j. simpl in *.
    apply andb_prop in F. destruct F as [F F3]. apply andb_prop in F. destruct F as [F1 F2].
    destruct orelse; [|apply pres_fail].
    apply pres_bind; [apply pres_new_bb|intros head].
    apply pres_bind; [apply pres_link|intros].
    apply pres_bind; [apply pres_new_bb|intros bodyb].
    apply pres_bind; [apply pres_new_bb|intros tail].
    apply pres_bind; [apply pres_branch; auto|intros].
    apply pres_bind; [apply Hb; auto|intros rb].
    apply pres_bind; [|intros; apply pres_ret].
    destruct rb; [apply pres_link|apply pres_ret].
  - intros F bb j. simpl. destruct (j_brk j); [|apply pres_fail].
    apply pres_bind; [apply pres_link|intros; apply pres_ret].
  - intros F bb j. simpl. destruct (j_cont j); [|apply pres_fail].
    apply pres_bind; [apply pres_link|intros; apply pres_ret].
  - intros F bb j. simpl. apply pres_ret.
  - intros e F bb j. destruct e as [e|]; simpl in *.
    + apply pres_bind; [apply pres_expr_lf; auto|intros].
      apply pres_bind; [apply pres_add_stmt|intros].
      apply pres_bind; [apply pres_link|intros; apply pres_ret].
    + apply pres_bind; [apply pres_add_stmt|intros].
      apply pres_bind; [apply pres_link|intros; apply pres_ret].
  - intros F prev cur j. simpl. apply pres_ret.
  - intros s Hs r Hr F prev cur j. simpl in *. apply andb_prop in F. destruct F as [F1 F2].
    apply pres_bind.
    + destruct cur; [apply pres_ret|].
      apply pres_bind; [apply pres_new_bb|intros].
      apply pres_bind; [apply pres_dummy_link|intros; apply pres_ret].
    + intros bb. apply pres_bind; [apply Hs; auto|intros]. apply Hr; auto.
Qed.

(** * the final graph is a subgraph of the raw graph *)
Definition rawA (final : option nat) (g' : list block) : list block :=
  match final with Some fb => upd_nth fb (add_succ Cfg.exit_idx) g' | None => g' end.

Definition sub_graph (g A : list block) : Prop :=
  length g = length A /\
  forall i, b_stmts (blk g i) = b_stmts (blk A i) /\ b_pred (blk g i) = b_pred (blk A i) /\
            (forall t, In t (b_succs (blk g i)) -> In t (b_succs (blk A i))).

Lemma prune_sub : forall A X (fl : nat -> bool), length X = length A ->
  (forall i, blk X i = put_reach (fl i) (blk A i)) -> sub_graph (prune X) A.
Proof.
  intros A X fl L B. split; [unfold prune; rewrite map_length; auto|].
  intros i. rewrite blk_prune, B. unfold pruneF. simpl. split; auto. split; auto.
  intros t Ht. destruct (fl i); auto. apply filter_In in Ht. tauto.
Qed.

Lemma build_raw : forall p rn g s, cf_stmts p = true -> build p rn = BOk g s ->
  exists final g' n',
    visit_stmts p Cfg.entry_idx (Some Cfg.entry_idx) (mkJ Cfg.exit_idx None None) init_state = BOk final (mkB g' n') /\
    sub_graph g (rawA final g').
Proof.
  intros p rn g s F B. unfold build in B.
  destruct (visit_stmts p Cfg.entry_idx (Some Cfg.entry_idx) (mkJ Cfg.exit_idx None None) init_state) as [final s1|] eqn:V; [|discriminate].
  destruct s1 as [g' n']. exists final, g', n'. split; auto.
  cbn [bs_blocks] in B.
  destruct (raw_walk p final g' n' F V) as ((Gr&R)&_).
  pose proof (grows_length _ _ _ Gr) as Lg. simpl in Lg.
  destruct (mark_reachable g') as [g1|] eqn:M; [|discriminate].
  destruct (mark_spec g' g1) as (res&Lres&L1&B1&_&_); [unfold Cfg.exit_idx; lia | auto |].
  destruct final as [fb|]; simpl.
  - simpl in R. destruct R as (Ob&Nfb&_). pose proof Ob as (Lfb&Sfb&_).
    set (A := upd_nth fb (add_succ Cfg.exit_idx) g') in *.
    set (g2 := upd_nth fb (add_succ Cfg.exit_idx) g1) in *.
    assert (LA: length A = length g') by (unfold A; apply upd_nth_length).
    assert (L2: length g2 = length g') by (unfold g2; rewrite upd_nth_length; auto).
    assert (B2: forall i, blk g2 i = put_reach (nth_reach res i) (blk A i)).
    { intros i. unfold g2, A. destruct (Nat.eq_dec fb i).
      - subst i. rewrite !blk_upd_same by lia. rewrite B1. reflexivity.
      - rewrite !blk_upd_other by auto. apply B1. }
    destruct (blk_reach g2 fb).
    + destruct rn; [|discriminate]. inversion B; subst; clear B.
      set (fl := fun i => if Nat.eqb i Cfg.exit_idx then true else nth_reach res i).
      assert (H1 : length (upd_nth Cfg.exit_idx (put_reach true) g2) = length A) by (rewrite upd_nth_length; lia).
      assert (H2 : forall i, blk (upd_nth Cfg.exit_idx (put_reach true) g2) i = put_reach (fl i) (blk A i)).
      { intros i. unfold fl. destruct (Nat.eqb_spec i Cfg.exit_idx).
        - subst. rewrite blk_upd_same by (unfold Cfg.exit_idx; lia). rewrite B2. reflexivity.
        - rewrite blk_upd_other by auto. apply B2. }
      exact (prune_sub A _ fl H1 H2).
    + inversion B; subst; clear B.
      assert (H1 : length g2 = length A) by lia.
      exact (prune_sub A _ (nth_reach res) H1 B2).
  - inversion B; subst; clear B. exact (prune_sub g' _ (nth_reach res) L1 B1).
Qed.

(** * assignment-free paths along real edges, on event CFGs *)
Inductive rreach (g : ecfg) (x : nat) : nat -> Prop :=
| rr_entry : rreach g x 0
| rr_step p b : rreach g x p -> p < nb g -> ~ assigns x (evs g p) -> In b (e_succ (eblk g p)) -> rreach g x b.

Lemma rreach_reach_nodef : forall g x u, rreach g x u -> reach_nodef g x u.
Proof.
  intros g x u H. induction H; [apply rn_entry|]. eapply rn_step; eauto. unfold flow. apply in_or_app. auto.
Qed.

Lemma ev_block_sub : forall g A i, sub_graph g A -> ev_block (blk g i) = ev_block (blk A i).
Proof. intros g A i (_&H). destruct (H i) as (S1&S2&_). unfold ev_block. rewrite S1, S2. reflexivity. Qed.

Lemma rreach_sub : forall g A x u, sub_graph g A -> rreach (ecfg_of g) x u -> rreach (ecfg_of A) x u.
Proof.
  intros g A x u SG H. induction H as [|p b H IH Lp Na Hb]; [constructor|].
  apply rr_step with p; auto.
  - rewrite nb_ecfg_of in *. destruct SG as (L&_). lia.
  - rewrite evs_ecfg_of in *. rewrite <- (ev_block_sub g A p SG). exact Na.
  - rewrite eblk_ecfg_of in *. simpl in *. destruct SG as (_&S0). apply (S0 p). exact Hb.
Qed.

(** * from block-level paths to walks *)
Lemma reads_first_app_inv : forall x l1 l2, reads_first x (l1 ++ l2) ->
  reads_first x l1 \/ (~ assigns x l1 /\ reads_first x l2).
Proof.
  intros x l1. induction l1 as [|e t IH]; intros l2 R; simpl in *.
  - right. split; auto. apply assigns_nil.
  - destruct R as [R|[N R]]; auto. destruct (IH l2 R) as [A|[A B]]; auto.
    right. split; auto. intros H. apply assigns_cons in H. tauto.
Qed.

Lemma split_reads : forall x l tl, reads_first x (flat_map ev_stmt l ++ tl) ->
  (exists l1 s l2, l = l1 ++ s :: l2 /\ ~ assigns x (flat_map ev_stmt l1) /\ reads_first x (ev_stmt s)) \/
  (~ assigns x (flat_map ev_stmt l) /\ reads_first x tl).
Proof.
  intros x l. induction l as [|a l IH]; intros tl R; simpl in *.
  - right. split; auto. apply assigns_nil.
  - rewrite <- app_assoc in R. destruct (reads_first_app_inv _ _ _ R) as [A|[A B]].
    + left. exists [], a, l. simpl. split; auto. split; auto. apply assigns_nil.
    + destruct (IH tl B) as [(l1&s&l2&->&N&Rs)|(N&Rt)].
      * left. exists (a :: l1), s, l2. simpl. split; auto. split; auto.
        intros H. apply assigns_app in H. tauto.
      * right. split; auto. intros H. apply assigns_app in H. tauto.
Qed.

Section Walks.
Variable G : list block.
Variable x : nat.

Lemma walk_stmts : forall b l0 l1 l2, b_stmts (blk G b) = l0 ++ l1 ++ l2 ->
  walk G (b, length l0) (map IStmt l1) (b, length l0 + length l1).
Proof.
  intros b l0 l1. revert l0. induction l1 as [|s l1 IH]; intros l0 l2 E; simpl.
  - rewrite Nat.add_0_r. constructor.
  - change (IStmt s :: map IStmt l1) with ([IStmt s] ++ map IStmt l1). econstructor.
    + apply ws_stmt. rewrite E. rewrite nth_error_app2 by lia. rewrite Nat.sub_diag. reflexivity.
    + replace (length l0 + S (length l1)) with (length (l0 ++ [s]) + length l1) by (rewrite app_length; simpl; lia).
      replace (S (length l0)) with (length (l0 ++ [s])) by (rewrite app_length; simpl; lia).
      apply (IH (l0 ++ [s]) l2). rewrite E. rewrite <- app_assoc. reflexivity.
Qed.

Lemma nodef_stmts : forall l, ~ assigns x (flat_map ev_stmt l) -> nodef x (map IStmt l).
Proof.
  intros l N it Hit A. apply in_map_iff in Hit. destruct Hit as (s&<-&Hs). apply N.
  destruct A as (e&He&D). exists e. split; auto. apply in_flat_map. exists s. auto.
Qed.

Lemma nodef_app : forall a b, nodef x a -> nodef x b -> nodef x (a ++ b).
Proof. intros a b Ha Hb it H. apply in_app_or in H. destruct H; auto. Qed.

Lemma rreach_walk : forall u, rreach (ecfg_of G) x u ->
  exists items, walk G (0, 0) items (u, 0) /\ nodef x items.
Proof.
  intros u H. induction H as [|p b H (items&W&N) Lp Na Hb].
  - exists []. split; [constructor|]. intros it [].
  - rewrite evs_ecfg_of in Na. rewrite eblk_ecfg_of in Hb. simpl in Hb.
    unfold ev_block in Na.
    assert (N1 : ~ assigns x (flat_map ev_stmt (b_stmts (blk G p)))).
    { intros A. apply Na. apply assigns_app. auto. }
    pose proof (walk_stmts p [] (b_stmts (blk G p)) [] ltac:(rewrite app_nil_r; reflexivity)) as W1. simpl in W1.
    destruct (b_pred (blk G p)) as [q|] eqn:Pq.
    + exists ((items ++ map IStmt (b_stmts (blk G p))) ++ [ICond q]). split.
      * eapply walk_trans; [eapply walk_trans; [exact W|exact W1]|]. apply walk_one. apply ws_branch; auto.
      * apply nodef_app; [apply nodef_app; auto; apply nodef_stmts; auto|].
        intros it [<-|[]]. simpl. apply uses_no_assign.
    + exists ((items ++ map IStmt (b_stmts (blk G p))) ++ []). split.
      * eapply walk_trans; [eapply walk_trans; [exact W|exact W1]|]. apply walk_one. apply ws_jump; auto.
      * rewrite app_nil_r. apply nodef_app; auto. apply nodef_stmts; auto.
Qed.

Lemma use_walk : forall u, Isucc G -> rreach (ecfg_of G) x u -> reads_first x (evs (ecfg_of G) u) ->
  exists pre last c', walk G (0, 0) (pre ++ [last]) c' /\ nodef x pre /\ reads_first x (ev_item last).
Proof.
  intros u I H R. destruct (rreach_walk u H) as (items&W&N).
  rewrite evs_ecfg_of in R. unfold ev_block in R.
  destruct (split_reads _ _ _ R) as [(l1&s&l2&E&N1&Rs)|(N1&Rt)].
  - pose proof (walk_stmts u [] l1 (s :: l2) E) as W1. simpl in W1.
    exists (items ++ map IStmt l1), (IStmt s), (u, S (length l1)). split; [|split; auto].
    + eapply walk_trans; [eapply walk_trans; [exact W|exact W1]|]. apply walk_one. apply ws_stmt.
      rewrite E. rewrite nth_error_app2 by lia. rewrite Nat.sub_diag. reflexivity.
    + apply nodef_app; auto. apply nodef_stmts; auto.
  - destruct (b_pred (blk G u)) as [q|] eqn:Pq; [|destruct Rt].
    pose proof (walk_stmts u [] (b_stmts (blk G u)) [] ltac:(rewrite app_nil_r; reflexivity)) as W1. simpl in W1.
    destruct (b_succs (blk G u)) as [|t ts] eqn:St; [exfalso; eapply I; eauto|].
    exists (items ++ map IStmt (b_stmts (blk G u))), (ICond q), (t, 0). split; [|split; auto].
    + eapply walk_trans; [eapply walk_trans; [exact W|exact W1]|]. apply walk_one. apply ws_branch; auto.
      rewrite St. simpl. auto.
    + apply nodef_app; auto. apply nodef_stmts; auto.
Qed.
End Walks.

(** * the body of a function, converse *)
Lemma exit_stuck : forall A n i2 c', b_stmts (blk A Cfg.exit_idx) = [] -> b_succs (blk A Cfg.exit_idx) = [] ->
  walkn A n (Cfg.exit_idx, 0) i2 c' -> i2 = [].
Proof.
  intros A n i2 c' S1 S2 W. destruct (walkn_inv _ _ _ _ _ W) as [(_&->&_)|(m&i1&c1&i3&->&->&St&T)]; auto.
  exfalso. inversion St as [b k s Hn|b t Hp Hs|b p t Hp Hs]; subst.
  - rewrite S1 in Hn. discriminate.
  - rewrite S2 in Hs. destruct Hs.
  - rewrite S2 in Hs. destruct Hs.
Qed.

Theorem build_back : forall p rn g s items c',
  cf_stmts p = true -> build p rn = BOk g s -> walk g (0, 0) items c' ->
  exists o, spath_l p items o.
Proof.
  intros p rn g s items c' F B W.
  destruct (build_raw p rn g s F B) as (final&g'&n'&V&SG).
  (* the walk lives in the raw graph too *)
  assert (WA : walk (rawA final g') (0, 0) items c').
  { clear V. induction W as [c|c i1 c1 i2 c2 St W IH]; [constructor|]. econstructor; eauto.
    destruct SG as (_&S0). inversion St as [b k s0 Hn|b t Hp Hs|b q t Hp Hs]; subst.
    - apply ws_stmt. destruct (S0 b) as (<-&_). auto.
    - destruct (S0 b) as (E1&E2&E3). rewrite E1. apply ws_jump; [rewrite <- E2; auto|auto].
    - destruct (S0 b) as (E1&E2&E3). rewrite E1. apply ws_branch; [rewrite <- E2; auto|auto]. }
  destruct (raw_walk p final g' n' F V) as ((Gr&R)&_).
  pose proof (grows_length _ _ _ Gr) as Lg. simpl in Lg.
  assert (n' = 0).
  { destruct (proj2 wspec_all p Cfg.entry_idx (Some Cfg.entry_idx) (mkJ Cfg.exit_idx None None) (bs_blocks init_state) 0 final (mkB g' n') F V)
      as (g''&Eq&_); [simpl; unfold Cfg.exit_idx; lia| |inversion Eq; auto].
    simpl. split; [unfold opn; simpl; auto|]. split; [unfold Cfg.entry_idx, Cfg.exit_idx; lia|].
    unfold jok. simpl. unfold Cfg.entry_idx, Cfg.exit_idx. repeat split; try lia; intros; discriminate. }
  subst n'.
  assert (CO : cur_ok (bs_blocks init_state) (Some Cfg.entry_idx) (mkJ Cfg.exit_idx None None)).
  { simpl. split; [unfold opn; simpl; auto|]. split; [unfold Cfg.entry_idx, Cfg.exit_idx; lia|].
    unfold jok. simpl. unfold Cfg.entry_idx, Cfg.exit_idx. repeat split; try lia; intros; discriminate. }
  assert (EA : ext g' (rawA final g')).
  { destruct final as [fb|]; simpl; [|apply ext_refl]. simpl in R. destruct R as (Ob&_&_).
    eapply grows_ext. apply grows_link. exact Ob. }
  pose proof (proj2 bspec_all p Cfg.entry_idx Cfg.entry_idx (mkJ Cfg.exit_idx None None) (bs_blocks init_state) 0 final g' F V
                ltac:(simpl; unfold Cfg.exit_idx; lia) CO (rawA final g') EA) as BW.
  destruct (walk_walkn _ _ _ _ WA) as (k&WN).
  change (0, 0) with (Cfg.entry_idx, slen (bs_blocks init_state) Cfg.entry_idx) in WN.
  destruct (BW k items c' WN) as (i1&i2&o&->&P&BO).
  (* the exit block has no statement and no successor *)
  assert (XS : b_stmts (blk g' Cfg.exit_idx) = [] /\ b_succs (blk g' Cfg.exit_idx) = []).
  { destruct Gr as (L&Fo&_). destruct (Fo Cfg.exit_idx) as (S1&_&S3); [simpl; unfold Cfg.exit_idx; lia | unfold Cfg.exit_idx, Cfg.entry_idx; lia |].
    rewrite S1, S3. split; reflexivity. }
  assert (XA : b_stmts (blk (rawA final g') Cfg.exit_idx) = [] /\ b_succs (blk (rawA final g') Cfg.exit_idx) = []).
  { destruct final as [fb|]; simpl; auto. simpl in R. destruct R as (_&Nfb&_).
    rewrite blk_upd_other by auto. exact XS. }
  assert (Z : i2 = []).
  { destruct BO as [Z|BO]; auto. destruct o; simpl in BO.
    - destruct BO as (b'&m&Eb&Lm&T). destruct final as [fb|]; [|discriminate]. inversion Eb; subst b'.
      simpl in R. destruct R as (Ob&Nfb&_).
      destruct (walkn_inv _ _ _ _ _ T) as [(_&->&_)|(m'&i3&c3&i4&->&->&St&T')]; auto.
      simpl in St, EA. destruct (inv_link g' fb Cfg.exit_idx _ i3 c3 Ob (ext_refl _) St) as (->&->).
      simpl. eapply exit_stuck; [apply XA|apply XA|exact T'].
    - destruct BO as (b&m&Eb&_). discriminate.
    - destruct BO as (b&m&Eb&_). discriminate.
    - destruct BO as (m&Lm&T). simpl in T. eapply exit_stuck; [apply XA|apply XA|exact T].
    - destruct BO. }
  subst i2. rewrite app_nil_r. exists o. exact P.
Qed.

(** an assignment-free real-edge path of the event CFG of the built graph to a block that reads x
    first comes from a syntactic path to a read of x that assigns x nowhere before *)
Theorem cfg_path_to_syntactic_path : forall p rn g s x u,
  cf_stmts p = true -> build p rn = BOk g s ->
  rreach (ecfg_of g) x u -> reads_first x (evs (ecfg_of g) u) ->
  exists pre last o, spath_l p (pre ++ [last]) o /\ nodef x pre /\ reads_first x (ev_item last).
Proof.
  intros p rn g s x u F B H R.
  destruct (build_raw p rn g s F B) as (final&g'&n'&V&SG).
  set (A := rawA final g') in *.
  (* invariant: branching blocks of the raw graph have successors *)
  assert (IA : Isucc A).
  { assert (I0 : Isucc (bs_blocks init_state)).
    { intros b q Hp. exfalso. destruct b as [|[|b]]; simpl in Hp; try discriminate.
      unfold blk in Hp. simpl in Hp. destruct b; discriminate. }
    pose proof (proj2 pres_visit p F Cfg.entry_idx (Some Cfg.entry_idx) (mkJ Cfg.exit_idx None None) _ _ _ V I0) as I1.
    simpl in I1. unfold A, rawA. destruct final; auto.
    apply Isucc_upd; auto. intros bl q _ _. simpl. apply app_single_nonnil. }
  pose proof (rreach_sub g A x u SG H) as HA.
  assert (RA : reads_first x (evs (ecfg_of A) u)).
  { rewrite evs_ecfg_of in *. rewrite <- (ev_block_sub g A u SG). exact R. }
  destruct (use_walk A x u IA HA RA) as (pre&last&c'&W&N&Rl).
  (* walks of the raw graph spell syntactic paths: replay the argument of [build_back] on A *)
  exists pre, last.
  assert (exists o, spath_l p (pre ++ [last]) o) as (o&P); [|exists o; auto].
  (* A is the raw graph: use bspec_all directly *)
  destruct (raw_walk p final g' n' F V) as ((Gr&R0)&_).
  pose proof (grows_length _ _ _ Gr) as Lg. simpl in Lg.
  assert (n' = 0).
  { destruct (proj2 wspec_all p Cfg.entry_idx (Some Cfg.entry_idx) (mkJ Cfg.exit_idx None None) (bs_blocks init_state) 0 final (mkB g' n') F V)
      as (g''&Eq&_); [simpl; unfold Cfg.exit_idx; lia| |inversion Eq; auto].
    simpl. split; [unfold opn; simpl; auto|]. split; [unfold Cfg.entry_idx, Cfg.exit_idx; lia|].
    unfold jok. simpl. unfold Cfg.entry_idx, Cfg.exit_idx. repeat split; try lia; intros; discriminate. }
  subst n'.
  assert (CO : cur_ok (bs_blocks init_state) (Some Cfg.entry_idx) (mkJ Cfg.exit_idx None None)).
  { simpl. split; [unfold opn; simpl; auto|]. split; [unfold Cfg.entry_idx, Cfg.exit_idx; lia|].
    unfold jok. simpl. unfold Cfg.entry_idx, Cfg.exit_idx. repeat split; try lia; intros; discriminate. }
  assert (EA : ext g' A).
  { unfold A. destruct final as [fb|]; simpl; [|apply ext_refl]. simpl in R0. destruct R0 as (Ob&_&_).
    eapply grows_ext. apply grows_link. exact Ob. }
  pose proof (proj2 bspec_all p Cfg.entry_idx Cfg.entry_idx (mkJ Cfg.exit_idx None None) (bs_blocks init_state) 0 final g' F V
                ltac:(simpl; unfold Cfg.exit_idx; lia) CO A EA) as BW.
  destruct (walk_walkn _ _ _ _ W) as (k&WN).
  change (0, 0) with (Cfg.entry_idx, slen (bs_blocks init_state) Cfg.entry_idx) in WN.
  destruct (BW k _ c' WN) as (i1&i2&o&Eq&P&BO).
  assert (XS : b_stmts (blk g' Cfg.exit_idx) = [] /\ b_succs (blk g' Cfg.exit_idx) = []).
  { destruct Gr as (L&Fo&_). destruct (Fo Cfg.exit_idx) as (S1&_&S3); [simpl; unfold Cfg.exit_idx; lia | unfold Cfg.exit_idx, Cfg.entry_idx; lia |].
    rewrite S1, S3. split; reflexivity. }
  assert (XA : b_stmts (blk A Cfg.exit_idx) = [] /\ b_succs (blk A Cfg.exit_idx) = []).
  { unfold A. destruct final as [fb|]; simpl; auto. simpl in R0. destruct R0 as (_&Nfb&_).
    rewrite blk_upd_other by auto. exact XS. }
  assert (Z : i2 = []).
  { destruct BO as [Z|BO]; auto. destruct o; simpl in BO.
    - destruct BO as (b'&m&Eb&Lm&T). destruct final as [fb|]; [|discriminate]. inversion Eb; subst b'.
      simpl in R0. destruct R0 as (Ob&Nfb&_).
      destruct (walkn_inv _ _ _ _ _ T) as [(_&->&_)|(m'&i3&c3&i4&->&->&St&T')]; auto.
      unfold A in St. simpl in St. destruct (inv_link g' fb Cfg.exit_idx _ i3 c3 Ob (ext_refl _) St) as (->&->).
      simpl. eapply exit_stuck; [apply XA|apply XA|exact T'].
    - destruct BO as (b&m&Eb&_). discriminate.
    - destruct BO as (b&m&Eb&_). discriminate.
    - destruct BO as (m&Lm&T). simpl in T. eapply exit_stuck; [apply XA|apply XA|exact T].
    - destruct BO. }
  subst i2. rewrite app_nil_r in Eq. exists o. rewrite Eq. exact P.
Qed.

(** * the forward direction again, with the conclusion on REAL edges only *)
Section ToEventsReal.
Variable G : list block.
Variable x : nat.


(* the position is reached without assigning x *)
Definition clean_r (c : pos) : Prop :=
  rreach (ecfg_of G) x (fst c) /\
  exists l1 l2, b_stmts (blk G (fst c)) = l1 ++ l2 /\ length l1 = snd c /\
                ~ assigns x (flat_map ev_stmt l1).

Lemma clean_block_end_r : forall b, clean_r (b, length (b_stmts (blk G b))) -> ~ assigns x (ev_block (blk G b)).
Proof.
  intros b (_&l1&l2&E&L&N). simpl in *.
  assert (l2 = []).
  { rewrite E in L. rewrite app_length in L. destruct l2; auto. simpl in L. lia. }
  subst. rewrite app_nil_r in E. unfold ev_block. rewrite E. intros H. apply assigns_app in H.
  destruct H as [H|H]; auto. destruct (b_pred (blk G b)); [exact (uses_no_assign x e H)|exact (assigns_nil x H)].
Qed.

Lemma in_range_r : forall b t, In t (b_succs (blk G b)) -> b < length G.
Proof.
  intros b t H. destruct (Nat.lt_ge_cases b (length G)); auto.
  rewrite blk_overflow in H by auto. destruct H.
Qed.

Lemma clean_step_r : forall c i1 c1, wstep G c i1 c1 -> clean_r c -> nodef x i1 -> clean_r c1.
Proof.
  intros c i1 c1 S C N. inversion S as [b k s Hn|b t Hp Hs|b p t Hp Hs]; subst.
  - destruct C as (R&l1&l2&E&L&Nd). simpl in *. split; auto.
    rewrite E in Hn. rewrite nth_error_app2 in Hn by lia. rewrite L, Nat.sub_diag in Hn.
    destruct l2 as [|s' l2']; [discriminate|]. simpl in Hn. inversion Hn; subst s'.
    exists (l1 ++ [s]), l2'. split; [rewrite <- app_assoc; auto|]. split; [rewrite app_length; simpl; lia|].
    rewrite flat_map_app. simpl. rewrite app_nil_r. intros A. apply assigns_app in A. destruct A as [A|A]; auto.
    apply (N (IStmt s)); simpl; auto.
  - pose proof (clean_block_end_r b C) as Nb. destruct C as (R&_). simpl in *. split.
    + apply rr_step with b; auto.
      * rewrite nb_ecfg_of. eapply in_range_r; eauto.
      * rewrite evs_ecfg_of. exact Nb.
      * rewrite eblk_ecfg_of. simpl. auto.
    + exists [], (b_stmts (blk G t)). simpl. split; auto. split; auto. apply assigns_nil.
  - pose proof (clean_block_end_r b C) as Nb. destruct C as (R&_). simpl in *. split.
    + apply rr_step with b; auto.
      * rewrite nb_ecfg_of. eapply in_range_r; eauto.
      * rewrite evs_ecfg_of. exact Nb.
      * rewrite eblk_ecfg_of. simpl. auto.
    + exists [], (b_stmts (blk G t)). simpl. split; auto. split; auto. apply assigns_nil.
Qed.

Lemma step_reads_r : forall c last c1, wstep G c [last] c1 -> clean_r c -> reads_first x (ev_item last) ->
  fst c < length G /\ rreach (ecfg_of G) x (fst c) /\ reads_first x (evs (ecfg_of G) (fst c)).
Proof.
  intros c last c1 S C R. inversion S as [b k s Hn|b t Hp Hs|b p t Hp Hs]; subst; simpl in *.
  - destruct C as (Rn&l1&l2&E&L&Nd). simpl in *.
    assert (Lb : b < length G).
    { destruct (Nat.lt_ge_cases b (length G)); auto. rewrite blk_overflow in Hn by auto. destruct k; discriminate. }
    split; auto. split; auto. rewrite evs_ecfg_of. unfold ev_block.
    rewrite E in Hn. rewrite nth_error_app2 in Hn by lia. rewrite L, Nat.sub_diag in Hn.
    destruct l2 as [|s' l2']; [discriminate|]. simpl in Hn. inversion Hn; subst s'.
    rewrite E, flat_map_app. simpl. rewrite <- !app_assoc. apply reads_first_app; auto.
    apply reads_first_prefix. exact R.
  - destruct C as (Rn&l1&l2&E&L&Nd). simpl in *.
    split; [eapply in_range_r; eauto|]. split; auto. rewrite evs_ecfg_of. unfold ev_block. rewrite Hp.
    assert (l2 = []).
    { rewrite E in L. rewrite app_length in L. destruct l2; auto. simpl in L. lia. }
    subst. rewrite app_nil_r in E. rewrite E. apply reads_first_app; auto.
Qed.

Lemma walk_to_use_r : forall c items c', walk G c items c' ->
  forall pre last, items = pre ++ [last] -> nodef x pre -> reads_first x (ev_item last) -> clean_r c ->
  exists u, u < length G /\ rreach (ecfg_of G) x u /\ reads_first x (evs (ecfg_of G) u).
Proof.
  intros c items c' W. induction W as [c|c i1 c1 i2 c2 S1 W IH]; intros pre last E N R C.
  - destruct pre; discriminate.
  - assert (Hi : i1 = [] \/ exists it, i1 = [it]) by (inversion S1; eauto).
    destruct Hi as [->|(it&->)].
    + simpl in E. apply (IH pre last E N R). apply (clean_step_r c [] c1 S1 C). intros it [].
    + destruct pre as [|p0 pre'].
      * simpl in E. inversion E; subst it. exists (fst c). apply (step_reads_r c last c1 S1 C R).
      * simpl in E. inversion E; subst it. apply (IH pre' last H1).
        -- intros it Hit. apply N. simpl. auto.
        -- exact R.
        -- apply (clean_step_r c [p0] c1 S1 C). intros it [<-|[]]. apply N. simpl. auto.
Qed.
End ToEventsReal.

Theorem syntactic_path_to_real_cfg_path : forall p rn g s x pre last o,
  cf_stmts p = true -> build p rn = BOk g s ->
  spath_l p (pre ++ [last]) o -> nodef x pre -> reads_first x (ev_item last) ->
  exists u, u < nb (ecfg_of g) /\ rreach (ecfg_of g) x u /\ reads_first x (evs (ecfg_of g) u).
Proof.
  intros p rn g s x pre last o F B X N R.
  destruct (build_walk p rn g s F B _ _ X) as (c'&W).
  rewrite nb_ecfg_of.
  apply (walk_to_use_r g x (0, 0) _ c' W pre last eq_refl N R).
  split; [apply rr_entry|]. exists [], (b_stmts (blk g 0)). simpl. split; auto. split; auto. apply assigns_nil.
Qed.
