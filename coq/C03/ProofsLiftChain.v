(** C03 — lifted expressions: chained comparisons whose first and last operand may be lifted
    (middle operands lift-free and call-free). *)
From Coq Require Import ZArith List Bool Lia.
From V.C03 Require Import PyAst PySem Cfg CfgSem Builder Frag Lift ProofsBase ProofsExpr ProofsBranch
  ProofsStmtA ProofsSim ProofsLiftA ProofsLiftB ProofsLiftC.
Import ListNotations.

Section LiftChain.
Variable oracle : trace -> nat -> list val -> val.

(* a pure lift-free expression evaluates alike in stores that agree on the variables it reads *)
Lemma eval_pure_frame_all :
  (forall e, pure e = true -> lift_free e = true -> nt e = true -> forall st st' v,
     (forall x, In x (reads e) -> fst st' (VU x) = fst st (VU x)) ->
     eval oracle e st = Done (v, st) -> eval oracle e st' = Done (v, st')) /\
  (forall es, pure_list es = true -> lift_free_list es = true -> nt_list es = true -> forall st st' vs,
     (forall x, In x (reads_list es) -> fst st' (VU x) = fst st (VU x)) ->
     eval_list oracle es st = Done (vs, st) -> eval_list oracle es st' = Done (vs, st')) /\
  (forall t, match t with
             | CLast _ r => pure r = true -> lift_free r = true -> nt r = true -> forall st st' v,
                 (forall x, In x (reads r) -> fst st' (VU x) = fst st (VU x)) ->
                 eval oracle r st = Done (v, st) -> eval oracle r st' = Done (v, st')
             | CMore _ _ _ => True
             end).
Proof.
  apply expr_mutind; try (intros; exact I).
  - intros c _ _ _ st st' v _ H. simpl in *. inversion H; subst. reflexivity.
  - intros x _ _ N st st' v A H. destruct x as [x|k]; simpl in N; try discriminate.
    destruct st as [s t], st' as [s' t']. simpl in *.
    rewrite (A x) by auto. destruct (s (VU x)); inversion H; subst. reflexivity.
  - intros op e IH P L N st st' v A H. simpl in P, L, N, H, A.
    destruct (eval oracle e st) as [[v1 s1]| |] eqn:E; simpl in H; try discriminate.
    assert (s1 = st) by (exact (proj1 (pure_eval_all oracle) e P st v1 s1 E)). subst s1.
    simpl. rewrite (IH P L N st st' v1 A E). simpl. destruct (eval_unop op v1); inversion H; subst; reflexivity.
  - intros op a IHa b IHb P L N st st' v A H. simpl in P, L, N, H, A.
    apply andb_prop in P. destruct P as [Pa Pb]. apply andb_prop in L. destruct L as [La Lb].
    apply andb_prop in N. destruct N as [Na Nb].
    destruct (eval oracle a st) as [[va s1]| |] eqn:Ea; simpl in H; try discriminate.
    assert (s1 = st) by (exact (proj1 (pure_eval_all oracle) a Pa st va s1 Ea)). subst s1.
    destruct (eval oracle b st) as [[vb s2]| |] eqn:Eb; simpl in H; try discriminate.
    assert (s2 = st) by (exact (proj1 (pure_eval_all oracle) b Pb st vb s2 Eb)). subst s2.
    simpl. rewrite (IHa Pa La Na st st' va) by (auto; intros; apply A; apply in_or_app; auto). simpl.
    rewrite (IHb Pb Lb Nb st st' vb) by (auto; intros; apply A; apply in_or_app; auto). simpl.
    destruct (eval_binop op va vb); inversion H; subst; reflexivity.
  - intros l IHl rest IHr P L N st st' v A H. destruct rest as [op r | op m rest]; simpl in L; try discriminate.
    simpl in P, N, H, A. apply andb_prop in P. destruct P as [Pl Pr]. apply andb_prop in L. destruct L as [Ll Lr].
    apply andb_prop in N. destruct N as [Nl Nr].
    destruct (eval oracle l st) as [[vl s1]| |] eqn:El; simpl in H; try discriminate.
    assert (s1 = st) by (exact (proj1 (pure_eval_all oracle) l Pl st vl s1 El)). subst s1.
    destruct (eval oracle r st) as [[vr s2]| |] eqn:Er; simpl in H; try discriminate.
    assert (s2 = st) by (exact (proj1 (pure_eval_all oracle) r Pr st vr s2 Er)). subst s2.
    simpl. rewrite (IHl Pl Ll Nl st st' vl) by (auto; intros; apply A; apply in_or_app; auto). simpl.
    rewrite (IHr Pr Lr Nr st st' vr) by (auto; intros; apply A; apply in_or_app; auto). simpl.
    destruct (eval_cmpop op vl vr); inversion H; subst; reflexivity.
  - intros op a _ b _ P L. simpl in L. discriminate.
  - intros c _ a _ b _ P L. simpl in L. discriminate.
  - intros x e _ P. simpl in P. discriminate.
  - intros f args _ P. simpl in P. discriminate.
  - intros es IH P L N st st' v A H. simpl in P, L, N, H, A.
    destruct (eval_list oracle es st) as [[vs s1]| |] eqn:E; simpl in H; try discriminate.
    assert (s1 = st) by (exact (proj1 (proj2 (pure_eval_all oracle)) es P st vs s1 E)). subst s1.
    simpl. rewrite (IH P L N st st' vs A E). simpl. inversion H; subst; reflexivity.
  - intros _ _ _ st st' vs _ H. simpl in *. inversion H; subst. reflexivity.
  - intros e IHe es IHes P L N st st' vs A H. simpl in P, L, N, H, A.
    apply andb_prop in P. destruct P as [Pa Pb]. apply andb_prop in L. destruct L as [La Lb].
    apply andb_prop in N. destruct N as [Na Nb].
    destruct (eval oracle e st) as [[v1 s1]| |] eqn:E1; simpl in H; try discriminate.
    assert (s1 = st) by (exact (proj1 (pure_eval_all oracle) e Pa st v1 s1 E1)). subst s1.
    destruct (eval_list oracle es st) as [[v2 s2]| |] eqn:E2; simpl in H; try discriminate.
    assert (s2 = st) by (exact (proj1 (proj2 (pure_eval_all oracle)) es Pb st v2 s2 E2)). subst s2.
    simpl. rewrite (IHe Pa La Na st st' v1) by (auto; intros; apply A; apply in_or_app; auto). simpl.
    rewrite (IHes Pb Lb Nb st st' v2) by (auto; intros; apply A; apply in_or_app; auto). simpl.
    inversion H; subst; reflexivity.
  - intros op e IHe. exact IHe.
Qed.

(* a middle operand evaluated in a CFG state related to the Python state *)
Lemma mid_eval : forall m stm stp vm, pure m = true -> nt m = true -> sim stm stp ->
  eval oracle m stp = Done (vm, stp) -> eval oracle m stm = Done (vm, stm).
Proof.
  intros m stm stp vm P N S E. destruct (eval_sim oracle m stm stp vm stp N S E) as (c1&E1&_).
  assert (c1 = stm) by (eapply (proj1 (pure_eval_all oracle)); eauto). subst. exact E1.
Qed.

(* the chain from a (pure, lift-free) middle operand [m] on: block bb compares m with the next operand *)
Definition ctspec2 (t : ctail) : Prop :=
  forall m bb tg f g n s',
  build_ctail (fold_neg (residue m)) t bb None tg f (mkB g n) = BOk tt s' ->
  lsafe_ctail t = true -> nt_ctail t = true ->
  pure m = true -> lift_free m = true -> nt m = true ->
  match t with CLast _ r => disjoint (reads m) (wtargets r) = true | CMore _ _ _ => True end ->
  opn g bb -> bb <> exit_idx -> exit_idx < length g -> tg < length g -> f < length g -> tg <> bb -> f <> bb ->
  exists g' n', s' = mkB g' n' /\ grows g bb g' /\ n <= n' /\
    forall G, ext g' G -> forall stm stp vm v stp' ret,
      sim stm stp -> eval oracle m stp = Done (vm, stp) -> eval_ctail oracle vm t stp = Done (v, stp') ->
      exists stc', steps oracle G (mkConfig bb (slen g bb) stm ret) (mkConfig (if truthy v then tg else f) 0 stc' ret) /\
        sim stc' stp' /\ (forall k, ~ (n <= k < n') -> fst stc' (VT k) = fst stm (VT k)) /\
        (pure_ctail t = true -> snd stc' = snd stm).

Lemma ctspec2_last : forall op r, xspec oracle r -> ctspec2 (CLast op r).
Proof.
  intros op r Hr m bb tg f g n s' B LS N Pm Lm Nm DJ O Nb Ne Lt Lf Nt Nf. simpl in LS, N.
  simpl in B. apply bind_inv in B. destruct B as ([r1 bb1]&s1&B1&B). cbn [fst snd] in B.
  destruct (Hr bb g n r1 bb1 s1 B1 LS N O Nb Ne) as (g1&n1&->&Gr&Ln&O1&Nb1&D&Sem).
  rewrite close_branch_eq in B. inversion B; subst; clear B.
  set (p := ECmp (fold_neg (residue m)) (CLast op r1)) in *.
  assert (G12: grows g1 bb1 (upd_nth bb1 (closeF p f tg) g1)).
  { apply grows_upd; auto. intros b _. exists []. simpl. rewrite app_nil_r. auto. }
  eexists _, n1. split; [reflexivity|]. split; [eapply grows_trans_gen; eauto|]. split; auto.
  intros G E stm stp vm v stp' ret S Em Ec.
  assert (E1: ext g1 G) by (eapply ext_trans; [eapply grows_ext; eauto | auto]).
  simpl in Ec. destruct (eval oracle r stp) as [[vr sp2]| |] eqn:Er; simpl in Ec; try discriminate.
  destruct (eval_cmpop op vm vr) as [c|] eqn:Cm; inversion Ec; subst; clear Ec.
  destruct (Sem G E1 stm stp vr stp' ret S Er) as (stm2&T&M&(stc2&R2&S2)&P).
  pose proof (mid_eval m stm stp vm Pm Nm S Em) as Em1.
  assert (Em2: eval oracle m stm2 = Done (vm, stm2)).
  { apply (proj1 eval_pure_frame_all m Pm Lm Nm stm stm2 vm); [|exact Em1].
    intros x Hx. destruct M as (MU&_). apply MU. eapply disjoint_spec; eauto. }
  assert (EvP: eval_truth oracle p stm2 = Done (c, stc2)).
  { unfold eval_truth, p. simpl. rewrite residue_eval, Em2. simpl. rewrite R2. simpl. rewrite Cm. reflexivity. }
  exists stc2. split.
  { eapply steps_trans; [exact T|]. simpl. eapply close_steps; eauto. }
  split; auto. split.
  - intros k Nk. rewrite (eval_frame oracle r1 stm2 vr stc2 (VT k) R2) by (simpl; auto). destruct M as (_&MT). apply MT; auto.
  - simpl. intros Pr. destruct (P Pr) as (Tr&St). pose proof (St stm2 (agree_refl _ _ _ _)) as R3.
    rewrite R2 in R3. inversion R3; subst. auto.
Qed.

Lemma ctspec2_more : forall op m2 rest, ctspec2 rest -> ctspec2 (CMore op m2 rest).
Proof.
  intros op m2 rest IH m bb tg f g n s' B LS N Pm Lm Nm _ O Nb Ne Lt Lf Nt Nf.
  simpl in LS, N. apply andb_prop in LS. destruct LS as [LS DJ]. apply andb_prop in LS. destruct LS as [LS LR].
  apply andb_prop in LS. destruct LS as [LF PU]. apply andb_prop in N. destruct N as [N2 NR].
  simpl in B. rewrite LF in B.
  apply bind_inv in B. destruct B as (ex&s1&B1&B). unfold new_bb in B1; simpl in B1; inversion B1; subst; clear B1.
  unfold bind in B. rewrite build_lift_free in B by auto. cbn [fst snd] in B. rewrite close_branch_eq in B.
  set (g0 := g ++ [empty_block]) in *.
  set (p := ECmp (fold_neg (residue m)) (CLast op (fold_neg m2))) in *.
  set (g1 := upd_nth bb (closeF p f (length g)) g0) in *.
  destruct (opn_app g bb empty_block O) as (O0&SL0). fold g0 in O0, SL0.
  destruct (opn_new g) as (OX0&SLX0). fold g0 in OX0, SLX0.
  pose proof O as (Lb&_&_).
  assert (L0: length g0 = S (length g)) by (unfold g0; rewrite app_length; simpl; lia).
  assert (L1: length g1 = S (length g)) by (unfold g1; rewrite upd_nth_length; auto).
  assert (G01: grows g0 bb g1).
  { apply grows_upd; auto. intros b _. exists []. simpl. rewrite app_nil_r. auto. }
  destruct (opn_after _ _ _ (length g) G01 OX0) as (OX1&SLX1); [lia|].
  destruct (IH m2 (length g) tg f g1 n s' B LR NR PU LF N2) as (g2&n2&->&Gr2&Ln2&Sem2);
    try (unfold exit_idx in *; lia); auto.
  { destruct rest; auto. }
  exists g2, n2. split; auto. split.
  { eapply grows_trans; [| exact Gr2 | right; lia | exact Lb].
    eapply grows_trans; [apply grows_new | exact G01 | left; reflexivity | exact Lb]. }
  split; auto.
  intros G E stm stp vm v stp' ret S Em Ec.
  assert (E1: ext g1 G) by (eapply ext_trans; [eapply grows_ext; eauto | auto]).
  simpl in Ec. destruct (eval oracle m2 stp) as [[vm2 sp2]| |] eqn:Em2; simpl in Ec; try discriminate.
  assert (sp2 = stp) by (exact (proj1 (pure_eval_all oracle) m2 PU stp vm2 sp2 Em2)). subst sp2.
  destruct (eval_cmpop op vm vm2) as [c|] eqn:Cm; try discriminate.
  pose proof (mid_eval m stm stp vm Pm Nm S Em) as Ec1.
  pose proof (mid_eval m2 stm stp vm2 PU N2 S Em2) as Ec2.
  assert (EvP: eval_truth oracle p stm = Done (c, stm)).
  { unfold eval_truth, p. simpl. rewrite residue_eval, Ec1. simpl. rewrite fold_neg_eval, Ec2. simpl. rewrite Cm. reflexivity. }
  pose proof (close_steps oracle g0 bb p f (length g) G stm c stm ret O0 Nb E1 EvP) as T1. rewrite SL0 in T1.
  destruct c.
  - destruct (Sem2 G E stm stp vm2 v stp' ret S Em2 Ec) as (stc'&T2&S2&F2&P2). rewrite SLX1, SLX0 in T2.
    exists stc'. split; [eapply steps_trans; eauto|]. split; auto. split; auto.
    simpl. intros PP. apply andb_prop in PP. destruct PP. auto.
  - inversion Ec; subst. simpl. exists stm. split; auto.
Qed.

(* BranchBuilder.visit_Compare on l op m rest with a possibly lifted first operand *)
Lemma bspec_chain2 : forall l op m rest, xspec oracle l -> ctspec2 rest -> bspec oracle (ECmp l (CMore op m rest)).
Proof.
  intros l op m rest Hl Hr bb t f g n s' B LS N O Nb Ne Lt Lf Nt Nf.
  simpl in LS, N. apply andb_prop in LS. destruct LS as [LSl LS]. apply andb_prop in LS. destruct LS as [LS DJ].
  apply andb_prop in LS. destruct LS as [LS LR]. apply andb_prop in LS. destruct LS as [LF PU].
  apply andb_prop in N. destruct N as [Nl N]. apply andb_prop in N. destruct N as [Nm NR].
  change (build_branch (ECmp l (CMore op m rest)) bb t f) with
    (LET extra <- new_bb IN LET r <- build_expr l bb IN
     build_ctail (fst r) (CMore op m rest) (snd r) (Some extra) t f) in B.
  apply bind_inv in B. destruct B as (extra&s1&B1&B).
  unfold new_bb in B1. simpl in B1. inversion B1; subst; clear B1.
  apply bind_inv in B. destruct B as ([l1 bb1]&s2&B2&B). cbn [fst snd] in B.
  set (g1 := g ++ [empty_block]) in *.
  destruct (opn_app g bb empty_block O) as (O1&SL1). fold g1 in O1, SL1.
  destruct (opn_new g) as (OX1&SLX1). fold g1 in OX1, SLX1.
  pose proof O as (Lb&_&_).
  assert (LL1: length g1 = S (length g)) by (unfold g1; rewrite app_length; simpl; lia).
  destruct (Hl bb g1 n l1 bb1 s2 B2 LSl Nl O1 Nb) as (g2&n2&->&Gr2&Ln2&O2&Nb2&D2&Sem2); [lia|].
  pose proof (grows_length _ _ _ Gr2) as LL2.
  destruct (opn_after _ _ _ (length g) Gr2 OX1) as (OX2&SLX2); [lia|].
  simpl in B. rewrite LF in B. unfold bind at 1 in B. simpl in B.
  unfold bind in B. rewrite build_lift_free in B by auto. cbn [fst snd] in B. rewrite close_branch_eq in B.
  set (p := ECmp l1 (CLast op (fold_neg m))) in *.
  set (g3 := upd_nth bb1 (closeF p f (length g)) g2) in *.
  assert (Nx: length g <> bb1) by (destruct D2; lia).
  assert (G23: grows g2 bb1 g3).
  { apply grows_upd; auto. intros b _. exists []. simpl. rewrite app_nil_r. auto. }
  destruct (opn_after _ _ _ (length g) G23 OX2 Nx) as (OX3&SLX3).
  assert (LL3: length g3 = length g2) by (unfold g3; apply upd_nth_length).
  destruct (Hr m (length g) t f g3 n2 s' B LR NR PU LF Nm) as (g4&n4&->&Gr4&Ln4&Sem4);
    try (unfold exit_idx in *; lia); auto.
  { destruct rest; auto. }
  exists g4, n4. split; auto. split.
  { eapply grows_trans_gen; [| exact Gr4 | right; lia].
    eapply grows_trans_gen; [| exact G23 | destruct D2; [left; auto | right; lia]].
    eapply grows_trans_gen; [apply grows_new | exact Gr2 | left; reflexivity]. }
  split; [lia|].
  intros G E stc stp b stp' ret S X.
  assert (E3: ext g3 G) by (eapply ext_trans; [eapply grows_ext; eauto | auto]).
  assert (E2: ext g2 G) by (eapply ext_trans; [eapply grows_ext; eauto | auto]).
  destruct (eval_truth_inv oracle _ _ _ _ X) as (v&Ev&->).
  pose proof Ev as Ev0.
  simpl in Ev. destruct (eval oracle l stp) as [[vl sp1]| |] eqn:El; simpl in Ev; try discriminate.
  destruct (eval oracle m sp1) as [[vm sp2]| |] eqn:Em; simpl in Ev; try discriminate.
  assert (sp2 = sp1) by (exact (proj1 (pure_eval_all oracle) m PU sp1 vm sp2 Em)). subst sp2.
  destruct (eval_cmpop op vl vm) as [c|] eqn:Cm; try discriminate.
  destruct (Sem2 G E2 stc stp vl sp1 ret S El) as (stm&T&M&(stc1&R1&S1)&P). rewrite SL1 in T.
  pose proof (mid_eval m stc1 sp1 vm PU Nm S1 Em) as Em1.
  assert (EvP: eval_truth oracle p stm = Done (c, stc1)).
  { unfold eval_truth, p. simpl. rewrite R1. simpl. rewrite fold_neg_eval, Em1. simpl. rewrite Cm. reflexivity. }
  pose proof (close_steps oracle g2 bb1 p f (length g) G stm c stc1 ret O2 Nb2 E3 EvP) as T1.
  assert (Tm1: forall k, ~ (n <= k < n2) -> fst stc1 (VT k) = fst stc (VT k)).
  { intros k Nk. rewrite (eval_frame oracle l1 stm vl stc1 (VT k) R1) by (simpl; auto). destruct M as (_&MT). apply MT; auto. }
  destruct c.
  - destruct (Sem4 G E stc1 sp1 vm v stp' ret S1 Em Ev) as (stc'&T2&S2&F2&P2). rewrite SLX3, SLX2, SLX1 in T2.
    exists stc'. split; [eapply steps_trans; [exact T | eapply steps_trans; eauto]|]. split; auto. split.
    + apply (mods_from_sim oracle _ stc stp v stp' stc' n n4 S S2 Ev0).
      intros k Nk. rewrite F2 by lia. apply Tm1. lia.
    + simpl. intros PP. apply andb_prop in PP. destruct PP as [Pl PP]. apply andb_prop in PP. destruct PP as [_ Pr].
      rewrite (P2 Pr). destruct (P Pl) as (Tr&St). pose proof (St stm (agree_refl _ _ _ _)) as R3.
      rewrite R1 in R3. inversion R3; subst. auto.
  - inversion Ev; subst. simpl.
    exists stc1. split; [eapply steps_trans; eauto|]. split; auto. split.
    + apply (mods_from_sim oracle _ stc stp (VBool false) stp' stc1 n n4 S S1 Ev0).
      intros k Nk. apply Tm1. lia.
    + simpl. intros PP. apply andb_prop in PP. destruct PP as [Pl _].
      destruct (P Pl) as (Tr&St). pose proof (St stm (agree_refl _ _ _ _)) as R3.
      rewrite R1 in R3. inversion R3; subst. auto.
Qed.
End LiftChain.
