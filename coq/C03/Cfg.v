(** C03 — control-flow graphs as built by guppylang_internals/cfg (model file).

    A CFG is the list of its basic blocks; the index in the list is [BB.idx]
    (entry = 0, exit = 1, as created by [CFG.__init__]).  [b_succs] is [BB.successors] in
    list order: for a block with a branch predicate, successor 0 is the False branch and
    successor 1 the True branch ([BranchBuilder.generic_visit] links false_bb first).
    [b_dummy] is [BB.dummy_successors]; [b_reach] is [BB.reachable]. *)
From Coq Require Import List Bool.
From V.C03 Require Import PyAst.
Import ListNotations.

Record block := mkBlock {
  b_stmts : list stmt;          (* simple statements only: Assign / AugAssign / Expr / Return *)
  b_pred : option expr;
  b_succs : list nat;
  b_dummy : list nat;
  b_reach : bool }.

Definition cfg := list block.
Definition entry_idx : nat := 0.
Definition exit_idx : nat := 1.
Definition empty_block : block := mkBlock [] None [] [] false.
