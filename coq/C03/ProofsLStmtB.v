(** C03 — statement level with lifted expressions, part B: statement lists and if/else. *)
From Coq Require Import ZArith List Bool Lia.
From V.C03 Require Import PyAst PySem Cfg CfgSem Builder Frag Lift ProofsBase ProofsExpr ProofsBranch
  ProofsStmtA ProofsStmtB ProofsStmtC ProofsSim ProofsLiftA ProofsLiftC ProofsLiftE ProofsLStmtA.
Import ListNotations.

Section LStmtB.
Variable oracle : trace -> nat -> list val -> val.

Lemma lspec_nil : lstmts_spec oracle SNil.
Proof.
  intros prev cur j g n r s' F V Ne CO. simpl in V. inversion V; subst; clear V.
  exists g, n. split; auto. split; [apply grows_refl|]. split.
  - destruct r; simpl in *; auto. destruct CO as (A&B&C). auto.
  - intros bb -> G E fuel stc stp o stp' ret S X. destruct fuel; simpl in X; try discriminate.
    inversion X; subst. simpl. exists bb, stc. split; auto. split; auto. constructor.
Qed.

Lemma lcons_some : forall s r, lstmt_spec oracle s -> lstmts_spec oracle r ->
  forall bb j g n rr s', lsafe_stmts (SCons s r) = true ->
  (LET r1 <- visit_stmt s bb j IN visit_stmts r bb r1 j) (mkB g n) = BOk rr s' ->
  exit_idx < length g -> opn g bb -> bb <> exit_idx -> jok g bb j ->
  exists g' n', s' = mkB g' n' /\ grows g bb g' /\ rok g bb g' rr /\
    forall G, ext g' G -> forall fuel stc stp o stp' ret, sim stc stp ->
      exec_list oracle fuel (SCons s r) stp = Done (o, stp') ->
      osteps2 oracle G (mkConfig bb (slen g bb) stc ret) j g' rr o stp'.
Proof.
  intros s r Hs Hr bb j g n rr s' F V Ne O Nb J.
  simpl in F. apply andb_prop in F. destruct F as [F1 F2].
  apply bind_inv in V. destruct V as (r1&s1&V1&V2).
  destruct (Hs bb j g n r1 s1 F1 V1 O Nb Ne J) as (g1&n1&->&Gr1&R1&Sem1).
  pose proof (grows_length _ _ _ Gr1) as L1.
  assert (CO1: cur_ok g1 r1 j).
  { destruct r1 as [b1|]; simpl in *.
    - destruct R1 as (A&B&C). split; [exact A|]. split; [exact B|]. eapply jok_mono; eauto.
    - eapply jok_mono; eauto. }
  assert (D1: cb g1 r1 = bb \/ length g <= cb g1 r1).
  { destruct r1 as [b1|]; simpl in *; [destruct R1 as (_&_&C); auto | right; lia]. }
  destruct (Hr bb r1 j g1 n1 rr s' F2 V2) as (g2&n2&->&Gr2&R2&Sem2); [lia | auto |].
  exists g2, n2. split; auto. split; [eapply grows_trans_gen; eauto|]. split.
  - destruct rr as [b'|]; simpl in *; auto. destruct R2 as (A&B&C). split; [exact A|]. split; [exact B|].
    destruct C as [C|C]; [rewrite C; exact D1 | right; lia].
  - intros G E fuel stc stp o stp' ret S X.
    assert (E1: ext g1 G) by (eapply ext_trans; [eapply grows_ext; eauto | auto]).
    destruct fuel; simpl in X; try discriminate.
    destruct (exec oracle fuel s stp) as [[o1 st1]| |] eqn:X1; simpl in X; try discriminate.
    pose proof (Sem1 G E1 fuel stc stp o1 st1 ret S X1) as T1.
    destruct o1.
    + simpl in T1. destruct T1 as (b1&sc1&->&T1&S1).
      eapply osteps2_prefix; [exact T1 | reflexivity |]. eapply Sem2; eauto.
    + inversion X; subst. exact T1.
    + inversion X; subst. exact T1.
    + inversion X; subst. exact T1.
Qed.

Lemma lspec_cons : forall s r, lstmt_spec oracle s -> lstmts_spec oracle r -> lstmts_spec oracle (SCons s r).
Proof.
  intros s r Hs Hr prev cur j g n rr s' F V Ne CO.
  destruct cur as [bb|].
  - simpl in CO. destruct CO as (O&Nb&J).
    assert (V' : (LET r1 <- visit_stmt s bb j IN visit_stmts r bb r1 j) (mkB g n) = BOk rr s') by exact V.
    destruct (lcons_some s r Hs Hr bb j g n rr s' F V' Ne O Nb J) as (g'&n'&->&A&B&C).
    exists g', n'. split; auto. split; auto. split; auto.
    intros bb0 Eq. inversion Eq; subst. exact C.
  - simpl in CO. simpl in V.
    set (b := length g) in *. set (g1 := upd_nth prev (add_dummy b) (g ++ [empty_block])).
    assert (V' : (LET r1 <- visit_stmt s b j IN visit_stmts r b r1 j) (mkB g1 n) = BOk rr s') by exact V.
    destruct (opn_new g) as (O0&_). fold b in O0.
    destruct (opn_dummy (g ++ [empty_block]) prev b b O0) as (O1&_). fold g1 in O1.
    assert (LA: length g1 = S (length g)) by (unfold g1; rewrite upd_nth_length, app_length; simpl; lia).
    assert (G01: grows g b g1).
    { eapply grows_trans_gen; [apply grows_new | apply grows_dummy | left; reflexivity]. }
    assert (J1: jok g1 b j) by (eapply jok_mono; [exact CO | lia | left; reflexivity]).
    destruct (lcons_some s r Hs Hr b j g1 n rr s' F V') as (g'&n'&->&A&B&C); auto; try (unfold b, exit_idx in *; lia).
    exists g', n'. split; auto. split; [eapply grows_trans_gen; [exact G01 | exact A | left; reflexivity]|].
    split.
    + simpl. destruct rr as [b'|]; simpl in *; auto. destruct B as (B1&B2&B3). split; [exact B1|]. split; [exact B2|].
      destruct B3; [left; auto | right; lia].
    + intros bb Eq. discriminate.
Qed.

Lemma lspec_if : forall c body orelse, lstmts_spec oracle body -> lstmts_spec oracle orelse ->
  lstmt_spec oracle (SIf c body orelse).
Proof.
  intros c body orelse Hb Ho bb j g n r s' F V O Nb Ne J.
  simpl in F. apply andb_prop in F. destruct F as [F F3]. apply andb_prop in F. destruct F as [F F2].
  apply andb_prop in F. destruct F as [NC F1].
  simpl in V.
  apply bind_inv in V. destruct V as (tb&s1&B1&V). unfold new_bb in B1; simpl in B1; inversion B1; subst; clear B1.
  apply bind_inv in V. destruct V as (eb&s1&B1&V). unfold new_bb in B1; simpl in B1; inversion B1; subst; clear B1.
  apply bind_inv in V. destruct V as ([]&s3&B3&V).
  apply bind_inv in V. destruct V as (te&s4&B4&V).
  apply bind_inv in V. destruct V as (ee&s5&B5&V).
  set (g1 := g ++ [empty_block]) in *. set (gg := g1 ++ [empty_block]) in *.
  assert (L1: length g1 = S (length g)) by (unfold g1; rewrite app_length; simpl; lia).
  assert (LG: length gg = S (S (length g))) by (unfold gg; rewrite app_length; simpl; lia).
  rewrite L1 in B3, B5.
  destruct (opn_app g bb empty_block O) as (O1&SL1). fold g1 in O1, SL1.
  destruct (opn_app g1 bb empty_block O1) as (O2&SL2). fold gg in O2, SL2.
  destruct (opn_new g) as (OT&SLT). fold g1 in OT, SLT.
  destruct (opn_app g1 (length g) empty_block OT) as (OT2&SLT2). fold gg in OT2, SLT2.
  destruct (opn_new g1) as (OE&SLE). fold gg in OE, SLE. rewrite L1 in OE, SLE.
  pose proof O as (Lb&_&_). unfold exit_idx in *.
  destruct (proj2 (proj1 (lift_all oracle) c) bb (length g) (S (length g)) gg n s3 B3 F1 NC O2 Nb)
    as (g3&n3&->&Gr3&Ln3&Sem3); try (unfold exit_idx; lia).
  pose proof (grows_length _ _ _ Gr3) as L3.
  destruct (opn_after _ _ _ (length g) Gr3 OT2) as (OT3&SLT3); [lia|].
  destruct (opn_after _ _ _ (S (length g)) Gr3 OE) as (OE3&SLE3); [lia|].
  assert (J3: jok g3 (length g) j) by (eapply jok_mono; [exact J | lia | right; lia]).
  destruct (Hb (length g) (Some (length g)) j g3 n3 te s4 F2 B4) as (g4&n4&->&Gr4&R4&Sem4);
    [unfold exit_idx; lia | simpl; split; [exact OT3 | split; [unfold exit_idx; lia | exact J3]] |].
  simpl in Gr4, R4.
  pose proof (grows_length _ _ _ Gr4) as L4.
  destruct (opn_after _ _ _ (S (length g)) Gr4 OE3) as (OE4&SLE4); [lia|].
  assert (J4: jok g4 (S (length g)) j) by (eapply jok_mono; [exact J | lia | right; lia]).
  destruct (Ho (S (length g)) (Some (S (length g))) j g4 n4 ee s5 F3 B5) as (g5&n5&->&Gr5&R5&Sem5);
    [unfold exit_idx; lia | simpl; split; [exact OE4 | split; [unfold exit_idx; lia | exact J4]] |].
  simpl in Gr5, R5.
  pose proof (grows_length _ _ _ Gr5) as L5.
  assert (G05: grows g bb g5).
  { eapply grows_trans_gen; [| exact Gr5 | right; lia].
    eapply grows_trans_gen; [| exact Gr4 | right; lia].
    eapply grows_trans_gen; [| exact Gr3 | left; reflexivity].
    eapply grows_trans_gen; [apply grows_new | apply grows_new | left; reflexivity]. }
  assert (Run: forall G : cfg, ext g5 G -> forall (fuel : nat) (stc stp : state) (o : outcome) (stp' : state) (ret : option val),
            sim stc stp -> exec oracle fuel (SIf c body orelse) stp = Done (o, stp') ->
            exists (t : bool) (stc1 : state), steps oracle G (mkConfig bb (slen g bb) stc ret)
                            (mkConfig (if t then length g else S (length g)) 0 stc1 ret) /\
              if t then osteps2 oracle G (mkConfig (length g) 0 stc1 ret) j g4 te o stp'
              else osteps2 oracle G (mkConfig (S (length g)) 0 stc1 ret) j g5 ee o stp').
  { intros G E fuel stc stp o stp' ret Ssim X.
    assert (E4: ext g4 G) by (eapply ext_trans; [eapply grows_ext; eauto | auto]).
    assert (E3: ext g3 G) by (eapply ext_trans; [eapply grows_ext; eauto | auto]).
    destruct fuel; simpl in X; try discriminate.
    destruct (eval_truth oracle c stp) as [[t st1]| |] eqn:Ec; simpl in X; try discriminate.
    destruct (Sem3 G E3 stc stp t st1 ret Ssim Ec) as (stc1&T&S1&_). rewrite SL2, SL1 in T.
    exists t, stc1. split; [exact T|].
    destruct t.
    - pose proof (Sem4 (length g) eq_refl G E4 fuel stc1 st1 o stp' ret S1 X) as T2. rewrite SLT3, SLT2, SLT in T2. exact T2.
    - pose proof (Sem5 (S (length g)) eq_refl G E fuel stc1 st1 o stp' ret S1 X) as T2. rewrite SLE4, SLE3, SLE in T2. exact T2. }
  destruct te as [a|]; [destruct ee as [b|]|].
  - apply bind_inv in V. destruct V as (m&s6&B6&V). unfold new_bb in B6; simpl in B6; inversion B6; subst; clear B6.
    simpl in V. inversion V; subst; clear V.
    simpl in R4, R5. destruct R4 as (Oa4&Na&Da). destruct R5 as (Ob5&Nb5&Db).
    pose proof Oa4 as (La4&_&_).
    assert (Nae: a <> S (length g)) by (destruct Da; lia).
    assert (Nab: a <> b) by (destruct Db; lia).
    destruct (opn_after _ _ _ a Gr5 Oa4 Nae) as (Oa5&SLa5).
    set (g6 := g5 ++ [empty_block]).
    assert (L6: length g6 = S (length g5)) by (unfold g6; rewrite app_length; simpl; lia).
    destruct (opn_app g5 a empty_block Oa5) as (Oa6&SLa6). fold g6 in Oa6, SLa6.
    destruct (opn_app g5 b empty_block Ob5) as (Ob6&SLb6). fold g6 in Ob6, SLb6.
    destruct (opn_new g5) as (Om6&SLm6). fold g6 in Om6, SLm6.
    set (g7 := upd_nth a (add_succ (length g5)) g6).
    destruct (opn_link_other g6 a (length g5) b Ob6 (not_eq_sym Nab)) as (Ob7&SLb7). fold g7 in Ob7, SLb7.
    pose proof Oa5 as (La5&_&_). pose proof Ob5 as (Lb5&_&_).
    destruct (opn_link_other g6 a (length g5) (length g5) Om6) as (Om7&SLm7); [lia|]. fold g7 in Om7, SLm7.
    set (g8 := upd_nth b (add_succ (length g5)) g7).
    destruct (opn_link_other g7 b (length g5) (length g5) Om7) as (Om8&SLm8); [lia|]. fold g8 in Om8, SLm8.
    assert (G67: grows g6 a g7) by (apply grows_link; auto).
    assert (G78: grows g7 b g8) by (apply grows_link; auto).
    exists g8, n5. split; auto. split.
    { eapply grows_trans_gen; [| exact G78 | right; destruct Db; lia].
      eapply grows_trans_gen; [| exact G67 | right; destruct Da; lia].
      eapply grows_trans_gen; [exact G05 | apply grows_new | left; reflexivity]. }
    split. { simpl. split; [exact Om8|]. split; [unfold exit_idx; lia | right; lia]. }
    intros G E fuel stc stp o stp' ret Ssim X.
    assert (E7: ext g7 G) by (eapply ext_trans; [eapply grows_ext; eauto | auto]).
    assert (E6: ext g6 G) by (eapply ext_trans; [eapply grows_ext; eauto | auto]).
    assert (E5: ext g5 G) by (eapply ext_trans; [eapply grows_ext; apply grows_new with (bb := 0) | exact E6]).
    destruct (Run G E5 fuel stc stp o stp' ret Ssim X) as (t&stc1&T&OS).
    eapply osteps2_prefix; [exact T | reflexivity |].
    destruct t.
    + eapply osteps2_then; [exact OS|]. intros st2 ret2.
      rewrite SLm8, SLm7, SLm6. rewrite <- SLa5, <- SLa6.
      apply link_jump; auto.
    + eapply osteps2_then; [exact OS|]. intros st2 ret2.
      rewrite SLm8, SLm7, SLm6. rewrite <- SLb6, <- SLb7.
      apply link_jump; auto.
  - simpl in V. inversion V; subst; clear V.
    simpl in R4. destruct R4 as (Oa4&Na&Da). pose proof Oa4 as (La4&_&_).
    assert (Nae: a <> S (length g)) by (destruct Da; lia).
    destruct (opn_after _ _ _ a Gr5 Oa4 Nae) as (Oa5&SLa5).
    exists g5, n5. split; auto. split; [exact G05|]. split.
    { simpl. split; [exact Oa5|]. split; [exact Na | right; destruct Da; lia]. }
    intros G E fuel stc stp o stp' ret Ssim X.
    destruct (Run G E fuel stc stp o stp' ret Ssim X) as (t&stc1&T&OS).
    eapply osteps2_prefix; [exact T | reflexivity |].
    destruct t.
    + eapply osteps2_conv; [|exact OS]. intros b' Eb. inversion Eb; subst. auto.
    + eapply osteps2_conv; [|exact OS]. intros b' Eb. discriminate.
  - simpl in V. inversion V; subst; clear V.
    exists g5, n5. split; auto. split; [exact G05|]. split.
    { destruct r as [b|]; simpl in *; auto. destruct R5 as (A&B&C). split; [exact A|]. split; [exact B | right; destruct C; lia]. }
    intros G E fuel stc stp o stp' ret Ssim X.
    destruct (Run G E fuel stc stp o stp' ret Ssim X) as (t&stc1&T&OS).
    eapply osteps2_prefix; [exact T | reflexivity |].
    destruct t.
    + eapply osteps2_conv; [|exact OS]. intros b' Eb. discriminate.
    + exact OS.
Qed.
End LStmtB.
