(** C03 — statement level, part D: if/else merge. *)
From Coq Require Import ZArith List Bool Lia.
From V.C03 Require Import PyAst PySem Cfg CfgSem Builder Frag ProofsBase ProofsExpr ProofsBranch ProofsStmtA ProofsStmtB.
Import ListNotations.

Section StmtD.
Variable oracle : trace -> nat -> list val -> val.

Lemma osteps_conv : forall G c j g' r g'' r' o st',
  (forall b', r = Some b' -> r' = Some b' /\ slen g'' b' = slen g' b') ->
  osteps oracle G c j g' r o st' -> osteps oracle G c j g'' r' o st'.
Proof.
  intros G c j g' r g'' r' o st' H O. destruct o; simpl in *; auto.
  destruct O as (b'&E&T). destruct (H b' E) as (E'&SL). exists b'. split; auto. rewrite SL. auto.
Qed.

Lemma osteps_then : forall G c j g' a g'' m o st',
  osteps oracle G c j g' (Some a) o st' ->
  (forall st ret, steps oracle G (mkConfig a (slen g' a) st ret) (mkConfig m (slen g'' m) st ret)) ->
  osteps oracle G c j g'' (Some m) o st'.
Proof.
  intros G c j g' a g'' m o st' O H. destruct o; simpl in *; auto.
  destruct O as (b'&E&T). inversion E; subst. exists m. split; auto. eapply steps_trans; eauto.
Qed.

Lemma spec_if : forall c body orelse, stmts_spec oracle body -> stmts_spec oracle orelse ->
  stmt_spec oracle (SIf c body orelse).
Proof.
  intros c body orelse Hb Ho bb j g n r s' F V O Nb Ne J.
  simpl in F. apply andb_prop in F. destruct F as [F F3]. apply andb_prop in F. destruct F as [F1 F2].
  simpl in V.
  apply bind_inv in V. destruct V as (tb&s1&B1&V). unfold new_bb in B1; simpl in B1; inversion B1; subst; clear B1.
  apply bind_inv in V. destruct V as (eb&s1&B1&V). unfold new_bb in B1; simpl in B1; inversion B1; subst; clear B1.
  apply bind_inv in V. destruct V as ([]&s3&B3&V).
  apply bind_inv in V. destruct V as (te&s4&B4&V).
  apply bind_inv in V. destruct V as (ee&s5&B5&V).
  set (g1 := g ++ [empty_block]) in *. set (gg := g1 ++ [empty_block]) in *.
  assert (L1: length g1 = S (length g)) by (unfold g1; rewrite app_length; simpl; lia).
  assert (LG: length gg = S (S (length g))) by (unfold gg; rewrite app_length; simpl; lia).
  rewrite L1 in B3, B5.
  destruct (opn_app g bb empty_block O) as (O1&SL1). fold g1 in O1, SL1.
  destruct (opn_app g1 bb empty_block O1) as (O2&SL2). fold gg in O2, SL2.
  destruct (opn_new g) as (OT&SLT). fold g1 in OT, SLT.
  destruct (opn_app g1 (length g) empty_block OT) as (OT2&SLT2). fold gg in OT2, SLT2.
  destruct (opn_new g1) as (OE&SLE). fold gg in OE, SLE. rewrite L1 in OE, SLE.
  pose proof O as (Lb&_&_). unfold exit_idx in *.
  destruct (branch_ok oracle c F1 bb (length g) (S (length g)) gg n s3 B3 O2 Nb) as (g3&->&Gr3&Sem3); try (unfold exit_idx; lia).
  pose proof (grows_length _ _ _ Gr3) as L3.
  destruct (opn_after _ _ _ (length g) Gr3 OT2) as (OT3&SLT3); [lia|].
  destruct (opn_after _ _ _ (S (length g)) Gr3 OE) as (OE3&SLE3); [lia|].
  assert (J3: jok g3 (length g) j) by (eapply jok_mono; [exact J | lia | right; lia]).
  destruct (Hb (length g) (Some (length g)) j g3 n te s4 F2 B4) as (g4&->&Gr4&R4&Sem4);
    [unfold exit_idx; lia | simpl; split; [exact OT3 | split; [unfold exit_idx; lia | exact J3]] |].
  simpl in Gr4, R4.
  pose proof (grows_length _ _ _ Gr4) as L4.
  destruct (opn_after _ _ _ (S (length g)) Gr4 OE3) as (OE4&SLE4); [lia|].
  assert (J4: jok g4 (S (length g)) j) by (eapply jok_mono; [exact J | lia | right; lia]).
  destruct (Ho (S (length g)) (Some (S (length g))) j g4 n ee s5 F3 B5) as (g5&->&Gr5&R5&Sem5);
    [unfold exit_idx; lia | simpl; split; [exact OE4 | split; [unfold exit_idx; lia | exact J4]] |].
  simpl in Gr5, R5.
  pose proof (grows_length _ _ _ Gr5) as L5.
  assert (G05: grows g bb g5).
  { eapply grows_trans_gen; [| exact Gr5 | right; lia].
    eapply grows_trans_gen; [| exact Gr4 | right; lia].
    eapply grows_trans_gen; [| exact Gr3 | left; reflexivity].
    eapply grows_trans_gen; [apply grows_new | apply grows_new | left; reflexivity]. }
  (* the part of the run common to all merge shapes *)
  assert (Run: forall G : cfg, ext g5 G -> forall (fuel : nat) (st : state) (o : outcome) (st' : state) (ret : option val),
            exec oracle fuel (SIf c body orelse) st = Done (o, st') ->
            exists (t : bool) (st1 : state), steps oracle G (mkConfig bb (slen g bb) st ret)
                            (mkConfig (if t then length g else S (length g)) 0 st1 ret) /\
              if t then osteps oracle G (mkConfig (length g) 0 st1 ret) j g4 te o st'
              else osteps oracle G (mkConfig (S (length g)) 0 st1 ret) j g5 ee o st').
  { intros G E fuel st o st' ret X.
    assert (E4: ext g4 G) by (eapply ext_trans; [eapply grows_ext; eauto | auto]).
    assert (E3: ext g3 G) by (eapply ext_trans; [eapply grows_ext; eauto | auto]).
    destruct fuel; simpl in X; try discriminate.
    destruct (eval_truth oracle c st) as [[t st1]| |] eqn:Ec; simpl in X; try discriminate.
    exists t, st1. split.
    - pose proof (Sem3 G E3 st t st1 ret Ec) as T. rewrite SL2, SL1 in T. exact T.
    - destruct t.
      + pose proof (Sem4 (length g) eq_refl G E4 fuel st1 o st' ret X) as T. rewrite SLT3, SLT2, SLT in T. exact T.
      + pose proof (Sem5 (S (length g)) eq_refl G E fuel st1 o st' ret X) as T. rewrite SLE4, SLE3, SLE in T. exact T. }
  destruct te as [a|]; [destruct ee as [b|]|].
  - (* both branches fall through: merge block *)
    apply bind_inv in V. destruct V as (m&s6&B6&V). unfold new_bb in B6; simpl in B6; inversion B6; subst; clear B6.
    simpl in V. inversion V; subst; clear V.
    simpl in R4, R5. destruct R4 as (Oa4&Na&Da). destruct R5 as (Ob5&Nb5&Db).
    pose proof Oa4 as (La4&_&_).
    assert (Nae: a <> S (length g)) by (destruct Da; lia).
    assert (Nab: a <> b) by (destruct Db; lia).
    destruct (opn_after _ _ _ a Gr5 Oa4 Nae) as (Oa5&SLa5).
    set (g6 := g5 ++ [empty_block]).
    assert (L6: length g6 = S (length g5)) by (unfold g6; rewrite app_length; simpl; lia).
    destruct (opn_app g5 a empty_block Oa5) as (Oa6&SLa6). fold g6 in Oa6, SLa6.
    destruct (opn_app g5 b empty_block Ob5) as (Ob6&SLb6). fold g6 in Ob6, SLb6.
    destruct (opn_new g5) as (Om6&SLm6). fold g6 in Om6, SLm6.
    set (g7 := upd_nth a (add_succ (length g5)) g6).
    destruct (opn_link_other g6 a (length g5) b Ob6 (not_eq_sym Nab)) as (Ob7&SLb7). fold g7 in Ob7, SLb7.
    pose proof Oa5 as (La5&_&_). pose proof Ob5 as (Lb5&_&_).
    destruct (opn_link_other g6 a (length g5) (length g5) Om6) as (Om7&SLm7); [lia|]. fold g7 in Om7, SLm7.
    set (g8 := upd_nth b (add_succ (length g5)) g7).
    destruct (opn_link_other g7 b (length g5) (length g5) Om7) as (Om8&SLm8); [lia|]. fold g8 in Om8, SLm8.
    assert (G67: grows g6 a g7) by (apply grows_link; auto).
    assert (G78: grows g7 b g8) by (apply grows_link; auto).
    exists g8. split; auto. split.
    { eapply grows_trans_gen; [| exact G78 | right; destruct Db; lia].
      eapply grows_trans_gen; [| exact G67 | right; destruct Da; lia].
      eapply grows_trans_gen; [exact G05 | apply grows_new | left; reflexivity]. }
    split. { simpl. split; [exact Om8|]. split; [unfold exit_idx; lia | right; lia]. }
    intros G E fuel st o st' ret X.
    assert (E7: ext g7 G) by (eapply ext_trans; [eapply grows_ext; eauto | auto]).
    assert (E6: ext g6 G) by (eapply ext_trans; [eapply grows_ext; eauto | auto]).
    assert (E5: ext g5 G) by (eapply ext_trans; [eapply grows_ext; apply grows_new with (bb := 0) | exact E6]).
    destruct (Run G E5 fuel st o st' ret X) as (t&st1&T&OS).
    eapply osteps_prefix; [exact T | reflexivity |].
    destruct t.
    + eapply osteps_then; [exact OS|]. intros st2 ret2.
      rewrite SLm8, SLm7, SLm6. rewrite <- SLa5, <- SLa6.
      apply link_jump; auto.
    + eapply osteps_then; [exact OS|]. intros st2 ret2.
      rewrite SLm8, SLm7, SLm6. rewrite <- SLb6, <- SLb7.
      apply link_jump; auto.
  - (* else branch jumps: continue in the then branch's block *)
    simpl in V. inversion V; subst; clear V.
    simpl in R4. destruct R4 as (Oa4&Na&Da). pose proof Oa4 as (La4&_&_).
    assert (Nae: a <> S (length g)) by (destruct Da; lia).
    destruct (opn_after _ _ _ a Gr5 Oa4 Nae) as (Oa5&SLa5).
    exists g5. split; auto. split; [exact G05|]. split.
    { simpl. split; [exact Oa5|]. split; [exact Na | right; destruct Da; lia]. }
    intros G E fuel st o st' ret X.
    destruct (Run G E fuel st o st' ret X) as (t&st1&T&OS).
    eapply osteps_prefix; [exact T | reflexivity |].
    destruct t.
    + eapply osteps_conv; [|exact OS]. intros b' Eb. inversion Eb; subst. auto.
    + eapply osteps_conv; [|exact OS]. intros b' Eb. discriminate.
  - (* then branch jumps: continue in the else branch's block (or nowhere) *)
    simpl in V. inversion V; subst; clear V.
    exists g5. split; auto. split; [exact G05|]. split.
    { destruct r as [b|]; simpl in *; auto. destruct R5 as (A&B&C). split; [exact A|]. split; [exact B | right; destruct C; lia]. }
    intros G E fuel st o st' ret X.
    destruct (Run G E fuel st o st' ret X) as (t&st1&T&OS).
    eapply osteps_prefix; [exact T | reflexivity |].
    destruct t.
    + eapply osteps_conv; [|exact OS]. intros b' Eb. discriminate.
    + exact OS.
Qed.
End StmtD.
