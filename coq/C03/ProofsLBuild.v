(** C03 — CFGBuilder.build on the fragment with lifted expressions. *)
From Coq Require Import ZArith List Bool Lia.
From V.C03 Require Import PyAst PySem Cfg CfgSem Builder Frag Lift ProofsBase ProofsExpr ProofsBranch
  ProofsStmtA ProofsStmtB ProofsStmtC ProofsReach ProofsBuild ProofsSim ProofsLStmtA ProofsLStmtB ProofsLStmtC.
Import ListNotations.

Section LBuild.
Variable oracle : trace -> nat -> list val -> val.

Lemma raw_run_sim : forall p final g' n',
  lsafe_stmts p = true ->
  visit_stmts p entry_idx (Some entry_idx) (mkJ exit_idx None None) init_state = BOk final (mkB g' n') ->
  (grows (bs_blocks init_state) entry_idx g' /\ rok (bs_blocks init_state) entry_idx g' final) /\
  forall fuel st v st', exec_py oracle fuel p st = Done (v, st') ->
    exists fuel' st'', run_cfg oracle (rawG final g') fuel' st = Done (v, st'') /\ sim st'' st'.
Proof.
  intros p final g' n' F V.
  destruct (lvisit_spec_all oracle) as (_&SS).
  assert (O0: opn (bs_blocks init_state) entry_idx) by (unfold opn; simpl; auto).
  destruct (SS p entry_idx (Some entry_idx) (mkJ exit_idx None None) (bs_blocks init_state) 0 final (mkB g' n') F V)
    as (g''&n''&Eq&Gr&R&Sem).
  { simpl. unfold exit_idx. lia. }
  { simpl. split; [exact O0|]. split; [unfold entry_idx, exit_idx; lia|].
    unfold jok. simpl. unfold entry_idx, exit_idx. repeat split; try lia; intros; discriminate. }
  inversion Eq; subst g'' n''; clear Eq. simpl in Gr, R.
  split; [split; auto|].
  assert (E: ext g' (rawG final g')).
  { destruct final as [fb|]; simpl; [|apply ext_refl]. simpl in R. destruct R as (Ob&_&_).
    eapply grows_ext. apply grows_link. exact Ob. }
  intros fuel st v st' X. unfold exec_py in X.
  destruct (exec_list oracle fuel p st) as [[o st1]| |] eqn:XL; simpl in X; try discriminate.
  pose proof (Sem entry_idx eq_refl (rawG final g') E fuel st st o st1 None (sim_refl st) XL) as OS.
  destruct o; try discriminate; inversion X; subst; clear X; simpl in OS.
  - destruct OS as (b'&stc'&Eb&T&S'). subst final. simpl in R. destruct R as (Ob&Nb&_). simpl in *.
    assert (T2: steps oracle (upd_nth b' (add_succ exit_idx) g') (mkConfig b' (slen g' b') stc' None) (mkConfig exit_idx 0 stc' None))
      by (apply link_jump; auto; apply ext_refl).
    destruct (steps_run oracle _ _ _ (steps_trans oracle _ _ _ _ T T2) 1 _ (run_halt oracle _ None stc')) as (f'&RR).
    exists f', stc'. split; auto.
  - destruct OS as (stc'&T&S').
    destruct (steps_run oracle _ _ _ T 1 _ (run_halt oracle _ (Some v) stc')) as (f'&RR).
    exists f', stc'. split; auto.
Qed.

Theorem build_preserves_lsafe : forall p rn g s,
  lsafe_stmts p = true -> build p rn = BOk g s ->
  forall fuel st v st', exec_py oracle fuel p st = Done (v, st') ->
  exists fuel' st'', run_cfg oracle g fuel' st = Done (v, st'') /\ sim st'' st'.
Proof.
  intros p rn g s F B. unfold build in B.
  destruct (visit_stmts p entry_idx (Some entry_idx) (mkJ exit_idx None None) init_state) as [final [g' n']|] eqn:V; [|discriminate].
  cbn [bs_blocks] in B.
  destruct (raw_run_sim p final g' n' F V) as ((Gr&R)&Run).
  pose proof (grows_length _ _ _ Gr) as Lg. simpl in Lg.
  pose proof (exit_untouched g' Gr) as XS.
  destruct (mark_reachable g') as [g1|] eqn:M; [|discriminate].
  destruct (mark_spec g' g1) as (res&Lres&L1&B1&Cl&Ent); [unfold exit_idx; lia | auto |].
  assert (Cl': forall i, i < length g' -> nth_reach res i = true ->
             forall s0, In s0 (b_succs (blk g' i)) -> s0 < length g' -> nth_reach res s0 = true).
  { intros i Hi Ri s0 Hs Ls. destruct (Cl i Hi Ri s0 Hs Ls) as [X|[]]; auto. }
  intros fuel st v st' X. destruct (Run fuel st v st' X) as (fuel'&st''&RR&SS). exists fuel', st''. split; auto.
  destruct final as [fb|]; simpl in RR.
  - simpl in R. destruct R as (Ob&Nfb&_). pose proof Ob as (Lfb&Sfb&_).
    set (A := upd_nth fb (add_succ exit_idx) g') in *.
    set (g2 := upd_nth fb (add_succ exit_idx) g1) in *.
    assert (LA: length A = length g') by (unfold A; apply upd_nth_length).
    assert (L2: length g2 = length g') by (unfold g2; rewrite upd_nth_length; auto).
    assert (B2: forall i, blk g2 i = put_reach (nth_reach res i) (blk A i)).
    { intros i. unfold g2, A. destruct (Nat.eq_dec fb i).
      - subst i. rewrite !blk_upd_same by lia. rewrite B1. reflexivity.
      - rewrite !blk_upd_other by auto. apply B1. }
    assert (SA: forall i, b_succs (blk A i) = if Nat.eqb i fb then [exit_idx] else b_succs (blk g' i)).
    { intros i. unfold A. destruct (Nat.eqb_spec i fb).
      - subst. rewrite blk_upd_same by auto. simpl. rewrite Sfb. auto.
      - rewrite blk_upd_other by auto. auto. }
    rewrite blk_reach_blk in B by lia. rewrite B2 in B.
    change (b_reach (put_reach (nth_reach res fb) (blk A fb))) with (nth_reach res fb) in B.
    destruct (nth_reach res fb) eqn:Rfb.
    + destruct rn; [|discriminate]. inversion B; subst; clear B.
      rewrite <- RR. symmetry.
      match goal with |- context [prune ?x] => change x with (upd_nth exit_idx (put_reach true) g2) end.
      apply flagged_run with (fl := fun i => if Nat.eqb i exit_idx then true else nth_reach res i).
      * rewrite upd_nth_length. lia.
      * intros i. destruct (Nat.eqb_spec i exit_idx).
        -- subst. rewrite blk_upd_same by (unfold exit_idx; lia). rewrite B2. reflexivity.
        -- rewrite blk_upd_other by auto. apply B2.
      * intros i Hi Fi s0 Hs Ls. rewrite SA in Hs. rewrite LA in *.
        destruct (Nat.eqb_spec s0 exit_idx); auto.
        destruct (Nat.eqb_spec i fb).
        -- destruct Hs as [Hs|[]]. congruence.
        -- destruct (Nat.eqb_spec i exit_idx).
           ++ subst. rewrite XS in Hs. destruct Hs.
           ++ exact (Cl' i Hi Fi s0 Hs Ls).
      * simpl. exact Ent.
    + inversion B; subst; clear B.
      rewrite <- RR. symmetry.
      apply flagged_run with (fl := nth_reach res); auto.
      * lia.
      * intros i Hi Fi s0 Hs Ls. rewrite SA in Hs. rewrite LA in *.
        destruct (Nat.eqb_spec i fb); [subst; congruence|]. exact (Cl' i Hi Fi s0 Hs Ls).
  - inversion B; subst; clear B. rewrite <- RR. symmetry.
    apply flagged_run with (fl := nth_reach res); auto.
Qed.
End LBuild.
