(** C03 — Python semantics of the fragment of PyAst.v (model file: definitions only).

    Fuel-indexed big-step interpreter.  The state is (store, trace); the trace records every
    call to an uninterpreted effectful function [f<n>] with its argument values and result,
    most recent first.  The value a call returns is [oracle trace f args]: it may depend on the
    whole history, so evaluation order is observable both in the trace and in values.

    Written from the Python language reference (evaluation order: operands left to right,
    [and]/[or] return an operand, comparison chains evaluate each operand once,
    [x op= e] reads x before evaluating e, [while ... else] runs the else suite when the
    condition becomes false).  Integers are unbounded here; the 64-bit reduction in the
    property text concerns operator semantics (C04), which is the same function on both
    sides of every theorem about the CFG builder. *)
From Coq Require Import ZArith List Bool.
From V.C03 Require Import PyAst.
Import ListNotations.
Local Open Scope Z_scope.

Inductive val := VInt (z : Z) | VBool (b : bool) | VNone | VTuple (l : list val).

Inductive res (A : Type) := Done (a : A) | Fail | Timeout.
Arguments Done {A} a.
Arguments Fail {A}.
Arguments Timeout {A}.

Definition rbind {A B} (r : res A) (f : A -> res B) : res B :=
  match r with Done a => f a | Fail => Fail | Timeout => Timeout end.
Notation "'do' x <- m ; f" := (rbind m (fun x => f)) (at level 200, x pattern, m at level 100, f at level 200).

Definition store := var -> option val.
Record event := Ev { ev_fn : nat; ev_args : list val; ev_res : val }.
Definition trace := list event.
Definition state := (store * trace)%type.

Definition empty_store : store := fun _ => None.
Definition upd (s : store) (x : var) (v : val) : store :=
  fun y => if var_eqb x y then Some v else s y.

Definition truthy (v : val) : bool :=
  match v with
  | VInt z => negb (Z.eqb z 0)
  | VBool b => b
  | VNone => false
  | VTuple l => match l with [] => false | _ => true end
  end.

Definition as_int (v : val) : option Z :=
  match v with VInt z => Some z | VBool b => Some (Z.b2z b) | _ => None end.

Definition eval_unop (op : unop) (v : val) : option val :=
  match op with
  | UNot => Some (VBool (negb (truthy v)))
  | UNeg => match as_int v with Some z => Some (VInt (- z)) | None => None end
  | UPos => match as_int v with Some z => Some (VInt z) | None => None end
  | UInvert => match as_int v with Some z => Some (VInt (- z - 1)) | None => None end
  end.

Definition eval_binop (op : binop) (a b : val) : option val :=
  match as_int a, as_int b with
  | Some x, Some y =>
    match op with
    | BAdd => Some (VInt (x + y))
    | BSub => Some (VInt (x - y))
    | BMul => Some (VInt (x * y))
    | BFloorDiv => if Z.eqb y 0 then None else Some (VInt (Z.div x y))
    | BMod => if Z.eqb y 0 then None else Some (VInt (Z.modulo x y))
    | BBitAnd => Some (VInt (Z.land x y))
    | BBitOr => Some (VInt (Z.lor x y))
    | BBitXor => Some (VInt (Z.lxor x y))
    end
  | _, _ => None
  end.

Definition eval_cmpop (op : cmpop) (a b : val) : option bool :=
  match as_int a, as_int b with
  | Some x, Some y =>
    Some match op with
         | CEq => Z.eqb x y | CNe => negb (Z.eqb x y)
         | CLt => Z.ltb x y | CLe => Z.leb x y
         | CGt => Z.ltb y x | CGe => Z.leb y x
         end
  | _, _ =>
    match op, a, b with
    | CEq, VNone, VNone => Some true
    | CNe, VNone, VNone => Some false
    | CEq, VNone, (VInt _ | VBool _) | CEq, (VInt _ | VBool _), VNone => Some false
    | CNe, VNone, (VInt _ | VBool _) | CNe, (VInt _ | VBool _), VNone => Some true
    | _, _, _ => None
    end
  end.

Definition eval_const (c : const) : val :=
  match c with CInt z => VInt z | CBool b => VBool b | CNone => VNone end.

Fixpoint assign_names (xs : list nat) (vs : list val) (s : store) : option store :=
  match xs, vs with
  | [], [] => Some s
  | x :: xs', v :: vs' => assign_names xs' vs' (upd s (VU x) v)
  | _, _ => None
  end.

Definition assign_target (t : target) (v : val) (s : store) : option store :=
  match t with
  | TName x => Some (upd s x v)
  | TTuple xs => match v with VTuple vs => assign_names xs vs s | _ => None end
  end.

Section WithOracle.
Variable oracle : trace -> nat -> list val -> val.

Fixpoint eval (e : expr) (st : state) : res (val * state) :=
  match e with
  | EConst c => Done (eval_const c, st)
  | EName x => match fst st x with Some v => Done (v, st) | None => Fail end
  | EUnary op a =>
      do (v, st1) <- eval a st;
      match eval_unop op v with Some r => Done (r, st1) | None => Fail end
  | EBin op a b =>
      do (va, st1) <- eval a st;
      do (vb, st2) <- eval b st1;
      match eval_binop op va vb with Some r => Done (r, st2) | None => Fail end
  | ECmp l rest =>
      do (vl, st1) <- eval l st;
      eval_ctail vl rest st1
  | EBool BoAnd a b =>
      do (va, st1) <- eval a st;
      if truthy va then eval b st1 else Done (va, st1)
  | EBool BoOr a b =>
      do (va, st1) <- eval a st;
      if truthy va then Done (va, st1) else eval b st1
  | EIf c a b =>
      do (vc, st1) <- eval c st;
      if truthy vc then eval a st1 else eval b st1
  | EWalrus x a =>
      do (v, st1) <- eval a st;
      Done (v, (upd (fst st1) (VU x) v, snd st1))
  | ECall f args =>
      do (vs, st1) <- eval_list args st;
      let r := oracle (snd st1) f vs in
      Done (r, (fst st1, Ev f vs r :: snd st1))
  | ETuple es =>
      do (vs, st1) <- eval_list es st;
      Done (VTuple vs, st1)
  end
with eval_list (es : exprs) (st : state) : res (list val * state) :=
  match es with
  | ENil => Done ([], st)
  | ECons e r =>
      do (v, st1) <- eval e st;
      do (vs, st2) <- eval_list r st1;
      Done (v :: vs, st2)
  end
with eval_ctail (vl : val) (rest : ctail) (st : state) : res (val * state) :=
  match rest with
  | CLast op r =>
      do (vr, st1) <- eval r st;
      match eval_cmpop op vl vr with Some b => Done (VBool b, st1) | None => Fail end
  | CMore op m rest' =>
      do (vm, st1) <- eval m st;
      match eval_cmpop op vl vm with
      | Some true => eval_ctail vm rest' st1
      | Some false => Done (VBool false, st1)
      | None => Fail
      end
  end.

Definition eval_truth (e : expr) (st : state) : res (bool * state) :=
  do (v, st1) <- eval e st; Done (truthy v, st1).

(** Simple statements (the only ones that occur inside basic blocks).  The second component
    is [Some v] when the statement is [return]. *)
Definition exec_simple (s : stmt) (st : state) : res (state * option val) :=
  match s with
  | SAssign t e =>
      do (v, st1) <- eval e st;
      match assign_target t v (fst st1) with
      | Some s' => Done ((s', snd st1), None)
      | None => Fail
      end
  | SAug x op e =>
      match fst st (VU x) with
      | None => Fail
      | Some vx =>
          do (v, st1) <- eval e st;
          match eval_binop op vx v with
          | Some r => Done ((upd (fst st1) (VU x) r, snd st1), None)
          | None => Fail
          end
      end
  | SExpr e => do (_, st1) <- eval e st; Done (st1, None)
  | SReturn None => Done (st, Some VNone)
  | SReturn (Some e) => do (v, st1) <- eval e st; Done (st1, Some v)
  | _ => Fail
  end.

Inductive outcome := ONormal | OBreak | OContinue | OReturn (v : val).

Fixpoint exec (fuel : nat) (s : stmt) (st : state) {struct fuel} : res (outcome * state) :=
  match fuel with
  | O => Timeout
  | S f =>
    match s with
    | SAssign _ _ | SAug _ _ _ | SExpr _ | SReturn _ =>
        do (st1, r) <- exec_simple s st;
        Done (match r with None => ONormal | Some v => OReturn v end, st1)
    | SIf c body orelse =>
        do (t, st1) <- eval_truth c st;
        exec_list f (if t then body else orelse) st1
    | SWhile c body orelse =>
        do (t, st1) <- eval_truth c st;
        if t then
          do (o, st2) <- exec_list f body st1;
          match o with
          | ONormal | OContinue => exec f s st2
          | OBreak => Done (ONormal, st2)
          | OReturn v => Done (OReturn v, st2)
          end
        else exec_list f orelse st1
    | SBreak => Done (OBreak, st)
    | SContinue => Done (OContinue, st)
    | SPass => Done (ONormal, st)
    end
  end
with exec_list (fuel : nat) (ss : stmts) (st : state) {struct fuel} : res (outcome * state) :=
  match fuel with
  | O => Timeout
  | S f =>
    match ss with
    | SNil => Done (ONormal, st)
    | SCons s r =>
        do (o, st1) <- exec f s st;
        match o with
        | ONormal => exec_list f r st1
        | _ => Done (o, st1)
        end
    end
  end.

(** A function body: falling off the end returns None; break/continue cannot escape. *)
Definition exec_py (fuel : nat) (p : stmts) (st : state) : res (val * state) :=
  do (o, st1) <- exec_list fuel p st;
  match o with
  | ONormal => Done (VNone, st1)
  | OReturn v => Done (v, st1)
  | _ => Fail
  end.

End WithOracle.

(** A concrete history-dependent oracle for executable tests: the result depends on the
    function, the number of earlier calls, and the integer arguments; odd function numbers
    return booleans. *)
Definition sum_args (vs : list val) : Z :=
  fold_right (fun v acc => match as_int v with Some z => z + acc | None => 7 + acc end) 0 vs.
Definition test_oracle (tr : trace) (f : nat) (vs : list val) : val :=
  let h := (Z.of_nat f * 5 + Z.of_nat (length tr) * 3 + sum_args vs) in
  if Nat.odd f then VBool (Z.odd h) else VInt (Z.modulo h 7 - 2).
