(** C03 — statement level with lifted expressions, part C: while loops and the combination. *)
From Coq Require Import ZArith List Bool Lia.
From V.C03 Require Import PyAst PySem Cfg CfgSem Builder Frag Lift ProofsBase ProofsExpr ProofsBranch
  ProofsStmtA ProofsStmtB ProofsStmtC ProofsSim ProofsLiftA ProofsLiftC ProofsLiftE ProofsLStmtA ProofsLStmtB.
Import ListNotations.

Section LStmtC.
Variable oracle : trace -> nat -> list val -> val.

Lemma lspec_while : forall c body orelse, lstmts_spec oracle body -> lstmt_spec oracle (SWhile c body orelse).
Proof.
  intros c body orelse Hb bb j g n r s' F V O Nb Ne J.
  simpl in F. apply andb_prop in F. destruct F as [F F3]. apply andb_prop in F. destruct F as [F F2].
  apply andb_prop in F. destruct F as [NC F1].
  destruct orelse; [|discriminate]. clear F3.
  simpl in V.
  apply bind_inv in V. destruct V as (head&s1&B1&V). unfold new_bb in B1; simpl in B1; inversion B1; subst; clear B1.
  apply bind_inv in V. destruct V as ([]&s1&B1&V). unfold link, modify in B1; simpl in B1; inversion B1; subst; clear B1.
  apply bind_inv in V. destruct V as (bodyb&s1&B1&V). unfold new_bb in B1; simpl in B1; inversion B1; subst; clear B1.
  apply bind_inv in V. destruct V as (tail&s1&B1&V). unfold new_bb in B1; simpl in B1; inversion B1; subst; clear B1.
  apply bind_inv in V. destruct V as ([]&s5&B5&V).
  apply bind_inv in V. destruct V as (rb&s6&B6&V).
  apply bind_inv in V. destruct V as ([]&s7&B7&V). simpl in V. inversion V; subst; clear V.
  set (g1 := g ++ [empty_block]) in *.
  set (g2 := upd_nth bb (add_succ (length g)) g1) in *.
  set (g3 := g2 ++ [empty_block]) in *. set (g4 := g3 ++ [empty_block]) in *.
  pose proof O as (Lb&_&_). unfold exit_idx in *.
  assert (L1: length g1 = S (length g)) by (unfold g1; rewrite app_length; simpl; lia).
  assert (L2: length g2 = S (length g)) by (unfold g2; rewrite upd_nth_length; auto).
  assert (L3: length g3 = S (S (length g))) by (unfold g3; rewrite app_length; simpl; lia).
  assert (L4: length g4 = S (S (S (length g)))) by (unfold g4; rewrite app_length; simpl; lia).
  rewrite L2 in B5, B6. rewrite L3 in B5, B6.
  destruct (opn_app g bb empty_block O) as (O1&SL1). fold g1 in O1, SL1.
  destruct (opn_new g) as (OH1&SLH1). fold g1 in OH1, SLH1.
  destruct (opn_link_other g1 bb (length g) (length g) OH1) as (OH2&SLH2); [lia|]. fold g2 in OH2, SLH2.
  destruct (opn_app g2 (length g) empty_block OH2) as (OH3&SLH3). fold g3 in OH3, SLH3.
  destruct (opn_app g3 (length g) empty_block OH3) as (OH4&SLH4). fold g4 in OH4, SLH4.
  destruct (opn_new g2) as (OB3&SLB3). fold g3 in OB3, SLB3. rewrite L2 in OB3, SLB3.
  destruct (opn_app g3 (S (length g)) empty_block OB3) as (OB4&SLB4). fold g4 in OB4, SLB4.
  destruct (opn_new g3) as (OT4&SLT4). fold g4 in OT4, SLT4. rewrite L3 in OT4, SLT4.
  destruct (proj2 (proj1 (lift_all oracle) c) (length g) (S (length g)) (S (S (length g))) g4 n s5 B5 F1 NC OH4)
    as (g5&n5&->&Gr5&Ln5&Sem5); try (unfold exit_idx; lia).
  pose proof (grows_length _ _ _ Gr5) as L5.
  destruct (opn_after _ _ _ (S (length g)) Gr5 OB4) as (OB5&SLB5); [lia|].
  destruct (opn_after _ _ _ (S (S (length g))) Gr5 OT4) as (OT5&SLT5); [lia|].
  set (j' := mkJ (j_ret j) (Some (length g)) (Some (S (S (length g))))) in *.
  assert (J5: jok g5 (S (length g)) j').
  { destruct J as (A&B&_&_). unfold jok, j'. simpl. split; [lia|]. split; [lia|]. split.
    - intros c0 E. inversion E; subst. lia.
    - intros c0 E. inversion E; subst. lia. }
  destruct (Hb (S (length g)) (Some (S (length g))) j' g5 n5 rb s6 F2 B6) as (g6&n6&->&Gr6&R6&Sem6);
    [unfold exit_idx; lia | simpl; split; [exact OB5 | split; [unfold exit_idx; lia | exact J5]] |].
  simpl in Gr6, R6.
  pose proof (grows_length _ _ _ Gr6) as L6.
  destruct (opn_after _ _ _ (S (S (length g))) Gr6 OT5) as (OT6&SLT6); [lia|].
  assert (G06: grows g bb g6).
  { eapply grows_trans_gen; [| exact Gr6 | right; lia].
    eapply grows_trans_gen; [| exact Gr5 | right; lia].
    eapply grows_trans_gen; [| apply grows_new | left; reflexivity].
    eapply grows_trans_gen; [| apply grows_new | left; reflexivity].
    eapply grows_trans_gen; [apply grows_new | apply grows_link; exact O1 | left; reflexivity]. }
  assert (E2of: forall G, ext g5 G -> ext g2 G).
  { intros G E. eapply ext_trans; [| exact E]. eapply ext_trans; [| eapply grows_ext; exact Gr5].
    eapply ext_trans; [eapply grows_ext; apply grows_new with (bb := 0) |].
    eapply grows_ext. apply grows_new with (bb := 0). }
  assert (exists g7, s' = mkB g7 n6 /\ grows g6 (match rb with Some e => e | None => 0 end) g7 /\
            opn g7 (S (S (length g))) /\ slen g7 (S (S (length g))) = 0 /\
            (forall G, ext g7 G -> forall e, rb = Some e -> forall st ret,
               steps oracle G (mkConfig e (slen g6 e) st ret) (mkConfig (length g) 0 st ret)))
    as (g7&->&Gr7&OT7&SLT7&Back).
  { destruct rb as [e|].
    - unfold link, modify in B7. simpl in B7. inversion B7; subst; clear B7.
      simpl in R6. destruct R6 as (Oe&Ne6&De). pose proof Oe as (Le&_&_).
      destruct (opn_link_other g6 e (length g) (S (S (length g))) OT6) as (OT7&SLT7); [destruct De; lia|].
      eexists. split; [reflexivity|]. split; [apply grows_link; exact Oe|]. split; [exact OT7|].
      split; [rewrite SLT7, SLT6, SLT5; exact SLT4|].
      intros G E e0 Eq st ret. inversion Eq; subst. apply link_jump; auto.
    - simpl in B7. inversion B7; subst; clear B7. exists g6. split; [reflexivity|].
      split; [apply grows_refl|]. split; [exact OT6|]. split; [rewrite SLT6, SLT5; exact SLT4|].
      intros G E e Eq. discriminate. }
  assert (D7: match rb with Some e => e | None => 0 end = bb \/ length g <= match rb with Some e => e | None => 0 end \/ rb = None).
  { destruct rb as [e|]; auto. simpl in R6. destruct R6 as (_&_&De). right. left. destruct De; lia. }
  rewrite L3. exists g7, n6. split; auto. split.
  { destruct rb as [e|].
    - eapply grows_trans_gen; [exact G06 | exact Gr7 |]. destruct D7 as [D|[D|D]]; auto. discriminate.
    - destruct Gr7 as (LL&FF&_). destruct G06 as (L06&F06&B06). split; [lia|]. split.
      + intros i Hi Ni. eapply sem_same_trans; [apply F06; auto|].
        destruct (Nat.eq_dec i 0).
        * subst. assert (g7 = g6) by (simpl in B7; inversion B7; auto). subst. apply sem_same_refl.
        * apply FF; lia.
      + assert (g7 = g6) by (simpl in B7; inversion B7; auto). subst. exact B06. }
  split. { simpl. split; [exact OT7|]. split; [unfold exit_idx; lia | right; lia]. }
  intros G E fuel stc stp o stp' ret Ssim X.
  assert (E6: ext g6 G) by (eapply ext_trans; [eapply grows_ext; exact Gr7 | exact E]).
  assert (E5: ext g5 G) by (eapply ext_trans; [eapply grows_ext; exact Gr6 | exact E6]).
  pose proof (E2of G E5) as E2.
  assert (Loop: forall k stc0 stp0 o0 stp0' ret0, sim stc0 stp0 ->
            exec oracle k (SWhile c body SNil) stp0 = Done (o0, stp0') ->
            match o0 with
            | ONormal => exists stc', steps oracle G (mkConfig (length g) 0 stc0 ret0) (mkConfig (S (S (length g))) 0 stc' ret0) /\ sim stc' stp0'
            | OReturn v => exists stc', steps oracle G (mkConfig (length g) 0 stc0 ret0) (mkConfig (j_ret j) 0 stc' (Some v)) /\ sim stc' stp0'
            | _ => False
            end).
  { induction k as [|k IH]; intros stc0 stp0 o0 stp0' ret0 S0 X0; simpl in X0; try discriminate.
    destruct (eval_truth oracle c stp0) as [[t st1]| |] eqn:Ec; simpl in X0; try discriminate.
    destruct (Sem5 G E5 stc0 stp0 t st1 ret0 S0 Ec) as (stc1&T&S1&_). rewrite SLH4, SLH3, SLH2, SLH1 in T.
    destruct t.
    - destruct (exec_list oracle k body st1) as [[o2 st2]| |] eqn:Xb; simpl in X0; try discriminate.
      pose proof (Sem6 (S (length g)) eq_refl G E6 k stc1 st1 o2 st2 ret0 S1 Xb) as OS.
      rewrite SLB5, SLB4, SLB3 in OS.
      destruct o2; simpl in OS.
      + destruct OS as (e&stc2&Eq&T2&S2). specialize (IH stc2 st2 o0 stp0' ret0 S2 X0).
        pose proof (Back G E e Eq stc2 ret0) as T3.
        assert (T4: steps oracle G (mkConfig (length g) 0 stc0 ret0) (mkConfig (length g) 0 stc2 ret0)).
        { eapply steps_trans; [exact T|]. eapply steps_trans; [exact T2 | exact T3]. }
        destruct o0; auto; destruct IH as (stc'&T5&S5); exists stc'; split; auto; eapply steps_trans; eauto.
      + destruct OS as (b&stc2&Eq&T2&S2). unfold j' in Eq. simpl in Eq. inversion Eq; subst.
        inversion X0; subst. exists stc2. split; auto. eapply steps_trans; eauto.
      + destruct OS as (b&stc2&Eq&T2&S2). unfold j' in Eq. simpl in Eq. inversion Eq; subst.
        specialize (IH stc2 st2 o0 stp0' ret0 S2 X0).
        assert (T4: steps oracle G (mkConfig (length g) 0 stc0 ret0) (mkConfig (length g) 0 stc2 ret0))
          by (eapply steps_trans; eauto).
        destruct o0; auto; destruct IH as (stc'&T5&S5); exists stc'; split; auto; eapply steps_trans; eauto.
      + inversion X0; subst. unfold j' in OS. simpl in OS. destruct OS as (stc2&T2&S2).
        exists stc2. split; auto. eapply steps_trans; eauto.
    - destruct k; simpl in X0; try discriminate. inversion X0; subst. exists stc1. split; auto. }
  pose proof (Loop fuel stc stp o stp' ret Ssim X) as LP.
  assert (Entry: steps oracle G (mkConfig bb (slen g bb) stc ret) (mkConfig (length g) 0 stc ret)).
  { rewrite <- SL1. apply link_jump; auto. }
  destruct o; simpl; try contradiction.
  - destruct LP as (stc'&T&S'). exists (S (S (length g))), stc'. split; auto. split; auto.
    rewrite SLT7. eapply steps_trans; eauto.
  - destruct LP as (stc'&T&S'). exists stc'. split; auto. eapply steps_trans; eauto.
Qed.

Theorem lvisit_spec_all : (forall s, lstmt_spec oracle s) /\ (forall ss, lstmts_spec oracle ss).
Proof.
  apply stmt_mutind; intros.
  - apply lspec_assign.
  - apply lspec_aug.
  - apply lspec_expr.
  - apply lspec_if; auto.
  - apply lspec_while; auto.
  - apply lspec_break.
  - apply lspec_continue.
  - apply lspec_pass.
  - apply lspec_return.
  - apply lspec_nil.
  - apply lspec_cons; auto.
Qed.
End LStmtC.
