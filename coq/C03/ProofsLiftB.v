(** C03 — lifted expressions, part B: unary, binary, comparison, call, tuple and walrus nodes
    (all reduced to the operand-sequence lemma of part A). *)
From Coq Require Import ZArith List Bool Lia.
From V.C03 Require Import PyAst PySem Cfg CfgSem Builder Frag Lift ProofsBase ProofsExpr ProofsBranch
  ProofsStmtA ProofsSim ProofsLiftA.
Import ListNotations.

Lemma disjoint_nil_r : forall a, disjoint a [] = true.
Proof. unfold disjoint. induction a; simpl; auto. Qed.

Lemma bx_unary_cases : forall op a,
  (exists c c', op = UNeg /\ a = EConst c /\ neg_const c = Some c' /\
     forall ra bb s, bx_unary op a ra bb s = BOk (EConst c', bb) s) \/
  (forall ra bb s, bx_unary op a ra bb s = (LET r <- ra bb IN ret (EUnary op (fst r), snd r)) s).
Proof.
  intros. destruct op; auto. destruct a; auto. unfold bx_unary.
  destruct (neg_const c) as [c'|] eqn:N; [left; exists c, c'; auto | right; auto].
Qed.

Section LiftB.
Variable oracle : trace -> nat -> list val -> val.

Lemma xspec_unary : forall op a, xspec oracle a -> xspec oracle (EUnary op a).
Proof.
  intros op a Ha bb g n e' bb' s' B LS N O Nb Ne.
  change (build_expr (EUnary op a) bb (mkB g n)) with (bx_unary op a (build_expr a) bb (mkB g n)) in B.
  destruct (bx_unary_cases op a) as [(c&c'&->&->&NC&Eq)|Eq]; rewrite Eq in B.
  - inversion B; subst; clear B. apply xres_refl_leaf; auto.
    intros G E stc stp v stp1 ret S X.
    assert (v = eval_const c' /\ stp1 = stp) as (->&->).
    { destruct c; simpl in NC; inversion NC; subst; simpl in X; inversion X; auto. }
    exists stc. split; [constructor|]. split; [apply mods_refl|]. split; [exists stc; split; auto|].
    intros _. split; auto.
  - apply bind_inv in B. destruct B as ([a1 bb1]&s1&B1&B). simpl in B. inversion B; subst; clear B.
    simpl in LS, N.
    destruct (Ha bb g n a1 bb' s' B1 LS N O Nb Ne) as (g'&n'&->&Gr&Ln&O'&Nb'&D&Sem).
    exists g', n'. repeat (split; auto).
    intros G E. specialize (Sem G E).
    eapply gsem_map with (f := eval_unop op); [exact Sem | |];
      intros st; simpl; destruct (eval oracle _ st) as [[v1 s2]| |]; reflexivity.
Qed.

(* two operands evaluated left to right *)
Lemma pair_spec : forall a b, xspec oracle a -> xspec oracle b ->
  forall bb g n a1 bb1 s1 b1 bb2 s2,
  build_expr a bb (mkB g n) = BOk (a1, bb1) s1 -> build_expr b bb1 s1 = BOk (b1, bb2) s2 ->
  lsafe_val a = true -> lsafe_val b = true -> seq_ok a (wtargets b) (lift_free b) = true ->
  nt a = true -> nt b = true -> opn g bb -> bb <> exit_idx -> exit_idx < length g ->
  xres g n bb s2 bb2 (fun g' n' => forall G, ext g' G ->
    gsem oracle G g g' n n' bb bb2 (wtargets a ++ wtargets b) (reads a ++ reads b) (pure a && pure b)
         (eval_list oracle (ECons a (ECons b ENil))) (eval_list oracle (ECons a1 (ECons b1 ENil)))).
Proof.
  intros a b Ha Hb bb g n a1 bb1 s1 b1 bb2 s2 B1 B2 La Lb SQ Na Nb_ O Nb Ne.
  assert (BL: build_exprs (ECons a (ECons b ENil)) bb (mkB g n) = BOk (ECons a1 (ECons b1 ENil), bb2) s2).
  { simpl. unfold bind. rewrite B1. simpl. rewrite B2. reflexivity. }
  pose proof (xlspec_cons oracle a _ Ha (xlspec_cons oracle b _ Hb (xlspec_nil oracle))) as HL.
  destruct (HL bb g n _ bb2 s2 BL) as (g'&n'&Eq&Gr&Ln&O'&Nb'&D&Sem); auto.
  { simpl. rewrite La, Lb. simpl. rewrite app_nil_r, andb_true_r.
    unfold seq_ok at 1. rewrite disjoint_nil_r. destruct (pure b); simpl; exact SQ. }
  { simpl. rewrite Na, Nb_. auto. }
  exists g', n'. repeat (split; auto).
  intros G E. specialize (Sem G E). simpl in Sem. rewrite !app_nil_r, andb_true_r in Sem. exact Sem.
Qed.

Lemma xspec_bin : forall op a b, xspec oracle a -> xspec oracle b -> xspec oracle (EBin op a b).
Proof.
  intros op a b Ha Hb bb g n e' bb' s' B LS N O Nb Ne.
  change (build_expr (EBin op a b) bb (mkB g n)) with (bx_bin op (build_expr a) (build_expr b) bb (mkB g n)) in B.
  unfold bx_bin in B. apply bind_inv in B. destruct B as ([a1 bb1]&s1&B1&B).
  apply bind_inv in B. destruct B as ([b1 bb2]&s2&B2&B). simpl in B, B2. inversion B; subst; clear B.
  simpl in LS, N. apply andb_prop in LS. destruct LS as [LS SQ]. apply andb_prop in LS. destruct LS as [La Lb].
  apply andb_prop in N. destruct N as [Na Nb_].
  destruct (pair_spec a b Ha Hb bb g n a1 bb1 s1 b1 bb' s' B1 B2 La Lb SQ Na Nb_ O Nb Ne)
    as (g'&n'&->&Gr&Ln&O'&Nb'&D&Sem).
  exists g', n'. repeat (split; auto).
  intros G E. specialize (Sem G E).
  eapply gsem_map with (f := fun vs => match vs with [va; vb] => eval_binop op va vb | _ => None end);
    [exact Sem | |]; intros st; simpl;
    destruct (eval oracle _ st) as [[va s3]| |]; simpl; auto;
    destruct (eval oracle _ s3) as [[vb s4]| |]; simpl; auto.
Qed.

Lemma xspec_cmp1 : forall op l r, xspec oracle l -> xspec oracle r -> xspec oracle (ECmp l (CLast op r)).
Proof.
  intros op l r Ha Hb bb g n e' bb' s' B LS N O Nb Ne.
  change (build_expr (ECmp l (CLast op r)) bb (mkB g n)) with (bx_cmp1 op (build_expr l) (build_expr r) bb (mkB g n)) in B.
  unfold bx_cmp1 in B. apply bind_inv in B. destruct B as ([a1 bb1]&s1&B1&B).
  apply bind_inv in B. destruct B as ([b1 bb2]&s2&B2&B). simpl in B, B2. inversion B; subst; clear B.
  simpl in LS, N. apply andb_prop in LS. destruct LS as [LS SQ]. apply andb_prop in LS. destruct LS as [La Lb].
  apply andb_prop in N. destruct N as [Na Nb_].
  destruct (pair_spec l r Ha Hb bb g n a1 bb1 s1 b1 bb' s' B1 B2 La Lb SQ Na Nb_ O Nb Ne)
    as (g'&n'&->&Gr&Ln&O'&Nb'&D&Sem).
  exists g', n'. repeat (split; auto).
  intros G E. specialize (Sem G E).
  eapply gsem_map with (f := fun vs => match vs with
                                       | [va; vb] => match eval_cmpop op va vb with Some c => Some (VBool c) | None => None end
                                       | _ => None end);
    [exact Sem | |]; intros st; simpl;
    destruct (eval oracle _ st) as [[va s3]| |]; simpl; auto;
    destruct (eval oracle _ s3) as [[vb s4]| |]; simpl; auto;
    destruct (eval_cmpop op va vb); auto.
Qed.

Lemma xspec_tuple : forall es, xlspec oracle es -> xspec oracle (ETuple es).
Proof.
  intros es Hl bb g n e' bb' s' B LS N O Nb Ne.
  change (build_expr (ETuple es) bb (mkB g n)) with (bx_tuple (build_exprs es) bb (mkB g n)) in B.
  unfold bx_tuple in B. apply bind_inv in B. destruct B as ([es1 bb1]&s1&B1&B). simpl in B. inversion B; subst; clear B.
  simpl in LS, N.
  destruct (Hl bb g n es1 bb' s' B1 LS N O Nb Ne) as (g'&n'&->&Gr&Ln&O'&Nb'&D&Sem).
  exists g', n'. repeat (split; auto).
  intros G E. specialize (Sem G E).
  eapply gsem_map with (f := fun vs => Some (VTuple vs)); [exact Sem | |];
    intros st; simpl; destruct (eval_list oracle _ st) as [[vs s2]| |]; reflexivity.
Qed.

Lemma xspec_call : forall f args, xlspec oracle args -> xspec oracle (ECall f args).
Proof.
  intros f args Hl bb g n e' bb' s' B LS N O Nb Ne.
  change (build_expr (ECall f args) bb (mkB g n)) with (bx_call f (build_exprs args) bb (mkB g n)) in B.
  unfold bx_call in B. apply bind_inv in B. destruct B as ([es1 bb1]&s1&B1&B). simpl in B. inversion B; subst; clear B.
  simpl in LS, N.
  destruct (Hl bb g n es1 bb' s' B1 LS N O Nb Ne) as (g'&n'&->&Gr&Ln&O'&Nb'&D&Sem).
  exists g', n'. repeat (split; auto).
  intros G E stc stp v stp1 ret S X. simpl in X.
  destruct (eval_list oracle args stp) as [[vs s2]| |] eqn:El; simpl in X; try discriminate.
  inversion X; subst; clear X.
  destruct (Sem G E stc stp vs s2 ret S El) as (stm&T&M&(stc1&R1&(T1&U1))&_).
  exists stm. split; auto. split; auto. split.
  - eexists. simpl. rewrite R1. simpl. rewrite T1. split; [reflexivity|]. split; simpl; auto.
  - simpl. discriminate.
Qed.

Lemma xspec_walrus : forall x a, xspec oracle a -> xspec oracle (EWalrus x a).
Proof.
  intros x a Ha bb g n e' bb' s' B LS N O Nb Ne.
  change (build_expr (EWalrus x a) bb (mkB g n)) with (bx_walrus x (build_expr a) bb (mkB g n)) in B.
  unfold bx_walrus in B. apply bind_inv in B. destruct B as ([a1 bb1]&s1&B1&B).
  simpl in LS, N.
  destruct (Ha bb g n a1 bb1 s1 B1 LS N O Nb Ne) as (g1&n1&->&Gr&Ln&O1&Nb1&D&Sem).
  unfold bind, add_stmt, modify, ret in B. simpl in B. inversion B; subst; clear B.
  set (s := SAssign (TName (VU x)) a1) in *.
  destruct (opn_push g1 bb' s O1) as (O2&SL2).
  pose proof (grows_length _ _ _ Gr) as L1.
  exists (upd_nth bb' (push_stmt s) g1), n1. split; auto.
  split; [eapply grows_trans_gen; [exact Gr | apply grows_push; auto | auto]|].
  split; auto. split; auto. split; auto. split; auto.
  intros G E stc stp v stp1 ret S X.
  assert (E1: ext g1 G) by (eapply ext_trans; [eapply grows_ext; apply (grows_push g1 bb' s O1) | exact E]).
  simpl in X. destruct (eval oracle a stp) as [[v1 sp1]| |] eqn:Ea; simpl in X; try discriminate.
  inversion X; subst; clear X.
  destruct (Sem G E1 stc stp v sp1 ret S Ea) as (stm&T&M&(stc1&R1&S1)&_).
  set (stf := (upd (fst stc1) (VU x) v, snd stc1)).
  assert (XS: exec_simple oracle s stm = Done (stf, None)).
  { unfold s. simpl. rewrite R1. simpl. reflexivity. }
  pose proof (ext_push_step oracle g1 bb' s G stm stf None ret O1 Nb1 E XS) as ST.
  assert (SF: sim stf (upd (fst sp1) (VU x) v, snd sp1)) by (apply sim_upd_user; auto).
  exists stf. split.
  { eapply steps_trans; [exact T|]. rewrite SL2. apply steps_one. exact ST. }
  split.
  { (* frame: user variables via the Python side, temporaries via the CFG side *)
    destruct M as (MU&MT). split.
    - intros y Ny. simpl in Ny. unfold stf. simpl. unfold upd. simpl.
      destruct (Nat.eqb_spec x y); [exfalso; apply Ny; auto|].
      destruct S1 as (_&U1). destruct S as (_&U0). rewrite U1.
      rewrite (eval_frame oracle a stp v sp1 (VU y) Ea); [rewrite U0; auto|].
      simpl. intro. apply Ny. auto.
    - intros k Nk. unfold stf. simpl. unfold upd. simpl.
      rewrite (eval_frame oracle a1 stm v stc1 (VT k) R1) by (simpl; auto). apply MT. auto. }
  split.
  { exists stf. simpl. unfold upd at 1. simpl. rewrite Nat.eqb_refl. split; auto. }
  simpl. discriminate.
Qed.
End LiftB.
