(** C03 — the CFG interpreter is deterministic and monotone in fuel; refutations by
    computation lift to statements about every fuel. *)
From Coq Require Import ZArith List Bool Lia.
From V.C03 Require Import PyAst PySem Cfg CfgSem Builder Encode Witness.
Import ListNotations.

Lemma run_mono : forall oracle g f c r, run oracle g f c = Done r ->
  forall f', f <= f' -> run oracle g f' c = Done r.
Proof.
  induction f as [|f IH]; intros c r H f' L; simpl in H; [discriminate|].
  destruct f' as [|f']; [lia|]. simpl.
  destruct (step oracle g c); try discriminate; auto.
  apply IH; auto; lia.
Qed.

Lemma run_done_unique : forall oracle g f1 f2 c r1 r2,
  run oracle g f1 c = Done r1 -> run oracle g f2 c = Done r2 -> r1 = r2.
Proof.
  intros. pose proof (run_mono _ _ _ _ _ H (Nat.max f1 f2) (Nat.le_max_l _ _)).
  pose proof (run_mono _ _ _ _ _ H0 (Nat.max f1 f2) (Nat.le_max_r _ _)). congruence.
Qed.

(** [refutes p]: the builder accepts p, Python's run of p from [st0] terminates normally, and
    no run of the built CFG (whatever the fuel) produces the same observation. *)
Definition refutes (p : stmts) : Prop :=
  exists g s rp, build p true = BOk g s /\
    exec_py test_oracle 50 p st0 = Done rp /\
    forall fuel rc, run_cfg test_oracle g fuel st0 = Done rc -> obs (Done rc) <> obs (Done rp).

Definition refutes_b (p : stmts) : bool :=
  match build p true with
  | BOk g _ =>
      match exec_py test_oracle 50 p st0, run_cfg test_oracle g 500 st0 with
      | Done rp, Done rc =>
          negb (forallb (fun '(a, b) => Z.eqb a b) (combine (obs (Done rc)) (obs (Done rp)))
                && Nat.eqb (length (obs (Done rc))) (length (obs (Done rp))))
      | _, _ => false
      end
  | BErr _ => false
  end.

Lemma list_Z_eq_combine : forall a b : list Z, a = b ->
  forallb (fun '(x, y) => Z.eqb x y) (combine a b) && Nat.eqb (length a) (length b) = true.
Proof.
  intros a b ->. apply andb_true_intro; split.
  - induction b; simpl; auto. rewrite Z.eqb_refl. auto.
  - apply Nat.eqb_refl.
Qed.

Lemma refutes_b_sound : forall p, refutes_b p = true -> refutes p.
Proof.
  unfold refutes_b, refutes. intros p H.
  destruct (build p true) as [g s|] eqn:B; [|discriminate].
  destruct (exec_py test_oracle 50 p st0) as [rp| |] eqn:E; try discriminate.
  destruct (run_cfg test_oracle g 500 st0) as [rc| |] eqn:R; try discriminate.
  exists g, s, rp. repeat split; auto.
  intros fuel rc' R' Heq.
  assert (rc' = rc) by (eapply run_done_unique; eauto). subst rc'.
  apply list_Z_eq_combine in Heq. rewrite Heq in H. discriminate.
Qed.
