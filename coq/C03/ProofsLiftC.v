(** C03 — lifted expressions, part C: BranchBuilder on conditions with lifted leaves, the
    conditional expression and the short-circuit expressions in value position. *)
From Coq Require Import ZArith List Bool Lia.
From V.C03 Require Import PyAst PySem Cfg CfgSem Builder Frag Lift ProofsBase ProofsExpr ProofsBranch
  ProofsStmtA ProofsSim ProofsLiftA ProofsLiftB.
Import ListNotations.

Lemma opn_upd_other : forall g a (F : block -> block) x, opn g x -> x <> a ->
  opn (upd_nth a F g) x /\ slen (upd_nth a F g) x = slen g x.
Proof. unfold opn, slen. intros g a F x (L&S&P) N. rewrite upd_nth_length, blk_upd_other by auto. auto. Qed.

Lemma lsafe_cond_generic : forall e, is_generic e = true -> lsafe_cond e = lsafe_val e.
Proof.
  destruct e; simpl; intros; try reflexivity; try discriminate.
  - destruct op; try discriminate; reflexivity.
Qed.

Section LiftC.
Variable oracle : trace -> nat -> list val -> val.

Lemma eval_truth_inv : forall e st b st', eval_truth oracle e st = Done (b, st') ->
  exists v, eval oracle e st = Done (v, st') /\ b = truthy v.
Proof.
  unfold eval_truth. intros e st b st' H. destruct (eval oracle e st) as [[v s1]| |]; simpl in H; try discriminate.
  inversion H; subst. eauto.
Qed.

(* the frame of a CFG state that is again related to a Python state *)
Lemma mods_from_sim : forall e stc stp v stp' stc' n n',
  sim stc stp -> sim stc' stp' -> eval oracle e stp = Done (v, stp') ->
  (forall k, ~ (n <= k < n') -> fst stc' (VT k) = fst stc (VT k)) ->
  mods (wtargets e) n n' stc stc'.
Proof.
  intros e stc stp v stp' stc' n n' (_&U) (_&U') X Tm. split; auto.
  intros x Nx. rewrite U'. rewrite (eval_frame oracle e stp v stp' (VU x) X) by (simpl; auto). auto.
Qed.

Definition bsem (G : cfg) (g : list block) (n n' bb t f : nat) (e : expr) : Prop :=
  forall stc stp b stp' ret, sim stc stp -> eval_truth oracle e stp = Done (b, stp') ->
  exists stc', steps oracle G (mkConfig bb (slen g bb) stc ret) (mkConfig (if b then t else f) 0 stc' ret) /\
    sim stc' stp' /\ mods (wtargets e) n n' stc stc' /\ (pure e = true -> snd stc' = snd stc).

Definition bspec (e : expr) : Prop :=
  forall bb t f g n s', build_branch e bb t f (mkB g n) = BOk tt s' ->
  lsafe_cond e = true -> nt e = true ->
  opn g bb -> bb <> exit_idx -> exit_idx < length g -> t < length g -> f < length g -> t <> bb -> f <> bb ->
  exists g' n', s' = mkB g' n' /\ grows g bb g' /\ n <= n' /\ forall G, ext g' G -> bsem G g n n' bb t f e.

(* conditions of the old fragment: reuse [branch_ok] through [eval_sim] *)
Lemma bspec_of_frag : forall e, frag_cond e = true -> bspec e.
Proof.
  intros e FC bb t f g n s' B LS N O Nb Ne Lt Lf Nt Nf.
  destruct (branch_ok oracle e FC bb t f g n s' B O Nb Ne Lt Lf Nt Nf) as (g'&->&Gr&Sem).
  exists g', n. split; auto. split; auto. split; auto.
  intros G E stc stp b stp' ret S X.
  destruct (eval_truth_sim oracle e stc stp b stp' N S X) as (stc'&X'&S').
  exists stc'. split; [eapply Sem; eauto|]. split; auto.
  destruct (eval_truth_inv _ _ _ _ X') as (vc&Ec&_). destruct (eval_truth_inv _ _ _ _ X) as (vp&Ep&_).
  split.
  - eapply mods_from_sim; eauto. intros k _. eapply eval_frame; eauto. simpl. auto.
  - intros P. assert (stc' = stc) by (eapply (proj1 (pure_eval_all oracle)); eauto). subst. auto.
Qed.

Lemma bspec_not : forall a, bspec a -> bspec (EUnary UNot a).
Proof.
  intros a Ha bb t f g n s' B LS N O Nb Ne Lt Lf Nt Nf. simpl in B, LS, N.
  destruct (Ha bb f t g n s' B LS N O Nb Ne Lf Lt Nf Nt) as (g'&n'&->&Gr&Ln&Sem).
  exists g', n'. split; auto. split; auto. split; auto.
  intros G E stc stp b stp' ret S X. apply eval_truth_not in X.
  destruct (Sem G E stc stp (negb b) stp' ret S X) as (stc'&T&S'&M&P).
  exists stc'. split; [destruct b; exact T|]. auto.
Qed.

Lemma bspec_leaf : forall e, is_generic e = true -> xspec oracle e -> bspec e.
Proof.
  intros e GE Hx bb t f g n s' B LS N O Nb Ne Lt Lf Nt Nf.
  rewrite build_branch_generic in B by auto. rewrite lsafe_cond_generic in LS by auto.
  unfold gen_branch in B. apply bind_inv in B. destruct B as ([e1 bb1]&s1&B1&B). cbn [fst snd] in B.
  destruct (Hx bb g n e1 bb1 s1 B1 LS N O Nb Ne) as (g1&n1&->&Gr&Ln&O1&Nb1&D&Sem).
  rewrite close_branch_eq in B. inversion B; subst; clear B.
  exists (upd_nth bb1 (closeF e1 f t) g1), n1. split; auto.
  assert (G12: grows g1 bb1 (upd_nth bb1 (closeF e1 f t) g1)).
  { apply grows_upd; auto. intros b _. exists []. simpl. rewrite app_nil_r. auto. }
  split; [eapply grows_trans_gen; eauto|]. split; auto.
  intros G E stc stp b stp' ret S X.
  assert (E1: ext g1 G) by (eapply ext_trans; [eapply grows_ext; eauto | auto]).
  destruct (eval_truth_inv _ _ _ _ X) as (v&Ev&->).
  destruct (Sem G E1 stc stp v stp' ret S Ev) as (stm&T&M&(stc1&R1&S1)&P).
  assert (EvT: eval_truth oracle e1 stm = Done (truthy v, stc1)) by (unfold eval_truth; rewrite R1; reflexivity).
  exists stc1. split.
  { eapply steps_trans; [exact T|]. eapply close_steps; eauto. }
  split; auto. split.
  - eapply mods_from_sim; eauto. intros k Nk. destruct M as (_&MT).
    rewrite (eval_frame oracle e1 stm v stc1 (VT k) R1) by (simpl; auto). apply MT; auto.
  - intros Pp. destruct (P Pp) as (Tr&St). pose proof (St stm (agree_refl _ _ _ _)) as R2.
    rewrite R1 in R2. inversion R2; subst. auto.
Qed.

Lemma bspec_bool : forall op a b, bspec a -> bspec b -> bspec (EBool op a b).
Proof.
  intros op a b Ha Hb bb t f g n s' B LS N O Nb Ne Lt Lf Nt Nf.
  simpl in LS, N. apply andb_prop in LS. destruct LS as [La Lb]. apply andb_prop in N. destruct N as [Na Nb_].
  change (build_branch (EBool op a b) bb t f) with (br_bool op (build_branch a) (build_branch b) bb t f) in B.
  unfold br_bool in B. apply bind_inv in B. destruct B as (extra&s1&B1&B).
  unfold new_bb in B1. simpl in B1. inversion B1; subst; clear B1.
  apply bind_inv in B. destruct B as ([]&s2&B2&B3).
  destruct (opn_app g bb empty_block O) as (O1&SL1).
  destruct (opn_new g) as (OX&SLX).
  assert (LA: length (g ++ [empty_block]) = S (length g)) by (rewrite app_length; simpl; lia).
  pose proof O as (Lb0&_&_).
  assert (exists g2 n2, s2 = mkB g2 n2 /\ grows (g ++ [empty_block]) bb g2 /\ n <= n2 /\
     forall G, ext g2 G -> bsem G (g ++ [empty_block]) n n2 bb
        (match op with BoAnd => length g | BoOr => t end) (match op with BoAnd => f | BoOr => length g end) a)
    as (g2&n2&->&Gr2&Ln2&Sem2).
  { destruct op; [eapply (Ha bb (length g) f) | eapply (Ha bb t (length g))]; eauto; lia. }
  destruct (opn_after _ _ _ (length g) Gr2 OX) as (OX2&SLX2); [lia|].
  pose proof (grows_length _ _ _ Gr2) as L2.
  destruct (Hb (length g) t f g2 n2 s' B3 Lb Nb_ OX2) as (g3&n3&->&Gr3&Ln3&Sem3); try (unfold exit_idx in *; lia).
  exists g3, n3. split; auto. split.
  { eapply grows_trans_gen; [| exact Gr3 | right; lia].
    eapply grows_trans_gen; [apply grows_new | exact Gr2 | left; reflexivity]. }
  split; [lia|].
  intros G E stc stp r stp' ret S X.
  assert (E2: ext g2 G) by (eapply ext_trans; [eapply grows_ext; eauto | auto]).
  apply eval_truth_bool in X. destruct X as (ra&st1&Ea&Eb).
  destruct (Sem2 G E2 stc stp ra st1 ret S Ea) as (stc1&T1&S1&M1&P1). rewrite SL1 in T1.
  assert (Short: forall tgt, (if ra then match op with BoAnd => length g | BoOr => t end
                               else match op with BoAnd => f | BoOr => length g end) = tgt ->
            r = match op with BoAnd => false | BoOr => true end -> stp' = st1 ->
            exists stc', steps oracle G (mkConfig bb (slen g bb) stc ret) (mkConfig tgt 0 stc' ret) /\
              sim stc' stp' /\ mods (wtargets (EBool op a b)) n n3 stc stc' /\
              (pure (EBool op a b) = true -> snd stc' = snd stc)).
  { intros tgt <- -> ->. exists stc1. split; auto. split; auto. split.
    - simpl. eapply mods_weaken; [exact M1 | apply incl_appl; apply incl_refl | lia | lia].
    - simpl. intros PP. apply andb_prop in PP. destruct PP. auto. }
  assert (Long: (if ra then match op with BoAnd => length g | BoOr => t end
                  else match op with BoAnd => f | BoOr => length g end) = length g ->
            eval_truth oracle b st1 = Done (r, stp') ->
            exists stc', steps oracle G (mkConfig bb (slen g bb) stc ret) (mkConfig (if r then t else f) 0 stc' ret) /\
              sim stc' stp' /\ mods (wtargets (EBool op a b)) n n3 stc stc' /\
              (pure (EBool op a b) = true -> snd stc' = snd stc)).
  { intros Tg Xb. rewrite Tg in T1.
    destruct (Sem3 G E stc1 st1 r stp' ret S1 Xb) as (stc2&T2&S2&M2&P2). rewrite SLX2, SLX in T2.
    exists stc2. split; [eapply steps_trans; eauto|]. split; auto. split.
    - simpl. eapply mods_trans with (mid := n2); eauto; lia.
    - simpl. intros PP. apply andb_prop in PP. destruct PP as [Pa Pb]. rewrite (P2 Pb). auto. }
  destruct op; destruct ra.
  - apply Long; auto.
  - destruct Eb as (->&->). apply (Short f); auto.
  - destruct Eb as (->&->). apply (Short t); auto.
  - apply Long; auto.
Qed.

Lemma bspec_if : forall c a b, bspec c -> bspec a -> bspec b -> bspec (EIf c a b).
Proof.
  intros c a b Hc Ha Hb bb t f g n s' B LS N O Nb Ne Lt Lf Nt Nf.
  simpl in LS, N. apply andb_prop in LS. destruct LS as [LS L3]. apply andb_prop in LS. destruct LS as [L1 L2].
  apply andb_prop in N. destruct N as [N N3]. apply andb_prop in N. destruct N as [N1 N2].
  simpl in B. apply bind_inv in B. destruct B as (tb&s1&B1&B).
  unfold new_bb in B1. simpl in B1. inversion B1; subst; clear B1.
  apply bind_inv in B. destruct B as (eb&s1&B1&B).
  unfold new_bb in B1. simpl in B1. inversion B1; subst; clear B1.
  apply bind_inv in B. destruct B as ([]&s2&B2&B). apply bind_inv in B. destruct B as ([]&s3&B3&B4).
  set (g1 := g ++ [empty_block]) in *. set (gg := g1 ++ [empty_block]) in *.
  assert (LL1: length g1 = S (length g)) by (unfold g1; rewrite app_length; simpl; lia).
  assert (LG: length gg = S (S (length g))) by (unfold gg; rewrite app_length; simpl; lia).
  rewrite LL1 in B2, B4.
  destruct (opn_app g bb empty_block O) as (O1&SL1). fold g1 in O1, SL1.
  destruct (opn_app g1 bb empty_block O1) as (O2&SL2). fold gg in O2, SL2.
  destruct (opn_new g) as (OT&SLT). fold g1 in OT, SLT.
  destruct (opn_app g1 (length g) empty_block OT) as (OT2&SLT2). fold gg in OT2, SLT2.
  destruct (opn_new g1) as (OE&SLE). fold gg in OE, SLE. rewrite LL1 in OE, SLE.
  pose proof O as (Lb&_&_).
  destruct (Hc bb (length g) (S (length g)) gg n s2 B2 L1 N1 O2 Nb) as (g3&n3&->&Gr3&Ln3&Sem3); try lia.
  pose proof (grows_length _ _ _ Gr3) as LL3.
  destruct (opn_after _ _ _ (length g) Gr3 OT2) as (OT3&SLT3); [lia|].
  destruct (opn_after _ _ _ (S (length g)) Gr3 OE) as (OE3&SLE3); [lia|].
  destruct (Ha (length g) t f g3 n3 s3 B3 L2 N2 OT3) as (g4&n4&->&Gr4&Ln4&Sem4); try (unfold exit_idx in *; lia).
  pose proof (grows_length _ _ _ Gr4) as LL4.
  destruct (opn_after _ _ _ (S (length g)) Gr4 OE3) as (OE4&SLE4); [lia|].
  destruct (Hb (S (length g)) t f g4 n4 s' B4 L3 N3 OE4) as (g5&n5&->&Gr5&Ln5&Sem5); try (unfold exit_idx in *; lia).
  exists g5, n5. split; auto. split.
  { eapply grows_trans_gen; [| exact Gr5 | right; lia].
    eapply grows_trans_gen; [| exact Gr4 | right; lia].
    eapply grows_trans_gen; [| exact Gr3 | left; reflexivity].
    eapply grows_trans_gen; [apply grows_new | apply grows_new | left; reflexivity]. }
  split; [lia|].
  intros G E stc stp r stp' ret S X.
  assert (E4: ext g4 G) by (eapply ext_trans; [eapply grows_ext; eauto | auto]).
  assert (E3: ext g3 G) by (eapply ext_trans; [eapply grows_ext; eauto | auto]).
  apply eval_truth_if in X. destruct X as (rc&st1&Ec&Eab).
  destruct (Sem3 G E3 stc stp rc st1 ret S Ec) as (stc1&T1&S1&M1&P1). rewrite SL2, SL1 in T1.
  destruct rc.
  - destruct (Sem4 G E4 stc1 st1 r stp' ret S1 Eab) as (stc2&T2&S2&M2&P2). rewrite SLT3, SLT2, SLT in T2.
    exists stc2. split; [eapply steps_trans; eauto|]. split; auto. split.
    + simpl.
      assert (M12: mods (wtargets c ++ wtargets a) n n4 stc stc2)
        by (eapply mods_trans with (mid := n3); [lia | exact M1 | exact M2]).
      eapply mods_weaken; [exact M12 | | lia | lia].
      intros x Hx. rewrite !in_app_iff in *. tauto.
    + simpl. intros PP. apply andb_prop in PP. destruct PP as [PP Pb]. apply andb_prop in PP. destruct PP as [Pc Pa].
      rewrite (P2 Pa). auto.
  - destruct (Sem5 G E stc1 st1 r stp' ret S1 Eab) as (stc2&T2&S2&M2&P2). rewrite SLE4, SLE3, SLE in T2.
    exists stc2. split; [eapply steps_trans; eauto|]. split; auto. split.
    + simpl.
      assert (M1': mods (wtargets c) n n4 stc stc1)
        by (eapply mods_weaken; [exact M1 | apply incl_refl | lia | lia]).
      assert (M12: mods (wtargets c ++ wtargets b) n n5 stc stc2)
        by (eapply mods_trans with (mid := n4); [lia | exact M1' | exact M2]).
      eapply mods_weaken; [exact M12 | | lia | lia].
      intros x Hx. rewrite !in_app_iff in *. tauto.
    + simpl. intros PP. apply andb_prop in PP. destruct PP as [PP Pb]. apply andb_prop in PP. destruct PP as [Pc Pa].
      rewrite (P2 Pb). auto.
Qed.
End LiftC.
