(** C03 — lifted expressions, part D: the merge of two value branches through a temporary
    (conditional expression, and/or and chained comparison as values) and the combination of
    all expression cases. *)
From Coq Require Import ZArith List Bool Lia.
From V.C03 Require Import PyAst PySem Cfg CfgSem Builder Frag Lift ProofsBase ProofsExpr ProofsBranch
  ProofsStmtA ProofsStmtB ProofsSim ProofsLiftA ProofsLiftB ProofsLiftC.
Import ListNotations.

Section LiftD.
Variable oracle : trace -> nat -> list val -> val.

(* append one statement to each of two open blocks, then link both to a new block *)
Lemma merge_two : forall g xa xb sa sb,
  opn g xa -> opn g xb -> xa <> xb -> xa <> exit_idx -> xb <> exit_idx ->
  let g1 := upd_nth xa (push_stmt sa) g in
  let g2 := upd_nth xb (push_stmt sb) g1 in
  let m := length g in
  let g3 := g2 ++ [empty_block] in
  let g4 := upd_nth xa (add_succ m) g3 in
  let g5 := upd_nth xb (add_succ m) g4 in
  (forall base bb0, grows base bb0 g -> (xa = bb0 \/ length base <= xa) -> (xb = bb0 \/ length base <= xb) ->
     grows base bb0 g5) /\
  opn g5 m /\ slen g5 m = 0 /\ length g <= length g5 /\ ext g g5 /\
  forall G, ext g5 G ->
    (forall st st' ret, exec_simple oracle sa st = Done (st', None) ->
       steps oracle G (mkConfig xa (slen g xa) st ret) (mkConfig m 0 st' ret)) /\
    (forall st st' ret, exec_simple oracle sb st = Done (st', None) ->
       steps oracle G (mkConfig xb (slen g xb) st ret) (mkConfig m 0 st' ret)).
Proof.
  intros g xa xb sa sb Oa Ob Nab Na Nb g1 g2 m g3 g4 g5.
  pose proof Oa as (La&_&_). pose proof Ob as (Lb&_&_).
  destruct (opn_push g xa sa Oa) as (Oa1&SLa1). fold g1 in Oa1, SLa1.
  destruct (opn_upd_other g xa (push_stmt sa) xb Ob (not_eq_sym Nab)) as (Ob1&SLb1). fold g1 in Ob1, SLb1.
  destruct (opn_push g1 xb sb Ob1) as (Ob2&SLb2). fold g2 in Ob2, SLb2.
  destruct (opn_upd_other g1 xb (push_stmt sb) xa Oa1 Nab) as (Oa2&SLa2). fold g2 in Oa2, SLa2.
  assert (L2: length g2 = length g) by (unfold g2, g1; rewrite !upd_nth_length; auto).
  destruct (opn_app g2 xa empty_block Oa2) as (Oa3&SLa3). fold g3 in Oa3, SLa3.
  destruct (opn_app g2 xb empty_block Ob2) as (Ob3&SLb3). fold g3 in Ob3, SLb3.
  destruct (opn_new g2) as (Om3&SLm3). fold g3 in Om3, SLm3. rewrite L2 in Om3, SLm3. fold m in Om3, SLm3.
  destruct (opn_upd_other g3 xa (add_succ m) xb Ob3 (not_eq_sym Nab)) as (Ob4&SLb4). fold g4 in Ob4, SLb4.
  destruct (opn_upd_other g3 xa (add_succ m) m Om3) as (Om4&SLm4); [unfold m; lia|]. fold g4 in Om4, SLm4.
  destruct (opn_upd_other g4 xb (add_succ m) m Om4) as (Om5&SLm5); [unfold m; lia|]. fold g5 in Om5, SLm5.
  assert (G01: grows g xa g1) by (apply grows_push; auto).
  assert (G12: grows g1 xb g2) by (apply grows_push; auto).
  assert (G23: grows g2 0 g3) by (apply grows_new).
  assert (G34: grows g3 xa g4) by (apply grows_link; auto).
  assert (G45: grows g4 xb g5) by (apply grows_link; auto).
  split.
  { intros base bb0 Gb Da Db. pose proof (grows_length _ _ _ Gb) as LB.
    eapply grows_trans_gen; [| exact G45 | exact Db].
    eapply grows_trans_gen; [| exact G34 | exact Da].
    eapply grows_trans_gen; [| apply (grows_new g2 bb0) | left; reflexivity].
    eapply grows_trans_gen; [| exact G12 | exact Db].
    eapply grows_trans_gen; [exact Gb | exact G01 | exact Da]. }
  split; [exact Om5|]. split; [rewrite SLm5, SLm4; exact SLm3|].
  split. { unfold g5, g4, g3. rewrite !upd_nth_length, app_length, L2. simpl. lia. }
  split.
  { eapply ext_trans; [eapply grows_ext; exact G01|]. eapply ext_trans; [eapply grows_ext; exact G12|].
    eapply ext_trans; [eapply grows_ext; exact G23|]. eapply ext_trans; [eapply grows_ext; exact G34|].
    eapply grows_ext; exact G45. }
  intros G E.
  assert (E4: ext g4 G) by (eapply ext_trans; [eapply grows_ext; exact G45 | exact E]).
  assert (E3: ext g3 G) by (eapply ext_trans; [eapply grows_ext; exact G34 | exact E4]).
  assert (E2: ext g2 G) by (eapply ext_trans; [eapply grows_ext; exact G23 | exact E3]).
  assert (E1: ext g1 G) by (eapply ext_trans; [eapply grows_ext; exact G12 | exact E2]).
  split.
  - intros st st' ret X.
    eapply steps_cons. { exact (ext_push_step oracle g xa sa G st st' None ret Oa Na E1 X). }
    apply steps_one. rewrite <- SLa1, <- SLa2, <- SLa3.
    exact (ext_link_step oracle g3 xa m G st' ret Oa3 Na E4).
  - intros st st' ret X.
    eapply steps_cons. { rewrite <- SLb1. exact (ext_push_step oracle g1 xb sb G st st' None ret Ob1 Nb E2 X). }
    apply steps_one. rewrite <- SLb2, <- SLb3, <- SLb4.
    exact (ext_link_step oracle g4 xb m G st' ret Ob4 Nb E).
Qed.

Lemma tmp_assign_exec : forall k e st v st1,
  eval oracle e st = Done (v, st1) ->
  exec_simple oracle (tmp_assign k e) st = Done ((upd (fst st1) (VT k) v, snd st1), None).
Proof. intros. unfold tmp_assign. simpl. rewrite H. reflexivity. Qed.

Lemma tmp_lookup : forall (s : store) k v tr, eval oracle (EName (VT k)) (upd s (VT k) v, tr) = Done (v, (upd s (VT k) v, tr)).
Proof. intros. simpl. unfold upd. simpl. rewrite Nat.eqb_refl. reflexivity. Qed.

(* ------------------------------------------------------------------ a if c else b, as a value *)
Lemma xspec_if : forall c a b, bspec oracle c -> xspec oracle a -> xspec oracle b -> xspec oracle (EIf c a b).
Proof.
  intros c a b Hc Ha Hb bb g n e' bb' s' B LS N O Nb Ne.
  simpl in LS, N. apply andb_prop in LS. destruct LS as [LS L3]. apply andb_prop in LS. destruct LS as [L1 L2].
  apply andb_prop in N. destruct N as [N N3]. apply andb_prop in N. destruct N as [N1 N2].
  simpl in B.
  apply bind_inv in B. destruct B as (ib&s1&B1&B). unfold new_bb in B1; simpl in B1; inversion B1; subst; clear B1.
  apply bind_inv in B. destruct B as (eb&s1&B1&B). unfold new_bb in B1; simpl in B1; inversion B1; subst; clear B1.
  apply bind_inv in B. destruct B as ([]&s3&B3&B).
  apply bind_inv in B. destruct B as ([a1 bba]&s4&B4&B).
  apply bind_inv in B. destruct B as ([b1 bbb]&s5&B5&B). cbn [fst snd] in B.
  set (g1 := g ++ [empty_block]) in *. set (gg := g1 ++ [empty_block]) in *.
  assert (LL1: length g1 = S (length g)) by (unfold g1; rewrite app_length; simpl; lia).
  assert (LG: length gg = S (S (length g))) by (unfold gg; rewrite app_length; simpl; lia).
  rewrite LL1 in B3, B5.
  destruct (opn_app g bb empty_block O) as (O1&SL1). fold g1 in O1, SL1.
  destruct (opn_app g1 bb empty_block O1) as (O2&SL2). fold gg in O2, SL2.
  destruct (opn_new g) as (OT&SLT). fold g1 in OT, SLT.
  destruct (opn_app g1 (length g) empty_block OT) as (OT2&SLT2). fold gg in OT2, SLT2.
  destruct (opn_new g1) as (OE&SLE). fold gg in OE, SLE. rewrite LL1 in OE, SLE.
  pose proof O as (Lb&_&_). unfold exit_idx in *.
  destruct (Hc bb (length g) (S (length g)) gg n s3 B3 L1 N1 O2 Nb) as (g3&n3&->&Gr3&Ln3&Sem3); try (unfold exit_idx; lia).
  pose proof (grows_length _ _ _ Gr3) as LL3.
  destruct (opn_after _ _ _ (length g) Gr3 OT2) as (OT3&SLT3); [lia|].
  destruct (opn_after _ _ _ (S (length g)) Gr3 OE) as (OE3&SLE3); [lia|].
  destruct (Ha (length g) g3 n3 a1 bba s4 B4 L2 N2 OT3) as (g4&n4&->&Gr4&Ln4&Oa4&Na4&Da&Sem4); try (unfold exit_idx; lia).
  pose proof (grows_length _ _ _ Gr4) as LL4.
  destruct (opn_after _ _ _ (S (length g)) Gr4 OE3) as (OE4&SLE4); [lia|].
  destruct (Hb (S (length g)) g4 n4 b1 bbb s5 B5 L3 N3 OE4) as (g5&n5&->&Gr5&Ln5&Ob5&Nb5&Db&Sem5); try (unfold exit_idx; lia).
  pose proof (grows_length _ _ _ Gr5) as LL5.
  pose proof Oa4 as (La4&_&_).
  assert (Nae: bba <> S (length g)) by (destruct Da; lia).
  assert (Nab: bba <> bbb) by (destruct Db; lia).
  destruct (opn_after _ _ _ bba Gr5 Oa4 Nae) as (Oa5&SLa5).
  (* the tail: tmp, two assignments, merge block *)
  unfold bind, fresh_tmp, add_stmt, new_bb, link, modify, ret in B. simpl in B. inversion B; subst; clear B.
  set (sa := tmp_assign n5 a1) in *. set (sb := tmp_assign n5 b1) in *.
  destruct (merge_two g5 bba bbb sa sb Oa5 Ob5 Nab Na4 Nb5) as (GrM&OM&SLM&LM&ExtM&SemM).
  rewrite !upd_nth_length in *.
  assert (G05: grows g bb g5).
  { eapply grows_trans_gen; [| exact Gr5 | right; lia].
    eapply grows_trans_gen; [| exact Gr4 | right; lia].
    eapply grows_trans_gen; [| exact Gr3 | left; reflexivity].
    eapply grows_trans_gen; [apply grows_new | apply grows_new | left; reflexivity]. }
  eexists _, (S n5). split; [reflexivity|].
  split. { apply GrM; [exact G05 | right; destruct Da; lia | right; destruct Db; lia]. }
  split; [lia|]. split; [exact OM|]. split; [unfold exit_idx; lia|]. split; [right; lia|].
  intros G E stc stp v stp1 ret Ssim X.
  destruct (SemM G E) as (TailA&TailB).
  assert (E5: ext g5 G) by (eapply ext_trans; [exact ExtM | exact E]).
  assert (E4: ext g4 G) by (eapply ext_trans; [eapply grows_ext; eauto | auto]).
  assert (E3: ext g3 G) by (eapply ext_trans; [eapply grows_ext; eauto | auto]).
  pose proof X as X0.
  simpl in X. destruct (eval oracle c stp) as [[vc sc]| |] eqn:Ec; simpl in X; try discriminate.
  assert (EcT: eval_truth oracle c stp = Done (truthy vc, sc)) by (unfold eval_truth; rewrite Ec; reflexivity).
  destruct (Sem3 G E3 stc stp (truthy vc) sc ret Ssim EcT) as (stcc&T1&S1&M1&P1). rewrite SL2, SL1 in T1.
  assert (Fin: forall (e1 : expr) (x : nat) (xe : expr) (nlo nhi : nat) (stm stc1 : state),
            n3 <= nlo -> nhi <= n5 ->
            steps oracle G (mkConfig bb (slen g bb) stc ret) (mkConfig x (slen g5 x) stm ret) ->
            mods (wtargets xe) nlo nhi stcc stm ->
            eval oracle e1 stm = Done (v, stc1) -> sim stc1 stp1 ->
            (pure xe = true -> snd stm = snd stcc /\ forall stx, agree (reads xe) nlo nhi stm stx -> eval oracle e1 stx = Done (v, stx)) ->
            (forall st st' ret, exec_simple oracle (tmp_assign n5 e1) st = Done (st', None) ->
               steps oracle G (mkConfig x (slen g5 x) st ret) (mkConfig (length g5) 0 st' ret)) ->
            exists stm0, steps oracle G (mkConfig bb (slen g bb) stc ret) (mkConfig (length g5) 0 stm0 ret) /\
              mods (wtargets (EIf c a b)) n (S n5) stc stm0 /\
              (exists stc2, eval oracle (EName (VT n5)) stm0 = Done (v, stc2) /\ sim stc2 stp1) /\
              (pure c = true -> pure xe = true ->
                 snd stm0 = snd stc /\ forall stx, agree (reads (EIf c a b)) n (S n5) stm0 stx -> eval oracle (EName (VT n5)) stx = Done (v, stx))).
  { intros e1 x xe nlo nhi stm stc1 Llo Lhi T M R Sm P Tail.
    set (stf := (upd (fst stc1) (VT n5) v, snd stc1)).
    exists stf. split.
    { eapply steps_trans; [exact T|]. apply Tail. apply tmp_assign_exec. exact R. }
    split.
    { apply (mods_from_sim oracle (EIf c a b) stc stp v stp1 stf n (S n5) Ssim (sim_upd_tmp _ _ n5 v Sm) X0).
      intros k Nk. unfold stf. simpl. unfold upd. simpl.
        destruct (Nat.eqb_spec n5 k); [lia|].
        rewrite (eval_frame oracle e1 stm v stc1 (VT k) R) by (simpl; auto).
        destruct M as (_&MT). rewrite MT by lia. destruct M1 as (_&MT1). apply MT1. lia. }
    split.
    { exists stf. split; [apply tmp_lookup | apply sim_upd_tmp; exact Sm]. }
    intros Pc Pxe. destruct (P Pxe) as (Tr&St).
    pose proof (St stm (agree_refl _ _ _ _)) as R2. rewrite R in R2. inversion R2; subst stc1.
    split; [unfold stf; simpl; rewrite Tr; apply P1; auto|].
    intros stx (_&AT). simpl. rewrite (AT n5) by lia. unfold stf. simpl. unfold upd. simpl.
    rewrite Nat.eqb_refl. reflexivity. }
  rewrite SLM.
  destruct (truthy vc) eqn:Tc.
  - destruct (Sem4 G E4 stcc sc v stp1 ret S1 X) as (stm&T2&M2&(stc1&R2&S2)&P2).
    rewrite SLT3, SLT2, SLT in T2. rewrite <- SLa5 in T2.
    destruct (Fin a1 bba a n3 n4 stm stc1) as (stm0&TT&MM&RR&PP); auto; try lia.
    { eapply steps_trans; eauto. }
    exists stm0. split; auto. split; auto. split; auto.
    intros PE. simpl in PE. apply andb_prop in PE. destruct PE as [PE Pb]. apply andb_prop in PE. destruct PE as [Pc Pa].
    apply PP; auto.
  - destruct (Sem5 G E5 stcc sc v stp1 ret S1 X) as (stm&T2&M2&(stc1&R2&S2)&P2).
    rewrite SLE4, SLE3, SLE in T2.
    destruct (Fin b1 bbb b n4 n5 stm stc1) as (stm0&TT&MM&RR&PP); auto; try lia.
    { eapply steps_trans; eauto. }
    exists stm0. split; auto. split; auto. split; auto.
    intros PE. simpl in PE. apply andb_prop in PE. destruct PE as [PE Pb]. apply andb_prop in PE. destruct PE as [Pc Pa].
    apply PP; auto.
Qed.
End LiftD.
