(** C03/C32 — a body the builder accepts contains no [while ... else] (any expressions). *)
From Coq Require Import ZArith List Bool Lia.
From V.C03 Require Import PyAst Cfg Builder Frag ProofsBase.
Import ListNotations.

Lemma visit_no_loop_else :
  (forall s bb j st r st', visit_stmt s bb j st = BOk r st' -> no_loop_else s = true) /\
  (forall ss prev cur j st r st', visit_stmts ss prev cur j st = BOk r st' -> no_loop_else_list ss = true).
Proof.
  apply stmt_mutind; intros; simpl; auto.
  - (* if *)
    simpl in H1.
    apply bind_inv in H1. destruct H1 as (tb&s1&_&V).
    apply bind_inv in V. destruct V as (eb&s2&_&V).
    apply bind_inv in V. destruct V as (u&s3&_&V).
    apply bind_inv in V. destruct V as (te&s4&B4&V).
    apply bind_inv in V. destruct V as (ee&s5&B5&V).
    rewrite (H _ _ _ _ _ _ B4), (H0 _ _ _ _ _ _ B5). reflexivity.
  - (* while *)
    simpl in H1. destruct orelse; [|discriminate].
    apply bind_inv in H1. destruct H1 as (hd&s1&_&V).
    apply bind_inv in V. destruct V as (u1&s2&_&V).
    apply bind_inv in V. destruct V as (bd&s3&_&V).
    apply bind_inv in V. destruct V as (tl&s4&_&V).
    apply bind_inv in V. destruct V as (u2&s5&_&V).
    apply bind_inv in V. destruct V as (rb&s6&B6&V).
    rewrite (H _ _ _ _ _ _ B6). reflexivity.
  - (* cons *)
    simpl in H1.
    apply bind_inv in H1. destruct H1 as (b&s1&_&V).
    apply bind_inv in V. destruct V as (r1&s2&B2&V).
    rewrite (H _ _ _ _ _ B2), (H0 _ _ _ _ _ _ V). reflexivity.
Qed.

Theorem build_accepts_no_loop_else : forall p rn g s, build p rn = BOk g s -> no_loop_else_list p = true.
Proof.
  intros p rn g s B. unfold build in B.
  destruct (visit_stmts p entry_idx (Some entry_idx) (mkJ exit_idx None None) init_state) as [f s1|] eqn:V; [|discriminate].
  eapply (proj2 visit_no_loop_else); eauto.
Qed.
