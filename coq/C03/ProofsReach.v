(** C03 — the reachability pass and the pruning loop at the end of CFGBuilder.build do not
    change any run that starts at the entry block. *)
From Coq Require Import ZArith List Bool Lia.
From V.C03 Require Import PyAst PySem Cfg CfgSem Builder ProofsBase.
Import ListNotations.

Section RunAgree.
Variable oracle : trace -> nat -> list val -> val.

Lemma step_agree : forall (A B : cfg) (fl : nat -> bool),
  length A = length B ->
  (forall i, i < length A -> fl i = true ->
     sem_same (blk A i) (blk B i) /\
     forall s, In s (b_succs (blk A i)) -> s < length A -> fl s = true) ->
  forall c, (c_bb c < length A -> fl (c_bb c) = true) ->
  step oracle A c = step oracle B c /\
  forall c', step oracle A c = SNext c' -> (c_bb c' < length A -> fl (c_bb c') = true).
Proof.
  intros A B fl L H c Hc. unfold step.
  destruct (Nat.eqb (c_bb c) exit_idx); [split; [auto | discriminate]|].
  destruct (Nat.lt_ge_cases (c_bb c) (length A)) as [Lt|Ge].
  - rewrite (nth_error_blk A) by auto. rewrite (nth_error_blk B) by lia.
    destruct (H _ Lt (Hc Lt)) as ((S1&S2&S3)&Cl). rewrite S1, S2, S3.
    destruct (nth_error (b_stmts (blk A (c_bb c))) (c_pos c)) as [s|].
    + destruct (exec_simple oracle s (c_st c)) as [[st' r]| |]; split; auto; try discriminate.
      intros c' E. inversion E; subst. simpl. auto.
    + destruct (b_pred (blk A (c_bb c))) as [p|].
      * destruct (eval_truth oracle p (c_st c)) as [[t st']| |]; split; auto; try discriminate.
        destruct (nth_error (b_succs (blk A (c_bb c))) (if t then 1 else 0)) as [n|] eqn:N; try discriminate.
        intros c' E. inversion E; subst. simpl. apply Cl. eapply nth_error_In; eauto.
      * destruct (b_succs (blk A (c_bb c))) as [|n r] eqn:N; split; auto; try discriminate.
        intros c' E. inversion E; subst. simpl. apply Cl. left; auto.
  - replace (nth_error A (c_bb c)) with (@None block) by (symmetry; apply nth_error_None; lia).
    replace (nth_error B (c_bb c)) with (@None block) by (symmetry; apply nth_error_None; lia).
    split; [auto | discriminate].
Qed.

Lemma run_agree : forall (A B : cfg) (fl : nat -> bool),
  length A = length B ->
  (forall i, i < length A -> fl i = true ->
     sem_same (blk A i) (blk B i) /\
     forall s, In s (b_succs (blk A i)) -> s < length A -> fl s = true) ->
  forall fuel c, (c_bb c < length A -> fl (c_bb c) = true) ->
  run oracle A fuel c = run oracle B fuel c.
Proof.
  intros A B fl L H. induction fuel; intros c Hc; simpl; auto.
  destruct (step_agree A B fl L H c Hc) as (E&N). rewrite <- E.
  destruct (step oracle A c) eqn:S; auto.
Qed.
End RunAgree.

(* ------------------------------------------------------------------ the worklist *)
Lemma nth_reach_upd : forall seen i j, i < length seen ->
  nth_reach (upd_nth i (fun _ => true) seen) j = if Nat.eqb j i then true else nth_reach seen j.
Proof.
  unfold nth_reach. induction seen; intros; simpl in *; [lia|].
  destruct i; destruct j; simpl; auto. rewrite IHseen by lia. auto.
Qed.

Definition closedP (g : list block) (seen : list bool) (work : list nat) : Prop :=
  forall i, i < length g -> nth_reach seen i = true ->
  forall s, In s (b_succs (blk g i)) -> s < length g -> nth_reach seen s = true \/ In s work.

Lemma reach_wl_inv : forall fuel g work seen res,
  length seen = length g -> closedP g seen work ->
  reach_wl fuel g work seen = Some res ->
  length res = length g /\ closedP g res [] /\
  (forall i, nth_reach seen i = true -> nth_reach res i = true) /\
  (forall i, In i work -> i < length g -> nth_reach res i = true).
Proof.
  induction fuel; intros g work seen res L C H; destruct work as [|i rest]; simpl in H; try discriminate.
  - inversion H; subst. repeat split; auto; intros i [].
  - inversion H; subst. repeat split; auto; intros i [].
  - destruct (nth_reach seen i) eqn:Si.
    + destruct (IHfuel g rest seen res L) as (A&B&M&W); auto.
      { intros i0 Hi0 S0 s Hs Ls. destruct (C i0 Hi0 S0 s Hs Ls) as [X|[X|X]]; auto. subst. auto. }
      repeat split; auto. intros i0 [X|X] Hi0; [subst; auto | auto].
    + destruct (nth_error g i) as [b|] eqn:Ni.
      * assert (Li: i < length g) by (apply nth_error_Some; congruence).
        assert (Bi: b = blk g i) by (rewrite nth_error_blk in Ni by auto; inversion Ni; auto).
        destruct (IHfuel g (b_succs b ++ rest) (upd_nth i (fun _ => true) seen) res) as (A&B&M&W); auto.
        { rewrite upd_nth_length; auto. }
        { intros i0 Hi0 S0 s Hs Ls. rewrite nth_reach_upd in * by lia.
          destruct (Nat.eqb_spec i0 i).
          - subst i0. right. apply in_or_app. left. rewrite Bi. auto.
          - destruct (C i0 Hi0 S0 s Hs Ls) as [X|[X|X]].
            + left. destruct (Nat.eqb s i); auto.
            + subst. left. rewrite Nat.eqb_refl. auto.
            + right. apply in_or_app. auto. }
        repeat split; auto.
        { intros i0 S0. apply M. rewrite nth_reach_upd by lia. destruct (Nat.eqb i0 i); auto. }
        { intros i0 [X|X] Hi0.
          - subst. apply M. rewrite nth_reach_upd by lia. rewrite Nat.eqb_refl. auto.
          - apply W; auto. apply in_or_app. auto. }
      * assert (Gi: length g <= i) by (apply nth_error_None; auto).
        destruct (IHfuel g rest seen res L) as (A&B&M&W); auto.
        { intros i0 Hi0 S0 s Hs Ls. destruct (C i0 Hi0 S0 s Hs Ls) as [X|[X|X]]; auto. subst. lia. }
        repeat split; auto. intros i0 [X|X] Hi0; [subst; lia | auto].
Qed.

Lemma nth_reach_false : forall (g : list block) i, nth_reach (map (fun _ => false) g) i = false.
Proof. unfold nth_reach. induction g; destruct i; simpl; auto. Qed.

Definition markF (p : block * bool) : block := let '(b, r) := p in put_reach r b.

Lemma mark_spec : forall g g1, exit_idx < length g -> mark_reachable g = Some g1 ->
  exists res, length res = length g /\ length g1 = length g /\
    (forall i, blk g1 i = put_reach (nth_reach res i) (blk g i)) /\
    closedP g res [] /\ nth_reach res entry_idx = true.
Proof.
  unfold mark_reachable. intros g g1 Ne H.
  destruct (reach_wl _ g [entry_idx] (map (fun _ => false) g)) as [res|] eqn:R; [|discriminate].
  inversion H; subst; clear H.
  destruct (reach_wl_inv _ _ _ _ _ (map_length _ _) (fun i Hi S0 => ltac:(rewrite nth_reach_false in S0; discriminate)) R)
    as (A&B&M&W).
  exists res. split; auto. split.
  - rewrite map_length, combine_length, A. lia.
  - split; [|split; auto].
    + intros i. unfold blk.
      change (fun '(b, r) => put_reach r b) with markF.
      change empty_block with (markF (empty_block, false)) at 1.
      rewrite map_nth. rewrite combine_nth by auto. reflexivity.
    + apply W; [left; auto | unfold entry_idx, exit_idx in *; lia].
Qed.

(* ------------------------------------------------------------------ pruning *)
Definition pruneF (g : list block) (b : block) : block :=
  mkBlock (b_stmts b) (b_pred b)
          (if b_reach b then b_succs b else filter (fun s => negb (blk_reach g s)) (b_succs b))
          (filter (fun s => negb (blk_reach g s)) (b_dummy b))
          (b_reach b).

Lemma blk_prune : forall g i, blk (prune g) i = pruneF g (blk g i).
Proof.
  intros. unfold blk, prune. change empty_block with (pruneF g empty_block) at 1.
  apply (map_nth (pruneF g)).
Qed.

Section Prune.
Variable oracle : trace -> nat -> list val -> val.

Lemma prune_run : forall (A g3 : cfg),
  length A = length g3 ->
  (forall i, sem_same (blk A i) (blk g3 i)) ->
  (forall i, i < length g3 -> b_reach (blk g3 i) = true ->
     forall s, In s (b_succs (blk g3 i)) -> s < length g3 -> b_reach (blk g3 s) = true) ->
  forall fuel c, (c_bb c < length A -> b_reach (blk g3 (c_bb c)) = true) ->
  run oracle A fuel c = run oracle (prune g3) fuel c.
Proof.
  intros A g3 L S C fuel c Hc.
  apply run_agree with (fl := fun i => b_reach (blk g3 i)); auto.
  - unfold prune. rewrite map_length. auto.
  - intros i Hi Fi. destruct (S i) as (S1&S2&S3). split.
    + rewrite blk_prune. unfold sem_same, pruneF. simpl. rewrite Fi. auto.
    + intros s Hs Ls. rewrite <- S3 in Hs. apply (C i); auto; lia.
Qed.
End Prune.
