(** C03 — unpacking assignment `p1..pk, *s, q1..qm = xs` over an n-element array as lowered by
    StmtCompiler._assign_array (model file: definitions only).

    The inner helper [pop] pops [len(pats)] elements from one end (op [pop_left] / [pop_right],
    each returning the element and the remaining array), optionally reverses the pattern list
    and/or the list of popped elements, and assigns pattern i the element i (zip).  Which
    reversals the code performs is read from the source on every run (GenUnpack.v):
      [rev_pats_right]  the pattern list is reversed when popping from the right
      [rev_elts_right]  the popped elements are reversed when popping from the right. *)
From Coq Require Import List Bool Arith.
Import ListNotations.

Section Unpack.
Variable A : Type.

Definition pop_left (arr : list A) : option (A * list A) :=
  match arr with x :: r => Some (x, r) | [] => None end.
Definition pop_right (arr : list A) : option (A * list A) :=
  match rev arr with x :: r => Some (x, rev r) | [] => None end.

(* the loop `for i in range(num_pats)`: elements in pop order, remaining array *)
Fixpoint pops (from_left : bool) (num : nat) (arr : list A) : option (list A * list A) :=
  match num with
  | O => Some ([], arr)
  | S k =>
    match (if from_left then pop_left arr else pop_right arr) with
    | Some (e, arr') =>
        match pops from_left k arr' with
        | Some (es, rest) => Some (e :: es, rest)
        | None => None
        end
    | None => None
    end
  end.

(* bindings made by one call of [pop], in assignment order, and the remaining array *)
Definition pop_assign (rev_pats_right rev_elts_right from_left : bool) (pats : list nat) (arr : list A)
  : option (list (nat * A) * list A) :=
  let pats' := if negb from_left && rev_pats_right then rev pats else pats in
  match pops from_left (length pats) arr with
  | Some (elts, rest) =>
      let elts' := if negb from_left && rev_elts_right then rev elts else elts in
      Some (combine pats' elts', rest)
  | None => None
  end.

(* _assign_array: pop the left patterns from the left, the right patterns from the right, the
   starred target gets what remains (without a starred target nothing may remain) *)
Definition assign_array (rev_pats_right rev_elts_right : bool)
    (left : list nat) (starred : option nat) (right : list nat) (xs : list A)
  : option (list (nat * A) * option (nat * list A)) :=
  match pop_assign rev_pats_right rev_elts_right true left xs with
  | Some (b1, rest1) =>
    match pop_assign rev_pats_right rev_elts_right false right rest1 with
    | Some (b2, rest2) =>
      match starred with
      | Some s => Some (b1 ++ b2, Some (s, rest2))
      | None => match rest2 with [] => Some (b1 ++ b2, None) | _ => None end
      end
    | None => None
    end
  | None => None
  end.

(** Python: pi = xs[i], qj = xs[n-m+j], s = xs[k : n-m]  (k = len left, m = len right, n = len xs) *)
Definition py_unpack (left : list nat) (starred : option nat) (right : list nat) (xs : list A)
  : option (list (nat * A) * option (nat * list A)) :=
  let k := length left in let m := length right in let n := length xs in
  if match starred with Some _ => Nat.leb (k + m) n | None => Nat.eqb (k + m) n end then
    Some (combine left (firstn k xs) ++ combine right (skipn (n - m) xs),
          match starred with Some s => Some (s, firstn (n - m - k) (skipn k xs)) | None => None end)
  else None.
End Unpack.
