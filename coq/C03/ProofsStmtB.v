(** C03 — statement level, part B: simple statements, jumps and statement lists. *)
From Coq Require Import ZArith List Bool Lia.
From V.C03 Require Import PyAst PySem Cfg CfgSem Builder Frag ProofsBase ProofsExpr ProofsBranch ProofsStmtA.
Import ListNotations.

Section StmtB.
Variable oracle : trace -> nat -> list val -> val.

Definition simple_exec (s : stmt) : Prop :=
  forall f st, exec oracle (S f) s st =
    rbind (exec_simple oracle s st)
          (fun '(st1, r) => Done (match r with None => ONormal | Some v => OReturn v end, st1)).

Lemma push_normal : forall s s' bb j g,
  opn g bb -> bb <> exit_idx ->
  (forall st, exec_simple oracle s' st = exec_simple oracle s st) ->
  simple_exec s ->
  (forall st st1 rv, exec_simple oracle s st = Done (st1, rv) -> rv = None) ->
  grows g bb (upd_nth bb (push_stmt s') g) /\ rok g bb (upd_nth bb (push_stmt s') g) (Some bb) /\
  forall G, ext (upd_nth bb (push_stmt s') g) G -> forall fuel st o st' ret,
    exec oracle fuel s st = Done (o, st') ->
    osteps oracle G (mkConfig bb (slen g bb) st ret) j (upd_nth bb (push_stmt s') g) (Some bb) o st'.
Proof.
  intros s s' bb j g O Nb Eq SE NoRet.
  destruct (opn_push g bb s' O) as (O1&SL1).
  split; [apply grows_push; auto|]. split; [simpl; auto|].
  intros G E fuel st o st' ret X.
  destruct fuel; [simpl in X; discriminate|]. rewrite SE in X.
  destruct (exec_simple oracle s st) as [[st1 rv]| |] eqn:XS; simpl in X; try discriminate.
  assert (rv = None) by eauto. subst rv. inversion X; subst; clear X.
  simpl. exists bb. split; auto. rewrite SL1. apply steps_one.
  rewrite <- Eq in XS. exact (ext_push_step oracle g bb s' G st st' None ret O Nb E XS).
Qed.

Lemma push_return : forall s s' bb j g,
  opn g bb -> bb <> exit_idx ->
  (forall st, exec_simple oracle s' st = exec_simple oracle s st) ->
  simple_exec s ->
  (forall st st1 rv, exec_simple oracle s st = Done (st1, rv) -> rv <> None) ->
  let g1 := upd_nth bb (push_stmt s') g in
  let g2 := upd_nth bb (add_succ (j_ret j)) g1 in
  grows g bb g2 /\
  forall G, ext g2 G -> forall fuel st o st' ret,
    exec oracle fuel s st = Done (o, st') ->
    osteps oracle G (mkConfig bb (slen g bb) st ret) j g2 None o st'.
Proof.
  intros s s' bb j g O Nb Eq SE IsRet g1 g2.
  destruct (opn_push g bb s' O) as (O1&SL1). fold g1 in O1, SL1.
  assert (G12: grows g1 bb g2) by (apply grows_link; auto).
  split. { eapply grows_trans_gen; [apply grows_push; auto | exact G12 | auto]. }
  intros G E fuel st o st' ret X.
  assert (E1: ext g1 G) by (eapply ext_trans; [eapply grows_ext; eauto | auto]).
  destruct fuel; [simpl in X; discriminate|]. rewrite SE in X.
  destruct (exec_simple oracle s st) as [[st1 rv]| |] eqn:XS; simpl in X; try discriminate.
  destruct rv as [v|]; [|exfalso; eapply IsRet; eauto].
  inversion X; subst; clear X. simpl.
  rewrite <- Eq in XS.
  eapply steps_cons. { exact (ext_push_step oracle g bb s' G st st' (Some v) ret O Nb E1 XS). }
  apply steps_one. rewrite <- SL1. exact (ext_link_step oracle g1 bb (j_ret j) G st' (Some v) O1 Nb E).
Qed.

Lemma link_jump : forall bb t g G st ret,
  opn g bb -> bb <> exit_idx -> ext (upd_nth bb (add_succ t) g) G ->
  steps oracle G (mkConfig bb (slen g bb) st ret) (mkConfig t 0 st ret).
Proof. intros. apply steps_one. eapply ext_link_step; eauto. Qed.

Lemma is_tmp_fold : forall e, is_tmp_name (fold_neg e) = true -> exists n, e = EName (VT n).
Proof.
  destruct e; simpl; try discriminate.
  - destruct x; try discriminate. eauto.
  - destruct (fold_neg_unary op e) as [E|(c&c'&_&_&_&E)]; simpl in E; rewrite E; discriminate.
Qed.

(* ------------------------------------------------------------------ simple statements *)
Lemma spec_assign : forall t e, stmt_spec oracle (SAssign t e).
Proof.
  intros t e bb j g n r s' F V O Nb Ne J. simpl in F.
  simpl in V. unfold bind in V. rewrite build_lift_free in V by auto. simpl in V.
  inversion V; subst; clear V.
  destruct (push_normal (SAssign t e) (SAssign t (fold_neg e)) bb j g O Nb) as (A&B&C).
  - intros st. exact (fold_neg_exec_simple oracle (SAssign t e) st).
  - intros f st. reflexivity.
  - intros st st1 rv X. simpl in X. destruct (eval oracle e st) as [[v s1]| |]; simpl in X; try discriminate.
    destruct (assign_target t v (fst s1)); inversion X; auto.
  - eexists. split; [reflexivity|]. split; [exact A|]. split; [exact B|]. exact C.
Qed.

Lemma spec_aug : forall x op e, stmt_spec oracle (SAug x op e).
Proof.
  intros x op e bb j g n r s' F V O Nb Ne J. simpl in F.
  simpl in V. unfold bind in V. rewrite build_lift_free in V by auto. simpl in V.
  inversion V; subst; clear V.
  destruct (push_normal (SAug x op e) (SAug x op (fold_neg e)) bb j g O Nb) as (A&B&C).
  - intros st. exact (fold_neg_exec_simple oracle (SAug x op e) st).
  - intros f st. reflexivity.
  - intros st st1 rv X. simpl in X. destruct (fst st (VU x)) as [vx|]; try discriminate.
    destruct (eval oracle e st) as [[v s1]| |]; simpl in X; try discriminate.
    destruct (eval_binop op vx v); inversion X; auto.
  - eexists. split; [reflexivity|]. split; [exact A|]. split; [exact B|]. exact C.
Qed.

Lemma spec_expr : forall e, stmt_spec oracle (SExpr e).
Proof.
  intros e bb j g n r s' F V O Nb Ne J. simpl in F.
  simpl in V. unfold bind in V. rewrite build_lift_free in V by auto. simpl in V.
  destruct (is_tmp_name (fold_neg e)) eqn:T.
  - (* a bare temporary: not added to the block; evaluating a name has no effect *)
    simpl in V. inversion V; subst; clear V. destruct (is_tmp_fold e T) as (m&->).
    exists g. split; auto. split; [apply grows_refl|]. split; [simpl; auto|].
    intros G E fuel st o st' ret X. destruct fuel; simpl in X; try discriminate.
    destruct (fst st (VT m)); simpl in X; try discriminate. inversion X; subst.
    simpl. exists bb. split; auto. constructor.
  - simpl in V. inversion V; subst; clear V.
    destruct (push_normal (SExpr e) (SExpr (fold_neg e)) bb j g O Nb) as (A&B&C).
    + intros st. exact (fold_neg_exec_simple oracle (SExpr e) st).
    + intros f st. reflexivity.
    + intros st st1 rv X. simpl in X. destruct (eval oracle e st) as [[v s1]| |]; simpl in X; try discriminate.
      inversion X; auto.
    + eexists. split; [reflexivity|]. split; [exact A|]. split; [exact B|]. exact C.
Qed.

Lemma spec_pass : stmt_spec oracle SPass.
Proof.
  intros bb j g n r s' F V O Nb Ne J. simpl in V. inversion V; subst; clear V.
  exists g. split; auto. split; [apply grows_refl|]. split; [simpl; auto|].
  intros G E fuel st o st' ret X. destruct fuel; simpl in X; try discriminate. inversion X; subst.
  simpl. exists bb. split; auto. constructor.
Qed.

Lemma spec_return : forall e, stmt_spec oracle (SReturn e).
Proof.
  intros e bb j g n r s' F V O Nb Ne J. simpl in F.
  destruct e as [e|].
  - simpl in V. unfold bind in V. rewrite build_lift_free in V by auto. simpl in V.
    inversion V; subst; clear V.
    destruct (push_return (SReturn (Some e)) (SReturn (Some (fold_neg e))) bb j g O Nb) as (A&C).
    + intros st. exact (fold_neg_exec_simple oracle (SReturn (Some e)) st).
    + intros f st. reflexivity.
    + intros st st1 rv X. simpl in X. destruct (eval oracle e st) as [[v s1]| |]; simpl in X; try discriminate.
      inversion X; congruence.
    + eexists. split; [reflexivity|]. split; [exact A|]. split; [simpl; auto|]. exact C.
  - simpl in V. inversion V; subst; clear V.
    destruct (push_return (SReturn None) (SReturn None) bb j g O Nb) as (A&C).
    + auto.
    + intros f st. reflexivity.
    + intros st st1 rv X. simpl in X. inversion X; congruence.
    + eexists. split; [reflexivity|]. split; [exact A|]. split; [simpl; auto|]. exact C.
Qed.

Lemma spec_break : stmt_spec oracle SBreak.
Proof.
  intros bb j g n r s' F V O Nb Ne J. simpl in V.
  destruct (j_brk j) as [b|] eqn:JB; [|discriminate]. simpl in V. inversion V; subst; clear V.
  eexists. split; [reflexivity|]. split; [apply grows_link; auto|]. split; [simpl; auto|].
  intros G E fuel st o st' ret X. destruct fuel; simpl in X; try discriminate. inversion X; subst.
  simpl. exists b. split; auto. apply link_jump; auto.
Qed.

Lemma spec_continue : stmt_spec oracle SContinue.
Proof.
  intros bb j g n r s' F V O Nb Ne J. simpl in V.
  destruct (j_cont j) as [b|] eqn:JB; [|discriminate]. simpl in V. inversion V; subst; clear V.
  eexists. split; [reflexivity|]. split; [apply grows_link; auto|]. split; [simpl; auto|].
  intros G E fuel st o st' ret X. destruct fuel; simpl in X; try discriminate. inversion X; subst.
  simpl. exists b. split; auto. apply link_jump; auto.
Qed.
End StmtB.
