(** C03 — lifted expressions, part E: and/or and chained comparison as values
    ([ExprBuilder.generic_visit] for short-circuit expressions) and the combination of all
    expression cases: [lift_all]. *)
From Coq Require Import ZArith List Bool Lia.
From V.C03 Require Import PyAst PySem Cfg CfgSem Builder Frag Lift ProofsBase ProofsExpr ProofsBranch
  ProofsStmtA ProofsStmtB ProofsSim ProofsLiftA ProofsLiftB ProofsLiftC ProofsLiftD ProofsLiftChain.
Import ListNotations.

Section LiftE.
Variable oracle : trace -> nat -> list val -> val.

Lemma xspec_lift : forall e,
  (forall bb s, build_expr e bb s = lift_bool (build_branch e) bb s) ->
  bspec oracle e ->
  (lsafe_val e = true -> boolish e = true /\ lsafe_cond e = true) ->
  xspec oracle e.
Proof.
  intros e EqB Hb HL bb g n e' bb' s' B LS N O Nb Ne.
  destruct (HL LS) as (BO&LC).
  rewrite EqB in B. unfold lift_bool in B.
  apply bind_inv in B. destruct B as (tb&s1&B1&B). unfold new_bb in B1; simpl in B1; inversion B1; subst; clear B1.
  apply bind_inv in B. destruct B as (fb&s1&B1&B). unfold new_bb in B1; simpl in B1; inversion B1; subst; clear B1.
  apply bind_inv in B. destruct B as ([]&s3&B3&B).
  set (g1 := g ++ [empty_block]) in *. set (gg := g1 ++ [empty_block]) in *.
  assert (LL1: length g1 = S (length g)) by (unfold g1; rewrite app_length; simpl; lia).
  assert (LG: length gg = S (S (length g))) by (unfold gg; rewrite app_length; simpl; lia).
  rewrite LL1 in B3.
  destruct (opn_app g bb empty_block O) as (O1&SL1). fold g1 in O1, SL1.
  destruct (opn_app g1 bb empty_block O1) as (O2&SL2). fold gg in O2, SL2.
  destruct (opn_new g) as (OT&SLT). fold g1 in OT, SLT.
  destruct (opn_app g1 (length g) empty_block OT) as (OT2&SLT2). fold gg in OT2, SLT2.
  destruct (opn_new g1) as (OE&SLE). fold gg in OE, SLE. rewrite LL1 in OE, SLE.
  pose proof O as (Lb&_&_). unfold exit_idx in *.
  destruct (Hb bb (length g) (S (length g)) gg n s3 B3 LC N O2 Nb) as (g3&n3&->&Gr3&Ln3&Sem3); try (unfold exit_idx; lia).
  pose proof (grows_length _ _ _ Gr3) as LL3.
  destruct (opn_after _ _ _ (length g) Gr3 OT2) as (OT3&SLT3); [lia|].
  destruct (opn_after _ _ _ (S (length g)) Gr3 OE) as (OE3&SLE3); [lia|].
  unfold bind, fresh_tmp, add_stmt, new_bb, link, modify, ret in B. simpl in B. inversion B; subst; clear B.
  set (sT := tmp_assign n3 (EConst (CBool true))) in *. set (sF := tmp_assign n3 (EConst (CBool false))) in *.
  destruct (merge_two oracle g3 (length g) (S (length g)) sT sF OT3 OE3) as (GrM&OM&SLM&LM&ExtM&SemM);
    try (unfold exit_idx; lia).
  rewrite !upd_nth_length in *. rewrite !LL1.
  assert (G03: grows g bb g3).
  { eapply grows_trans_gen; [| exact Gr3 | left; reflexivity].
    eapply grows_trans_gen; [apply grows_new | apply grows_new | left; reflexivity]. }
  eexists _, (S n3). split; [reflexivity|].
  split. { apply GrM; [exact G03 | right; lia | right; lia]. }
  split; [lia|]. split; [exact OM|]. split; [unfold exit_idx; lia|]. split; [right; lia|].
  intros G E stc stp v stp1 ret Ssim X.
  destruct (SemM G E) as (TailA&TailB).
  assert (E3: ext g3 G) by (eapply ext_trans; [exact ExtM | exact E]).
  destruct (boolish_val oracle e BO stp v stp1 X) as (t0&->).
  assert (XT: eval_truth oracle e stp = Done (t0, stp1)) by (unfold eval_truth; rewrite X; reflexivity).
  destruct (Sem3 G E3 stc stp t0 stp1 ret Ssim XT) as (stc'&T1&S1&M1&P1). rewrite SL2, SL1 in T1.
  set (stf := (upd (fst stc') (VT n3) (VBool t0), snd stc')).
  assert (Tl: steps oracle G (mkConfig (if t0 then length g else S (length g)) 0 stc' ret)
                             (mkConfig (length g3) 0 stf ret)).
  { destruct t0.
    - pose proof (TailA stc' stf ret (tmp_assign_exec oracle n3 (EConst (CBool true)) stc' (VBool true) stc' eq_refl)) as T. rewrite SLT3, SLT2, SLT in T. exact T.
    - pose proof (TailB stc' stf ret (tmp_assign_exec oracle n3 (EConst (CBool false)) stc' (VBool false) stc' eq_refl)) as T. rewrite SLE3, SLE in T. exact T. }
  rewrite SLM.
  exists stf. split; [eapply steps_trans; eauto|]. split.
  { apply (mods_from_sim oracle e stc stp (VBool t0) stp1 stf n (S n3) Ssim (sim_upd_tmp _ _ n3 (VBool t0) S1) X).
    intros k Nk. unfold stf. simpl. unfold upd. simpl.
    destruct (Nat.eqb_spec n3 k); [lia|]. destruct M1 as (_&MT). apply MT. lia. }
  split.
  { exists stf. split; [apply tmp_lookup | apply sim_upd_tmp; exact S1]. }
  intros Pe. split; [unfold stf; simpl; apply P1; auto|].
  intros stx (_&AT). simpl. rewrite (AT n3) by lia. unfold stf. simpl. unfold upd. simpl.
  rewrite Nat.eqb_refl. reflexivity.
Qed.

Theorem lift_all :
  (forall e, xspec oracle e /\ bspec oracle e) /\
  (forall es, xlspec oracle es) /\
  (forall t, match t with CLast _ r => xspec oracle r /\ bspec oracle r | CMore _ _ _ => True end /\
             ctspec2 oracle t /\ (forall op m r', t = CMore op m r' -> ctspec2 oracle r')).
Proof.
  apply expr_mutind.
  - intros c. split; [apply xspec_const|].
    destruct c; try (apply bspec_leaf; [reflexivity | apply xspec_const]). apply bspec_of_frag. reflexivity.
  - intros x. split; [apply xspec_name | apply bspec_leaf; [reflexivity | apply xspec_name]].
  - intros op e (X&B). assert (XU: xspec oracle (EUnary op e)) by (apply xspec_unary; auto).
    split; auto. destruct op; try (apply bspec_leaf; [reflexivity | exact XU]). apply bspec_not; auto.
  - intros op a (Xa&_) b (Xb&_). assert (XB: xspec oracle (EBin op a b)) by (apply xspec_bin; auto).
    split; auto. apply bspec_leaf; [reflexivity | exact XB].
  - intros l (Xl&_) rest IH. destruct rest as [op r | op m rest].
    + destruct IH as ((Xr&_)&_). assert (XC: xspec oracle (ECmp l (CLast op r))) by (apply xspec_cmp1; auto).
      split; auto. apply bspec_leaf; [reflexivity | exact XC].
    + destruct IH as (_&_&CT). pose proof (CT op m rest eq_refl) as CR.
      assert (BC: bspec oracle (ECmp l (CMore op m rest))) by (apply bspec_chain2; auto).
      split; [|exact BC].
      apply xspec_lift; [reflexivity | exact BC |]. intros H. split; [reflexivity | exact H].
  - intros op a (_&Ba) b (_&Bb). assert (BB: bspec oracle (EBool op a b)) by (apply bspec_bool; auto).
    split; auto. apply xspec_lift; [reflexivity | exact BB |].
    intros H. simpl in H. apply andb_prop in H. destruct H as [H Lb]. apply andb_prop in H. destruct H as [H La].
    split; [exact H | simpl; rewrite La, Lb; reflexivity].
  - intros c (_&Bc) a (Xa&Ba) b (Xb&Bb). split; [apply xspec_if; auto | apply bspec_if; auto].
  - intros x e (X&_). assert (XW: xspec oracle (EWalrus x e)) by (apply xspec_walrus; auto).
    split; auto. apply bspec_leaf; [reflexivity | exact XW].
  - intros f args XL. assert (XC: xspec oracle (ECall f args)) by (apply xspec_call; auto).
    split; auto. apply bspec_leaf; [reflexivity | exact XC].
  - intros es XL. assert (XT: xspec oracle (ETuple es)) by (apply xspec_tuple; auto).
    split; auto. apply bspec_leaf; [reflexivity | exact XT].
  - apply xlspec_nil.
  - intros e (X&_) es XL. apply xlspec_cons; auto.
  - intros op e (X&B). split; [split; auto|]. split; [apply ctspec2_last; exact X|]. intros; discriminate.
  - intros op e _ rest (_&CT&_). split; [exact I|]. split; [apply ctspec2_more; exact CT|].
    intros op0 m0 r' Eq. inversion Eq; subst. exact CT.
Qed.
End LiftE.
