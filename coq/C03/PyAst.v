(** C03 — abstract syntax of the classical Python fragment (reused by C05/C32/C02/C08).

    Variables: [VU n] is the user variable printed [v<n>]; [VT n] is the builder temporary
    [%tmp<n>] (cannot be written in Python source, so the two name spaces are disjoint).
    Function names: [f<n>] (uninterpreted, effectful).

    Flat Python [BoolOp(op, [a; b; c])] is represented right-nested [EBool op a (EBool op b c)]
    (that is literally what [BranchBuilder.visit_BoolOp] rewrites it to); the printer in
    props/C03/pygen.py prints right-nested same-operator chains flat (and sometimes with
    parentheses) so both parser shapes reach the builder.
    A comparison [l op1 e1 op2 e2 ...] is [ECmp l tail] with a non-empty tail. *)
From Coq Require Import ZArith List Bool.
Import ListNotations.

Inductive var := VU (n : nat) | VT (n : nat).
Inductive const := CInt (z : Z) | CBool (b : bool) | CNone.
Inductive unop := UNot | UNeg | UPos | UInvert.
Inductive binop := BAdd | BSub | BMul | BFloorDiv | BMod | BBitAnd | BBitOr | BBitXor.
Inductive cmpop := CEq | CNe | CLt | CLe | CGt | CGe.
Inductive boolop := BoAnd | BoOr.

Inductive expr :=
| EConst (c : const)
| EName (x : var)
| EUnary (op : unop) (e : expr)
| EBin (op : binop) (a b : expr)
| ECmp (l : expr) (rest : ctail)
| EBool (op : boolop) (a b : expr)
| EIf (c a b : expr)                 (* a if c else b *)
| EWalrus (x : nat) (e : expr)       (* (v<x> := e) *)
| ECall (f : nat) (args : exprs)
| ETuple (es : exprs)
with exprs := ENil | ECons (e : expr) (es : exprs)
with ctail := CLast (op : cmpop) (e : expr) | CMore (op : cmpop) (e : expr) (rest : ctail).

Scheme expr_mut := Induction for expr Sort Prop
  with exprs_mut := Induction for exprs Sort Prop
  with ctail_mut := Induction for ctail Sort Prop.
Combined Scheme expr_mutind from expr_mut, exprs_mut, ctail_mut.

Inductive target := TName (x : var) | TTuple (xs : list nat).

Inductive stmt :=
| SAssign (t : target) (e : expr)
| SAug (x : nat) (op : binop) (e : expr)
| SExpr (e : expr)
| SIf (c : expr) (body orelse : stmts)
| SWhile (c : expr) (body orelse : stmts)
| SBreak | SContinue | SPass
| SReturn (e : option expr)
with stmts := SNil | SCons (s : stmt) (ss : stmts).

Scheme stmt_mut := Induction for stmt Sort Prop
  with stmts_mut := Induction for stmts Sort Prop.
Combined Scheme stmt_mutind from stmt_mut, stmts_mut.

Fixpoint stmts_of_list (l : list stmt) : stmts :=
  match l with [] => SNil | s :: r => SCons s (stmts_of_list r) end.
Fixpoint exprs_of_list (l : list expr) : exprs :=
  match l with [] => ENil | s :: r => ECons s (exprs_of_list r) end.
Fixpoint list_of_exprs (l : exprs) : list expr :=
  match l with ENil => [] | ECons e r => e :: list_of_exprs r end.

Definition var_eqb (a b : var) : bool :=
  match a, b with
  | VU n, VU m => Nat.eqb n m
  | VT n, VT m => Nat.eqb n m
  | _, _ => false
  end.

(** Expressions on which [ExprBuilder] creates no block and no temporary: no BoolOp, no
    conditional expression, no chained comparison, no walrus anywhere inside. *)
Fixpoint lift_free (e : expr) : bool :=
  match e with
  | EConst _ | EName _ => true
  | EUnary _ a => lift_free a
  | EBin _ a b => lift_free a && lift_free b
  | ECmp l (CLast _ r) => lift_free l && lift_free r
  | ECmp _ (CMore _ _ _) => false
  | EBool _ _ _ | EIf _ _ _ | EWalrus _ _ => false
  | ECall _ args => lift_free_list args
  | ETuple es => lift_free_list es
  end
with lift_free_list (es : exprs) : bool :=
  match es with ENil => true | ECons e r => lift_free e && lift_free_list r end.
