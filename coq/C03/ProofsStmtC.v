(** C03 — statement level, part C: statement lists (visit_stmts), including the dummy
    blocks created for code after a jump. *)
From Coq Require Import ZArith List Bool Lia.
From V.C03 Require Import PyAst PySem Cfg CfgSem Builder Frag ProofsBase ProofsExpr ProofsBranch ProofsStmtA.
Import ListNotations.

Lemma opn_dummy : forall g p n x, opn g x ->
  opn (upd_nth p (add_dummy n) g) x /\ slen (upd_nth p (add_dummy n) g) x = slen g x.
Proof.
  unfold opn, slen. intros g p n x (L&S&P). rewrite upd_nth_length.
  destruct (Nat.eq_dec p x).
  - subst. rewrite blk_upd_same by auto. simpl. auto.
  - rewrite blk_upd_other by auto. auto.
Qed.

Section StmtC.
Variable oracle : trace -> nat -> list val -> val.

Lemma spec_nil : stmts_spec oracle SNil.
Proof.
  intros prev cur j g n r s' F V Ne CO. simpl in V. inversion V; subst; clear V.
  exists g. split; auto. split; [apply grows_refl|]. split.
  - destruct r; simpl in *; auto. destruct CO as (A&B&C). auto.
  - intros bb -> G E fuel st o st' ret X. destruct fuel; simpl in X; try discriminate.
    inversion X; subst. simpl. exists bb. split; auto. constructor.
Qed.

Lemma cons_some : forall s r, stmt_spec oracle s -> stmts_spec oracle r ->
  forall bb j g n rr s', frag_stmts (SCons s r) = true ->
  (LET r1 <- visit_stmt s bb j IN visit_stmts r bb r1 j) (mkB g n) = BOk rr s' ->
  exit_idx < length g -> opn g bb -> bb <> exit_idx -> jok g bb j ->
  exists g', s' = mkB g' n /\ grows g bb g' /\ rok g bb g' rr /\
    forall G, ext g' G -> forall fuel st o st' ret,
      exec_list oracle fuel (SCons s r) st = Done (o, st') ->
      osteps oracle G (mkConfig bb (slen g bb) st ret) j g' rr o st'.
Proof.
  intros s r Hs Hr bb j g n rr s' F V Ne O Nb J.
  simpl in F. apply andb_prop in F. destruct F as [F1 F2].
  apply bind_inv in V. destruct V as (r1&s1&V1&V2).
  destruct (Hs bb j g n r1 s1 F1 V1 O Nb Ne J) as (g1&->&Gr1&R1&Sem1).
  pose proof (grows_length _ _ _ Gr1) as L1.
  assert (CO1: cur_ok g1 r1 j).
  { destruct r1 as [b1|]; simpl in *.
    - destruct R1 as (A&B&C). split; [exact A|]. split; [exact B|]. eapply jok_mono; eauto.
    - eapply jok_mono; eauto. }
  assert (D1: cb g1 r1 = bb \/ length g <= cb g1 r1).
  { destruct r1 as [b1|]; simpl in *; [destruct R1 as (_&_&C); auto | right; lia]. }
  destruct (Hr bb r1 j g1 n rr s' F2 V2) as (g2&->&Gr2&R2&Sem2); [lia | auto |].
  exists g2. split; auto. split; [eapply grows_trans_gen; eauto|]. split.
  - destruct rr as [b'|]; simpl in *; auto. destruct R2 as (A&B&C). split; [exact A|]. split; [exact B|].
    destruct C as [C|C]; [rewrite C; exact D1 | right; lia].
  - intros G E fuel st o st' ret X.
    assert (E1: ext g1 G) by (eapply ext_trans; [eapply grows_ext; eauto | auto]).
    destruct fuel; simpl in X; try discriminate.
    destruct (exec oracle fuel s st) as [[o1 st1]| |] eqn:X1; simpl in X; try discriminate.
    pose proof (Sem1 G E1 fuel st o1 st1 ret X1) as T1.
    destruct o1.
    + simpl in T1. destruct T1 as (b1&->&T1).
      eapply osteps_prefix; [exact T1 | reflexivity |]. eapply Sem2; eauto.
    + inversion X; subst. exact T1.
    + inversion X; subst. exact T1.
    + inversion X; subst. exact T1.
Qed.

Lemma spec_cons : forall s r, stmt_spec oracle s -> stmts_spec oracle r -> stmts_spec oracle (SCons s r).
Proof.
  intros s r Hs Hr prev cur j g n rr s' F V Ne CO.
  destruct cur as [bb|].
  - simpl in CO. destruct CO as (O&Nb&J).
    assert (V' : (LET r1 <- visit_stmt s bb j IN visit_stmts r bb r1 j) (mkB g n) = BOk rr s') by exact V.
    destruct (cons_some s r Hs Hr bb j g n rr s' F V' Ne O Nb J) as (g'&->&A&B&C).
    exists g'. split; auto. split; auto. split; auto.
    intros bb0 Eq. inversion Eq; subst. exact C.
  - simpl in CO. simpl in V.
    set (b := length g) in *. set (g1 := upd_nth prev (add_dummy b) (g ++ [empty_block])).
    assert (V' : (LET r1 <- visit_stmt s b j IN visit_stmts r b r1 j) (mkB g1 n) = BOk rr s') by exact V.
    destruct (opn_new g) as (O0&_). fold b in O0.
    destruct (opn_dummy (g ++ [empty_block]) prev b b O0) as (O1&_). fold g1 in O1.
    assert (LA: length g1 = S (length g)) by (unfold g1; rewrite upd_nth_length, app_length; simpl; lia).
    assert (G01: grows g b g1).
    { eapply grows_trans_gen; [apply grows_new | apply grows_dummy | left; reflexivity]. }
    assert (J1: jok g1 b j) by (eapply jok_mono; [exact CO | lia | left; reflexivity]).
    destruct (cons_some s r Hs Hr b j g1 n rr s' F V') as (g'&->&A&B&C); auto; try (unfold b, exit_idx in *; lia).
    exists g'. split; auto. split; [eapply grows_trans_gen; [exact G01 | exact A | left; reflexivity]|].
    split.
    + simpl. destruct rr as [b'|]; simpl in *; auto. destruct B as (B1&B2&B3). split; [exact B1|]. split; [exact B2|].
      destruct B3; [left; auto | right; lia].
    + intros bb Eq. discriminate.
Qed.
End StmtC.
