(** C03 — Classical control and data flow behave as in Python (decided on the compiler side:
    the CFG that guppylang's CFGBuilder produces, run by the CFG semantics of CfgSem.v,
    against the Python semantics PySem.v of the source).

    Full-strength statement ([build_preserves], DESIGN A.2): for every program p of PyAst the
    builder accepts, every oracle, store and fuel on which Python terminates normally,
    [run_cfg (build p)] terminates with the same value, user variables and call trace.
    The faithful builder model REFUTES it ([build_preserves_refuted_*], witnesses replayed on
    the real CFGBuilder by check.py).

    PROVED: [build_preserves_partial] — for every function body of the decidable fragment
    [frag_stmts] (Frag.v): assignments to names and tuples of names, augmented assignments,
    expression statements and return with lift-free expressions (no and/or, conditional
    expression, walrus or chained comparison in value position); if/elif/else, while, break,
    continue, pass, return, nested arbitrarily, unreachable code after jumps included; branch
    conditions in [frag_cond] (not/and/or/conditional expressions over lift-free leaves,
    True/False constants, and chained comparisons whose operands are lift-free and whose middle
    operands are also call-free) — for every oracle, initial state and fuel on which the Python
    semantics terminates normally (return or falling off the end), the CFG that the model of
    CFGBuilder.build produces (after update_reachable and pruning) runs from the entry block
    to the exit block with the same returned value, the same store and the same call trace;
    and every terminating run of that CFG gives that result ([build_preserves_partial_unique]).
    Supporting theorems: [expr_builder_preserves_partial], [branch_build_preserves_partial].
    NOT PROVED: lifted expressions (and/or/conditional expression/walrus/chained comparison in
    value position, the [safe_stmts] fragment of DESIGN A.2) and chained comparisons whose last
    operand is lifted; these are covered by the CFG-equality tie and the semantic search only. *)
From Coq Require Import ZArith List Bool.
From V.C03 Require Import PyAst PySem Cfg CfgSem Builder Encode Frag Witness ProofsRefute ProofsBase ProofsExpr ProofsBranch ProofsBuild ProofsLoopElse Lift ProofsSim ProofsLiftA ProofsLiftC ProofsLiftE ProofsLBuild Unpack GenUnpack ProofsUnpack.
Import ListNotations.

(* v1 = (v0 + (v0 := 5)): Python adds the old v0, the CFG computes 5 + 5 *)
Theorem build_preserves_refuted_walrus : refutes w_walrus.
Proof. apply refutes_b_sound. vm_compute. reflexivity. Qed.
Print Assumptions build_preserves_refuted_walrus.

(* v1 = (f0() + (f2() if v3 else f0(1))): the conditional expression runs before f0() *)
Theorem build_preserves_refuted_ifexp_order : refutes w_ifexp.
Proof. apply refutes_b_sound. vm_compute. reflexivity. Qed.
Print Assumptions build_preserves_refuted_ifexp_order.

(* v1 = (f0() + (v3 and f1())): the BoolOp runs before f0() *)
Theorem build_preserves_refuted_boolop_order : refutes w_boolop.
Proof. apply refutes_b_sound. vm_compute. reflexivity. Qed.
Print Assumptions build_preserves_refuted_boolop_order.

(* if ((-5) < f0() < 9): ... : f0 is called twice *)
Theorem build_preserves_refuted_chain_dup : refutes w_chain.
Proof. apply refutes_b_sound. vm_compute. reflexivity. Qed.
Print Assumptions build_preserves_refuted_chain_dup.

(* v1 = (v2 and 3): Python yields 3, the CFG yields True *)
Theorem build_preserves_refuted_boolop_value : refutes w_boolval.
Proof. apply refutes_b_sound. vm_compute. reflexivity. Qed.
Print Assumptions build_preserves_refuted_boolop_value.

(* v1 += (v1 := 5): Python reads the old v1 first *)
Theorem build_preserves_refuted_augassign : refutes w_aug.
Proof. apply refutes_b_sound. vm_compute. reflexivity. Qed.
Print Assumptions build_preserves_refuted_augassign.

(* ExprBuilder on lift-free expressions: no block, no temporary, same Python meaning *)
Theorem expr_builder_preserves_partial : forall e bb s oracle st, lift_free e = true ->
  exists e', build_expr e bb s = BOk (e', bb) s /\ eval oracle e' st = eval oracle e st.
Proof.
  intros e bb s oracle st H. exists (fold_neg e).
  split; [exact (build_lift_free e H bb s) | apply fold_neg_eval].
Qed.
Print Assumptions expr_builder_preserves_partial.

(* BranchBuilder.add_branch on the fragment frag_cond.  [branch_spec oracle e] (ProofsBranch.v) reads:
     forall bb t f g n s',
       build_branch e bb t f (mkB g n) = BOk tt s' ->
       opn g bb -> bb <> exit_idx -> exit_idx < length g -> t < length g -> f < length g -> t <> bb -> f <> bb ->
       exists g', s' = mkB g' n /\ grows g bb g' /\
         forall G, ext g' G -> forall st b st' ret, eval_truth oracle e st = Done (b, st') ->
           steps oracle G (mkConfig bb (slen g bb) st ret) (mkConfig (if b then t else f) 0 st' ret)
   i.e. in every graph G extending the builder's result, from the end of the current block bb control
   reaches the true target t (resp. false target f) at position 0 with exactly Python's state/trace. *)
Theorem branch_build_preserves_partial : forall oracle e, frag_cond e = true ->
  forall bb t f g n s',
  build_branch e bb t f (mkB g n) = BOk tt s' ->
  opn g bb -> bb <> exit_idx -> exit_idx < length g -> t < length g -> f < length g -> t <> bb -> f <> bb ->
  exists g', s' = mkB g' n /\ grows g bb g' /\
    forall G, ext g' G -> forall st b st' ret, eval_truth oracle e st = Done (b, st') ->
      steps oracle G (mkConfig bb (slen g bb) st ret) (mkConfig (if b then t else f) 0 st' ret).
Proof. intros oracle e H. exact (branch_ok oracle e H). Qed.
Print Assumptions branch_build_preserves_partial.

(* the hypotheses are satisfiable on a non-trivial instance:
   not (v0 < 1 and (v1 or (True if v2 == 3 else f1(v0)))), current block 0, targets 2 and 3 *)
Definition ex_cond : expr :=
  EUnary UNot (EBool BoAnd (ECmp (v 0) (CLast CLt (i 1)))
    (EBool BoOr (v 1) (EIf (ECmp (v 2) (CLast CEq (i 3))) (EConst (CBool true)) (ECall 1 (ECons (v 0) ENil))))).
Definition ex_graph : list block := [empty_block; empty_block; empty_block; empty_block].
Example branch_hypotheses_satisfiable :
  frag_cond ex_cond = true /\
  (exists s', build_branch ex_cond 0 2 3 (mkB ex_graph 0) = BOk tt s' /\ length (bs_blocks s') = 8) /\
  opn ex_graph 0 /\ exit_idx < length ex_graph /\
  (exists st', eval_truth test_oracle ex_cond st0 = Done (false, st')).
Proof.
  split. { reflexivity. }
  split. { eexists; split; vm_compute; reflexivity. }
  split. { unfold opn; simpl; repeat split; auto. }
  split. { unfold exit_idx; simpl; repeat constructor. }
  eexists. vm_compute. reflexivity.
Qed.

(* ---------------------------------------------------------------------------------------- *)
(* the statement-level theorem: CFGBuilder.build preserves the Python meaning on frag_stmts *)
Theorem build_preserves_partial : forall oracle p returns_none g s,
  frag_stmts p = true -> build p returns_none = BOk g s ->
  forall fuel st v st', exec_py oracle fuel p st = Done (v, st') ->
  exists fuel', run_cfg oracle g fuel' st = Done (v, st').
Proof. exact build_preserves_frag. Qed.
Print Assumptions build_preserves_partial.

(* ... and the CFG cannot terminate with anything else *)
Theorem build_preserves_partial_unique : forall oracle p returns_none g s,
  frag_stmts p = true -> build p returns_none = BOk g s ->
  forall fuel st v st', exec_py oracle fuel p st = Done (v, st') ->
  forall fuel' r, run_cfg oracle g fuel' st = Done r -> r = (v, st').
Proof.
  intros oracle p rn g s F B fuel st v st' X fuel' r R.
  destruct (build_preserves_frag oracle p rn g s F B fuel st v st' X) as (f2&R2).
  unfold run_cfg in *. eapply run_done_unique; eauto.
Qed.
Print Assumptions build_preserves_partial_unique.

(* the hypotheses are satisfiable on a non-trivial program:
     while (-1 <= v0 < 3) and (not (v0 == v1)):
         v0 += 1
         if ((v0 == 2) if v3 else (v0 == 1)):
             continue
         elif v2:
             break
         f0(v0)
     return (v0, v1)
     v2 = 5                                                                     *)
Definition ex_prog : stmts :=
  SCons (SWhile (EBool BoAnd (ECmp (EUnary UNeg (i 1)) (CMore CLe (v 0) (CLast CLt (i 3)))) (EUnary UNot (ECmp (v 0) (CLast CEq (v 1)))))
           (SCons (SAug 0 BAdd (i 1))
           (SCons (SIf (EIf (v 3) (ECmp (v 0) (CLast CEq (i 2))) (ECmp (v 0) (CLast CEq (i 1))))
                       (one SContinue)
                       (one (SIf (v 2) (one SBreak) SNil)))
           (one (SExpr (ECall 0 (ECons (v 0) ENil)))))) SNil)
  (SCons (SReturn (Some (ETuple (ECons (v 0) (ECons (v 1) ENil)))))
  (one (SAssign (TName (VU 2)) (i 5)))).
Example build_hypotheses_satisfiable :
  frag_stmts ex_prog = true /\
  (exists g s, build ex_prog false = BOk g s /\ length g = 14) /\
  (exists st', exec_py test_oracle 30 ex_prog st0 = Done (VTuple [VInt 1; VInt 1], st')).
Proof.
  split. { reflexivity. }
  split. { eexists. eexists. split; vm_compute; reflexivity. }
  eexists. vm_compute. reflexivity.
Qed.

(* accepted bodies carry no loop else suite (any expressions; reused by C32) *)
Theorem build_accepts_no_loop_else_thm : forall p returns_none g s,
  build p returns_none = BOk g s -> no_loop_else_list p = true.
Proof. exact build_accepts_no_loop_else. Qed.
Print Assumptions build_accepts_no_loop_else_thm.

(* ---------------------------------------------------------------------------------------- *)
(* Lifted expressions (and/or as values, conditional expressions, walrus, chained comparison as a
   value) on the decidable fragment [lsafe_val] / [lsafe_cond] of Lift.v (= order_safe of DESIGN
   A.2 with lift-free chain operands), for sources without %tmp names ([nt]).  The CFG state
   [stc] and the Python state [stp] are related by [sim]: same call trace, same user variables
   (temporaries are free).

   ExprBuilder.build: the blocks the builder adds run from the end of block bb to the end of
   block bb' (Python's order of the lifted parts), changing only walrus targets and the new
   temporaries n..n'; evaluating the residual expression e' there yields Python's value and a
   related state. *)
Theorem expr_build_preserves_safe_partial : forall oracle e bb g n e' bb' s',
  build_expr e bb (mkB g n) = BOk (e', bb') s' ->
  lsafe_val e = true -> nt e = true -> opn g bb -> bb <> exit_idx -> exit_idx < length g ->
  exists g' n', s' = mkB g' n' /\ grows g bb g' /\ n <= n' /\ opn g' bb' /\
    forall G, ext g' G -> forall stc stp v stp1 ret,
      sim stc stp -> eval oracle e stp = Done (v, stp1) ->
      exists stm, steps oracle G (mkConfig bb (slen g bb) stc ret) (mkConfig bb' (slen g' bb') stm ret) /\
        mods (wtargets e) n n' stc stm /\
        exists stc1, eval oracle e' stm = Done (v, stc1) /\ sim stc1 stp1.
Proof.
  intros oracle e bb g n e' bb' s' B LS N O Nb Ne.
  destruct (proj1 (proj1 (lift_all oracle) e) bb g n e' bb' s' B LS N O Nb Ne) as (g'&n'&Eq&Gr&Ln&O'&_&_&Sem).
  exists g', n'. repeat (split; auto).
  intros G E stc stp v stp1 ret S X.
  destruct (Sem G E stc stp v stp1 ret S X) as (stm&T&M&R&_). exists stm. auto.
Qed.
Print Assumptions expr_build_preserves_safe_partial.

(* BranchBuilder.add_branch on conditions whose leaves may contain lifted expressions *)
Theorem branch_build_preserves_safe_partial : forall oracle e bb t f g n s',
  build_branch e bb t f (mkB g n) = BOk tt s' ->
  lsafe_cond e = true -> nt e = true ->
  opn g bb -> bb <> exit_idx -> exit_idx < length g -> t < length g -> f < length g -> t <> bb -> f <> bb ->
  exists g' n', s' = mkB g' n' /\ grows g bb g' /\ n <= n' /\
    forall G, ext g' G -> forall stc stp b stp' ret,
      sim stc stp -> eval_truth oracle e stp = Done (b, stp') ->
      exists stc', steps oracle G (mkConfig bb (slen g bb) stc ret) (mkConfig (if b then t else f) 0 stc' ret) /\
        sim stc' stp'.
Proof.
  intros oracle e bb t f g n s' B LS N O Nb Ne Lt Lf Nt Nf.
  destruct (proj2 (proj1 (lift_all oracle) e) bb t f g n s' B LS N O Nb Ne Lt Lf Nt Nf) as (g'&n'&Eq&Gr&Ln&Sem).
  exists g', n'. repeat (split; auto).
  intros G E stc stp b stp' ret S X.
  destruct (Sem G E stc stp b stp' ret S X) as (stc'&T&S'&_). exists stc'. auto.
Qed.
Print Assumptions branch_build_preserves_safe_partial.

(* satisfiable on: f0(v1 if v0 < 3 else (v1 != 0 and v0 == 1), (v0 < v1 < 9) or ((v2 := v3) == 1)) *)
Definition ex_lifted : expr :=
  ECall 0 (ECons (EIf (ECmp (v 0) (CLast CLt (i 3))) (v 1)
                      (EBool BoAnd (ECmp (v 1) (CLast CNe (i 0))) (ECmp (v 0) (CLast CEq (i 1)))))
          (ECons (EBool BoOr (ECmp (v 0) (CMore CLt (v 1) (CLast CLt (i 9))))
                             (ECmp (EWalrus 2 (v 3)) (CLast CEq (i 1)))) ENil)).
Example lifted_hypotheses_satisfiable :
  lsafe_val ex_lifted = true /\ nt ex_lifted = true /\ lift_free ex_lifted = false /\
  (exists r s', build_expr ex_lifted 0 (mkB [empty_block; empty_block] 0) = BOk r s') /\
  (exists v st', eval test_oracle ex_lifted st0 = Done (v, st')).
Proof.
  split. { reflexivity. } split. { reflexivity. } split. { reflexivity. }
  split. { eexists. eexists. vm_compute. reflexivity. }
  eexists. eexists. vm_compute. reflexivity.
Qed.

(* ---------------------------------------------------------------------------------------- *)
(* Statement level with lifted expressions: CFGBuilder.build preserves the Python meaning on the
   decidable fragment [lsafe_stmts] (Lift.v): assignments to user names / tuples of names,
   augmented assignments (not re-binding their own target inside the value), expression
   statements, return, with [lsafe_val] expressions; if/elif/else and while (no else) with
   [lsafe_cond] conditions; break, continue, pass; nested arbitrarily; no %tmp in the source.
   The CFG ends with Python's returned value, Python's call trace and Python's values of all
   user variables (the CFG store additionally holds the builder's temporaries). *)
Theorem build_preserves_safe_partial : forall oracle p returns_none g s,
  lsafe_stmts p = true -> build p returns_none = BOk g s ->
  forall fuel st v st', exec_py oracle fuel p st = Done (v, st') ->
  exists fuel' st'', run_cfg oracle g fuel' st = Done (v, st'') /\
    snd st'' = snd st' /\ forall x, fst st'' (VU x) = fst st' (VU x).
Proof.
  intros oracle p rn g s F B fuel st v st' X.
  destruct (build_preserves_lsafe oracle p rn g s F B fuel st v st' X) as (f'&st''&R&(T&U)).
  exists f', st''. auto.
Qed.
Print Assumptions build_preserves_safe_partial.

Theorem build_preserves_safe_partial_unique : forall oracle p returns_none g s,
  lsafe_stmts p = true -> build p returns_none = BOk g s ->
  forall fuel st v st', exec_py oracle fuel p st = Done (v, st') ->
  forall fuel' r, run_cfg oracle g fuel' st = Done r ->
    fst r = v /\ snd (snd r) = snd st' /\ forall x, fst (snd r) (VU x) = fst st' (VU x).
Proof.
  intros oracle p rn g s F B fuel st v st' X fuel' r R.
  destruct (build_preserves_lsafe oracle p rn g s F B fuel st v st' X) as (f2&st''&R2&(T&U)).
  unfold run_cfg in *. assert (r = (v, st'')) by (eapply run_done_unique; eauto). subst. simpl. auto.
Qed.
Print Assumptions build_preserves_safe_partial_unique.

(* satisfiable on:
     while (v0 < 3) and ((v4 := f0(v0)) != 1):
         v1 = (v0 if v3 else f2(v1)) + v2
         v0 += (1 if (v1 < 0 or v0 < v1 < 9) else 2)
         if (v2 := v0 * 2) > 4 and not v3:
             break
     return (v0, v1, (v2 == 4) or (v1 != 0))                                        *)
Definition ex_lprog : stmts :=
  SCons (SWhile (EBool BoAnd (ECmp (v 0) (CLast CLt (i 3)))
                             (ECmp (EWalrus 4 (ECall 0 (ECons (v 0) ENil))) (CLast CNe (i 1))))
     (SCons (SAssign (TName (VU 1)) (EBin BAdd (EIf (v 3) (v 0) (ECall 2 (ECons (v 1) ENil))) (v 2)))
     (SCons (SAug 0 BAdd (EIf (EBool BoOr (ECmp (v 1) (CLast CLt (i 0))) (ECmp (v 0) (CMore CLt (v 1) (CLast CLt (i 9)))))
                              (i 1) (i 2)))
     (one (SIf (EBool BoAnd (ECmp (EWalrus 2 (EBin BMul (v 0) (i 2))) (CLast CGt (i 4))) (EUnary UNot (v 3)))
               (one SBreak) SNil)))) SNil)
  (one (SReturn (Some (ETuple (ECons (v 0) (ECons (v 1)
        (ECons (EBool BoOr (ECmp (v 2) (CLast CEq (i 4))) (ECmp (v 1) (CLast CNe (i 0)))) ENil))))))).
Example lbuild_hypotheses_satisfiable :
  lsafe_stmts ex_lprog = true /\ frag_stmts ex_lprog = false /\
  (exists g s, build ex_lprog false = BOk g s /\ bs_tmp s = 3) /\
  (exists v st', exec_py test_oracle 40 ex_lprog st0 = Done (v, st')).
Proof.
  split. { reflexivity. } split. { reflexivity. }
  split. { eexists. eexists. split; vm_compute; reflexivity. }
  eexists. eexists. vm_compute. reflexivity.
Qed.

(* chained comparisons with a lifted first and last operand are inside the fragment:
   (v0 if v3 else 1) < v1 <= (v2 := v0), as a condition and as a value *)
Definition ex_chain : expr :=
  ECmp (EIf (v 3) (v 0) (i 1)) (CMore CLt (v 1) (CLast CLe (EWalrus 2 (v 0)))).
Example lifted_chain_in_fragment :
  lsafe_val ex_chain = true /\ lsafe_cond ex_chain = true /\
  lsafe_stmts (one (SAssign (TName (VU 4)) ex_chain)) = true.
Proof. repeat split; reflexivity. Qed.

(* ---------------------------------------------------------------------------------------- *)
(* Unpacking assignment `p1..pk, *s, q1..qm = xs` over an array, as lowered by
   StmtCompiler._assign_array (model Unpack.v; the two reversal decisions of the helper `pop` are read
   from compiler/stmt_compiler.py on every run into GenUnpack.v): for every element type, every
   pattern and every array the bindings are exactly Python's - pi = xs[i], qj = xs[n-m+j],
   s = xs[k:n-m] - and there is no binding exactly when Python raises (wrong number of elements). *)
Theorem unpack_array_matches_python : forall (A : Type) left starred right (xs : list A),
  assign_array A gen_rev_pats_right gen_rev_elts_right left starred right xs = py_unpack A left starred right xs.
Proof.
  intros A left starred right xs. unfold gen_rev_pats_right, gen_rev_elts_right.
  destruct (py_unpack A left starred right xs) eqn:E.
  - rewrite <- E. apply assign_array_python. congruence.
  - apply assign_array_python_none. exact E.
Qed.
Print Assumptions unpack_array_matches_python.

Example unpack_example :
  assign_array nat gen_rev_pats_right gen_rev_elts_right [0] (Some 9) [1; 2; 3] [10; 11; 12; 13; 14; 15] =
  Some ([(0, 10); (1, 13); (2, 14); (3, 15)], Some (9, [11; 12])).
Proof. reflexivity. Qed.
