(** C03 — Classical control and data flow behave as in Python (decided on the compiler side:
    the CFG that guppylang's CFGBuilder produces, run by the CFG semantics of CfgSem.v,
    against the Python semantics PySem.v of the source).

    Full-strength statement ([build_preserves], DESIGN A.2): for every program p of PyAst the
    builder accepts, every oracle, store and fuel on which Python terminates normally,
    [run_cfg (build p)] terminates with the same value, user variables and call trace.
    The faithful builder model REFUTES it ([build_preserves_refuted_*], witnesses replayed on
    the real CFGBuilder by check.py).

    PROVED (partial): the expression level and the branch level of the simulation —
      [expr_builder_preserves_partial]   on lift-free expressions ExprBuilder creates no block
                                         and no temporary and returns an expression with the
                                         same Python meaning (negative constants folded);
      [branch_build_preserves_partial]   for every condition of the decidable fragment
                                         [frag_cond] (not/and/or/conditional expressions over
                                         lift-free leaves, True/False constants), in every graph
                                         extending the builder's output, control runs from the end
                                         of the current block to the TRUE target exactly when
                                         Python finds the condition truthy and to the FALSE target
                                         otherwise, with Python's state and call trace
                                         (short-circuit order), for every oracle and state.
    NOT PROVED (missing for [build_preserves_partial] at statement level): the induction over
    [visit_stmts] (while/break/continue/return wiring) and the reachability/pruning pass of
    [build]; these are covered by the CFG-equality tie and the semantic search only. *)
From Coq Require Import ZArith List Bool.
From V.C03 Require Import PyAst PySem Cfg CfgSem Builder Encode Frag Witness ProofsRefute ProofsBase ProofsExpr ProofsBranch.
Import ListNotations.

(* v1 = (v0 + (v0 := 5)): Python adds the old v0, the CFG computes 5 + 5 *)
Theorem build_preserves_refuted_walrus : refutes w_walrus.
Proof. apply refutes_b_sound. vm_compute. reflexivity. Qed.
Print Assumptions build_preserves_refuted_walrus.

(* v1 = (f0() + (f2() if v3 else f0(1))): the conditional expression runs before f0() *)
Theorem build_preserves_refuted_ifexp_order : refutes w_ifexp.
Proof. apply refutes_b_sound. vm_compute. reflexivity. Qed.
Print Assumptions build_preserves_refuted_ifexp_order.

(* v1 = (f0() + (v3 and f1())): the BoolOp runs before f0() *)
Theorem build_preserves_refuted_boolop_order : refutes w_boolop.
Proof. apply refutes_b_sound. vm_compute. reflexivity. Qed.
Print Assumptions build_preserves_refuted_boolop_order.

(* if ((-5) < f0() < 9): ... : f0 is called twice *)
Theorem build_preserves_refuted_chain_dup : refutes w_chain.
Proof. apply refutes_b_sound. vm_compute. reflexivity. Qed.
Print Assumptions build_preserves_refuted_chain_dup.

(* v1 = (v2 and 3): Python yields 3, the CFG yields True *)
Theorem build_preserves_refuted_boolop_value : refutes w_boolval.
Proof. apply refutes_b_sound. vm_compute. reflexivity. Qed.
Print Assumptions build_preserves_refuted_boolop_value.

(* v1 += (v1 := 5): Python reads the old v1 first *)
Theorem build_preserves_refuted_augassign : refutes w_aug.
Proof. apply refutes_b_sound. vm_compute. reflexivity. Qed.
Print Assumptions build_preserves_refuted_augassign.

(* ExprBuilder on lift-free expressions: no block, no temporary, same Python meaning *)
Theorem expr_builder_preserves_partial : forall e bb s oracle st, lift_free e = true ->
  exists e', build_expr e bb s = BOk (e', bb) s /\ eval oracle e' st = eval oracle e st.
Proof.
  intros e bb s oracle st H. exists (fold_neg e).
  split; [exact (build_lift_free e H bb s) | apply fold_neg_eval].
Qed.
Print Assumptions expr_builder_preserves_partial.

(* BranchBuilder.add_branch on the fragment frag_cond.  [branch_spec oracle e] (ProofsBranch.v) reads:
     forall bb t f g n s',
       build_branch e bb t f (mkB g n) = BOk tt s' ->
       opn g bb -> bb <> exit_idx -> exit_idx < length g -> t < length g -> f < length g -> t <> bb -> f <> bb ->
       exists g', s' = mkB g' n /\ grows g bb g' /\
         forall G, ext g' G -> forall st b st' ret, eval_truth oracle e st = Done (b, st') ->
           steps oracle G (mkConfig bb (slen g bb) st ret) (mkConfig (if b then t else f) 0 st' ret)
   i.e. in every graph G extending the builder's result, from the end of the current block bb control
   reaches the true target t (resp. false target f) at position 0 with exactly Python's state/trace. *)
Theorem branch_build_preserves_partial : forall oracle e, frag_cond e = true ->
  forall bb t f g n s',
  build_branch e bb t f (mkB g n) = BOk tt s' ->
  opn g bb -> bb <> exit_idx -> exit_idx < length g -> t < length g -> f < length g -> t <> bb -> f <> bb ->
  exists g', s' = mkB g' n /\ grows g bb g' /\
    forall G, ext g' G -> forall st b st' ret, eval_truth oracle e st = Done (b, st') ->
      steps oracle G (mkConfig bb (slen g bb) st ret) (mkConfig (if b then t else f) 0 st' ret).
Proof. intros oracle e H. exact (branch_ok oracle e H). Qed.
Print Assumptions branch_build_preserves_partial.

(* the hypotheses are satisfiable on a non-trivial instance:
   not (v0 < 1 and (v1 or (True if v2 == 3 else f1(v0)))), current block 0, targets 2 and 3 *)
Definition ex_cond : expr :=
  EUnary UNot (EBool BoAnd (ECmp (v 0) (CLast CLt (i 1)))
    (EBool BoOr (v 1) (EIf (ECmp (v 2) (CLast CEq (i 3))) (EConst (CBool true)) (ECall 1 (ECons (v 0) ENil))))).
Definition ex_graph : list block := [empty_block; empty_block; empty_block; empty_block].
Example branch_hypotheses_satisfiable :
  frag_cond ex_cond = true /\
  (exists s', build_branch ex_cond 0 2 3 (mkB ex_graph 0) = BOk tt s' /\ length (bs_blocks s') = 8) /\
  opn ex_graph 0 /\ exit_idx < length ex_graph /\
  (exists st', eval_truth test_oracle ex_cond st0 = Done (false, st')).
Proof.
  split. { reflexivity. }
  split. { eexists; split; vm_compute; reflexivity. }
  split. { unfold opn; simpl; repeat split; auto. }
  split. { unfold exit_idx; simpl; repeat constructor. }
  eexists. vm_compute. reflexivity.
Qed.
