(** C03 — decidable fragment predicates (model file: definitions only).

    [frag_stmts]   the fragment of the PROVED theorem [build_preserves_partial]:
                   value positions hold lift-free expressions; branch conditions are built from
                   [not]/[and]/[or]/conditional expressions over lift-free
                   leaves and chained comparisons with lift-free operands and pure middle operands.
    [safe_stmts]   the larger fragment [order_safe] of DESIGN A.2 on which the builder is
                   believed (and searched, not proved) to preserve the Python meaning:
                   lifted expressions anywhere, provided no earlier sibling operand with a call
                   or a conflicting read precedes a lifted operand, value-position [and]/[or]
                   have syntactically boolean operands (the builder yields True/False where
                   Python yields the operand), and [x op= e] does not re-bind x inside e. *)
From Coq Require Import List Bool.
From V.C03 Require Import PyAst.
Import ListNotations.

Fixpoint pure (e : expr) : bool :=
  match e with
  | EConst _ | EName _ => true
  | EUnary _ a => pure a
  | EBin _ a b => pure a && pure b
  | ECmp l rest => pure l && pure_ctail rest
  | EBool _ a b => pure a && pure b
  | EIf c a b => pure c && pure a && pure b
  | EWalrus _ _ => false
  | ECall _ _ => false
  | ETuple es => pure_list es
  end
with pure_list (es : exprs) : bool :=
  match es with ENil => true | ECons e r => pure e && pure_list r end
with pure_ctail (t : ctail) : bool :=
  match t with CLast _ e => pure e | CMore _ e r => pure e && pure_ctail r end.

Fixpoint reads (e : expr) : list nat :=
  match e with
  | EConst _ => []
  | EName (VU x) => [x]
  | EName (VT _) => []
  | EUnary _ a => reads a
  | EBin _ a b => reads a ++ reads b
  | ECmp l rest => reads l ++ reads_ctail rest
  | EBool _ a b => reads a ++ reads b
  | EIf c a b => reads c ++ reads a ++ reads b
  | EWalrus _ a => reads a
  | ECall _ args => reads_list args
  | ETuple es => reads_list es
  end
with reads_list (es : exprs) : list nat :=
  match es with ENil => [] | ECons e r => reads e ++ reads_list r end
with reads_ctail (t : ctail) : list nat :=
  match t with CLast _ e => reads e | CMore _ e r => reads e ++ reads_ctail r end.

Fixpoint wtargets (e : expr) : list nat :=
  match e with
  | EConst _ | EName _ => []
  | EUnary _ a => wtargets a
  | EBin _ a b => wtargets a ++ wtargets b
  | ECmp l rest => wtargets l ++ wtargets_ctail rest
  | EBool _ a b => wtargets a ++ wtargets b
  | EIf c a b => wtargets c ++ wtargets a ++ wtargets b
  | EWalrus x a => x :: wtargets a
  | ECall _ args => wtargets_list args
  | ETuple es => wtargets_list es
  end
with wtargets_list (es : exprs) : list nat :=
  match es with ENil => [] | ECons e r => wtargets e ++ wtargets_list r end
with wtargets_ctail (t : ctail) : list nat :=
  match t with CLast _ e => wtargets e | CMore _ e r => wtargets e ++ wtargets_ctail r end.

Definition disjoint (a b : list nat) : bool :=
  forallb (fun x => negb (existsb (Nat.eqb x) b)) a.

(* an earlier operand [a] may precede the lifted parts of a later operand [b] *)
Definition before_ok (a : expr) (wb : list nat) (lift_b : bool) : bool :=
  if lift_b then pure a && disjoint (reads a) wb else true.

Fixpoint boolish (e : expr) : bool :=
  match e with
  | EConst (CBool _) => true
  | ECmp _ _ => true
  | EUnary UNot _ => true
  | EBool _ a b => boolish a && boolish b
  | EIf _ a b => boolish a && boolish b
  | EWalrus _ a => boolish a
  | _ => false
  end.

(* middle operands of a chain: lift-free and call-free; the last may be anything allowed in
   value position provided the operand before it may precede its lifted parts *)
Fixpoint safe_val (e : expr) : bool :=
  match e with
  | EConst _ | EName _ => true
  | EUnary _ a => safe_val a
  | EBin _ a b => safe_val a && safe_val b && before_ok a (wtargets b) (negb (lift_free b))
  | ECmp l rest =>
      safe_val l &&
      match rest with
      | CLast _ r => safe_val r && before_ok l (wtargets r) (negb (lift_free r))
      | CMore _ _ _ => safe_ctail rest
      end
  | EBool _ a b => boolish a && boolish b && safe_cond a && safe_cond b
  | EIf c a b => safe_cond c && safe_val a && safe_val b
  | EWalrus _ a => safe_val a
  | ECall _ args => safe_list args
  | ETuple es => safe_list es
  end
with safe_list (es : exprs) : bool :=
  match es with
  | ENil => true
  | ECons e r => safe_val e && safe_list r && before_ok e (wtargets_list r) (negb (lift_free_list r))
  end
(* tail of a chain with >= 2 comparisons, seen from its first operand on *)
with safe_ctail (t : ctail) : bool :=
  match t with
  | CLast _ r => safe_val r
  | CMore _ m rest =>
      lift_free m && pure m &&
      match rest with
      | CLast _ r => safe_val r && before_ok m (wtargets r) (negb (lift_free r))
      | CMore _ _ _ => safe_ctail rest
      end
  end
with safe_cond (e : expr) : bool :=
  match e with
  | EBool _ a b => safe_cond a && safe_cond b
  | EUnary UNot a => safe_cond a
  | EIf c a b => safe_cond c && safe_cond a && safe_cond b
  | EConst _ | EName _ => true
  | EUnary _ a => safe_val a
  | EBin _ a b => safe_val a && safe_val b && before_ok a (wtargets b) (negb (lift_free b))
  | ECmp l rest =>
      safe_val l &&
      match rest with
      | CLast _ r => safe_val r && before_ok l (wtargets r) (negb (lift_free r))
      | CMore _ _ _ => safe_ctail rest
      end
  | EWalrus _ a => safe_val a
  | ECall _ args => safe_list args
  | ETuple es => safe_list es
  end.

Fixpoint safe_stmt (s : stmt) : bool :=
  match s with
  | SAssign _ e => safe_val e
  | SAug x _ e => safe_val e && negb (existsb (Nat.eqb x) (wtargets e))
  | SExpr e => safe_val e
  | SIf c b o => safe_cond c && safe_stmts b && safe_stmts o
  | SWhile c b o => safe_cond c && safe_stmts b && match o with SNil => true | _ => false end
  | SBreak | SContinue | SPass => true
  | SReturn None => true
  | SReturn (Some e) => safe_val e
  end
with safe_stmts (ss : stmts) : bool :=
  match ss with SNil => true | SCons s r => safe_stmt s && safe_stmts r end.

(** The proved fragment.  In a chained comparison in branch position the middle operands must
    be lift-free and pure (the builder evaluates them twice), the first and last lift-free. *)
Fixpoint frag_ctail (t : ctail) : bool :=
  match t with
  | CLast _ r => lift_free r
  | CMore _ m rest => lift_free m && pure m && frag_ctail rest
  end.

Fixpoint frag_cond (e : expr) : bool :=
  match e with
  | EBool _ a b => frag_cond a && frag_cond b
  | EUnary UNot a => frag_cond a
  | EIf c a b => frag_cond c && frag_cond a && frag_cond b
  | ECmp l rest => lift_free l && frag_ctail rest
  | _ => lift_free e
  end.

Fixpoint frag_stmt (s : stmt) : bool :=
  match s with
  | SAssign _ e | SAug _ _ e | SExpr e => lift_free e
  | SIf c b o => frag_cond c && frag_stmts b && frag_stmts o
  | SWhile c b o => frag_cond c && frag_stmts b && match o with SNil => true | _ => false end
  | SBreak | SContinue | SPass => true
  | SReturn None => true
  | SReturn (Some e) => lift_free e
  end
with frag_stmts (ss : stmts) : bool :=
  match ss with SNil => true | SCons s r => frag_stmt s && frag_stmts r end.

(** No loop carries an [else] suite (what the repaired builder accepts). *)
Fixpoint no_loop_else (s : stmt) : bool :=
  match s with
  | SIf _ b o => no_loop_else_list b && no_loop_else_list o
  | SWhile _ b o => no_loop_else_list b && match o with SNil => true | SCons _ _ => false end
  | _ => true
  end
with no_loop_else_list (ss : stmts) : bool :=
  match ss with SNil => true | SCons s r => no_loop_else s && no_loop_else_list r end.
