(** C03 — BranchBuilder: from the end of the current block, control reaches the true target
    exactly when Python finds the condition truthy, with Python's short-circuit trace. *)
From Coq Require Import ZArith List Bool Lia.
From V.C03 Require Import PyAst PySem Cfg CfgSem Builder Frag ProofsBase ProofsExpr.
Import ListNotations.

Lemma upd_nth_twice : forall A i (f h : A -> A) l, upd_nth i f (upd_nth i h l) = upd_nth i (fun x => f (h x)) l.
Proof. induction i; destruct l; simpl; auto. rewrite IHi. auto. Qed.

Lemma opn_app : forall g x b, opn g x -> opn (g ++ [b]) x /\ slen (g ++ [b]) x = slen g x.
Proof.
  unfold opn, slen. intros g x b (L&S&P). rewrite blk_app_old by auto. rewrite app_length. simpl.
  repeat split; auto; lia.
Qed.

Lemma opn_new : forall g, opn (g ++ [empty_block]) (length g) /\ slen (g ++ [empty_block]) (length g) = 0.
Proof. unfold opn, slen. intros. rewrite blk_app_new, app_length. simpl. repeat split; auto; lia. Qed.

Lemma opn_after : forall g1 bb g2 x, grows g1 bb g2 -> opn g1 x -> x <> bb -> opn g2 x /\ slen g2 x = slen g1 x.
Proof.
  intros g1 bb g2 x Gr O N. destruct Gr as (L&F&_). destruct O as (Lx&S&P).
  destruct (F x Lx N) as (A&B&C). unfold opn, slen. rewrite A, B, C. repeat split; auto; lia.
Qed.

(* a block closed in a builder state looks the same in every extension *)
Lemma ext_closed : forall g G i, ext g G -> i < length g -> b_succs (blk g i) <> [] ->
  i < length G /\ b_stmts (blk G i) = b_stmts (blk g i) /\ b_pred (blk G i) = b_pred (blk g i)
  /\ b_succs (blk G i) = b_succs (blk g i).
Proof. intros g G i (L&H) Hi N. destruct (H i Hi) as (_&C). destruct (C N) as (A&B&D). repeat split; auto; lia. Qed.

Definition closeF (p : expr) (f t : nat) (b : block) : block := add_succ t (add_succ f (put_pred p b)).

Lemma close_branch_eq : forall bb p f t g n,
  close_branch bb p f t (mkB g n) = BOk tt (mkB (upd_nth bb (closeF p f t) g) n).
Proof. intros. unfold close_branch, bind, modify, link, modify. simpl. rewrite !upd_nth_twice. reflexivity. Qed.

Definition is_generic (e : expr) : bool :=
  match e with
  | EConst (CBool _) => false
  | EUnary UNot _ => false
  | EBool _ _ _ | EIf _ _ _ => false
  | ECmp _ (CMore _ _ _) => false
  | _ => true
  end.

Lemma build_branch_generic : forall e bb t f, is_generic e = true ->
  build_branch e bb t f = gen_branch (build_expr e) bb t f.
Proof.
  destruct e; intros; simpl in H; try discriminate; try reflexivity.
  - destruct c; try discriminate; reflexivity.
  - destruct op; try discriminate; reflexivity.
  - destruct rest; try discriminate; reflexivity.
Qed.

Section Branch.
Variable oracle : trace -> nat -> list val -> val.

Lemma eval_truth_not : forall a st b st', eval_truth oracle (EUnary UNot a) st = Done (b, st') ->
  eval_truth oracle a st = Done (negb b, st').
Proof.
  unfold eval_truth. simpl. intros a st b st'. destruct (eval oracle a st) as [[v s1]| |]; simpl; try discriminate.
  intros H. inversion H. rewrite negb_involutive. auto.
Qed.

Lemma eval_truth_bool : forall op a b st r st', eval_truth oracle (EBool op a b) st = Done (r, st') ->
  exists ra st1, eval_truth oracle a st = Done (ra, st1) /\
    match op with
    | BoAnd => if ra then eval_truth oracle b st1 = Done (r, st') else (r = false /\ st' = st1)
    | BoOr => if ra then (r = true /\ st' = st1) else eval_truth oracle b st1 = Done (r, st')
    end.
Proof.
  unfold eval_truth. intros op a b st r st'. simpl.
  destruct op; destruct (eval oracle a st) as [[v s1]| |]; simpl; try discriminate;
    destruct (truthy v) eqn:T; simpl; intros H; exists (truthy v), s1; rewrite T; split; auto.
  - inversion H. rewrite T in *. auto.
  - inversion H. rewrite T in *. auto.
Qed.

Lemma eval_truth_if : forall c a b st r st', eval_truth oracle (EIf c a b) st = Done (r, st') ->
  exists rc st1, eval_truth oracle c st = Done (rc, st1) /\
    eval_truth oracle (if rc then a else b) st1 = Done (r, st').
Proof.
  unfold eval_truth. intros c a b st r st'. simpl.
  destruct (eval oracle c st) as [[v s1]| |]; simpl; try discriminate.
  intros H. exists (truthy v), s1. split; auto. destruct (truthy v); auto.
Qed.

(* pure expressions leave the state alone *)
Lemma pure_eval_all :
  (forall e, pure e = true -> forall st v st', eval oracle e st = Done (v, st') -> st' = st) /\
  (forall es, pure_list es = true -> forall st vs st', eval_list oracle es st = Done (vs, st') -> st' = st) /\
  (forall t, pure_ctail t = true -> forall vl st v st', eval_ctail oracle vl t st = Done (v, st') -> st' = st).
Proof.
  apply expr_mutind.
  - intros c _ st v st' H. simpl in H. inversion H; auto.
  - intros x _ st v st' H. simpl in H. destruct (fst st x); inversion H; auto.
  - intros op e IH P st v st' H. simpl in P, H.
    destruct (eval oracle e st) as [[v1 s1]| |] eqn:E; simpl in H; try discriminate.
    destruct (eval_unop op v1); inversion H; subst. eapply IH; eauto.
  - intros op a IHa b IHb P st v st' H. simpl in P, H. apply andb_prop in P. destruct P as [Pa Pb].
    destruct (eval oracle a st) as [[va s1]| |] eqn:Ea; simpl in H; try discriminate.
    destruct (eval oracle b s1) as [[vb s2]| |] eqn:Eb; simpl in H; try discriminate.
    destruct (eval_binop op va vb); inversion H; subst. rewrite (IHb Pb _ _ _ Eb). eapply IHa; eauto.
  - intros l IHl rest IHr P st v st' H. simpl in P, H. apply andb_prop in P. destruct P as [Pl Pr].
    destruct (eval oracle l st) as [[vl s1]| |] eqn:El; simpl in H; try discriminate.
    rewrite (IHr Pr _ _ _ _ H). eapply IHl; eauto.
  - intros op a IHa b IHb P st v st' H. simpl in P. apply andb_prop in P. destruct P as [Pa Pb].
    destruct op; simpl in H; destruct (eval oracle a st) as [[va s1]| |] eqn:Ea; simpl in H; try discriminate;
      destruct (truthy va); try (inversion H; subst; eapply IHa; eauto; fail);
      rewrite (IHb Pb _ _ _ H); eapply IHa; eauto.
  - intros c IHc a IHa b IHb P st v st' H. simpl in P, H.
    apply andb_prop in P. destruct P as [P Pb]. apply andb_prop in P. destruct P as [Pc Pa].
    destruct (eval oracle c st) as [[vc s1]| |] eqn:Ec; simpl in H; try discriminate.
    destruct (truthy vc); [rewrite (IHa Pa _ _ _ H) | rewrite (IHb Pb _ _ _ H)]; eapply IHc; eauto.
  - intros x e IH P. simpl in P. discriminate.
  - intros f args IH P. simpl in P. discriminate.
  - intros es IH P st v st' H. simpl in P, H.
    destruct (eval_list oracle es st) as [[vs s1]| |] eqn:E; simpl in H; try discriminate.
    inversion H; subst. eapply IH; eauto.
  - intros _ st vs st' H. simpl in H. inversion H; auto.
  - intros e IHe es IHes P st vs st' H. simpl in P, H. apply andb_prop in P. destruct P as [Pe Pes].
    destruct (eval oracle e st) as [[v1 s1]| |] eqn:E1; simpl in H; try discriminate.
    destruct (eval_list oracle es s1) as [[v2 s2]| |] eqn:E2; simpl in H; try discriminate.
    inversion H; subst. rewrite (IHes Pes _ _ _ E2). eapply IHe; eauto.
  - intros op e IHe P vl st v st' H. simpl in P, H.
    destruct (eval oracle e st) as [[vr s1]| |] eqn:E; simpl in H; try discriminate.
    destruct (eval_cmpop op vl vr); inversion H; subst. eapply IHe; eauto.
  - intros op e IHe rest IHr P vl st v st' H. simpl in P, H. apply andb_prop in P. destruct P as [Pe Pr].
    destruct (eval oracle e st) as [[vm s1]| |] eqn:E; simpl in H; try discriminate.
    destruct (eval_cmpop op vl vm) as [[|]|]; try discriminate.
    + rewrite (IHr Pr _ _ _ _ H). eapply IHe; eauto.
    + inversion H; subst. eapply IHe; eauto.
Qed.

Lemma residue_eval : forall m st, eval oracle (fold_neg (residue m)) st = eval oracle m st.
Proof.
  intros. assert (R: residue m = m \/ residue m = fold_neg m).
  { destruct m; auto. destruct op; auto. destruct m; auto. }
  destruct R as [->| ->]; rewrite ?fold_neg_eval; auto.
Qed.

Lemma eval_truth_cmp1 : forall l' op r st vl st_l v st',
  eval oracle l' st = Done (vl, st_l) ->
  eval_ctail oracle vl (CLast op r) st_l = Done (v, st') ->
  eval_truth oracle (ECmp l' (CLast op (fold_neg r))) st = Done (truthy v, st').
Proof.
  unfold eval_truth. simpl. intros l' op r st vl st_l v st' Hl Hc. rewrite Hl. simpl. rewrite fold_neg_eval.
  destruct (eval oracle r st_l) as [[vr s1]| |]; simpl in *; try discriminate.
  destruct (eval_cmpop op vl vr); inversion Hc; subst; reflexivity.
Qed.

(* BranchBuilder.visit_Compare on a chain, from the second visit of each middle operand on *)
Definition ctail_spec (t : ctail) : Prop :=
  forall l' bb tg f g n s',
  frag_ctail t = true ->
  build_ctail l' t bb None tg f (mkB g n) = BOk tt s' ->
  opn g bb -> bb <> exit_idx -> exit_idx < length g -> tg < length g -> f < length g -> tg <> bb -> f <> bb ->
  exists g', s' = mkB g' n /\ grows g bb g' /\
    forall G, ext g' G -> forall st vl st_l v st' ret,
      eval oracle l' st = Done (vl, st_l) ->
      eval_ctail oracle vl t st_l = Done (v, st') ->
      steps oracle G (mkConfig bb (slen g bb) st ret) (mkConfig (if truthy v then tg else f) 0 st' ret).

Lemma close_steps : forall g bb p f x G st b st' ret,
  opn g bb -> bb <> exit_idx -> ext (upd_nth bb (closeF p f x) g) G ->
  eval_truth oracle p st = Done (b, st') ->
  steps oracle G (mkConfig bb (slen g bb) st ret) (mkConfig (if b then x else f) 0 st' ret).
Proof.
  intros g bb p f x G st b st' ret (Lb&Sb&Pb) Nb E Ev.
  assert (C: b_succs (blk (upd_nth bb (closeF p f x) g) bb) <> []).
  { rewrite blk_upd_same by auto. simpl. rewrite Sb. simpl. congruence. }
  destruct (ext_closed _ _ bb E) as (LG&A1&A2&A3); [rewrite upd_nth_length; auto | auto |].
  rewrite blk_upd_same in A1, A2, A3 by auto. simpl in A1, A2, A3. rewrite Sb in A3. simpl in A3.
  apply steps_one. unfold slen. rewrite <- A1. eapply step_branch; eauto.
Qed.

Lemma ctail_ok : forall t, ctail_spec t.
Proof.
  induction t as [op r | op m rest IH]; intros l' bb tg f g n s' FC B O Nb Ne Lt Lf Nt Nf; simpl in FC.
  - simpl in B. unfold bind in B. rewrite build_lift_free in B by auto. cbn [fst snd] in B.
    rewrite close_branch_eq in B. inversion B; subst; clear B.
    eexists; split; [reflexivity|]. split.
    + apply grows_upd; auto. intros b _. exists []. simpl. rewrite app_nil_r. auto.
    + intros G E st vl st_l v st' ret Hl Hc.
      eapply close_steps; eauto. eapply eval_truth_cmp1; eauto.
  - apply andb_prop in FC. destruct FC as [FC F3]. apply andb_prop in FC. destruct FC as [LF PU].
    simpl in B. rewrite LF in B.
    apply bind_inv in B. destruct B as (ex&s1&B1&B). unfold new_bb in B1; simpl in B1; inversion B1; subst; clear B1.
    unfold bind in B. rewrite build_lift_free in B by auto. cbn [fst snd] in B. rewrite close_branch_eq in B.
    set (g0 := g ++ [empty_block]) in *.
    set (p := ECmp l' (CLast op (fold_neg m))) in *.
    set (g1 := upd_nth bb (closeF p f (length g)) g0) in *.
    destruct (opn_app g bb empty_block O) as (O0&SL0). fold g0 in O0, SL0.
    destruct (opn_new g) as (OX0&SLX0). fold g0 in OX0, SLX0.
    pose proof O as (Lb&_&_).
    assert (L0: length g0 = S (length g)) by (unfold g0; rewrite app_length; simpl; lia).
    assert (L1: length g1 = S (length g)) by (unfold g1; rewrite upd_nth_length; auto).
    assert (G01: grows g0 bb g1).
    { apply grows_upd; auto. intros b _. exists []. simpl. rewrite app_nil_r. auto. }
    destruct (opn_after _ _ _ (length g) G01 OX0) as (OX1&SLX1); [lia|].
    destruct (IH (fold_neg (residue m)) (length g) tg f g1 n s' F3 B OX1) as (g2&->&Gr2&Sem2);
      try (unfold exit_idx in *; lia).
    exists g2. split; auto. split.
    + eapply grows_trans; [| exact Gr2 | right; lia | exact Lb].
      eapply grows_trans; [apply grows_new | exact G01 | left; reflexivity | exact Lb].
    + intros G E st vl st_l v st' ret Hl Hc.
      assert (E1: ext g1 G) by (eapply ext_trans; [eapply grows_ext; eauto | auto]).
      simpl in Hc. destruct (eval oracle m st_l) as [[vm s1]| |] eqn:Em; simpl in Hc; try discriminate.
      assert (s1 = st_l) by (eapply (proj1 pure_eval_all); eauto). subst s1.
      destruct (eval_cmpop op vl vm) as [c|] eqn:Cm; try discriminate.
      assert (EvP: eval_truth oracle p st = Done (c, st_l)).
      { unfold p. replace c with (truthy (VBool c)) by reflexivity.
        eapply eval_truth_cmp1; eauto. simpl. rewrite Em. simpl. rewrite Cm. reflexivity. }
      pose proof (close_steps g0 bb p f (length g) G st c st_l ret O0 Nb E1 EvP) as T1.
      rewrite SL0 in T1.
      destruct c.
      * eapply steps_trans; [exact T1|].
        assert (El: eval oracle (fold_neg (residue m)) st_l = Done (vm, st_l)) by (rewrite residue_eval; exact Em).
        pose proof (Sem2 G E st_l vm st_l v st' ret El Hc) as T2. rewrite SLX1, SLX0 in T2. exact T2.
      * inversion Hc; subst. simpl. exact T1.
Qed.

Lemma ctail_extra_eq : forall l' op m rest bb tg f g n,
  build_ctail l' (CMore op m rest) bb (Some (length g)) tg f (mkB (g ++ [empty_block]) n) =
  build_ctail l' (CMore op m rest) bb None tg f (mkB g n).
Proof. intros. simpl. destruct (lift_free m); reflexivity. Qed.

Definition branch_spec (e : expr) : Prop :=
  forall bb t f g n s',
  build_branch e bb t f (mkB g n) = BOk tt s' ->
  opn g bb -> bb <> exit_idx -> exit_idx < length g -> t < length g -> f < length g -> t <> bb -> f <> bb ->
  exists g', s' = mkB g' n /\ grows g bb g' /\
    forall G, ext g' G -> forall st b st' ret, eval_truth oracle e st = Done (b, st') ->
      steps oracle G (mkConfig bb (slen g bb) st ret) (mkConfig (if b then t else f) 0 st' ret).

Lemma branch_leaf : forall e, lift_free e = true -> is_generic e = true -> branch_spec e.
Proof.
  intros e LF GE bb t f g n s' B O Nb Ne Lt Lf Nt Nf.
  rewrite build_branch_generic in B by auto. unfold gen_branch, bind in B.
  rewrite build_lift_free in B by auto. simpl in B. rewrite close_branch_eq in B. inversion B; subst; clear B.
  eexists; split; [reflexivity|]. split.
  - apply grows_upd; auto. intros b _. exists []. simpl. rewrite app_nil_r. auto.
  - intros G E st b st' ret Ev.
    destruct O as (Lb&Sb&Pb).
    assert (C: b_succs (blk (upd_nth bb (closeF (fold_neg e) f t) g) bb) <> []).
    { rewrite blk_upd_same by auto. simpl. rewrite Sb. simpl. congruence. }
    destruct (ext_closed _ _ bb E) as (LG&A1&A2&A3); [rewrite upd_nth_length; auto | auto |].
    rewrite blk_upd_same in A1, A2, A3 by auto. simpl in A1, A2, A3. rewrite Sb in A3. simpl in A3.
    apply steps_one. unfold slen. rewrite <- A1.
    eapply step_branch; eauto. rewrite fold_neg_eval_truth. auto.
Qed.

Lemma branch_const : forall c, branch_spec (EConst (CBool c)).
Proof.
  intros c bb t f g n s' B O Nb Ne Lt Lf Nt Nf.
  simpl in B. unfold bind, link, dummy_link, modify in B. simpl in B. inversion B; subst; clear B.
  set (tgt := if c then t else f). set (oth := if c then f else t).
  eexists; split; [reflexivity|]. split.
  - eapply grows_trans with (bb1 := bb); [| apply grows_dummy | auto | apply O].
    apply grows_upd; auto. intros b _. exists []. simpl. rewrite app_nil_r. auto.
  - intros G E st b st' ret Ev.
    destruct O as (Lb&Sb&Pb).
    assert (BK: blk (upd_nth bb (add_dummy oth) (upd_nth bb (add_succ tgt) g)) bb =
                add_dummy oth (add_succ tgt (blk g bb))).
    { rewrite blk_upd_same by (rewrite upd_nth_length; auto). rewrite blk_upd_same by auto. auto. }
    destruct (ext_closed _ _ bb E) as (LG&A1&A2&A3); [rewrite !upd_nth_length; auto | |].
    { rewrite BK. simpl. rewrite Sb. simpl. congruence. }
    rewrite BK in A1, A2, A3. simpl in A1, A2, A3. rewrite Sb in A3. rewrite Pb in A2. simpl in A3.
    unfold eval_truth in Ev. simpl in Ev. inversion Ev; subst.
    apply steps_one. unfold slen. rewrite <- A1. eapply step_jump; eauto.
Qed.

Lemma eval_truth_cmp_inv : forall e rest st b st',
  eval_truth oracle (ECmp e rest) st = Done (b, st') ->
  exists vl st1 v, eval oracle e st = Done (vl, st1) /\
    eval_ctail oracle vl rest st1 = Done (v, st') /\ b = truthy v.
Proof.
  unfold eval_truth. intros e rest st b st' H. simpl in H.
  destruct (eval oracle e st) as [[vl st1]| |] eqn:El; simpl in H; try discriminate.
  destruct (eval_ctail oracle vl rest st1) as [[v st2]| |] eqn:Ec; simpl in H; try discriminate.
  inversion H; subst. exists vl, st1, v. repeat split; auto.
Qed.

Lemma branch_ok : forall e, frag_cond e = true -> branch_spec e.
Proof.
  induction e; intros FC; simpl in FC;
    try (apply branch_leaf; [exact FC | reflexivity]).
  - (* const *) destruct c; try (apply branch_leaf; [exact FC | reflexivity]). apply branch_const.
  - (* unary *)
    destruct op; try (apply branch_leaf; [exact FC | reflexivity]).
    intros bb t f g n s' B O Nb Ne Lt Lf Nt Nf. simpl in B.
    destruct (IHe FC bb f t g n s' B O Nb Ne Lf Lt Nf Nt) as (g'&->&Gr&Sem).
    exists g'. split; [reflexivity|]. split; [exact Gr|]. intros G E st b st' ret Ev.
    apply eval_truth_not in Ev. specialize (Sem G E st (negb b) st' ret Ev). destruct b; auto.
  - (* compare *)
    destruct rest as [op r | op m rest]; [apply branch_leaf; [exact FC | reflexivity] |].
    apply andb_prop in FC. destruct FC as [LFl FT].
    intros bb t f g n s' B O Nb Ne Lt Lf Nt Nf.
    change (build_branch (ECmp e (CMore op m rest)) bb t f) with
      (LET extra <- new_bb IN LET r <- build_expr e bb IN
       build_ctail (fst r) (CMore op m rest) (snd r) (Some extra) t f) in B.
    apply bind_inv in B. destruct B as (extra&s1&B1&B).
    unfold new_bb in B1. simpl in B1. inversion B1; subst; clear B1.
    unfold bind in B. rewrite build_lift_free in B by auto. cbn [fst snd] in B.
    rewrite ctail_extra_eq in B.
    destruct (ctail_ok (CMore op m rest) (fold_neg e) bb t f g n s' FT B O Nb Ne Lt Lf Nt Nf) as (g'&->&Gr&Sem).
    exists g'. split; [reflexivity|]. split; [exact Gr|].
    intros G E st b st' ret Ev.
    apply eval_truth_cmp_inv in Ev. destruct Ev as (vl&st1&v&El&Ec&->).
    eapply Sem; eauto. rewrite fold_neg_eval. exact El.
  - (* boolop *)
    apply andb_prop in FC. destruct FC as [FA FB].
    intros bb t f g n s' B O Nb Ne Lt Lf Nt Nf.
    simpl in B. unfold br_bool in B. apply bind_inv in B. destruct B as (extra&s1&B1&B).
    unfold new_bb in B1. simpl in B1. inversion B1; subst; clear B1.
    apply bind_inv in B. destruct B as ([]&s2&B2&B3).
    destruct (opn_app g bb empty_block O) as (O1&SL1).
    destruct (opn_new g) as (OX&SLX).
    assert (LA: length (g ++ [empty_block]) = S (length g)) by (rewrite app_length; simpl; lia).
    destruct O as (Lb&Sb&Pb).
    assert (exists g2, s2 = mkB g2 n /\ grows (g ++ [empty_block]) bb g2 /\
       forall G, ext g2 G -> forall st b st' ret, eval_truth oracle e1 st = Done (b, st') ->
         steps oracle G (mkConfig bb (slen g bb) st ret)
           (mkConfig (match op with BoAnd => if b then length g else f | BoOr => if b then t else length g end) 0 st' ret)) as (g2&->&Gr2&Sem2).
    { destruct op.
      - destruct (IHe1 FA bb (length g) f _ n s2 B2 O1 Nb) as (g2&->&Gr&Sem); try lia.
        exists g2. split; [reflexivity|]. split; [exact Gr|]. intros. rewrite <- SL1. eauto.
      - destruct (IHe1 FA bb t (length g) _ n s2 B2 O1 Nb) as (g2&->&Gr&Sem); try lia.
        exists g2. split; [reflexivity|]. split; [exact Gr|]. intros. rewrite <- SL1. eauto. }
    destruct (opn_after _ _ _ (length g) Gr2 OX) as (OX2&SLX2); [lia|].
    pose proof Gr2 as (L2&_&_).
    destruct (IHe2 FB (length g) t f g2 n s' B3 OX2) as (g3&->&Gr3&Sem3); try (unfold exit_idx in *; lia).
    exists g3. split; auto. split.
    + eapply grows_trans; [| apply Gr3 | right; lia | auto].
      eapply grows_trans; [apply grows_new | apply Gr2 | auto | auto].
    + intros G E st b st' ret Ev.
      assert (E2: ext g2 G) by (eapply ext_trans; [eapply grows_ext; eauto | auto]).
      apply eval_truth_bool in Ev. destruct Ev as (ra&st1&Ea&Eb).
      specialize (Sem2 G E2 st ra st1 ret Ea).
      assert (S3: forall b, eval_truth oracle e2 st1 = Done (b, st') ->
                steps oracle G (mkConfig (length g) 0 st1 ret) (mkConfig (if b then t else f) 0 st' ret)).
      { intros b0 Hb0. specialize (Sem3 G E st1 b0 st' ret Hb0). rewrite SLX2, SLX in Sem3. exact Sem3. }
      destruct op; destruct ra.
      * eapply steps_trans; eauto.
      * destruct Eb as (->&->). auto.
      * destruct Eb as (->&->). auto.
      * eapply steps_trans; eauto.
  - (* conditional expression *)
    apply andb_prop in FC. destruct FC as [FC F3]. apply andb_prop in FC. destruct FC as [F1 F2].
    intros bb t f g n s' B O Nb Ne Lt Lf Nt Nf.
    simpl in B. apply bind_inv in B. destruct B as (tb&s1&B1&B).
    unfold new_bb in B1. simpl in B1. inversion B1; subst; clear B1.
    apply bind_inv in B. destruct B as (eb&s1&B1&B).
    unfold new_bb in B1. simpl in B1. inversion B1; subst; clear B1.
    apply bind_inv in B. destruct B as ([]&s2&B2&B). apply bind_inv in B. destruct B as ([]&s3&B3&B4).
    set (g1 := g ++ [empty_block]) in *. set (gg := g1 ++ [empty_block]) in *.
    assert (L1: length g1 = S (length g)) by (unfold g1; rewrite app_length; simpl; lia).
    assert (LG: length gg = S (S (length g))) by (unfold gg; rewrite app_length; simpl; lia).
    rewrite L1 in B2, B4.
    destruct (opn_app g bb empty_block O) as (O1&SL1). fold g1 in O1, SL1.
    destruct (opn_app g1 bb empty_block O1) as (O2&SL2). fold gg in O2, SL2.
    destruct (opn_new g) as (OT&SLT). fold g1 in OT, SLT.
    destruct (opn_app g1 (length g) empty_block OT) as (OT2&SLT2). fold gg in OT2, SLT2.
    destruct (opn_new g1) as (OE&SLE). fold gg in OE, SLE. rewrite L1 in OE, SLE.
    destruct O as (Lb&Sb&Pb).
    destruct (IHe1 F1 bb (length g) (S (length g)) gg n s2 B2 O2 Nb) as (g3&->&Gr3&Sem3); try lia.
    pose proof Gr3 as (L3&_&_).
    destruct (opn_after _ _ _ (length g) Gr3 OT2) as (OT3&SLT3); [lia|].
    destruct (opn_after _ _ _ (S (length g)) Gr3 OE) as (OE3&SLE3); [lia|].
    destruct (IHe2 F2 (length g) t f g3 n s3 B3 OT3) as (g4&->&Gr4&Sem4); try (unfold exit_idx in *; lia).
    pose proof Gr4 as (L4&_&_).
    destruct (opn_after _ _ _ (S (length g)) Gr4 OE3) as (OE4&SLE4); [lia|].
    destruct (IHe3 F3 (S (length g)) t f g4 n s' B4 OE4) as (g5&->&Gr5&Sem5); try (unfold exit_idx in *; lia).
    exists g5. split; auto. split.
    + eapply grows_trans; [| apply Gr5 | right; lia | auto].
      eapply grows_trans; [| apply Gr4 | right; lia | auto].
      eapply grows_trans; [| apply Gr3 | auto | auto].
      eapply grows_trans; [apply grows_new | apply grows_new | auto | auto].
    + intros G E st b st' ret Ev.
      assert (E4: ext g4 G) by (eapply ext_trans; [eapply grows_ext; eauto | auto]).
      assert (E3: ext g3 G) by (eapply ext_trans; [eapply grows_ext; eauto | auto]).
      apply eval_truth_if in Ev. destruct Ev as (rc&st1&Ec&Eab).
      specialize (Sem3 G E3 st rc st1 ret Ec). rewrite SL2, SL1 in Sem3.
      eapply steps_trans; [apply Sem3|].
      destruct rc.
      * specialize (Sem4 G E4 st1 b st' ret Eab). rewrite SLT3, SLT2, SLT in Sem4. auto.
      * specialize (Sem5 G E st1 b st' ret Eab). rewrite SLE4, SLE3, SLE in Sem5. auto.
Qed.
End Branch.
