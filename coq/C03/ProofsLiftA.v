(** C03 — lifted expressions, part A: the simulation statement for ExprBuilder on the fragment
    [lsafe_val] and its proof for operand sequences (the order-sensitive core), leaves, unary,
    binary, comparison, call, tuple and walrus nodes. *)
From Coq Require Import ZArith List Bool Lia.
From V.C03 Require Import PyAst PySem Cfg CfgSem Builder Frag Lift ProofsBase ProofsExpr ProofsBranch
  ProofsStmtA ProofsSim.
Import ListNotations.

Section LiftA.
Variable oracle : trace -> nat -> list val -> val.

(** [gsem]: Python evaluates [ev] from a state related to the CFG state; the CFG first runs the
    lifted parts (block bb -> bb', changing only the walrus targets [w] and the temporaries
    n..n'), then evaluating the residual [ev'] there gives the same value and related states.
    If the source is pure ([p]) the lifted parts leave the trace alone and the residual gives the
    same value in every state that agrees on the variables read ([R]) and those temporaries. *)
Definition gsem {A : Type} (G : cfg) (g g' : list block) (n n' bb bb' : nat)
    (w R : list nat) (p : bool) (ev ev' : state -> res (A * state)) : Prop :=
  forall stc stp v stp1 ret, sim stc stp -> ev stp = Done (v, stp1) ->
  exists stm, steps oracle G (mkConfig bb (slen g bb) stc ret) (mkConfig bb' (slen g' bb') stm ret) /\
    mods w n n' stc stm /\
    (exists stc1, ev' stm = Done (v, stc1) /\ sim stc1 stp1) /\
    (p = true -> snd stm = snd stc /\ forall stx, agree R n n' stm stx -> ev' stx = Done (v, stx)).

Definition xres (g : list block) (n bb : nat) (s' : bstate) (bb' : nat)
    (K : list block -> nat -> Prop) : Prop :=
  exists g' n', s' = mkB g' n' /\ grows g bb g' /\ n <= n' /\ opn g' bb' /\ bb' <> exit_idx /\
    (bb' = bb \/ length g <= bb') /\ K g' n'.

Definition xspec (e : expr) : Prop :=
  forall bb g n e' bb' s', build_expr e bb (mkB g n) = BOk (e', bb') s' ->
  lsafe_val e = true -> nt e = true -> opn g bb -> bb <> exit_idx -> exit_idx < length g ->
  xres g n bb s' bb' (fun g' n' => forall G, ext g' G ->
    gsem G g g' n n' bb bb' (wtargets e) (reads e) (pure e) (eval oracle e) (eval oracle e')).

Definition xlspec (es : exprs) : Prop :=
  forall bb g n es' bb' s', build_exprs es bb (mkB g n) = BOk (es', bb') s' ->
  lsafe_list es = true -> nt_list es = true -> opn g bb -> bb <> exit_idx -> exit_idx < length g ->
  xres g n bb s' bb' (fun g' n' => forall G, ext g' G ->
    gsem G g g' n n' bb bb' (wtargets_list es) (reads_list es) (pure_list es)
         (eval_list oracle es) (eval_list oracle es')).

(* post-processing of the value by a partial function that does not look at the state *)
Lemma gsem_map : forall (A B : Type) G g g' n n' bb bb' w R p
    (ev ev' : state -> res (A * state)) (evB evB' : state -> res (B * state)) (f : A -> option B),
  gsem G g g' n n' bb bb' w R p ev ev' ->
  (forall st, evB st = rbind (ev st) (fun q => match f (fst q) with Some r => Done (r, snd q) | None => Fail end)) ->
  (forall st, evB' st = rbind (ev' st) (fun q => match f (fst q) with Some r => Done (r, snd q) | None => Fail end)) ->
  gsem G g g' n n' bb bb' w R p evB evB'.
Proof.
  intros A B G g g' n n' bb bb' w R p ev ev' evB evB' f H EB EB' stc stp v stp1 ret S X.
  rewrite EB in X. destruct (ev stp) as [[x s1]| |] eqn:E; simpl in X; try discriminate.
  destruct (f x) as [r|] eqn:F; inversion X; subst; clear X.
  destruct (H stc stp x stp1 ret S E) as (stm&T&M&(stc1&R1&S1)&P).
  exists stm. split; auto. split; auto. split.
  - exists stc1. split; auto. rewrite EB', R1. simpl. rewrite F. auto.
  - intros Pp. destruct (P Pp) as (Tr&St). split; auto. intros stx Ag. rewrite EB', (St stx Ag). simpl. rewrite F. auto.
Qed.

Lemma xres_refl_leaf : forall g n bb (K : list block -> nat -> Prop), opn g bb -> bb <> exit_idx -> K g n -> xres g n bb (mkB g n) bb K.
Proof. intros. exists g, n. repeat split; auto; try apply grows_refl; try apply H. Qed.

(* ------------------------------------------------------------------ leaves *)
Lemma xspec_const : forall c, xspec (EConst c).
Proof.
  intros c bb g n e' bb' s' B LS N O Nb Ne. simpl in B. inversion B; subst; clear B.
  apply xres_refl_leaf; auto. intros G E stc stp v stp1 ret S X. simpl in X. inversion X; subst.
  exists stc. split; [constructor|]. split; [apply mods_refl|]. split; [exists stc; split; auto|].
  intros _. split; auto.
Qed.

Lemma xspec_name : forall x, xspec (EName x).
Proof.
  intros x bb g n e' bb' s' B LS N O Nb Ne. simpl in B. inversion B; subst; clear B.
  destruct x as [x|k]; simpl in N; try discriminate.
  apply xres_refl_leaf; auto. intros G E stc stp v stp1 ret S X. simpl in X.
  destruct (fst stp (VU x)) as [v0|] eqn:L; inversion X; subst; clear X.
  destruct S as (T&U). assert (Lc: fst stc (VU x) = Some v) by (rewrite U; auto).
  exists stc. split; [constructor|]. split; [apply mods_refl|]. split.
  - exists stc. simpl. rewrite Lc. split; auto. split; auto.
  - intros _. split; auto. intros stx (A&_). simpl. rewrite (A x) by (simpl; auto). rewrite Lc. auto.
Qed.

(* ------------------------------------------------------------------ operand sequences *)
Lemma xlspec_nil : xlspec ENil.
Proof.
  intros bb g n es' bb' s' B LS N O Nb Ne. simpl in B. inversion B; subst; clear B.
  apply xres_refl_leaf; auto. intros G E stc stp v stp1 ret S X. simpl in X. inversion X; subst.
  exists stc. split; [constructor|]. split; [apply mods_refl|]. split; [exists stc; split; auto|].
  intros _. split; auto.
Qed.

Lemma xlspec_cons : forall e r, xspec e -> xlspec r -> xlspec (ECons e r).
Proof.
  intros e r He Hr bb g n es' bb' s' B LS N O Nb Ne.
  simpl in LS, N. apply andb_prop in LS. destruct LS as [LS SQ]. apply andb_prop in LS. destruct LS as [LSe LSr].
  apply andb_prop in N. destruct N as [Ne_ Nr].
  simpl in B. apply bind_inv in B. destruct B as ([e1 bb1]&s1&B1&B).
  apply bind_inv in B. destruct B as ([r2 bb2]&s2&B2&B). simpl in B. inversion B; subst; clear B. simpl in B2.
  destruct (He bb g n e1 bb1 s1 B1 LSe Ne_ O Nb Ne) as (g1&n1&->&Gr1&Ln1&O1&Nb1&D1&Sem1).
  pose proof (grows_length _ _ _ Gr1) as L1.
  unfold seq_ok in SQ. destruct (pure e) eqn:Pe.
  - (* the first operand is pure: its residual may be evaluated after the lifted parts of the rest *)
    destruct (Hr bb1 g1 n1 r2 bb' s' B2 LSr Nr O1 Nb1) as (g2&n2&->&Gr2&Ln2&O2&Nb2&D2&Sem2); [lia|].
    pose proof (grows_length _ _ _ Gr2) as L2.
    exists g2, n2. split; auto. split; [eapply grows_trans_gen; eauto|]. split; [lia|]. split; auto. split; auto.
    split; [destruct D1; destruct D2; subst; auto; right; lia|].
    intros G E stc stp vs stp2 ret S X.
    assert (E1: ext g1 G) by (eapply ext_trans; [eapply grows_ext; eauto | auto]).
    simpl in X. destruct (eval oracle e stp) as [[v s1]| |] eqn:Ee; simpl in X; try discriminate.
    destruct (eval_list oracle r s1) as [[vr s2]| |] eqn:Er; simpl in X; try discriminate.
    inversion X; subst; clear X.
    assert (s1 = stp) by (eapply (proj1 (pure_eval_all oracle)); eauto). subst s1.
    destruct (Sem1 G E1 stc stp v stp ret S Ee) as (stm1&T1&M1&_&P1).
    destruct (P1 eq_refl) as (Tr1&St1).
    rewrite (proj1 pure_wtargets_all e Pe) in M1.
    assert (S1: sim stm1 stp).
    { destruct S as (T&U). destruct M1 as (MU&_). split; [congruence|]. intros x. rewrite MU; auto. }
    destruct (Sem2 G E stm1 stp vr stp2 ret S1 Er) as (stm2&T2&M2&(stc2&R2&S2)&P2).
    assert (Ag12: agree (reads e) n n1 stm1 stm2).
    { eapply mods_agree; [exact M2 | | left; lia]. intros x Hx. eapply disjoint_spec; eauto. }
    exists stm2. split; [eapply steps_trans; eauto|]. split.
    { simpl. rewrite (proj1 pure_wtargets_all e Pe). simpl.
      eapply mods_weaken; [eapply mods_trans with (w1 := []) (mid := n1); [| exact M1 | exact M2]; lia | | |]; simpl; auto.
      apply incl_refl. }
    split.
    { exists stc2. simpl. rewrite (St1 stm2 Ag12). simpl. rewrite R2. simpl. auto. }
    intros PP. simpl in PP. apply andb_prop in PP. destruct PP as [_ Pr].
    destruct (P2 Pr) as (Tr2&St2). split; [congruence|].
    intros stx Ag. simpl.
    assert (A1: agree (reads e) n n1 stm1 stx).
    { eapply agree_trans; [exact Ag12|]. eapply agree_weaken; [exact Ag | | |]; simpl; try lia.
      intros x Hx. apply in_or_app. auto. }
    assert (A2: agree (reads_list r) n1 n2 stm2 stx).
    { eapply agree_weaken; [exact Ag | | |]; simpl; try lia. intros x Hx. apply in_or_app. auto. }
    rewrite (St1 stx A1). simpl. rewrite (St2 stx A2). simpl. auto.
  - (* the first operand has a call or a walrus: the rest is lift-free and is evaluated after it *)
    rewrite (proj1 (proj2 build_lift_free_all) r SQ) in B2. inversion B2; subst; clear B2.
    exists g1, n1. split; auto. split; auto. split; auto. split; auto. split; auto. split; auto.
    intros G E stc stp vs stp2 ret S X.
    simpl in X. destruct (eval oracle e stp) as [[v s1]| |] eqn:Ee; simpl in X; try discriminate.
    destruct (eval_list oracle r s1) as [[vr s2]| |] eqn:Er; simpl in X; try discriminate.
    inversion X; subst; clear X.
    destruct (Sem1 G E stc stp v s1 ret S Ee) as (stm1&T1&M1&(stc1&R1&S1)&_).
    destruct (proj1 (proj2 (eval_sim_all oracle)) r Nr stc1 s1 vr stp2 S1 Er) as (stc2&R2&S2).
    exists stm1. split; auto. split.
    { eapply mods_weaken; [exact M1 | | |]; auto. simpl. apply incl_appl. apply incl_refl. }
    split.
    { exists stc2. simpl. rewrite R1. simpl. rewrite (proj1 (proj2 (fold_neg_eval_all oracle))). rewrite R2. simpl. auto. }
    simpl. intros PP. rewrite Pe in PP. discriminate.
Qed.
End LiftA.
