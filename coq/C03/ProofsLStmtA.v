(** C03 — statement level with lifted expressions, part A: outcomes up to [sim], simple
    statements, return, break, continue, pass. *)
From Coq Require Import ZArith List Bool Lia.
From V.C03 Require Import PyAst PySem Cfg CfgSem Builder Frag Lift ProofsBase ProofsExpr ProofsBranch
  ProofsStmtA ProofsStmtB ProofsSim ProofsLiftA ProofsLiftC ProofsLiftE.
Import ListNotations.

Lemma assign_names_sim : forall xs vs (c p p' : store),
  (forall x, c (VU x) = p (VU x)) -> assign_names xs vs p = Some p' ->
  exists c', assign_names xs vs c = Some c' /\ (forall x, c' (VU x) = p' (VU x)).
Proof.
  induction xs; destruct vs; simpl; intros c p p' H A; try discriminate.
  - inversion A; subst. eauto.
  - eapply IHxs; [|exact A]. intros x. unfold upd. simpl. destruct (Nat.eqb a x); auto.
Qed.

Lemma assign_target_sim : forall t v c p p', nt_target t = true -> sim c p ->
  assign_target t v (fst p) = Some p' ->
  exists c', assign_target t v (fst c) = Some c' /\ sim (c', snd c) (p', snd p).
Proof.
  intros t v c p p' N (T&U) A. destruct t as [[x|k]|xs]; simpl in *; try discriminate.
  - inversion A; subst. eexists. split; [reflexivity|]. split; simpl; auto.
    intros y. unfold upd. simpl. destruct (Nat.eqb x y); auto.
  - destruct v; try discriminate. destruct (assign_names_sim xs l (fst c) (fst p) p' U A) as (c'&A'&U').
    exists c'. split; auto. split; simpl; auto.
Qed.

Section LStmtA.
Variable oracle : trace -> nat -> list val -> val.

(* where Python's outcome leaves the CFG run, up to temporaries *)
Definition osteps2 (G : cfg) (c : config) (j : jumps) (g' : list block) (r : option nat)
           (o : outcome) (stp' : state) : Prop :=
  match o with
  | ONormal => exists b' stc', r = Some b' /\ steps oracle G c (mkConfig b' (slen g' b') stc' (c_ret c)) /\ sim stc' stp'
  | OBreak => exists b stc', j_brk j = Some b /\ steps oracle G c (mkConfig b 0 stc' (c_ret c)) /\ sim stc' stp'
  | OContinue => exists b stc', j_cont j = Some b /\ steps oracle G c (mkConfig b 0 stc' (c_ret c)) /\ sim stc' stp'
  | OReturn v => exists stc', steps oracle G c (mkConfig (j_ret j) 0 stc' (Some v)) /\ sim stc' stp'
  end.

Lemma osteps2_prefix : forall G c0 c j g' r o st',
  steps oracle G c0 c -> c_ret c = c_ret c0 -> osteps2 G c j g' r o st' -> osteps2 G c0 j g' r o st'.
Proof.
  intros G c0 c j g' r o st' S R O. destruct o; simpl in *.
  - destruct O as (b'&sc&E&T&Sm). exists b', sc. split; auto. split; auto. rewrite <- R. eapply steps_trans; eauto.
  - destruct O as (b&sc&E&T&Sm). exists b, sc. split; auto. split; auto. rewrite <- R. eapply steps_trans; eauto.
  - destruct O as (b&sc&E&T&Sm). exists b, sc. split; auto. split; auto. rewrite <- R. eapply steps_trans; eauto.
  - destruct O as (sc&T&Sm). exists sc. split; auto. eapply steps_trans; eauto.
Qed.

Lemma osteps2_conv : forall G c j g' r g'' r' o st',
  (forall b', r = Some b' -> r' = Some b' /\ slen g'' b' = slen g' b') ->
  osteps2 G c j g' r o st' -> osteps2 G c j g'' r' o st'.
Proof.
  intros G c j g' r g'' r' o st' H O. destruct o; simpl in *; auto.
  destruct O as (b'&sc&E&T&Sm). destruct (H b' E) as (E'&SL). exists b', sc. split; auto. rewrite SL. auto.
Qed.

Lemma osteps2_then : forall G c j g' a g'' m o st',
  osteps2 G c j g' (Some a) o st' ->
  (forall st ret, steps oracle G (mkConfig a (slen g' a) st ret) (mkConfig m (slen g'' m) st ret)) ->
  osteps2 G c j g'' (Some m) o st'.
Proof.
  intros G c j g' a g'' m o st' O H. destruct o; simpl in *; auto.
  destruct O as (b'&sc&E&T&Sm). inversion E; subst. exists m, sc. split; auto. split; auto. eapply steps_trans; eauto.
Qed.

Definition lstmt_spec (s : stmt) : Prop :=
  forall bb j g n r s', lsafe_stmt s = true ->
  visit_stmt s bb j (mkB g n) = BOk r s' ->
  opn g bb -> bb <> exit_idx -> exit_idx < length g -> jok g bb j ->
  exists g' n', s' = mkB g' n' /\ grows g bb g' /\ rok g bb g' r /\
    forall G, ext g' G -> forall fuel stc stp o stp' ret, sim stc stp ->
      exec oracle fuel s stp = Done (o, stp') ->
      osteps2 G (mkConfig bb (slen g bb) stc ret) j g' r o stp'.

Definition lstmts_spec (ss : stmts) : Prop :=
  forall prev cur j g n r s', lsafe_stmts ss = true ->
  visit_stmts ss prev cur j (mkB g n) = BOk r s' ->
  exit_idx < length g -> cur_ok g cur j ->
  exists g' n', s' = mkB g' n' /\ grows g (cb g cur) g' /\ rok g (cb g cur) g' r /\
    forall bb, cur = Some bb ->
    forall G, ext g' G -> forall fuel stc stp o stp' ret, sim stc stp ->
      exec_list oracle fuel ss stp = Done (o, stp') ->
      osteps2 G (mkConfig bb (slen g bb) stc ret) j g' r o stp'.

(* build the value expression, then append one simple statement made from the residual *)
Lemma build_push : forall e bb g n e1 bb1 s1 (mk : expr -> stmt),
  build_expr e bb (mkB g n) = BOk (e1, bb1) s1 ->
  lsafe_val e = true -> nt e = true -> opn g bb -> bb <> exit_idx -> exit_idx < length g ->
  exists g1 n1, s1 = mkB g1 n1 /\ opn g1 bb1 /\ bb1 <> exit_idx /\ (bb1 = bb \/ length g <= bb1) /\
    grows g bb (upd_nth bb1 (push_stmt (mk e1)) g1) /\
    opn (upd_nth bb1 (push_stmt (mk e1)) g1) bb1 /\
    slen (upd_nth bb1 (push_stmt (mk e1)) g1) bb1 = S (slen g1 bb1) /\
    forall G, ext (upd_nth bb1 (push_stmt (mk e1)) g1) G ->
    forall stc stp v sp1 ret, sim stc stp -> eval oracle e stp = Done (v, sp1) ->
    exists stm stc1,
      steps oracle G (mkConfig bb (slen g bb) stc ret) (mkConfig bb1 (slen g1 bb1) stm ret) /\
      mods (wtargets e) n n1 stc stm /\ eval oracle e1 stm = Done (v, stc1) /\ sim stc1 sp1 /\
      forall stf rv, exec_simple oracle (mk e1) stm = Done (stf, rv) ->
        steps oracle G (mkConfig bb1 (slen g1 bb1) stm ret)
          (mkConfig bb1 (S (slen g1 bb1)) stf (match rv with Some w => Some w | None => ret end)).
Proof.
  intros e bb g n e1 bb1 s1 mk B LS N O Nb Ne.
  destruct (proj1 (proj1 (lift_all oracle) e) bb g n e1 bb1 s1 B LS N O Nb Ne) as (g1&n1&->&Gr&Ln&O1&Nb1&D&Sem).
  destruct (opn_push g1 bb1 (mk e1) O1) as (O2&SL2).
  exists g1, n1. split; auto. split; auto. split; auto. split; auto.
  split; [eapply grows_trans_gen; [exact Gr | apply grows_push; auto | auto]|].
  split; auto. split; auto.
  intros G E stc stp v sp1 ret S X.
  assert (E1: ext g1 G) by (eapply ext_trans; [eapply grows_ext; apply (grows_push g1 bb1 (mk e1) O1) | exact E]).
  destruct (Sem G E1 stc stp v sp1 ret S X) as (stm&T&M&(stc1&R1&S1)&_).
  exists stm, stc1. split; auto. split; auto. split; auto. split; auto.
  intros stf rv XS. apply steps_one. exact (ext_push_step oracle g1 bb1 (mk e1) G stm stf rv ret O1 Nb1 E XS).
Qed.

Lemma lspec_assign : forall t e, lstmt_spec (SAssign t e).
Proof.
  intros t e bb j g n r s' F V O Nb Ne J. simpl in F.
  apply andb_prop in F. destruct F as [F LS]. apply andb_prop in F. destruct F as [NT N].
  simpl in V. apply bind_inv in V. destruct V as ([e1 bb1]&s1&B1&V). cbn [fst snd] in V.
  destruct (build_push e bb g n e1 bb1 s1 (SAssign t) B1 LS N O Nb Ne) as (g1&n1&->&O1&Nb1&D&Gr&O2&SL2&Sem).
  unfold bind, add_stmt, modify, ret in V. simpl in V. inversion V; subst; clear V.
  eexists _, n1. split; [reflexivity|]. split; [exact Gr|]. split; [simpl; auto|].
  intros G E fuel stc stp o stp' ret S X.
  destruct fuel; simpl in X; try discriminate.
  destruct (eval oracle e stp) as [[v sp1]| |] eqn:Ev; simpl in X; try discriminate.
  destruct (assign_target t v (fst sp1)) as [p'|] eqn:A; simpl in X; try discriminate.
  inversion X; subst; clear X.
  destruct (Sem G E stc stp v sp1 ret S Ev) as (stm&stc1&T&M&R1&S1&Push).
  destruct (assign_target_sim t v stc1 sp1 p' NT S1 A) as (c'&A'&S').
  simpl. exists bb1, (c', snd stc1). split; auto. split; auto.
  rewrite SL2. eapply steps_trans; [exact T|]. apply (Push (c', snd stc1) None).
  simpl. rewrite R1. simpl. rewrite A'. reflexivity.
Qed.

Lemma lspec_aug : forall x op e, lstmt_spec (SAug x op e).
Proof.
  intros x op e bb j g n r s' F V O Nb Ne J. simpl in F.
  apply andb_prop in F. destruct F as [F NW]. apply andb_prop in F. destruct F as [N LS].
  simpl in V. apply bind_inv in V. destruct V as ([e1 bb1]&s1&B1&V). cbn [fst snd] in V.
  destruct (build_push e bb g n e1 bb1 s1 (SAug x op) B1 LS N O Nb Ne) as (g1&n1&->&O1&Nb1&D&Gr&O2&SL2&Sem).
  unfold bind, add_stmt, modify, ret in V. simpl in V. inversion V; subst; clear V.
  eexists _, n1. split; [reflexivity|]. split; [exact Gr|]. split; [simpl; auto|].
  intros G E fuel stc stp o stp' ret S X.
  destruct fuel; simpl in X; try discriminate.
  destruct (fst stp (VU x)) as [vx|] eqn:Lx; simpl in X; try discriminate.
  destruct (eval oracle e stp) as [[v sp1]| |] eqn:Ev; simpl in X; try discriminate.
  destruct (eval_binop op vx v) as [rr|] eqn:Bo; simpl in X; try discriminate.
  inversion X; subst; clear X.
  destruct (Sem G E stc stp v sp1 ret S Ev) as (stm&stc1&T&M&R1&S1&Push).
  assert (Lm: fst stm (VU x) = Some vx).
  { destruct M as (MU&_). rewrite MU; [destruct S as (_&U); rewrite U; auto|].
    intro I. apply negb_true_iff in NW. assert (existsb (Nat.eqb x) (wtargets e) = true); [|congruence].
    apply existsb_exists. exists x. split; auto. apply Nat.eqb_refl. }
  simpl. exists bb1, (upd (fst stc1) (VU x) rr, snd stc1). split; auto. split.
  - rewrite SL2. eapply steps_trans; [exact T|]. apply (Push _ None).
    simpl. rewrite Lm, R1. simpl. rewrite Bo. reflexivity.
  - apply sim_upd_user. exact S1.
Qed.

Lemma lspec_expr : forall e, lstmt_spec (SExpr e).
Proof.
  intros e bb j g n r s' F V O Nb Ne J. simpl in F. apply andb_prop in F. destruct F as [N LS].
  simpl in V. apply bind_inv in V. destruct V as ([e1 bb1]&s1&B1&V). cbn [fst snd] in V.
  destruct (is_tmp_name e1) eqn:TN.
  - (* a bare temporary is not added to the block *)
    destruct (proj1 (proj1 (lift_all oracle) e) bb g n e1 bb1 s1 B1 LS N O Nb Ne) as (g1&n1&->&Gr&Ln&O1&Nb1&D&Sem).
    unfold bind, ret in V. simpl in V. inversion V; subst; clear V.
    exists g1, n1. split; auto. split; auto. split; [simpl; auto|].
    intros G E fuel stc stp o stp' ret S X.
    destruct fuel; simpl in X; try discriminate.
    destruct (eval oracle e stp) as [[v sp1]| |] eqn:Ev; simpl in X; try discriminate. inversion X; subst; clear X.
    destruct (Sem G E stc stp v stp' ret S Ev) as (stm&T&M&(stc1&R1&S1)&_).
    destruct e1; simpl in TN; try discriminate. destruct x; try discriminate.
    simpl in R1. destruct (fst stm (VT n0)); inversion R1; subst.
    simpl. exists bb1, stc1. auto.
  - destruct (build_push e bb g n e1 bb1 s1 SExpr B1 LS N O Nb Ne) as (g1&n1&->&O1&Nb1&D&Gr&O2&SL2&Sem).
    unfold bind, add_stmt, modify, ret in V. simpl in V. inversion V; subst; clear V.
    eexists _, n1. split; [reflexivity|]. split; [exact Gr|]. split; [simpl; auto|].
    intros G E fuel stc stp o stp' ret S X.
    destruct fuel; simpl in X; try discriminate.
    destruct (eval oracle e stp) as [[v sp1]| |] eqn:Ev; simpl in X; try discriminate. inversion X; subst; clear X.
    destruct (Sem G E stc stp v stp' ret S Ev) as (stm&stc1&T&M&R1&S1&Push).
    simpl. exists bb1, stc1. split; auto. split; auto.
    rewrite SL2. eapply steps_trans; [exact T|]. apply (Push stc1 None). simpl. rewrite R1. reflexivity.
Qed.

Lemma lspec_pass : lstmt_spec SPass.
Proof.
  intros bb j g n r s' F V O Nb Ne J. simpl in V. inversion V; subst; clear V.
  exists g, n. split; auto. split; [apply grows_refl|]. split; [simpl; auto|].
  intros G E fuel stc stp o stp' ret S X. destruct fuel; simpl in X; try discriminate. inversion X; subst.
  simpl. exists bb, stc. split; auto. split; auto. constructor.
Qed.

Lemma lspec_break : lstmt_spec SBreak.
Proof.
  intros bb j g n r s' F V O Nb Ne J. simpl in V.
  destruct (j_brk j) as [b|] eqn:JB; [|discriminate]. simpl in V. inversion V; subst; clear V.
  eexists _, n. split; [reflexivity|]. split; [apply grows_link; auto|]. split; [simpl; auto|].
  intros G E fuel stc stp o stp' ret S X. destruct fuel; simpl in X; try discriminate. inversion X; subst.
  simpl. exists b, stc. split; auto. split; auto. apply link_jump; auto.
Qed.

Lemma lspec_continue : lstmt_spec SContinue.
Proof.
  intros bb j g n r s' F V O Nb Ne J. simpl in V.
  destruct (j_cont j) as [b|] eqn:JB; [|discriminate]. simpl in V. inversion V; subst; clear V.
  eexists _, n. split; [reflexivity|]. split; [apply grows_link; auto|]. split; [simpl; auto|].
  intros G E fuel stc stp o stp' ret S X. destruct fuel; simpl in X; try discriminate. inversion X; subst.
  simpl. exists b, stc. split; auto. split; auto. apply link_jump; auto.
Qed.

Lemma lspec_return : forall e, lstmt_spec (SReturn e).
Proof.
  intros e bb j g n r s' F V O Nb Ne J. simpl in F. destruct e as [e|].
  - apply andb_prop in F. destruct F as [N LS].
    simpl in V. apply bind_inv in V. destruct V as ([e1 bb1]&s1&B1&V). cbn [fst snd] in V.
    destruct (build_push e bb g n e1 bb1 s1 (fun x => SReturn (Some x)) B1 LS N O Nb Ne)
      as (g1&n1&->&O1&Nb1&D&Gr&O2&SL2&Sem).
    unfold bind, add_stmt, link, modify, ret in V. simpl in V. inversion V; subst; clear V.
    set (g2 := upd_nth bb1 (push_stmt (SReturn (Some e1))) g1) in *.
    assert (G23: grows g2 bb1 (upd_nth bb1 (add_succ (j_ret j)) g2)) by (apply grows_link; auto).
    eexists _, n1. split; [reflexivity|]. split; [eapply grows_trans_gen; [exact Gr | exact G23 | auto]|].
    split; [simpl; auto|].
    intros G E fuel stc stp o stp' ret S X.
    assert (E2: ext g2 G) by (eapply ext_trans; [eapply grows_ext; exact G23 | exact E]).
    destruct fuel; simpl in X; try discriminate.
    destruct (eval oracle e stp) as [[v sp1]| |] eqn:Ev; simpl in X; try discriminate. inversion X; subst; clear X.
    destruct (Sem G E2 stc stp v stp' ret S Ev) as (stm&stc1&T&M&R1&S1&Push).
    simpl. exists stc1. split; auto.
    eapply steps_trans; [exact T|]. eapply steps_trans; [apply (Push stc1 (Some v)); simpl; rewrite R1; reflexivity|].
    rewrite <- SL2. apply link_jump; auto.
  - simpl in V. unfold bind, add_stmt, link, modify, ret in V. simpl in V. inversion V; subst; clear V.
    destruct (opn_push g bb (SReturn None) O) as (O1&SL1).
    set (g1 := upd_nth bb (push_stmt (SReturn None)) g) in *.
    assert (G12: grows g1 bb (upd_nth bb (add_succ (j_ret j)) g1)) by (apply grows_link; auto).
    eexists _, n. split; [reflexivity|].
    split; [eapply grows_trans_gen; [apply grows_push; exact O | exact G12 | auto]|]. split; [simpl; auto|].
    intros G E fuel stc stp o stp' ret S X.
    assert (E1: ext g1 G) by (eapply ext_trans; [eapply grows_ext; exact G12 | exact E]).
    destruct fuel; simpl in X; try discriminate. inversion X; subst; clear X.
    simpl. exists stc. split; auto.
    eapply steps_cons. { exact (ext_push_step oracle g bb (SReturn None) G stc stc (Some VNone) ret O Nb E1 eq_refl). }
    rewrite <- SL1. apply link_jump; auto.
Qed.
End LStmtA.
