(** C03 — `for` loops (model file: definitions only; NOT covered by the theorems of Props.v).

    A parallel statement syntax [fstmt] = the statements of PyAst.v plus [FFor x iter body orelse]
    (`for v<x> in iter:`), so that the inductive types the proofs (and C05/C02) are about stay
    unchanged.  [CFGBuilder.visit_For] desugars the loop into the template

        it = make_iter; while True: res = iter_next; if not res.is_some(): res.unwrap_nothing(); break
                                    x, it = res.unwrap(); body

    The iterator protocol is abstract: the template's primitives are calls to reserved
    uninterpreted functions whose results come from the oracle (the Python semantics [fexec] of a
    `for` statement performs the same protocol calls, [it]/[res] being internal):
        1000 MakeIter(v)   1001 IterNext(it)   1002 res.is_some()   1003 res.unwrap_nothing()
        1004 / 1005        first / second component of res.unwrap()  (the tuple assignment
                           `x, it = res.unwrap()` is modelled as the two assignments
                           `x = unwrap1(res); it = unwrap2(res)`; the tie encodes the real
                           statement the same way). *)
From Coq Require Import ZArith List Bool.
From V.C03 Require Import PyAst PySem Cfg CfgSem Builder Frag Lift.
Import ListNotations.

Inductive fstmt :=
| FAssign (t : target) (e : expr)
| FAug (x : nat) (op : binop) (e : expr)
| FExpr (e : expr)
| FIf (c : expr) (body orelse : fstmts)
| FWhile (c : expr) (body orelse : fstmts)
| FFor (x : nat) (iter : expr) (body orelse : fstmts)
| FBreak | FContinue | FPass
| FReturn (e : option expr)
with fstmts := FNil | FCons (s : fstmt) (ss : fstmts).

Definition F_ITER : nat := 1000.
Definition F_NEXT : nat := 1001.
Definition F_IS_SOME : nat := 1002.
Definition F_UNWRAP_NOTHING : nat := 1003.
Definition F_UNWRAP1 : nat := 1004.
Definition F_UNWRAP2 : nat := 1005.

Definition call1 (f : nat) (e : expr) : expr := ECall f (ECons e ENil).

(* ------------------------------------------------------------------ Python semantics *)
Section WithOracle.
Variable oracle : trace -> nat -> list val -> val.

Definition pcall (f : nat) (args : list val) (st : state) : val * state :=
  let r := oracle (snd st) f args in (r, (fst st, Ev f args r :: snd st)).

Definition simple_of (s : fstmt) : option stmt :=
  match s with
  | FAssign t e => Some (SAssign t e)
  | FAug x op e => Some (SAug x op e)
  | FExpr e => Some (SExpr e)
  | FReturn e => Some (SReturn e)
  | _ => None
  end.

Fixpoint fexec (fuel : nat) (s : fstmt) (st : state) {struct fuel} : res (outcome * state) :=
  match fuel with
  | O => Timeout
  | S f =>
    match s with
    | FAssign _ _ | FAug _ _ _ | FExpr _ | FReturn _ =>
        match simple_of s with
        | Some s0 =>
            do (st1, r) <- exec_simple oracle s0 st;
            Done (match r with None => ONormal | Some v => OReturn v end, st1)
        | None => Fail
        end
    | FIf c body orelse =>
        do (t, st1) <- eval_truth oracle c st;
        fexec_list f (if t then body else orelse) st1
    | FWhile c body orelse =>
        do (t, st1) <- eval_truth oracle c st;
        if t then
          do (o, st2) <- fexec_list f body st1;
          match o with
          | ONormal | OContinue => fexec f s st2
          | OBreak => Done (ONormal, st2)
          | OReturn v => Done (OReturn v, st2)
          end
        else fexec_list f orelse st1
    | FFor x iter body orelse =>
        do (v, st1) <- eval oracle iter st;
        let '(itv, st2) := pcall F_ITER [v] st1 in
        ffor f x body orelse itv st2
    | FBreak => Done (OBreak, st)
    | FContinue => Done (OContinue, st)
    | FPass => Done (ONormal, st)
    end
  end
with fexec_list (fuel : nat) (ss : fstmts) (st : state) {struct fuel} : res (outcome * state) :=
  match fuel with
  | O => Timeout
  | S f =>
    match ss with
    | FNil => Done (ONormal, st)
    | FCons s r =>
        do (o, st1) <- fexec f s st;
        match o with
        | ONormal => fexec_list f r st1
        | _ => Done (o, st1)
        end
    end
  end
with ffor (fuel : nat) (x : nat) (body orelse : fstmts) (itv : val) (st : state) {struct fuel} : res (outcome * state) :=
  match fuel with
  | O => Timeout
  | S f =>
    let '(rv, st1) := pcall F_NEXT [itv] st in
    let '(b, st2) := pcall F_IS_SOME [rv] st1 in
    if truthy b then
      let '(xv, st3) := pcall F_UNWRAP1 [rv] st2 in
      let st3' := (upd (fst st3) (VU x) xv, snd st3) in
      let '(itv', st4) := pcall F_UNWRAP2 [rv] st3' in
      do (o, st5) <- fexec_list f body st4;
      match o with
      | ONormal | OContinue => ffor f x body orelse itv' st5
      | OBreak => Done (ONormal, st5)
      | OReturn v => Done (OReturn v, st5)
      end
    else
      let '(_, st3) := pcall F_UNWRAP_NOTHING [rv] st2 in
      fexec_list f orelse st3
  end.

Definition fexec_py (fuel : nat) (p : fstmts) (st : state) : res (val * state) :=
  do (o, st1) <- fexec_list fuel p st;
  match o with
  | ONormal => Done (VNone, st1)
  | OReturn v => Done (v, st1)
  | _ => Fail
  end.
End WithOracle.

(** An oracle that implements the iterator protocol on tuples (for executable tests):
    the iterator of a tuple is the tuple of its remaining elements; [next] yields () or
    ((element, rest),). Everything else is delegated. *)
Definition for_oracle (base : trace -> nat -> list val -> val) (tr : trace) (f : nat) (vs : list val) : val :=
  if Nat.eqb f F_ITER then match vs with [VTuple l] => VTuple l | _ => VTuple [] end
  else if Nat.eqb f F_NEXT then
    match vs with [VTuple (h :: t)] => VTuple [VTuple [h; VTuple t]] | _ => VTuple [] end
  else if Nat.eqb f F_IS_SOME then match vs with [VTuple (_ :: _)] => VBool true | _ => VBool false end
  else if Nat.eqb f F_UNWRAP_NOTHING then VNone
  else if Nat.eqb f F_UNWRAP1 then match vs with [VTuple [VTuple [h; _]]] => h | _ => VNone end
  else if Nat.eqb f F_UNWRAP2 then match vs with [VTuple [VTuple [_; t]]] => t | _ => VNone end
  else base tr f vs.

(* ------------------------------------------------------------------ builder *)
Fixpoint fvisit_stmt (s : fstmt) (bb : nat) (j : jumps) {struct s} : M (option nat) :=
  match s with
  | FAssign t e => LET r <- build_expr e bb IN DO add_stmt (snd r) (SAssign t (fst r)) THEN ret (Some (snd r))
  | FAug x op e => LET r <- build_expr e bb IN DO add_stmt (snd r) (SAug x op (fst r)) THEN ret (Some (snd r))
  | FExpr e =>
      LET r <- build_expr e bb IN
      DO (if is_tmp_name (fst r) then ret tt else add_stmt (snd r) (SExpr (fst r))) THEN
      ret (Some (snd r))
  | FIf c body orelse =>
      LET tb <- new_bb IN LET eb <- new_bb IN
      DO build_branch c bb tb eb THEN
      LET te <- fvisit_stmts body tb (Some tb) j IN
      LET ee <- fvisit_stmts orelse eb (Some eb) j IN
      match te, ee with
      | None, _ => ret ee
      | _, None => ret te
      | Some a, Some b => LET m <- new_bb IN DO link a m THEN DO link b m THEN ret (Some m)
      end
  | FWhile c body orelse =>
      match orelse with
      | FCons _ _ => fail ErrLoopElse
      | FNil =>
        LET head <- new_bb IN DO link bb head THEN
        LET body_bb <- new_bb IN LET tail <- new_bb IN
        DO build_branch c head body_bb tail THEN
        LET r <- fvisit_stmts body body_bb (Some body_bb) (mkJ (j_ret j) (Some head) (Some tail)) IN
        DO match r with Some e => link e head | None => ret tt end THEN
        ret (Some tail)
      end
  | FFor x iter body orelse =>
      match orelse with
      | FCons _ _ => fail ErrLoopElse
      | FNil =>
        LET it <- fresh_tmp IN LET rs <- fresh_tmp IN
        (* it = make_iter *)
        LET r <- build_expr iter bb IN
        DO add_stmt (snd r) (SAssign (TName (VT it)) (call1 F_ITER (fst r))) THEN
        (* while True: *)
        LET head <- new_bb IN DO link (snd r) head THEN
        LET body_bb <- new_bb IN LET tail <- new_bb IN
        DO link head body_bb THEN DO dummy_link head tail THEN
        (* res = iter_next *)
        DO add_stmt body_bb (SAssign (TName (VT rs)) (call1 F_NEXT (EName (VT it)))) THEN
        (* if not res.is_some(): res.unwrap_nothing(); break *)
        LET then_bb <- new_bb IN LET else_bb <- new_bb IN
        DO close_branch body_bb (call1 F_IS_SOME (EName (VT rs))) then_bb else_bb THEN
        DO add_stmt then_bb (SExpr (call1 F_UNWRAP_NOTHING (EName (VT rs)))) THEN
        DO link then_bb tail THEN
        (* x, it = res.unwrap() *)
        DO add_stmt else_bb (SAssign (TName (VU x)) (call1 F_UNWRAP1 (EName (VT rs)))) THEN
        DO add_stmt else_bb (SAssign (TName (VT it)) (call1 F_UNWRAP2 (EName (VT rs)))) THEN
        LET r2 <- fvisit_stmts body else_bb (Some else_bb) (mkJ (j_ret j) (Some head) (Some tail)) IN
        DO match r2 with Some e => link e head | None => ret tt end THEN
        ret (Some tail)
      end
  | FBreak => match j_brk j with Some b => DO link bb b THEN ret None | None => fail ErrNoLoop end
  | FContinue => match j_cont j with Some b => DO link bb b THEN ret None | None => fail ErrNoLoop end
  | FPass => ret (Some bb)
  | FReturn None => DO add_stmt bb (SReturn None) THEN DO link bb (j_ret j) THEN ret None
  | FReturn (Some e) =>
      LET r <- build_expr e bb IN
      DO add_stmt (snd r) (SReturn (Some (fst r))) THEN DO link (snd r) (j_ret j) THEN ret None
  end
with fvisit_stmts (ss : fstmts) (prev : nat) (cur : option nat) (j : jumps) {struct ss} : M (option nat) :=
  match ss with
  | FNil => ret cur
  | FCons s r =>
      LET bb <- match cur with
                | Some b => ret b
                | None => LET b <- new_bb IN DO dummy_link prev b THEN ret b
                end IN
      LET r1 <- fvisit_stmt s bb j IN
      fvisit_stmts r bb r1 j
  end.

Definition fbuild (p : fstmts) (returns_none : bool) : bres cfg :=
  match fvisit_stmts p entry_idx (Some entry_idx) (mkJ exit_idx None None) init_state with
  | BErr e => BErr e
  | BOk final s =>
    match mark_reachable (bs_blocks s) with
    | None => BErr ErrInternal
    | Some g1 =>
      match final with
      | None => BOk (prune g1) s
      | Some fb =>
        let g2 := upd_nth fb (add_succ exit_idx) g1 in
        if blk_reach g2 fb then
          if returns_none then BOk (prune (upd_nth exit_idx (put_reach true) g2)) s
          else BErr ErrExpectedReturn
        else BOk (prune g2) s
      end
    end
  end.

(** The order_safe fragment for programs with `for` (searched by the tie, not proved). *)
Fixpoint fsafe_stmt (s : fstmt) : bool :=
  match s with
  | FAssign t e => nt_target t && nt e && lsafe_val e
  | FAug x _ e => nt e && lsafe_val e && negb (existsb (Nat.eqb x) (wtargets e))
  | FExpr e => nt e && lsafe_val e
  | FIf c b o => nt c && lsafe_cond c && fsafe_stmts b && fsafe_stmts o
  | FWhile c b o => nt c && lsafe_cond c && fsafe_stmts b && match o with FNil => true | _ => false end
  | FFor _ it b o => nt it && lsafe_val it && fsafe_stmts b && match o with FNil => true | _ => false end
  | FBreak | FContinue | FPass => true
  | FReturn None => true
  | FReturn (Some e) => nt e && lsafe_val e
  end
with fsafe_stmts (ss : fstmts) : bool :=
  match ss with FNil => true | FCons s r => fsafe_stmt s && fsafe_stmts r end.
