(** C03 — concrete programs refuting the full-strength statement [build_preserves]
    on the faithful builder model (each is replayed on the real CFGBuilder by check.py;
    same program texts in props/C03/witnesses.json). *)
From Coq Require Import ZArith List Bool.
From V.C03 Require Import PyAst PySem Cfg CfgSem Builder Encode.
Import ListNotations.

Definition v (n : nat) := EName (VU n).
Definition i (z : Z) := EConst (CInt z).
Definition call0 (f : nat) := ECall f ENil.
Definition one (s : stmt) := SCons s SNil.
Definition st0 : state := (store_of [VInt 0; VInt 1; VInt 2; VBool true], []).

(* v1 = (v0 + (v0 := 5))           Python reads the old v0 on the left *)
Definition w_walrus := one (SAssign (TName (VU 1)) (EBin BAdd (v 0) (EWalrus 0 (i 5)))).
(* v1 = (f0() + (f2() if v3 else f0(1)))     the conditional expression is evaluated before f0() *)
Definition w_ifexp := one (SAssign (TName (VU 1))
   (EBin BAdd (call0 0) (EIf (v 3) (call0 2) (ECall 0 (ECons (i 1) ENil))))).
(* v1 = (f0() + (v3 and f1()))      the BoolOp is evaluated before f0() *)
Definition w_boolop := one (SAssign (TName (VU 1))
   (EBin BAdd (call0 0) (EBool BoAnd (v 3) (call0 1)))).
(* if ((-5) < f0() < 9): v1 = 1     the middle operand is evaluated twice *)
Definition w_chain := one (SIf (ECmp (EUnary UNeg (i 5)) (CMore CLt (call0 0) (CLast CLt (i 9))))
   (one (SAssign (TName (VU 1)) (i 1))) SNil).
(* v1 = (v2 and 3)                  Python yields 3, the builder's CFG yields True *)
Definition w_boolval := one (SAssign (TName (VU 1)) (EBool BoAnd (v 2) (i 3))).
(* v1 += (v1 := 5)                  Python reads the old v1 first *)
Definition w_aug := one (SAug 1 BAdd (EWalrus 1 (i 5))).

(* what is observed of a finished run: returned value, v0..v4, call trace *)
Definition obs (r : res (val * state)) : list Z := enc_run 5 r.

Definition witnesses : list stmts := [w_walrus; w_ifexp; w_boolop; w_chain; w_boolval; w_aug].
