(** C03 — small-step semantics of CFGs (model file).

    A configuration is (block, position in the block, state, return register).  One step
    executes the statement at the position with its Python meaning ([exec_simple] of
    PySem.v) or, at the end of the block, evaluates the branch predicate (if any) and moves
    to successor 1 when it is truthy and successor 0 otherwise; a block without predicate
    moves to its first successor.  [return e] stores the value in the return register; the
    run ends when control reaches the exit block.  Dummy successors and the reachable flag
    play no role in execution. *)
From Coq Require Import ZArith List Bool.
From V.C03 Require Import PyAst PySem Cfg.
Import ListNotations.

Section WithOracle.
Variable oracle : trace -> nat -> list val -> val.

Record config := mkConfig { c_bb : nat; c_pos : nat; c_st : state; c_ret : option val }.

Inductive step_result := SNext (c : config) | SHalt (v : val) (st : state) | SStuck.

Definition step (g : cfg) (c : config) : step_result :=
  if Nat.eqb (c_bb c) exit_idx then
    SHalt (match c_ret c with Some v => v | None => VNone end) (c_st c)
  else
  match nth_error g (c_bb c) with
  | None => SStuck
  | Some b =>
    match nth_error (b_stmts b) (c_pos c) with
    | Some s =>
        match exec_simple oracle s (c_st c) with
        | Done (st', r) =>
            SNext (mkConfig (c_bb c) (S (c_pos c)) st'
                            (match r with Some v => Some v | None => c_ret c end))
        | _ => SStuck
        end
    | None =>
        match b_pred b with
        | None =>
            match b_succs b with
            | n :: _ => SNext (mkConfig n 0 (c_st c) (c_ret c))
            | [] => SStuck
            end
        | Some p =>
            match eval_truth oracle p (c_st c) with
            | Done (t, st') =>
                match nth_error (b_succs b) (if t then 1 else 0) with
                | Some n => SNext (mkConfig n 0 st' (c_ret c))
                | None => SStuck
                end
            | _ => SStuck
            end
        end
    end
  end.

Fixpoint run (g : cfg) (fuel : nat) (c : config) : res (val * state) :=
  match fuel with
  | O => Timeout
  | S f =>
    match step g c with
    | SNext c' => run g f c'
    | SHalt v st => Done (v, st)
    | SStuck => Fail
    end
  end.

Definition run_cfg (g : cfg) (fuel : nat) (st : state) : res (val * state) :=
  run g fuel (mkConfig entry_idx 0 st None).

End WithOracle.
