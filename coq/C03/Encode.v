(** C03 — serialisation of expressions, statements, CFGs and run results into integer
    lists, used only by the differential tie (props/C03/pyast.py implements the same
    encoding for the implementation side).  Definitions only. *)
From Coq Require Import ZArith List Bool.
From V.C03 Require Import PyAst PySem Cfg CfgSem Builder.
Import ListNotations.
Local Open Scope Z_scope.

Definition zn (n : nat) : Z := Z.of_nat n.
Definition enc_unop (o : unop) : Z := match o with UNot => 0 | UNeg => 1 | UPos => 2 | UInvert => 3 end.
Definition enc_binop (o : binop) : Z :=
  match o with BAdd => 0 | BSub => 1 | BMul => 2 | BFloorDiv => 3 | BMod => 4 | BBitAnd => 5 | BBitOr => 6 | BBitXor => 7 end.
Definition enc_cmpop (o : cmpop) : Z := match o with CEq => 0 | CNe => 1 | CLt => 2 | CLe => 3 | CGt => 4 | CGe => 5 end.
Definition enc_boolop (o : boolop) : Z := match o with BoAnd => 0 | BoOr => 1 end.
Definition enc_var (x : var) : list Z := match x with VU n => [3; zn n] | VT n => [4; zn n] end.

Fixpoint ctail_len (t : ctail) : nat := match t with CLast _ _ => 1 | CMore _ _ r => S (ctail_len r) end.
Fixpoint exprs_len (t : exprs) : nat := match t with ENil => 0 | ECons _ r => S (exprs_len r) end.

Fixpoint enc_expr (e : expr) : list Z :=
  match e with
  | EConst (CInt z) => [0; z]
  | EConst (CBool b) => [1; Z.b2z b]
  | EConst CNone => [2]
  | EName x => enc_var x
  | EUnary op a => 5 :: enc_unop op :: enc_expr a
  | EBin op a b => 6 :: enc_binop op :: enc_expr a ++ enc_expr b
  | ECmp l rest => 7 :: zn (ctail_len rest) :: enc_expr l ++ enc_ctail rest
  | EBool op a b => 8 :: enc_boolop op :: enc_expr a ++ enc_expr b
  | EIf c a b => 9 :: enc_expr c ++ enc_expr a ++ enc_expr b
  | EWalrus x a => 10 :: zn x :: enc_expr a
  | ECall f args => 11 :: zn f :: zn (exprs_len args) :: enc_exprs args
  | ETuple es => 12 :: zn (exprs_len es) :: enc_exprs es
  end
with enc_exprs (es : exprs) : list Z :=
  match es with ENil => [] | ECons e r => enc_expr e ++ enc_exprs r end
with enc_ctail (t : ctail) : list Z :=
  match t with
  | CLast op e => enc_cmpop op :: enc_expr e
  | CMore op e r => enc_cmpop op :: enc_expr e ++ enc_ctail r
  end.

Definition enc_simple (s : stmt) : list Z :=
  match s with
  | SAssign (TName x) e => 20 :: enc_var x ++ enc_expr e
  | SAssign (TTuple xs) e => 21 :: zn (length xs) :: map zn xs ++ enc_expr e
  | SAug x op e => 22 :: zn x :: enc_binop op :: enc_expr e
  | SExpr e => 23 :: enc_expr e
  | SReturn None => [24]
  | SReturn (Some e) => 25 :: enc_expr e
  | _ => [99]
  end.

Definition enc_block (b : block) : list Z :=
  Z.b2z (b_reach b) :: zn (length (b_succs b)) :: map zn (b_succs b) ++
  zn (length (b_dummy b)) :: map zn (b_dummy b) ++
  match b_pred b with None => [0] | Some p => 1 :: enc_expr p end ++
  zn (length (b_stmts b)) :: concat (map enc_simple (b_stmts b)).

Definition enc_berr (e : berr) : Z :=
  match e with ErrLoopElse => 1 | ErrNoLoop => 2 | ErrExpectedReturn => 3 | ErrUnmodelled => 4 | ErrInternal => 5 end.

Definition enc_build (r : bres cfg) : list (list Z) :=
  match r with
  | BErr e => [[-1; enc_berr e]]
  | BOk g _ => map enc_block g
  end.

Fixpoint enc_val (v : val) : list Z :=
  match v with
  | VInt z => [0; z]
  | VBool b => [1; Z.b2z b]
  | VNone => [2]
  | VTuple l => 3 :: zn (length l) :: concat (map enc_val l)
  end.

Definition enc_event (e : event) : list Z :=
  zn (ev_fn e) :: zn (length (ev_args e)) :: concat (map enc_val (ev_args e)) ++ enc_val (ev_res e).

(** result of a run, observed on the user variables v0..v(nv-1):
    [0; value; nv values (or 9 for unbound); events oldest first] | [1] fail | [2] timeout *)
Definition enc_run (nv : nat) (r : res (val * state)) : list Z :=
  match r with
  | Done (v, (s, tr)) =>
      0 :: enc_val v ++
      concat (map (fun i => match s (VU i) with Some w => enc_val w | None => [9] end) (seq 0 nv)) ++
      zn (length tr) :: concat (map enc_event (rev tr))
  | Fail => [1]
  | Timeout => [2]
  end.

Definition store_of (vs : list val) : store :=
  fun x => match x with VU n => nth_error vs n | VT _ => None end.
