(** C03 — source-level facts used by the proof for lifted expressions: states equal on user
    variables ([sim]), what evaluation may change, boolean-valued expressions. *)
From Coq Require Import ZArith List Bool Lia.
From V.C03 Require Import PyAst PySem Frag Lift.
Import ListNotations.

(* CFG state vs Python state: same trace, same user variables (temporaries are free) *)
Definition sim (c p : state) : Prop := snd c = snd p /\ forall x, fst c (VU x) = fst p (VU x).

Lemma sim_refl : forall s, sim s s.
Proof. split; auto. Qed.

Lemma sim_upd_user : forall c p x v, sim c p ->
  sim (upd (fst c) (VU x) v, snd c) (upd (fst p) (VU x) v, snd p).
Proof. intros c p x v (T&U). split; simpl; auto. intros y. unfold upd. simpl. destruct (Nat.eqb x y); auto. Qed.

Lemma sim_upd_tmp : forall c p k v, sim c p -> sim (upd (fst c) (VT k) v, snd c) p.
Proof. intros c p k v (T&U). split; simpl; auto. Qed.

(* variables an evaluation may leave changed: user variables re-bound by a walrus *)
Definition okv (w : list nat) (y : var) : Prop :=
  match y with VU x => ~ In x w | VT _ => True end.

Lemma okv_app : forall a b y, okv (a ++ b) y -> okv a y /\ okv b y.
Proof. intros a b [x|k]; simpl; auto. intros H. split; intro; apply H; apply in_or_app; auto. Qed.

Lemma okv_cons : forall x w y, okv (x :: w) y -> y <> VU x /\ okv w y.
Proof.
  intros x w [z|k]; simpl; intros H; split; auto; try discriminate.
  intro E. inversion E; subst. apply H; auto.
Qed.

Lemma var_eqb_neq : forall x y, y <> x -> var_eqb x y = false.
Proof.
  intros [a|a] [b|b] H; simpl; auto; apply Nat.eqb_neq; intro; subst; apply H; auto.
Qed.

Lemma disjoint_spec : forall a b, disjoint a b = true -> forall x, In x a -> ~ In x b.
Proof.
  unfold disjoint. intros a b H x Ha Hb. rewrite forallb_forall in H. specialize (H x Ha).
  apply negb_true_iff in H. assert (existsb (Nat.eqb x) b = true); [|congruence].
  apply existsb_exists. exists x. split; auto. apply Nat.eqb_refl.
Qed.

Lemma pure_wtargets_all :
  (forall e, pure e = true -> wtargets e = []) /\
  (forall es, pure_list es = true -> wtargets_list es = []) /\
  (forall t, pure_ctail t = true -> wtargets_ctail t = []).
Proof.
  apply expr_mutind; intros; simpl in *; auto; try discriminate;
    repeat match goal with H : _ && _ = true |- _ => apply andb_prop in H; destruct H end;
    repeat match goal with H : ?P -> _ = [], H' : ?P |- _ => rewrite (H H') end; auto.
Qed.

Section Sim.
Variable oracle : trace -> nat -> list val -> val.

Lemma eval_sim_all :
  (forall e, nt e = true -> forall stc stp v stp1, sim stc stp -> eval oracle e stp = Done (v, stp1) ->
     exists stc1, eval oracle e stc = Done (v, stc1) /\ sim stc1 stp1) /\
  (forall es, nt_list es = true -> forall stc stp vs stp1, sim stc stp -> eval_list oracle es stp = Done (vs, stp1) ->
     exists stc1, eval_list oracle es stc = Done (vs, stc1) /\ sim stc1 stp1) /\
  (forall t, nt_ctail t = true -> forall vl stc stp v stp1, sim stc stp -> eval_ctail oracle vl t stp = Done (v, stp1) ->
     exists stc1, eval_ctail oracle vl t stc = Done (v, stc1) /\ sim stc1 stp1).
Proof.
  apply expr_mutind.
  - intros c _ stc stp v stp1 S H. simpl in *. inversion H; subst. eauto.
  - intros x N stc stp v stp1 S H. destruct x as [n|n]; simpl in N; try discriminate. simpl in *.
    destruct S as (T&U). rewrite U. destruct (fst stp (VU n)); inversion H; subst.
    exists stc. split; auto. split; auto.
  - intros op e IH N stc stp v stp1 S H. simpl in N, H.
    destruct (eval oracle e stp) as [[v1 s1]| |] eqn:E; simpl in H; try discriminate.
    destruct (IH N _ _ _ _ S E) as (c1&E1&S1). simpl. rewrite E1. simpl.
    destruct (eval_unop op v1); inversion H; subst. eauto.
  - intros op a IHa b IHb N stc stp v stp1 S H. simpl in N, H. apply andb_prop in N. destruct N as [Na Nb].
    destruct (eval oracle a stp) as [[va s1]| |] eqn:Ea; simpl in H; try discriminate.
    destruct (eval oracle b s1) as [[vb s2]| |] eqn:Eb; simpl in H; try discriminate.
    destruct (IHa Na _ _ _ _ S Ea) as (c1&E1&S1). destruct (IHb Nb _ _ _ _ S1 Eb) as (c2&E2&S2).
    simpl. rewrite E1. simpl. rewrite E2. simpl. destruct (eval_binop op va vb); inversion H; subst. eauto.
  - intros l IHl rest IHr N stc stp v stp1 S H. simpl in N, H. apply andb_prop in N. destruct N as [Nl Nr].
    destruct (eval oracle l stp) as [[vl s1]| |] eqn:El; simpl in H; try discriminate.
    destruct (IHl Nl _ _ _ _ S El) as (c1&E1&S1). destruct (IHr Nr _ _ _ _ _ S1 H) as (c2&E2&S2).
    simpl. rewrite E1. simpl. eauto.
  - intros op a IHa b IHb N stc stp v stp1 S H. simpl in N. apply andb_prop in N. destruct N as [Na Nb].
    destruct op; simpl in H; destruct (eval oracle a stp) as [[va s1]| |] eqn:Ea; simpl in H; try discriminate;
      destruct (IHa Na _ _ _ _ S Ea) as (c1&E1&S1); simpl; rewrite E1; simpl;
      destruct (truthy va); try (inversion H; subst; eauto; fail); eapply IHb; eauto.
  - intros c IHc a IHa b IHb N stc stp v stp1 S H. simpl in N, H.
    apply andb_prop in N. destruct N as [N Nb]. apply andb_prop in N. destruct N as [Nc Na].
    destruct (eval oracle c stp) as [[vc s1]| |] eqn:Ec; simpl in H; try discriminate.
    destruct (IHc Nc _ _ _ _ S Ec) as (c1&E1&S1). simpl. rewrite E1. simpl.
    destruct (truthy vc); [eapply IHa | eapply IHb]; eauto.
  - intros x e IH N stc stp v stp1 S H. simpl in N, H.
    destruct (eval oracle e stp) as [[v1 s1]| |] eqn:E; simpl in H; try discriminate.
    destruct (IH N _ _ _ _ S E) as (c1&E1&S1). simpl. rewrite E1. simpl. inversion H; subst.
    eexists. split; [reflexivity|]. apply sim_upd_user; auto.
  - intros f args IH N stc stp v stp1 S H. simpl in N, H.
    destruct (eval_list oracle args stp) as [[vs s1]| |] eqn:E; simpl in H; try discriminate.
    destruct (IH N _ _ _ _ S E) as (c1&E1&S1). simpl. rewrite E1. simpl. inversion H; subst.
    destruct S1 as (T1&U1). rewrite T1. eexists. split; [reflexivity|]. split; simpl; auto.
  - intros es IH N stc stp v stp1 S H. simpl in N, H.
    destruct (eval_list oracle es stp) as [[vs s1]| |] eqn:E; simpl in H; try discriminate.
    destruct (IH N _ _ _ _ S E) as (c1&E1&S1). simpl. rewrite E1. simpl. inversion H; subst. eauto.
  - intros _ stc stp vs stp1 S H. simpl in *. inversion H; subst. eauto.
  - intros e IHe es IHes N stc stp vs stp1 S H. simpl in N, H. apply andb_prop in N. destruct N as [Ne Nes].
    destruct (eval oracle e stp) as [[v1 s1]| |] eqn:E1; simpl in H; try discriminate.
    destruct (eval_list oracle es s1) as [[v2 s2]| |] eqn:E2; simpl in H; try discriminate.
    destruct (IHe Ne _ _ _ _ S E1) as (c1&F1&S1). destruct (IHes Nes _ _ _ _ S1 E2) as (c2&F2&S2).
    simpl. rewrite F1. simpl. rewrite F2. simpl. inversion H; subst. eauto.
  - intros op e IHe N vl stc stp v stp1 S H. simpl in N, H.
    destruct (eval oracle e stp) as [[vr s1]| |] eqn:E; simpl in H; try discriminate.
    destruct (IHe N _ _ _ _ S E) as (c1&E1&S1). simpl. rewrite E1. simpl.
    destruct (eval_cmpop op vl vr); inversion H; subst. eauto.
  - intros op e IHe rest IHr N vl stc stp v stp1 S H. simpl in N, H. apply andb_prop in N. destruct N as [Ne Nr].
    destruct (eval oracle e stp) as [[vm s1]| |] eqn:E; simpl in H; try discriminate.
    destruct (IHe Ne _ _ _ _ S E) as (c1&E1&S1). simpl. rewrite E1. simpl.
    destruct (eval_cmpop op vl vm) as [[|]|]; try discriminate.
    + eapply IHr; eauto.
    + inversion H; subst. eauto.
Qed.

Lemma eval_sim : forall e stc stp v stp1, nt e = true -> sim stc stp -> eval oracle e stp = Done (v, stp1) ->
  exists stc1, eval oracle e stc = Done (v, stc1) /\ sim stc1 stp1.
Proof. intros. eapply (proj1 eval_sim_all); eauto. Qed.

Lemma eval_truth_sim : forall e stc stp b stp1, nt e = true -> sim stc stp ->
  eval_truth oracle e stp = Done (b, stp1) ->
  exists stc1, eval_truth oracle e stc = Done (b, stc1) /\ sim stc1 stp1.
Proof.
  unfold eval_truth. intros e stc stp b stp1 N S H.
  destruct (eval oracle e stp) as [[v s1]| |] eqn:E; simpl in H; try discriminate. inversion H; subst.
  destruct (eval_sim _ _ _ _ _ N S E) as (c1&E1&S1). rewrite E1. simpl. eauto.
Qed.

(* evaluation changes no temporary and only the user variables bound by its walruses *)
Lemma eval_frame_all :
  (forall e st v st', eval oracle e st = Done (v, st') -> forall y, okv (wtargets e) y -> fst st' y = fst st y) /\
  (forall es st vs st', eval_list oracle es st = Done (vs, st') -> forall y, okv (wtargets_list es) y -> fst st' y = fst st y) /\
  (forall t vl st v st', eval_ctail oracle vl t st = Done (v, st') -> forall y, okv (wtargets_ctail t) y -> fst st' y = fst st y).
Proof.
  apply expr_mutind.
  - intros c st v st' H y _. simpl in H. inversion H; auto.
  - intros x st v st' H y _. simpl in H. destruct (fst st x); inversion H; auto.
  - intros op e IH st v st' H y O. simpl in H, O.
    destruct (eval oracle e st) as [[v1 s1]| |] eqn:E; simpl in H; try discriminate.
    destruct (eval_unop op v1); inversion H; subst. eapply IH; eauto.
  - intros op a IHa b IHb st v st' H y O. simpl in H, O. apply okv_app in O. destruct O as [Oa Ob].
    destruct (eval oracle a st) as [[va s1]| |] eqn:Ea; simpl in H; try discriminate.
    destruct (eval oracle b s1) as [[vb s2]| |] eqn:Eb; simpl in H; try discriminate.
    destruct (eval_binop op va vb); inversion H; subst. rewrite (IHb _ _ _ Eb y Ob). eapply IHa; eauto.
  - intros l IHl rest IHr st v st' H y O. simpl in H, O. apply okv_app in O. destruct O as [Ol Or].
    destruct (eval oracle l st) as [[vl s1]| |] eqn:El; simpl in H; try discriminate.
    rewrite (IHr _ _ _ _ H y Or). eapply IHl; eauto.
  - intros op a IHa b IHb st v st' H y O. simpl in O. apply okv_app in O. destruct O as [Oa Ob].
    destruct op; simpl in H; destruct (eval oracle a st) as [[va s1]| |] eqn:Ea; simpl in H; try discriminate;
      destruct (truthy va); try (inversion H; subst; eapply IHa; eauto; fail);
      rewrite (IHb _ _ _ H y Ob); eapply IHa; eauto.
  - intros c IHc a IHa b IHb st v st' H y O. simpl in H, O.
    apply okv_app in O. destruct O as [Oc O]. apply okv_app in O. destruct O as [Oa Ob].
    destruct (eval oracle c st) as [[vc s1]| |] eqn:Ec; simpl in H; try discriminate.
    destruct (truthy vc); [rewrite (IHa _ _ _ H y Oa) | rewrite (IHb _ _ _ H y Ob)]; eapply IHc; eauto.
  - intros x e IH st v st' H y O. simpl in H, O. apply okv_cons in O. destruct O as [Ny O].
    destruct (eval oracle e st) as [[v1 s1]| |] eqn:E; simpl in H; try discriminate.
    inversion H; subst. simpl. unfold upd. rewrite var_eqb_neq by auto. eapply IH; eauto.
  - intros f args IH st v st' H y O. simpl in H, O.
    destruct (eval_list oracle args st) as [[vs s1]| |] eqn:E; simpl in H; try discriminate.
    inversion H; subst. simpl. eapply IH; eauto.
  - intros es IH st v st' H y O. simpl in H, O.
    destruct (eval_list oracle es st) as [[vs s1]| |] eqn:E; simpl in H; try discriminate.
    inversion H; subst. eapply IH; eauto.
  - intros st vs st' H y _. simpl in H. inversion H; auto.
  - intros e IHe es IHes st vs st' H y O. simpl in H, O. apply okv_app in O. destruct O as [Oe Oes].
    destruct (eval oracle e st) as [[v1 s1]| |] eqn:E1; simpl in H; try discriminate.
    destruct (eval_list oracle es s1) as [[v2 s2]| |] eqn:E2; simpl in H; try discriminate.
    inversion H; subst. rewrite (IHes _ _ _ E2 y Oes). eapply IHe; eauto.
  - intros op e IHe vl st v st' H y O. simpl in H, O.
    destruct (eval oracle e st) as [[vr s1]| |] eqn:E; simpl in H; try discriminate.
    destruct (eval_cmpop op vl vr); inversion H; subst. eapply IHe; eauto.
  - intros op e IHe rest IHr vl st v st' H y O. simpl in H, O. apply okv_app in O. destruct O as [Oe Or].
    destruct (eval oracle e st) as [[vm s1]| |] eqn:E; simpl in H; try discriminate.
    destruct (eval_cmpop op vl vm) as [[|]|]; try discriminate.
    + rewrite (IHr _ _ _ _ H y Or). eapply IHe; eauto.
    + inversion H; subst. eapply IHe; eauto.
Qed.

Lemma eval_frame : forall e st v st' y, eval oracle e st = Done (v, st') -> okv (wtargets e) y -> fst st' y = fst st y.
Proof. intros. eapply (proj1 eval_frame_all); eauto. Qed.

Lemma ctail_bool : forall t vl st v st', eval_ctail oracle vl t st = Done (v, st') -> exists b, v = VBool b.
Proof.
  induction t; intros vl st v st' H; simpl in H;
    destruct (eval oracle e st) as [[vr s1]| |]; simpl in H; try discriminate.
  - destruct (eval_cmpop op vl vr); inversion H; eauto.
  - destruct (eval_cmpop op vl vr) as [[|]|]; try discriminate; eauto. inversion H; eauto.
Qed.

Lemma boolish_val : forall e, boolish e = true -> forall st v st', eval oracle e st = Done (v, st') ->
  exists b, v = VBool b.
Proof.
  induction e; intros B st v st' H; simpl in B; try discriminate.
  - destruct c; try discriminate. simpl in H. inversion H; eauto.
  - destruct op; try discriminate. simpl in H.
    destruct (eval oracle e st) as [[v1 s1]| |]; simpl in H; try discriminate. inversion H; eauto.
  - simpl in H. destruct (eval oracle e st) as [[vl s1]| |]; simpl in H; try discriminate.
    eapply ctail_bool; eauto.
  - apply andb_prop in B. destruct B as [B1 B2].
    destruct op; simpl in H; destruct (eval oracle e1 st) as [[va s1]| |] eqn:Ea; simpl in H; try discriminate;
      destruct (truthy va); try (inversion H; subst; eapply IHe1; eauto; fail); eapply IHe2; eauto.
  - apply andb_prop in B. destruct B as [B1 B2]. simpl in H.
    destruct (eval oracle e1 st) as [[vc s1]| |]; simpl in H; try discriminate.
    destruct (truthy vc); [eapply IHe2 | eapply IHe3]; eauto.
  - simpl in H. destruct (eval oracle e st) as [[v1 s1]| |] eqn:E; simpl in H; try discriminate.
    inversion H; subst. eapply IHe; eauto.
Qed.
End Sim.

(* ------------------------------------------------------------------ frames between CFG states *)
(* s' differs from s at most on the user variables in w and the temporaries lo <= k < hi *)
Definition mods (w : list nat) (lo hi : nat) (s s' : state) : Prop :=
  (forall x, ~ In x w -> fst s' (VU x) = fst s (VU x)) /\
  (forall k, ~ (lo <= k < hi) -> fst s' (VT k) = fst s (VT k)).

(* s' agrees with s on the user variables in R and the temporaries lo <= k < hi *)
Definition agree (R : list nat) (lo hi : nat) (s s' : state) : Prop :=
  (forall x, In x R -> fst s' (VU x) = fst s (VU x)) /\
  (forall k, lo <= k < hi -> fst s' (VT k) = fst s (VT k)).

Lemma mods_refl : forall w lo hi s, mods w lo hi s s.
Proof. split; auto. Qed.

Lemma mods_trans : forall w1 w2 lo mid hi s s1 s2, lo <= mid <= hi ->
  mods w1 lo mid s s1 -> mods w2 mid hi s1 s2 -> mods (w1 ++ w2) lo hi s s2.
Proof.
  intros w1 w2 lo mid hi s s1 s2 L (A1&B1) (A2&B2). split.
  - intros x N. rewrite A2, A1; auto; intro; apply N; apply in_or_app; auto.
  - intros k N. rewrite B2, B1; auto; lia.
Qed.

Lemma mods_weaken : forall w w' lo hi lo' hi' s s', mods w lo hi s s' -> incl w w' -> lo' <= lo -> hi <= hi' ->
  mods w' lo' hi' s s'.
Proof.
  intros w w' lo hi lo' hi' s s' (A&B) I L1 L2. split.
  - intros x N. apply A. intro. apply N. apply I. auto.
  - intros k N. apply B. lia.
Qed.

Lemma agree_refl : forall R lo hi s, agree R lo hi s s.
Proof. split; auto. Qed.

Lemma agree_trans : forall R lo hi s1 s2 s3, agree R lo hi s1 s2 -> agree R lo hi s2 s3 -> agree R lo hi s1 s3.
Proof. intros R lo hi s1 s2 s3 (A1&B1) (A2&B2). split; intros; [rewrite A2, A1 | rewrite B2, B1]; auto. Qed.

Lemma agree_weaken : forall R R' lo hi lo' hi' s s', agree R lo hi s s' -> incl R' R -> lo <= lo' -> hi' <= hi ->
  agree R' lo' hi' s s'.
Proof. intros R R' lo hi lo' hi' s s' (A&B) I L1 L2. split; intros; [apply A; apply I; auto | apply B; lia]. Qed.

Lemma mods_agree : forall w lo hi R lo' hi' s s', mods w lo hi s s' ->
  (forall x, In x R -> ~ In x w) -> (hi' <= lo \/ hi <= lo') -> agree R lo' hi' s s'.
Proof. intros w lo hi R lo' hi' s s' (A&B) D L. split; intros; [apply A; apply D; auto | apply B; lia]. Qed.
