(** C03 — infrastructure for the simulation proof: block lists, the "extends" relation
    between builder states and final graphs, and multi-step execution. *)
From Coq Require Import ZArith List Bool Lia.
From V.C03 Require Import PyAst PySem Cfg CfgSem Builder.
Import ListNotations.

(* ------------------------------------------------------------------ monad inversion *)
Lemma bind_inv : forall A B (m : M A) (f : A -> M B) s b s',
  bind m f s = BOk b s' -> exists a s1, m s = BOk a s1 /\ f a s1 = BOk b s'.
Proof. unfold bind. intros. destruct (m s) eqn:E; [eauto | discriminate]. Qed.

Lemma ret_inv : forall A (a b : A) s s', ret a s = BOk b s' -> a = b /\ s = s'.
Proof. unfold ret. intros. inversion H; auto. Qed.

(* ------------------------------------------------------------------ lists *)
Definition blk (g : list block) (i : nat) : block := nth i g empty_block.

Lemma nth_error_blk : forall g i, i < length g -> nth_error g i = Some (blk g i).
Proof. intros. unfold blk. apply nth_error_nth'. auto. Qed.

Lemma upd_nth_length : forall A i (f : A -> A) l, length (upd_nth i f l) = length l.
Proof. induction i; destruct l; simpl; auto. Qed.

Lemma blk_upd_same : forall g i f, i < length g -> blk (upd_nth i f g) i = f (blk g i).
Proof. unfold blk. induction g; intros; simpl in *; [lia|]. destruct i; simpl; auto. apply IHg. lia. Qed.

Lemma blk_upd_other : forall g i j f, i <> j -> blk (upd_nth i f g) j = blk g j.
Proof.
  unfold blk. induction g; intros.
  - destruct i; destruct j; simpl; auto.
  - destruct i; destruct j; simpl; auto; try lia.
Qed.

Lemma blk_app_old : forall g i x, i < length g -> blk (g ++ [x]) i = blk g i.
Proof. intros. unfold blk. apply app_nth1. auto. Qed.

Lemma blk_app_new : forall g x, blk (g ++ [x]) (length g) = x.
Proof. intros. unfold blk. rewrite app_nth2; auto. rewrite Nat.sub_diag. auto. Qed.

(* ------------------------------------------------------------------ block relations *)
Definition sem_same (b b' : block) : Prop :=
  b_stmts b' = b_stmts b /\ b_pred b' = b_pred b /\ b_succs b' = b_succs b.

(* b' extends b: an open block (no successor yet) may gain statements and be closed;
   a closed block is final *)
Definition bext (b b' : block) : Prop :=
  (exists rest, b_stmts b' = b_stmts b ++ rest) /\ (b_succs b <> [] -> sem_same b b').

Lemma sem_same_refl : forall b, sem_same b b.
Proof. unfold sem_same; auto. Qed.
Lemma sem_same_trans : forall a b c, sem_same a b -> sem_same b c -> sem_same a c.
Proof. unfold sem_same; intros a b c (?&?&?) (?&?&?); repeat split; congruence. Qed.
Lemma sem_same_bext : forall a b, sem_same a b -> bext a b.
Proof. unfold bext. intros a b S. split; [exists []; rewrite app_nil_r; apply S | auto]. Qed.
Lemma bext_refl : forall b, bext b b.
Proof. intros. apply sem_same_bext, sem_same_refl. Qed.
Lemma bext_trans : forall a b c, bext a b -> bext b c -> bext a c.
Proof.
  unfold bext. intros a b c ((r1&H1)&C1) ((r2&H2)&C2). split.
  - exists (r1 ++ r2). rewrite H2, H1, app_assoc. auto.
  - intros N. pose proof (C1 N) as S1. assert (b_succs b <> []) by (destruct S1 as (_&_&->); auto).
    eapply sem_same_trans; eauto.
Qed.

Definition ext (g G : list block) : Prop :=
  length g <= length G /\ forall i, i < length g -> bext (blk g i) (blk G i).

Lemma ext_refl : forall g, ext g g.
Proof. split; auto. intros. apply bext_refl. Qed.
Lemma ext_trans : forall a b c, ext a b -> ext b c -> ext a c.
Proof. intros a b c (L1&H1) (L2&H2). split; [lia|]. intros. eapply bext_trans; [apply H1 | apply H2]; lia. Qed.

(* what one builder action does to the graph when [bb] is the block being filled *)
Definition grows (g : list block) (bb : nat) (g' : list block) : Prop :=
  length g <= length g' /\
  (forall i, i < length g -> i <> bb -> sem_same (blk g i) (blk g' i)) /\
  bext (blk g bb) (blk g' bb).

Lemma grows_ext : forall g bb g', grows g bb g' -> ext g g'.
Proof.
  intros g bb g' (L&F&B). split; auto. intros i Hi. destruct (Nat.eq_dec i bb); [subst; auto|].
  apply sem_same_bext; auto.
Qed.

Lemma grows_refl : forall g bb, grows g bb g.
Proof. repeat split; auto using sem_same_refl, bext_refl. apply bext_refl. Qed.

Lemma grows_trans : forall g bb g1 bb1 g2,
  grows g bb g1 -> grows g1 bb1 g2 -> (bb1 = bb \/ length g <= bb1) -> bb < length g ->
  grows g bb g2.
Proof.
  intros g bb g1 bb1 g2 (L1&F1&B1) (L2&F2&B2) D Hbb. split; [lia|]. split.
  - intros i Hi Ni. eapply sem_same_trans; [apply F1; auto|]. apply F2; [lia|]. destruct D; lia.
  - destruct D as [->|D]; [eapply bext_trans; eauto|].
    eapply bext_trans; [apply B1|]. apply sem_same_bext. apply F2; lia.
Qed.

(* growth at another block than [bb] leaves [bb] alone *)
Lemma grows_other : forall g bb g' i, grows g bb g' -> i < length g -> i <> bb -> sem_same (blk g i) (blk g' i).
Proof. intros g bb g' i (_&F&_); auto. Qed.

Definition opn (g : list block) (i : nat) : Prop :=
  i < length g /\ b_succs (blk g i) = [] /\ b_pred (blk g i) = None.

Lemma opn_sem_same : forall g g' i, opn g i -> length g <= length g' -> sem_same (blk g i) (blk g' i) -> opn g' i.
Proof. unfold opn, sem_same. intros g g' i (?&?&?) L (?&?&?). repeat split; try lia; congruence. Qed.

Definition slen (g : list block) (i : nat) : nat := length (b_stmts (blk g i)).

Lemma grows_new : forall g bb, grows g bb (g ++ [empty_block]).
Proof.
  intros. split; [rewrite app_length; simpl; lia|]. split.
  - intros. rewrite blk_app_old; auto using sem_same_refl.
  - destruct (Nat.lt_ge_cases bb (length g)).
    + rewrite blk_app_old; auto using bext_refl.
    + unfold blk at 1. rewrite nth_overflow by lia.
      split; [eexists; simpl; eauto | simpl; congruence].
Qed.

Lemma grows_upd : forall g bb F, opn g bb ->
  (forall b, b_succs b = [] -> exists rest, b_stmts (F b) = b_stmts b ++ rest) ->
  grows g bb (upd_nth bb F g).
Proof.
  intros g bb F (L&O&_) HF. split; [rewrite upd_nth_length; auto|]. split.
  - intros. rewrite blk_upd_other; auto using sem_same_refl.
  - rewrite blk_upd_same by auto. split; [apply HF; auto | congruence].
Qed.

Lemma grows_dummy : forall g bb x n, grows g bb (upd_nth x (add_dummy n) g).
Proof.
  intros. assert (forall i, sem_same (blk g i) (blk (upd_nth x (add_dummy n) g) i)).
  { intros i. destruct (Nat.eq_dec x i).
    - subst. destruct (Nat.lt_ge_cases i (length g)).
      + rewrite blk_upd_same by auto. unfold sem_same; simpl; auto.
      + unfold blk. rewrite !nth_overflow; try rewrite upd_nth_length; auto using sem_same_refl.
    - rewrite blk_upd_other; auto using sem_same_refl. }
  split; [rewrite upd_nth_length; auto|]. split; auto using sem_same_bext.
Qed.

(* ------------------------------------------------------------------ execution *)
Section Exec.
Variable oracle : trace -> nat -> list val -> val.
Variable G : cfg.

Inductive steps : config -> config -> Prop :=
| steps_refl : forall c, steps c c
| steps_cons : forall c c1 c2, step oracle G c = SNext c1 -> steps c1 c2 -> steps c c2.

Lemma steps_trans : forall a b c, steps a b -> steps b c -> steps a c.
Proof. induction 1; intros; auto. econstructor; eauto. Qed.

Lemma steps_one : forall c c1, step oracle G c = SNext c1 -> steps c c1.
Proof. intros. econstructor; eauto. constructor. Qed.

Lemma steps_run : forall a b, steps a b -> forall f r, run oracle G f b = Done r ->
  exists f', run oracle G f' a = Done r.
Proof.
  induction 1; intros; eauto. destruct (IHsteps _ _ H1) as (f'&R). exists (S f'). simpl. rewrite H. auto.
Qed.

(* a statement of the current block *)
Lemma step_stmt : forall bb k st ret s st' r,
  bb <> exit_idx -> bb < length G -> nth_error (b_stmts (blk G bb)) k = Some s ->
  exec_simple oracle s st = Done (st', r) ->
  step oracle G (mkConfig bb k st ret) =
    SNext (mkConfig bb (S k) st' (match r with Some v => Some v | None => ret end)).
Proof.
  intros. unfold step. simpl. destruct (Nat.eqb_spec bb exit_idx); [contradiction|].
  rewrite nth_error_blk by auto. rewrite H1. rewrite H2. auto.
Qed.

Lemma step_jump : forall bb st ret n,
  bb <> exit_idx -> bb < length G -> b_pred (blk G bb) = None -> b_succs (blk G bb) = [n] ->
  step oracle G (mkConfig bb (length (b_stmts (blk G bb))) st ret) = SNext (mkConfig n 0 st ret).
Proof.
  intros. unfold step. simpl. destruct (Nat.eqb_spec bb exit_idx); [contradiction|].
  rewrite nth_error_blk by auto.
  replace (nth_error (b_stmts (blk G bb)) (length (b_stmts (blk G bb)))) with (@None stmt)
    by (symmetry; apply nth_error_None; auto).
  rewrite H1, H2. auto.
Qed.

Lemma step_branch : forall bb st ret p f t b st',
  bb <> exit_idx -> bb < length G -> b_pred (blk G bb) = Some p -> b_succs (blk G bb) = [f; t] ->
  eval_truth oracle p st = Done (b, st') ->
  step oracle G (mkConfig bb (length (b_stmts (blk G bb))) st ret) =
    SNext (mkConfig (if b then t else f) 0 st' ret).
Proof.
  intros. unfold step. simpl. destruct (Nat.eqb_spec bb exit_idx); [contradiction|].
  rewrite nth_error_blk by auto.
  replace (nth_error (b_stmts (blk G bb)) (length (b_stmts (blk G bb)))) with (@None stmt)
    by (symmetry; apply nth_error_None; auto).
  rewrite H1, H3, H2. destruct b; auto.
Qed.
End Exec.
