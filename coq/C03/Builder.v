(** C03 — executable model of guppylang_internals/cfg/builder.py (model file).

    [CFGBuilder], [ExprBuilder] and [BranchBuilder] as a state monad over
    (list of blocks, next temporary).  Blocks are only appended ([CFG.new_bb]); block numbers
    and [%tmpN] allocation order follow the Python code statement by statement so that the
    model's CFG can be compared for *equality* with the CFG the real builder produces.

    Modelled as the code is after props/C03/fix-1.patch and fix-2.patch:
      - [while ... else] is rejected ([ErrLoopElse]) instead of silently dropping the suite;
      - folding [-<constant>] creates a fresh constant instead of mutating the shared node.
    Outside the model (builder returns [ErrUnmodelled]): a chained comparison whose *middle*
    operand contains a lifted construct (the real builder visits that shared, in-place
    mutated node twice); the check covers those programs by interpreting the real CFG. *)
From Coq Require Import ZArith List Bool.
From V.C03 Require Import PyAst Cfg.
Import ListNotations.

Inductive berr := ErrLoopElse | ErrNoLoop | ErrExpectedReturn | ErrUnmodelled | ErrInternal.

Record bstate := mkB { bs_blocks : list block; bs_tmp : nat }.

Inductive bres (A : Type) := BOk (a : A) (s : bstate) | BErr (e : berr).
Arguments BOk {A} a s.
Arguments BErr {A} e.

Definition M (A : Type) := bstate -> bres A.
Definition ret {A} (a : A) : M A := fun s => BOk a s.
Definition bind {A B} (m : M A) (f : A -> M B) : M B :=
  fun s => match m s with BOk a s' => f a s' | BErr e => BErr e end.
Definition fail {A} (e : berr) : M A := fun _ => BErr e.
Notation "'LET' x <- m 'IN' f" := (bind m (fun x => f)) (at level 200, x name, m at level 100, f at level 200).
Notation "'DO' m 'THEN' f" := (bind m (fun _ => f)) (at level 200, m at level 100, f at level 200).

Fixpoint upd_nth {A} (i : nat) (f : A -> A) (l : list A) : list A :=
  match l, i with
  | [], _ => []
  | x :: r, O => f x :: r
  | x :: r, S j => x :: upd_nth j f r
  end.

Definition add_succ (n : nat) (b : block) : block :=
  mkBlock (b_stmts b) (b_pred b) (b_succs b ++ [n]) (b_dummy b) (b_reach b).
Definition add_dummy (n : nat) (b : block) : block :=
  mkBlock (b_stmts b) (b_pred b) (b_succs b) (b_dummy b ++ [n]) (b_reach b).
Definition push_stmt (s : stmt) (b : block) : block :=
  mkBlock (b_stmts b ++ [s]) (b_pred b) (b_succs b) (b_dummy b) (b_reach b).
Definition put_pred (p : expr) (b : block) : block :=
  mkBlock (b_stmts b) (Some p) (b_succs b) (b_dummy b) (b_reach b).
Definition put_reach (r : bool) (b : block) : block :=
  mkBlock (b_stmts b) (b_pred b) (b_succs b) (b_dummy b) r.

Definition modify (i : nat) (f : block -> block) : M unit :=
  fun s => BOk tt (mkB (upd_nth i f (bs_blocks s)) (bs_tmp s)).

(* CFG.new_bb() without predecessors *)
Definition new_bb : M nat :=
  fun s => BOk (length (bs_blocks s)) (mkB (bs_blocks s ++ [empty_block]) (bs_tmp s)).
Definition link (src tgt : nat) : M unit := modify src (add_succ tgt).
Definition dummy_link (src tgt : nat) : M unit := modify src (add_dummy tgt).
Definition add_stmt (bb : nat) (s : stmt) : M unit := modify bb (push_stmt s).
Definition fresh_tmp : M nat :=
  fun s => BOk (bs_tmp s) (mkB (bs_blocks s) (S (bs_tmp s))).

(* bb.branch_pred = pred; link(bb, false_bb); link(bb, true_bb) *)
Definition close_branch (bb : nat) (p : expr) (f t : nat) : M unit :=
  DO modify bb (put_pred p) THEN DO link bb f THEN link bb t.

(** What [ExprBuilder] does to an expression without lifted constructs: fold [-c]. *)
Definition neg_const (c : const) : option const :=
  match c with
  | CInt z => Some (CInt (- z))
  | CBool b => Some (CInt (- Z.b2z b))
  | CNone => None
  end.

Fixpoint fold_neg (e : expr) : expr :=
  match e with
  | EConst _ | EName _ => e
  | EUnary op a =>
      match op, a with
      | UNeg, EConst c => match neg_const c with Some c' => EConst c' | None => EUnary op (fold_neg a) end
      | _, _ => EUnary op (fold_neg a)
      end
  | EBin op a b => EBin op (fold_neg a) (fold_neg b)
  | ECmp l rest => ECmp (fold_neg l) (fold_neg_ctail rest)
  | EBool op a b => EBool op (fold_neg a) (fold_neg b)
  | EIf c a b => EIf (fold_neg c) (fold_neg a) (fold_neg b)
  | EWalrus x a => EWalrus x (fold_neg a)
  | ECall f args => ECall f (fold_neg_list args)
  | ETuple es => ETuple (fold_neg_list es)
  end
with fold_neg_list (es : exprs) : exprs :=
  match es with ENil => ENil | ECons e r => ECons (fold_neg e) (fold_neg_list r) end
with fold_neg_ctail (t : ctail) : ctail :=
  match t with
  | CLast op e => CLast op (fold_neg e)
  | CMore op e r => CMore op (fold_neg e) (fold_neg_ctail r)
  end.

(** The node object a lift-free expression has become after [ExprBuilder] visited it once
    (NodeTransformer mutates in place and returns the same object, except that the folded
    [-c] returns a *new* constant and leaves the UnaryOp alone). *)
Definition residue (e : expr) : expr :=
  match e with
  | EUnary UNeg (EConst c) => e
  | _ => fold_neg e
  end.

Definition tmp_assign (tmp : nat) (e : expr) : stmt := SAssign (TName (VT tmp)) e.

Definition gen_branch (v : nat -> M (expr * nat)) (bb t f : nat) : M unit :=
  LET r <- v bb IN close_branch (snd r) (fst r) f t.

Definition bx_unary (op : unop) (a : expr) (ra : nat -> M (expr * nat)) (bb : nat) : M (expr * nat) :=
  match op, a with
  | UNeg, EConst c =>
      match neg_const c with
      | Some c' => ret (EConst c', bb)
      | None => LET r <- ra bb IN ret (EUnary op (fst r), snd r)
      end
  | _, _ => LET r <- ra bb IN ret (EUnary op (fst r), snd r)
  end.
Definition bx_bin (op : binop) (ra rb : nat -> M (expr * nat)) (bb : nat) : M (expr * nat) :=
  LET r1 <- ra bb IN LET r2 <- rb (snd r1) IN ret (EBin op (fst r1) (fst r2), snd r2).
Definition bx_cmp1 (op : cmpop) (rl rr : nat -> M (expr * nat)) (bb : nat) : M (expr * nat) :=
  LET r1 <- rl bb IN LET r2 <- rr (snd r1) IN ret (ECmp (fst r1) (CLast op (fst r2)), snd r2).
Definition bx_walrus (x : nat) (ra : nat -> M (expr * nat)) (bb : nat) : M (expr * nat) :=
  LET r <- ra bb IN DO add_stmt (snd r) (SAssign (TName (VU x)) (fst r)) THEN ret (EName (VU x), snd r).
Definition bx_call (f : nat) (ras : nat -> M (exprs * nat)) (bb : nat) : M (expr * nat) :=
  LET r <- ras bb IN ret (ECall f (fst r), snd r).
Definition bx_tuple (ras : nat -> M (exprs * nat)) (bb : nat) : M (expr * nat) :=
  LET r <- ras bb IN ret (ETuple (fst r), snd r).
(* ExprBuilder.generic_visit for short-circuit expressions; [br] is the add_branch call *)
Definition lift_bool (br : nat -> nat -> nat -> M unit) (bb : nat) : M (expr * nat) :=
  LET t <- new_bb IN LET f <- new_bb IN
  DO br bb t f THEN
  LET tmp <- fresh_tmp IN
  DO add_stmt t (tmp_assign tmp (EConst (CBool true))) THEN
  DO add_stmt f (tmp_assign tmp (EConst (CBool false))) THEN
  LET m <- new_bb IN DO link t m THEN DO link f m THEN
  ret (EName (VT tmp), m).
(* BranchBuilder.visit_BoolOp on two operands *)
Definition br_bool (op : boolop) (ba bb_ : nat -> nat -> nat -> M unit) (bb t f : nat) : M unit :=
  LET extra <- new_bb IN
  DO match op with
     | BoAnd => ba bb extra f
     | BoOr => ba bb t extra
     end THEN
  bb_ extra t f.

Fixpoint build_expr (e : expr) (bb : nat) {struct e} : M (expr * nat) :=
  match e with
  | EConst _ | EName _ => ret (e, bb)
  | EUnary op a => bx_unary op a (build_expr a) bb
  | EBin op a b => bx_bin op (build_expr a) (build_expr b) bb
  | ECmp l rest =>
      match rest with
      | CLast op r => bx_cmp1 op (build_expr l) (build_expr r) bb
      | CMore _ _ _ =>
          lift_bool (fun bb t f =>
            LET extra <- new_bb IN
            LET r <- build_expr l bb IN
            build_ctail (fst r) rest (snd r) (Some extra) t f) bb
      end
  | EBool op a b => lift_bool (br_bool op (build_branch a) (build_branch b)) bb
  | EIf c a b =>
      LET ib <- new_bb IN LET eb <- new_bb IN
      DO build_branch c bb ib eb THEN
      LET ra <- build_expr a ib IN
      LET rb <- build_expr b eb IN
      LET tmp <- fresh_tmp IN
      DO add_stmt (snd ra) (tmp_assign tmp (fst ra)) THEN
      DO add_stmt (snd rb) (tmp_assign tmp (fst rb)) THEN
      LET m <- new_bb IN DO link (snd ra) m THEN DO link (snd rb) m THEN
      ret (EName (VT tmp), m)
  | EWalrus x a => bx_walrus x (build_expr a) bb
  | ECall f args => bx_call f (build_exprs args) bb
  | ETuple es => bx_tuple (build_exprs es) bb
  end
with build_exprs (es : exprs) (bb : nat) {struct es} : M (exprs * nat) :=
  match es with
  | ENil => ret (ENil, bb)
  | ECons e r =>
      LET r1 <- build_expr e bb IN
      LET r2 <- build_exprs r (snd r1) IN
      ret (ECons (fst r1) (fst r2), snd r2)
  end
(* l' is the already built left operand; [extra] the block BranchBuilder.visit_BoolOp
   allocated for this conjunct (allocated by the caller for the first comparison, because
   it is created before the left operand is built) *)
with build_ctail (l' : expr) (rest : ctail) (bb : nat) (extra : option nat) (t f : nat) {struct rest} : M unit :=
  match rest with
  | CLast op r =>
      LET r2 <- build_expr r bb IN
      close_branch (snd r2) (ECmp l' (CLast op (fst r2))) f t
  | CMore op m rest' =>
      if lift_free m then
        LET ex <- match extra with Some x => ret x | None => new_bb end IN
        LET r2 <- build_expr m bb IN
        DO close_branch (snd r2) (ECmp l' (CLast op (fst r2))) f ex THEN
        build_ctail (fold_neg (residue m)) rest' ex None t f
      else fail ErrUnmodelled
  end
with build_branch (e : expr) (bb t f : nat) {struct e} : M unit :=
  match e with
  | EConst (CBool b) =>
      DO link bb (if b then t else f) THEN dummy_link bb (if b then f else t)
  | EConst _ | EName _ => gen_branch (fun bb => ret (e, bb)) bb t f
  | EUnary UNot a => build_branch a bb f t
  | EUnary op a => gen_branch (bx_unary op a (build_expr a)) bb t f
  | EBin op a b => gen_branch (bx_bin op (build_expr a) (build_expr b)) bb t f
  | ECmp l rest =>
      match rest with
      | CLast op r => gen_branch (bx_cmp1 op (build_expr l) (build_expr r)) bb t f
      | CMore _ _ _ =>
          LET extra <- new_bb IN
          LET r <- build_expr l bb IN
          build_ctail (fst r) rest (snd r) (Some extra) t f
      end
  | EBool op a b => br_bool op (build_branch a) (build_branch b) bb t f
  | EIf c a b =>
      LET tb <- new_bb IN LET eb <- new_bb IN
      DO build_branch c bb tb eb THEN
      DO build_branch a tb t f THEN
      build_branch b eb t f
  | EWalrus x a => gen_branch (bx_walrus x (build_expr a)) bb t f
  | ECall fn args => gen_branch (bx_call fn (build_exprs args)) bb t f
  | ETuple es => gen_branch (bx_tuple (build_exprs es)) bb t f
  end.

Record jumps := mkJ { j_ret : nat; j_cont : option nat; j_brk : option nat }.

Definition is_tmp_name (e : expr) : bool :=
  match e with EName (VT _) => true | _ => false end.

Fixpoint visit_stmt (s : stmt) (bb : nat) (j : jumps) {struct s} : M (option nat) :=
  match s with
  | SAssign t e => LET r <- build_expr e bb IN DO add_stmt (snd r) (SAssign t (fst r)) THEN ret (Some (snd r))
  | SAug x op e => LET r <- build_expr e bb IN DO add_stmt (snd r) (SAug x op (fst r)) THEN ret (Some (snd r))
  | SExpr e =>
      LET r <- build_expr e bb IN
      DO (if is_tmp_name (fst r) then ret tt else add_stmt (snd r) (SExpr (fst r))) THEN
      ret (Some (snd r))
  | SIf c body orelse =>
      LET tb <- new_bb IN LET eb <- new_bb IN
      DO build_branch c bb tb eb THEN
      LET te <- visit_stmts body tb (Some tb) j IN
      LET ee <- visit_stmts orelse eb (Some eb) j IN
      match te, ee with
      | None, _ => ret ee
      | _, None => ret te
      | Some a, Some b => LET m <- new_bb IN DO link a m THEN DO link b m THEN ret (Some m)
      end
  | SWhile c body orelse =>
      match orelse with
      | SCons _ _ => fail ErrLoopElse
      | SNil =>
        LET head <- new_bb IN DO link bb head THEN
        LET body_bb <- new_bb IN LET tail <- new_bb IN
        DO build_branch c head body_bb tail THEN
        LET r <- visit_stmts body body_bb (Some body_bb) (mkJ (j_ret j) (Some head) (Some tail)) IN
        DO match r with Some e => link e head | None => ret tt end THEN
        ret (Some tail)
      end
  | SBreak => match j_brk j with Some b => DO link bb b THEN ret None | None => fail ErrNoLoop end
  | SContinue => match j_cont j with Some b => DO link bb b THEN ret None | None => fail ErrNoLoop end
  | SPass => ret (Some bb)
  | SReturn None => DO add_stmt bb (SReturn None) THEN DO link bb (j_ret j) THEN ret None
  | SReturn (Some e) =>
      LET r <- build_expr e bb IN
      DO add_stmt (snd r) (SReturn (Some (fst r))) THEN DO link (snd r) (j_ret j) THEN ret None
  end
with visit_stmts (ss : stmts) (prev : nat) (cur : option nat) (j : jumps) {struct ss} : M (option nat) :=
  match ss with
  | SNil => ret cur
  | SCons s r =>
      LET bb <- match cur with
                | Some b => ret b
                | None => LET b <- new_bb IN DO dummy_link prev b THEN ret b
                end IN
      LET r1 <- visit_stmt s bb j IN
      visit_stmts r bb r1 j
  end.

(** [BaseCFG.update_reachable]: worklist closure from the entry block.  The Python code pops
    from a set in arbitrary order; the resulting set of flags does not depend on the order.
    Fuel is an upper bound on the number of pops (1 + number of edges); running out of it
    would be [ErrInternal] (it cannot happen, see Proofs). *)
Definition nth_reach (m : list bool) (i : nat) : bool := nth i m false.

Fixpoint reach_wl (fuel : nat) (g : list block) (work : list nat) (seen : list bool) : option (list bool) :=
  match work with
  | [] => Some seen
  | i :: rest =>
    match fuel with
    | O => None
    | S f =>
      if nth_reach seen i then reach_wl f g rest seen
      else match nth_error g i with
           | Some b => reach_wl f g (b_succs b ++ rest) (upd_nth i (fun _ => true) seen)
           | None => reach_wl f g rest seen
           end
    end
  end.

Definition edge_count (g : list block) : nat :=
  fold_right (fun b n => length (b_succs b) + n) 0 g.

Definition mark_reachable (g : list block) : option (list block) :=
  match reach_wl (2 + edge_count g + length g) g [entry_idx] (map (fun _ => false) g) with
  | Some seen => Some (map (fun '(b, r) => put_reach r b) (combine g seen))
  | None => None
  end.

Definition blk_reach (g : list block) (i : nat) : bool :=
  match nth_error g i with Some b => b_reach b | None => false end.

(** The pruning loop at the end of [CFGBuilder.build]. *)
Definition prune (g : list block) : list block :=
  map (fun b =>
    mkBlock (b_stmts b) (b_pred b)
            (if b_reach b then b_succs b else filter (fun s => negb (blk_reach g s)) (b_succs b))
            (filter (fun s => negb (blk_reach g s)) (b_dummy b))
            (b_reach b)) g.

Definition init_state : bstate := mkB [empty_block; empty_block] 0.

Definition build (p : stmts) (returns_none : bool) : bres cfg :=
  match visit_stmts p entry_idx (Some entry_idx) (mkJ exit_idx None None) init_state with
  | BErr e => BErr e
  | BOk final s =>
    match mark_reachable (bs_blocks s) with
    | None => BErr ErrInternal
    | Some g1 =>
      match final with
      | None => BOk (prune g1) s
      | Some fb =>
        let g2 := upd_nth fb (add_succ exit_idx) g1 in
        if blk_reach g2 fb then
          if returns_none then BOk (prune (upd_nth exit_idx (put_reach true) g2)) s
          else BErr ErrExpectedReturn
        else BOk (prune g2) s
      end
    end
  end.
