(** C03 — what ExprBuilder does on lift-free expressions: no block, no temporary, the
    expression with folded negative constants, which evaluates like the original. *)
From Coq Require Import ZArith List Bool Lia.
From V.C03 Require Import PyAst PySem Cfg CfgSem Builder ProofsBase.
Import ListNotations.

Lemma fold_neg_unary : forall op a,
  fold_neg (EUnary op a) = EUnary op (fold_neg a) \/
  exists c c', op = UNeg /\ a = EConst c /\ neg_const c = Some c' /\ fold_neg (EUnary op a) = EConst c'.
Proof.
  intros. destruct op; auto. destruct a; auto. simpl. destruct (neg_const c) eqn:E; auto.
  right. eauto 6.
Qed.

Section Eval.
Variable oracle : trace -> nat -> list val -> val.

Lemma fold_neg_eval_all :
  (forall e st, eval oracle (fold_neg e) st = eval oracle e st) /\
  (forall es st, eval_list oracle (fold_neg_list es) st = eval_list oracle es st) /\
  (forall t v st, eval_ctail oracle v (fold_neg_ctail t) st = eval_ctail oracle v t st).
Proof.
  apply expr_mutind; intros; auto.
  - destruct (fold_neg_unary op e) as [E|(c&c'&->&->&N&E)]; rewrite E.
    + simpl. rewrite H. auto.
    + destruct c; simpl in N; inversion N; subst; reflexivity.
  - simpl. rewrite H. destruct (eval oracle a st) as [[va st1]| |]; simpl; auto. rewrite H0. auto.
  - simpl. rewrite H. destruct (eval oracle l st) as [[va st1]| |]; simpl; auto.
  - simpl. destruct op; rewrite H; destruct (eval oracle a st) as [[va st1]| |]; simpl; auto; rewrite H0; auto.
  - simpl. rewrite H. destruct (eval oracle c st) as [[va st1]| |]; simpl; auto. rewrite H0, H1. auto.
  - simpl. rewrite H. auto.
  - simpl. rewrite H. auto.
  - simpl. rewrite H. auto.
  - simpl. rewrite H. destruct (eval oracle e st) as [[va st1]| |]; simpl; auto. rewrite H0. auto.
  - simpl. rewrite H. auto.
  - simpl. rewrite H. destruct (eval oracle e st) as [[va st1]| |]; simpl; auto.
    destruct (eval_cmpop op v va) as [[|]|]; auto.
Qed.

Lemma fold_neg_eval : forall e st, eval oracle (fold_neg e) st = eval oracle e st.
Proof. apply fold_neg_eval_all. Qed.

Lemma fold_neg_eval_truth : forall e st, eval_truth oracle (fold_neg e) st = eval_truth oracle e st.
Proof. intros. unfold eval_truth. rewrite fold_neg_eval. auto. Qed.

Lemma fold_neg_exec_simple : forall s st,
  exec_simple oracle (match s with
                      | SAssign t e => SAssign t (fold_neg e)
                      | SAug x op e => SAug x op (fold_neg e)
                      | SExpr e => SExpr (fold_neg e)
                      | SReturn (Some e) => SReturn (Some (fold_neg e))
                      | _ => s end) st = exec_simple oracle s st.
Proof.
  destruct s; intros st; try reflexivity; cbv beta iota; unfold exec_simple; cbv beta iota.
  - rewrite fold_neg_eval; auto.
  - destruct (fst st (VU x)); auto. rewrite fold_neg_eval; auto.
  - rewrite fold_neg_eval; auto.
  - destruct e; auto. rewrite fold_neg_eval; auto.
Qed.
End Eval.

Lemma build_lift_free_all :
  (forall e, lift_free e = true -> forall bb s, build_expr e bb s = BOk (fold_neg e, bb) s) /\
  (forall es, lift_free_list es = true -> forall bb s, build_exprs es bb s = BOk (fold_neg_list es, bb) s) /\
  (forall t, match t with
             | CLast _ r => lift_free r = true -> forall bb s, build_expr r bb s = BOk (fold_neg r, bb) s
             | CMore _ _ _ => True
             end).
Proof.
  apply expr_mutind; intros;
    try match goal with H : lift_free _ = true |- _ => simpl in H end;
    try match goal with H : lift_free_list _ = true |- _ => simpl in H end;
    try discriminate; try reflexivity; auto.
  - (* unary *)
    specialize (H H0).
    change (build_expr (EUnary op e) bb s) with (bx_unary op e (build_expr e) bb s).
    destruct op; try (unfold bx_unary, bind; rewrite H; reflexivity).
    destruct e; try (unfold bx_unary, bind; rewrite H; reflexivity).
    unfold bx_unary. simpl. destruct (neg_const c); reflexivity.
  - apply andb_prop in H1. destruct H1 as [A B].
    change (build_expr (EBin op a b) bb s) with (bx_bin op (build_expr a) (build_expr b) bb s).
    unfold bx_bin, bind. rewrite (H A). simpl. rewrite (H0 B). reflexivity.
  - destruct rest; try discriminate. apply andb_prop in H1. destruct H1 as [A B].
    change (build_expr (ECmp l (CLast op e)) bb s) with (bx_cmp1 op (build_expr l) (build_expr e) bb s).
    unfold bx_cmp1, bind. rewrite (H A). simpl. rewrite (H0 B). reflexivity.
  - change (build_expr (ECall f args) bb s) with (bx_call f (build_exprs args) bb s).
    unfold bx_call, bind. rewrite (H H0). reflexivity.
  - change (build_expr (ETuple es) bb s) with (bx_tuple (build_exprs es) bb s).
    unfold bx_tuple, bind. rewrite (H H0). reflexivity.
  - apply andb_prop in H1. destruct H1 as [A B]. simpl. unfold bind. rewrite (H A). simpl. rewrite (H0 B). reflexivity.
Qed.

Lemma build_lift_free : forall e, lift_free e = true -> forall bb s, build_expr e bb s = BOk (fold_neg e, bb) s.
Proof. apply build_lift_free_all. Qed.
