(** C03 — the proved fragment with lifted expressions (model file: definitions only).

    [lsafe_stmts] is [safe_stmts] of Frag.v (DESIGN A.2 order_safe); in a chained comparison the
    middle operands are lift-free and call-free, the first and last operand may be lifted:
      - a value-position [and]/[or] has syntactically boolean operands,
      - in [a op b], [f(.., a, .., b, ..)], [(.., a, .., b, ..)], [a cmp b]: if an earlier operand
        [a] has a call or a walrus, everything after it is lift-free; otherwise [a] reads no variable
        that a later operand re-binds with a walrus ([seq_ok]),
      - [x op= e] does not re-bind x inside e,
      - no loop else.
    [nt_*]: the source mentions no builder temporary [%tmpN] (cannot be written in Python). *)
From Coq Require Import List Bool.
From V.C03 Require Import PyAst Frag.
Import ListNotations.

Fixpoint nt (e : expr) : bool :=
  match e with
  | EConst _ => true
  | EName (VU _) => true
  | EName (VT _) => false
  | EUnary _ a => nt a
  | EBin _ a b => nt a && nt b
  | ECmp l rest => nt l && nt_ctail rest
  | EBool _ a b => nt a && nt b
  | EIf c a b => nt c && nt a && nt b
  | EWalrus _ a => nt a
  | ECall _ args => nt_list args
  | ETuple es => nt_list es
  end
with nt_list (es : exprs) : bool :=
  match es with ENil => true | ECons e r => nt e && nt_list r end
with nt_ctail (t : ctail) : bool :=
  match t with CLast _ e => nt e | CMore _ e r => nt e && nt_ctail r end.

(* operand [a] is evaluated by Python before an operand (list) that re-binds [wb] and is
   lift-free iff [lfb] *)
Definition seq_ok (a : expr) (wb : list nat) (lfb : bool) : bool :=
  if pure a then disjoint (reads a) wb else lfb.

Fixpoint lsafe_val (e : expr) : bool :=
  match e with
  | EConst _ | EName _ => true
  | EUnary _ a => lsafe_val a
  | EBin _ a b => lsafe_val a && lsafe_val b && seq_ok a (wtargets b) (lift_free b)
  | ECmp l rest =>
      match rest with
      | CLast _ r => lsafe_val l && lsafe_val r && seq_ok l (wtargets r) (lift_free r)
      | CMore _ _ _ => lsafe_val l && lsafe_ctail rest
      end
  | EBool _ a b => boolish a && boolish b && lsafe_cond a && lsafe_cond b
  | EIf c a b => lsafe_cond c && lsafe_val a && lsafe_val b
  | EWalrus _ a => lsafe_val a
  | ECall _ args => lsafe_list args
  | ETuple es => lsafe_list es
  end
with lsafe_list (es : exprs) : bool :=
  match es with
  | ENil => true
  | ECons e r => lsafe_val e && lsafe_list r && seq_ok e (wtargets_list r) (lift_free_list r)
  end
with lsafe_cond (e : expr) : bool :=
  match e with
  | EBool _ a b => lsafe_cond a && lsafe_cond b
  | EUnary UNot a => lsafe_cond a
  | EIf c a b => lsafe_cond c && lsafe_cond a && lsafe_cond b
  | EConst _ | EName _ => true
  | EUnary _ a => lsafe_val a
  | EBin _ a b => lsafe_val a && lsafe_val b && seq_ok a (wtargets b) (lift_free b)
  | ECmp l rest =>
      match rest with
      | CLast _ r => lsafe_val l && lsafe_val r && seq_ok l (wtargets r) (lift_free r)
      | CMore _ _ _ => lsafe_val l && lsafe_ctail rest
      end
  | EWalrus _ a => lsafe_val a
  | ECall _ args => lsafe_list args
  | ETuple es => lsafe_list es
  end
(* chained comparison: middle operands lift-free and call-free; the last operand may be lifted if
   the middle operand before it reads nothing it re-binds *)
with lsafe_ctail (t : ctail) : bool :=
  match t with
  | CLast _ r => lsafe_val r
  | CMore _ m rest =>
      lift_free m && pure m && lsafe_ctail rest &&
      match rest with CLast _ r => disjoint (reads m) (wtargets r) | CMore _ _ _ => true end
  end.

Definition nt_target (t : target) : bool :=
  match t with TName (VU _) => true | TName (VT _) => false | TTuple _ => true end.

Fixpoint lsafe_stmt (s : stmt) : bool :=
  match s with
  | SAssign t e => nt_target t && nt e && lsafe_val e
  | SAug x _ e => nt e && lsafe_val e && negb (existsb (Nat.eqb x) (wtargets e))
  | SExpr e => nt e && lsafe_val e
  | SIf c b o => nt c && lsafe_cond c && lsafe_stmts b && lsafe_stmts o
  | SWhile c b o => nt c && lsafe_cond c && lsafe_stmts b && match o with SNil => true | _ => false end
  | SBreak | SContinue | SPass => true
  | SReturn None => true
  | SReturn (Some e) => nt e && lsafe_val e
  end
with lsafe_stmts (ss : stmts) : bool :=
  match ss with SNil => true | SCons s r => lsafe_stmt s && lsafe_stmts r end.
