(** C03 — the lowering of array unpacking binds what Python binds. *)
From Coq Require Import List Bool Arith Lia.
From V.C03 Require Import Unpack.
Import ListNotations.

Section P.
Variable A : Type.

Lemma pops_left : forall (l1 rest : list A), pops A true (length l1) (l1 ++ rest) = Some (l1, rest).
Proof. induction l1; intros; simpl; auto. rewrite IHl1. auto. Qed.

Lemma pops_right : forall (l2 rest : list A), pops A false (length l2) (rest ++ l2) = Some (rev l2, rest).
Proof.
  induction l2 using rev_ind; intros; simpl.
  - rewrite app_nil_r. auto.
  - rewrite app_length. simpl. rewrite Nat.add_1_r. simpl. unfold pop_right.
    rewrite app_assoc, rev_app_distr. simpl. rewrite rev_involutive, IHl2.
    rewrite rev_app_distr. simpl. auto.
Qed.

(* the coded combination: patterns not reversed, popped elements reversed *)
Lemma assign_array_split : forall left starred right (L M R : list A),
  length left = length L -> length right = length R ->
  (starred = None -> M = []) ->
  assign_array A false true left starred right (L ++ M ++ R) =
    Some (combine left L ++ combine right R,
          match starred with Some s => Some (s, M) | None => None end).
Proof.
  intros left starred right L M R HL HR HM. unfold assign_array, pop_assign. simpl.
  rewrite HL, pops_left. rewrite HR, pops_right. rewrite rev_involutive.
  destruct starred; auto. rewrite (HM eq_refl). auto.
Qed.

Lemma skipn_skipn' : forall a b (l : list A), skipn a (skipn b l) = skipn (b + a) l.
Proof.
  induction b; intros; simpl; auto. destruct l; simpl; auto. destruct a; auto.
Qed.

Lemma split3 : forall (xs : list A) k m, k + m <= length xs ->
  xs = firstn k xs ++ firstn (length xs - m - k) (skipn k xs) ++ skipn (length xs - m) xs.
Proof.
  intros xs k m H.
  rewrite <- (firstn_skipn k xs) at 1. f_equal.
  rewrite <- (firstn_skipn (length xs - m - k) (skipn k xs)) at 1. f_equal.
  rewrite skipn_skipn'. f_equal. lia.
Qed.

Theorem assign_array_python : forall left starred right (xs : list A),
  py_unpack A left starred right xs <> None ->
  assign_array A false true left starred right xs = py_unpack A left starred right xs.
Proof.
  intros left starred right xs H. unfold py_unpack in *.
  set (k := length left) in *. set (m := length right) in *. set (n := length xs) in *.
  destruct (match starred with Some _ => k + m <=? n | None => k + m =? n end) eqn:C; [|congruence].
  assert (Le: k + m <= n).
  { destruct starred; [apply Nat.leb_le in C | apply Nat.eqb_eq in C]; lia. }
  rewrite (split3 xs k m Le) at 1.
  rewrite assign_array_split.
  - destruct starred; auto.
  - rewrite firstn_length. unfold k, n in *. lia.
  - rewrite skipn_length. unfold m, n in *. lia.
  - intros ->. apply Nat.eqb_eq in C. replace (length xs - m - k) with 0 by (unfold n in *; lia). auto.
Qed.

(* and when Python raises (wrong number of elements) the lowering has no binding either *)
Theorem assign_array_python_none : forall left starred right (xs : list A),
  py_unpack A left starred right xs = None ->
  assign_array A false true left starred right xs = None.
Proof.
  intros left starred right xs H. unfold py_unpack in H.
  destruct (match starred with Some _ => _ | None => _ end) eqn:C; [discriminate|].
  unfold assign_array, pop_assign. simpl.
  assert (L1: forall b num arr es rest, pops A b num arr = Some (es, rest) -> length arr = num + length rest).
  { induction num; intros arr es rest Hp; simpl in Hp; [inversion Hp; auto|].
    destruct b.
    - destruct arr as [|x r]; simpl in Hp; try discriminate.
      destruct (pops A true num r) as [[es' rest']|] eqn:Q; inversion Hp; subst. simpl. rewrite (IHnum _ _ _ Q). auto.
    - unfold pop_right in Hp. destruct (rev arr) as [|x r] eqn:Rv; try discriminate.
      destruct (pops A false num (rev r)) as [[es' rest']|] eqn:Q; inversion Hp; subst.
      rewrite <- (rev_length arr), Rv. simpl. rewrite <- (rev_length r), (IHnum _ _ _ Q). auto. }
  destruct (pops A true (length left) xs) as [[e1 r1]|] eqn:P1; auto.
  destruct (pops A false (length right) r1) as [[e2 r2]|] eqn:P2; auto.
  pose proof (L1 _ _ _ _ _ P1). pose proof (L1 _ _ _ _ _ P2).
  destruct starred.
  - apply Nat.leb_gt in C. lia.
  - apply Nat.eqb_neq in C. destruct r2; [simpl in *; lia | reflexivity].
Qed.
End P.
