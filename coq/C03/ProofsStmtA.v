(** C03 — statement level, part A: vocabulary and the one-step lemmas used by the
    simulation proof of CFGBuilder.visit_stmts. *)
From Coq Require Import ZArith List Bool Lia.
From V.C03 Require Import PyAst PySem Cfg CfgSem Builder Frag ProofsBase ProofsExpr ProofsBranch.
Import ListNotations.

(* [grows_trans] without the side condition on bb (a virtual current block >= length g is an
   empty block that anything extends) *)
Lemma bext_overflow : forall g bb X, length g <= bb -> bext (blk g bb) X.
Proof.
  intros. unfold blk. rewrite nth_overflow by lia. split; [eexists; simpl; eauto | simpl; congruence].
Qed.

Lemma grows_trans_gen : forall g bb g1 bb1 g2,
  grows g bb g1 -> grows g1 bb1 g2 -> (bb1 = bb \/ length g <= bb1) -> grows g bb g2.
Proof.
  intros g bb g1 bb1 g2 G1 G2 D.
  destruct (Nat.lt_ge_cases bb (length g)); [eapply grows_trans; eauto|].
  destruct G1 as (L1&F1&B1). destruct G2 as (L2&F2&B2). split; [lia|]. split.
  - intros i Hi Ni. eapply sem_same_trans; [apply F1; auto|]. apply F2; [lia|]. destruct D; lia.
  - apply bext_overflow; auto.
Qed.

Lemma grows_length : forall g bb g', grows g bb g' -> length g <= length g'.
Proof. intros g bb g' (L&_); auto. Qed.

(* jump targets are existing blocks different from the block being filled *)
Definition jok (g : list block) (bb : nat) (j : jumps) : Prop :=
  j_ret j < length g /\ j_ret j <> bb /\
  (forall c, j_cont j = Some c -> c < length g /\ c <> bb) /\
  (forall c, j_brk j = Some c -> c < length g /\ c <> bb).

Lemma jok_mono : forall g bb j g' bb', jok g bb j -> length g <= length g' ->
  (bb' = bb \/ length g <= bb') -> jok g' bb' j.
Proof.
  intros g bb j g' bb' (A&B&C&D) L E. split; [lia|]. split; [destruct E; lia|]. split.
  - intros c H. destruct (C c H). split; [lia | destruct E; lia].
  - intros c H. destruct (D c H). split; [lia | destruct E; lia].
Qed.

(* what a visit returns: an open block, the old one or a new one *)
Definition rok (g : list block) (bb : nat) (g' : list block) (r : option nat) : Prop :=
  match r with
  | Some b' => opn g' b' /\ b' <> exit_idx /\ (b' = bb \/ length g <= b')
  | None => True
  end.

(* ------------------------------------------------------------------ one builder action *)
Lemma opn_push : forall g bb s, opn g bb ->
  opn (upd_nth bb (push_stmt s) g) bb /\ slen (upd_nth bb (push_stmt s) g) bb = S (slen g bb).
Proof.
  unfold opn, slen. intros g bb s (L&S&P). rewrite upd_nth_length, blk_upd_same by auto. simpl.
  rewrite app_length. simpl. repeat split; auto. lia.
Qed.

Lemma grows_push : forall g bb s, opn g bb -> grows g bb (upd_nth bb (push_stmt s) g).
Proof. intros. apply grows_upd; auto. intros b _. exists [s]. auto. Qed.

Lemma grows_link : forall g bb t, opn g bb -> grows g bb (upd_nth bb (add_succ t) g).
Proof. intros. apply grows_upd; auto. intros b _. exists []. simpl. rewrite app_nil_r. auto. Qed.

Lemma opn_link_other : forall g a t x, opn g x -> x <> a ->
  opn (upd_nth a (add_succ t) g) x /\ slen (upd_nth a (add_succ t) g) x = slen g x.
Proof.
  unfold opn, slen. intros g a t x (L&S&P) N. rewrite upd_nth_length, blk_upd_other by auto. auto.
Qed.

Section Steps.
Variable oracle : trace -> nat -> list val -> val.

Lemma ext_push_step : forall g bb s G st st' rv ret,
  opn g bb -> bb <> exit_idx -> ext (upd_nth bb (push_stmt s) g) G ->
  exec_simple oracle s st = Done (st', rv) ->
  step oracle G (mkConfig bb (slen g bb) st ret) =
    SNext (mkConfig bb (S (slen g bb)) st' (match rv with Some v => Some v | None => ret end)).
Proof.
  intros g bb s G st st' rv ret (L&S&P) Nb (LG&E) X.
  assert (Lb: bb < length (upd_nth bb (push_stmt s) g)) by (rewrite upd_nth_length; auto).
  destruct (E bb Lb) as ((rest&R)&_). rewrite blk_upd_same in R by auto. simpl in R.
  eapply step_stmt; eauto; [lia|].
  rewrite R. unfold slen. rewrite <- app_assoc. rewrite nth_error_app2 by lia.
  rewrite Nat.sub_diag. reflexivity.
Qed.

Lemma ext_link_step : forall g bb t G st ret,
  opn g bb -> bb <> exit_idx -> ext (upd_nth bb (add_succ t) g) G ->
  step oracle G (mkConfig bb (slen g bb) st ret) = SNext (mkConfig t 0 st ret).
Proof.
  intros g bb t G st ret (L&S&P) Nb E.
  destruct (ext_closed _ _ bb E) as (LG&A1&A2&A3).
  - rewrite upd_nth_length; auto.
  - rewrite blk_upd_same by auto. simpl. rewrite S. simpl. congruence.
  - rewrite blk_upd_same in A1, A2, A3 by auto. simpl in A1, A2, A3. rewrite S in A3. simpl in A3.
    unfold slen. rewrite <- A1. apply step_jump; auto. congruence.
Qed.

(* where Python's outcome of a statement (list) leaves the CFG run *)
Definition osteps (G : cfg) (c : config) (j : jumps) (g' : list block) (r : option nat)
           (o : outcome) (st' : state) : Prop :=
  match o with
  | ONormal => exists b', r = Some b' /\ steps oracle G c (mkConfig b' (slen g' b') st' (c_ret c))
  | OBreak => exists b, j_brk j = Some b /\ steps oracle G c (mkConfig b 0 st' (c_ret c))
  | OContinue => exists b, j_cont j = Some b /\ steps oracle G c (mkConfig b 0 st' (c_ret c))
  | OReturn v => steps oracle G c (mkConfig (j_ret j) 0 st' (Some v))
  end.

Lemma osteps_prefix : forall G c0 c j g' r o st',
  steps oracle G c0 c -> c_ret c = c_ret c0 -> osteps G c j g' r o st' -> osteps G c0 j g' r o st'.
Proof.
  intros G c0 c j g' r o st' S R O. destruct o; simpl in *.
  - destruct O as (b'&E&T). exists b'. split; auto. rewrite <- R. eapply steps_trans; eauto.
  - destruct O as (b&E&T). exists b. split; auto. rewrite <- R. eapply steps_trans; eauto.
  - destruct O as (b&E&T). exists b. split; auto. rewrite <- R. eapply steps_trans; eauto.
  - eapply steps_trans; eauto.
Qed.

Definition stmt_spec (s : stmt) : Prop :=
  forall bb j g n r s', frag_stmt s = true ->
  visit_stmt s bb j (mkB g n) = BOk r s' ->
  opn g bb -> bb <> exit_idx -> exit_idx < length g -> jok g bb j ->
  exists g', s' = mkB g' n /\ grows g bb g' /\ rok g bb g' r /\
    forall G, ext g' G -> forall fuel st o st' ret,
      exec oracle fuel s st = Done (o, st') ->
      osteps G (mkConfig bb (slen g bb) st ret) j g' r o st'.

Definition cur_ok (g : list block) (cur : option nat) (j : jumps) : Prop :=
  match cur with
  | Some bb => opn g bb /\ bb <> exit_idx /\ jok g bb j
  | None => jok g (length g) j
  end.
Definition cb (g : list block) (cur : option nat) : nat :=
  match cur with Some b => b | None => length g end.

Definition stmts_spec (ss : stmts) : Prop :=
  forall prev cur j g n r s', frag_stmts ss = true ->
  visit_stmts ss prev cur j (mkB g n) = BOk r s' ->
  exit_idx < length g -> cur_ok g cur j ->
  exists g', s' = mkB g' n /\ grows g (cb g cur) g' /\ rok g (cb g cur) g' r /\
    forall bb, cur = Some bb ->
    forall G, ext g' G -> forall fuel st o st' ret,
      exec_list oracle fuel ss st = Done (o, st') ->
      osteps G (mkConfig bb (slen g bb) st ret) j g' r o st'.
End Steps.
