(** C19 — abstract borrow-array machine (executable model; no proofs in this file).

   Part 1: values, outcomes and the TRUSTED written-down semantics of the HUGR ops that
           /repo's compiler emits for array accesses (extension `collections.borrow_arr`,
           `arithmetic.conversions.itousize`, `prelude.panic`, tuples/sums).
   Part 2: a tiny dataflow interpreter (straight-line ops + Conditional) over an
           append-only frame: the registers of a region are numbered in definition order
           (region inputs first, then the outputs of every node in emission order).
   Part 3: the op SEQUENCES emitted by /repo's compiler for each array access form
           (hand-written; compared with the really emitted sequences on every run).
   Part 4: drivers for iteration / comprehension and token rendering used by the tie. *)
From Coq Require Import ZArith List String Bool DecimalString.
Import ListNotations.
Open Scope string_scope.
Open Scope list_scope.
Open Scope Z_scope.

(* ------------------------------------------------------------------ Part 1: values *)

Inductive val : Type :=
| VInt (z : Z)                     (* int<6>: the signed reading, -2^63 <= z < 2^63 *)
| VUsize (z : Z)                   (* usize (64 bit): 0 <= z < 2^64 *)
| VRes (q : Z)                     (* an opaque (linear) resource, e.g. qubit number q *)
| VErr (msg : string)              (* prelude error constant *)
| VSum (tag : nat) (vs : list val) (* Option: None = tag 0 [], Some v = tag 1 [v]; Either: left 0 / right 1 *)
| VTuple (vs : list val)
| VArr (cells : list (option val)). (* borrow_array: None = cell is lent out / empty *)

Inductive outcome (A : Type) : Type :=
| Ok (a : A)
| Panic (msg : string)             (* the program panics: nothing else happens *)
| Stuck (why : string).            (* ill-formed program for this model; never counted as a panic *)
Arguments Ok {A} a.
Arguments Panic {A} msg.
Arguments Stuck {A} why.

Definition obind {A B} (r : outcome A) (f : A -> outcome B) : outcome B :=
  match r with Ok a => f a | Panic m => Panic m | Stuck w => Stuck w end.

Definition two64 : Z := 18446744073709551616.
Definition two63 : Z := 9223372036854775808.
Definition is_int64 (z : Z) : Prop := - two63 <= z < two63.
Definition wrap_s (z : Z) : Z := (z + two63) mod two64 - two63.

Definition msg_already_borrowed : string := "Array element is already borrowed".
Definition msg_not_borrowed : string := "Array already contains an element at this index".
Definition msg_op_oob : string := "Index out of bounds".
Definition msg_some_borrowed : string := "Some array elements have been borrowed".
Definition msg_not_all_borrowed : string := "Array contains non-borrowed elements and cannot be discarded".
Definition msg_index_oob : string := "Array index out of bounds".          (* /repo's unwrap message *)
Definition msg_unpack : string := "Internal error: unpacking of iterable failed".

Definition vnone : val := VSum 0 [].
Definition vsome (vs : list val) : val := VSum 1 vs.

Fixpoint upd {A} (l : list A) (k : nat) (x : A) : list A :=
  match l, k with
  | [], _ => []
  | _ :: t, O => x :: t
  | h :: t, S k' => h :: upd t k' x
  end.

Fixpoint all_some {A} (l : list (option A)) : option (list A) :=
  match l with
  | [] => Some []
  | Some x :: t => match all_some t with Some r => Some (x :: r) | None => None end
  | None :: _ => None
  end.

Fixpoint all_none {A} (l : list (option A)) : bool :=
  match l with [] => true | None :: t => all_none t | Some _ :: _ => false end.

(** the constants the compiler loads *)
Inductive const := CInt (z : Z) | CErr (msg : string) | COther (s : string).

Inductive opcode :=
| OItoUsize                         (* arithmetic.conversions.itousize *)
| OGet (n : nat) | OSet (n : nat) | OBorrow (n : nat) | OReturn (n : nat)
| OPopLeft (n : nat) | OPopRight (n : nat) | OUnpack (n : nat)
| ONewArray (n : nat) | ONewAllBorrowed (n : nat)
| ODiscardAllBorrowed (n : nat) | ODiscardEmpty | OClone (n : nat)
| OPanic (nout : nat)               (* prelude.panic: first input is the error *)
| OConst (c : const)                (* Const + LoadConst *)
| OTag (tag : nat) | OMakeTuple | OUnpackTuple
| OIadd                             (* arithmetic.int.iadd<6> *)
| OGate (name : string)             (* a quantum gate: every qubit in comes out again, same ports *)
| OCall (name : string) (nout : nat) (* call of a helper function of the X programs (see sem_call) *)
| ODrop                             (* tket.guppy.drop: the auto-inserted drop of an affine value *)
| OOther (name : string) (nout : nat). (* anything else: not interpreted *)

Definition uidx (n : nat) (u : Z) : option nat :=
  if (0 <=? u) && (u <? Z.of_nat n) then Some (Z.to_nat u) else None.

Definition len_ok (n : nat) (cells : list (option val)) : bool := Nat.eqb (List.length cells) n.

(** TRUSTED SPEC.  One definition per op, from the extension's op descriptions
    ("Take an element from a borrow array (panicking if it was already taken before)",
    "Put an element into a borrow array (panicking if there is an element already)", get/set
    return Option / Either on an out-of-range index) and the panic messages of its lowering. *)
Definition sem_itousize (args : list val) : outcome (list val) :=
  match args with [VInt z] => Ok [VUsize (z mod two64)] | _ => Stuck "itousize operands" end.

Definition with_cell (n : nat) (cells : list (option val)) (u : Z)
    (oob : outcome (list val)) (full : nat -> val -> outcome (list val)) (empty : nat -> outcome (list val))
    : outcome (list val) :=
  if len_ok n cells then
    match uidx n u with
    | None => oob
    | Some k => match nth_error cells k with
                | Some (Some v) => full k v
                | Some None => empty k
                | None => Stuck "cell"
                end
    end
  else Stuck "array length".

Definition sem_get (n : nat) (args : list val) : outcome (list val) :=
  match args with
  | [VArr cells; VUsize u] =>
      with_cell n cells u (Ok [vnone; VArr cells])
        (fun _ v => Ok [vsome [v]; VArr cells]) (fun _ => Panic msg_already_borrowed)
  | _ => Stuck "get operands"
  end.
Definition sem_set (n : nat) (args : list val) : outcome (list val) :=
  match args with
  | [VArr cells; VUsize u; v] =>
      with_cell n cells u (Ok [VSum 0 [v; VArr cells]])
        (fun k old => Ok [VSum 1 [old; VArr (upd cells k (Some v))]]) (fun _ => Panic msg_already_borrowed)
  | _ => Stuck "set operands"
  end.
Definition sem_borrow (n : nat) (args : list val) : outcome (list val) :=
  match args with
  | [VArr cells; VUsize u] =>
      with_cell n cells u (Panic msg_op_oob)
        (fun k v => Ok [VArr (upd cells k None); v]) (fun _ => Panic msg_already_borrowed)
  | _ => Stuck "borrow operands"
  end.
Definition sem_return (n : nat) (args : list val) : outcome (list val) :=
  match args with
  | [VArr cells; VUsize u; v] =>
      with_cell n cells u (Panic msg_op_oob)
        (fun _ _ => Panic msg_not_borrowed) (fun k => Ok [VArr (upd cells k (Some v))])
  | _ => Stuck "return operands"
  end.
Definition pop_result (c : list (option val)) (back : list (option val) -> list (option val)) : outcome (list val) :=
  match c with
  | [] => Ok [vnone]
  | Some v :: rest => Ok [vsome [v; VArr (back rest)]]
  | None :: _ => Panic msg_already_borrowed
  end.
Definition sem_pop (from_left : bool) (n : nat) (args : list val) : outcome (list val) :=
  match args with
  | [VArr cells] =>
      if len_ok n cells then
        (if from_left then pop_result cells (fun r => r) else pop_result (rev cells) (@rev _))
      else Stuck "array length"
  | _ => Stuck "pop operands"
  end.
Definition sem_unpack (n : nat) (args : list val) : outcome (list val) :=
  match args with
  | [VArr cells] =>
      if len_ok n cells then
        match all_some cells with Some vs => Ok vs | None => Panic msg_some_borrowed end
      else Stuck "array length"
  | _ => Stuck "unpack operands"
  end.
Definition sem_clone (n : nat) (args : list val) : outcome (list val) :=
  match args with
  | [VArr cells] =>
      if len_ok n cells then
        match all_some cells with Some _ => Ok [VArr cells; VArr cells] | None => Panic msg_some_borrowed end
      else Stuck "array length"
  | _ => Stuck "clone operands"
  end.
Definition sem_discard_all_borrowed (n : nat) (args : list val) : outcome (list val) :=
  match args with
  | [VArr cells] =>
      if len_ok n cells then (if all_none cells then Ok [] else Panic msg_not_all_borrowed)
      else Stuck "array length"
  | _ => Stuck "discard_all_borrowed operands"
  end.
Definition sem_discard_empty (args : list val) : outcome (list val) :=
  match args with [VArr []] => Ok [] | _ => Stuck "discard_empty operands" end.
Definition sem_panic (args : list val) : outcome (list val) :=
  match args with VErr msg :: _ => Panic msg | _ => Stuck "panic operands" end.
Definition sem_unpack_tuple (args : list val) : outcome (list val) :=
  match args with [VTuple vs] => Ok vs | _ => Stuck "unpack_tuple operands" end.
Definition sem_iadd (args : list val) : outcome (list val) :=
  match args with [VInt a; VInt b] => Ok [VInt (wrap_s (a + b))] | _ => Stuck "iadd operands" end.

(** Calls: only the two helper functions of the correspondence programs are interpreted.
    `bump(ctr: array[int, 1]) -> int` is the INDEX ORACLE: it returns the counter and advances it, so
    successive calls return successive different values (outputs: result, then the counter array
    handed back); `poke(a: array[int, 1])` adds 1000 to the only cell of a leaf array. *)
Definition sem_call (name : string) (args : list val) : outcome (list val) :=
  if String.eqb name "bump" then
    match args with
    | [VArr [Some (VInt v)]] => Ok [VInt v; VArr [Some (VInt (wrap_s (v + 1)))]]
    | _ => Stuck "bump operands"
    end
  else if String.eqb name "poke" then
    match args with
    | [VArr [Some (VInt v)]] => Ok [VArr [Some (VInt (wrap_s (v + 1000)))]]
    | _ => Stuck "poke operands"
    end
  else if String.eqb name "tag_of" then
    (* tag_of(r: Reg) -> int, Reg = struct (data: array[int, 2], tag: int): result, then r handed back *)
    match args with
    | [VTuple [d; VInt t]] => Ok [VInt t; VTuple [d; VInt t]]
    | _ => Stuck "tag_of operands"
    end
  else Stuck name.

Definition op_sem (op : opcode) (args : list val) : outcome (list val) :=
  match op with
  | OItoUsize => sem_itousize args
  | OGet n => sem_get n args
  | OSet n => sem_set n args
  | OBorrow n => sem_borrow n args
  | OReturn n => sem_return n args
  | OPopLeft n => sem_pop true n args
  | OPopRight n => sem_pop false n args
  | OUnpack n => sem_unpack n args
  | ONewArray n => if Nat.eqb (List.length args) n then Ok [VArr (map Some args)] else Stuck "new_array arity"
  | ONewAllBorrowed n => match args with [] => Ok [VArr (repeat None n)] | _ => Stuck "new_all_borrowed operands" end
  | ODiscardAllBorrowed n => sem_discard_all_borrowed n args
  | ODiscardEmpty => sem_discard_empty args
  | OClone n => sem_clone n args
  | OPanic _ => sem_panic args
  | OConst (CInt z) => Ok [VInt z]
  | OConst (CErr m) => Ok [VErr m]
  | OConst (COther s) => Stuck s
  | OTag t => Ok [VSum t args]
  | OMakeTuple => Ok [VTuple args]
  | OUnpackTuple => sem_unpack_tuple args
  | OIadd => sem_iadd args
  | OGate _ => Ok args
  | OCall name _ => sem_call name args
  | ODrop => match args with [_] => Ok [] | _ => Stuck "drop operands" end
  | OOther name _ => Stuck name
  end.

(* --------------------------------------------------------- Part 2: the interpreter *)

Inductive instr : Type :=
| IOp (op : opcode) (ins : list nat)
| ICond (scrut : nat) (others : list nat) (cases : list (list instr * list nat)).

Fixpoint lookups (fr : list val) (rs : list nat) : outcome (list val) :=
  match rs with
  | [] => Ok []
  | r :: rs' => match nth_error fr r with
                | Some v => obind (lookups fr rs') (fun vs => Ok (v :: vs))
                | None => Stuck "unbound register"
                end
  end.

(** [exec_instr i fr] appends the outputs of [i] to the frame.  A Conditional runs the case
    selected by the tag of its scrutinee in a fresh frame (payload of the variant, then the
    other inputs) and appends that case's outputs. *)
Fixpoint exec_instr (i : instr) (fr : list val) {struct i} : outcome (list val) :=
  match i with
  | IOp op ins =>
      obind (lookups fr ins) (fun args => obind (op_sem op args) (fun outs => Ok (fr ++ outs)))
  | ICond s others cases =>
      match nth_error fr s with
      | Some (VSum tag vs) =>
          obind (lookups fr others) (fun ovs =>
            (fix pick (cs : list (list instr * list nat)) (k : nat) {struct cs} : outcome (list val) :=
               match cs with
               | [] => Stuck "no such case"
               | c :: cs' =>
                   match k with
                   | S k' => pick cs' k'
                   | O =>
                       obind ((fix run (b : list instr) (f : list val) {struct b} : outcome (list val) :=
                                 match b with
                                 | [] => Ok f
                                 | j :: b' => obind (exec_instr j f) (run b')
                                 end) (fst c) (vs ++ ovs))
                             (fun f' => obind (lookups f' (snd c)) (fun r => Ok (fr ++ r)))
                   end
               end) cases tag)
      | Some _ => Stuck "conditional on a non-sum"
      | None => Stuck "unbound register"
      end
  end.

Fixpoint run (p : list instr) (fr : list val) : outcome (list val) :=
  match p with
  | [] => Ok fr
  | i :: p' => obind (exec_instr i fr) (run p')
  end.

(** run a sequence and project the registers of interest *)
Definition run_outs (p : list instr) (outs : list nat) (inputs : list val) : outcome (list val) :=
  obind (run p inputs) (fun fr => lookups fr outs).

(* --------------------------------------- Part 3: the sequences emitted by the compiler *)

(** build_unwrap_right / build_unwrap (prelude.py): Conditional on an Either/Option whose case 0
    loads the error constant and panics and whose case 1 passes its [k] inputs through. *)
Definition unwrap (scrut : nat) (msg : string) (nfail k : nat) : instr :=
  ICond scrut []
    [ ([IOp (OConst (CErr msg)) []; IOp (OPanic k) (nfail :: seq 0 nfail)], seq (S nfail) k);
      ([], seq 0 k) ].

(** ArrayGetitemCompiler._build_classical_getitem.   inputs: 0 = array, 1 = index (int)
    regs: 2 = usize index, 3 = Option(elem), 4 = array, 5 = elem.  outs: elem 5, array 4 *)
Definition seq_get_classical (n : nat) : list instr :=
  [ IOp OItoUsize [1%nat]; IOp (OGet n) [0%nat; 2%nat]; unwrap 3 msg_index_oob 0 1 ].
Definition outs_get_classical : list nat := [5%nat; 4%nat].

(** ArraySetitemCompiler._build_classical_setitem.  inputs: 0 = array, 1 = index, 2 = value
    regs: 3 = usize, 4 = Either((elem,arr),(elem,arr)), 5 = old elem, 6 = array.  outs: array 6 *)
Definition seq_set_classical (n : nat) : list instr :=
  [ IOp OItoUsize [1%nat]; IOp (OSet n) [0%nat; 3%nat; 2%nat]; unwrap 4 msg_index_oob 2 2 ].
Definition outs_set_classical : list nat := [6%nat].

(** ArrayGetitemCompiler._build_linear_getitem.  inputs: 0 = array, 1 = index
    regs: 2 = usize, 3 = array, 4 = elem *)
Definition seq_get_linear (n : nat) : list instr :=
  [ IOp OItoUsize [1%nat]; IOp (OBorrow n) [0%nat; 2%nat] ].
Definition outs_get_linear : list nat := [4%nat; 3%nat].

(** ArraySetitemCompiler._build_linear_setitem.  inputs: 0 = array, 1 = index, 2 = value
    regs: 3 = usize, 4 = array *)
Definition seq_set_linear (n : nat) : list instr :=
  [ IOp OItoUsize [1%nat]; IOp (OReturn n) [0%nat; 3%nat; 2%nat] ].
Definition outs_set_linear : list nat := [4%nat].

(** `g(qs[i])` for a one-qubit gate g: borrow, gate, write back at the SAME index wire.
    inputs 0 = array, 1 = index.  regs: 2 usize, 3 arr, 4 elem, 5 gate out, 6 usize, 7 arr *)
Definition seq_use1 (n : nat) (g : string) : list instr :=
  [ IOp OItoUsize [1%nat]; IOp (OBorrow n) [0%nat; 2%nat]; IOp (OGate g) [4%nat];
    IOp OItoUsize [1%nat]; IOp (OReturn n) [3%nat; 6%nat; 5%nat] ].
Definition outs_use1 : list nat := [7%nat].

(** `g(qs[i], qs[j])` for a two-qubit gate: both elements are lent at the same time.
    inputs 0 = array, 1 = i, 2 = j.
    regs: 3 usize i, 4 arr, 5 elem i, 6 usize j, 7 arr, 8 elem j, 9/10 gate outs,
          11 usize i, 12 arr, 13 usize j, 14 arr *)
Definition seq_use2 (n : nat) (g : string) : list instr :=
  [ IOp OItoUsize [1%nat]; IOp (OBorrow n) [0%nat; 3%nat];
    IOp OItoUsize [2%nat]; IOp (OBorrow n) [4%nat; 6%nat];
    IOp (OGate g) [5%nat; 8%nat];
    IOp OItoUsize [1%nat]; IOp (OReturn n) [7%nat; 11%nat; 9%nat];
    IOp OItoUsize [2%nat]; IOp (OReturn n) [12%nat; 13%nat; 10%nat] ].
Definition outs_use2 : list nat := [14%nat].

(** Nested subscripts `qs[i][j]` lent to a call `f(qs[i][j])` (ExprCompiler.visit_PlaceNode +
    _update_inout_ports).  What the compiler emits is NOT "borrow outer, borrow inner, call, return
    inner, return outer": the inner array is handed back to the outer one as soon as the leaf has
    been taken out of it, and taken out again for the write-back:
      pre :  borrow outer at i, borrow inner at j, return (inner with cell j lent) to outer at i
      call
      post:  borrow outer at i, return the leaf to inner at j, return inner to outer at i.
    Every conversion reads the SAME index register [ri] / [rj]: each index expression is evaluated
    exactly once, before the first borrow.  [a] = register of the outer array, [b] = number of
    registers defined so far.   pre defines b..b+7 (leaf = b+5, outer array = b+7);
    post defines b..b+6 (outer array = b+6). *)
Definition seq_nested_pre (n m a ri rj b : nat) : list instr :=
  [ IOp OItoUsize [ri]; IOp (OBorrow n) [a; b]; IOp OItoUsize [rj]; IOp (OBorrow m) [(b + 2)%nat; (b + 3)%nat];
    IOp OItoUsize [ri]; IOp (OReturn n) [(b + 1)%nat; (b + 6)%nat; (b + 4)%nat] ].
Definition seq_nested_post (n m a ri rj e b : nat) : list instr :=
  [ IOp OItoUsize [ri]; IOp (OBorrow n) [a; b]; IOp OItoUsize [rj]; IOp (OReturn m) [(b + 2)%nat; (b + 3)%nat; e];
    IOp OItoUsize [ri]; IOp (OReturn n) [(b + 1)%nat; (b + 5)%nat; (b + 4)%nat] ].
(** [f] = the op applied to the leaf (a gate, or the call of `poke`): one input, one output *)
Definition seq_lend_nested_at (n m : nat) (f : opcode) (a ri rj b : nat) : list instr :=
  seq_nested_pre n m a ri rj b ++ [IOp f [(b + 5)%nat]] ++ seq_nested_post n m (b + 7) ri rj (b + 8) (b + 9).
(** `f(qs[i][j])`: inputs 0 = outer array, 1 = i, 2 = j; result array = register 18 *)
Definition seq_lend_nested (n m : nat) (f : opcode) : list instr := seq_lend_nested_at n m f 0 1 2 3.
Definition outs_lend_nested : list nat := [18%nat].
(** the two halves on their own (inputs 0 = array, 1 = i, 2 = j [, 3 = leaf to give back]) *)
Definition seq_lend_nested_pre (n m : nat) : list instr := seq_nested_pre n m 0 1 2 3.
Definition outs_lend_nested_pre : list nat := [8%nat; 10%nat].
Definition seq_lend_nested_post (n m : nat) : list instr := seq_nested_post n m 0 1 2 3 4.
Definition outs_lend_nested_post : list nat := [10%nat].
(** `f(qs[bump(ctr)][c])`: inputs 0 = outer array, 1 = counter.  regs: 2 = const c, 3 = index
    returned by the oracle, 4 = counter handed back; ONE call of the oracle.  outs: array 20, counter 4 *)
Definition seq_lend_nested_oracle (n m : nat) (f : opcode) (c : Z) : list instr :=
  [ IOp (OConst (CInt c)) []; IOp (OCall "bump" 2) [1%nat] ] ++ seq_lend_nested_at n m f 0 3 2 5.
Definition outs_lend_nested_oracle : list nat := [20%nat; 4%nat].
(** `g(qs[bump(ctr)][c0], qs[bump(ctr)][c1])`: both leaves lent at once; TWO oracle calls.
    outs: array 39, counter 15 *)
Definition seq_lend2_nested_oracle (n m : nat) (g : string) (c0 c1 : Z) : list instr :=
  [ IOp (OConst (CInt c0)) []; IOp (OCall "bump" 2) [1%nat] ] ++ seq_nested_pre n m 0 3 2 5
  ++ [ IOp (OConst (CInt c1)) []; IOp (OCall "bump" 2) [4%nat] ] ++ seq_nested_pre n m 12 14 13 16
  ++ [ IOp (OGate g) [10%nat; 21%nat] ]
  ++ seq_nested_post n m 23 3 2 24 26 ++ seq_nested_post n m 32 14 13 25 33.
Definition outs_lend2_nested_oracle : list nat := [39%nat; 15%nat].
(** `g(qs[i][j][k])`, three levels: inputs 0 = array, 1 = i, 2 = j, 3 = k *)
Definition seq_lend_nested3 (n m p : nat) (g : string) : list instr :=
  seq_nested_pre n m 0 1 2 4 ++ [ IOp OItoUsize [3%nat]; IOp (OBorrow p) [9%nat; 12%nat] ]
  ++ seq_nested_post n m 11 1 2 13 15 ++ [ IOp (OGate g) [14%nat] ]
  ++ seq_nested_pre n m 21 1 2 23 ++ [ IOp OItoUsize [3%nat]; IOp (OReturn p) [28%nat; 31%nat; 22%nat] ]
  ++ seq_nested_post n m 30 1 2 32 33.
Definition outs_lend_nested3 : list nat := [39%nat].
(** `xs[i][j]` read / `xs[i][j] = v` write with copyable leaves: borrow outer, get / set on the
    inner array, return the inner array to the same outer index.  inputs 0 = array, 1 = i, 2 = j [, 3 = v] *)
Definition seq_get_nested (n m : nat) : list instr :=
  [ IOp OItoUsize [1%nat]; IOp (OBorrow n) [0%nat; 3%nat]; IOp OItoUsize [2%nat]; IOp (OGet m) [5%nat; 6%nat];
    unwrap 7 msg_index_oob 0 1; IOp OItoUsize [1%nat]; IOp (OReturn n) [4%nat; 10%nat; 8%nat] ].
Definition outs_get_nested : list nat := [9%nat; 11%nat].
Definition seq_set_nested (n m : nat) : list instr :=
  [ IOp OItoUsize [1%nat]; IOp (OBorrow n) [0%nat; 4%nat]; IOp OItoUsize [2%nat]; IOp (OSet m) [6%nat; 7%nat; 3%nat];
    unwrap 8 msg_index_oob 2 2; IOp OItoUsize [1%nat]; IOp (OReturn n) [5%nat; 11%nat; 10%nat] ].
Definition outs_set_nested : list nat := [12%nat].

(** CopyInoutCompiler on a borrow array: one `clone`.  input 0 = array; regs 1, 2 = the two arrays *)
Definition seq_copy (n : nat) : list instr := [ IOp (OClone n) [0%nat] ].
Definition outs_copy : list nat := [1%nat; 2%nat].

(** StmtCompiler._assign_array: [l] pops from the left, then [r] pops from the right, each
    unwrapped; then the rest is the starred array, or is discarded as empty.
    Register layout: the array before pop number j (0-based, over both phases) is register
    3*j (register 0 = input array); pop j defines 3j+1 = Option, 3j+2 = element, 3j+3 = array. *)
Fixpoint seq_pops (from_left : bool) (len : nat) (count : nat) (base : nat) : list instr :=
  match count with
  | O => []
  | S c =>
      IOp (if from_left then OPopLeft len else OPopRight len) [base]
      :: unwrap (S base) msg_unpack 0 2
      :: seq_pops from_left (Nat.pred len) c (3 + base)
  end.

Definition seq_unpack (n l r : nat) (starred : bool) : list instr :=
  seq_pops true n l 0 ++ seq_pops false (n - l) r (3 * l)
  ++ (if starred then [] else [IOp ODiscardEmpty [(3 * (l + r))%nat]]).
(** patterns are assigned left to right: the left patterns get the left pops in order, the
    right patterns get the right pops in REVERSED order *)
Definition outs_unpack_left (l : nat) : list nat := map (fun j => (3 * j + 2)%nat) (seq 0 l).
Definition outs_unpack_right (l r : nat) : list nat := rev (map (fun j => (3 * (l + j) + 2)%nat) (seq 0 r)).
Definition out_unpack_star (l r : nat) : nat := (3 * (l + r))%nat.

(** ExprCompiler.visit_DesugaredArrayComp, one loop iteration once the element is computed.
    inputs (in order of first use): 0 = count (int), 1 = array, 2 = element.
    regs: 3 = usize, 4 = array, 5 = const 1, 6 = count + 1 *)
Definition seq_comp_step (n : nat) : list instr :=
  [ IOp OItoUsize [0%nat]; IOp (OReturn n) [1%nat; 3%nat; 2%nat];
    IOp (OConst (CInt 1)) []; IOp OIadd [0%nat; 5%nat] ].
Definition outs_comp_step : list nat := [4%nat; 6%nat].
Definition seq_comp_init (n : nat) : list instr := [ IOp (ONewAllBorrowed n) []; IOp (OConst (CInt 0)) [] ].

(** ArrayDiscardAllUsedCompiler for a linear element type.  input 0 = array *)
Definition seq_discard_all_used (n : nat) : list instr := [ IOp (ODiscardAllBorrowed n) [0%nat] ].

(** The two blocks of the compiled ArrayIter.__next__ that touch the array.
    has-next block: inputs 0 = i, 1 = xs.  regs: 2 usize, 3 xs', 4 elem, 5 const 1, 6 i+1,
    7 = (xs', i+1), 8 = (elem, iter'), 9 = Some(...) *)
Definition seq_next_some (n : nat) : list instr :=
  [ IOp OItoUsize [0%nat]; IOp (OBorrow n) [1%nat; 2%nat]; IOp (OConst (CInt 1)) []; IOp OIadd [0%nat; 5%nat];
    IOp OMakeTuple [3%nat; 6%nat]; IOp OMakeTuple [4%nat; 7%nat]; IOp (OTag 1) [8%nat] ].
Definition outs_next_some : list nat := [9%nat].
(** exhausted block: input 0 = xs.  reg 1 = Nothing *)
Definition seq_next_none (n : nat) : list instr := [ IOp (ODiscardAllBorrowed n) [0%nat]; IOp (OTag 0) [] ].
Definition outs_next_none : list nat := [1%nat].
(** ArrayIter.__iter__ wraps (xs, 0).  input 0 = xs; reg 1 = const 0, reg 2 = (xs, 0) *)
Definition seq_iter_start : list instr := [ IOp (OConst (CInt 0)) []; IOp OMakeTuple [0%nat; 1%nat] ].
Definition outs_iter_start : list nat := [2%nat].

(* ----------------------------------------------------------- Part 4: drivers, rendering *)

(** What the generated ArrayIter methods (GenIter.v) call. *)
Definition call_getitem_linear (n : nat) (xs : val) (i : Z) : outcome (val * val) :=
  match run_outs (seq_get_linear n) outs_get_linear [xs; VInt i] with
  | Ok [elem; xs'] => Ok (elem, xs')
  | Ok _ => Stuck "getitem arity"
  | Panic m => Panic m
  | Stuck w => Stuck w
  end.
Definition call_discard_all_used (n : nat) (xs : val) : outcome unit :=
  obind (run (seq_discard_all_used n) [xs]) (fun _ => Ok tt).
Definition nat_to_int (n : nat) : Z := wrap_s (Z.of_nat n).   (* int(n): ifromusize, signed reading *)
Definition int_add (a b : Z) : Z := wrap_s (a + b).
Definition int_lt (a b : Z) : bool := a <? b.                 (* ilt_s *)

(** the comprehension loop: one [seq_comp_step] per element delivered by the generator *)
Fixpoint comp_drive (n : nat) (elts : list val) (arr : val) (count : Z) : outcome val :=
  match elts with
  | [] => Ok arr
  | e :: es =>
      match run_outs (seq_comp_step n) outs_comp_step [VInt count; arr; e] with
      | Ok [arr'; VInt count'] => comp_drive n es arr' count'
      | Ok _ => Stuck "comp step arity"
      | Panic m => Panic m
      | Stuck w => Stuck w
      end
  end.
Definition comprehension (n : nat) (elts : list val) : outcome val :=
  match run (seq_comp_init n) [] with
  | Ok [arr; VInt c] => comp_drive n elts arr c
  | Ok _ => Stuck "comp init arity"
  | Panic m => Panic m
  | Stuck w => Stuck w
  end.

(* token rendering of sequences, compared textually with the extracted ones *)
Definition nat_s (n : nat) : string := NilZero.string_of_uint (Nat.to_uint n).
Definition z_s (z : Z) : string := NilZero.string_of_int (Z.to_int z).
Definition op_tokens (op : opcode) : list string :=
  match op with
  | OItoUsize => ["itousize"]
  | OGet n => ["get"; nat_s n] | OSet n => ["set"; nat_s n]
  | OBorrow n => ["borrow"; nat_s n] | OReturn n => ["return"; nat_s n]
  | OPopLeft n => ["pop_left"; nat_s n] | OPopRight n => ["pop_right"; nat_s n]
  | OUnpack n => ["unpack"; nat_s n] | ONewArray n => ["new_array"; nat_s n]
  | ONewAllBorrowed n => ["new_all_borrowed"; nat_s n]
  | ODiscardAllBorrowed n => ["discard_all_borrowed"; nat_s n]
  | ODiscardEmpty => ["discard_empty"] | OClone n => ["clone"; nat_s n]
  | OPanic k => ["panic"; nat_s k]
  | OConst (CInt z) => ["const_int"; z_s z]
  | OConst (CErr m) => ["const_err"; m]
  | OConst (COther s) => ["const_other"; s]
  | OTag t => ["tag"; nat_s t] | OMakeTuple => ["make_tuple"] | OUnpackTuple => ["unpack_tuple"]
  | OIadd => ["iadd"]
  | OGate g => ["gate"; g]
  | OCall f k => ["call"; f; nat_s k]
  | ODrop => ["other"; "tket.guppy.drop"; "0"]
  | OOther s k => ["other"; s; nat_s k]
  end.
Fixpoint instr_tokens (i : instr) : list string :=
  match i with
  | IOp op ins => ["("] ++ op_tokens op ++ ["<-"] ++ map nat_s ins ++ [")"]
  | ICond s others cases =>
      ["cond"; nat_s s; "with"] ++ map nat_s others
      ++ (fix cs (l : list (list instr * list nat)) : list string :=
            match l with
            | [] => []
            | c :: l' =>
                ["{"] ++ (fix body (b : list instr) : list string :=
                            match b with [] => [] | j :: b' => instr_tokens j ++ body b' end) (fst c)
                ++ ["=>"] ++ map nat_s (snd c) ++ ["}"] ++ cs l'
            end) cases
      ++ ["end"]
  end.
Definition seq_tokens (p : list instr) (outs : list nat) : list string :=
  flat_map instr_tokens p ++ ["outs"] ++ map nat_s outs.

(* flat integer encoding of results, decoded by the Python harness *)
Fixpoint enc_val (v : val) : list Z :=
  match v with
  | VInt z => [0; z]
  | VUsize z => [1; z]
  | VRes q => [2; q]
  | VErr _ => [3]
  | VSum t vs => [4; Z.of_nat t; Z.of_nat (List.length vs)]
                 ++ (fix go (l : list val) : list Z := match l with [] => [] | x :: r => enc_val x ++ go r end) vs
  | VTuple vs => [5; Z.of_nat (List.length vs)]
                 ++ (fix go (l : list val) : list Z := match l with [] => [] | x :: r => enc_val x ++ go r end) vs
  | VArr cells => [6; Z.of_nat (List.length cells)]
                 ++ (fix go (l : list (option val)) : list Z :=
                       match l with [] => [] | None :: r => 0 :: go r | Some x :: r => (1 :: enc_val x) ++ go r end) cells
  end.
Definition msg_code (m : string) : Z :=
  if String.eqb m msg_index_oob then 1 else if String.eqb m msg_op_oob then 2
  else if String.eqb m msg_already_borrowed then 3 else if String.eqb m msg_not_borrowed then 4
  else if String.eqb m msg_some_borrowed then 5 else if String.eqb m msg_not_all_borrowed then 6
  else if String.eqb m msg_unpack then 7 else 99.
Definition enc_outcome (r : outcome (list val)) : list Z :=
  match r with
  | Ok vs => 0 :: Z.of_nat (List.length vs) :: flat_map enc_val vs
  | Panic m => [1; msg_code m]
  | Stuck _ => [2]
  end.
