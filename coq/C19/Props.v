(** C19 — array access is bounds-safe and alias-free: the property theorems.

   All statements are about the op sequences of Array.v part 3 (the sequences /repo's compiler
   emits; compared with the really emitted ones on every run) executed by the abstract
   borrow-array machine of Array.v parts 1-2 (trusted op semantics).  An index is any int64
   [i]; [n] is the static array length, assumed <= 2^63 (the usize reading of a negative int64
   is >= 2^63).  The property as a whole is PARTIAL: see props/C19/NOTES.md. *)
From Coq Require Import String ZArith List Bool Lia.
From V.C19 Require Import Array GenIter ModelIter Proofs ProofsIter ProofsNested.
Import ListNotations.
Open Scope Z_scope.

(** xs[i], copyable elements: 0 <= i < n reads cell i and leaves the array as it was *)
Theorem read_touches_exactly_cell_i : forall n cells i v,
  length cells = n -> Z.of_nat n <= two63 -> 0 <= i < Z.of_nat n ->
  nth_error cells (Z.to_nat i) = Some (Some v) ->
  run_outs (seq_get_classical n) outs_get_classical [VArr cells; VInt i] = Ok [v; VArr cells].
Proof. exact read_in_range_l. Qed.
Print Assumptions read_touches_exactly_cell_i.

(** any other int64 index, negative ones included, panics (no array is produced at all) *)
Theorem read_any_other_index_panics : forall n cells i,
  length cells = n -> Z.of_nat n <= two63 -> is_int64 i -> (i < 0 \/ Z.of_nat n <= i) ->
  run_outs (seq_get_classical n) outs_get_classical [VArr cells; VInt i] = Panic msg_index_oob.
Proof. exact read_out_of_range_l. Qed.
Print Assumptions read_any_other_index_panics.

Example read_example :
  run_outs (seq_get_classical 3) outs_get_classical [VArr [Some (VInt 10); Some (VInt 11); Some (VInt 12)]; VInt 1]
  = Ok [VInt 11; VArr [Some (VInt 10); Some (VInt 11); Some (VInt 12)]]
  /\ run_outs (seq_get_classical 3) outs_get_classical [VArr [Some (VInt 10); Some (VInt 11); Some (VInt 12)]; VInt (-1)]
  = Panic msg_index_oob
  /\ run_outs (seq_get_classical 3) outs_get_classical [VArr [Some (VInt 10); Some (VInt 11); Some (VInt 12)]; VInt 3]
  = Panic msg_index_oob.
Proof. vm_compute. auto. Qed.

(** xs[i] = v, copyable elements: exactly cell i changes *)
Theorem write_touches_exactly_cell_i : forall n cells i v old,
  length cells = n -> Z.of_nat n <= two63 -> 0 <= i < Z.of_nat n ->
  nth_error cells (Z.to_nat i) = Some (Some old) ->
  exists cells', run_outs (seq_set_classical n) outs_set_classical [VArr cells; VInt i; v] = Ok [VArr cells']
                 /\ only_cell_changed (Z.to_nat i) (Some v) cells cells'.
Proof. exact write_spec_l. Qed.
Print Assumptions write_touches_exactly_cell_i.

Theorem write_any_other_index_panics : forall n cells i v,
  length cells = n -> Z.of_nat n <= two63 -> is_int64 i -> (i < 0 \/ Z.of_nat n <= i) ->
  run_outs (seq_set_classical n) outs_set_classical [VArr cells; VInt i; v] = Panic msg_index_oob.
Proof. exact write_out_of_range_l. Qed.
Print Assumptions write_any_other_index_panics.

Example write_example :
  run_outs (seq_set_classical 3) outs_set_classical [VArr [Some (VInt 10); Some (VInt 11); Some (VInt 12)]; VInt 2; VInt 7]
  = Ok [VArr [Some (VInt 10); Some (VInt 11); Some (VInt 7)]]
  /\ run_outs (seq_set_classical 3) outs_set_classical [VArr [Some (VInt 10); Some (VInt 11); Some (VInt 12)]; VInt (-3); VInt 7]
  = Panic msg_index_oob.
Proof. vm_compute. auto. Qed.

(** lending a linear element (qs[i] as an argument): exactly cell i becomes empty and its
    content is what the callee gets *)
Theorem lend_takes_exactly_cell_i : forall n cells i v,
  length cells = n -> Z.of_nat n <= two63 -> 0 <= i < Z.of_nat n ->
  nth_error cells (Z.to_nat i) = Some (Some v) ->
  exists cells', run_outs (seq_get_linear n) outs_get_linear [VArr cells; VInt i] = Ok [v; VArr cells']
                 /\ only_cell_changed (Z.to_nat i) None cells cells'.
Proof. exact borrow_spec_l. Qed.
Print Assumptions lend_takes_exactly_cell_i.

Theorem lend_any_other_index_panics : forall n cells i,
  length cells = n -> Z.of_nat n <= two63 -> is_int64 i -> (i < 0 \/ Z.of_nat n <= i) ->
  run_outs (seq_get_linear n) outs_get_linear [VArr cells; VInt i] = Panic msg_op_oob.
Proof. exact borrow_out_of_range_l. Qed.
Print Assumptions lend_any_other_index_panics.

(** lending a cell that is already lent panics *)
Theorem lend_lent_cell_panics : forall n cells i,
  length cells = n -> Z.of_nat n <= two63 -> 0 <= i < Z.of_nat n ->
  nth_error cells (Z.to_nat i) = Some None ->
  run_outs (seq_get_linear n) outs_get_linear [VArr cells; VInt i] = Panic msg_already_borrowed.
Proof. exact borrow_lent_l. Qed.
Print Assumptions lend_lent_cell_panics.

(** g(qs[i], qs[i]): the same element lent twice at once panics instead of aliasing *)
Theorem lend_same_element_twice_panics : forall n g cells i v,
  length cells = n -> Z.of_nat n <= two63 -> 0 <= i < Z.of_nat n ->
  nth_error cells (Z.to_nat i) = Some (Some v) ->
  run_outs (seq_use2 n g) outs_use2 [VArr cells; VInt i; VInt i] = Panic msg_already_borrowed.
Proof. exact use2_same_index_l. Qed.
Print Assumptions lend_same_element_twice_panics.

(** g(qs[i], qs[j]) with distinct valid indices gives every element back to its own cell *)
Theorem lend_two_distinct_restores_array : forall n g cells i j vi vj,
  length cells = n -> Z.of_nat n <= two63 -> 0 <= i < Z.of_nat n -> 0 <= j < Z.of_nat n -> i <> j ->
  nth_error cells (Z.to_nat i) = Some (Some vi) ->
  nth_error cells (Z.to_nat j) = Some (Some vj) ->
  run_outs (seq_use2 n g) outs_use2 [VArr cells; VInt i; VInt j] = Ok [VArr cells].
Proof. exact use2_distinct_l. Qed.
Print Assumptions lend_two_distinct_restores_array.

Theorem lend_two_first_index_invalid_panics : forall n g cells i j,
  length cells = n -> Z.of_nat n <= two63 -> is_int64 i -> (i < 0 \/ Z.of_nat n <= i) ->
  run_outs (seq_use2 n g) outs_use2 [VArr cells; VInt i; VInt j] = Panic msg_op_oob.
Proof. exact use2_first_out_l. Qed.
Print Assumptions lend_two_first_index_invalid_panics.

Theorem lend_two_second_index_invalid_panics : forall n g cells i j vi,
  length cells = n -> Z.of_nat n <= two63 -> 0 <= i < Z.of_nat n ->
  nth_error cells (Z.to_nat i) = Some (Some vi) ->
  is_int64 j -> (j < 0 \/ Z.of_nat n <= j) ->
  run_outs (seq_use2 n g) outs_use2 [VArr cells; VInt i; VInt j] = Panic msg_op_oob.
Proof. exact use2_second_out_l. Qed.
Print Assumptions lend_two_second_index_invalid_panics.

Example lend_example :
  let qs := [Some (VRes 0); Some (VRes 1); Some (VRes 2); Some (VRes 3)] in
  run_outs (seq_use2 4 "CX") outs_use2 [VArr qs; VInt 3; VInt 1] = Ok [VArr qs]
  /\ run_outs (seq_use2 4 "CX") outs_use2 [VArr qs; VInt 2; VInt 2] = Panic msg_already_borrowed
  /\ run_outs (seq_use2 4 "CX") outs_use2 [VArr qs; VInt 2; VInt (-2)] = Panic msg_op_oob.
Proof. vm_compute. auto. Qed.

(** g(qs[i]): borrow, use, give back to the same cell *)
Theorem lend_one_restores_array : forall n g cells i v,
  length cells = n -> Z.of_nat n <= two63 -> 0 <= i < Z.of_nat n ->
  nth_error cells (Z.to_nat i) = Some (Some v) ->
  run_outs (seq_use1 n g) outs_use1 [VArr cells; VInt i] = Ok [VArr cells].
Proof. exact use1_in_range_l. Qed.
Print Assumptions lend_one_restores_array.

Theorem lend_one_any_other_index_panics : forall n g cells i,
  length cells = n -> Z.of_nat n <= two63 -> is_int64 i -> (i < 0 \/ Z.of_nat n <= i) ->
  run_outs (seq_use1 n g) outs_use1 [VArr cells; VInt i] = Panic msg_op_oob.
Proof. exact use1_out_of_range_l. Qed.
Print Assumptions lend_one_any_other_index_panics.

(** qs[i] = q (linear write): fills exactly the empty cell i; a full cell or any other index panics *)
Theorem give_back_fills_exactly_cell_i : forall n cells i v,
  length cells = n -> Z.of_nat n <= two63 -> 0 <= i < Z.of_nat n ->
  nth_error cells (Z.to_nat i) = Some None ->
  exists cells', run_outs (seq_set_linear n) outs_set_linear [VArr cells; VInt i; v] = Ok [VArr cells']
                 /\ only_cell_changed (Z.to_nat i) (Some v) cells cells'.
Proof. exact return_spec_l. Qed.
Print Assumptions give_back_fills_exactly_cell_i.

Theorem give_back_any_other_index_panics : forall n cells i v,
  length cells = n -> Z.of_nat n <= two63 -> is_int64 i -> (i < 0 \/ Z.of_nat n <= i) ->
  run_outs (seq_set_linear n) outs_set_linear [VArr cells; VInt i; v] = Panic msg_op_oob.
Proof. exact return_out_of_range_l. Qed.
Print Assumptions give_back_any_other_index_panics.

Theorem give_back_into_full_cell_panics : forall n cells i v w,
  length cells = n -> Z.of_nat n <= two63 -> 0 <= i < Z.of_nat n ->
  nth_error cells (Z.to_nat i) = Some (Some w) ->
  run_outs (seq_set_linear n) outs_set_linear [VArr cells; VInt i; v] = Panic msg_not_borrowed.
Proof. exact return_full_l. Qed.
Print Assumptions give_back_into_full_cell_panics.

(** copy(): both results are the array, cell by cell in index order *)
Theorem copy_sees_elements_in_order : forall n vs, length vs = n ->
  run_outs (seq_copy n) outs_copy [VArr (map Some vs)] = Ok [VArr (map Some vs); VArr (map Some vs)].
Proof. exact copy_full_l. Qed.
Print Assumptions copy_sees_elements_in_order.

Theorem copy_of_array_with_lent_cell_panics : forall n cells k,
  length cells = n -> nth_error cells k = Some None ->
  run_outs (seq_copy n) outs_copy [VArr cells] = Panic msg_some_borrowed.
Proof. exact copy_lent_l. Qed.
Print Assumptions copy_of_array_with_lent_cell_panics.

(** unpacking `a1, .., al, *mid, b1, .., br = xs` (and without the star, where mid = []):
    for EVERY decomposition xs = left ++ mid ++ right the left patterns get [left], the right
    patterns get [right], both in index order, and the starred name gets the array [mid]
    (proof by induction on the number of pops; all array lengths) *)
Theorem unpack_sees_elements_in_order : forall left mid right star,
  (star = false -> mid = []) ->
  run_outs (seq_unpack (length (left ++ mid ++ right)) (length left) (length right) star)
    (outs_unpack_left (length left)
     ++ (if star then [out_unpack_star (length left) (length right)] else [])
     ++ outs_unpack_right (length left) (length right))
    [VArr (map Some (left ++ mid ++ right))]
  = Ok (left ++ (if star then [VArr (map Some mid)] else []) ++ right).
Proof. exact unpack_in_order_l. Qed.
Print Assumptions unpack_sees_elements_in_order.

Example unpack_example :
  run_outs (seq_unpack 5 2 1 true) (outs_unpack_left 2 ++ [out_unpack_star 2 1] ++ outs_unpack_right 2 1)
    [VArr (map Some [VInt 0; VInt 1; VInt 2; VInt 3; VInt 4])]
  = Ok [VInt 0; VInt 1; VArr [Some (VInt 2); Some (VInt 3)]; VInt 4]
  /\ run_outs (seq_unpack 3 3 0 false) (outs_unpack_left 3 ++ [] ++ outs_unpack_right 3 0)
    [VArr (map Some [VRes 7; VRes 8; VRes 9])] = Ok [VRes 7; VRes 8; VRes 9].
Proof. vm_compute. auto. Qed.

(** `for x in xs`: the GENERATED ArrayIter.__next__ (GenIter.v, from std/array.py), started by
    the generated __iter__, delivers cells 0..n-1 in index order and then stops, discarding the
    fully lent array (induction on n) *)
Theorem iteration_sees_elements_in_order : forall n vs,
  length vs = n -> Z.of_nat n < two63 -> for_loop_elements n (VArr (map Some vs)) = Ok vs.
Proof. exact iteration_in_order_l. Qed.
Print Assumptions iteration_sees_elements_in_order.

Theorem iteration_over_lent_cell_panics : forall n cells k,
  length cells = n -> Z.of_nat n < two63 -> (k < n)%nat -> nth_error cells k = Some None ->
  array_iter_next n (VArr cells) (Z.of_nat k) = Panic msg_already_borrowed.
Proof. exact iteration_lent_cell_panics_l. Qed.
Print Assumptions iteration_over_lent_cell_panics.

Example iteration_example :
  for_loop_elements 3 (VArr (map Some [VRes 4; VRes 5; VRes 6])) = Ok [VRes 4; VRes 5; VRes 6].
Proof. vm_compute. reflexivity. Qed.

(** array(e for ...): the k-th delivered element lands in cell k (induction on n) *)
Theorem comprehension_fills_cells_in_order : forall n es,
  length es = n -> Z.of_nat n < two63 -> comprehension n es = Ok (VArr (map Some es)).
Proof. exact comprehension_in_order_l. Qed.
Print Assumptions comprehension_fills_cells_in_order.

Theorem comprehension_over_array_keeps_order : forall n vs,
  length vs = n -> Z.of_nat n < two63 ->
  comprehension_over_array n (VArr (map Some vs)) = Ok (VArr (map Some vs)).
Proof. exact comprehension_over_array_l. Qed.
Print Assumptions comprehension_over_array_keeps_order.

Example comprehension_example :
  comprehension 3 [VInt 7; VInt 8; VInt 9] = Ok (VArr [Some (VInt 7); Some (VInt 8); Some (VInt 9)]).
Proof. vm_compute. reflexivity. Qed.

(** ---- nested subscripts `f(qs[i][j])` (arrays of arrays).  The emitted sequence evaluates each
    index expression once and every borrow / return of the outer array reads that one register. *)

(** taking the leaf out touches exactly cell (i, j): it becomes empty, its content is what the
    callee gets, every other cell of every inner array is as before *)
Theorem lend_nested_touches_exactly_cell_ij : forall n m cells inner i j v,
  length cells = n -> Z.of_nat n <= two63 -> Z.of_nat m <= two63 ->
  0 <= i < Z.of_nat n -> 0 <= j < Z.of_nat m -> length inner = m ->
  nth_error cells (Z.to_nat i) = Some (Some (VArr inner)) ->
  nth_error inner (Z.to_nat j) = Some (Some v) ->
  exists cells', run_outs (seq_lend_nested_pre n m) outs_lend_nested_pre [VArr cells; VInt i; VInt j] = Ok [v; VArr cells']
                 /\ only_cell_ij_changed (Z.to_nat i) (Z.to_nat j) None cells cells'.
Proof. exact lend_nested_pre_spec_l. Qed.
Print Assumptions lend_nested_touches_exactly_cell_ij.

(** the write-back after the call puts the leaf into exactly cell (i, j) *)
Theorem lend_nested_gives_back_to_cell_ij : forall n m cells inner i j w,
  length cells = n -> Z.of_nat n <= two63 -> Z.of_nat m <= two63 ->
  0 <= i < Z.of_nat n -> 0 <= j < Z.of_nat m -> length inner = m ->
  nth_error cells (Z.to_nat i) = Some (Some (VArr inner)) ->
  nth_error inner (Z.to_nat j) = Some None ->
  exists cells', run_outs (seq_lend_nested_post n m) outs_lend_nested_post [VArr cells; VInt i; VInt j; w] = Ok [VArr cells']
                 /\ only_cell_ij_changed (Z.to_nat i) (Z.to_nat j) (Some w) cells cells'.
Proof. exact lend_nested_post_spec_l. Qed.
Print Assumptions lend_nested_gives_back_to_cell_ij.

(** the whole `g(qs[i][j])`: every element is back in its own cell *)
Theorem lend_nested_restores_array : forall n m cells inner i j,
  length cells = n -> Z.of_nat n <= two63 -> Z.of_nat m <= two63 ->
  forall g v, 0 <= i < Z.of_nat n -> 0 <= j < Z.of_nat m -> length inner = m ->
  nth_error cells (Z.to_nat i) = Some (Some (VArr inner)) ->
  nth_error inner (Z.to_nat j) = Some (Some v) ->
  run_outs (seq_lend_nested n m (OGate g)) outs_lend_nested [VArr cells; VInt i; VInt j] = Ok [VArr cells].
Proof. exact lend_nested_restores_l. Qed.
Print Assumptions lend_nested_restores_array.

Theorem lend_nested_outer_index_invalid_panics : forall n m cells i j,
  length cells = n -> Z.of_nat n <= two63 ->
  forall f, is_int64 i -> (i < 0 \/ Z.of_nat n <= i) ->
  run_outs (seq_lend_nested n m f) outs_lend_nested [VArr cells; VInt i; VInt j] = Panic msg_op_oob.
Proof. exact lend_nested_outer_out_l. Qed.
Print Assumptions lend_nested_outer_index_invalid_panics.

Theorem lend_nested_inner_index_invalid_panics : forall n m cells inner i j,
  length cells = n -> Z.of_nat n <= two63 -> Z.of_nat m <= two63 ->
  forall f, 0 <= i < Z.of_nat n -> length inner = m ->
  nth_error cells (Z.to_nat i) = Some (Some (VArr inner)) ->
  is_int64 j -> (j < 0 \/ Z.of_nat m <= j) ->
  run_outs (seq_lend_nested n m f) outs_lend_nested [VArr cells; VInt i; VInt j] = Panic msg_op_oob.
Proof. exact lend_nested_inner_out_l. Qed.
Print Assumptions lend_nested_inner_index_invalid_panics.

(** `g(qs[bump(ctr)][c])` with an EFFECTFUL index expression: the oracle is consulted once (the
    counter goes from k to k+1) and the element it named is the one lent and given back *)
Theorem lend_nested_effectful_index_evaluated_once : forall n m cells inner i j,
  length cells = n -> Z.of_nat n <= two63 -> Z.of_nat m <= two63 ->
  forall g c k v, i = k -> j = c -> Z.of_nat n < two63 ->
  0 <= i < Z.of_nat n -> 0 <= j < Z.of_nat m -> length inner = m ->
  nth_error cells (Z.to_nat i) = Some (Some (VArr inner)) ->
  nth_error inner (Z.to_nat j) = Some (Some v) ->
  run_outs (seq_lend_nested_oracle n m (OGate g) c) outs_lend_nested_oracle [VArr cells; VArr [Some (VInt k)]]
  = Ok [VArr cells; VArr [Some (VInt (k + 1))]].
Proof. exact lend_nested_oracle_l. Qed.
Print Assumptions lend_nested_effectful_index_evaluated_once.

Theorem read_nested_touches_exactly_cell_ij : forall n m cells inner i j,
  length cells = n -> Z.of_nat n <= two63 -> Z.of_nat m <= two63 ->
  forall v, 0 <= i < Z.of_nat n -> 0 <= j < Z.of_nat m -> length inner = m ->
  nth_error cells (Z.to_nat i) = Some (Some (VArr inner)) ->
  nth_error inner (Z.to_nat j) = Some (Some v) ->
  run_outs (seq_get_nested n m) outs_get_nested [VArr cells; VInt i; VInt j] = Ok [v; VArr cells].
Proof. exact read_nested_l. Qed.
Print Assumptions read_nested_touches_exactly_cell_ij.

Theorem read_nested_inner_index_invalid_panics : forall n m cells inner i j,
  length cells = n -> Z.of_nat n <= two63 -> Z.of_nat m <= two63 ->
  0 <= i < Z.of_nat n -> length inner = m ->
  nth_error cells (Z.to_nat i) = Some (Some (VArr inner)) ->
  is_int64 j -> (j < 0 \/ Z.of_nat m <= j) ->
  run_outs (seq_get_nested n m) outs_get_nested [VArr cells; VInt i; VInt j] = Panic msg_index_oob.
Proof. exact read_nested_inner_out_l. Qed.
Print Assumptions read_nested_inner_index_invalid_panics.

Theorem write_nested_touches_exactly_cell_ij : forall n m cells inner i j v old,
  length cells = n -> Z.of_nat n <= two63 -> Z.of_nat m <= two63 ->
  0 <= i < Z.of_nat n -> 0 <= j < Z.of_nat m -> length inner = m ->
  nth_error cells (Z.to_nat i) = Some (Some (VArr inner)) ->
  nth_error inner (Z.to_nat j) = Some (Some old) ->
  exists cells', run_outs (seq_set_nested n m) outs_set_nested [VArr cells; VInt i; VInt j; v] = Ok [VArr cells']
                 /\ only_cell_ij_changed (Z.to_nat i) (Z.to_nat j) (Some v) cells cells'.
Proof. exact write_nested_spec_l. Qed.
Print Assumptions write_nested_touches_exactly_cell_ij.

Example lend_nested_example :
  let row k := VArr [Some (VRes (10 * k)); Some (VRes (10 * k + 1))] in
  let qs := [Some (row 0); Some (row 1); Some (row 2)] in
  run_outs (seq_lend_nested 3 2 (OGate "H")) outs_lend_nested [VArr qs; VInt 2; VInt 1] = Ok [VArr qs]
  /\ run_outs (seq_lend_nested_oracle 3 2 (OGate "H") 1) outs_lend_nested_oracle [VArr qs; VArr [Some (VInt 1)]]
     = Ok [VArr qs; VArr [Some (VInt 2)]]
  /\ run_outs (seq_lend2_nested_oracle 3 2 "CX" 0 1) outs_lend2_nested_oracle [VArr qs; VArr [Some (VInt 0)]]
     = Ok [VArr qs; VArr [Some (VInt 2)]]
  /\ run_outs (seq_lend_nested 3 2 (OGate "H")) outs_lend_nested [VArr qs; VInt 3; VInt 1] = Panic msg_op_oob
  /\ run_outs (seq_lend_nested 3 2 (OGate "H")) outs_lend_nested [VArr qs; VInt 0; VInt (-1)] = Panic msg_op_oob.
Proof. vm_compute. auto 10. Qed.

(** PARTIAL.  Not proved here: (1) that the HUGR ops behave as Array.v part 1 says (trusted
    spec); (2) that the compiler emits the sequences of Array.v part 3 for ALL programs (tied by
    comparison on compiled sample programs each run); (3) the loop protocol that calls __next__
    until Nothing (modelled by [iterate] / [comp_drive]); (4) n >= 2^63. *)
