(** C19 — the for-loop driver over the GENERATED ArrayIter methods (model; no proofs).
    A `for x in xs` loop / generator calls __iter__ once and then __next__ until it answers
    Nothing; [iterate] collects the elements it delivers (that protocol itself is C03/C18). *)
From Coq Require Import ZArith List String.
From V.C19 Require Import Array GenIter.
Import ListNotations.
Open Scope Z_scope.

Fixpoint iterate (fuel n : nat) (xs : val) (i : Z) : outcome (list val) :=
  match fuel with
  | O => Stuck "out of fuel"
  | S f =>
      match array_iter_next n xs i with
      | Ok (Some (e, (xs', i'))) => obind (iterate f n xs' i') (fun r => Ok (e :: r))
      | Ok None => Ok []
      | Panic m => Panic m
      | Stuck w => Stuck w
      end
  end.

(** elements seen by `for x in xs` over an array of static length n *)
Definition for_loop_elements (n : nat) (xs : val) : outcome (list val) :=
  iterate (S n) n xs array_iter_start.

(** `array(f(x) for x in xs)`: the generator delivers the elements of xs (by [iterate]), the
    comprehension stores what it is given in delivery order *)
Definition comprehension_over_array (n : nat) (xs : val) : outcome val :=
  obind (for_loop_elements n xs) (comprehension n).
