(** C19 — lemmas about the abstract borrow-array machine of Array.v. *)
From Coq Require Import String ZArith List Bool Lia ZifyBool.
From V.C19 Require Import Array.
Import ListNotations.
Open Scope Z_scope.

(* ---------------------------------------------------------------- arithmetic facts *)

Lemma two64_eq : two64 = 2 * two63. Proof. reflexivity. Qed.
Lemma two63_pos : 0 < two63. Proof. reflexivity. Qed.

Lemma mod64_nonneg : forall i, 0 <= i < two63 -> i mod two64 = i.
Proof. intros i H. apply Z.mod_small. pose proof two64_eq. lia. Qed.

Lemma mod64_neg : forall i, - two63 <= i < 0 -> i mod two64 = i + two64.
Proof.
  intros i H. pose proof two64_eq as E. pose proof two63_pos.
  replace i with ((i + two64) + (-1) * two64) at 1 by lia.
  rewrite Z_mod_plus_full. apply Z.mod_small. lia.
Qed.

Lemma uidx_in : forall n i, Z.of_nat n <= two63 -> 0 <= i < Z.of_nat n ->
  uidx n (i mod two64) = Some (Z.to_nat i).
Proof.
  intros n i Hn Hi. rewrite mod64_nonneg by lia. unfold uidx.
  destruct ((0 <=? i) && (i <? Z.of_nat n)) eqn:E; [reflexivity | lia].
Qed.

Lemma uidx_out : forall n i, Z.of_nat n <= two63 -> is_int64 i -> (i < 0 \/ Z.of_nat n <= i) ->
  uidx n (i mod two64) = None.
Proof.
  intros n i Hn [Hlo Hhi] Hout. pose proof two64_eq. pose proof two63_pos. unfold uidx.
  destruct (Z_lt_dec i 0) as [Hneg | Hpos].
  - rewrite mod64_neg by lia.
    destruct ((0 <=? i + two64) && (i + two64 <? Z.of_nat n)) eqn:E; [lia | reflexivity].
  - rewrite mod64_nonneg by lia.
    destruct ((0 <=? i) && (i <? Z.of_nat n)) eqn:E; [lia | reflexivity].
Qed.

Lemma wrap_s_small : forall z, is_int64 z -> wrap_s z = z.
Proof.
  intros z [Hlo Hhi]. unfold wrap_s. pose proof two64_eq. pose proof two63_pos.
  rewrite Z.mod_small by lia. lia.
Qed.

(* ---------------------------------------------------------------------- list facts *)

Lemma upd_length : forall A (l : list A) k x, length (upd l k x) = length l.
Proof. induction l; destruct k; simpl; intros; auto. Qed.

Lemma upd_same : forall A (l : list A) k x, (k < length l)%nat -> nth_error (upd l k x) k = Some x.
Proof. induction l; destruct k; simpl; intros; try lia; auto. apply IHl. lia. Qed.

Lemma upd_other : forall A (l : list A) k j x, j <> k -> nth_error (upd l k x) j = nth_error l j.
Proof.
  induction l; destruct k; destruct j; simpl; intros; try congruence; auto.
Qed.

Lemma upd_id : forall A (l : list A) k x, nth_error l k = Some x -> upd l k x = l.
Proof.
  induction l; destruct k; simpl; intros; try congruence.
  f_equal. auto.
Qed.

Lemma upd_upd : forall A (l : list A) k x y, upd (upd l k x) k y = upd l k y.
Proof. induction l; destruct k; simpl; intros; auto. f_equal. auto. Qed.

Lemma all_some_map : forall A (vs : list A), all_some (map Some vs) = Some vs.
Proof. induction vs; simpl; auto. rewrite IHvs. reflexivity. Qed.

Lemma all_some_inv : forall A (l : list (option A)) vs, all_some l = Some vs -> l = map Some vs.
Proof.
  induction l as [|[x|] l IH]; simpl; intros vs H.
  - inversion H. reflexivity.
  - destruct (all_some l) eqn:E; inversion H. simpl. f_equal. auto.
  - discriminate.
Qed.

Lemma all_some_none : forall A (l : list (option A)) k, nth_error l k = Some None -> all_some l = None.
Proof.
  induction l as [|[x|] l IH]; destruct k; simpl; intros H; try discriminate; auto.
  rewrite (IH _ H). reflexivity.
Qed.

Lemma len_ok_refl : forall cells, len_ok (length cells) cells = true.
Proof. intros. unfold len_ok. apply Nat.eqb_refl. Qed.

(* ------------------------------------------------- one rewriting lemma per op clause *)

Section Cell.
  Variable n : nat.
  Variable cells : list (option val).
  Variable i : Z.
  Hypothesis Hlen : length cells = n.
  Hypothesis Hn : Z.of_nat n <= two63.

  Lemma with_cell_in : forall oob full empty, 0 <= i < Z.of_nat n ->
    with_cell n cells (i mod two64) oob full empty =
    match nth_error cells (Z.to_nat i) with
    | Some (Some v) => full (Z.to_nat i) v
    | Some None => empty (Z.to_nat i)
    | None => Stuck "cell"%string
    end.
  Proof.
    intros. unfold with_cell. subst n. rewrite len_ok_refl. rewrite uidx_in by assumption. reflexivity.
  Qed.

  Lemma with_cell_out : forall oob full empty, is_int64 i -> (i < 0 \/ Z.of_nat n <= i) ->
    with_cell n cells (i mod two64) oob full empty = oob.
  Proof.
    intros. unfold with_cell. subst n. rewrite len_ok_refl. rewrite uidx_out by assumption. reflexivity.
  Qed.
End Cell.

Arguments op_sem : simpl never.

Ltac step := cbn [run run_outs exec_instr lookups nth_error obind app fst snd seq unwrap].

(* ------------------------------------------------------------ classical read / write *)

Lemma read_in_range_l : forall n cells i v,
  length cells = n -> Z.of_nat n <= two63 -> 0 <= i < Z.of_nat n ->
  nth_error cells (Z.to_nat i) = Some (Some v) ->
  run_outs (seq_get_classical n) outs_get_classical [VArr cells; VInt i] = Ok [v; VArr cells].
Proof.
  intros n cells i v Hlen Hn Hi Hc.
  unfold run_outs, seq_get_classical, outs_get_classical. step.
  unfold op_sem at 1. cbn [sem_itousize]. step.
  unfold op_sem at 1. cbn [sem_get]. rewrite (with_cell_in n cells i Hlen Hn) by assumption.
  rewrite Hc. step. reflexivity.
Qed.

Ltac opstep := unfold op_sem at 1;
  cbn [sem_itousize sem_get sem_set sem_borrow sem_return sem_clone sem_panic sem_iadd
       sem_discard_all_borrowed sem_discard_empty sem_unpack_tuple]; step.

Lemma read_out_of_range_l : forall n cells i,
  length cells = n -> Z.of_nat n <= two63 -> is_int64 i -> (i < 0 \/ Z.of_nat n <= i) ->
  run_outs (seq_get_classical n) outs_get_classical [VArr cells; VInt i] = Panic msg_index_oob.
Proof.
  intros n cells i Hlen Hn Hi Ho.
  unfold run_outs, seq_get_classical, outs_get_classical. step. opstep.
  unfold op_sem at 1. cbn [sem_get]. rewrite (with_cell_out n cells i Hlen Hn) by assumption.
  step. opstep. opstep. reflexivity.
Qed.

Lemma read_lent_l : forall n cells i,
  length cells = n -> Z.of_nat n <= two63 -> 0 <= i < Z.of_nat n ->
  nth_error cells (Z.to_nat i) = Some None ->
  run_outs (seq_get_classical n) outs_get_classical [VArr cells; VInt i] = Panic msg_already_borrowed.
Proof.
  intros n cells i Hlen Hn Hi Hc.
  unfold run_outs, seq_get_classical, outs_get_classical. step. opstep.
  unfold op_sem at 1. cbn [sem_get]. rewrite (with_cell_in n cells i Hlen Hn) by assumption.
  rewrite Hc. reflexivity.
Qed.

Lemma write_in_range_l : forall n cells i v old,
  length cells = n -> Z.of_nat n <= two63 -> 0 <= i < Z.of_nat n ->
  nth_error cells (Z.to_nat i) = Some (Some old) ->
  run_outs (seq_set_classical n) outs_set_classical [VArr cells; VInt i; v]
  = Ok [VArr (upd cells (Z.to_nat i) (Some v))].
Proof.
  intros n cells i v old Hlen Hn Hi Hc.
  unfold run_outs, seq_set_classical, outs_set_classical. step. opstep.
  unfold op_sem at 1. cbn [sem_set]. rewrite (with_cell_in n cells i Hlen Hn) by assumption.
  rewrite Hc. step. reflexivity.
Qed.

Lemma write_out_of_range_l : forall n cells i v,
  length cells = n -> Z.of_nat n <= two63 -> is_int64 i -> (i < 0 \/ Z.of_nat n <= i) ->
  run_outs (seq_set_classical n) outs_set_classical [VArr cells; VInt i; v] = Panic msg_index_oob.
Proof.
  intros n cells i v Hlen Hn Hi Ho.
  unfold run_outs, seq_set_classical, outs_set_classical. step. opstep.
  unfold op_sem at 1. cbn [sem_set]. rewrite (with_cell_out n cells i Hlen Hn) by assumption.
  step. opstep. opstep. reflexivity.
Qed.

(* ------------------------------------------------ linear elements: borrow and return *)

Lemma nth_error_ext' : forall A (l1 l2 : list A), (forall k, nth_error l1 k = nth_error l2 k) -> l1 = l2.
Proof.
  induction l1 as [|a l1 IH]; destruct l2 as [|b l2]; intros H; auto.
  - specialize (H O). discriminate.
  - specialize (H O). discriminate.
  - pose proof (H O) as H0. simpl in H0. inversion H0. f_equal. apply IH. intros k. apply (H (S k)).
Qed.

Lemma nth_error_lt : forall A (l : list A) k x, nth_error l k = Some x -> (k < length l)%nat.
Proof. intros. apply nth_error_Some. congruence. Qed.

Lemma borrow_in_range_l : forall n cells i v,
  length cells = n -> Z.of_nat n <= two63 -> 0 <= i < Z.of_nat n ->
  nth_error cells (Z.to_nat i) = Some (Some v) ->
  run_outs (seq_get_linear n) outs_get_linear [VArr cells; VInt i]
  = Ok [v; VArr (upd cells (Z.to_nat i) None)].
Proof.
  intros n cells i v Hlen Hn Hi Hc.
  unfold run_outs, seq_get_linear, outs_get_linear. step. opstep.
  unfold op_sem at 1. cbn [sem_borrow]. rewrite (with_cell_in n cells i Hlen Hn) by assumption.
  rewrite Hc. step. reflexivity.
Qed.

Lemma borrow_out_of_range_l : forall n cells i,
  length cells = n -> Z.of_nat n <= two63 -> is_int64 i -> (i < 0 \/ Z.of_nat n <= i) ->
  run_outs (seq_get_linear n) outs_get_linear [VArr cells; VInt i] = Panic msg_op_oob.
Proof.
  intros n cells i Hlen Hn Hi Ho.
  unfold run_outs, seq_get_linear, outs_get_linear. step. opstep.
  unfold op_sem at 1. cbn [sem_borrow]. rewrite (with_cell_out n cells i Hlen Hn) by assumption.
  reflexivity.
Qed.

Lemma borrow_lent_l : forall n cells i,
  length cells = n -> Z.of_nat n <= two63 -> 0 <= i < Z.of_nat n ->
  nth_error cells (Z.to_nat i) = Some None ->
  run_outs (seq_get_linear n) outs_get_linear [VArr cells; VInt i] = Panic msg_already_borrowed.
Proof.
  intros n cells i Hlen Hn Hi Hc.
  unfold run_outs, seq_get_linear, outs_get_linear. step. opstep.
  unfold op_sem at 1. cbn [sem_borrow]. rewrite (with_cell_in n cells i Hlen Hn) by assumption.
  rewrite Hc. reflexivity.
Qed.

Lemma return_in_range_l : forall n cells i v,
  length cells = n -> Z.of_nat n <= two63 -> 0 <= i < Z.of_nat n ->
  nth_error cells (Z.to_nat i) = Some None ->
  run_outs (seq_set_linear n) outs_set_linear [VArr cells; VInt i; v]
  = Ok [VArr (upd cells (Z.to_nat i) (Some v))].
Proof.
  intros n cells i v Hlen Hn Hi Hc.
  unfold run_outs, seq_set_linear, outs_set_linear. step. opstep.
  unfold op_sem at 1. cbn [sem_return]. rewrite (with_cell_in n cells i Hlen Hn) by assumption.
  rewrite Hc. step. reflexivity.
Qed.

Lemma return_out_of_range_l : forall n cells i v,
  length cells = n -> Z.of_nat n <= two63 -> is_int64 i -> (i < 0 \/ Z.of_nat n <= i) ->
  run_outs (seq_set_linear n) outs_set_linear [VArr cells; VInt i; v] = Panic msg_op_oob.
Proof.
  intros n cells i v Hlen Hn Hi Ho.
  unfold run_outs, seq_set_linear, outs_set_linear. step. opstep.
  unfold op_sem at 1. cbn [sem_return]. rewrite (with_cell_out n cells i Hlen Hn) by assumption.
  reflexivity.
Qed.

Lemma return_full_l : forall n cells i v w,
  length cells = n -> Z.of_nat n <= two63 -> 0 <= i < Z.of_nat n ->
  nth_error cells (Z.to_nat i) = Some (Some w) ->
  run_outs (seq_set_linear n) outs_set_linear [VArr cells; VInt i; v] = Panic msg_not_borrowed.
Proof.
  intros n cells i v w Hlen Hn Hi Hc.
  unfold run_outs, seq_set_linear, outs_set_linear. step. opstep.
  unfold op_sem at 1. cbn [sem_return]. rewrite (with_cell_in n cells i Hlen Hn) by assumption.
  rewrite Hc. reflexivity.
Qed.

(** g(qs[i]) *)
Lemma use1_in_range_l : forall n g cells i v,
  length cells = n -> Z.of_nat n <= two63 -> 0 <= i < Z.of_nat n ->
  nth_error cells (Z.to_nat i) = Some (Some v) ->
  run_outs (seq_use1 n g) outs_use1 [VArr cells; VInt i] = Ok [VArr cells].
Proof.
  intros n g cells i v Hlen Hn Hi Hc.
  pose proof (nth_error_lt _ _ _ _ Hc) as Hk.
  unfold run_outs, seq_use1, outs_use1. step. opstep.
  unfold op_sem at 1. cbn [sem_borrow]. rewrite (with_cell_in n cells i Hlen Hn) by assumption.
  rewrite Hc. step. unfold op_sem at 1. step. opstep.
  unfold op_sem at 1. cbn [sem_return].
  rewrite (with_cell_in n _ i (eq_trans (upd_length _ _ _ _) Hlen) Hn) by assumption.
  rewrite upd_same by assumption. step. rewrite upd_upd. rewrite upd_id by assumption. reflexivity.
Qed.

Lemma use1_out_of_range_l : forall n g cells i,
  length cells = n -> Z.of_nat n <= two63 -> is_int64 i -> (i < 0 \/ Z.of_nat n <= i) ->
  run_outs (seq_use1 n g) outs_use1 [VArr cells; VInt i] = Panic msg_op_oob.
Proof.
  intros n g cells i Hlen Hn Hi Ho.
  unfold run_outs, seq_use1, outs_use1. step. opstep.
  unfold op_sem at 1. cbn [sem_borrow]. rewrite (with_cell_out n cells i Hlen Hn) by assumption.
  reflexivity.
Qed.

Lemma use1_lent_l : forall n g cells i,
  length cells = n -> Z.of_nat n <= two63 -> 0 <= i < Z.of_nat n ->
  nth_error cells (Z.to_nat i) = Some None ->
  run_outs (seq_use1 n g) outs_use1 [VArr cells; VInt i] = Panic msg_already_borrowed.
Proof.
  intros n g cells i Hlen Hn Hi Hc.
  unfold run_outs, seq_use1, outs_use1. step. opstep.
  unfold op_sem at 1. cbn [sem_borrow]. rewrite (with_cell_in n cells i Hlen Hn) by assumption.
  rewrite Hc. reflexivity.
Qed.

(** g(qs[i], qs[j]): two elements lent at the same time *)
Lemma use2_same_index_l : forall n g cells i v,
  length cells = n -> Z.of_nat n <= two63 -> 0 <= i < Z.of_nat n ->
  nth_error cells (Z.to_nat i) = Some (Some v) ->
  run_outs (seq_use2 n g) outs_use2 [VArr cells; VInt i; VInt i] = Panic msg_already_borrowed.
Proof.
  intros n g cells i v Hlen Hn Hi Hc.
  pose proof (nth_error_lt _ _ _ _ Hc) as Hk.
  unfold run_outs, seq_use2, outs_use2. step. opstep.
  unfold op_sem at 1. cbn [sem_borrow]. rewrite (with_cell_in n cells i Hlen Hn) by assumption.
  rewrite Hc. step. opstep.
  unfold op_sem at 1. cbn [sem_borrow].
  rewrite (with_cell_in n _ i (eq_trans (upd_length _ _ _ _) Hlen) Hn) by assumption.
  rewrite upd_same by assumption. reflexivity.
Qed.

Lemma use2_distinct_l : forall n g cells i j vi vj,
  length cells = n -> Z.of_nat n <= two63 -> 0 <= i < Z.of_nat n -> 0 <= j < Z.of_nat n -> i <> j ->
  nth_error cells (Z.to_nat i) = Some (Some vi) ->
  nth_error cells (Z.to_nat j) = Some (Some vj) ->
  run_outs (seq_use2 n g) outs_use2 [VArr cells; VInt i; VInt j] = Ok [VArr cells].
Proof.
  intros n g cells i j vi vj Hlen Hn Hi Hj Hne Hci Hcj.
  pose proof (nth_error_lt _ _ _ _ Hci) as Hki. pose proof (nth_error_lt _ _ _ _ Hcj) as Hkj.
  assert (Hnk : Z.to_nat j <> Z.to_nat i) by lia.
  assert (Hnk' : Z.to_nat i <> Z.to_nat j) by lia.
  unfold run_outs, seq_use2, outs_use2. step. opstep.
  unfold op_sem at 1. cbn [sem_borrow]. rewrite (with_cell_in n cells i Hlen Hn) by assumption.
  rewrite Hci. step. opstep.
  unfold op_sem at 1. cbn [sem_borrow].
  rewrite (with_cell_in n _ j (eq_trans (upd_length _ _ _ _) Hlen) Hn) by assumption.
  rewrite upd_other by assumption. rewrite Hcj. step.
  unfold op_sem at 1. step. opstep.
  unfold op_sem at 1. cbn [sem_return].
  rewrite (with_cell_in n _ i (eq_trans (upd_length _ _ _ _) (eq_trans (upd_length _ _ _ _) Hlen)) Hn) by assumption.
  rewrite upd_other by assumption. rewrite upd_same by assumption. step. opstep.
  unfold op_sem at 1. cbn [sem_return].
  rewrite (with_cell_in n _ j (eq_trans (upd_length _ _ _ _) (eq_trans (upd_length _ _ _ _) (eq_trans (upd_length _ _ _ _) Hlen))) Hn) by assumption.
  rewrite upd_other by assumption. rewrite upd_same by (rewrite upd_length; assumption). step.
  f_equal. f_equal. f_equal. apply nth_error_ext'. intros k.
  destruct (Nat.eq_dec k (Z.to_nat j)) as [-> | Nj].
  - rewrite upd_same by (rewrite !upd_length; assumption). symmetry. assumption.
  - rewrite upd_other by assumption.
    destruct (Nat.eq_dec k (Z.to_nat i)) as [-> | Ni].
    + rewrite upd_same by (rewrite !upd_length; assumption). symmetry. assumption.
    + rewrite !upd_other by assumption. reflexivity.
Qed.

Lemma use2_first_out_l : forall n g cells i j,
  length cells = n -> Z.of_nat n <= two63 -> is_int64 i -> (i < 0 \/ Z.of_nat n <= i) ->
  run_outs (seq_use2 n g) outs_use2 [VArr cells; VInt i; VInt j] = Panic msg_op_oob.
Proof.
  intros n g cells i j Hlen Hn Hi Ho.
  unfold run_outs, seq_use2, outs_use2. step. opstep.
  unfold op_sem at 1. cbn [sem_borrow]. rewrite (with_cell_out n cells i Hlen Hn) by assumption.
  reflexivity.
Qed.

Lemma use2_second_out_l : forall n g cells i j vi,
  length cells = n -> Z.of_nat n <= two63 -> 0 <= i < Z.of_nat n ->
  nth_error cells (Z.to_nat i) = Some (Some vi) ->
  is_int64 j -> (j < 0 \/ Z.of_nat n <= j) ->
  run_outs (seq_use2 n g) outs_use2 [VArr cells; VInt i; VInt j] = Panic msg_op_oob.
Proof.
  intros n g cells i j vi Hlen Hn Hi Hci Hj Ho.
  unfold run_outs, seq_use2, outs_use2. step. opstep.
  unfold op_sem at 1. cbn [sem_borrow]. rewrite (with_cell_in n cells i Hlen Hn) by assumption.
  rewrite Hci. step. opstep.
  unfold op_sem at 1. cbn [sem_borrow].
  rewrite (with_cell_out n _ j (eq_trans (upd_length _ _ _ _) Hlen) Hn) by assumption.
  reflexivity.
Qed.

(** copy() *)
Lemma copy_full_l : forall n vs, length vs = n ->
  run_outs (seq_copy n) outs_copy [VArr (map Some vs)] = Ok [VArr (map Some vs); VArr (map Some vs)].
Proof.
  intros n vs Hlen. unfold run_outs, seq_copy, outs_copy. step.
  unfold op_sem at 1. cbn [sem_clone]. unfold len_ok. rewrite map_length, Hlen, Nat.eqb_refl.
  rewrite all_some_map. step. reflexivity.
Qed.

Lemma copy_lent_l : forall n cells k, length cells = n -> nth_error cells k = Some None ->
  run_outs (seq_copy n) outs_copy [VArr cells] = Panic msg_some_borrowed.
Proof.
  intros n cells k Hlen Hc. unfold run_outs, seq_copy, outs_copy. step.
  unfold op_sem at 1. cbn [sem_clone]. subst n. rewrite len_ok_refl.
  rewrite (all_some_none _ _ _ Hc). reflexivity.
Qed.

(* ------------------------------------------- specification-side vocabulary (list semantics) *)

(** [b] is [a] with exactly cell [k] replaced by [x]: same length, cell k is x, every other
    cell is what it was. *)
Definition only_cell_changed (k : nat) (x : option val) (a b : list (option val)) : Prop :=
  length b = length a /\ nth_error b k = Some x /\ forall j, j <> k -> nth_error b j = nth_error a j.

Lemma upd_only_cell_changed : forall l k x, (k < length l)%nat -> only_cell_changed k x l (upd l k x).
Proof.
  intros l k x H. split; [apply upd_length | split; [apply upd_same; assumption | intros; apply upd_other; assumption]].
Qed.

Lemma write_spec_l : forall n cells i v old,
  length cells = n -> Z.of_nat n <= two63 -> 0 <= i < Z.of_nat n ->
  nth_error cells (Z.to_nat i) = Some (Some old) ->
  exists cells', run_outs (seq_set_classical n) outs_set_classical [VArr cells; VInt i; v] = Ok [VArr cells']
                 /\ only_cell_changed (Z.to_nat i) (Some v) cells cells'.
Proof.
  intros. eexists. split. eapply write_in_range_l; eassumption.
  apply upd_only_cell_changed. eapply nth_error_lt; eassumption.
Qed.

Lemma borrow_spec_l : forall n cells i v,
  length cells = n -> Z.of_nat n <= two63 -> 0 <= i < Z.of_nat n ->
  nth_error cells (Z.to_nat i) = Some (Some v) ->
  exists cells', run_outs (seq_get_linear n) outs_get_linear [VArr cells; VInt i] = Ok [v; VArr cells']
                 /\ only_cell_changed (Z.to_nat i) None cells cells'.
Proof.
  intros. eexists. split. eapply borrow_in_range_l; eassumption.
  apply upd_only_cell_changed. eapply nth_error_lt; eassumption.
Qed.

Lemma return_spec_l : forall n cells i v,
  length cells = n -> Z.of_nat n <= two63 -> 0 <= i < Z.of_nat n ->
  nth_error cells (Z.to_nat i) = Some None ->
  exists cells', run_outs (seq_set_linear n) outs_set_linear [VArr cells; VInt i; v] = Ok [VArr cells']
                 /\ only_cell_changed (Z.to_nat i) (Some v) cells cells'.
Proof.
  intros. eexists. split. eapply return_in_range_l; eassumption.
  apply upd_only_cell_changed. eapply nth_error_lt; eassumption.
Qed.

(* ------------------------------------------------------------ unpacking (induction) *)

Lemma run_app : forall p q fr, run (p ++ q) fr = obind (run p fr) (run q).
Proof.
  induction p as [|i p IH]; intros q fr; simpl; [reflexivity|].
  destruct (exec_instr i fr); simpl; auto.
Qed.

Lemma exec_op : forall op ins fr args outs,
  lookups fr ins = Ok args -> op_sem op args = Ok outs -> exec_instr (IOp op ins) fr = Ok (fr ++ outs).
Proof. intros op ins fr args outs H1 H2. cbn [exec_instr]. rewrite H1. cbn [obind]. rewrite H2. reflexivity. Qed.

Lemma exec_unwrap2 : forall fr s msg a b,
  nth_error fr s = Some (VSum 1 [a; b]) -> exec_instr (unwrap s msg 0 2) fr = Ok (fr ++ [a; b]).
Proof. intros fr s msg a b H. unfold unwrap. cbn [exec_instr]. rewrite H. reflexivity. Qed.

Lemma nth_error_snoc : forall A (l : list A) x, nth_error (l ++ [x]) (length l) = Some x.
Proof. intros. rewrite nth_error_app2 by lia. rewrite Nat.sub_diag. reflexivity. Qed.

Definition triple (s : val * val) : list val := [vsome [fst s; snd s]; fst s; snd s].

(** [chain d len A steps]: popping from direction [d] starting with array [A] of static length
    [len] yields the elements / remaining arrays listed in [steps] *)
Fixpoint chain (d : bool) (len : nat) (A : val) (steps : list (val * val)) : Prop :=
  match steps with
  | [] => True
  | s :: rest =>
      op_sem (if d then OPopLeft len else OPopRight len) [A] = Ok [vsome [fst s; snd s]]
      /\ chain d (Nat.pred len) (snd s) rest
  end.

Lemma pops_run : forall steps d len base fr A,
  length fr = base -> chain d len A steps ->
  run (seq_pops d len (length steps) base) (fr ++ [A]) = Ok ((fr ++ [A]) ++ flat_map triple steps).
Proof.
  induction steps as [|[e A'] steps IH]; intros d len base fr A Hlen Hch.
  - simpl. rewrite app_nil_r. reflexivity.
  - destruct Hch as [Hop Hch]. simpl in Hop, Hch.
    cbn [length seq_pops run].
    rewrite (exec_op _ _ _ [A] [vsome [e; A']]).
    + cbn [obind].
      rewrite (exec_unwrap2 _ _ _ e A').
      * cbn [obind].
        replace (((fr ++ [A]) ++ [vsome [e; A']]) ++ [e; A']) with ((fr ++ [A; vsome [e; A']; e]) ++ [A'])
          by (rewrite <- !app_assoc; reflexivity).
        rewrite (IH d (Nat.pred len) (3 + base)%nat).
        -- f_equal. cbn [flat_map triple fst snd]. rewrite <- !app_assoc. reflexivity.
        -- rewrite app_length. simpl. lia.
        -- assumption.
      * replace (S base) with (length (fr ++ [A])) by (rewrite app_length; simpl; lia).
        apply nth_error_snoc.
    + cbn [lookups]. subst base. rewrite nth_error_snoc. reflexivity.
    + destruct d; assumption.
Qed.

Fixpoint last_arr (A : val) (steps : list (val * val)) : val :=
  match steps with [] => A | s :: rest => last_arr (snd s) rest end.

Lemma frame_split : forall steps A, exists fr,
  [A] ++ flat_map triple steps = fr ++ [last_arr A steps] /\ length fr = (3 * length steps)%nat.
Proof.
  induction steps as [|[e A'] steps IH]; intros A.
  - exists []. split; reflexivity.
  - destruct (IH A') as [fr [E L]]. exists ([A; vsome [e; A']; e] ++ fr). split.
    + cbn [flat_map triple fst snd last_arr]. simpl in E. simpl. rewrite E. reflexivity.
    + rewrite app_length, L. simpl. lia.
Qed.

Lemma nth_triples : forall steps j A,
  nth_error (A :: flat_map triple steps) (3 * j + 2) = option_map fst (nth_error steps j).
Proof.
  induction steps as [|[e A'] steps IH]; intros j A.
  - destruct j; simpl; [reflexivity|]. replace (j + S (j + S (j + 0)) + 2)%nat with (S (S (S (3 * j + 1)))) by lia.
    simpl. destruct (3 * j + 1)%nat; reflexivity.
  - destruct j as [|j].
    + reflexivity.
    + replace (3 * S j + 2)%nat with (S (S (S (3 * j + 2)))) by lia.
      cbn [flat_map triple fst snd app nth_error]. apply IH.
Qed.

Lemma nth_last_arr : forall steps A,
  nth_error (A :: flat_map triple steps) (3 * length steps) = Some (last_arr A steps).
Proof.
  induction steps as [|[e A'] steps IH]; intros A.
  - reflexivity.
  - replace (3 * length ((e, A') :: steps))%nat with (S (S (S (3 * length steps)))) by (simpl; lia).
    cbn [flat_map triple fst snd app nth_error last_arr]. apply IH.
Qed.

Lemma lookups_map : forall (fr : list val) (f : nat -> nat) (js : list nat) (vs : list val),
  Forall2 (fun j v => nth_error fr (f j) = Some v) js vs -> lookups fr (map f js) = Ok vs.
Proof.
  intros fr f js vs H. induction H; simpl; [reflexivity|]. rewrite H, IHForall2. reflexivity.
Qed.

Lemma lookups_app : forall fr a b va vb, lookups fr a = Ok va -> lookups fr b = Ok vb -> lookups fr (a ++ b) = Ok (va ++ vb).
Proof.
  intros fr a. induction a as [|x a IH]; intros b va vb Ha Hb; simpl in *.
  - inversion Ha. assumption.
  - destruct (nth_error fr x); [|discriminate]. destruct (lookups fr a) eqn:E; simpl in Ha; try discriminate.
    inversion Ha. rewrite (IH b a0 vb eq_refl Hb). reflexivity.
Qed.

(** concrete chains *)
Fixpoint steps_left (pop rest : list val) : list (val * val) :=
  match pop with [] => [] | e :: p => (e, VArr (map Some (p ++ rest))) :: steps_left p rest end.
(** [pop] lists the popped elements in the order they are popped (rightmost first) *)
Fixpoint steps_right (keep pop : list val) : list (val * val) :=
  match pop with [] => [] | e :: p => (e, VArr (map Some (keep ++ rev p))) :: steps_right keep p end.

Lemma chain_left : forall pop rest,
  chain true (length (pop ++ rest)) (VArr (map Some (pop ++ rest))) (steps_left pop rest).
Proof.
  induction pop as [|e p IH]; intros rest; simpl; [exact I|]. split.
  - unfold op_sem, sem_pop, len_ok. cbn [length map]. rewrite map_length. rewrite Nat.eqb_refl. reflexivity.
  - apply IH.
Qed.

Lemma chain_right : forall pop keep,
  chain false (length (keep ++ rev pop)) (VArr (map Some (keep ++ rev pop))) (steps_right keep pop).
Proof.
  induction pop as [|e p IH]; intros keep; simpl; [exact I|]. split.
  - unfold op_sem, sem_pop, len_ok. rewrite map_length, Nat.eqb_refl.
    rewrite app_assoc, map_app, rev_app_distr. simpl. rewrite rev_involutive. reflexivity.
  - replace (Nat.pred (length (keep ++ rev p ++ [e]))) with (length (keep ++ rev p))
      by (rewrite !app_length; simpl; lia).
    apply IH.
Qed.

Lemma steps_left_length : forall pop rest, length (steps_left pop rest) = length pop.
Proof. induction pop; simpl; auto. Qed.
Lemma steps_right_length : forall pop keep, length (steps_right keep pop) = length pop.
Proof. induction pop; simpl; auto. Qed.
Lemma steps_left_fst : forall pop rest, map fst (steps_left pop rest) = pop.
Proof. induction pop; simpl; intros; f_equal; auto. Qed.
Lemma steps_right_fst : forall pop keep, map fst (steps_right keep pop) = pop.
Proof. induction pop; simpl; intros; f_equal; auto. Qed.
Lemma last_arr_left : forall pop rest A, pop <> [] \/ A = VArr (map Some rest) ->
  last_arr A (steps_left pop rest) = VArr (map Some rest).
Proof.
  induction pop as [|e p IH]; intros rest A H; simpl.
  - destruct H; congruence.
  - apply IH. destruct p; [right; reflexivity | left; discriminate].
Qed.
Lemma last_arr_right : forall pop keep A, pop <> [] \/ A = VArr (map Some keep) ->
  last_arr A (steps_right keep pop) = VArr (map Some keep).
Proof.
  induction pop as [|e p IH]; intros keep A H; simpl.
  - destruct H; congruence.
  - apply IH. destruct p; [right; simpl; rewrite app_nil_r; reflexivity | left; discriminate].
Qed.

Lemma last_arr_app : forall s1 s2 A, last_arr A (s1 ++ s2) = last_arr (last_arr A s1) s2.
Proof. induction s1 as [|s s1 IH]; intros; simpl; auto. Qed.

Lemma Forall2_seq_nth : forall (P : nat -> val -> Prop) vs s,
  (forall j v, nth_error vs j = Some v -> P (s + j)%nat v) -> Forall2 P (seq s (length vs)) vs.
Proof.
  intros P vs. induction vs as [|x vs IH]; intros s H; simpl; constructor.
  - specialize (H O x eq_refl). rewrite Nat.add_0_r in H. exact H.
  - apply IH. intros j v Hj. replace (S s + j)%nat with (s + S j)%nat by lia. apply H. exact Hj.
Qed.

Lemma Forall2_rev' : forall A B (P : A -> B -> Prop) a b, Forall2 P a b -> Forall2 P (rev a) (rev b).
Proof.
  intros A B P a b H. induction H; simpl; [constructor|].
  apply Forall2_app; [assumption | constructor; [assumption | constructor]].
Qed.

Lemma nth_triples_fst : forall steps j A v,
  nth_error (map fst steps) j = Some v -> nth_error (A :: flat_map triple steps) (3 * j + 2) = Some v.
Proof. intros. rewrite nth_triples. rewrite <- nth_error_map. assumption. Qed.

Lemma unpack_in_order_l : forall left mid right star,
  (star = false -> mid = []) ->
  run_outs (seq_unpack (length (left ++ mid ++ right)) (length left) (length right) star)
    (outs_unpack_left (length left)
     ++ (if star then [out_unpack_star (length left) (length right)] else [])
     ++ outs_unpack_right (length left) (length right))
    [VArr (map Some (left ++ mid ++ right))]
  = Ok (left ++ (if star then [VArr (map Some mid)] else []) ++ right).
Proof.
  intros left mid right star Hstar.
  set (A0 := VArr (map Some (left ++ mid ++ right))).
  set (S1 := steps_left left (mid ++ right)).
  set (S2 := steps_right mid (rev right)).
  set (F := A0 :: flat_map triple (S1 ++ S2)).
  assert (HA1 : last_arr A0 S1 = VArr (map Some (mid ++ right))).
  { apply last_arr_left. destruct left; [right; reflexivity | left; discriminate]. }
  assert (HA2 : last_arr A0 (S1 ++ S2) = VArr (map Some mid)).
  { rewrite last_arr_app, HA1. apply last_arr_right.
    destruct right as [|x right]; [right; rewrite app_nil_r; reflexivity | left].
    simpl. destruct (rev right); discriminate. }
  (* the run *)
  assert (Hrun : run (seq_unpack (length (left ++ mid ++ right)) (length left) (length right) star) [A0] = Ok F).
  { unfold seq_unpack. rewrite run_app.
    (* phase 1 *)
    pose proof (pops_run S1 true (length (left ++ mid ++ right)) 0 [] A0 eq_refl (chain_left left (mid ++ right))) as P1.
    unfold S1 in P1 at 1. rewrite steps_left_length in P1. fold S1 in P1. simpl app in P1.
    rewrite P1. cbn [obind].
    rewrite run_app.
    (* phase 2 *)
    destruct (frame_split S1 A0) as [fr1 [E1 L1]]. simpl app in E1. rewrite E1, HA1.
    assert (P2 : run (seq_pops false (length (left ++ mid ++ right) - length left) (length right) (3 * length left))
                   (fr1 ++ [VArr (map Some (mid ++ right))])
                 = Ok ((fr1 ++ [VArr (map Some (mid ++ right))]) ++ flat_map triple S2)).
    { replace (length right) with (length S2)
        by (unfold S2; rewrite steps_right_length, rev_length; reflexivity).
      replace (length (left ++ mid ++ right) - length left)%nat with (length (mid ++ rev (rev right)))
        by (rewrite rev_involutive, !app_length; lia).
      rewrite <- (rev_involutive right) at 2 3.
      apply pops_run.
      - unfold S1 in L1. rewrite steps_left_length in L1. exact L1.
      - apply chain_right. }
    rewrite P2.
    - cbn [obind]. rewrite <- HA1, <- E1.
      assert (EF : (A0 :: flat_map triple S1) ++ flat_map triple S2 = F).
      { unfold F. rewrite flat_map_app. reflexivity. }
      rewrite EF.
      destruct star.
      + reflexivity.
      + cbn [run]. rewrite (exec_op _ _ _ [VArr []] []).
        * cbn [obind]. rewrite app_nil_r. reflexivity.
        * cbn [lookups]. replace (3 * (length left + length right))%nat with (3 * length (S1 ++ S2))%nat.
          -- unfold F. rewrite nth_last_arr, HA2, (Hstar eq_refl). reflexivity.
          -- unfold S1, S2. rewrite app_length, steps_left_length, steps_right_length, rev_length. reflexivity.
        * reflexivity.
  }
  unfold run_outs. fold A0. rewrite Hrun. cbn [obind].
  assert (Efst : map fst (S1 ++ S2) = left ++ rev right).
  { unfold S1, S2. rewrite map_app, steps_left_fst, steps_right_fst. reflexivity. }
  apply lookups_app; [|apply lookups_app].
  - unfold outs_unpack_left. apply lookups_map. apply Forall2_seq_nth.
    intros j v Hj. unfold F. apply nth_triples_fst. rewrite Efst. simpl.
    rewrite nth_error_app1 by (apply nth_error_Some; congruence). exact Hj.
  - destruct star; [|reflexivity]. unfold out_unpack_star. cbn [lookups].
    replace (3 * (length left + length right))%nat with (3 * length (S1 ++ S2))%nat.
    + unfold F. rewrite nth_last_arr, HA2. reflexivity.
    + unfold S1, S2. rewrite app_length, steps_left_length, steps_right_length, rev_length. reflexivity.
  - unfold outs_unpack_right. rewrite <- map_rev. apply lookups_map.
    rewrite <- (rev_involutive right) at 2. apply Forall2_rev'.
    rewrite <- (rev_length right). apply Forall2_seq_nth.
    intros j v Hj. simpl. unfold F. apply nth_triples_fst. rewrite Efst.
    rewrite nth_error_app2 by lia. replace (length left + j - length left)%nat with j by lia. exact Hj.
Qed.
