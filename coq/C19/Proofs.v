(** C19 — lemmas about the abstract borrow-array machine of Array.v. *)
From Coq Require Import String ZArith List Bool Lia ZifyBool.
From V.C19 Require Import Array.
Import ListNotations.
Open Scope Z_scope.

(* ---------------------------------------------------------------- arithmetic facts *)

Lemma two64_eq : two64 = 2 * two63. Proof. reflexivity. Qed.
Lemma two63_pos : 0 < two63. Proof. reflexivity. Qed.

Lemma mod64_nonneg : forall i, 0 <= i < two63 -> i mod two64 = i.
Proof. intros i H. apply Z.mod_small. pose proof two64_eq. lia. Qed.

Lemma mod64_neg : forall i, - two63 <= i < 0 -> i mod two64 = i + two64.
Proof.
  intros i H. pose proof two64_eq as E. pose proof two63_pos.
  replace i with ((i + two64) + (-1) * two64) at 1 by lia.
  rewrite Z_mod_plus_full. apply Z.mod_small. lia.
Qed.

Lemma uidx_in : forall n i, Z.of_nat n <= two63 -> 0 <= i < Z.of_nat n ->
  uidx n (i mod two64) = Some (Z.to_nat i).
Proof.
  intros n i Hn Hi. rewrite mod64_nonneg by lia. unfold uidx.
  destruct ((0 <=? i) && (i <? Z.of_nat n)) eqn:E; [reflexivity | lia].
Qed.

Lemma uidx_out : forall n i, Z.of_nat n <= two63 -> is_int64 i -> (i < 0 \/ Z.of_nat n <= i) ->
  uidx n (i mod two64) = None.
Proof.
  intros n i Hn [Hlo Hhi] Hout. pose proof two64_eq. pose proof two63_pos. unfold uidx.
  destruct (Z_lt_dec i 0) as [Hneg | Hpos].
  - rewrite mod64_neg by lia.
    destruct ((0 <=? i + two64) && (i + two64 <? Z.of_nat n)) eqn:E; [lia | reflexivity].
  - rewrite mod64_nonneg by lia.
    destruct ((0 <=? i) && (i <? Z.of_nat n)) eqn:E; [lia | reflexivity].
Qed.

Lemma wrap_s_small : forall z, is_int64 z -> wrap_s z = z.
Proof.
  intros z [Hlo Hhi]. unfold wrap_s. pose proof two64_eq. pose proof two63_pos.
  rewrite Z.mod_small by lia. lia.
Qed.

(* ---------------------------------------------------------------------- list facts *)

Lemma upd_length : forall A (l : list A) k x, length (upd l k x) = length l.
Proof. induction l; destruct k; simpl; intros; auto. Qed.

Lemma upd_same : forall A (l : list A) k x, (k < length l)%nat -> nth_error (upd l k x) k = Some x.
Proof. induction l; destruct k; simpl; intros; try lia; auto. apply IHl. lia. Qed.

Lemma upd_other : forall A (l : list A) k j x, j <> k -> nth_error (upd l k x) j = nth_error l j.
Proof.
  induction l; destruct k; destruct j; simpl; intros; try congruence; auto.
Qed.

Lemma upd_id : forall A (l : list A) k x, nth_error l k = Some x -> upd l k x = l.
Proof.
  induction l; destruct k; simpl; intros; try congruence.
  f_equal. auto.
Qed.

Lemma upd_upd : forall A (l : list A) k x y, upd (upd l k x) k y = upd l k y.
Proof. induction l; destruct k; simpl; intros; auto. f_equal. auto. Qed.

Lemma all_some_map : forall A (vs : list A), all_some (map Some vs) = Some vs.
Proof. induction vs; simpl; auto. rewrite IHvs. reflexivity. Qed.

Lemma all_some_inv : forall A (l : list (option A)) vs, all_some l = Some vs -> l = map Some vs.
Proof.
  induction l as [|[x|] l IH]; simpl; intros vs H.
  - inversion H. reflexivity.
  - destruct (all_some l) eqn:E; inversion H. simpl. f_equal. auto.
  - discriminate.
Qed.

Lemma all_some_none : forall A (l : list (option A)) k, nth_error l k = Some None -> all_some l = None.
Proof.
  induction l as [|[x|] l IH]; destruct k; simpl; intros H; try discriminate; auto.
  rewrite (IH _ H). reflexivity.
Qed.

Lemma len_ok_refl : forall cells, len_ok (length cells) cells = true.
Proof. intros. unfold len_ok. apply Nat.eqb_refl. Qed.

(* ------------------------------------------------- one rewriting lemma per op clause *)

Section Cell.
  Variable n : nat.
  Variable cells : list (option val).
  Variable i : Z.
  Hypothesis Hlen : length cells = n.
  Hypothesis Hn : Z.of_nat n <= two63.

  Lemma with_cell_in : forall oob full empty, 0 <= i < Z.of_nat n ->
    with_cell n cells (i mod two64) oob full empty =
    match nth_error cells (Z.to_nat i) with
    | Some (Some v) => full (Z.to_nat i) v
    | Some None => empty (Z.to_nat i)
    | None => Stuck "cell"%string
    end.
  Proof.
    intros. unfold with_cell. subst n. rewrite len_ok_refl. rewrite uidx_in by assumption. reflexivity.
  Qed.

  Lemma with_cell_out : forall oob full empty, is_int64 i -> (i < 0 \/ Z.of_nat n <= i) ->
    with_cell n cells (i mod two64) oob full empty = oob.
  Proof.
    intros. unfold with_cell. subst n. rewrite len_ok_refl. rewrite uidx_out by assumption. reflexivity.
  Qed.
End Cell.

Arguments op_sem : simpl never.

Ltac step := cbn [run run_outs exec_instr lookups nth_error obind app fst snd seq unwrap].

(* ------------------------------------------------------------ classical read / write *)

Lemma read_in_range_l : forall n cells i v,
  length cells = n -> Z.of_nat n <= two63 -> 0 <= i < Z.of_nat n ->
  nth_error cells (Z.to_nat i) = Some (Some v) ->
  run_outs (seq_get_classical n) outs_get_classical [VArr cells; VInt i] = Ok [v; VArr cells].
Proof.
  intros n cells i v Hlen Hn Hi Hc.
  unfold run_outs, seq_get_classical, outs_get_classical. step.
  unfold op_sem at 1. cbn [sem_itousize]. step.
  unfold op_sem at 1. cbn [sem_get]. rewrite (with_cell_in n cells i Hlen Hn) by assumption.
  rewrite Hc. step. reflexivity.
Qed.

Ltac opstep := unfold op_sem at 1;
  cbn [sem_itousize sem_get sem_set sem_borrow sem_return sem_clone sem_panic sem_iadd
       sem_discard_all_borrowed sem_discard_empty sem_unpack_tuple]; step.

Lemma read_out_of_range_l : forall n cells i,
  length cells = n -> Z.of_nat n <= two63 -> is_int64 i -> (i < 0 \/ Z.of_nat n <= i) ->
  run_outs (seq_get_classical n) outs_get_classical [VArr cells; VInt i] = Panic msg_index_oob.
Proof.
  intros n cells i Hlen Hn Hi Ho.
  unfold run_outs, seq_get_classical, outs_get_classical. step. opstep.
  unfold op_sem at 1. cbn [sem_get]. rewrite (with_cell_out n cells i Hlen Hn) by assumption.
  step. opstep. opstep. reflexivity.
Qed.

Lemma read_lent_l : forall n cells i,
  length cells = n -> Z.of_nat n <= two63 -> 0 <= i < Z.of_nat n ->
  nth_error cells (Z.to_nat i) = Some None ->
  run_outs (seq_get_classical n) outs_get_classical [VArr cells; VInt i] = Panic msg_already_borrowed.
Proof.
  intros n cells i Hlen Hn Hi Hc.
  unfold run_outs, seq_get_classical, outs_get_classical. step. opstep.
  unfold op_sem at 1. cbn [sem_get]. rewrite (with_cell_in n cells i Hlen Hn) by assumption.
  rewrite Hc. reflexivity.
Qed.

Lemma write_in_range_l : forall n cells i v old,
  length cells = n -> Z.of_nat n <= two63 -> 0 <= i < Z.of_nat n ->
  nth_error cells (Z.to_nat i) = Some (Some old) ->
  run_outs (seq_set_classical n) outs_set_classical [VArr cells; VInt i; v]
  = Ok [VArr (upd cells (Z.to_nat i) (Some v))].
Proof.
  intros n cells i v old Hlen Hn Hi Hc.
  unfold run_outs, seq_set_classical, outs_set_classical. step. opstep.
  unfold op_sem at 1. cbn [sem_set]. rewrite (with_cell_in n cells i Hlen Hn) by assumption.
  rewrite Hc. step. reflexivity.
Qed.

Lemma write_out_of_range_l : forall n cells i v,
  length cells = n -> Z.of_nat n <= two63 -> is_int64 i -> (i < 0 \/ Z.of_nat n <= i) ->
  run_outs (seq_set_classical n) outs_set_classical [VArr cells; VInt i; v] = Panic msg_index_oob.
Proof.
  intros n cells i v Hlen Hn Hi Ho.
  unfold run_outs, seq_set_classical, outs_set_classical. step. opstep.
  unfold op_sem at 1. cbn [sem_set]. rewrite (with_cell_out n cells i Hlen Hn) by assumption.
  step. opstep. opstep. reflexivity.
Qed.

(* ------------------------------------------------ linear elements: borrow and return *)

Lemma nth_error_ext' : forall A (l1 l2 : list A), (forall k, nth_error l1 k = nth_error l2 k) -> l1 = l2.
Proof.
  induction l1 as [|a l1 IH]; destruct l2 as [|b l2]; intros H; auto.
  - specialize (H O). discriminate.
  - specialize (H O). discriminate.
  - pose proof (H O) as H0. simpl in H0. inversion H0. f_equal. apply IH. intros k. apply (H (S k)).
Qed.

Lemma nth_error_lt : forall A (l : list A) k x, nth_error l k = Some x -> (k < length l)%nat.
Proof. intros. apply nth_error_Some. congruence. Qed.

Lemma borrow_in_range_l : forall n cells i v,
  length cells = n -> Z.of_nat n <= two63 -> 0 <= i < Z.of_nat n ->
  nth_error cells (Z.to_nat i) = Some (Some v) ->
  run_outs (seq_get_linear n) outs_get_linear [VArr cells; VInt i]
  = Ok [v; VArr (upd cells (Z.to_nat i) None)].
Proof.
  intros n cells i v Hlen Hn Hi Hc.
  unfold run_outs, seq_get_linear, outs_get_linear. step. opstep.
  unfold op_sem at 1. cbn [sem_borrow]. rewrite (with_cell_in n cells i Hlen Hn) by assumption.
  rewrite Hc. step. reflexivity.
Qed.

Lemma borrow_out_of_range_l : forall n cells i,
  length cells = n -> Z.of_nat n <= two63 -> is_int64 i -> (i < 0 \/ Z.of_nat n <= i) ->
  run_outs (seq_get_linear n) outs_get_linear [VArr cells; VInt i] = Panic msg_op_oob.
Proof.
  intros n cells i Hlen Hn Hi Ho.
  unfold run_outs, seq_get_linear, outs_get_linear. step. opstep.
  unfold op_sem at 1. cbn [sem_borrow]. rewrite (with_cell_out n cells i Hlen Hn) by assumption.
  reflexivity.
Qed.

Lemma borrow_lent_l : forall n cells i,
  length cells = n -> Z.of_nat n <= two63 -> 0 <= i < Z.of_nat n ->
  nth_error cells (Z.to_nat i) = Some None ->
  run_outs (seq_get_linear n) outs_get_linear [VArr cells; VInt i] = Panic msg_already_borrowed.
Proof.
  intros n cells i Hlen Hn Hi Hc.
  unfold run_outs, seq_get_linear, outs_get_linear. step. opstep.
  unfold op_sem at 1. cbn [sem_borrow]. rewrite (with_cell_in n cells i Hlen Hn) by assumption.
  rewrite Hc. reflexivity.
Qed.

Lemma return_in_range_l : forall n cells i v,
  length cells = n -> Z.of_nat n <= two63 -> 0 <= i < Z.of_nat n ->
  nth_error cells (Z.to_nat i) = Some None ->
  run_outs (seq_set_linear n) outs_set_linear [VArr cells; VInt i; v]
  = Ok [VArr (upd cells (Z.to_nat i) (Some v))].
Proof.
  intros n cells i v Hlen Hn Hi Hc.
  unfold run_outs, seq_set_linear, outs_set_linear. step. opstep.
  unfold op_sem at 1. cbn [sem_return]. rewrite (with_cell_in n cells i Hlen Hn) by assumption.
  rewrite Hc. step. reflexivity.
Qed.

Lemma return_out_of_range_l : forall n cells i v,
  length cells = n -> Z.of_nat n <= two63 -> is_int64 i -> (i < 0 \/ Z.of_nat n <= i) ->
  run_outs (seq_set_linear n) outs_set_linear [VArr cells; VInt i; v] = Panic msg_op_oob.
Proof.
  intros n cells i v Hlen Hn Hi Ho.
  unfold run_outs, seq_set_linear, outs_set_linear. step. opstep.
  unfold op_sem at 1. cbn [sem_return]. rewrite (with_cell_out n cells i Hlen Hn) by assumption.
  reflexivity.
Qed.

Lemma return_full_l : forall n cells i v w,
  length cells = n -> Z.of_nat n <= two63 -> 0 <= i < Z.of_nat n ->
  nth_error cells (Z.to_nat i) = Some (Some w) ->
  run_outs (seq_set_linear n) outs_set_linear [VArr cells; VInt i; v] = Panic msg_not_borrowed.
Proof.
  intros n cells i v w Hlen Hn Hi Hc.
  unfold run_outs, seq_set_linear, outs_set_linear. step. opstep.
  unfold op_sem at 1. cbn [sem_return]. rewrite (with_cell_in n cells i Hlen Hn) by assumption.
  rewrite Hc. reflexivity.
Qed.

(** g(qs[i]) *)
Lemma use1_in_range_l : forall n g cells i v,
  length cells = n -> Z.of_nat n <= two63 -> 0 <= i < Z.of_nat n ->
  nth_error cells (Z.to_nat i) = Some (Some v) ->
  run_outs (seq_use1 n g) outs_use1 [VArr cells; VInt i] = Ok [VArr cells].
Proof.
  intros n g cells i v Hlen Hn Hi Hc.
  pose proof (nth_error_lt _ _ _ _ Hc) as Hk.
  unfold run_outs, seq_use1, outs_use1. step. opstep.
  unfold op_sem at 1. cbn [sem_borrow]. rewrite (with_cell_in n cells i Hlen Hn) by assumption.
  rewrite Hc. step. unfold op_sem at 1. step. opstep.
  unfold op_sem at 1. cbn [sem_return].
  rewrite (with_cell_in n _ i (eq_trans (upd_length _ _ _ _) Hlen) Hn) by assumption.
  rewrite upd_same by assumption. step. rewrite upd_upd. rewrite upd_id by assumption. reflexivity.
Qed.

Lemma use1_out_of_range_l : forall n g cells i,
  length cells = n -> Z.of_nat n <= two63 -> is_int64 i -> (i < 0 \/ Z.of_nat n <= i) ->
  run_outs (seq_use1 n g) outs_use1 [VArr cells; VInt i] = Panic msg_op_oob.
Proof.
  intros n g cells i Hlen Hn Hi Ho.
  unfold run_outs, seq_use1, outs_use1. step. opstep.
  unfold op_sem at 1. cbn [sem_borrow]. rewrite (with_cell_out n cells i Hlen Hn) by assumption.
  reflexivity.
Qed.

Lemma use1_lent_l : forall n g cells i,
  length cells = n -> Z.of_nat n <= two63 -> 0 <= i < Z.of_nat n ->
  nth_error cells (Z.to_nat i) = Some None ->
  run_outs (seq_use1 n g) outs_use1 [VArr cells; VInt i] = Panic msg_already_borrowed.
Proof.
  intros n g cells i Hlen Hn Hi Hc.
  unfold run_outs, seq_use1, outs_use1. step. opstep.
  unfold op_sem at 1. cbn [sem_borrow]. rewrite (with_cell_in n cells i Hlen Hn) by assumption.
  rewrite Hc. reflexivity.
Qed.

(** g(qs[i], qs[j]): two elements lent at the same time *)
Lemma use2_same_index_l : forall n g cells i v,
  length cells = n -> Z.of_nat n <= two63 -> 0 <= i < Z.of_nat n ->
  nth_error cells (Z.to_nat i) = Some (Some v) ->
  run_outs (seq_use2 n g) outs_use2 [VArr cells; VInt i; VInt i] = Panic msg_already_borrowed.
Proof.
  intros n g cells i v Hlen Hn Hi Hc.
  pose proof (nth_error_lt _ _ _ _ Hc) as Hk.
  unfold run_outs, seq_use2, outs_use2. step. opstep.
  unfold op_sem at 1. cbn [sem_borrow]. rewrite (with_cell_in n cells i Hlen Hn) by assumption.
  rewrite Hc. step. opstep.
  unfold op_sem at 1. cbn [sem_borrow].
  rewrite (with_cell_in n _ i (eq_trans (upd_length _ _ _ _) Hlen) Hn) by assumption.
  rewrite upd_same by assumption. reflexivity.
Qed.

Lemma use2_distinct_l : forall n g cells i j vi vj,
  length cells = n -> Z.of_nat n <= two63 -> 0 <= i < Z.of_nat n -> 0 <= j < Z.of_nat n -> i <> j ->
  nth_error cells (Z.to_nat i) = Some (Some vi) ->
  nth_error cells (Z.to_nat j) = Some (Some vj) ->
  run_outs (seq_use2 n g) outs_use2 [VArr cells; VInt i; VInt j] = Ok [VArr cells].
Proof.
  intros n g cells i j vi vj Hlen Hn Hi Hj Hne Hci Hcj.
  pose proof (nth_error_lt _ _ _ _ Hci) as Hki. pose proof (nth_error_lt _ _ _ _ Hcj) as Hkj.
  assert (Hnk : Z.to_nat j <> Z.to_nat i) by lia.
  assert (Hnk' : Z.to_nat i <> Z.to_nat j) by lia.
  unfold run_outs, seq_use2, outs_use2. step. opstep.
  unfold op_sem at 1. cbn [sem_borrow]. rewrite (with_cell_in n cells i Hlen Hn) by assumption.
  rewrite Hci. step. opstep.
  unfold op_sem at 1. cbn [sem_borrow].
  rewrite (with_cell_in n _ j (eq_trans (upd_length _ _ _ _) Hlen) Hn) by assumption.
  rewrite upd_other by assumption. rewrite Hcj. step.
  unfold op_sem at 1. step. opstep.
  unfold op_sem at 1. cbn [sem_return].
  rewrite (with_cell_in n _ i (eq_trans (upd_length _ _ _ _) (eq_trans (upd_length _ _ _ _) Hlen)) Hn) by assumption.
  rewrite upd_other by assumption. rewrite upd_same by assumption. step. opstep.
  unfold op_sem at 1. cbn [sem_return].
  rewrite (with_cell_in n _ j (eq_trans (upd_length _ _ _ _) (eq_trans (upd_length _ _ _ _) (eq_trans (upd_length _ _ _ _) Hlen))) Hn) by assumption.
  rewrite upd_other by assumption. rewrite upd_same by (rewrite upd_length; assumption). step.
  f_equal. f_equal. f_equal. apply nth_error_ext'. intros k.
  destruct (Nat.eq_dec k (Z.to_nat j)) as [-> | Nj].
  - rewrite upd_same by (rewrite !upd_length; assumption). symmetry. assumption.
  - rewrite upd_other by assumption.
    destruct (Nat.eq_dec k (Z.to_nat i)) as [-> | Ni].
    + rewrite upd_same by (rewrite !upd_length; assumption). symmetry. assumption.
    + rewrite !upd_other by assumption. reflexivity.
Qed.

Lemma use2_first_out_l : forall n g cells i j,
  length cells = n -> Z.of_nat n <= two63 -> is_int64 i -> (i < 0 \/ Z.of_nat n <= i) ->
  run_outs (seq_use2 n g) outs_use2 [VArr cells; VInt i; VInt j] = Panic msg_op_oob.
Proof.
  intros n g cells i j Hlen Hn Hi Ho.
  unfold run_outs, seq_use2, outs_use2. step. opstep.
  unfold op_sem at 1. cbn [sem_borrow]. rewrite (with_cell_out n cells i Hlen Hn) by assumption.
  reflexivity.
Qed.

Lemma use2_second_out_l : forall n g cells i j vi,
  length cells = n -> Z.of_nat n <= two63 -> 0 <= i < Z.of_nat n ->
  nth_error cells (Z.to_nat i) = Some (Some vi) ->
  is_int64 j -> (j < 0 \/ Z.of_nat n <= j) ->
  run_outs (seq_use2 n g) outs_use2 [VArr cells; VInt i; VInt j] = Panic msg_op_oob.
Proof.
  intros n g cells i j vi Hlen Hn Hi Hci Hj Ho.
  unfold run_outs, seq_use2, outs_use2. step. opstep.
  unfold op_sem at 1. cbn [sem_borrow]. rewrite (with_cell_in n cells i Hlen Hn) by assumption.
  rewrite Hci. step. opstep.
  unfold op_sem at 1. cbn [sem_borrow].
  rewrite (with_cell_out n _ j (eq_trans (upd_length _ _ _ _) Hlen) Hn) by assumption.
  reflexivity.
Qed.

(** copy() *)
Lemma copy_full_l : forall n vs, length vs = n ->
  run_outs (seq_copy n) outs_copy [VArr (map Some vs)] = Ok [VArr (map Some vs); VArr (map Some vs)].
Proof.
  intros n vs Hlen. unfold run_outs, seq_copy, outs_copy. step.
  unfold op_sem at 1. cbn [sem_clone]. unfold len_ok. rewrite map_length, Hlen, Nat.eqb_refl.
  rewrite all_some_map. step. reflexivity.
Qed.

Lemma copy_lent_l : forall n cells k, length cells = n -> nth_error cells k = Some None ->
  run_outs (seq_copy n) outs_copy [VArr cells] = Panic msg_some_borrowed.
Proof.
  intros n cells k Hlen Hc. unfold run_outs, seq_copy, outs_copy. step.
  unfold op_sem at 1. cbn [sem_clone]. subst n. rewrite len_ok_refl.
  rewrite (all_some_none _ _ _ Hc). reflexivity.
Qed.

(* ------------------------------------------- specification-side vocabulary (list semantics) *)

(** [b] is [a] with exactly cell [k] replaced by [x]: same length, cell k is x, every other
    cell is what it was. *)
Definition only_cell_changed (k : nat) (x : option val) (a b : list (option val)) : Prop :=
  length b = length a /\ nth_error b k = Some x /\ forall j, j <> k -> nth_error b j = nth_error a j.

Lemma upd_only_cell_changed : forall l k x, (k < length l)%nat -> only_cell_changed k x l (upd l k x).
Proof.
  intros l k x H. split; [apply upd_length | split; [apply upd_same; assumption | intros; apply upd_other; assumption]].
Qed.

Lemma write_spec_l : forall n cells i v old,
  length cells = n -> Z.of_nat n <= two63 -> 0 <= i < Z.of_nat n ->
  nth_error cells (Z.to_nat i) = Some (Some old) ->
  exists cells', run_outs (seq_set_classical n) outs_set_classical [VArr cells; VInt i; v] = Ok [VArr cells']
                 /\ only_cell_changed (Z.to_nat i) (Some v) cells cells'.
Proof.
  intros. eexists. split. eapply write_in_range_l; eassumption.
  apply upd_only_cell_changed. eapply nth_error_lt; eassumption.
Qed.

Lemma borrow_spec_l : forall n cells i v,
  length cells = n -> Z.of_nat n <= two63 -> 0 <= i < Z.of_nat n ->
  nth_error cells (Z.to_nat i) = Some (Some v) ->
  exists cells', run_outs (seq_get_linear n) outs_get_linear [VArr cells; VInt i] = Ok [v; VArr cells']
                 /\ only_cell_changed (Z.to_nat i) None cells cells'.
Proof.
  intros. eexists. split. eapply borrow_in_range_l; eassumption.
  apply upd_only_cell_changed. eapply nth_error_lt; eassumption.
Qed.

Lemma return_spec_l : forall n cells i v,
  length cells = n -> Z.of_nat n <= two63 -> 0 <= i < Z.of_nat n ->
  nth_error cells (Z.to_nat i) = Some None ->
  exists cells', run_outs (seq_set_linear n) outs_set_linear [VArr cells; VInt i; v] = Ok [VArr cells']
                 /\ only_cell_changed (Z.to_nat i) (Some v) cells cells'.
Proof.
  intros. eexists. split. eapply return_in_range_l; eassumption.
  apply upd_only_cell_changed. eapply nth_error_lt; eassumption.
Qed.
