(** C19 — lemmas about the abstract borrow-array machine of Array.v. *)
From Coq Require Import String ZArith List Bool Lia ZifyBool.
From V.C19 Require Import Array.
Import ListNotations.
Open Scope Z_scope.

(* ---------------------------------------------------------------- arithmetic facts *)

Lemma two64_eq : two64 = 2 * two63. Proof. reflexivity. Qed.
Lemma two63_pos : 0 < two63. Proof. reflexivity. Qed.

Lemma mod64_nonneg : forall i, 0 <= i < two63 -> i mod two64 = i.
Proof. intros i H. apply Z.mod_small. pose proof two64_eq. lia. Qed.

Lemma mod64_neg : forall i, - two63 <= i < 0 -> i mod two64 = i + two64.
Proof.
  intros i H. pose proof two64_eq as E. pose proof two63_pos.
  replace i with ((i + two64) + (-1) * two64) at 1 by lia.
  rewrite Z_mod_plus_full. apply Z.mod_small. lia.
Qed.

Lemma uidx_in : forall n i, Z.of_nat n <= two63 -> 0 <= i < Z.of_nat n ->
  uidx n (i mod two64) = Some (Z.to_nat i).
Proof.
  intros n i Hn Hi. rewrite mod64_nonneg by lia. unfold uidx.
  destruct ((0 <=? i) && (i <? Z.of_nat n)) eqn:E; [reflexivity | lia].
Qed.

Lemma uidx_out : forall n i, Z.of_nat n <= two63 -> is_int64 i -> (i < 0 \/ Z.of_nat n <= i) ->
  uidx n (i mod two64) = None.
Proof.
  intros n i Hn [Hlo Hhi] Hout. pose proof two64_eq. pose proof two63_pos. unfold uidx.
  destruct (Z_lt_dec i 0) as [Hneg | Hpos].
  - rewrite mod64_neg by lia.
    destruct ((0 <=? i + two64) && (i + two64 <? Z.of_nat n)) eqn:E; [lia | reflexivity].
  - rewrite mod64_nonneg by lia.
    destruct ((0 <=? i) && (i <? Z.of_nat n)) eqn:E; [lia | reflexivity].
Qed.

Lemma wrap_s_small : forall z, is_int64 z -> wrap_s z = z.
Proof.
  intros z [Hlo Hhi]. unfold wrap_s. pose proof two64_eq. pose proof two63_pos.
  rewrite Z.mod_small by lia. lia.
Qed.

(* ---------------------------------------------------------------------- list facts *)

Lemma upd_length : forall A (l : list A) k x, length (upd l k x) = length l.
Proof. induction l; destruct k; simpl; intros; auto. Qed.

Lemma upd_same : forall A (l : list A) k x, (k < length l)%nat -> nth_error (upd l k x) k = Some x.
Proof. induction l; destruct k; simpl; intros; try lia; auto. apply IHl. lia. Qed.

Lemma upd_other : forall A (l : list A) k j x, j <> k -> nth_error (upd l k x) j = nth_error l j.
Proof.
  induction l; destruct k; destruct j; simpl; intros; try congruence; auto.
Qed.

Lemma upd_id : forall A (l : list A) k x, nth_error l k = Some x -> upd l k x = l.
Proof.
  induction l; destruct k; simpl; intros; try congruence.
  - inversion H. reflexivity.
  - f_equal. auto.
Qed.

Lemma upd_upd : forall A (l : list A) k x y, upd (upd l k x) k y = upd l k y.
Proof. induction l; destruct k; simpl; intros; auto. f_equal. auto. Qed.

Lemma all_some_map : forall A (vs : list A), all_some (map Some vs) = Some vs.
Proof. induction vs; simpl; auto. rewrite IHvs. reflexivity. Qed.

Lemma all_some_inv : forall A (l : list (option A)) vs, all_some l = Some vs -> l = map Some vs.
Proof.
  induction l as [|[x|] l IH]; simpl; intros vs H.
  - inversion H. reflexivity.
  - destruct (all_some l) eqn:E; inversion H. simpl. f_equal. auto.
  - discriminate.
Qed.

Lemma all_some_none : forall A (l : list (option A)) k, nth_error l k = Some None -> all_some l = None.
Proof.
  induction l as [|[x|] l IH]; destruct k; simpl; intros H; try discriminate; auto.
  rewrite (IH _ H). reflexivity.
Qed.

Lemma len_ok_refl : forall cells, len_ok (length cells) cells = true.
Proof. intros. unfold len_ok. apply Nat.eqb_refl. Qed.

(* ------------------------------------------------- one rewriting lemma per op clause *)

Section Cell.
  Variable n : nat.
  Variable cells : list (option val).
  Variable i : Z.
  Hypothesis Hlen : length cells = n.
  Hypothesis Hn : Z.of_nat n <= two63.

  Lemma with_cell_in : forall oob full empty, 0 <= i < Z.of_nat n ->
    with_cell n cells (i mod two64) oob full empty =
    match nth_error cells (Z.to_nat i) with
    | Some (Some v) => full (Z.to_nat i) v
    | Some None => empty (Z.to_nat i)
    | None => Stuck "cell"%string
    end.
  Proof.
    intros. unfold with_cell. subst n. rewrite len_ok_refl. rewrite uidx_in by assumption. reflexivity.
  Qed.

  Lemma with_cell_out : forall oob full empty, is_int64 i -> (i < 0 \/ Z.of_nat n <= i) ->
    with_cell n cells (i mod two64) oob full empty = oob.
  Proof.
    intros. unfold with_cell. subst n. rewrite len_ok_refl. rewrite uidx_out by assumption. reflexivity.
  Qed.
End Cell.

Arguments op_sem : simpl never.

Ltac step := cbn [run run_outs exec_instr lookups nth_error obind app fst snd seq unwrap].

(* ------------------------------------------------------------ classical read / write *)

Lemma read_in_range_l : forall n cells i v,
  length cells = n -> Z.of_nat n <= two63 -> 0 <= i < Z.of_nat n ->
  nth_error cells (Z.to_nat i) = Some (Some v) ->
  run_outs (seq_get_classical n) outs_get_classical [VArr cells; VInt i] = Ok [v; VArr cells].
Proof.
  intros n cells i v Hlen Hn Hi Hc.
  unfold run_outs, seq_get_classical, outs_get_classical. step.
  unfold op_sem at 1. cbn [sem_itousize]. step.
  unfold op_sem at 1. cbn [sem_get]. rewrite (with_cell_in n cells i Hlen Hn) by assumption.
  rewrite Hc. step. reflexivity.
Qed.
