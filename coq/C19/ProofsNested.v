(** C19 — nested subscripts lent to a call: `f(qs[i][j])`. *)
From Coq Require Import String ZArith List Bool Lia ZifyBool.
From V.C19 Require Import Array Proofs.
Import ListNotations.
Open Scope Z_scope.

Ltac nstep := cbn [run run_outs exec_instr lookups nth_error obind app fst snd seq unwrap Nat.add vsome vnone].
Ltac nop := unfold op_sem at 1;
  cbn [sem_itousize sem_get sem_set sem_borrow sem_return sem_clone sem_panic sem_iadd]; nstep.

Section Nested.
  Variables n m : nat.
  Variable cells : list (option val).
  Variable inner : list (option val).
  Variables i j : Z.
  Hypothesis Hlen : length cells = n.
  Hypothesis Hn : Z.of_nat n <= two63.
  Hypothesis Hm : Z.of_nat m <= two63.

  (** taking the leaf out: exactly cell j of the inner array at cell i becomes empty *)
  Lemma lend_nested_pre_l : forall v,
    0 <= i < Z.of_nat n -> 0 <= j < Z.of_nat m -> length inner = m ->
    nth_error cells (Z.to_nat i) = Some (Some (VArr inner)) ->
    nth_error inner (Z.to_nat j) = Some (Some v) ->
    run_outs (seq_lend_nested_pre n m) outs_lend_nested_pre [VArr cells; VInt i; VInt j]
    = Ok [v; VArr (upd cells (Z.to_nat i) (Some (VArr (upd inner (Z.to_nat j) None))))].
  Proof.
    intros v Hi Hj Hlm Hci Hcj.
    pose proof (nth_error_lt _ _ _ _ Hci) as Hki.
    unfold seq_lend_nested_pre, seq_nested_pre, outs_lend_nested_pre, run_outs. nstep. nop.
    unfold op_sem at 1. cbn [sem_borrow]. rewrite (with_cell_in n cells i Hlen Hn) by assumption.
    rewrite Hci. nstep. nop.
    unfold op_sem at 1. cbn [sem_borrow]. rewrite (with_cell_in m inner j Hlm Hm) by assumption.
    rewrite Hcj. nstep. nop.
    unfold op_sem at 1. cbn [sem_return].
    rewrite (with_cell_in n _ i (eq_trans (upd_length _ _ _ _) Hlen) Hn) by assumption.
    rewrite upd_same by assumption. nstep. rewrite upd_upd. reflexivity.
  Qed.

  (** giving a leaf [w] back: it goes to cell j of the inner array at cell i *)
  Lemma lend_nested_post_l : forall w,
    0 <= i < Z.of_nat n -> 0 <= j < Z.of_nat m -> length inner = m ->
    nth_error cells (Z.to_nat i) = Some (Some (VArr inner)) ->
    nth_error inner (Z.to_nat j) = Some None ->
    run_outs (seq_lend_nested_post n m) outs_lend_nested_post [VArr cells; VInt i; VInt j; w]
    = Ok [VArr (upd cells (Z.to_nat i) (Some (VArr (upd inner (Z.to_nat j) (Some w)))))].
  Proof.
    intros w Hi Hj Hlm Hci Hcj.
    pose proof (nth_error_lt _ _ _ _ Hci) as Hki.
    unfold seq_lend_nested_post, seq_nested_post, outs_lend_nested_post, run_outs. nstep. nop.
    unfold op_sem at 1. cbn [sem_borrow]. rewrite (with_cell_in n cells i Hlen Hn) by assumption.
    rewrite Hci. nstep. nop.
    unfold op_sem at 1. cbn [sem_return]. rewrite (with_cell_in m inner j Hlm Hm) by assumption.
    rewrite Hcj. nstep. nop.
    unfold op_sem at 1. cbn [sem_return].
    rewrite (with_cell_in n _ i (eq_trans (upd_length _ _ _ _) Hlen) Hn) by assumption.
    rewrite upd_same by assumption. nstep. rewrite upd_upd. reflexivity.
  Qed.

  (** the whole `g(qs[i][j])`: every cell is back where it was *)
  Lemma lend_nested_restores_l : forall g v,
    0 <= i < Z.of_nat n -> 0 <= j < Z.of_nat m -> length inner = m ->
    nth_error cells (Z.to_nat i) = Some (Some (VArr inner)) ->
    nth_error inner (Z.to_nat j) = Some (Some v) ->
    run_outs (seq_lend_nested n m (OGate g)) outs_lend_nested [VArr cells; VInt i; VInt j] = Ok [VArr cells].
  Proof.
    intros g v Hi Hj Hlm Hci Hcj.
    pose proof (nth_error_lt _ _ _ _ Hci) as Hki. pose proof (nth_error_lt _ _ _ _ Hcj) as Hkj.
    unfold seq_lend_nested, seq_lend_nested_at, seq_nested_pre, seq_nested_post, outs_lend_nested, run_outs.
    nstep. nop.
    unfold op_sem at 1. cbn [sem_borrow]. rewrite (with_cell_in n cells i Hlen Hn) by assumption.
    rewrite Hci. nstep. nop.
    unfold op_sem at 1. cbn [sem_borrow]. rewrite (with_cell_in m inner j Hlm Hm) by assumption.
    rewrite Hcj. nstep. nop.
    unfold op_sem at 1. cbn [sem_return].
    rewrite (with_cell_in n _ i (eq_trans (upd_length _ _ _ _) Hlen) Hn) by assumption.
    rewrite upd_same by assumption. nstep. rewrite upd_upd.
    unfold op_sem at 1. nstep. nop.
    unfold op_sem at 1. cbn [sem_borrow].
    rewrite (with_cell_in n _ i (eq_trans (upd_length _ _ _ _) Hlen) Hn) by assumption.
    rewrite upd_same by assumption. nstep. nop.
    unfold op_sem at 1. cbn [sem_return].
    rewrite (with_cell_in m _ j (eq_trans (upd_length _ _ _ _) Hlm) Hm) by assumption.
    rewrite upd_same by assumption. nstep. nop.
    unfold op_sem at 1. cbn [sem_return].
    rewrite (with_cell_in n _ i (eq_trans (upd_length _ _ _ _) (eq_trans (upd_length _ _ _ _) Hlen)) Hn) by assumption.
    rewrite upd_same by (rewrite upd_length; assumption). nstep.
    rewrite !upd_upd. rewrite (upd_id _ inner) by assumption. rewrite upd_id by assumption. reflexivity.
  Qed.

  (** an invalid outer index panics before anything is touched; so does an invalid inner index *)
  Lemma lend_nested_outer_out_l : forall f,
    is_int64 i -> (i < 0 \/ Z.of_nat n <= i) ->
    run_outs (seq_lend_nested n m f) outs_lend_nested [VArr cells; VInt i; VInt j] = Panic msg_op_oob.
  Proof.
    intros f Hi Ho.
    unfold seq_lend_nested, seq_lend_nested_at, seq_nested_pre, seq_nested_post, outs_lend_nested, run_outs.
    nstep. nop.
    unfold op_sem at 1. cbn [sem_borrow]. rewrite (with_cell_out n cells i Hlen Hn) by assumption. reflexivity.
  Qed.

  Lemma lend_nested_inner_out_l : forall f,
    0 <= i < Z.of_nat n -> length inner = m ->
    nth_error cells (Z.to_nat i) = Some (Some (VArr inner)) ->
    is_int64 j -> (j < 0 \/ Z.of_nat m <= j) ->
    run_outs (seq_lend_nested n m f) outs_lend_nested [VArr cells; VInt i; VInt j] = Panic msg_op_oob.
  Proof.
    intros f Hi Hlm Hci Hj Ho.
    unfold seq_lend_nested, seq_lend_nested_at, seq_nested_pre, seq_nested_post, outs_lend_nested, run_outs.
    nstep. nop.
    unfold op_sem at 1. cbn [sem_borrow]. rewrite (with_cell_in n cells i Hlen Hn) by assumption.
    rewrite Hci. nstep. nop.
    unfold op_sem at 1. cbn [sem_borrow]. rewrite (with_cell_out m inner j Hlm Hm) by assumption. reflexivity.
  Qed.

  (** `g(qs[bump(ctr)][c])`: the index oracle is consulted ONCE (the counter advances by one), the
      element it named is the one lent and the one given back *)
  Lemma lend_nested_oracle_l : forall g c k v,
    i = k -> j = c -> Z.of_nat n < two63 ->
    0 <= i < Z.of_nat n -> 0 <= j < Z.of_nat m -> length inner = m ->
    nth_error cells (Z.to_nat i) = Some (Some (VArr inner)) ->
    nth_error inner (Z.to_nat j) = Some (Some v) ->
    run_outs (seq_lend_nested_oracle n m (OGate g) c) outs_lend_nested_oracle [VArr cells; VArr [Some (VInt k)]]
    = Ok [VArr cells; VArr [Some (VInt (k + 1))]].
  Proof.
    intros g c k v Ek Ec Hn' Hi Hj Hlm Hci Hcj. subst k c.
    pose proof (nth_error_lt _ _ _ _ Hci) as Hki. pose proof (nth_error_lt _ _ _ _ Hcj) as Hkj.
    unfold seq_lend_nested_oracle, seq_lend_nested_at, seq_nested_pre, seq_nested_post, outs_lend_nested_oracle, run_outs.
    nstep. unfold op_sem at 1. nstep. unfold op_sem at 1. cbn [sem_call String.eqb Ascii.eqb Bool.eqb]. nstep.
    rewrite wrap_s_small by (unfold is_int64; pose proof two63_pos; lia).
    nop.
    unfold op_sem at 1. cbn [sem_borrow]. rewrite (with_cell_in n cells i Hlen Hn) by assumption.
    rewrite Hci. nstep. nop.
    unfold op_sem at 1. cbn [sem_borrow]. rewrite (with_cell_in m inner j Hlm Hm) by assumption.
    rewrite Hcj. nstep. nop.
    unfold op_sem at 1. cbn [sem_return].
    rewrite (with_cell_in n _ i (eq_trans (upd_length _ _ _ _) Hlen) Hn) by assumption.
    rewrite upd_same by assumption. nstep. rewrite upd_upd.
    unfold op_sem at 1. nstep. nop.
    unfold op_sem at 1. cbn [sem_borrow].
    rewrite (with_cell_in n _ i (eq_trans (upd_length _ _ _ _) Hlen) Hn) by assumption.
    rewrite upd_same by assumption. nstep. nop.
    unfold op_sem at 1. cbn [sem_return].
    rewrite (with_cell_in m _ j (eq_trans (upd_length _ _ _ _) Hlm) Hm) by assumption.
    rewrite upd_same by assumption. nstep. nop.
    unfold op_sem at 1. cbn [sem_return].
    rewrite (with_cell_in n _ i (eq_trans (upd_length _ _ _ _) (eq_trans (upd_length _ _ _ _) Hlen)) Hn) by assumption.
    rewrite upd_same by (rewrite upd_length; assumption). nstep.
    rewrite !upd_upd. rewrite (upd_id _ inner) by assumption. rewrite upd_id by assumption. reflexivity.
  Qed.

  (** xs[i][j] read / write with copyable leaves *)
  Lemma read_nested_l : forall v,
    0 <= i < Z.of_nat n -> 0 <= j < Z.of_nat m -> length inner = m ->
    nth_error cells (Z.to_nat i) = Some (Some (VArr inner)) ->
    nth_error inner (Z.to_nat j) = Some (Some v) ->
    run_outs (seq_get_nested n m) outs_get_nested [VArr cells; VInt i; VInt j] = Ok [v; VArr cells].
  Proof.
    intros v Hi Hj Hlm Hci Hcj.
    pose proof (nth_error_lt _ _ _ _ Hci) as Hki.
    unfold seq_get_nested, outs_get_nested, run_outs. nstep. nop.
    unfold op_sem at 1. cbn [sem_borrow]. rewrite (with_cell_in n cells i Hlen Hn) by assumption.
    rewrite Hci. nstep. nop.
    unfold op_sem at 1. cbn [sem_get]. rewrite (with_cell_in m inner j Hlm Hm) by assumption.
    rewrite Hcj. nstep. nop.
    unfold op_sem at 1. cbn [sem_return].
    rewrite (with_cell_in n _ i (eq_trans (upd_length _ _ _ _) Hlen) Hn) by assumption.
    rewrite upd_same by assumption. nstep. rewrite upd_upd, upd_id by assumption. reflexivity.
  Qed.

  Lemma read_nested_inner_out_l :
    0 <= i < Z.of_nat n -> length inner = m ->
    nth_error cells (Z.to_nat i) = Some (Some (VArr inner)) ->
    is_int64 j -> (j < 0 \/ Z.of_nat m <= j) ->
    run_outs (seq_get_nested n m) outs_get_nested [VArr cells; VInt i; VInt j] = Panic msg_index_oob.
  Proof.
    intros Hi Hlm Hci Hj Ho.
    unfold seq_get_nested, outs_get_nested, run_outs. nstep. nop.
    unfold op_sem at 1. cbn [sem_borrow]. rewrite (with_cell_in n cells i Hlen Hn) by assumption.
    rewrite Hci. nstep. nop.
    unfold op_sem at 1. cbn [sem_get]. rewrite (with_cell_out m inner j Hlm Hm) by assumption.
    nstep. nop. nop. reflexivity.
  Qed.

  Lemma write_nested_l : forall v old,
    0 <= i < Z.of_nat n -> 0 <= j < Z.of_nat m -> length inner = m ->
    nth_error cells (Z.to_nat i) = Some (Some (VArr inner)) ->
    nth_error inner (Z.to_nat j) = Some (Some old) ->
    run_outs (seq_set_nested n m) outs_set_nested [VArr cells; VInt i; VInt j; v]
    = Ok [VArr (upd cells (Z.to_nat i) (Some (VArr (upd inner (Z.to_nat j) (Some v)))))].
  Proof.
    intros v old Hi Hj Hlm Hci Hcj.
    pose proof (nth_error_lt _ _ _ _ Hci) as Hki.
    unfold seq_set_nested, outs_set_nested, run_outs. nstep. nop.
    unfold op_sem at 1. cbn [sem_borrow]. rewrite (with_cell_in n cells i Hlen Hn) by assumption.
    rewrite Hci. nstep. nop.
    unfold op_sem at 1. cbn [sem_set]. rewrite (with_cell_in m inner j Hlm Hm) by assumption.
    rewrite Hcj. nstep. nop.
    unfold op_sem at 1. cbn [sem_return].
    rewrite (with_cell_in n _ i (eq_trans (upd_length _ _ _ _) Hlen) Hn) by assumption.
    rewrite upd_same by assumption. nstep. rewrite upd_upd. reflexivity.
  Qed.
End Nested.

(** specification-side reading: in a two-level array exactly cell (i, j) changed to [x] *)
Definition only_cell_ij_changed (ki kj : nat) (x : option val) (a b : list (option val)) : Prop :=
  exists ia ib, nth_error a ki = Some (Some (VArr ia)) /\ only_cell_changed ki (Some (VArr ib)) a b
                /\ only_cell_changed kj x ia ib.

Lemma lend_nested_pre_spec_l : forall n m cells inner i j v,
  length cells = n -> Z.of_nat n <= two63 -> Z.of_nat m <= two63 ->
  0 <= i < Z.of_nat n -> 0 <= j < Z.of_nat m -> length inner = m ->
  nth_error cells (Z.to_nat i) = Some (Some (VArr inner)) ->
  nth_error inner (Z.to_nat j) = Some (Some v) ->
  exists cells', run_outs (seq_lend_nested_pre n m) outs_lend_nested_pre [VArr cells; VInt i; VInt j] = Ok [v; VArr cells']
                 /\ only_cell_ij_changed (Z.to_nat i) (Z.to_nat j) None cells cells'.
Proof.
  intros n m cells inner i j v Hlen Hn Hm Hi Hj Hlm Hci Hcj. eexists. split.
  - apply (lend_nested_pre_l n m cells inner i j Hlen Hn Hm v); assumption.
  - exists inner, (upd inner (Z.to_nat j) None). split; [assumption|]. split.
    + apply upd_only_cell_changed. eapply nth_error_lt; eassumption.
    + apply upd_only_cell_changed. eapply nth_error_lt; eassumption.
Qed.

Lemma lend_nested_post_spec_l : forall n m cells inner i j w,
  length cells = n -> Z.of_nat n <= two63 -> Z.of_nat m <= two63 ->
  0 <= i < Z.of_nat n -> 0 <= j < Z.of_nat m -> length inner = m ->
  nth_error cells (Z.to_nat i) = Some (Some (VArr inner)) ->
  nth_error inner (Z.to_nat j) = Some None ->
  exists cells', run_outs (seq_lend_nested_post n m) outs_lend_nested_post [VArr cells; VInt i; VInt j; w] = Ok [VArr cells']
                 /\ only_cell_ij_changed (Z.to_nat i) (Z.to_nat j) (Some w) cells cells'.
Proof.
  intros n m cells inner i j w Hlen Hn Hm Hi Hj Hlm Hci Hcj. eexists. split.
  - apply (lend_nested_post_l n m cells inner i j Hlen Hn Hm w); assumption.
  - exists inner, (upd inner (Z.to_nat j) (Some w)). split; [assumption|]. split.
    + apply upd_only_cell_changed. eapply nth_error_lt; eassumption.
    + apply upd_only_cell_changed. eapply nth_error_lt; eassumption.
Qed.

Lemma write_nested_spec_l : forall n m cells inner i j v old,
  length cells = n -> Z.of_nat n <= two63 -> Z.of_nat m <= two63 ->
  0 <= i < Z.of_nat n -> 0 <= j < Z.of_nat m -> length inner = m ->
  nth_error cells (Z.to_nat i) = Some (Some (VArr inner)) ->
  nth_error inner (Z.to_nat j) = Some (Some old) ->
  exists cells', run_outs (seq_set_nested n m) outs_set_nested [VArr cells; VInt i; VInt j; v] = Ok [VArr cells']
                 /\ only_cell_ij_changed (Z.to_nat i) (Z.to_nat j) (Some v) cells cells'.
Proof.
  intros n m cells inner i j v old Hlen Hn Hm Hi Hj Hlm Hci Hcj. eexists. split.
  - apply (write_nested_l n m cells inner i j Hlen Hn Hm v old); assumption.
  - exists inner, (upd inner (Z.to_nat j) (Some v)). split; [assumption|]. split.
    + apply upd_only_cell_changed. eapply nth_error_lt; eassumption.
    + apply upd_only_cell_changed. eapply nth_error_lt; eassumption.
Qed.
