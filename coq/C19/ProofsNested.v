(** C19 — nested subscripts lent to a call: `f(qs[i][j])`. *)
From Coq Require Import String ZArith List Bool Lia ZifyBool.
From V.C19 Require Import Array Proofs.
Import ListNotations.
Open Scope Z_scope.

Ltac nstep := cbn [run run_outs exec_instr lookups nth_error obind app fst snd seq unwrap Nat.add].
Ltac nop := unfold op_sem at 1;
  cbn [sem_itousize sem_get sem_set sem_borrow sem_return sem_clone sem_panic sem_iadd]; nstep.

Section Nested.
  Variables n m : nat.
  Variable cells : list (option val).
  Variable inner : list (option val).
  Variables i j : Z.
  Hypothesis Hlen : length cells = n.
  Hypothesis Hn : Z.of_nat n <= two63.
  Hypothesis Hm : Z.of_nat m <= two63.

  (** taking the leaf out: exactly cell j of the inner array at cell i becomes empty *)
  Lemma lend_nested_pre_l : forall v,
    0 <= i < Z.of_nat n -> 0 <= j < Z.of_nat m -> length inner = m ->
    nth_error cells (Z.to_nat i) = Some (Some (VArr inner)) ->
    nth_error inner (Z.to_nat j) = Some (Some v) ->
    run_outs (seq_lend_nested_pre n m) outs_lend_nested_pre [VArr cells; VInt i; VInt j]
    = Ok [v; VArr (upd cells (Z.to_nat i) (Some (VArr (upd inner (Z.to_nat j) None))))].
  Proof.
    intros v Hi Hj Hlm Hci Hcj.
    pose proof (nth_error_lt _ _ _ _ Hci) as Hki.
    unfold seq_lend_nested_pre, seq_nested_pre, outs_lend_nested_pre, run_outs. nstep. nop.
    unfold op_sem at 1. cbn [sem_borrow]. rewrite (with_cell_in n cells i Hlen Hn) by assumption.
    rewrite Hci. nstep. nop.
    unfold op_sem at 1. cbn [sem_borrow]. rewrite (with_cell_in m inner j Hlm Hm) by assumption.
    rewrite Hcj. nstep. nop.
    unfold op_sem at 1. cbn [sem_return].
    rewrite (with_cell_in n _ i (eq_trans (upd_length _ _ _ _) Hlen) Hn) by assumption.
    rewrite upd_same by assumption. nstep. rewrite upd_upd. reflexivity.
  Qed.

  (** giving a leaf [w] back: it goes to cell j of the inner array at cell i *)
  Lemma lend_nested_post_l : forall w,
    0 <= i < Z.of_nat n -> 0 <= j < Z.of_nat m -> length inner = m ->
    nth_error cells (Z.to_nat i) = Some (Some (VArr inner)) ->
    nth_error inner (Z.to_nat j) = Some None ->
    run_outs (seq_lend_nested_post n m) outs_lend_nested_post [VArr cells; VInt i; VInt j; w]
    = Ok [VArr (upd cells (Z.to_nat i) (Some (VArr (upd inner (Z.to_nat j) (Some w)))))].
  Proof.
    intros w Hi Hj Hlm Hci Hcj.
    pose proof (nth_error_lt _ _ _ _ Hci) as Hki.
    unfold seq_lend_nested_post, seq_nested_post, outs_lend_nested_post, run_outs. nstep. nop.
    unfold op_sem at 1. cbn [sem_borrow]. rewrite (with_cell_in n cells i Hlen Hn) by assumption.
    rewrite Hci. nstep. nop.
    unfold op_sem at 1. cbn [sem_return]. rewrite (with_cell_in m inner j Hlm Hm) by assumption.
    rewrite Hcj. nstep. nop.
    unfold op_sem at 1. cbn [sem_return].
    rewrite (with_cell_in n _ i (eq_trans (upd_length _ _ _ _) Hlen) Hn) by assumption.
    rewrite upd_same by assumption. nstep. rewrite upd_upd. reflexivity.
  Qed.
End Nested.
