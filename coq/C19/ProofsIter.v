(** C19 — iteration and comprehension enumerate the cells in index order. *)
From Coq Require Import String ZArith List Bool Lia ZifyBool.
From V.C19 Require Import Array GenIter ModelIter Proofs.
Import ListNotations.
Open Scope Z_scope.

Example bindings_are_the_modelled_compilers :
  (bind_getitem, bind_setitem, bind_copy, bind_unsafe_getitem, bind_discard_all_used)
  = ("ArrayGetitemCompiler", "ArraySetitemCompiler", "CopyInoutCompiler",
     "ArrayGetitemCompiler", "ArrayDiscardAllUsedCompiler")%string.
Proof. reflexivity. Qed.

Lemma upd_app_r : forall A (a b : list A) x y, upd (a ++ x :: b) (length a) y = a ++ y :: b.
Proof. induction a; simpl; intros; auto. f_equal. auto. Qed.

Lemma repeat_snoc : forall A (x : A) k (l : list A), repeat x k ++ x :: l = repeat x (S k) ++ l.
Proof. intros. induction k; simpl; auto. f_equal. exact IHk. Qed.

Lemma all_none_repeat : forall A k, all_none (repeat (@None A) k) = true.
Proof. induction k; simpl; auto. Qed.

Lemma nat_to_int_small : forall n, Z.of_nat n < two63 -> nat_to_int n = Z.of_nat n.
Proof. intros. unfold nat_to_int. apply wrap_s_small. unfold is_int64. pose proof two63_pos. lia. Qed.

Lemma iterate_from : forall rest k n,
  Z.of_nat n < two63 -> n = (k + length rest)%nat ->
  iterate (S (length rest)) n (VArr (repeat None k ++ map Some rest)) (Z.of_nat k) = Ok rest.
Proof.
  induction rest as [|e rest IH]; intros k n Hn Hk.
  - cbn [iterate length]. unfold array_iter_next.
    rewrite nat_to_int_small by assumption. unfold int_lt.
    destruct (Z.of_nat k <? Z.of_nat n) eqn:E; [simpl in Hk; lia|].
    unfold call_discard_all_used, seq_discard_all_used. cbn [run exec_instr lookups nth_error obind].
    unfold op_sem, sem_discard_all_borrowed, len_ok. simpl map. rewrite app_nil_r, repeat_length.
    replace (k =? n)%nat with true by (symmetry; apply Nat.eqb_eq; simpl in Hk; lia).
    rewrite all_none_repeat. reflexivity.
  - cbn [iterate]. unfold array_iter_next.
    rewrite nat_to_int_small by assumption. unfold int_lt.
    simpl length in Hk.
    destruct (Z.of_nat k <? Z.of_nat n) eqn:E; [|lia].
    unfold call_getitem_linear.
    rewrite (borrow_in_range_l n _ (Z.of_nat k) e).
    + cbn [obind fst snd]. rewrite Nat2Z.id.
      simpl map. rewrite <- (repeat_length (@None val) k) at 2. rewrite upd_app_r. rewrite repeat_snoc.
      replace (int_add (Z.of_nat k) 1) with (Z.of_nat (S k))
        by (unfold int_add; rewrite wrap_s_small; [lia | unfold is_int64; pose proof two63_pos; lia]).
      change (length (e :: rest)) with (S (length rest)).
      rewrite (IH (S k) n Hn) by lia. reflexivity.
    + rewrite app_length, repeat_length, map_length. simpl. lia.
    + pose proof two63_pos. lia.
    + lia.
    + rewrite Nat2Z.id. rewrite nth_error_app2 by (rewrite repeat_length; lia).
      rewrite repeat_length, Nat.sub_diag. reflexivity.
Qed.

Lemma iteration_in_order_l : forall n vs,
  length vs = n -> Z.of_nat n < two63 -> for_loop_elements n (VArr (map Some vs)) = Ok vs.
Proof.
  intros n vs Hlen Hn. unfold for_loop_elements. rewrite <- Hlen.
  change array_iter_start with (Z.of_nat 0).
  apply (iterate_from vs 0 (length vs)); [rewrite Hlen; assumption | reflexivity].
Qed.

(** an index at which the iterator stands is never re-visited: after the loop every cell is lent
    and the array is discarded; a cell that is lent when the iterator reaches it panics *)
Lemma iteration_lent_cell_panics_l : forall n cells k,
  length cells = n -> Z.of_nat n < two63 -> (k < n)%nat -> nth_error cells k = Some None ->
  array_iter_next n (VArr cells) (Z.of_nat k) = Panic msg_already_borrowed.
Proof.
  intros n cells k Hlen Hn Hk Hc. unfold array_iter_next.
  rewrite nat_to_int_small by assumption. unfold int_lt.
  destruct (Z.of_nat k <? Z.of_nat n) eqn:E; [|lia].
  unfold call_getitem_linear. rewrite (borrow_lent_l n cells (Z.of_nat k)); auto.
  - pose proof two63_pos. lia.
  - lia.
  - rewrite Nat2Z.id. assumption.
Qed.

(* ---------------------------------------------------------------- comprehension *)

Lemma comp_step_l : forall n cells count e,
  length cells = n -> Z.of_nat n <= two63 -> 0 <= count < Z.of_nat n ->
  nth_error cells (Z.to_nat count) = Some None ->
  run_outs (seq_comp_step n) outs_comp_step [VInt count; VArr cells; e]
  = Ok [VArr (upd cells (Z.to_nat count) (Some e)); VInt (wrap_s (count + 1))].
Proof.
  intros n cells count e Hlen Hn Hc Hcell.
  unfold run_outs, seq_comp_step, outs_comp_step. step. opstep.
  unfold op_sem at 1. cbn [sem_return]. rewrite (with_cell_in n cells count Hlen Hn) by assumption.
  rewrite Hcell. step. unfold op_sem at 1. step. opstep. reflexivity.
Qed.

Lemma comp_drive_from : forall es pre m n,
  Z.of_nat n < two63 -> n = (length pre + length es + m)%nat ->
  comp_drive n es (VArr (map Some pre ++ repeat None (length es + m))) (Z.of_nat (length pre))
  = Ok (VArr (map Some (pre ++ es) ++ repeat None m)).
Proof.
  induction es as [|e es IH]; intros pre m n Hn Hk.
  - simpl. rewrite app_nil_r. reflexivity.
  - cbn [comp_drive].
    rewrite (comp_step_l n).
    + rewrite Nat2Z.id.
      replace (upd (map Some pre ++ repeat None (length (e :: es) + m)) (length pre) (Some e))
        with (map Some pre ++ Some e :: repeat None (length es + m))
        by (simpl length; simpl repeat; rewrite <- (map_length Some pre); rewrite upd_app_r; reflexivity).
      rewrite wrap_s_small by (unfold is_int64; pose proof two63_pos; simpl in Hk; lia).
      replace (Z.of_nat (length pre) + 1) with (Z.of_nat (length (pre ++ [e]))) by (rewrite app_length; simpl; lia).
      replace (map Some pre ++ Some e :: repeat None (length es + m)) with (map Some (pre ++ [e]) ++ repeat None (length es + m))
        by (rewrite map_app, <- app_assoc; reflexivity).
      rewrite (IH (pre ++ [e]) m n Hn) by (rewrite app_length; simpl in *; lia).
      rewrite <- app_assoc. reflexivity.
    + rewrite app_length, map_length, repeat_length. simpl length in *. lia.
    + pose proof two63_pos. lia.
    + simpl length in *. lia.
    + rewrite Nat2Z.id. rewrite nth_error_app2 by (rewrite map_length; lia).
      rewrite map_length, Nat.sub_diag. reflexivity.
Qed.

Lemma comprehension_in_order_l : forall n es,
  length es = n -> Z.of_nat n < two63 -> comprehension n es = Ok (VArr (map Some es)).
Proof.
  intros n es Hlen Hn. unfold comprehension, seq_comp_init.
  cbn [run exec_instr lookups obind app]. unfold op_sem at 1. cbn [obind app].
  unfold op_sem at 1. cbn [obind app].
  pose proof (comp_drive_from es [] 0 n Hn) as H. simpl in H.
  rewrite Nat.add_0_r, Hlen, app_nil_r in H. apply H. lia.
Qed.

Lemma comprehension_over_array_l : forall n vs,
  length vs = n -> Z.of_nat n < two63 ->
  comprehension_over_array n (VArr (map Some vs)) = Ok (VArr (map Some vs)).
Proof.
  intros. unfold comprehension_over_array. rewrite iteration_in_order_l by assumption.
  cbn [obind]. apply comprehension_in_order_l; assumption.
Qed.
