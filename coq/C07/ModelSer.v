(* C07 — serialisation of model results to lists of naturals, for the correspondence
   harness (props/C07/impl_writeback.py produces the same encoding from a HUGR). *)
From Coq Require Import List Arith.
From V.C07 Require Import ModelBase ModelCall ModelDfc.
Import ListNotations.

Fixpoint ser_val (v : val) : list nat :=
  match v with
  | VAtom (AIn x p) => 0 :: x :: length p :: p
  | VAtom (AOut e k p) => 1 :: e :: k :: length p :: p
  | VAtom (AIdx x) => [2; x]
  | VAtom (AConst c) => [3; c]
  | VAtom ABad => [4]
  | VProd vs => 5 :: length vs :: (fix go (vs : list val) : list nat :=
                                     match vs with [] => [] | v :: r => ser_val v ++ go r end) vs
  end.

Definition ser_event (e : event) : list nat :=
  match e with Ev n ins => n :: length ins :: flat_map ser_val ins end.

Definition ser_result (r : option (list val * list event)) : list (list nat) :=
  match r with
  | None => [[9]]
  | Some (vs, evs) => [1; length vs; length evs] :: map ser_val vs ++ map ser_event evs
  end.
