(* C07 — lens lemmas on value trees and the store-passing theorem (partial). *)
From Coq Require Import List Bool Arith Lia.
From V.C07 Require Import ModelDfc ModelSem.
Import ListNotations.

Lemma nth_error_upd_same : forall {A} (l : list A) i x y,
  nth_error l i = Some y -> nth_error (upd_nth l i x) i = Some x.
Proof.
  induction l as [|z l IH]; intros [|i] x y H; simpl in *; try discriminate; auto. eapply IH; eauto.
Qed.

Lemma nth_error_upd_other : forall {A} (l : list A) i j x,
  i <> j -> nth_error (upd_nth l i x) j = nth_error l j.
Proof.
  induction l as [|z l IH]; intros [|i] [|j] x H; simpl in *; auto; try congruence.
Qed.

Lemma upd_nth_length : forall {A} (l : list A) i x, length (upd_nth l i x) = length l.
Proof. induction l; intros [|i] x; simpl; auto. Qed.

Lemma vget_app : forall a sigma v q, vget sigma a = Some v -> vget sigma (a ++ q) = vget v q.
Proof.
  induction a as [|i a IH]; intros sigma v q H; simpl in *.
  - inversion H; auto.
  - destruct sigma as [|vs]; try discriminate. destruct (nth_error vs i); try discriminate. eauto.
Qed.

Lemma vget_vput_same : forall a sigma v x, vget sigma a = Some v -> vget (vput sigma a x) a = Some x.
Proof.
  induction a as [|i a IH]; intros sigma v x H; simpl in *; auto.
  destruct sigma as [|vs]; try discriminate. destruct (nth_error vs i) as [c|] eqn:E; try discriminate.
  simpl. erewrite nth_error_upd_same by eauto. eauto.
Qed.

Lemma vput_app : forall a sigma v q x,
  vget sigma a = Some v -> vput sigma (a ++ q) x = vput sigma a (vput v q x).
Proof.
  induction a as [|i a IH]; intros sigma v q x H; simpl in *.
  - inversion H; auto.
  - destruct sigma as [|vs]; try discriminate. destruct (nth_error vs i) as [c|] eqn:E; try discriminate.
    erewrite IH by eauto. reflexivity.
Qed.

Lemma vget_vput_disjoint : forall a b sigma x, disj a b = true -> vget (vput sigma a x) b = vget sigma b.
Proof.
  induction a as [|i a IH]; intros b sigma x D; simpl in D; try discriminate.
  destruct b as [|j b]; try discriminate. simpl.
  destruct sigma as [|vs]; auto. destruct (nth_error vs i) as [c|] eqn:E; auto.
  simpl. destruct (Nat.eqb i j) eqn:N.
  - apply Nat.eqb_eq in N. subst j. erewrite nth_error_upd_same by eauto. rewrite E. auto.
  - apply Nat.eqb_neq in N. rewrite nth_error_upd_other by auto. reflexivity.
Qed.

Lemma disj_app_l : forall a b q, disj a b = true -> disj (a ++ q) b = true.
Proof.
  induction a as [|i a IH]; intros b q D; simpl in *; try discriminate.
  destruct b as [|j b]; try discriminate. destruct (Nat.eqb i j); auto.
Qed.

Lemma disj_sym : forall a b, disj a b = disj b a.
Proof.
  induction a as [|i a IH]; intros [|j b]; simpl; auto.
  rewrite (Nat.eqb_sym j i). destruct (Nat.eqb i j); auto.
Qed.

(* one in-place update below the k-th lent place, seen through the view *)
Lemma view_step : forall sigma rho vs k r vk q x,
  view sigma rho vs -> disjoint_places rho ->
  nth_error rho k = Some r -> nth_error vs k = Some vk ->
  view (vput sigma (r ++ q) x) rho (upd_nth vs k (vput vk q x))
  /\ (forall b, outside rho b -> vget (vput sigma (r ++ q) x) b = vget sigma b).
Proof.
  intros sigma rho vs k r vk q x [L V] D Hr Hv. split.
  - split; [rewrite upd_nth_length; auto|].
    intros j r' v' Hj Hv'. destruct (Nat.eq_dec k j) as [->|N].
    + rewrite Hr in Hj. inversion Hj; subst r'.
      erewrite nth_error_upd_same in Hv' by eauto. inversion Hv'; subst v'.
      pose proof (V _ _ _ Hr Hv) as G.
      rewrite (vput_app _ _ _ q x G). eapply vget_vput_same; eauto.
    + rewrite nth_error_upd_other in Hv' by auto.
      rewrite vget_vput_disjoint; [eapply V; eauto|].
      apply disj_app_l. eapply D; eauto.
  - intros b O. apply vget_vput_disjoint. apply disj_app_l. eapply O; eauto.
Qed.

Section Sem.
  Variable prim : nat -> val -> val.

  (* running the callee by reference on the caller's store and running it on copied values
     stay in lock step: the store seen through the lent places is the callee's frame *)
  Lemma lockstep : forall body sigma rho vs fr,
    view sigma rho vs -> disjoint_places rho ->
    vr_exec prim body (VProd vs) = Some fr ->
    exists sigma' vs', fr = VProd vs' /\ ref_exec prim rho body sigma = Some sigma'
      /\ view sigma' rho vs'
      /\ (forall b, outside rho b -> vget sigma' b = vget sigma b).
  Proof.
    induction body as [|[g p] body IH]; intros sigma rho vs fr V D H; simpl in H.
    - inversion H; subst. exists sigma, vs. simpl. auto.
    - destruct p as [|k q]; try discriminate.
      destruct (vget (VProd vs) (k :: q)) as [v|] eqn:G; try discriminate.
      simpl in G. destruct (nth_error vs k) as [vk|] eqn:Ek; try discriminate.
      assert (Hk : exists r, nth_error rho k = Some r).
      { destruct (nth_error rho k) eqn:Er; eauto. exfalso. apply nth_error_None in Er.
        assert (k < length vs) by (apply nth_error_Some; congruence). destruct V. lia. }
      destruct Hk as [r Er].
      assert (Hput : vput (VProd vs) (k :: q) (prim g v) = VProd (upd_nth vs k (vput vk q (prim g v)))).
      { simpl. rewrite Ek. reflexivity. }
      rewrite Hput in H.
      destruct (view_step sigma rho vs k r vk q (prim g v) V D Er Ek) as [V1 F1].
      destruct (IH _ _ _ _ V1 D H) as [sigma' [vs' [Hf [Hr [V' F']]]]].
      exists sigma', vs'. split; auto. split.
      + simpl. rewrite Er. destruct V as [L VV]. pose proof (VV _ _ _ Er Ek) as Gr.
        rewrite (vget_app _ _ _ q Gr), G. exact Hr.
      + split; auto. intros b O. rewrite F' by auto. apply F1; auto.
  Qed.

  (* the caller's write-back produces a store with the same characterisation *)
  Lemma writeback_view : forall rho sigma vs outs,
    view sigma rho vs -> disjoint_places rho -> length outs = length rho ->
    view (writeback sigma rho outs) rho outs
    /\ (forall b, outside rho b -> vget (writeback sigma rho outs) b = vget sigma b).
  Proof.
    induction rho as [|r rho IH]; intros sigma vs outs V D L.
    - destruct outs; try discriminate. simpl. split; [split; auto; intros [|k]; discriminate|auto].
    - destruct outs as [|o outs]; try discriminate. destruct vs as [|v vs]; [destruct V; discriminate|].
      simpl.
      assert (Vr : vget sigma r = Some v) by (destruct V as [_ VV]; apply (VV 0); reflexivity).
      assert (D' : disjoint_places rho).
      { intros i j ri rj N Hi Hj. apply (D (S i) (S j)); auto. }
      assert (Or : outside rho r).
      { intros k r' Hk. rewrite disj_sym. apply (D 0 (S k)); auto. }
      assert (V' : view (vput sigma r o) rho vs).
      { destruct V as [LV VV]. split; [simpl in LV; lia|]. intros k r' v' Hk Hv'.
        rewrite vget_vput_disjoint; [apply (VV (S k)); auto|]. apply (D 0 (S k)); auto. }
      destruct (IH (vput sigma r o) vs outs V' D' ltac:(simpl in L; lia)) as [[L1 V1] F1].
      split; [split; [simpl; lia|]|].
      + intros [|k] r' v' Hk Hv'; simpl in *.
        * inversion Hk; inversion Hv'; subst. rewrite F1 by auto. eapply vget_vput_same; eauto.
        * eauto.
      + intros b O. rewrite F1.
        * apply vget_vput_disjoint. apply (O 0). reflexivity.
        * intros k r' Hk. apply (O (S k)). exact Hk.
  Qed.
End Sem.

Section Main.
  Variable prim : nat -> val -> val.

  Lemma semantics_agree : forall body sigma rho vs outs,
    view sigma rho vs -> disjoint_places rho ->
    vr_exec prim body (VProd vs) = Some (VProd outs) ->
    exists sigma_ref,
      ref_exec prim rho body sigma = Some sigma_ref /\
      vr_call prim rho body sigma = Some (writeback sigma rho outs) /\
      view sigma_ref rho outs /\ view (writeback sigma rho outs) rho outs /\
      (forall b, outside rho b -> vget sigma_ref b = vget sigma b /\ vget (writeback sigma rho outs) b = vget sigma b) /\
      (forall k r q, nth_error rho k = Some r ->
         vget sigma_ref (r ++ q) = vget (writeback sigma rho outs) (r ++ q)).
  Proof.
    intros body sigma rho vs outs V D H.
    destruct (lockstep prim body sigma rho vs _ V D H) as [s' [vs' [E [R [V' F]]]]].
    inversion E; subst vs'. exists s'. split; auto.
    assert (L : length outs = length rho) by (destruct V'; lia).
    destruct (writeback_view rho sigma vs outs V D L) as [Vw Fw].
    split.
    - unfold vr_call.
      assert (Rd : forall rho vs, view sigma rho vs ->
                (fix rd (rho : list path) : option (list val) :=
                   match rho with
                   | [] => Some []
                   | r :: rho' => match vget sigma r, rd rho' with
                                  | Some v, Some vs => Some (v :: vs)
                                  | _, _ => None
                                  end
                   end) rho = Some vs).
      { induction rho0 as [|r rho0 IH]; intros vs0 [L0 V0]; destruct vs0 as [|v0 vs0]; try discriminate; auto.
        rewrite (V0 0 r v0) by reflexivity. rewrite (IH vs0); auto.
        split; [simpl in L0; lia|]. intros k r' v' Hk Hv. apply (V0 (S k)); auto. }
      rewrite (Rd rho vs V), H. reflexivity.
    - split; auto. split; auto. split.
      + intros b O. split; auto.
      + intros k r q Hk. destruct V' as [L' VV'], Vw as [Lw VVw].
        destruct (nth_error outs k) as [o|] eqn:Eo.
        * rewrite (vget_app _ _ _ q (VV' _ _ _ Hk Eo)), (vget_app _ _ _ q (VVw _ _ _ Hk Eo)). reflexivity.
        * exfalso. apply nth_error_None in Eo. assert (k < length rho) by (apply nth_error_Some; congruence). lia.
  Qed.
End Main.
