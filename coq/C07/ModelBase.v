(* C07 — base vocabulary shared by the generated and the hand-written model.  No proofs. *)
From Coq Require Import List Bool Arith.
Import ListNotations.

(* guppylang_internals.tys.ty.InputFlags is a Flag enum with members Inout, Owned, Comptime;
   `InputFlags.X in inp.flags` is membership of one bit.  (The translator checks the enum.) *)
Record Flags := mkFlags { fl_inout : bool; fl_owned : bool; fl_comptime : bool }.

(* FuncInput(ty, flags, name) *)
Record FuncInput (T : Type) := mkInput { fi_ty : T; fi_flags : Flags }.
Arguments mkInput {T}.
Arguments fi_ty {T}.
Arguments fi_flags {T}.

(* zip(a, b, strict=True): raises ValueError when the lengths differ *)
Fixpoint zip_strict {A B} (a : list A) (b : list B) : option (list (A * B)) :=
  match a, b with
  | [], [] => Some []
  | x :: a', y :: b' => option_map (cons (x, y)) (zip_strict a' b')
  | _, _ => None
  end.
