(* C07 — alignment lemmas about the generated definitions (GenFuncTy.v) and the model of
   _update_inout_ports (ModelCall.v). *)
From Coq Require Import List Bool Arith Lia.
From V.C07 Require Import ModelBase GenFuncTy ModelCall.
Import ListNotations.

Lemma zip_strict_some : forall {A B} (a : list A) (b : list B) l,
  zip_strict a b = Some l -> length a = length b /\ l = combine a b.
Proof.
  induction a as [|x a IH]; destruct b as [|y b]; simpl; intros l H; try discriminate.
  - inversion H; auto.
  - destruct (zip_strict a b) eqn:E; simpl in H; try discriminate. inversion H; subst.
    destruct (IH _ _ E) as [L R]. subst. auto.
Qed.

Lemma zip_strict_len : forall {A B} (a : list A) (b : list B),
  length a = length b -> zip_strict a b = Some (combine a b).
Proof.
  induction a as [|x a IH]; destruct b as [|y b]; simpl; intros H; try discriminate; auto.
  rewrite IH by lia. reflexivity.
Qed.

Lemma nth_error_filter_rank : forall {X} (f : X -> bool) (l : list X) i x,
  nth_error l i = Some x -> f x = true ->
  nth_error (filter f l) (length (filter f (firstn i l))) = Some x.
Proof.
  induction l as [|y l IH]; intros i x Hn Hf.
  - destruct i; discriminate.
  - destruct i as [|i]; simpl in *.
    + inversion Hn; subst. rewrite Hf. reflexivity.
    + destruct (f y); simpl; eauto.
Qed.

Section Align.
  Variables T H A W : Type.
  Variable to_hugr : T -> H.
  Variable type_to_row : T -> list T.

  Lemma fty_outs_length : forall inputs output,
    length (fty_outs T H to_hugr type_to_row inputs output)
    = length (type_to_row output) + length (filter (is_inout T) inputs).
  Proof. intros. unfold fty_outs. rewrite app_length, !map_length. reflexivity. Qed.

  (* the i-th input, if borrowed, is output number |row(output)| + (number of borrowed
     inputs before i) and has the input's own type *)
  Lemma inout_row_alignment_pos : forall inputs output i inp,
    nth_error inputs i = Some inp -> fl_inout (fi_flags inp) = true ->
    nth_error (fty_outs T H to_hugr type_to_row inputs output)
              (length (type_to_row output) + inout_rank T inputs i)
    = Some (to_hugr (fi_ty inp)).
  Proof.
    intros. unfold fty_outs.
    rewrite nth_error_app2; rewrite map_length; [|lia].
    replace (length (type_to_row output) + inout_rank T inputs i - length (type_to_row output))
      with (inout_rank T inputs i) by lia.
    rewrite nth_error_map. unfold inout_rank, is_inout.
    rewrite (nth_error_filter_rank (fun inp => fl_inout (fi_flags inp)) inputs i inp H0 H1).
    reflexivity.
  Qed.

  (* the k-th borrowed input (counting only inputs that carry Inout) *)
  Lemma inout_row_alignment_kth : forall inputs output k inp,
    nth_error (filter (is_inout T) inputs) k = Some inp ->
    nth_error (fty_outs T H to_hugr type_to_row inputs output) (length (type_to_row output) + k)
    = Some (to_hugr (fi_ty inp)).
  Proof.
    intros. unfold fty_outs.
    rewrite nth_error_app2; rewrite map_length; [|lia].
    replace (length (type_to_row output) + k - length (type_to_row output)) with k by lia.
    rewrite nth_error_map. unfold is_inout in H0. rewrite H0. reflexivity.
  Qed.

  Lemma regular_outputs_first : forall inputs output j t,
    nth_error (type_to_row output) j = Some t ->
    nth_error (fty_outs T H to_hugr type_to_row inputs output) j = Some (to_hugr t).
  Proof.
    intros. unfold fty_outs. rewrite nth_error_app1.
    - rewrite nth_error_map, H0. reflexivity.
    - rewrite map_length. apply nth_error_Some. congruence.
  Qed.

  (* comptime inputs are skipped on the input side, and the argument wires are filtered by
     the same test, so wire number noncomptime_rank(i) belongs to input i *)
  Lemma ins_alignment : forall inputs i inp,
    nth_error inputs i = Some inp -> fl_comptime (fi_flags inp) = false ->
    nth_error (fty_ins T H to_hugr inputs) (noncomptime_rank T inputs i) = Some (to_hugr (fi_ty inp)).
  Proof.
    intros. unfold fty_ins, noncomptime_rank. rewrite nth_error_map.
    rewrite (nth_error_filter_rank (fun inp => negb (fl_comptime (fi_flags inp))) inputs i inp H0).
    - reflexivity.
    - rewrite H1. reflexivity.
  Qed.

  Variable visit : A -> W.

  Lemma filter_combine_snd : forall (f : FuncInput T -> bool) (args : list A) (inputs : list (FuncInput T)),
    length args = length inputs ->
    map snd (filter (fun '(arg, inp) => f inp) (combine args inputs)) = filter f inputs.
  Proof.
    induction args as [|a args IH]; destruct inputs as [|b inputs]; simpl; intros; try discriminate; auto.
    destruct (f b); simpl; rewrite IH by lia; reflexivity.
  Qed.

  Lemma call_args_alignment : forall args inputs ws,
    call_args T A W visit args inputs = Some ws ->
    length args = length inputs /\
    length ws = length (fty_ins T H to_hugr inputs) /\
    forall i a inp, nth_error args i = Some a -> nth_error inputs i = Some inp ->
      fl_comptime (fi_flags inp) = false ->
      nth_error ws (noncomptime_rank T inputs i) = Some (visit a).
  Proof.
    intros args inputs ws Hc. unfold call_args in Hc.
    destruct (zip_strict args inputs) as [z|] eqn:E; try discriminate.
    apply zip_strict_some in E. destruct E as [L ->]. inversion Hc; subst ws; clear Hc.
    split; auto. split.
    - unfold fty_ins. rewrite !map_length.
      rewrite <- (filter_combine_snd (fun inp => negb (fl_comptime (fi_flags inp))) args inputs L).
      rewrite map_length. reflexivity.
    - revert inputs L. induction args as [|a0 args IH]; intros inputs L i a inp Ha Hi Hc.
      + destruct i; discriminate.
      + destruct inputs as [|b inputs]; [discriminate|].
        destruct i as [|i]; simpl in *.
        * inversion Ha; inversion Hi; subst. rewrite Hc. reflexivity.
        * unfold noncomptime_rank. simpl.
          destruct (negb (fl_comptime (fi_flags b))); simpl; apply (IH inputs ltac:(lia) i a inp); auto.
  Qed.
End Align.
