(* C07 — property theorems.  Statements only; proofs are in Proofs*.v. *)
From Coq Require Import List Bool Arith.
From V.C07 Require Import ModelBase GenFuncTy ModelCall ProofsAlign ProofsUpdate.
Import ListNotations.

(* inout_row_alignment.  About the definitions regenerated from
   FunctionType._to_hugr_function_type / _compile_call_args: for every input list,
   (1) the HUGR output row has |row(output)| + #borrowed entries;
   (2) the k-th input carrying Inout is output number |row(output)| + k, with its own type;
   (3) positionally: input i, if borrowed, is output |row(output)| + (#borrowed before i);
   (4) input i, if not comptime, is HUGR input number (#non-comptime before i), and the
       argument wire list built by _compile_call_args puts argument i's wire there. *)
Theorem inout_row_alignment :
  forall (T H A W : Type) (to_hugr : T -> H) (type_to_row : T -> list T) (visit : A -> W)
         (inputs : list (FuncInput T)) (output : T),
    length (fty_outs T H to_hugr type_to_row inputs output)
      = length (type_to_row output) + length (filter (is_inout T) inputs)
    /\ (forall k inp, nth_error (filter (is_inout T) inputs) k = Some inp ->
          nth_error (fty_outs T H to_hugr type_to_row inputs output) (length (type_to_row output) + k)
          = Some (to_hugr (fi_ty inp)))
    /\ (forall i inp, nth_error inputs i = Some inp -> fl_inout (fi_flags inp) = true ->
          nth_error (fty_outs T H to_hugr type_to_row inputs output)
                    (length (type_to_row output) + inout_rank T inputs i)
          = Some (to_hugr (fi_ty inp)))
    /\ (forall i inp, nth_error inputs i = Some inp -> fl_comptime (fi_flags inp) = false ->
          nth_error (fty_ins T H to_hugr inputs) (noncomptime_rank T inputs i) = Some (to_hugr (fi_ty inp)))
    /\ (forall args ws, call_args T A W visit args inputs = Some ws ->
          length ws = length (fty_ins T H to_hugr inputs) /\
          forall i a inp, nth_error args i = Some a -> nth_error inputs i = Some inp ->
            fl_comptime (fi_flags inp) = false ->
            nth_error ws (noncomptime_rank T inputs i) = Some (visit a)).
Proof.
  intros. split; [apply fty_outs_length|]. split; [apply inout_row_alignment_kth|].
  split; [apply inout_row_alignment_pos|]. split; [apply ins_alignment|].
  intros args ws Hc. destruct (call_args_alignment T H A W to_hugr visit args inputs ws Hc) as [_ [L R]]. auto.
Qed.
Print Assumptions inout_row_alignment.

(* non-trivial instance: f(n: comptime, a: borrowed, x: plain, b: borrowed) -> (r0, r1) *)
Example inout_row_alignment_instance :
  let inputs := [mkInput 10 (mkFlags false false true); mkInput 11 (mkFlags true false false);
                 mkInput 12 (mkFlags false false false); mkInput 13 (mkFlags true false false)] in
  fty_ins nat nat (fun t => t) inputs = [11; 12; 13] /\
  fty_outs nat nat (fun t => t) (fun t => [t; t + 1]) inputs 20 = [20; 21; 11; 13] /\
  inout_rank nat inputs 3 = 1 /\ noncomptime_rank nat inputs 3 = 2.
Proof. vm_compute. auto. Qed.

(* writeback_kth.  In the model of _update_inout_ports, the k-th extra returned wire is
   assigned to the k-th borrowed argument's place (arguments that are not places consume
   their wire), in input order; the number of wires must be exactly the number of borrowed
   inputs. *)
Theorem writeback_kth :
  forall (T P W St : Type) (assign : P -> W -> St -> St) inputs args ports s s',
    update_inout_ports T P W St assign inputs args ports s = Some s' ->
    length inputs = length args /\
    length ports = length (filter (is_inout T) inputs) /\
    s' = writeback_spec T P W St assign inputs args ports s.
Proof. exact update_inout_ports_spec. Qed.
Print Assumptions writeback_kth.

Example writeback_kth_instance :
  let inputs := [mkInput 0 (mkFlags true false false); mkInput 0 (mkFlags false false false);
                 mkInput 0 (mkFlags true false false); mkInput 0 (mkFlags true false false)] in
  update_inout_ports nat nat nat (list (nat * nat)) (fun p w s => (p, w) :: s)
     inputs [APlace 7; APlace 8; AExpr; APlace 9] [100; 101; 102] [] = Some [(9, 102); (7, 100)].
Proof. vm_compute. reflexivity. Qed.

(* borrow_roundtrip_alignment.  Callee: exit row = return vars ++ borrowed parameter names
   (insert_return_vars / inout_var_names as generated); it outputs the wires it holds for
   these variables at the exit.  Caller: splits the call outputs at |row(output)|
   (generated split_global_call) and runs the model of _update_inout_ports.  Then every
   borrowed place argument is assigned the callee's final wire of the parameter *at the
   same position*; nothing else is assigned. *)
Theorem borrow_roundtrip_alignment :
  forall (T P W St N : Type) (assign : P -> W -> St -> St) (type_to_row : T -> list T) (final : N -> W)
         inputs output args names inames (rv : list N) reg io s s',
    length names = length inputs ->
    length rv = n_return_vars T type_to_row output ->
    inout_names T N inputs names = Some inames ->
    split_global_call T W type_to_row output (map final (exit_row N rv inames)) = (reg, io) ->
    update_inout_ports T P W St assign inputs args io s = Some s' ->
    reg = map final rv /\
    s' = fold_left (rt_step T P W St N assign final inputs args names) (seq 0 (length inputs)) s.
Proof. exact roundtrip. Qed.
Print Assumptions borrow_roundtrip_alignment.
