(* C07 — property theorems.  Statements only; proofs are in Proofs*.v. *)
From Coq Require Import List Bool Arith.
From V.C07 Require Import ModelBase GenFuncTy ModelCall ProofsAlign ProofsUpdate.
Import ListNotations.

(* inout_row_alignment.  About the definitions regenerated from
   FunctionType._to_hugr_function_type / _compile_call_args: for every input list,
   (1) the HUGR output row has |row(output)| + #borrowed entries;
   (2) the k-th input carrying Inout is output number |row(output)| + k, with its own type;
   (3) positionally: input i, if borrowed, is output |row(output)| + (#borrowed before i);
   (4) input i, if not comptime, is HUGR input number (#non-comptime before i), and the
       argument wire list built by _compile_call_args puts argument i's wire there. *)
Theorem inout_row_alignment :
  forall (T H A W : Type) (to_hugr : T -> H) (type_to_row : T -> list T) (visit : A -> W)
         (inputs : list (FuncInput T)) (output : T),
    length (fty_outs T H to_hugr type_to_row inputs output)
      = length (type_to_row output) + length (filter (is_inout T) inputs)
    /\ (forall k inp, nth_error (filter (is_inout T) inputs) k = Some inp ->
          nth_error (fty_outs T H to_hugr type_to_row inputs output) (length (type_to_row output) + k)
          = Some (to_hugr (fi_ty inp)))
    /\ (forall i inp, nth_error inputs i = Some inp -> fl_inout (fi_flags inp) = true ->
          nth_error (fty_outs T H to_hugr type_to_row inputs output)
                    (length (type_to_row output) + inout_rank T inputs i)
          = Some (to_hugr (fi_ty inp)))
    /\ (forall i inp, nth_error inputs i = Some inp -> fl_comptime (fi_flags inp) = false ->
          nth_error (fty_ins T H to_hugr inputs) (noncomptime_rank T inputs i) = Some (to_hugr (fi_ty inp)))
    /\ (forall args ws, call_args T A W visit args inputs = Some ws ->
          length ws = length (fty_ins T H to_hugr inputs) /\
          forall i a inp, nth_error args i = Some a -> nth_error inputs i = Some inp ->
            fl_comptime (fi_flags inp) = false ->
            nth_error ws (noncomptime_rank T inputs i) = Some (visit a)).
Proof.
  intros. split; [apply fty_outs_length|]. split; [apply inout_row_alignment_kth|].
  split; [apply inout_row_alignment_pos|]. split; [apply ins_alignment|].
  intros args ws Hc. destruct (call_args_alignment T H A W to_hugr visit args inputs ws Hc) as [_ [L R]]. auto.
Qed.
Print Assumptions inout_row_alignment.

(* non-trivial instance: f(n: comptime, a: borrowed, x: plain, b: borrowed) -> (r0, r1) *)
Example inout_row_alignment_instance :
  let inputs := [mkInput 10 (mkFlags false false true); mkInput 11 (mkFlags true false false);
                 mkInput 12 (mkFlags false false false); mkInput 13 (mkFlags true false false)] in
  fty_ins nat nat (fun t => t) inputs = [11; 12; 13] /\
  fty_outs nat nat (fun t => t) (fun t => [t; t + 1]) inputs 20 = [20; 21; 11; 13] /\
  inout_rank nat inputs 3 = 1 /\ noncomptime_rank nat inputs 3 = 2.
Proof. vm_compute. auto. Qed.

(* writeback_kth.  About the loop REGENERATED from ExprCompiler._update_inout_ports
   (GenFuncTy.gen_update_inout_ports; primitive effects abstract): the k-th extra returned wire
   is assigned to the k-th borrowed argument's place -- leaf assignment, then the recorded
   __setitem__ write-back when the place goes through a subscript (assign_of); borrowed
   arguments that are NOT places (temporaries) consume their wire; the order is input order;
   the number of wires must be exactly the number of borrowed inputs. *)
Theorem writeback_kth :
  forall (T P Sub W St : Type) (assign_leaf : P -> W -> St -> St) (contains_sub : P -> option Sub)
         (set_value_var visit_setitem : Sub -> St -> St) inputs args ports s s',
    gen_update_inout_ports T P Sub W St assign_leaf contains_sub set_value_var visit_setitem inputs args ports s = Some s' ->
    length inputs = length args /\
    length ports = length (filter (is_inout T) inputs) /\
    s' = writeback_spec T P W St (assign_of P Sub W St assign_leaf contains_sub set_value_var visit_setitem) inputs args ports s.
Proof. intros until s'. rewrite gen_update_is_model. apply update_inout_ports_spec. Qed.
Print Assumptions writeback_kth.

(* a temporary passed for the first of two same-typed borrowed inputs consumes port 0: the
   place passed second receives port 1 *)
Example writeback_kth_temporary_first :
  let b := mkInput 0 (mkFlags true false false) in
  gen_update_inout_ports nat nat nat nat (list (nat * nat)) (fun p w s => (p, w) :: s) (fun _ => None)
     (fun _ s => s) (fun _ s => s) [b; b] [AExpr; APlace 7] [100; 101] [] = Some [(7, 101)].
Proof. vm_compute. reflexivity. Qed.

Example writeback_kth_instance :
  let inputs := [mkInput 0 (mkFlags true false false); mkInput 0 (mkFlags false false false);
                 mkInput 0 (mkFlags true false false); mkInput 0 (mkFlags true false false)] in
  update_inout_ports nat nat nat (list (nat * nat)) (fun p w s => (p, w) :: s)
     inputs [APlace 7; APlace 8; AExpr; APlace 9] [100; 101; 102] [] = Some [(9, 102); (7, 100)].
Proof. vm_compute. reflexivity. Qed.

(* borrow_roundtrip_alignment.  Callee: exit row = return vars ++ borrowed parameter names
   (insert_return_vars / inout_var_names as generated); it outputs the wires it holds for
   these variables at the exit.  Caller: splits the call outputs at |row(output)|
   (generated split_global_call) and runs the regenerated loop of _update_inout_ports.  Then every
   borrowed place argument is assigned the callee's final wire of the parameter *at the
   same position*; nothing else is assigned. *)
Theorem borrow_roundtrip_alignment :
  forall (T P Sub W St N : Type) (assign_leaf : P -> W -> St -> St) (contains_sub : P -> option Sub)
         (set_value_var visit_setitem : Sub -> St -> St) (type_to_row : T -> list T) (final : N -> W)
         inputs output args names inames (rv : list N) reg io s s',
    length names = length inputs ->
    length rv = n_return_vars T type_to_row output ->
    inout_names T N inputs names = Some inames ->
    split_global_call T W type_to_row output (map final (exit_row N rv inames)) = (reg, io) ->
    gen_update_inout_ports T P Sub W St assign_leaf contains_sub set_value_var visit_setitem inputs args io s = Some s' ->
    reg = map final rv /\
    s' = fold_left (rt_step T P W St N (assign_of P Sub W St assign_leaf contains_sub set_value_var visit_setitem)
                            final inputs args names) (seq 0 (length inputs)) s.
Proof. intros until s'. rewrite gen_update_is_model. apply roundtrip. Qed.
Print Assumptions borrow_roundtrip_alignment.

(* all four sites that split a call's outputs into regular and borrowed returns use the same
   split (LocalCall, TensorCall, compile_call of function.py and traced.py) *)
Theorem split_sites_agree :
  forall (T W : Type) (type_to_row : T -> list T) output outs,
    split_local_call T W type_to_row output outs = split_global_call T W type_to_row output outs /\
    split_tensor_call T W type_to_row output outs = split_global_call T W type_to_row output outs /\
    split_traced_call T W type_to_row output outs = split_global_call T W type_to_row output outs.
Proof. intros. repeat split; reflexivity. Qed.
Print Assumptions split_sites_agree.

From V.C07 Require Import ModelDfc ModelSem ProofsSem.

(* writeback_semantics_partial.  Store-passing semantics over value trees (struct fields,
   tuple elements, statically indexed elements).  A callee body is a sequence of in-place
   updates `x_k.q := g(x_k.q)` of sub-places of its parameters.  If the caller lends
   pairwise disjoint places rho of its store sigma (no aliasing), then
     - running the body by reference on sigma (Python's semantics for mutable objects) and
     - the compiled call: copy the values out, run the body on the copies, write output k
       back to the k-th lent place (vr_call)
   both succeed, and in both resulting stores every lent place holds the callee's final value
   of the corresponding parameter, every place below a lent place has the same value, and
   every place disjoint from all lent places is unchanged.
   PARTIAL: (1) callee bodies have no nested calls and no control flow (nested borrowing
   calls are covered per call by borrow_roundtrip_alignment and at the HUGR level by the
   correspondence harness); (2) equality of the two stores on proper ancestors of lent places
   is not derived (it needs extensionality of value trees); (3) dynamically indexed array
   elements are not in this semantics. *)
Theorem writeback_semantics_partial :
  forall (prim : nat -> val -> val) body sigma rho vs outs,
    view sigma rho vs -> disjoint_places rho ->
    vr_exec prim body (VProd vs) = Some (VProd outs) ->
    exists sigma_ref,
      ref_exec prim rho body sigma = Some sigma_ref /\
      vr_call prim rho body sigma = Some (writeback sigma rho outs) /\
      view sigma_ref rho outs /\ view (writeback sigma rho outs) rho outs /\
      (forall b, outside rho b -> vget sigma_ref b = vget sigma b /\ vget (writeback sigma rho outs) b = vget sigma b) /\
      (forall k r q, nth_error rho k = Some r ->
         vget sigma_ref (r ++ q) = vget (writeback sigma rho outs) (r ++ q)).
Proof. exact semantics_agree. Qed.
Print Assumptions writeback_semantics_partial.

(* instance: store ((q0,q1),(q2,q3),q4); the caller lends .1.0 and .0.1 (same type, swapped
   order); the callee applies g=7 to its parameter 0 and g=8 to parameter 1, twice *)
Example writeback_semantics_instance :
  let A := fun n => VAtom (AIn n []) in
  let prim := fun g v => match v with VAtom (AIn n p) => VAtom (AIn (n * 10 + g) p) | _ => v end in
  let sigma := VProd [VProd [A 0; A 1]; VProd [A 2; A 3]; A 4] in
  let rho := [[1; 0]; [0; 1]] in
  let body := [SPrim 7 [0]; SPrim 8 [1]; SPrim 7 [1]] in
  view sigma rho [A 2; A 1] /\
  ref_exec prim rho body sigma = Some (VProd [VProd [A 0; A 187]; VProd [A 27; A 3]; A 4]) /\
  vr_call prim rho body sigma = Some (VProd [VProd [A 0; A 187]; VProd [A 27; A 3]; A 4]).
Proof.
  cbv zeta. split; [|split; vm_compute; reflexivity].
  split; [reflexivity|]. intros [|[|k]] r v H1 H2; simpl in *; inversion H1; inversion H2; subst; try reflexivity.
  destruct k; discriminate.
Qed.

(* the DFContainer model on the program of corpus/stale_packed_parent.json: the struct is
   moved, re-assigned field by field, the fields are lent in swapped order, the struct is
   returned.  The returned struct is built from the call's borrowed outputs. *)
Example dfc_repack_after_leaf_writeback :
  let Q := TAtom true in
  let te := fun x => match x with 0 => TProd [Q; Q] | _ => TAtom false end in
  let b := mkInput Q (mkFlags true false false) in
  run_function te (fun _ => IConst 0) [0]
    [mkCall 11 [mkInput (TProd [Q; Q]) (mkFlags false true false)] [CPlace (PVar 0)] 0 None;
     mkCall 12 [] [] 1 (Some (PChild (PVar 0) 0));
     mkCall 12 [] [] 1 (Some (PChild (PVar 0) 1));
     mkCall 10 [b; b] [CPlace (PChild (PVar 0) 1); CPlace (PChild (PVar 0) 0)] 1 None] [0]
  = Some ([VProd [VAtom (AOut 3 2 []); VAtom (AOut 3 1 [])]],
          [Ev 11 [VProd [VAtom (AIn 0 [0]); VAtom (AIn 0 [1])]]; Ev 12 []; Ev 12 [];
           Ev 10 [VAtom (AOut 2 0 []); VAtom (AOut 1 0 [])]]).
Proof. vm_compute. reflexivity. Qed.

(* Why a callee that REBINDS a borrowed parameter must be rejected (BorrowShadowedError): the
   compiled protocol returns the callee's variable, so after `def cal(xs): xs = fresh` the
   caller's write-back stores `fresh` at the lent place, whereas under Python's reference
   semantics rebinding a parameter leaves the caller's object untouched (ref_exec of the empty
   list of in-place updates).  The stores differ, so no write-back protocol of this shape can be
   right for such a callee; the statement language of writeback_semantics_partial has no
   rebinding, and the checker's rejection of every rebinding form is checked on every run
   (props/C07/gen_extra.py rebind_cases). *)
Example rebind_is_observable :
  let A := fun n => VAtom (AIn n []) in
  let sigma := VProd [A 0; A 1] in
  ref_exec (fun _ v => v) [[0]] [] sigma = Some sigma /\
  writeback sigma [[0]] [A 7] = VProd [A 7; A 1] /\
  writeback sigma [[0]] [A 7] <> sigma.
Proof. cbv zeta. repeat split; try reflexivity. vm_compute. discriminate. Qed.

(* comprehension_carries_every_used_place.  About the loop regenerated from
   BBLinearityChecker._check_comprehension (GenFuncTy.used_outer_places / returned_leaves):
   every place of the outer scope that the comprehension body uses -- copyable or not -- is in
   gen.used_outer_places (and is therefore an input and an output of the TailLoop that the
   compiler builds from that list), in order of use; and every leaf of every BORROWED place is
   marked as implicitly returned.  The compiled effect -- each leaf of a lent place is loop-carried
   -- is checked on the HUGR on every run (gen_extra.comprehension_cases). *)
Theorem comprehension_carries_every_used_place :
  forall (X Pl U : Type) (inner_scope : X -> Pl) (is_borrow : U -> bool) (leaf_places : Pl -> list Pl)
         (used_parent : list (X * U)),
    length (used_outer_places X Pl U inner_scope used_parent) = length used_parent /\
    (forall x use, In (x, use) used_parent -> In (inner_scope x) (used_outer_places X Pl U inner_scope used_parent)) /\
    (forall x use leaf, In (x, use) used_parent -> is_borrow use = true -> In leaf (leaf_places (inner_scope x)) ->
       In leaf (returned_leaves X Pl U inner_scope is_borrow leaf_places used_parent)).
Proof.
  intros. unfold used_outer_places, returned_leaves. split; [apply map_length|]. split.
  - intros x use H. apply in_map_iff. exists (x, use). auto.
  - intros x use leaf H B L. apply in_flat_map. exists (x, use). split; auto. simpl. rewrite B. exact L.
Qed.
Print Assumptions comprehension_carries_every_used_place.
