(* C07 — hand-written model of ExprCompiler._update_inout_ports (expr_compiler.py).
   No proofs here.  The store and its assignment operation are parameters: ModelDfc.v gives
   the DFContainer instance. *)
From Coq Require Import List Bool Arith.
From V.C07 Require Import ModelBase.
Import ListNotations.

(* an argument expression is a PlaceNode or anything else *)
Inductive arg (P : Type) := APlace (p : P) | AExpr.
Arguments APlace {P}.
Arguments AExpr {P}.

Section Upd.
  Variables T P W St : Type.
  (* `self.dfg[arg.place] = wire` followed, for places through a subscript, by the recorded
     __setitem__ call (see ModelDfc.assign_place) *)
  Variable assign : P -> W -> St -> St.

  (* for inp, arg in zip(func_ty.inputs, args, strict=True):
         if Inout in inp.flags:
             if not isinstance(arg, PlaceNode): next(inout_ports); continue
             self.dfg[arg.place] = next(inout_ports) ; ...                                  *)
  Fixpoint update_inout (zs : list (FuncInput T * arg P)) (ports : list W) (s : St)
    : option (St * list W) :=
    match zs with
    | [] => Some (s, ports)
    | (inp, a) :: zs' =>
        if fl_inout (fi_flags inp) then
          match ports with
          | [] => None                                   (* next() on an exhausted iterator *)
          | w :: ports' =>
              match a with
              | APlace p => update_inout zs' ports' (assign p w s)
              | AExpr => update_inout zs' ports' s
              end
          end
        else update_inout zs' ports s
    end.

  (* ... assert next(inout_ports, None) is None *)
  Definition update_inout_ports (inputs : list (FuncInput T)) (args : list (arg P))
             (ports : list W) (s : St) : option St :=
    match zip_strict inputs args with
    | None => None
    | Some zs => match update_inout zs ports s with
                 | Some (s', []) => Some s'
                 | _ => None
                 end
    end.
End Upd.

(* ---- specification vocabulary, written with indices only -------------------------------- *)
Section Spec.
  Variable T : Type.
  Definition is_inout (inp : FuncInput T) : bool := fl_inout (fi_flags inp).
  (* number of borrowed inputs strictly before position i *)
  Definition inout_rank (inputs : list (FuncInput T)) (i : nat) : nat :=
    length (filter is_inout (firstn i inputs)).
  Definition noncomptime_rank (inputs : list (FuncInput T)) (i : nat) : nat :=
    length (filter (fun inp => negb (fl_comptime (fi_flags inp))) (firstn i inputs)).
End Spec.
