(* C07 — the model of _update_inout_ports assigns the k-th extra returned wire to the k-th
   borrowed argument's place; combined with the generated row definitions this gives the
   caller/callee round trip. *)
From Coq Require Import List Bool Arith Lia.
From V.C07 Require Import ModelBase GenFuncTy ModelCall ProofsAlign.
Import ListNotations.

Section UpdSpec.
  Variables T P W St : Type.
  Variable assign : P -> W -> St -> St.

  (* index-only description of the write-back: walk over the input positions; position i
     gets port number inout_rank(i) when input i is borrowed and argument i is a place *)
  Definition wb_step (inputs : list (FuncInput T)) (args : list (arg P)) (ports : list W) (s : St) (i : nat) : St :=
    match nth_error inputs i, nth_error args i with
    | Some inp, Some (APlace p) =>
        if is_inout T inp then
          match nth_error ports (inout_rank T inputs i) with Some w => assign p w s | None => s end
        else s
    | _, _ => s
    end.
  Definition writeback_spec inputs args ports (s : St) : St :=
    fold_left (wb_step inputs args ports) (seq 0 (length inputs)) s.

  Lemma fold_left_ext_in : forall {X Y} (f g : X -> Y -> X) l s,
    (forall s y, In y l -> f s y = g s y) -> fold_left f l s = fold_left g l s.
  Proof.
    induction l; simpl; intros; auto. rewrite H by auto. apply IHl. intros; apply H; auto.
  Qed.

  Lemma fold_seq_shift : forall {X} (f : X -> nat -> X) n s,
    fold_left f (seq 1 n) s = fold_left (fun s i => f s (S i)) (seq 0 n) s.
  Proof.
    intros. rewrite <- seq_shift. generalize (seq 0 n). intro l. revert s.
    induction l; simpl; auto.
  Qed.

  Lemma update_inout_spec : forall inputs args zs ports s s' rest,
    zip_strict inputs args = Some zs ->
    update_inout T P W St assign zs ports s = Some (s', rest) ->
    exists used, ports = used ++ rest /\ length used = length (filter (is_inout T) inputs)
                 /\ s' = writeback_spec inputs args ports s.
  Proof.
    induction inputs as [|inp inputs IH]; intros args zs ports s s' rest Hz Hu.
    - destruct args; simpl in Hz; try discriminate. inversion Hz; subst. simpl in Hu.
      inversion Hu; subst. exists []. auto.
    - destruct args as [|a args]; simpl in Hz; try discriminate.
      destruct (zip_strict inputs args) as [zs'|] eqn:E; simpl in Hz; try discriminate.
      inversion Hz; subst zs; clear Hz. simpl in Hu.
      unfold writeback_spec. simpl length. simpl seq. simpl fold_left.
      rewrite fold_seq_shift.
      destruct (fl_inout (fi_flags inp)) eqn:Fi;
        assert (Fi' : is_inout T inp = fl_inout (fi_flags inp)) by reflexivity; rewrite Fi in Fi'.
      + destruct ports as [|w ports]; try discriminate.
        assert (Hstep : forall s0, (match a with APlace p => assign p w s0 | AExpr => s0 end)
                        = wb_step (inp :: inputs) (a :: args) (w :: ports) s0 0).
        { intro. unfold wb_step. simpl. rewrite Fi'. destruct a; reflexivity. }
        assert (Hu' : update_inout T P W St assign zs' ports
                        (wb_step (inp :: inputs) (a :: args) (w :: ports) s 0) = Some (s', rest)).
        { rewrite <- Hstep. destruct a; exact Hu. }
        destruct (IH _ _ _ _ _ _ E Hu') as [used [Hp [Hl Hs]]].
        exists (w :: used). simpl. rewrite Fi'. simpl. split; [congruence|]. split; [lia|].
        rewrite Hs. unfold writeback_spec. apply fold_left_ext_in. intros s0 i _.
        unfold wb_step. simpl. unfold inout_rank. simpl. rewrite Fi'. simpl. reflexivity.
      + assert (Hstep : s = wb_step (inp :: inputs) (a :: args) ports s 0).
        { unfold wb_step. simpl. rewrite Fi'. destruct a; reflexivity. }
        rewrite <- Hstep.
        destruct (IH _ _ _ _ _ _ E Hu) as [used [Hp [Hl Hs]]].
        exists used. simpl. rewrite Fi'. split; auto. split; auto.
        rewrite Hs. unfold writeback_spec. apply fold_left_ext_in. intros s0 i _.
        unfold wb_step. simpl. unfold inout_rank. simpl. rewrite Fi'. simpl. reflexivity.
  Qed.

  Lemma update_inout_ports_spec : forall inputs args ports s s',
    update_inout_ports T P W St assign inputs args ports s = Some s' ->
    length inputs = length args /\
    length ports = length (filter (is_inout T) inputs) /\
    s' = writeback_spec inputs args ports s.
  Proof.
    unfold update_inout_ports. intros.
    destruct (zip_strict inputs args) as [zs|] eqn:E; try discriminate.
    destruct (update_inout T P W St assign zs ports s) as [[s1 rest]|] eqn:U; try discriminate.
    destruct rest; try discriminate. inversion H; subst s1.
    destruct (update_inout_spec _ _ _ _ _ _ _ E U) as [used [Hp [Hl Hs]]].
    apply zip_strict_some in E. destruct E as [L _].
    rewrite app_nil_r in Hp. subst used. auto.
  Qed.

  (* conversely the model succeeds whenever the lengths are right (no spurious failure) *)
  Lemma update_inout_total : forall inputs args zs ports s,
    zip_strict inputs args = Some zs ->
    length (filter (is_inout T) inputs) <= length ports ->
    exists s' rest, update_inout T P W St assign zs ports s = Some (s', rest)
                    /\ length rest = length ports - length (filter (is_inout T) inputs).
  Proof.
    induction inputs as [|inp inputs IH]; intros args zs ports s Hz Hl.
    - destruct args; simpl in Hz; try discriminate. inversion Hz; subst. simpl. eexists _, _. split; eauto. simpl. lia.
    - destruct args as [|a args]; simpl in Hz; try discriminate.
      destruct (zip_strict inputs args) as [zs'|] eqn:E; simpl in Hz; try discriminate.
      inversion Hz; subst zs; clear Hz. simpl in *. unfold is_inout in Hl at 1.
      destruct (fl_inout (fi_flags inp)) eqn:Fi; simpl in Hl.
      + destruct ports as [|w ports]; simpl in Hl; [lia|].
        destruct a; (edestruct (IH args zs' ports) as [s' [rest [H1 H2]]]; [exact E|lia|]);
          eexists _, _; (split; [exact H1|]); unfold is_inout at 1; rewrite Fi; simpl; lia.
      + edestruct (IH args zs' ports) as [s' [rest [H1 H2]]]; [exact E|lia|].
        eexists _, _. split; [exact H1|]. unfold is_inout at 1. rewrite Fi. simpl. lia.
  Qed.
End UpdSpec.

(* ---- caller / callee round trip ------------------------------------------------------- *)
Section RoundTrip.
  Variables T P W St N : Type.
  Variable assign : P -> W -> St -> St.
  Variable type_to_row : T -> list T.
  Variable final : N -> W.          (* the wire the callee holds for a variable at its exit *)

  Definition rt_step (inputs : list (FuncInput T)) (args : list (arg P)) (names : list N) (s : St) (i : nat) : St :=
    match nth_error inputs i, nth_error args i, nth_error names i with
    | Some inp, Some (APlace p), Some x => if is_inout T inp then assign p (final x) s else s
    | _, _, _ => s
    end.

  Lemma inout_names_nth : forall (inputs : list (FuncInput T)) (names inames : list N) i inp x,
    inout_names T N inputs names = Some inames ->
    nth_error inputs i = Some inp -> nth_error names i = Some x -> is_inout T inp = true ->
    nth_error inames (inout_rank T inputs i) = Some x.
  Proof.
    unfold inout_names. intros inputs names inames i inp x H.
    destruct (zip_strict inputs names) as [z|] eqn:E; try discriminate.
    apply zip_strict_some in E. destruct E as [L ->]. inversion H; subst inames; clear H.
    revert names L i. induction inputs as [|b inputs IH]; intros names L i Hi Hn Hf.
    - destruct i; discriminate.
    - destruct names as [|y names]; [discriminate|].
      destruct i as [|i]; simpl in *.
      + inversion Hi; inversion Hn; subst. unfold is_inout in Hf. rewrite Hf. reflexivity.
      + unfold inout_rank. simpl. unfold is_inout at 1.
        destruct (fl_inout (fi_flags b)); simpl; apply (IH names ltac:(lia) i); auto.
  Qed.

  Theorem roundtrip : forall inputs output args names inames (rv : list N) reg io s s',
    length names = length inputs ->
    length rv = n_return_vars T type_to_row output ->
    inout_names T N inputs names = Some inames ->
    split_global_call T W type_to_row output (map final (exit_row N rv inames)) = (reg, io) ->
    update_inout_ports T P W St assign inputs args io s = Some s' ->
    reg = map final rv /\
    s' = fold_left (rt_step inputs args names) (seq 0 (length inputs)) s.
  Proof.
    intros inputs output args names inames rv reg io s s' Ln Lr Hn Hs Hu.
    unfold split_global_call, exit_row, n_return_vars in *.
    rewrite map_app in Hs. rewrite <- Lr in Hs. rewrite <- (map_length final rv) in Hs.
    rewrite firstn_app, Nat.sub_diag, firstn_all in Hs. simpl in Hs. rewrite app_nil_r in Hs.
    rewrite skipn_app, Nat.sub_diag, skipn_all in Hs. simpl in Hs.
    inversion Hs; subst reg io; clear Hs. split; auto.
    apply update_inout_ports_spec in Hu. destruct Hu as [La [Lp ->]].
    unfold writeback_spec. apply fold_left_ext_in. intros s0 i Hi.
    unfold wb_step, rt_step.
    destruct (nth_error inputs i) as [inp|] eqn:Ei; auto.
    destruct (nth_error args i) as [[p|]|] eqn:Ea; auto.
    destruct (nth_error names i) as [x|] eqn:Ex.
    - destruct (is_inout T inp) eqn:Fi; auto.
      rewrite nth_error_map. rewrite (inout_names_nth inputs names inames i inp x Hn Ei Ex Fi). reflexivity.
    - exfalso. apply nth_error_None in Ex. assert (i < length inputs) by (apply nth_error_Some; congruence). lia.
  Qed.
End RoundTrip.

(* ---- the loop regenerated from ExprCompiler._update_inout_ports is the hand model -------- *)
Section GenIsModel.
  Variables T P Sub W St : Type.
  Variable assign_leaf : P -> W -> St -> St.
  Variable contains_sub : P -> option Sub.
  Variable set_value_var : Sub -> St -> St.
  Variable visit_setitem : Sub -> St -> St.

  (* what one borrowed place receives: the leaf assignment, then (for a place through a
     subscript) the recorded __setitem__ write-back *)
  Definition assign_of (p : P) (w : W) (s : St) : St :=
    let s := assign_leaf p w s in
    match contains_sub p with
    | Some sub => visit_setitem sub (set_value_var sub s)
    | None => s
    end.

  Lemma upd_loop_is_model : forall zs s ports,
    upd_loop T P Sub W St assign_leaf contains_sub set_value_var visit_setitem zs s ports
    = update_inout T P W St assign_of zs ports s.
  Proof.
    induction zs as [|[inp a] zs IH]; intros s ports; simpl; auto.
    unfold upd_step. destruct (fl_inout (fi_flags inp)).
    - destruct a as [p|]; destruct ports as [|w ports]; auto.
      + rewrite <- IH. unfold assign_of. destruct (contains_sub p); reflexivity.
    - apply IH.
  Qed.

  Lemma gen_update_is_model : forall inputs args ports s,
    gen_update_inout_ports T P Sub W St assign_leaf contains_sub set_value_var visit_setitem inputs args ports s
    = update_inout_ports T P W St assign_of inputs args ports s.
  Proof.
    intros. unfold gen_update_inout_ports, update_inout_ports.
    destruct (zip_strict inputs args); auto. rewrite upd_loop_is_model. reflexivity.
  Qed.
End GenIsModel.
