(* C07 — two semantics for borrowing calls on mutable records (struct fields, tuple
   elements, statically indexed elements), both over value trees.  No proofs here.

   reference semantics (Python): one store; a callee frame binds parameter k to a reference
     rho_k (the access path of the object the caller passed); `x_k.q := g(x_k.q)` mutates the
     store in place at rho_k ++ q.
   value-result semantics (what the compiler emits): the callee receives the values, works
     on its own frame VProd [v_0; ...], returns the final parameter values; the caller writes
     output k back to the place it lent (ModelCall.update_inout_ports / ModelDfc.dset). *)
From Coq Require Import List Bool Arith.
From V.C07 Require Import ModelDfc.
Import ListNotations.

Definition path := list nat.

Fixpoint vget (v : val) (p : path) : option val :=
  match p with
  | [] => Some v
  | i :: p' => match v with
               | VProd vs => match nth_error vs i with Some c => vget c p' | None => None end
               | VAtom _ => None
               end
  end.

Fixpoint upd_nth {A} (l : list A) (i : nat) (x : A) : list A :=
  match l, i with
  | [], _ => []
  | _ :: r, 0 => x :: r
  | y :: r, S i' => y :: upd_nth r i' x
  end.

Fixpoint vput (v : val) (p : path) (nv : val) : val :=
  match p with
  | [] => nv
  | i :: p' => match v with
               | VProd vs => match nth_error vs i with
                             | Some c => VProd (upd_nth vs i (vput c p' nv))
                             | None => v
                             end
               | VAtom _ => v
               end
  end.

(* two places are disjoint when neither is a prefix of the other *)
Fixpoint disj (a b : path) : bool :=
  match a, b with
  | i :: a', j :: b' => if Nat.eqb i j then disj a' b' else true
  | _, _ => false
  end.

(* callee body: in-place updates of sub-places of its parameters.  `SPrim g (k :: q)`
   applies primitive g (a gate, an element assignment) to parameter k at q. *)
Inductive stmt := SPrim (g : nat) (p : path).

Section Sem.
  Variable prim : nat -> val -> val.

  Definition resolve (rho : list path) (p : path) : option path :=
    match p with
    | k :: q => match nth_error rho k with Some r => Some (r ++ q) | None => None end
    | [] => None
    end.

  Fixpoint ref_exec (rho : list path) (body : list stmt) (sigma : val) : option val :=
    match body with
    | [] => Some sigma
    | SPrim g p :: rest =>
        match resolve rho p with
        | Some a => match vget sigma a with
                    | Some v => ref_exec rho rest (vput sigma a (prim g v))
                    | None => None
                    end
        | None => None
        end
    end.

  Fixpoint vr_exec (body : list stmt) (frame : val) : option val :=
    match body with
    | [] => Some frame
    | SPrim g p :: rest =>
        match p with
        | [] => None
        | _ :: _ => match vget frame p with
                    | Some v => vr_exec rest (vput frame p (prim g v))
                    | None => None
                    end
        end
    end.

  (* the caller's write-back: output k goes to the k-th lent place *)
  Fixpoint writeback (sigma : val) (rho : list path) (outs : list val) : val :=
    match rho, outs with
    | r :: rho', o :: outs' => writeback (vput sigma r o) rho' outs'
    | _, _ => sigma
    end.

  (* the compiled call: read the lent places, run the callee on the values, write back *)
  Definition vr_call (rho : list path) (body : list stmt) (sigma : val) : option val :=
    match (fix rd (rho : list path) : option (list val) :=
             match rho with
             | [] => Some []
             | r :: rho' => match vget sigma r, rd rho' with
                            | Some v, Some vs => Some (v :: vs)
                            | _, _ => None
                            end
             end) rho with
    | None => None
    | Some vs => match vr_exec body (VProd vs) with
                 | Some (VProd outs) => Some (writeback sigma rho outs)
                 | _ => None
                 end
    end.
End Sem.

(* view of the store through the lent places *)
Definition view (sigma : val) (rho : list path) (vs : list val) : Prop :=
  length rho = length vs /\
  forall k r v, nth_error rho k = Some r -> nth_error vs k = Some v -> vget sigma r = Some v.

Definition disjoint_places (rho : list path) : Prop :=
  forall i j ri rj, i <> j -> nth_error rho i = Some ri -> nth_error rho j = Some rj -> disj ri rj = true.

Definition outside (rho : list path) (b : path) : Prop :=
  forall k r, nth_error rho k = Some r -> disj r b = true.
