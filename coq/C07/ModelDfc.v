(* C07 — hand-written executable model of
     compiler/core.py      DFContainer.__getitem__ / __setitem__   (dget / dset)
     compiler/expr_compiler.py  visit_PlaceNode (visit_place), the write-back half of
                           _update_inout_ports incl. the recorded __setitem__ (assign_place),
                           call compilation (exec_call)
   Wires are modelled by the value trees they denote: a wire of struct/tuple type is the
   tree of its leaves (MakeTuple = VProd, UnpackTuple = children), leaves are symbolic atoms
   naming the producing port.  No proofs here. *)
From Coq Require Import List Bool Arith.
From V.C07 Require Import ModelBase ModelCall.
Import ListNotations.

Inductive ty :=
| TAtom (lin : bool)                 (* qubit (lin), int, ... *)
| TArr (elem : ty)                   (* array: opaque to DFContainer, subscriptable *)
| TProd (ts : list ty).              (* struct or tuple: ordered children *)

Fixpoint is_lin (t : ty) : bool :=
  match t with
  | TAtom l => l
  | TArr e => is_lin e
  | TProd ts => existsb is_lin ts
  end.

Inductive place :=
| PVar (x : nat)
| PChild (p : place) (i : nat)       (* FieldAccess / TupleAccess *)
| PSub (p : place) (item : nat).     (* SubscriptAccess; item = its (fresh) index variable *)

Fixpoint place_eqb (p q : place) : bool :=
  match p, q with
  | PVar x, PVar y => Nat.eqb x y
  | PChild p i, PChild q j => place_eqb p q && Nat.eqb i j
  | PSub p i, PSub q j => place_eqb p q && Nat.eqb i j
  | _, _ => false
  end.

Inductive atom :=
| AIn (x : nat) (path : list nat)                (* leaf `path` of the function's input x *)
| AOut (ev port : nat) (path : list nat)         (* leaf of output `port` of event `ev` *)
| AIdx (x : nat)                                 (* the index value held by item variable x *)
| AConst (c : nat)                               (* any non-place argument expression *)
| ABad.                                          (* unpacking something that is not a tuple *)

Inductive val := VAtom (a : atom) | VProd (vs : list val).

Definition vchild (v : val) (i : nat) : val :=
  match v with VProd vs => nth i vs (VAtom ABad) | VAtom _ => VAtom ABad end.

(* eta-expansion of a port of type t into its leaves *)
Fixpoint expand (t : ty) (mk : list nat -> atom) (path : list nat) : val :=
  match t with
  | TProd ts =>
      VProd ((fix go (ts : list ty) (i : nat) : list val :=
                match ts with [] => [] | t' :: r => expand t' mk (path ++ [i]) :: go r (S i) end) ts 0)
  | _ => VAtom (mk path)
  end.

Definition locals := list (place * val).
Fixpoint lookup (p : place) (l : locals) : option val :=
  match l with [] => None | (q, v) :: r => if place_eqb p q then Some v else lookup p r end.
Definition remove (p : place) (l : locals) : locals :=
  filter (fun qv => negb (place_eqb p (fst qv))) l.

(* type environment: types of variables; item variables have no entry *)
Definition tenv := nat -> ty.
Fixpoint type_of (te : tenv) (p : place) : ty :=
  match p with
  | PVar x => te x
  | PChild q i => match type_of te q with TProd ts => nth i ts (TAtom false) | _ => TAtom false end
  | PSub q _ => match type_of te q with TArr e => e | _ => TAtom false end
  end.

(* the fix of props/C07/fix-1.patch: a leaf assignment forgets the wires cached for the
   enclosing structs / tuples *)
Fixpoint pop_ancestors (p : place) (l : locals) : locals :=
  match p with
  | PChild q _ => pop_ancestors q (remove q l)
  | _ => l
  end.

(* DFContainer.__setitem__ *)
Fixpoint dset (t : ty) (p : place) (v : val) (l : locals) : locals :=
  match t with
  | TProd ts =>
      remove p ((fix go (ts : list ty) (i : nat) (l : locals) : locals :=
                   match ts with [] => l | t' :: r => go r (S i) (dset t' (PChild p i) (vchild v i) l) end) ts 0 l)
  | _ => pop_ancestors p ((p, v) :: remove p l)
  end.

(* DFContainer.__getitem__ : None = InternalGuppyError("Couldn't obtain a port") *)
Fixpoint dget (t : ty) (p : place) (l : locals) : option (val * locals) :=
  match lookup p l with
  | Some v => Some (v, l)
  | None =>
      match t with
      | TProd ts =>
          match (fix go (ts : list ty) (i : nat) (l : locals) : option (list val * locals) :=
                   match ts with
                   | [] => Some ([], l)
                   | t' :: r =>
                       match dget t' (PChild p i) l with
                       | None => None
                       | Some (v, l1) =>
                           match go r (S i) l1 with
                           | None => None
                           | Some (vs, l2) => Some (v :: vs, l2)
                           end
                       end
                   end) ts 0 l with
          | None => None
          | Some (vs, l1) =>
              let l2 := (fix pop (ts : list ty) (i : nat) (l : locals) : locals :=
                           match ts with
                           | [] => l
                           | t' :: r => pop r (S i) (if is_lin t' then remove (PChild p i) l else l)
                           end) ts 0 l1 in
              Some (VProd vs, (p, VProd vs) :: l2)
          end
      | _ => None
      end
  end.

(* contains_subscript: the rightmost subscript of a place *)
Fixpoint contains_subscript (p : place) : option (place * nat) :=
  match p with
  | PVar _ => None
  | PSub q item => Some (q, item)
  | PChild q _ => contains_subscript q
  end.

(* an event = one non-structural HUGR node: a Call, a borrow_arr.borrow / .return, a gate *)
Inductive event := Ev (name : nat) (ins : list val).
Definition EV_BORROW := 1.   (* collections.borrow_arr.borrow : (arr, idx) -> (arr, elem) *)
Definition EV_RETURN := 2.   (* collections.borrow_arr.return : (arr, idx, elem) -> arr *)

(* the index expression of a subscript's item variable *)
Inductive iexpr :=
| IParam (k : nat)                  (* a local int variable: the function's k-th input *)
| IConst (c : nat)                  (* a literal *)
| ICall (name : nat) (arg : option nat).   (* an opaque (possibly effectful) call f() / f(<k-th input>) *)
Definition ienv := nat -> iexpr.

(* st_items: the item variables already evaluated in this DFG (`subscript.item in self.dfg`) *)
Record state := mkState { st_locals : locals; st_trace : list event; st_items : list (nat * val) }.

Definition emit (e : event) (s : state) : nat * state :=
  (length (st_trace s), mkState (st_locals s) (st_trace s ++ [e]) (st_items s)).

Definition set_locals (l : locals) (s : state) : state := mkState l (st_trace s) (st_items s).

Fixpoint lookup_item (x : nat) (l : list (nat * val)) : option val :=
  match l with [] => None | (y, v) :: r => if Nat.eqb x y then Some v else lookup_item x r end.

(* if subscript.item not in self.dfg: self.dfg[subscript.item] = self.visit(subscript.item_expr) *)
Definition eval_item (ie : ienv) (item : nat) (s : state) : val * state :=
  match lookup_item item (st_items s) with
  | Some v => (v, s)
  | None =>
      let '(v, s1) :=
        match ie item with
        | IParam k => (VAtom (AIn k []), s)
        | IConst c => (VAtom (AConst c), s)
        | ICall name a =>
            let ins := match a with Some k => [VAtom (AIn k [])] | None => [] end in
            let '(ev, s1) := emit (Ev name ins) s in (VAtom (AOut ev 0 []), s1)
        end in
      (v, mkState (st_locals s1) (st_trace s1) ((item, v) :: st_items s1))
  end.

(* visit_PlaceNode and the write-back of one borrowed place, mutually recursive through the
   __getitem__ / __setitem__ calls on the parent of a subscript.  Fuel = nesting depth. *)
Fixpoint visit_place (fuel : nat) (te : tenv) (ie : ienv) (p : place) (s : state) : option (val * state) :=
  match fuel with
  | 0 => None
  | S fuel' =>
      let fin (s : state) :=
        match dget (type_of te p) p (st_locals s) with
        | Some (v, l) => Some (v, set_locals l s)
        | None => None
        end in
      match contains_subscript p with
      | None => fin s
      | Some (parent, item) =>
          (* the index is evaluated once, before the parent; then
             self.dfg[subscript] = self.visit(subscript.getitem_call)
             getitem(parent [borrowed], item) -> elem *)
          let '(idx, s0) := eval_item ie item s in
          match visit_place fuel' te ie parent s0 with
          | None => None
          | Some (arrv, s1) =>
              let '(ev, s2) := emit (Ev EV_BORROW [arrv; idx]) s1 in
              let arr' := expand (type_of te parent) (AOut ev 0) [] in
              let elt := expand (type_of te (PSub parent item)) (AOut ev 1) [] in
              match assign_place fuel' te ie parent arr' s2 with
              | None => None
              | Some s3 =>
                  fin (set_locals (dset (type_of te (PSub parent item)) (PSub parent item) elt (st_locals s3)) s3)
              end
          end
      end
  end
with assign_place (fuel : nat) (te : tenv) (ie : ienv) (p : place) (v : val) (s : state) : option state :=
  match fuel with
  | 0 => None
  | S fuel' =>
      let s1 := set_locals (dset (type_of te p) p v (st_locals s)) s in
      match contains_subscript p with
      | None => Some s1
      | Some (parent, item) =>
          (* self.dfg[value_var] = self.dfg[subscript]; self.visit(setitem_call.call) *)
          let sub := PSub parent item in
          match dget (type_of te sub) sub (st_locals s1) with
          | None => None
          | Some (value, l2) =>
              (* setitem(parent [borrowed], PlaceNode(item), PlaceNode(value_var)): the item
                 variable is read from the DFG, its expression is not evaluated again *)
              match visit_place fuel' te ie parent (set_locals l2 s1) with
              | None => None
              | Some (arrv, s3) =>
                  let '(idx, s3') := eval_item ie item s3 in
                  let '(ev, s4) := emit (Ev EV_RETURN [arrv; idx; value]) s3' in
                  assign_place fuel' te ie parent (expand (type_of te parent) (AOut ev 0) []) s4
              end
          end
      end
  end.

(* one call statement: callee name, its inputs, the argument expressions, #regular returns *)
(* argument expressions: a place, a literal, or a temporary: the result of an opaque node
   (call result `make()`, array literal = new_array node with n literal inputs), or a
   struct constructor applied to such temporaries *)
Inductive carg :=
| CPlace (p : place)
| CExpr (c : nat)
| CTemp (name nconst : nat)
| CStruct (parts : list (nat * nat)).
(* c_target: `target = f(...)` assigns the first regular return to a place afterwards
   (StmtCompiler: self.dfg[place] = port) *)
Record call := mkCall { c_name : nat; c_inputs : list (FuncInput ty); c_args : list carg; c_nret : nat;
                        c_target : option place }.

Definition FUEL := 12.

Definition eval_temp (t : ty) (name nconst : nat) (s : state) : val * state :=
  let '(ev, s1) := emit (Ev name (repeat (VAtom (AConst 0)) nconst)) s in
  (expand t (AOut ev 0) [], s1).

Fixpoint eval_parts (ts : list ty) (parts : list (nat * nat)) (s : state) : list val * state :=
  match ts, parts with
  | t :: ts', (name, nconst) :: parts' =>
      let '(v, s1) := eval_temp t name nconst s in
      let '(vs, s2) := eval_parts ts' parts' s1 in (v :: vs, s2)
  | _, _ => ([], s)
  end.

Fixpoint visit_args (te : tenv) (ie : ienv) (zs : list (carg * FuncInput ty)) (s : state) : option (list val * state) :=
  match zs with
  | [] => Some ([], s)
  | (a, inp) :: r =>
      if fl_comptime (fi_flags inp) then visit_args te ie r s
      else
        match (match a with
               | CPlace p => visit_place FUEL te ie p s
               | CExpr c => Some (VAtom (AConst c), s)
               | CTemp name nconst => Some (eval_temp (fi_ty inp) name nconst s)
               | CStruct parts =>
                   let '(vs, s1) := eval_parts (match fi_ty inp with TProd ts => ts | _ => [] end) parts s in
                   Some (VProd vs, s1)
               end) with
        | None => None
        | Some (v, s1) =>
            match visit_args te ie r s1 with
            | None => None
            | Some (vs, s2) => Some (v :: vs, s2)
            end
        end
  end.

Definition to_arg (a : carg) : arg place := match a with CPlace p => APlace p | _ => AExpr end.

(* the extra output ports: one per borrowed input, in input order, eta-expanded *)
Fixpoint inout_ports (ev : nat) (port : nat) (inputs : list (FuncInput ty)) : list val :=
  match inputs with
  | [] => []
  | inp :: r =>
      if fl_inout (fi_flags inp)
      then expand (fi_ty inp) (AOut ev port) [] :: inout_ports ev (S port) r
      else inout_ports ev port r
  end.

Definition exec_call (te : tenv) (ie : ienv) (c : call) (s : state) : option state :=
  match zip_strict (c_args c) (c_inputs c) with
  | None => None
  | Some zs =>
      match visit_args te ie zs s with
      | None => None
      | Some (ws, s1) =>
          let '(ev, s2) := emit (Ev (c_name c) ws) s1 in
          match update_inout_ports ty place val (option state)
                  (fun p w os => match os with Some s => assign_place FUEL te ie p w s | None => None end)
                  (c_inputs c) (map to_arg (c_args c)) (inout_ports ev (c_nret c) (c_inputs c)) (Some s2) with
          | Some (Some s') =>
              match c_target c with
              | None => Some s'
              | Some tp => Some (set_locals (dset (type_of te tp) tp (expand (type_of te tp) (AOut ev 0) []) (st_locals s')) s')
              end
          | _ => None
          end
      end
  end.

Fixpoint exec_calls (te : tenv) (ie : ienv) (cs : list call) (s : state) : option state :=
  match cs with
  | [] => Some s
  | c :: r => match exec_call te ie c s with Some s' => exec_calls te ie r s' | None => None end
  end.

(* entry block: dfg[v] = input wire, for every parameter, in order *)
Fixpoint bind_inputs (te : tenv) (params : list nat) (k : nat) (l : locals) : locals :=
  match params with
  | [] => l
  | x :: r => bind_inputs te r (S k) (dset (te x) (PVar x) (expand (te x) (AIn k) []) l)
  end.

(* exit: output dfg[v] for every requested variable *)
Fixpoint read_outputs (te : tenv) (outs : list nat) (l : locals) : option (list val) :=
  match outs with
  | [] => Some []
  | x :: r =>
      match dget (te x) (PVar x) l with
      | None => None
      | Some (v, l1) => match read_outputs te r l1 with Some vs => Some (v :: vs) | None => None end
      end
  end.

(* a whole single-block function: parameters, calls, variables output at the exit *)
Definition run_function (te : tenv) (ie : ienv) (params : list nat) (cs : list call) (outs : list nat)
  : option (list val * list event) :=
  match exec_calls te ie cs (mkState (bind_inputs te params 0 []) [] []) with
  | None => None
  | Some s => match read_outputs te outs (st_locals s) with
              | Some vs => Some (vs, st_trace s)
              | None => None
              end
  end.
