(** C23 — hand-written base: Python dictionaries as insertion-ordered association
    lists, the dictionary operations `mock_builtins` uses (with their KeyErrors), and
    try/finally.  The body of `mock_builtins` itself is GENERATED (GenMock.v). *)
From Coq Require Import ZArith String Bool List.
Import ListNotations.
Open Scope string_scope.

(** Values are opaque objects; only identity matters.  [VMock n] is the object bound to the
    module-level name [n] of builtins_mock.py; [VUser i] any other object. *)
Inductive value := VMock (name : string) | VUser (id : Z).

(** A namespace / dict: insertion-ordered association list (keys pairwise distinct in a
    real dict: [NoDup (keys d)], a hypothesis of the theorems). *)
Definition ns := list (string * value).
Definition keys (d : ns) : list string := map fst d.

(** None = completed normally; Some e = left by exception e. *)
Definition outcome := option string.

Fixpoint d_lookup (d : ns) (x : string) : option value :=
  match d with
  | [] => None
  | (k, v) :: t => if String.eqb k x then Some v else d_lookup t x
  end.
Definition d_in (x : string) (d : ns) : bool :=
  match d_lookup d x with Some _ => true | None => false end.

(** d[x] = v : in place if the key exists, else appended (Python dict order) *)
Fixpoint d_set (d : ns) (x : string) (v : value) : ns :=
  match d with
  | [] => [(x, v)]
  | (k, w) :: t => if String.eqb k x then (k, v) :: t else (k, w) :: d_set t x v
  end.
Fixpoint d_remove (d : ns) (x : string) : ns :=
  match d with
  | [] => []
  | (k, w) :: t => if String.eqb k x then t else (k, w) :: d_remove t x
  end.

(** d[x] as an expression: KeyError when absent *)
Definition d_get (d : ns) (x : string) : value + string :=
  match d_lookup d x with Some v => inl v | None => inr "KeyError" end.
(** del d[x]: KeyError when absent (dict unchanged) *)
Definition d_del (d : ns) (x : string) : ns * outcome :=
  if d_in x d then (d_remove d x, None) else (d, Some "KeyError").
(** d.update(src) *)
Definition d_update (d src : ns) : ns := fold_left (fun acc kv => d_set acc (fst kv) (snd kv)) src d.
(** a dict display {k1: v1, ...} *)
Definition d_lit (items : list (string * value)) : ns := d_update [] items.

(** {x: f x for x in iter if cond x}: iterates the keys of [iter] in order; an exception
    in [f] aborts the comprehension *)
Fixpoint d_comp_keys (ks : list string) (cond : string -> bool) (f : string -> value + string) (acc : ns) : ns + string :=
  match ks with
  | [] => inl acc
  | x :: r => if cond x then match f x with
                             | inl v => d_comp_keys r cond f (d_set acc x v)
                             | inr e => inr e
                             end
              else d_comp_keys r cond f acc
  end.
Definition d_comp (iter : ns) (cond : string -> bool) (f : string -> value + string) : ns + string :=
  d_comp_keys (keys iter) cond f [].

(** for x in iter: step x   (over a state S; stops at the first exception) *)
Fixpoint for_keys {S} (ks : list string) (step : string -> S -> S * outcome) (s : S) : S * outcome :=
  match ks with
  | [] => (s, None)
  | x :: r => match step x s with
              | (s1, None) => for_keys r step s1
              | (s1, Some e) => (s1, Some e)
              end
  end.

(** try: body  finally: fin  — fin always runs; its exception wins, else body's outcome *)
Definition try_finally {S} (body fin : S -> S * outcome) (s : S) : S * outcome :=
  let '(s1, o1) := body s in
  let '(s2, o2) := fin s1 in
  (s2, match o2 with Some e => Some e | None => o1 end).

(** sequencing two effectful steps *)
Definition seq {S} (a b : S -> S * outcome) (s : S) : S * outcome :=
  match a s with
  | (s1, None) => b s1
  | (s1, Some e) => (s1, Some e)
  end.

(** the state of several modules: one namespace per module id *)
Fixpoint set_nth {A} (k : nat) (x : A) (l : list A) : list A :=
  match k, l with
  | _, [] => []
  | O, _ :: t => x :: t
  | S k', h :: t => h :: set_nth k' x t
  end.
