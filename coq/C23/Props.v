(** C23 — Comptime tracing leaves the user's module untouched.
    Statements are about [run_items] (Model.v), whose [ITrace] case is the body of
    `mock_builtins` as GENERATED from tracing/builtins_mock.py on this run (GenMock.v),
    applied — as tracing/function.py does, also checked by the generator — around exactly
    the call of the traced Python function, on that function's own `__globals__`.
    A namespace is an insertion-ordered association list name -> object identity; equality
    below is equality of such lists: same names, same objects, same order. *)
From Coq Require Import ZArith String Bool List.
From V.C23 Require Import ModelBase GenMock Model Proofs.
Import ListNotations.
Open Scope string_scope.
Open Scope list_scope.

(** 1. For every state of any number of modules (each namespace an arbitrary dict: with or
    without user bindings of int/float/len or of anything else), and every nesting tree of
    traces / exception points / handlers over those modules: every namespace afterwards is
    identical to before, and the history ends by an exception exactly when the tree says
    so — the mock machinery neither swallows nor adds one (no KeyError from `del`, none
    from the comprehension).  Proof: mutual induction on the nesting tree. *)
Theorem mock_restores : forall l s, state_ok s -> mods_ok_items (length s) l = true ->
  run_items l s = (s, raises_items l).
Proof. exact (proj2 run_restores). Qed.
Print Assumptions mock_restores.

(** 1b. The single-module reading of the property: tracing one comptime function of a
    module with namespace g, whatever happens inside (success, exception at any point,
    further traces of functions of the same module). *)
Theorem mock_restores_one_module : forall g body, dict_ok g -> mods_ok_items 1 body = true ->
  run_item (ITrace 0 body) [g] = ([g], raises_items body).
Proof.
  intros g body Hg Hb.
  apply (proj1 run_restores (ITrace 0 body) [g]); [constructor; [assumption|constructor]|].
  simpl. exact Hb.
Qed.
Print Assumptions mock_restores_one_module.

(** 2. The cycle is not vacuous: while the traced function runs, every mocked name of its
    module is bound to the mock object (so user bindings of int/float/len really are
    shadowed in between, and really are put back by theorem 1). *)
Theorem mock_in_effect : forall m body s, state_ok s -> mods_ok_item (length s) (ITrace m body) = true ->
  run_item (ITrace m body) s =
    (s, snd (run_items body (putm m (d_update (getm m s) mock_lit) s))) /\
  mocked (getm m (putm m (d_update (getm m s) mock_lit) s)).
Proof.
  intros m body s Hok Hm. split; [|now apply (trace_body_state m body)].
  rewrite (proj1 run_restores _ s Hok Hm).
  simpl in Hm. apply andb_true_iff in Hm. destruct Hm as [Hlt Hb]. apply Nat.ltb_lt in Hlt.
  rewrite (proj2 run_restores body).
  - reflexivity.
  - unfold putm. apply Forall_set_nth; [assumption|]. apply dict_ok_update.
    unfold getm. apply (Forall_nth_default dict_ok); [assumption|constructor].
  - unfold putm. now rewrite length_set_nth.
Qed.
Print Assumptions mock_in_effect.

(** 3. Where it is applied (read from tracing/function.py by the generator, which fails
    closed otherwise): the only call of the traced function inside trace_function is the
    body of a with statement that has mock_builtins(<that function>) among its items. *)
Theorem mock_wraps_traced_call : traced_call_inside_mock = true /\ In "mock_builtins" with_items.
Proof. split; [reflexivity|]. vm_compute. tauto. Qed.
Print Assumptions mock_wraps_traced_call.

(** Non-trivial instances.  Module 0 binds `int` itself (object 7) between other names and
    has no `len`/`float`; module 1 binds all three.  History: trace f (module 0); inside, a
    trace of a module-1 function fails and is caught; then a nested trace in module 0
    raises — everything is as before, order included, and the exception propagates. *)
Example demo_state : mstate :=
  [ [("__name__", VUser 1); ("int", VUser 7); ("f", VUser 2)];
    [("len", VUser 3); ("float", VUser 4); ("g", VUser 5); ("int", VUser 6)] ].
Example demo_history : items :=
  ICons (ITrace 0 (ICons (ICatch (ICons (ITrace 1 (ICons IRaise INil)) INil))
                   (ICons (ITrace 0 (ICons IRaise INil)) INil))) INil.
Example demo_runs : run_items demo_history demo_state = (demo_state, Some "Exception").
Proof. vm_compute. reflexivity. Qed.
Example demo_hypotheses : state_ok demo_state /\ mods_ok_items (length demo_state) demo_history = true.
Proof. split; [|reflexivity]. repeat constructor; simpl; intuition discriminate. Qed.
(** what the traced function of module 0 sees: `int` shadowed in place, float/len appended *)
Example demo_during : d_update (getm 0 demo_state) mock_lit =
  [("__name__", VUser 1); ("int", VMock "int"); ("f", VUser 2); ("float", VMock "float"); ("len", VMock "len")].
Proof. vm_compute. reflexivity. Qed.
