(** C23 — lemmas.  Dictionary theory (keys + lookups characterise an insertion-ordered
    dict), the save/update/delete/restore cycle for an arbitrary table of mocks, the lens
    lifting to several modules, and the link to the GENERATED body ([gen_is_ref]). *)
From Coq Require Import ZArith String Bool List Lia.
From V.C23 Require Import ModelBase GenMock Model.
Import ListNotations.
Open Scope string_scope.
Open Scope list_scope.

(** ---------- key lists ---------- *)
Fixpoint mem (x : string) (ks : list string) : bool :=
  match ks with [] => false | k :: t => String.eqb x k || mem x t end.
Definition kadd (ks : list string) (x : string) : list string := if mem x ks then ks else ks ++ [x].
Fixpoint krem (ks : list string) (x : string) : list string :=
  match ks with [] => [] | k :: t => if String.eqb k x then t else k :: krem t x end.

Lemma mem_In : forall x ks, mem x ks = true <-> In x ks.
Proof.
  induction ks as [|k t IH]; simpl; [split; [discriminate|tauto]|].
  rewrite orb_true_iff, IH, String.eqb_eq. split; intros [H|H]; auto.
Qed.
Lemma mem_false : forall x ks, mem x ks = false <-> ~ In x ks.
Proof. intros. rewrite <- mem_In. destruct (mem x ks); split; intro H; congruence. Qed.
Lemma mem_app : forall x a b, mem x (a ++ b) = mem x a || mem x b.
Proof. induction a as [|k t IH]; simpl; intro b; [reflexivity|]. now rewrite IH, orb_assoc. Qed.

Lemma NoDup_app_intro : forall (a b : list string), NoDup a -> NoDup b ->
  (forall x, In x a -> ~ In x b) -> NoDup (a ++ b).
Proof.
  induction a as [|k t IH]; simpl; intros b Na Nb D; [assumption|].
  inversion Na; subst. constructor.
  - intro H. apply in_app_or in H. destruct H as [H|H]; [contradiction|]. apply (D k); [now left|assumption].
  - apply IH; [assumption|assumption|]. intros x Hx. apply D. now right.
Qed.

Lemma krem_app_notin : forall K a A, ~ In a K -> krem (K ++ a :: A) a = K ++ A.
Proof.
  induction K as [|k K IH]; simpl; intros a A H.
  - now rewrite String.eqb_refl.
  - destruct (String.eqb k a) eqn:E.
    + apply String.eqb_eq in E. subst. exfalso. apply H. now left.
    + f_equal. apply IH. intro. apply H. now right.
Qed.
Lemma krem_all : forall A K, (forall a, In a A -> ~ In a K) -> NoDup A -> fold_left krem A (K ++ A) = K.
Proof.
  induction A as [|a A IH]; simpl; intros K HK ND.
  - now rewrite app_nil_r.
  - inversion ND; subst. rewrite krem_app_notin by (apply HK; now left).
    apply IH; [|assumption]. intros b Hb. apply HK. now right.
Qed.
Lemma In_krem : forall ks x y, In y ks -> y <> x -> In y (krem ks x).
Proof.
  induction ks as [|k t IH]; simpl; intros x y H N; [assumption|].
  destruct (String.eqb k x) eqn:E.
  - apply String.eqb_eq in E. subst. destruct H; [congruence|assumption].
  - destruct H; [left; assumption | right; now apply IH].
Qed.
Lemma In_krem_inv : forall ks x y, In y (krem ks x) -> In y ks.
Proof.
  induction ks as [|k t IH]; simpl; intros x y H; [assumption|].
  destruct (String.eqb k x); [now right|]. destruct H; [now left | right; eapply IH; eauto].
Qed.
Lemma NoDup_krem : forall ks x, NoDup ks -> NoDup (krem ks x).
Proof.
  induction ks as [|k t IH]; simpl; intros x ND; [constructor|].
  inversion ND; subst. destruct (String.eqb k x); [assumption|].
  constructor; [|now apply IH]. intro H. apply H1. eapply In_krem_inv; eauto.
Qed.

Lemma kadd_all : forall mk K, NoDup mk ->
  fold_left kadd mk K = K ++ filter (fun x => negb (mem x K)) mk.
Proof.
  induction mk as [|x r IH]; simpl; intros K ND.
  - now rewrite app_nil_r.
  - inversion ND; subst. unfold kadd at 2. destruct (mem x K) eqn:E; simpl.
    + now apply IH.
    + rewrite IH by assumption. rewrite <- app_assoc. simpl. f_equal. f_equal.
      apply filter_ext_in. intros y Hy. rewrite mem_app. simpl.
      destruct (String.eqb y x) eqn:Eyx.
      * apply String.eqb_eq in Eyx. subst. contradiction.
      * now rewrite orb_false_r.
Qed.

(** ---------- dictionaries: keys and lookups ---------- *)
Lemma d_in_cons : forall x k v t, d_in x ((k, v) :: t) = String.eqb k x || d_in x t.
Proof. intros. unfold d_in. simpl. destruct (String.eqb k x); reflexivity. Qed.
Lemma d_in_mem : forall d x, d_in x d = mem x (keys d).
Proof.
  induction d as [|[k v] t IH]; intro x; [reflexivity|].
  rewrite d_in_cons, IH. simpl. now rewrite (String.eqb_sym x k).
Qed.
Lemma d_in_lookup : forall d x, d_in x d = true -> exists v, d_lookup d x = Some v.
Proof. intros d x H. unfold d_in in H. destruct (d_lookup d x); [eauto|discriminate]. Qed.
Lemma d_notin_lookup : forall d x, d_in x d = false -> d_lookup d x = None.
Proof. intros d x H. unfold d_in in H. destruct (d_lookup d x); [discriminate|reflexivity]. Qed.
Lemma lookup_notin : forall d x, ~ In x (keys d) -> d_lookup d x = None.
Proof. intros. apply d_notin_lookup. rewrite d_in_mem. now apply mem_false. Qed.

Lemma keys_set : forall d x v, keys (d_set d x v) = kadd (keys d) x.
Proof.
  unfold kadd. induction d as [|[k w] t IH]; intros x v; [reflexivity|].
  simpl. rewrite (String.eqb_sym x k). destruct (String.eqb k x) eqn:E; simpl; [reflexivity|].
  rewrite IH. destruct (mem x (keys t)); reflexivity.
Qed.
Lemma lookup_set : forall d x v y, d_lookup (d_set d x v) y = if String.eqb x y then Some v else d_lookup d y.
Proof.
  induction d as [|[k w] t IH]; intros x v y; simpl; [reflexivity|].
  destruct (String.eqb k x) eqn:E; simpl.
  - apply String.eqb_eq in E. subst. destruct (String.eqb x y); reflexivity.
  - rewrite IH. destruct (String.eqb k y) eqn:Eky; [|reflexivity].
    destruct (String.eqb x y) eqn:Exy; [|reflexivity].
    apply String.eqb_eq in Eky, Exy. subst. rewrite String.eqb_refl in E. discriminate.
Qed.
Lemma keys_remove : forall d x, keys (d_remove d x) = krem (keys d) x.
Proof.
  induction d as [|[k w] t IH]; intro x; simpl; [reflexivity|].
  destruct (String.eqb k x); simpl; [reflexivity|]. now rewrite IH.
Qed.
Lemma lookup_remove : forall d x y, NoDup (keys d) ->
  d_lookup (d_remove d x) y = if String.eqb x y then None else d_lookup d y.
Proof.
  induction d as [|[k w] t IH]; intros x y ND; simpl.
  - destruct (String.eqb x y); reflexivity.
  - simpl in ND. inversion ND; subst. destruct (String.eqb k x) eqn:E; simpl.
    + apply String.eqb_eq in E. subst. destruct (String.eqb x y) eqn:Exy; [|reflexivity].
      apply String.eqb_eq in Exy. subst. now apply lookup_notin.
    + rewrite IH by assumption. destruct (String.eqb k y) eqn:Eky; [|reflexivity].
      destruct (String.eqb x y) eqn:Exy; [|reflexivity].
      apply String.eqb_eq in Eky, Exy. subst. rewrite String.eqb_refl in E. discriminate.
Qed.

Lemma keys_update : forall src d, keys (d_update d src) = fold_left kadd (keys src) (keys d).
Proof.
  unfold d_update. induction src as [|[k v] r IH]; intro d; simpl; [reflexivity|].
  rewrite IH. now rewrite keys_set.
Qed.
Lemma lookup_update : forall src d y, NoDup (keys src) ->
  d_lookup (d_update d src) y = match d_lookup src y with Some v => Some v | None => d_lookup d y end.
Proof.
  unfold d_update. induction src as [|[k v] r IH]; intros d y ND; simpl; [reflexivity|].
  simpl in ND. inversion ND; subst. rewrite IH by assumption. rewrite lookup_set.
  destruct (String.eqb k y) eqn:E; [|reflexivity].
  apply String.eqb_eq in E. subst. now rewrite lookup_notin.
Qed.

Lemma ns_ext : forall a b : ns, NoDup (keys b) -> keys a = keys b ->
  (forall y, d_lookup a y = d_lookup b y) -> a = b.
Proof.
  induction a as [|[k v] a IH]; intros [|[k' v'] b] ND HK HL; simpl in *; try discriminate; [reflexivity|].
  injection HK as -> HK. inversion ND; subst.
  assert (v = v') as ->.
  { specialize (HL k'). rewrite String.eqb_refl in HL. congruence. }
  f_equal. apply IH; [assumption|assumption|].
  intro y. specialize (HL y). destruct (String.eqb k' y) eqn:E; [|assumption].
  apply String.eqb_eq in E. subst. rewrite !lookup_notin; [reflexivity|assumption|now rewrite HK].
Qed.

(** ---------- phase 1: old = {x: g[x] for x in mock if x in g} ---------- *)
Lemma comp_spec : forall g ks acc, NoDup ks -> (forall x, In x ks -> ~ In x (keys acc)) ->
  exists old, d_comp_keys ks (fun x => d_in x g) (fun x => d_get g x) acc = inl old /\
    keys old = keys acc ++ filter (fun x => d_in x g) ks /\
    forall y, d_lookup old y = if mem y ks && d_in y g then d_lookup g y else d_lookup acc y.
Proof.
  intros g. induction ks as [|x r IH]; intros acc ND Hacc; simpl.
  - exists acc. split; [reflexivity|]. split; [now rewrite app_nil_r|]. intro y. reflexivity.
  - inversion ND; subst. destruct (d_in x g) eqn:Ein.
    + destruct (d_in_lookup g x Ein) as [v Hv]. unfold d_get. rewrite Hv.
      assert (Hx : mem x (keys acc) = false) by (apply mem_false; apply Hacc; now left).
      assert (Hpre : forall x', In x' r -> ~ In x' (keys (d_set acc x v))).
      { intros x' Hx'. rewrite keys_set. unfold kadd. rewrite Hx. intro Hin.
        apply in_app_or in Hin. destruct Hin as [Hin|[Hin|[]]].
        - eapply Hacc; [right; exact Hx'|exact Hin].
        - subst. contradiction. }
      destruct (IH (d_set acc x v) H2 Hpre) as (old & Ho & Hk & Hl).
      exists old. split; [exact Ho|]. split.
      * rewrite Hk, keys_set. unfold kadd. rewrite Hx. now rewrite <- app_assoc.
      * intro y. rewrite Hl, lookup_set. rewrite (String.eqb_sym y x).
        destruct (String.eqb x y) eqn:Exy; simpl.
        -- apply String.eqb_eq in Exy. subst y.
           assert (mem x r = false) as -> by (now apply mem_false). simpl. rewrite Ein. now rewrite Hv.
        -- reflexivity.
    + assert (Hpre : forall x', In x' r -> ~ In x' (keys acc)) by (intros x' Hx'; apply Hacc; now right).
      destruct (IH acc H2 Hpre) as (old & Ho & Hk & Hl).
      exists old. split; [exact Ho|]. split; [exact Hk|].
      intro y. rewrite Hl. rewrite (String.eqb_sym y x).
      destruct (String.eqb x y) eqn:Exy; simpl; [|reflexivity].
      apply String.eqb_eq in Exy. subst y. rewrite Ein.
      assert (mem x r = false) as -> by (now apply mem_false). reflexivity.
Qed.

(** ---------- phase 3: for x in mock: if x not in old: del g[x]  (pure version) ---------- *)
Fixpoint del_loop (mk : list string) (old : ns) (g : ns) : ns * outcome :=
  match mk with
  | [] => (g, None)
  | x :: r => if negb (d_in x old)
              then (if d_in x g then del_loop r old (d_remove g x) else (g, Some "KeyError"))
              else del_loop r old g
  end.

Lemma del_loop_spec : forall g0 old r g', NoDup r -> NoDup (keys g') ->
  (forall x, In x r -> d_in x old = d_in x g0) ->
  (forall x, In x r -> d_in x g0 = false -> In x (keys g')) ->
  exists g2, del_loop r old g' = (g2, None) /\
    keys g2 = fold_left krem (filter (fun x => negb (d_in x g0)) r) (keys g') /\
    NoDup (keys g2) /\
    forall y, d_lookup g2 y = if mem y r && negb (d_in y g0) then None else d_lookup g' y.
Proof.
  intros g0 old. induction r as [|x r IH]; intros g' ND NDg Hold Hin; simpl.
  - exists g'. repeat split; try assumption.
  - inversion ND; subst. rewrite (Hold x) by (now left). destruct (d_in x g0) eqn:E0; simpl.
    + assert (Hold' : forall x0, In x0 r -> d_in x0 old = d_in x0 g0) by (intros; apply Hold; now right).
      assert (Hin' : forall x0, In x0 r -> d_in x0 g0 = false -> In x0 (keys g')) by (intros; apply Hin; [now right|assumption]).
      destruct (IH g' H2 NDg Hold' Hin') as (g2 & Hd & Hk & Hn & Hl).
      exists g2. repeat split; try assumption. intro y. rewrite Hl. rewrite (String.eqb_sym y x).
      destruct (String.eqb x y) eqn:Exy; simpl; [|reflexivity].
      apply String.eqb_eq in Exy. subst y. rewrite E0.
      assert (mem x r = false) as -> by (now apply mem_false). reflexivity.
    + assert (Hx : d_in x g' = true).
      { rewrite d_in_mem. apply mem_In. apply Hin; [now left|assumption]. }
      rewrite Hx.
      assert (NDr : NoDup (keys (d_remove g' x))) by (rewrite keys_remove; now apply NoDup_krem).
      assert (Hold' : forall x0, In x0 r -> d_in x0 old = d_in x0 g0) by (intros; apply Hold; now right).
      assert (Hin' : forall x0, In x0 r -> d_in x0 g0 = false -> In x0 (keys (d_remove g' x))).
      { intros x' Hx' Hf. rewrite keys_remove. apply In_krem; [apply Hin; [now right|assumption]|].
        intro; subst. contradiction. }
      destruct (IH (d_remove g' x) H2 NDr Hold' Hin') as (g2 & Hd & Hk & Hn & Hl).
      exists g2. split; [exact Hd|]. split; [now rewrite Hk, keys_remove|]. split; [exact Hn|].
      intro y. rewrite Hl, lookup_remove by assumption. rewrite (String.eqb_sym y x).
      destruct (String.eqb x y) eqn:Exy; simpl.
      * apply String.eqb_eq in Exy. subst y. rewrite E0. simpl.
        destruct (mem x r); reflexivity.
      * reflexivity.
Qed.

Lemma filter_filter_nil : forall (g : ns) l,
  filter (fun x => negb (mem x (keys g))) (filter (fun x => d_in x g) l) = [].
Proof.
  induction l as [|a l IH]; simpl; [reflexivity|].
  destruct (d_in a g) eqn:E; simpl; [|assumption]. rewrite <- d_in_mem, E. simpl. assumption.
Qed.

(** ---------- the whole cycle on one namespace, for any table of mocks ---------- *)
Lemma pure_restore : forall mock g, NoDup (keys mock) -> NoDup (keys g) ->
  exists old g2, d_comp mock (fun x => d_in x g) (fun x => d_get g x) = inl old /\
    del_loop (keys mock) old (d_update g mock) = (g2, None) /\ d_update g2 old = g.
Proof.
  intros mock g NDm NDg.
  assert (Hnil : forall x, In x (keys mock) -> ~ In x (keys (@nil (string * value)))) by (intros x _ []).
  destruct (comp_spec g (keys mock) [] NDm Hnil) as (old & Ho & Hko & Hlo).
  unfold d_comp. simpl in Hko.
  assert (Hold : forall x, In x (keys mock) -> d_in x old = d_in x g).
  { intros x Hx. unfold d_in at 1. rewrite Hlo. apply mem_In in Hx. rewrite Hx. simpl.
    destruct (d_in x g) eqn:E; [|reflexivity]. destruct (d_in_lookup g x E) as [v ->]. reflexivity. }
  assert (HK1 : keys (d_update g mock) = keys g ++ filter (fun x => negb (d_in x g)) (keys mock)).
  { rewrite keys_update, kadd_all by assumption. f_equal. apply filter_ext. intro x. now rewrite d_in_mem. }
  assert (NDabs : NoDup (filter (fun x => negb (d_in x g)) (keys mock))) by (now apply NoDup_filter).
  assert (Habs : forall a, In a (filter (fun x => negb (d_in x g)) (keys mock)) -> ~ In a (keys g)).
  { intros a Ha. apply filter_In in Ha. destruct Ha as [_ Ha]. apply mem_false. rewrite <- d_in_mem.
    now destruct (d_in a g). }
  assert (ND1 : NoDup (keys (d_update g mock))).
  { rewrite HK1. apply NoDup_app_intro; [assumption|assumption|].
    intros a Ha Hb. eapply Habs; eauto. }
  assert (Hin1 : forall x, In x (keys mock) -> d_in x g = false -> In x (keys (d_update g mock))).
  { intros x Hx Hf. rewrite HK1. apply in_or_app. right. apply filter_In. split; [assumption|]. now rewrite Hf. }
  destruct (del_loop_spec g old (keys mock) (d_update g mock) NDm ND1 Hold Hin1) as (g2 & Hd & Hk2 & Hn2 & Hl2).
  exists old, g2. split; [exact Ho|]. split; [exact Hd|].
  rewrite HK1 in Hk2. rewrite krem_all in Hk2 by assumption.
  assert (NDo : NoDup (keys old)) by (rewrite Hko; now apply NoDup_filter).
  apply ns_ext; [assumption| |].
  - rewrite keys_update, kadd_all by assumption. rewrite Hk2.
    rewrite Hko, filter_filter_nil. now rewrite app_nil_r.
  - intro y. rewrite lookup_update by assumption. rewrite Hlo, Hl2.
    rewrite lookup_update by assumption.
    destruct (mem y (keys mock)) eqn:Em; simpl.
    + destruct (d_in y g) eqn:Eg; simpl.
      * destruct (d_in_lookup g y Eg) as [v ->]. reflexivity.
      * now rewrite d_notin_lookup.
    + rewrite (lookup_notin mock y); [reflexivity|]. now apply mem_false.
Qed.

(** while the body runs, every mocked name is bound to its mock *)
Lemma update_mocked : forall mock g y v, NoDup (keys mock) -> d_lookup mock y = Some v ->
  d_lookup (d_update g mock) y = Some v.
Proof. intros. rewrite lookup_update by assumption. now rewrite H0. Qed.

(** ---------- lifting through a lens onto a larger state ---------- *)
Section Lens.
  Context {S : Type} (getg : S -> ns) (putg : ns -> S -> S) (okS : S -> Prop).
  Hypothesis get_put : forall g s, okS s -> getg (putg g s) = g.
  Hypothesis put_put : forall g g' s, putg g (putg g' s) = putg g s.
  Hypothesis put_get : forall s, putg (getg s) s = s.

  Definition restore_loop (mk : list string) (old : ns) : S -> S * outcome :=
    for_keys mk (fun x s => if negb (d_in x old)
                            then (let '(g', o) := d_del (getg s) x in (putg g' s, o)) else (s, None)).

  (** the generated body with the literal abstracted *)
  Definition mock_ref (mock : ns) (yield_ : S -> S * outcome) (s : S) : S * outcome :=
    match d_comp mock (fun x => d_in x (getg s)) (fun x => d_get (getg s) x) with
    | inr e => (s, Some e)
    | inl old =>
        match (putg (d_update (getg s) mock) s, @None string) with
        | (s, None) => try_finally (fun s => yield_ s)
                         (fun s => match restore_loop (keys mock) old s with
                                   | (s, None) => (putg (d_update (getg s) old) s, None)
                                   | (s, Some e) => (s, Some e)
                                   end) s
        | (s, Some e) => (s, Some e)
        end
    end.

  Lemma restore_loop_pure : forall mk old g s, okS s ->
    restore_loop mk old (putg g s) = (putg (fst (del_loop mk old g)) s, snd (del_loop mk old g)).
  Proof.
    unfold restore_loop. induction mk as [|x r IH]; intros old g s Hok; simpl.
    - reflexivity.
    - destruct (negb (d_in x old)); simpl.
      + rewrite get_put by assumption. unfold d_del. destruct (d_in x g); simpl.
        * rewrite put_put. now apply IH.
        * now rewrite put_put.
      + now apply IH.
  Qed.

  Lemma mock_ref_restores : forall mock yield_ s o, NoDup (keys mock) -> NoDup (keys (getg s)) -> okS s ->
    yield_ (putg (d_update (getg s) mock) s) = (putg (d_update (getg s) mock) s, o) ->
    mock_ref mock yield_ s = (s, o).
  Proof.
    intros mock yield_ s o NDm NDg Hok Hy. unfold mock_ref.
    destruct (pure_restore mock (getg s) NDm NDg) as (old & g2 & Ho & Hd & Hr).
    rewrite Ho. cbv beta iota. unfold try_finally. cbv beta. rewrite Hy. cbv beta iota.
    rewrite restore_loop_pure by assumption. rewrite Hd. cbn [fst snd]. cbv beta iota.
    rewrite get_put by assumption. rewrite Hr, put_put, put_get. reflexivity.
  Qed.
End Lens.

(** ---------- the generated body is the reference with the generated table ---------- *)
Lemma gen_is_ref : forall S (getg : S -> ns) putg yield_ s,
  mock_builtins_gen getg putg yield_ s = mock_ref getg putg mock_lit yield_ s.
Proof. reflexivity. Qed.

Lemma mock_lit_nodup : NoDup (keys mock_lit).
Proof. vm_compute. repeat constructor; simpl; intuition discriminate. Qed.
Lemma mock_lit_keys : keys mock_lit = mock_names.
Proof. reflexivity. Qed.

Lemma lookup_vals : forall (d : ns) x v, Forall (fun kv => exists n, snd kv = VMock n) d ->
  d_lookup d x = Some v -> exists n, v = VMock n.
Proof.
  induction d as [|[k w] t IH]; simpl; intros x v F H; [discriminate|].
  inversion F; subst. destruct (String.eqb k x); [injection H as <-; assumption | eapply IH; eauto].
Qed.
Lemma mock_lit_vals : forall x v, d_lookup mock_lit x = Some v -> exists n, v = VMock n.
Proof.
  intros x v. apply lookup_vals. vm_compute.
  repeat (constructor; [eexists; reflexivity|]). constructor.
Qed.

(** ---------- several modules ---------- *)
Lemma nth_set_nth : forall {A} m (x d : A) l, (m < length l)%nat -> nth m (set_nth m x l) d = x.
Proof.
  induction m as [|m IH]; intros x d l H.
  - destruct l; simpl in *; [lia|reflexivity].
  - destruct l; simpl in *; [lia|]. apply IH. lia.
Qed.
Lemma set_nth_set_nth : forall {A} m (x y : A) l, set_nth m x (set_nth m y l) = set_nth m x l.
Proof. induction m; destruct l; simpl; intros; try reflexivity. f_equal. apply IHm. Qed.
Lemma set_nth_nth : forall {A} m (d : A) l, set_nth m (nth m l d) l = l.
Proof. induction m; destruct l; simpl; intros; try reflexivity. f_equal. apply IHm. Qed.
Lemma length_set_nth : forall {A} m (x : A) l, length (set_nth m x l) = length l.
Proof. induction m; destruct l; simpl; intros; try reflexivity. f_equal. apply IHm. Qed.
Lemma Forall_set_nth : forall {A} (P : A -> Prop) m x l, Forall P l -> P x -> Forall P (set_nth m x l).
Proof.
  induction m; destruct l; simpl; intros; try assumption; inversion H; subst; constructor; auto.
Qed.
Lemma Forall_nth_default : forall {A} (P : A -> Prop) m l d, Forall P l -> P d -> P (nth m l d).
Proof. induction m; destruct l; simpl; intros; try assumption; inversion H; subst; auto. Qed.

Lemma dict_ok_set : forall d x v, dict_ok d -> dict_ok (d_set d x v).
Proof.
  unfold dict_ok. intros. rewrite keys_set. unfold kadd. destruct (mem x (keys d)) eqn:E; [assumption|].
  apply NoDup_app_intro; [assumption|repeat constructor; simpl; tauto|].
  intros a Ha [Hb|[]]. subst. apply mem_false in E. contradiction.
Qed.
Lemma dict_ok_update : forall src d, dict_ok d -> dict_ok (d_update d src).
Proof.
  unfold d_update. induction src as [|[k v] r IH]; simpl; intros; [assumption|]. apply IH. now apply dict_ok_set.
Qed.

Scheme item_mut := Induction for item Sort Prop
  with items_mut := Induction for items Sort Prop.
Combined Scheme item_items_ind from item_mut, items_mut.

Lemma run_restores :
  (forall i s, state_ok s -> mods_ok_item (length s) i = true -> run_item i s = (s, raises_item i)) /\
  (forall l s, state_ok s -> mods_ok_items (length s) l = true -> run_items l s = (s, raises_items l)).
Proof.
  apply item_items_ind.
  - intros. reflexivity.
  - intros m body IH s Hok Hm. simpl in Hm. apply andb_true_iff in Hm. destruct Hm as [Hlt Hb].
    apply Nat.ltb_lt in Hlt.
    change (run_item (ITrace m body) s) with (mock_builtins_gen (getm m) (putm m) (run_items body) s).
    change (raises_item (ITrace m body)) with (raises_items body).
    rewrite gen_is_ref.
    apply (mock_ref_restores (getm m) (putm m) (fun s' => length s' = length s)).
    + intros g s' Hl. unfold getm, putm. apply nth_set_nth. lia.
    + intros. unfold putm. apply set_nth_set_nth.
    + intros. unfold putm, getm. apply set_nth_nth.
    + apply mock_lit_nodup.
    + unfold getm. apply (Forall_nth_default dict_ok); [assumption|constructor].
    + reflexivity.
    + apply IH.
      * unfold putm. apply Forall_set_nth; [assumption|]. apply dict_ok_update.
        unfold getm. apply (Forall_nth_default dict_ok); [assumption|constructor].
      * unfold putm. now rewrite length_set_nth.
  - intros body IH s Hok Hm.
    change (run_item (ICatch body) s) with (let '(s1, _) := run_items body s in (s1, @None string)).
    change (mods_ok_item (length s) (ICatch body)) with (mods_ok_items (length s) body) in Hm.
    rewrite (IH s Hok Hm). reflexivity.
  - intros. reflexivity.
  - intros i IHi rest IHr s Hok Hm. simpl in Hm. apply andb_true_iff in Hm. destruct Hm as [Hi Hr].
    simpl. rewrite (IHi s Hok Hi). destruct (raises_item i); [reflexivity|]. now apply IHr.
Qed.

(** what the traced function's body is run on *)
Lemma trace_body_state : forall m body s, state_ok s -> mods_ok_item (length s) (ITrace m body) = true ->
  mocked (getm m (putm m (d_update (getm m s) mock_lit) s)).
Proof.
  intros m body s Hok Hm. simpl in Hm. apply andb_true_iff in Hm. destruct Hm as [Hlt _].
  apply Nat.ltb_lt in Hlt. unfold getm at 1, putm. rewrite nth_set_nth by assumption.
  intros x Hx. rewrite <- mock_lit_keys in Hx.
  assert (exists v, d_lookup mock_lit x = Some v) as [v Hv].
  { apply d_in_lookup. rewrite d_in_mem. now apply mem_In. }
  destruct (mock_lit_vals x v Hv) as [n ->]. exists n.
  apply (update_mocked mock_lit _ x (VMock n) mock_lit_nodup Hv).
Qed.
