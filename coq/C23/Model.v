(** C23 — executable model of nested comptime traces over several modules.
    Hand-written: the nesting structure (what happens *inside* the `with mock_builtins(f):`
    block of trace_function: the user's function runs; it may raise at any point, may
    catch, and may cause further traces — of functions of the same or of other modules).
    Generated (GenMock.v): what mock_builtins does around it.  No proofs here. *)
From Coq Require Import ZArith String Bool List.
From V.C23 Require Import ModelBase GenMock.
Import ListNotations.
Open Scope string_scope.

(** One namespace (`module.__dict__`, = `f.__globals__` of every function defined there)
    per module id. *)
Definition mstate := list ns.
Definition getm (m : nat) (s : mstate) : ns := nth m s [].
Definition putm (m : nat) (g : ns) (s : mstate) : mstate := set_nth m g s.

(** What happens while a traced function runs:
    [IRaise]        an exception is raised at this point (the k-th traced operation fails,
                    the user code raises, a linearity error is detected, ...)
    [ITrace m b]    a comptime function defined in module m is traced; b happens during
                    the execution of its body
    [ICatch b]      try: b  except Exception: pass   (in user code or in the compiler) *)
Inductive item :=
| IRaise
| ITrace (m : nat) (body : items)
| ICatch (body : items)
with items :=
| INil
| ICons (i : item) (rest : items).

Fixpoint run_item (i : item) (s : mstate) {struct i} : mstate * outcome :=
  match i with
  | IRaise => (s, Some "Exception")
  | ITrace m body => mock_builtins_gen (getm m) (putm m) (run_items body) s
  | ICatch body => let '(s1, _) := run_items body s in (s1, None)
  end
with run_items (l : items) (s : mstate) {struct l} : mstate * outcome :=
  match l with
  | INil => (s, None)
  | ICons i rest =>
      match run_item i s with
      | (s1, None) => run_items rest s1
      | (s1, Some e) => (s1, Some e)
      end
  end.

(** Specification side: whether a history ends by an exception has nothing to do with the
    mocking (written without reference to it). *)
Fixpoint raises_item (i : item) : outcome :=
  match i with
  | IRaise => Some "Exception"
  | ITrace _ body => raises_items body
  | ICatch _ => None
  end
with raises_items (l : items) : outcome :=
  match l with
  | INil => None
  | ICons i rest => match raises_item i with None => raises_items rest | Some e => Some e end
  end.

(** all module ids mentioned exist *)
Fixpoint mods_ok_item (n : nat) (i : item) : bool :=
  match i with
  | IRaise => true
  | ITrace m body => Nat.ltb m n && mods_ok_items n body
  | ICatch body => mods_ok_items n body
  end
with mods_ok_items (n : nat) (l : items) : bool :=
  match l with INil => true | ICons i r => mods_ok_item n i && mods_ok_items n r end.

(** a real dict has pairwise distinct keys *)
Definition dict_ok (d : ns) : Prop := NoDup (keys d).
Definition state_ok (s : mstate) : Prop := Forall dict_ok s.

(** what the traced function sees while it runs (used for the "mock is in effect" half) *)
Definition mocked (d : ns) : Prop :=
  forall x, In x mock_names -> exists n, d_lookup d x = Some (VMock n).
