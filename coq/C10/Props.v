(** V.C10.Props — C10: compiler output and diagnostics are deterministic.   PARTIAL.

    What is proved: for the MODELLED front end (CFG.analyze: liveness with witness blocks and key
    order + assignment analysis; check_cfg: definedness and branch-type checks up to the first
    diagnostic, incl. the BadBranch note and the type hints) the outcome -- accept/reject, kind of
    error, variable, location (witness use), notes -- is the same for EVERY pop order of the one
    remaining unordered work list (ForwardAnalysis.run), and that work list is the only
    order-observing site of the anchored files that is an oracle of the model (sites_tie,
    oracle_inventory).  For the released code (before fix-1/2/3) the statement is REFUTED at the
    two other sites (witnesses below, replayed on the real compiler by props/C10/check.py).
    What is NOT proved: HUGR byte identity and every diagnostic produced outside the modelled
    passes (statement type checking, linearity, lowering, serialisation) -- sampled only; the
    [Reviewed] dispositions of Sites.v. *)
From Coq Require Import List Bool Arith String Permutation.
From V.C09 Require Import Analysis Spec.
From V.C10 Require Import Model Proofs GenSites Sites.
Import ListNotations.

(** ** The modelled front end does not depend on the pop order of the forward work list *)

(* all pop orders: s1, s2 are ANY two terminal states of the nondeterministic work-list relation
   of ForwardAnalysis.run on the function's CFG (V.C09 sched_run).  Holds for every backward
   schedule [lsched] and rows-match order [rm]; /repo after fix-1/2 is [front_end] below. *)
Theorem diag_oracle_independent : forall g0 inputs inout glob,
  wf_cfg (base g0) = true ->
  forall s1 s2,
    sched_run (ass_step Repaired (fe_cfg g0 inout) (fe_names inputs)) fq
              (ass_init (fe_cfg g0 inout) (fe_names inputs) (fe_names inputs)) s1 ->
    sched_run (ass_step Repaired (fe_cfg g0 inout) (fe_names inputs)) fq
              (ass_init (fe_cfg g0 inout) (fe_names inputs) (fe_names inputs)) s2 ->
    front_end g0 inputs inout glob (befD s1) (befM s1) =
    front_end g0 inputs inout glob (befD s2) (befM s2).
Proof. intros. apply diag_oracle_independent_lemma; auto. Qed.
Print Assumptions diag_oracle_independent.

(* the executable form the correspondence harness evaluates: any two schedules *)
Theorem diag_schedule_independent : forall g0 inputs inout glob fs1 fs2,
  wf_cfg (base g0) = true ->
  front_end_run [] union_keys fs1 g0 inputs inout glob = front_end_run [] union_keys fs2 g0 inputs inout glob.
Proof. intros. apply front_end_run_sched_independent; auto. Qed.
Print Assumptions diag_schedule_independent.

(* the front end reads ass_before / maybe_ass_before as SETS: equal sets, equal diagnostics *)
Theorem diag_depends_on_sets_only : forall g0 inputs inout glob D M D' M',
  same_sets (List.length g0) D D' -> same_sets (List.length g0) M M' ->
  front_end g0 inputs inout glob D M = front_end g0 inputs inout glob D' M'.
Proof. intros. apply front_end_gen_same_sets; auto. Qed.
Print Assumptions diag_depends_on_sets_only.

(* a non-trivial instance: a loop, two variables with branch-dependent types, one maybe-undefined *)
Definition ex_cfg : xcfg :=   (* c=0 a=1 b=2 ; entry branches, both arms assign a,b with different types *)
  [mkX (mkBlock [3;2] [] [0] []) [] [] [];
   mkX (mkBlock [] [] [] []) [4] [] [];
   mkX (mkBlock [4] [] [] [1;2]) [0] [] [(1,(1,2)); (2,(1,3))];
   mkX (mkBlock [4] [] [] [1;2]) [0] [] [(1,(2,4)); (2,(2,5))];
   mkX (mkBlock [1] [] [1;2] [3]) [2;3] [] [(3,(101,6))]].
Definition ex_inputs : row := [(0,(3,1))].
Example ex_nontrivial :
  wf_cfg (base ex_cfg) = true /\
  enc (front_end_run [] union_keys [] ex_cfg ex_inputs [] (fun _ => false)) = [3;4;1;2;1;4;2] /\
  enc (front_end_run [] union_keys [3;1;4;1;5] ex_cfg ex_inputs [] (fun _ => false)) = [3;4;1;2;1;4;2].
Proof. vm_compute. auto. Qed.

(** ** check_rows_match as released (a set of names): the VERDICT is order independent ... *)
Theorem rows_match_verdict_order_independent : forall LB r1 r2 b ks ks',
  Permutation ks ks' ->
  (rows_match_on LB r1 r2 b ks = None <-> rows_match_on LB r1 r2 b ks' = None).
Proof. exact rows_match_perm_verdict_lemma. Qed.
Print Assumptions rows_match_verdict_order_independent.

(** ** ... but the reported variable is not: REFUTATION for the released code (site R) *)
(* same program, names visited in row order vs. reversed: different variable in the diagnostic.
   Real program: props/C10/corpus/rows_match_seed.py under PYTHONHASHSEED 0 vs 2 (pre-fix tree). *)
Theorem rows_match_variable_as_released_refuted :
  exists g inputs (perm perm' : list nat -> list nat),
    (forall l, Permutation (perm l) l) /\ (forall l, Permutation (perm' l) l) /\
    front_end_run [] (rm_coded perm) [] g inputs [] (fun _ => false) <>
    front_end_run [] (rm_coded perm') [] g inputs [] (fun _ => false).
Proof.
  exists ex_cfg, ex_inputs, (fun l => l), (@rev nat). split; [|split].
  - intros; apply Permutation_refl.
  - intros; apply Permutation_sym, Permutation_rev.
  - vm_compute. discriminate.
Qed.
Print Assumptions rows_match_variable_as_released_refuted.

(** ** REFUTATION for the released backward work list (site B): the liveness witness, hence the
       LOCATION of the diagnostic, depends on the pop order *)
(* def f(c, d): if c: x = 1 ; if d: t1 = (x,) else: t2 = (x,) ; return 0
   c=0 d=1 x=2 t1=3 t2=4.  Front of the ordered work list (fix-2): the use in block 5 is
   reported; popping block 6 then block 4 first: the use in block 6.
   Real program: props/C10/corpus/witness_layout.py (pre-fix tree, two interpreter runs). *)
Definition wit_cfg : xcfg :=
  [mkX (mkBlock [3;2] [] [0] []) [] [] [];
   mkX (mkBlock [] [] [] []) [7] [] [];
   mkX (mkBlock [4] [] [] [2]) [0] [] [(2,(1,3))];
   mkX (mkBlock [4] [] [] []) [0] [] [];
   mkX (mkBlock [6;5] [] [1] []) [2;3] [] [];
   mkX (mkBlock [7] [] [2] [3]) [4] [] [(3,(101,4))];
   mkX (mkBlock [7] [] [2] [4]) [4] [] [(4,(102,5))];
   mkX (mkBlock [1] [] [] []) [5;6] [] []].
Definition wit_inputs : row := [(0,(3,1)); (1,(3,2))].
Theorem liveness_witness_as_released_refuted :
  exists g inputs lsched lsched',
    wf_cfg (base g) = true /\
    enc (front_end_run lsched union_keys [] g inputs [] (fun _ => false)) = [2;5;2;1;0;0] /\
    enc (front_end_run lsched' union_keys [] g inputs [] (fun _ => false)) = [2;6;2;1;0;0].
Proof. exists wit_cfg, wit_inputs, [], [6;4]. vm_compute. auto. Qed.
Print Assumptions liveness_witness_as_released_refuted.

(** ** Tie of the oracle list to the source (Part T) *)
(* the inventory regenerated from the tree under test is exactly the reviewed one ... *)
Theorem sites_tie :
  gen_set_sites = map fst reviewed_set_sites /\ gen_unknown_sites = map fst reviewed_unknown_sites.
Proof. split; vm_compute; reflexivity. Qed.
Print Assumptions sites_tie.

(* the same for the set-order / hash() / id() / repr() sites of the WHOLE package (a new
   `hash(...)` anywhere in the compiler breaks this; nothing is proved about these sites) *)
Theorem all_sites_tie : gen_all_set_sites = map fst reviewed_all_set_sites.
Proof. vm_compute; reflexivity. Qed.
Print Assumptions all_sites_tie.

(* ... and its only oracle is the one diag_oracle_independent quantifies over *)
Theorem oracle_inventory :
  oracles_of reviewed_set_sites =
  ["F: pop order of the forward work list = sched_run (ass_step ...) / schedule fs"%string].
Proof. reflexivity. Qed.
Print Assumptions oracle_inventory.
