(** V.C10.Model — executable model of the part of the guppylang front end whose behaviour could
    depend on the iteration order of hashed collections:

      CFG.analyze                       (cfg/cfg.py)
        LivenessAnalysis + BackwardAnalysis.run    -- WITH the witness block and the key ORDER of
                                                      the per-block dict (C09 models key sets only)
        AssignmentAnalysis + ForwardAnalysis.run   -- imported from V.C09.Analysis
      check_cfg / check_bb / check_rows_match / diagnose_maybe_undefined   (checker/cfg_checker.py)
        up to the first error (definedness, branch-dependent types); statement type checking,
        linearity and unitarity are outside the model (the blocks' own statements are assumed
        to check, each assigned variable gets a fixed type).

    Definitions only.  ORACLES (one per unordered-iteration site, see Sites.v):
      * the pop order of the forward work list  = the schedule / [sched_run] of V.C09 (site F);
      * the pop order of the backward work list = the schedule [sched] of [wl_run] (site B; in the
        repaired code the work list is an insertion-ordered dict popped at the front, which is
        [sched = []], every pick has rank 0);
      * the order in which check_rows_match visits the variable names = the list [ks] of
        [rows_match_on] (site R; the repaired code visits them in row order = [union_keys]).

    Encoding.  Variables, blocks, types are naturals; a source position is a natural
    (line * 1000 + column, 0 = no position).  A use of [x] in block [w] is identified by [(w, x)]
    (Python: [w.vars.used[x]]); the harness maps it back to line:column. *)
From Coq Require Import List Bool Arith.
From V.C09 Require Import Analysis.
Import ListNotations.

(** * insertion-ordered dicts  variable -> witness block  (LivenessDomain) *)
Definition ldict := list (nat * nat).
Definition ld_keys (d : ldict) : list nat := map fst d.
Fixpoint ld_get (x : nat) (d : ldict) : option nat :=
  match d with
  | [] => None
  | (y, w) :: t => if x =? y then Some w else ld_get x t
  end.
(* Python [a | b]: keys of [a] keep their position and take [b]'s value when [b] has the key;
   the keys only in [b] follow in [b]'s order *)
Definition ld_union (a b : ldict) : ldict :=
  map (fun xw => match ld_get (fst xw) b with Some w' => (fst xw, w') | None => xw end) a
  ++ filter (fun xw => negb (memb (fst xw) (ld_keys a))) b.

Definition lvals := list ldict.
Definition getd (L : lvals) (b : nat) : ldict := nth b L [].

(** * CFGs with the extra data the checker looks at *)
Record xblock := mkX {
  xb : block;                          (* V.C09 block: succ, dummy succ, use (in order of first use), def *)
  x_pred : list nat;                   (* BB.predecessors, in list order *)
  x_dpred : list nat;                  (* BB.dummy_predecessors *)
  x_defs : list (nat * (nat * nat))    (* variable assigned in the block -> (type, position of the
                                          last assignment's target) *)
}.
Definition xcfg := list xblock.
Definition base (g : xcfg) : cfg := map xb g.
Definition empty_xblock := mkX empty_block [] [] [].
Definition xblk (g : xcfg) (b : nat) : xblock := nth b g empty_xblock.
Definition xsucc (g : xcfg) (b : nat) : list nat := b_succ (xb (xblk g b)).
Definition xdsucc (g : xcfg) (b : nat) : list nat := b_dsucc (xb (xblk g b)).
Definition xuse (g : xcfg) (b : nat) : list nat := b_use (xb (xblk g b)).
Definition xdef (g : xcfg) (b : nat) : list nat := b_def (xb (xblk g b)).

(* stats[exit].used |= {x: ... for x in inout_vars} *)
Definition add_new (l extra : list nat) : list nat :=
  fold_left (fun acc x => if memb x acc then acc else acc ++ [x]) extra l.
Definition xwith_exit_uses (g : xcfg) (inout : list nat) : xcfg :=
  let bl := xblk g exit_idx in
  let b0 := xb bl in
  setv g exit_idx (mkX (mkBlock (b_succ b0) (b_dsucc b0) (add_new (b_use b0) inout) (b_def b0))
                       (x_pred bl) (x_dpred bl) (x_defs bl)).

(** * liveness with witnesses (BackwardAnalysis.run, include_unreachable = True) *)
(* LivenessAnalysis.join:  res = {}; for t in ts: res |= t *)
Definition wl_join (L : lvals) (ss : list nat) : ldict :=
  fold_left (fun acc s => ld_union acc (getd L s)) ss [].
(* LivenessAnalysis.apply_bb:
   {x: bb for x in stats.used} | {x: b for x, b in live_after.items() if x not in stats.assigned} *)
Definition wl_transfer (g : xcfg) (b : nat) (a : ldict) : ldict :=
  ld_union (map (fun x => (x, b)) (xuse g b))
           (filter (fun xw => negb (memb (fst xw) (xdef g b))) a).
(* queue.update(dict.fromkeys(l)): new keys are appended, present ones keep their place *)
Definition wl_push (q l : list nat) : list nat := add_new q l.

Definition wstate := (list nat * lvals)%type.
Definition wl_step (g : xcfg) (b : nat) (s : wstate) : wstate :=
  let (q, L) := s in
  let v := wl_transfer g b (wl_join L (xsucc g b ++ xdsucc g b)) in
  let q' := q_remove b q in
  if set_eqb (ld_keys (getd L b)) (ld_keys v)          (* LivenessAnalysis.eq: same key set *)
  then (q', L)
  else (wl_push (wl_push q' (x_pred (xblk g b))) (x_dpred (xblk g b)), setv L b v).

Definition wl_init (g : xcfg) (I : ldict) : wstate := (seq 0 (length g), map (fun _ => I) g).
Definition wl_fuel (g : xcfg) (I : ldict) : nat := live_fuel (base g) (ld_keys I).
(* [sched = []]: always the front of the insertion-ordered work list (the repaired code);
   any other schedule: an arbitrary member (a [set] of identity-hashed blocks, as released) *)
Definition wl_run (g : xcfg) (I : ldict) (sched : list nat) : wstate :=
  run_with (wl_step g) fst sched (wl_fuel g I) (wl_init g I).

(** * check_cfg *)
Inductive outcome :=
| Accept
| NotDefined (w x : nat)                               (* VarNotDefinedError at use (w, x) *)
| MaybeUndef (w x : nat) (hint : option (nat * bool))  (* VarMaybeNotDefinedError (+ BadBranch note:
                                                          branching block, truth value) *)
| BranchType (w x p1 t1 p2 t2 : nat)                   (* BranchTypeError at use (w, x), two type hints *)
| KeyCrash                                             (* a Python KeyError (never observed) *)
| OutOfFuel.                                           (* model artefact (never observed) *)

Definition enc (o : outcome) : list nat :=
  match o with
  | Accept => [0]
  | NotDefined w x => [1; w; x]
  | MaybeUndef w x None => [2; w; x; 0]
  | MaybeUndef w x (Some (a, tv)) => [2; w; x; 1; a; if tv then 1 else 0]
  | BranchType w x p1 t1 p2 t2 => [3; w; x; p1; t1; p2; t2]
  | KeyCrash => [9]
  | OutOfFuel => [8]
  end.

Definition row := list (nat * (nat * nat)).        (* variable, (type, defined_at position) *)
Fixpoint assoc {A} (x : nat) (r : list (nat * A)) : option A :=
  match r with
  | [] => None
  | (y, v) :: t => if x =? y then Some v else assoc x t
  end.
Fixpoint first_some {A B} (f : A -> option B) (l : list A) : option B :=
  match l with
  | [] => None
  | a :: t => match f a with Some e => Some e | None => first_some f t end
  end.

Definition total_edges (g : xcfg) : nat :=
  fold_left (fun n bl => n + length (b_succ (xb bl)) + length (b_dsucc (xb bl))) g 0.

(* BaseCFG.ancestors: BFS over real predecessors, blocks in order of first visit *)
Fixpoint anc_bfs (g : xcfg) (fuel : nat) (queue visited : list nat) : list nat :=
  match fuel with
  | 0 => rev visited
  | S f =>
      match queue with
      | [] => rev visited
      | b :: q => if memb b visited then anc_bfs g f q visited
                  else anc_bfs g f (q ++ x_pred (xblk g b)) (b :: visited)
      end
  end.
Definition ancestors (g : xcfg) (starts : list nat) : list nat :=
  anc_bfs g (S (length starts + length g + total_edges g + total_edges g)) starts [].

Definition diagnose (g : xcfg) (w x : nat) : option (nat * bool) :=
  let ancs := ancestors g [w] in
  let assigns := filter (fun a => memb x (xdef g a)) ancs in
  let reaches := ancestors g assigns in
  first_some (fun a => match xsucc g a with
                       | [t; f] => if Bool.eqb (memb t reaches) (memb f reaches) then None
                                   else Some (a, memb t reaches)
                       | _ => None
                       end) ancs.

(* the iteration order of the repaired check_rows_match: keys of  map1 | map2 *)
Definition union_keys (r1 r2 : row) : list nat := add_new (add_new [] (map fst r1)) (map fst r2).
(* {v.name: v for v in row}[x]: the last entry wins *)
Definition row_get (x : nat) (r : row) : option (nat * nat) := assoc x (rev r).

Definition rows_match_var (LB : lvals) (r1 r2 : row) (b x : nat) : option outcome :=
  match row_get x r1, row_get x r2 with
  | Some (t1, p1), Some (t2, p2) =>
      if t1 =? t2 then None
      else match ld_get x (getd LB b) with
           | None => Some KeyCrash
           | Some w =>
               if negb (p1 =? 0) && negb (p2 =? 0) && (p2 <? p1)
               then Some (BranchType w x p2 t2 p1 t1)
               else Some (BranchType w x p1 t1 p2 t2)
           end
  | _, _ => Some KeyCrash
  end.
(* check_rows_match visiting the names in the order [ks] *)
Definition rows_match_on (LB : lvals) (r1 r2 : row) (b : nat) (ks : list nat) : option outcome :=
  first_some (rows_match_var LB r1 r2 b) ks.
Definition rows_match (LB : lvals) (r1 r2 : row) (b : nat) : option outcome :=
  rows_match_on LB r1 r2 b (union_keys r1 r2).

Section FrontEnd.
Variable g : xcfg.                 (* with the exit uses already added *)
Variable LB : lvals.               (* cfg.live_before *)
Variable asg : list nat.           (* cfg.assigned_somewhere *)
Variable glob : nat -> bool.       (* x in globals or x in generic_params *)
Variable inD0 : nat -> bool.       (* x in cfg.ass_before[entry] *)
Variable inM : nat -> nat -> bool. (* x in cfg.maybe_ass_before[w] *)
(* the order in which check_rows_match visits the names of the two rows (oracle R) *)
Variable rm_order : row -> row -> list nat.

Definition check_var (locals : row) (xw : nat * nat) : option outcome :=
  let (x, w) := xw in
  if memb x asg then
    match assoc x locals with
    | Some _ => None
    | None => if inM w x then Some (MaybeUndef w x (diagnose g w x)) else Some (NotDefined w x)
    end
  else if glob x then None else Some (NotDefined w x).

Definition out_row (locals : row) (s : nat) : row :=
  flat_map (fun x => match assoc x locals with Some v => [(x, v)] | None => [] end)
           (ld_keys (getd LB s)).

(* check_bb: inl error, or inr (output rows, dummy output rows) *)
Definition check_bb (b : nat) (inputs : row) : outcome + (list row * list row) :=
  let entry_err :=
    if b =? 0 then first_some (fun x => if negb (inD0 x) && (memb x asg || negb (glob x))
                                        then Some (NotDefined 0 x) else None) (xuse g 0)
    else None in
  match entry_err with
  | Some e => inl e
  | None =>
      let locals := x_defs (xblk g b) ++ inputs in
      match first_some (fun s => first_some (check_var locals) (getd LB s)) (xsucc g b ++ xdsucc g b) with
      | Some e => inl e
      | None => inr (map (out_row locals) (xsucc g b), map (out_row locals) (xdsucc g b))
      end
  end.

(* the BFS of check_cfg; a queue element is (input row offered by the predecessor, target) *)
Fixpoint bfs (fuel : nat) (queue : list (row * nat)) (compiled : list (nat * row)) : outcome :=
  match fuel with
  | 0 => OutOfFuel
  | S f =>
      match queue with
      | [] => Accept
      | (r, b) :: q =>
          match assoc b compiled with
          | Some r2 =>
              match rows_match_on LB r r2 b (rm_order r r2) with
              | Some e => e
              | None => bfs f q compiled
              end
          | None =>
              match check_bb b r with
              | inl e => e
              | inr (outs, _) => bfs f (q ++ rev (combine outs (xsucc g b))) ((b, r) :: compiled)
              end
          end
      end
  end.

Definition check_cfg_from (inputs : row) : outcome :=
  match check_bb 0 inputs with
  | inl e => e
  | inr (outs, douts) =>
      bfs (S (S (total_edges g))) (rev (combine (outs ++ douts) (xsucc g 0 ++ xdsucc g 0))) [(0, inputs)]
  end.
End FrontEnd.

(** * the front end:  cfg.analyze(...) ; check_cfg(...) up to the first error
    [lsched]: oracle B (pop order of the backward work list; [[]] = the repaired code)
    [rm]    : oracle R (visiting order of check_rows_match; [union_keys] = the repaired code)
    [D], [M]: ass_before / maybe_ass_before as left by the forward analysis under oracle F *)
Definition front_end_gen (lsched : list nat) (rm : row -> row -> list nat)
           (g0 : xcfg) (inputs : row) (inout : list nat) (glob : nat -> bool) (D M : vals) : outcome :=
  let g := xwith_exit_uses g0 inout in
  let I := map (fun x => (x, exit_idx)) inout in
  let ws := wl_run g I lsched in
  match fst ws with
  | _ :: _ => OutOfFuel
  | [] =>
      let names := map fst inputs in
      let asg := names ++ flat_map (fun bl => b_def (xb bl)) g in
      check_cfg_from g (snd ws) asg glob
        (fun x => (0 <? length g) && memb x (getv D 0))
        (fun w x => (w <? length g) && memb x (getv M w))
        rm inputs
  end.

(* /repo after fix-1 (row order) and fix-2 (insertion-ordered backward work list) *)
Definition front_end := front_end_gen [] union_keys.

(* the forward analysis the front end runs: CFG.analyze(ass_before, ass_before, inout) *)
Definition fe_cfg (g0 : xcfg) (inout : list nat) : cfg := with_exit_uses (base g0) inout.
Definition fe_names (inputs : row) : list nat := map fst inputs.

(* everything in one, for the correspondence harness: forward schedule [fs] *)
Definition front_end_run (lsched : list nat) (rm : row -> row -> list nat) (fs : list nat)
           (g0 : xcfg) (inputs : row) (inout : list nat) (glob : nat -> bool) : outcome :=
  let '(D, M) := assignment Repaired (fe_cfg g0 inout) (fe_names inputs) (fe_names inputs) fs in
  front_end_gen lsched rm g0 inputs inout glob D M.

(* oracle R as released: any rearrangement [perm] of the name set *)
Definition rm_coded (perm : list nat -> list nat) (r1 r2 : row) : list nat := perm (union_keys r1 r2).
